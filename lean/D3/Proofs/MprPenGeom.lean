/-
Geometry of the exits of `_find_penetration_info` at ℝ: the tolerance exit bounds the true
penetration depth by `depth + tol` and leaves a residual overlap below `tol` after translating
collider 2 by `depth · direction` (in *every* Voronoi region of the closest point, because
`depth · direction` *is* the closest point of the portal triangle, which lies in the portal
plane); depth is non-negative; direction is a unit vector or zero; the two special exits.
-/
import D3.Proofs.MprPenExit

set_option linter.unusedSectionVars false
set_option linter.unusedVariables false

namespace D3
namespace MprPen

/-- what a result of `finishPenetration` is made of -/
theorem exit_unpack {P : Portal ℝ} {e : ℕ} {n : V} {w : SP ℝ} {it : ℕ} {i : PenInfo ℝ}
    (h : finishPenetration P e n w it = .ok i) :
    ∃ (t : ℕ × ℝ × V) (c : V × ℕ),
      pointToTriangle V3.zero P.p1.v P.p2.v P.p3.v = .ok t ∧
      contactPosition P (portalDirection P.p1 P.p2 P.p3) = .ok c ∧
      i.depth = t.2.1 ∧
      i.dir = normVector (if absS t.2.1 < EPS then V3.zero else t.2.2) ∧
      i.pos = c.1 ∧ i.touch = decide (absS t.2.1 < EPS) ∧ i.tri = t.1 ∧ i.cpos = c.2 ∧
      i.portal = P ∧ i.exit = e := by
  obtain ⟨r, hr, hi⟩ := finishPenetration_ok h
  obtain ⟨t, c, ht, hc, hr2⟩ := penetrationInfo_ok hr
  refine ⟨t, c, ht, hc, ?_⟩
  rw [hi, hr2]
  exact ⟨rfl, rfl, rfl, rfl, rfl, rfl, rfl, rfl⟩

/-- closest point of the portal triangle, its norm, and its height along the portal normal -/
theorem closest_point_facts {v1 v2 v3 n : V} {t : ℕ × ℝ × V}
    (ht : pointToTriangle V3.zero v1 v2 v3 = .ok t) (hn : V3.normSq n = 1)
    (h2 : V3.dot v2 n = V3.dot v1 n) (h3 : V3.dot v3 n = V3.dot v1 n) :
    t.2.1 = V3.norm t.2.2 ∧ V3.dot t.2.2 n = V3.dot v1 n ∧ V3.dot v1 n ≤ t.2.1 ∧ 0 ≤ t.2.1 := by
  obtain ⟨α, β, γ, hs, hcp, hd⟩ := pointToTriangle_affine _ _ _ _ _ ht
  have hnorm : t.2.1 = V3.norm t.2.2 := by rw [hd, norm_neg]
  have hdot : V3.dot t.2.2 n = V3.dot v1 n := by rw [hcp]; exact dot_aff3 v1 v2 v3 n hs h2 h3
  refine ⟨hnorm, hdot, ?_, ?_⟩
  · rw [← hdot, hnorm]; exact dot_le_norm_of_unit hn
  · rw [hnorm]; exact V3.norm_nonneg _

/-- **tolerance exit, depth**: the penetration depth of the pair is below `depth + tol + ε` -/
theorem exit_depth_bound {A B : V → Prop} {sup : Sup ℝ} {tol : ℝ} {p0 : SP ℝ} {i : PenInfo ℝ}
    (hs : SupOK A B sup) (hf : ExitFacts A B sup tol p0 i) (he : i.exit = 0)
    (hnd : V3.cross (i.portal.p2.v - i.portal.p1.v) (i.portal.p3.v - i.portal.p1.v) ≠ V3.zero)
    (r : ℝ) (hr : DepthAtLeast (Mink A B) r) : r < i.depth + (tol + EPS) := by
  obtain ⟨hn1, h2, h3⟩ := portalDirection_spec _ _ _ hnd
  obtain ⟨t, c, ht, _, hdep, _, _, _, _, _, hP, _⟩ := exit_unpack hf.fin
  rw [← hf.n] at hn1 h2 h3
  have hreach := (reach_iff _ _ _ i.w.v i.n tol h2 h3).mp (hf.reach he)
  obtain ⟨_, _, hle, _⟩ := closest_point_facts ht hn1 h2 h3
  have hsup : r ≤ V3.dot i.w.v i.n := by
    apply depth_le_support hn1 hr
    intro m hm
    rw [hf.w]
    exact support_bound hs _ _ hm
  rw [hdep]
  linarith

/-- the translation `depth · direction` is the closest point of the portal triangle
(or zero in the touching case) -/
theorem exit_translation {P : Portal ℝ} {e : ℕ} {n : V} {w : SP ℝ} {it : ℕ} {i : PenInfo ℝ}
    (h : finishPenetration P e n w it = .ok i) :
    ∃ t : ℕ × ℝ × V, pointToTriangle V3.zero P.p1.v P.p2.v P.p3.v = .ok t ∧ i.depth = t.2.1 ∧
      ((i.touch = false ∧ i.depth * i.dir = t.2.2) ∨
       (i.touch = true ∧ i.dir = V3.zero ∧ |i.depth| < EPS)) := by
  obtain ⟨t, c, ht, _, hdep, hdir, _, htouch, _, _, _, _⟩ := exit_unpack h
  obtain ⟨α, β, γ, hs, hcp, hd⟩ := pointToTriangle_affine _ _ _ _ _ ht
  refine ⟨t, ht, hdep, ?_⟩
  by_cases hlt : absS t.2.1 < EPS
  · right
    refine ⟨by rw [htouch]; simp [hlt], ?_, ?_⟩
    · rw [hdir, if_pos hlt, normVector_of_zero]
    · rw [hdep, ← absS_real]; exact hlt
  · left
    refine ⟨by rw [htouch]; simp [hlt], ?_⟩
    rw [hdir, if_neg hlt, hdep, hd, norm_neg]
    exact norm_smul_normVector _

/-- **tolerance exit, residual**: after translating collider 2 by `depth · direction` the
remaining penetration depth is below `tol + 2ε` (below `tol + ε` unless the touching branch
`abs(depth) < EPSILON` replaced the direction by zero) -/
theorem exit_residual_bound {A B : V → Prop} {sup : Sup ℝ} {tol : ℝ} {p0 : SP ℝ} {i : PenInfo ℝ}
    (hs : SupOK A B sup) (hf : ExitFacts A B sup tol p0 i) (he : i.exit = 0)
    (hnd : V3.cross (i.portal.p2.v - i.portal.p1.v) (i.portal.p3.v - i.portal.p1.v) ≠ V3.zero)
    (r : ℝ) (hr : DepthAtLeast (Mink A (translate B (i.depth * i.dir))) r) :
    r < tol + EPS + EPS := by
  obtain ⟨hn1, h2, h3⟩ := portalDirection_spec _ _ _ hnd
  rw [← hf.n] at hn1 h2 h3
  have hreach := (reach_iff _ _ _ i.w.v i.n tol h2 h3).mp (hf.reach he)
  obtain ⟨t, ht, hdep, hcase⟩ := exit_translation hf.fin
  obtain ⟨_, hdot, hle, hnn⟩ := closest_point_facts ht hn1 h2 h3
  -- support value of the translated difference along n
  have hsup : r ≤ V3.dot i.w.v i.n - V3.dot (i.depth * i.dir) i.n := by
    apply depth_le_support hn1 hr
    intro m hm
    have hm' := (mink_translate A B _ m).mp hm
    have := support_bound hs i.n _ hm'
    rw [← hf.w] at this
    simp only [V3.dot_def, add_def] at this ⊢
    linarith
  rcases hcase with ⟨_, htr⟩ | ⟨_, hz, habs⟩
  · rw [htr, hdot] at hsup
    have := EPS_pos
    linarith
  · rw [hz] at hsup
    have hz0 : V3.dot (i.depth * (V3.zero : V)) i.n = 0 := by
      simp [V3.dot_def, hsmul_def, zero_def]
    rw [hz0] at hsup
    have : V3.dot i.portal.p1.v i.n ≤ i.depth := by rw [hdep]; exact hle
    have h4 : i.depth < EPS := lt_of_le_of_lt (le_abs_self _) habs
    linarith

/-- depth is a norm -/
theorem exit_depth_nonneg {P : Portal ℝ} {e : ℕ} {n : V} {w : SP ℝ} {it : ℕ} {i : PenInfo ℝ}
    (h : finishPenetration P e n w it = .ok i) : 0 ≤ i.depth := by
  obtain ⟨t, c, ht, _, hdep, _⟩ := exit_unpack h
  rw [hdep]; exact pointToTriangle_dist_nonneg _ _ _ _ _ ht

/-- direction: unit, or zero together with `abs(depth) < EPSILON` -/
theorem exit_direction {P : Portal ℝ} {e : ℕ} {n : V} {w : SP ℝ} {it : ℕ} {i : PenInfo ℝ}
    (h : finishPenetration P e n w it = .ok i) :
    V3.normSq i.dir = 1 ∨ (i.dir = V3.zero ∧ |i.depth| < EPS) := by
  obtain ⟨t, c, ht, _, hdep, hdir, _, _, _, _, _, _⟩ := exit_unpack h
  obtain ⟨α, β, γ, hs, hcp, hd⟩ := pointToTriangle_affine _ _ _ _ _ ht
  by_cases hlt : absS t.2.1 < EPS
  · right
    refine ⟨by rw [hdir, if_pos hlt, normVector_of_zero], ?_⟩
    rw [hdep, ← absS_real]; exact hlt
  · left
    rw [hdir, if_neg hlt]
    apply normVector_unit
    intro hz
    apply hlt
    rw [hd, hz, absS_real]
    have : V3.norm (V3.zero - (V3.zero : V)) = 0 := by
      rw [norm_neg]; exact (norm_eq_zero_iff _).mpr rfl
    rw [this, abs_zero]; exact EPS_pos

/-! ### the face region: direction = ± portal normal -/

/-- in the interior (face) region the closest point is the foot of the perpendicular from the
origin: it is orthogonal to both edge vectors -/
theorem face_region_orthogonal (a b c : V) (t : ℕ × ℝ × V)
    (ht : pointToTriangle V3.zero a b c = .ok t) (hbr : t.1 = 6) :
    V3.dot t.2.2 (b - a) = 0 ∧ V3.dot t.2.2 (c - a) = 0 := by
  unfold pointToTriangle at ht
  simp only [isZero_iff] at ht
  split_ifs at ht with c0 c1 c2 z2 c3 c4 z4 c5 z5 z6
  all_goals first
    | (rw [ptRes_eq ht] at hbr; simp at hbr; done)
    | skip
  rw [ptRes_eq ht]
  simp only
  have hD : (V3.dot (b - a) (V3.zero - b) * V3.dot (c - a) (V3.zero - c) -
        V3.dot (b - a) (V3.zero - c) * V3.dot (c - a) (V3.zero - b) +
        (V3.dot (b - a) (V3.zero - c) * V3.dot (c - a) (V3.zero - a) -
          V3.dot (b - a) (V3.zero - a) * V3.dot (c - a) (V3.zero - c)) +
        (V3.dot (b - a) (V3.zero - a) * V3.dot (c - a) (V3.zero - b) -
          V3.dot (b - a) (V3.zero - b) * V3.dot (c - a) (V3.zero - a))) ≠ 0 := z6
  have h1 : (1 : ℝ) / (V3.dot (b - a) (V3.zero - b) * V3.dot (c - a) (V3.zero - c) -
        V3.dot (b - a) (V3.zero - c) * V3.dot (c - a) (V3.zero - b) +
        (V3.dot (b - a) (V3.zero - c) * V3.dot (c - a) (V3.zero - a) -
          V3.dot (b - a) (V3.zero - a) * V3.dot (c - a) (V3.zero - c)) +
        (V3.dot (b - a) (V3.zero - a) * V3.dot (c - a) (V3.zero - b) -
          V3.dot (b - a) (V3.zero - b) * V3.dot (c - a) (V3.zero - a))) *
      (V3.dot (b - a) (V3.zero - b) * V3.dot (c - a) (V3.zero - c) -
        V3.dot (b - a) (V3.zero - c) * V3.dot (c - a) (V3.zero - b) +
        (V3.dot (b - a) (V3.zero - c) * V3.dot (c - a) (V3.zero - a) -
          V3.dot (b - a) (V3.zero - a) * V3.dot (c - a) (V3.zero - c)) +
        (V3.dot (b - a) (V3.zero - a) * V3.dot (c - a) (V3.zero - b) -
          V3.dot (b - a) (V3.zero - b) * V3.dot (c - a) (V3.zero - a))) = 1 :=
    one_div_mul_cancel hD
  generalize hDi : (1 : ℝ) / (V3.dot (b - a) (V3.zero - b) * V3.dot (c - a) (V3.zero - c) -
        V3.dot (b - a) (V3.zero - c) * V3.dot (c - a) (V3.zero - b) +
        (V3.dot (b - a) (V3.zero - c) * V3.dot (c - a) (V3.zero - a) -
          V3.dot (b - a) (V3.zero - a) * V3.dot (c - a) (V3.zero - c)) +
        (V3.dot (b - a) (V3.zero - a) * V3.dot (c - a) (V3.zero - b) -
          V3.dot (b - a) (V3.zero - b) * V3.dot (c - a) (V3.zero - a))) = Di at h1 ⊢
  simp only [V3.dot_def, add_def, hsmul_def, sub_def, zero_def] at h1 ⊢
  constructor
  · linear_combination (-(a.x * (b.x - a.x) + a.y * (b.y - a.y) + a.z * (b.z - a.z))) * h1
  · linear_combination (-(a.x * (c.x - a.x) + a.y * (c.y - a.y) + a.z * (c.z - a.z))) * h1

/-- a vector orthogonal to both edges of a non-degenerate triangle is its height along the unit
normal times the normal -/
theorem parallel_of_orthogonal {x e1 e2 : V} (hc : V3.cross e1 e2 ≠ V3.zero)
    (h1 : V3.dot x e1 = 0) (h2 : V3.dot x e2 = 0) :
    x = V3.dot x (normVector (V3.cross e1 e2)) * normVector (V3.cross e1 e2) := by
  have hp := norm_pos_of_ne hc
  have hsq := V3.norm_sq (V3.cross e1 e2)
  rw [dot_normVector hc, normVector_of_ne hc]
  generalize V3.norm (V3.cross e1 e2) = N at hp hsq ⊢
  have hN0 : N * N ≠ 0 := by positivity
  simp only [V3.dot_def, V3.normSq_def, cross_def, sdiv_def, hsmul_def] at *
  apply V3.ext' <;> simp only <;> rw [div_mul_div_comm, eq_div_iff hN0, hsq]
  · linear_combination
      ((e1.z * e2.x - e1.x * e2.z) * e1.z - (e1.x * e2.y - e1.y * e2.x) * e1.y) * h2 -
      ((e1.z * e2.x - e1.x * e2.z) * e2.z - (e1.x * e2.y - e1.y * e2.x) * e2.y) * h1
  · linear_combination
      ((e1.x * e2.y - e1.y * e2.x) * e1.x - (e1.y * e2.z - e1.z * e2.y) * e1.z) * h2 -
      ((e1.x * e2.y - e1.y * e2.x) * e2.x - (e1.y * e2.z - e1.z * e2.y) * e2.z) * h1
  · linear_combination
      ((e1.y * e2.z - e1.z * e2.y) * e1.y - (e1.z * e2.x - e1.x * e2.z) * e1.x) * h2 -
      ((e1.y * e2.z - e1.z * e2.y) * e2.y - (e1.z * e2.x - e1.x * e2.z) * e2.x) * h1

/-- a non-zero multiple of a unit vector normalises to plus or minus that vector -/
theorem normVector_of_parallel {x n : V} (hn : V3.normSq n = 1) (hx : x = V3.dot x n * n)
    (hne : x ≠ V3.zero) : normVector x = n ∨ normVector x = -n := by
  set δ := V3.dot x n with hδ
  have hδ0 : δ ≠ 0 := by
    intro h0
    apply hne
    rw [hx, h0]
    apply V3.ext' <;> simp [hsmul_def, zero_def]
  have hnsq : V3.normSq x = δ * δ := by
    rw [hx]
    simp only [V3.normSq_def, hsmul_def] at hn ⊢
    linear_combination (δ * δ) * hn
  have hnorm : V3.norm x = |δ| := by
    rw [V3.norm_def, hnsq, ← sq, Real.sqrt_sq_eq_abs]
  rw [normVector_of_ne hne, hnorm]
  rcases lt_or_gt_of_ne hδ0 with hneg | hpos
  · right
    rw [abs_of_neg hneg, hx]
    apply V3.ext' <;> simp only [sdiv_def, hsmul_def, neg_def] <;> field_simp
  · left
    rw [abs_of_pos hpos, hx]
    apply V3.ext' <;> simp only [sdiv_def, hsmul_def] <;> field_simp

end MprPen
end D3
