/-
C09 — `project_line_origin` is sound (returns the min-norm point of the segment, a point of `M`)
under the precondition that holds in the un-accelerated iteration: the newest point `a` was found
as a support point along `-b`, hence `⟨a, b⟩ ≤ ⟨b, b⟩`.
-/
import D3.Proofs.NesterovLoop

namespace D3
namespace Nesterov

def ConvexSet (M : V → Prop) : Prop :=
  ∀ x y, M x → M y → ∀ t : ℝ, 0 ≤ t → t ≤ 1 → M (x + t * (y - x))

theorem isZero_iff (x : ℝ) : isZero x ↔ x = 0 := by
  unfold isZero; constructor
  · rintro ⟨h1, h2⟩; linarith
  · rintro rfl; exact ⟨le_refl _, le_refl _⟩

theorem normSq_lerp (a b : V) (t : ℝ) :
    V3.normSq (a + t * (b - a)) =
      V3.normSq a - 2 * t * V3.dot (b - a) (-a) + t * t * V3.normSq (b - a) := by
  simp only [V3.normSq_def, V3.dot_def, V3.add_x, V3.add_y, V3.add_z, V3.smul_x, V3.smul_y, V3.smul_z,
    V3.sub_x, V3.sub_y, V3.sub_z, V3.neg_x, V3.neg_y, V3.neg_z]
  ring

theorem norm_le_of_normSq_le {a b : V} (h : V3.normSq a ≤ V3.normSq b) : V3.norm a ≤ V3.norm b := by
  rw [V3.norm_def, V3.norm_def]; exact Real.sqrt_le_sqrt h

/-- `project_line_origin` under the un-accelerated precondition `⟨a,b⟩ ≤ ⟨b,b⟩` (A = row 1 newest,
B = row 0): the result is a point of the segment — hence of any convex `M` containing A and B —
the kept rows are A and/or B, and no point of the segment is closer to the origin. -/
theorem projectLineOrigin_sound {M : V → Prop} (hM : ConvexSet M) (s : Simplex ℝ) (p : Proj ℝ)
    (ha : M s.p1) (hb : M s.p0) (hpre : V3.dot s.p1 s.p0 ≤ V3.dot s.p0 s.p0)
    (h : projectLineOrigin s = .ok p) :
    M p.ray ∧ rowsIn M p.simplex p.len ∧
      ∀ t : ℝ, 0 ≤ t → t ≤ 1 → V3.norm p.ray ≤ V3.norm (s.p1 + t * (s.p0 - s.p1)) := by
  set a := s.p1 with haa
  set b := s.p0 with hbb
  have hd : V3.dot (b - a) (-a) = V3.dot a a - V3.dot a b := by
    simp only [V3.dot_def, V3.sub_x, V3.sub_y, V3.sub_z, V3.neg_x, V3.neg_y, V3.neg_z]; ring
  have hab : V3.normSq (b - a) = V3.dot a a - 2 * V3.dot a b + V3.dot b b := by
    simp only [V3.normSq_def, V3.dot_def, V3.sub_x, V3.sub_y, V3.sub_z]; ring
  have hpoint : V3.dot (b - a) (-a) ≤ 0 → ∀ t : ℝ, 0 ≤ t → t ≤ 1 →
      V3.norm a ≤ V3.norm (a + t * (b - a)) := by
    intro hle t ht0 _
    apply norm_le_of_normSq_le
    rw [normSq_lerp]
    nlinarith [V3.normSq_nonneg (b - a), mul_nonneg ht0 ht0, mul_nonneg ht0 (neg_nonneg.mpr hle)]
  unfold projectLineOrigin at h
  simp only [← haa, ← hbb] at h
  split at h
  · -- d == 0
    rename_i hz
    rw [isZero_iff] at hz
    injection h with h; subst h
    refine ⟨ha, ?_, hpoint (le_of_eq hz)⟩
    simp [rowsIn, originToPoint, ha]
  · split at h
    · rename_i _ hneg
      injection h with h; subst h
      refine ⟨ha, ?_, hpoint (le_of_lt hneg)⟩
      simp [rowsIn, originToPoint, ha]
    · rename_i hnz hnn
      rw [isZero_iff] at hnz
      have hdpos : 0 < V3.dot (b - a) (-a) := lt_of_le_of_ne (not_lt.mp hnn) (Ne.symm hnz)
      simp only [originToSegment] at h
      split at h
      · rename_i hden
        injection h with h; subst h
        have hD : 0 < V3.dot (b - a) (b - a) := by
          rcases hden with h1 | h1
          · exact absurd (V3.normSq_nonneg (b - a)) (not_le.mpr h1)
          · exact h1
        set D := V3.dot (b - a) (b - a) with hDdef
        set d := V3.dot (b - a) (-a) with hddef
        have hDab : D = V3.normSq (b - a) := rfl
        have ht1 : d / D ≤ 1 := by
          rw [div_le_one hD, hDab, hab, hd]; linarith
        have ht0 : 0 ≤ d / D := div_nonneg hdpos.le hD.le
        have hray : V3.sdiv (V3.smul (V3.dot (b - a) b) a + V3.smul d b) D = a + (d / D) * (b - a) := by
          have hbb' : V3.dot (b - a) b = D - d := by
            simp only [hDdef, hddef, V3.dot_def, V3.sub_x, V3.sub_y, V3.sub_z, V3.neg_x, V3.neg_y,
              V3.neg_z]; ring
          rw [hbb']
          apply V3.ext' <;> simp [V3.sdiv, V3.smul] <;> field_simp <;> ring
        simp only [hray]
        refine ⟨hM a b ha hb _ ht0 ht1, ?_, ?_⟩
        · simp [rowsIn, ha, hb]
        · intro t _ _
          apply norm_le_of_normSq_le
          rw [normSq_lerp, normSq_lerp, ← hddef, ← hDab]
          have : d / D * D = d := div_mul_cancel₀ d (ne_of_gt hD)
          have hsq : 0 ≤ (t * D - d) * (t * D - d) := mul_self_nonneg _
          have e1 : V3.normSq a - 2 * (d / D) * d + d / D * (d / D) * D = V3.normSq a - d * d / D := by
            field_simp; ring
          rw [e1]
          have e2 : V3.normSq a - 2 * t * d + t * t * D - (V3.normSq a - d * d / D)
              = (t * D - d) * (t * D - d) / D := by field_simp; ring
          have : 0 ≤ (t * D - d) * (t * D - d) / D := div_nonneg hsq hD.le
          linarith
      · cases h

end Nesterov
end D3
