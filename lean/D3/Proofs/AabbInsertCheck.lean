/-
Executable (Bool) versions of the hypotheses of `insertLeaf_refines`, polymorphic in the
scalar so that they can be evaluated on `Rat` states by `decide +kernel`, with soundness
w.r.t. the `Prop` hypotheses at ℝ.
-/
import D3.Proofs.AabbInsertHistory

set_option linter.unusedSectionVars false
set_option linter.unusedVariables false

namespace D3
namespace Aabb

scalar_variables

/-- executable `RepP` -/
def repPB (nodes : Array Node) (aabbs : Array (Box α)) : Int → T α → Bool
  | par, .leaf i b =>
    match rd nodes i, rd aabbs i with
    | .ok nd, .ok b' => decide (nd = ⟨par, INDEX_NONE, INDEX_NONE, TYPE_LEAF⟩) && decide (b' = b)
    | _, _ => false
  | par, .node i b l r =>
    match rd nodes i, rd aabbs i with
    | .ok nd, .ok b' => decide (nd = ⟨par, l.idx, r.idx, TYPE_BRANCH⟩) && decide (b' = b) &&
        repPB nodes aabbs i l && repPB nodes aabbs i r
    | _, _ => false

theorem repPB_sound (nodes : Array Node) (aabbs : Array (Box α)) :
    ∀ (t : T α) (par : Int), repPB nodes aabbs par t = true → RepP nodes aabbs par t
  | .leaf i b, par, h => by
    unfold repPB at h
    split at h
    · rename_i nd b' h1 h2
      simp only [Bool.and_eq_true, decide_eq_true_eq] at h
      exact ⟨h.1 ▸ h1, h.2 ▸ h2⟩
    · cases h
  | .node i b l r, par, h => by
    unfold repPB at h
    split at h
    · rename_i nd b' h1 h2
      simp only [Bool.and_eq_true, decide_eq_true_eq] at h
      exact ⟨h.1.1.1 ▸ h1, h.1.1.2 ▸ h2, repPB_sound nodes aabbs l i h.1.2,
        repPB_sound nodes aabbs r i h.2⟩
    · cases h

/-- executable `Box.Valid` -/
def validB (b : Box α) : Bool :=
  decide (b.lo0 ≤ b.hi0) && decide (b.lo1 ≤ b.hi1) && decide (b.lo2 ≤ b.hi2)

/-- executable `T.AllValid` -/
def allValidB : T α → Bool
  | .leaf _ b => validB b
  | .node _ b l r => validB b && allValidB l && allValidB r

def inRB {β : Type} (a : Array β) (i : Int) : Bool := decide (0 ≤ i) && decide (i.toNat < a.size)

/-- executable form of all hypotheses of `insertLeaf_refines` for the state `c` encoding `t`,
the pending leaf row `leaf` and the fresh parent row `c.filledLen` -/
def insertPreB (c : Core α) (t : T α) (leaf : Int) : Bool :=
  repPB c.nodes c.aabbs INDEX_NONE t && decide (t.idx = c.root) && nodupB t.indices &&
  t.tightB && allValidB t &&
  (match rd c.nodes leaf, rd c.aabbs leaf with
   | .ok nl, .ok lb => decide (nl.left = INDEX_NONE) && decide (nl.right = INDEX_NONE) && validB lb
   | _, _ => false) &&
  !(t.indices.contains leaf) && inRB c.nodes c.filledLen && inRB c.aabbs c.filledLen &&
  decide ((c.filledLen : Int) ≠ leaf) && !(t.indices.contains (c.filledLen : Int))

theorem validB_sound (b : Box ℝ) (h : validB b = true) : b.Valid := by
  simp only [validB, Bool.and_eq_true, decide_eq_true_eq] at h
  exact ⟨h.1.1, h.1.2, h.2⟩

theorem allValidB_sound : ∀ (t : T ℝ), allValidB t = true → t.AllValid
  | .leaf _ b, h => validB_sound b h
  | .node _ b l r, h => by
    simp only [allValidB, Bool.and_eq_true] at h
    exact ⟨validB_sound b h.1.1, allValidB_sound l h.1.2, allValidB_sound r h.2⟩

/-- what a successful `insertPreB` establishes at ℝ: exactly the hypotheses of
`insertLeaf_refines` -/
theorem insertPreB_sound (c : Core ℝ) (t : T ℝ) (leaf : Int) (h : insertPreB c t leaf = true) :
    ∃ nl lb, RepP c.nodes c.aabbs INDEX_NONE t ∧ t.idx = c.root ∧ t.indices.Nodup ∧ t.Tight ∧
      t.AllValid ∧ rd c.nodes leaf = .ok nl ∧ nl.left = INDEX_NONE ∧ nl.right = INDEX_NONE ∧
      rd c.aabbs leaf = .ok lb ∧ lb.Valid ∧ leaf ∉ t.indices ∧ InR c.nodes c.filledLen ∧
      InR c.aabbs c.filledLen ∧ (c.filledLen : Int) ≠ leaf ∧ (c.filledLen : Int) ∉ t.indices := by
  unfold insertPreB at h
  simp only [Bool.and_eq_true] at h
  obtain ⟨⟨⟨⟨⟨⟨⟨⟨⟨⟨h1, h2⟩, h3⟩, h4⟩, h5⟩, h6⟩, h7⟩, h8⟩, h9⟩, h10⟩, h11⟩ := h
  split at h6
  · rename_i nl lb hnl hlb
    simp only [Bool.and_eq_true, decide_eq_true_eq] at h6
    simp only [inRB, Bool.and_eq_true, decide_eq_true_eq] at h8 h9
    simp only [decide_eq_true_eq] at h2 h10
    simp only [Bool.not_eq_eq_eq_not, Bool.not_true, List.contains_eq_mem, decide_eq_false_iff_not]
      at h7 h11
    exact ⟨nl, lb, repPB_sound _ _ t _ h1, h2, nodupB_sound _ h3, tightB_sound t h4,
      allValidB_sound t h5, hnl, h6.1.1, h6.1.2, hlb, validB_sound lb h6.2, h7, h8, h9, h10, h11⟩
  · cases h6

end Aabb
end D3
