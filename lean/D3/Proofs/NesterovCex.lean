/-
C09 — concrete runs of the faithful Nesterov model at ℝ:
* the inflation of a sphere is subtracted although the generic world-frame support pair was used
  (unit sphere against a convex hull: modelled output 3, true distance 4);
* `project_line_origin` extrapolates beyond the segment when the newest point was not obtained
  from the un-accelerated search direction.
-/
import D3.Proofs.NesterovBasic

namespace D3
namespace Nesterov

@[simp] theorem mk_add_mk (a b c d e f : ℝ) : (⟨a, b, c⟩ + ⟨d, e, f⟩ : V) = ⟨a + d, b + e, c + f⟩ := rfl
@[simp] theorem mk_sub_mk (a b c d e f : ℝ) : (⟨a, b, c⟩ - ⟨d, e, f⟩ : V) = ⟨a - d, b - e, c - f⟩ := rfl
@[simp] theorem neg_mk (a b c : ℝ) : (-(⟨a, b, c⟩ : V)) = ⟨-a, -b, -c⟩ := rfl

theorem normx (x : ℝ) : V3.norm (⟨x, 0, 0⟩ : V) = |x| := by
  rw [V3.norm_def, V3.normSq_def]
  simp only [mul_zero, add_zero]
  exact Real.sqrt_mul_self_eq_abs x

theorem abs_x_le_norm (a : V) : |a.x| ≤ V3.norm a := by
  rw [← Real.sqrt_mul_self_eq_abs, V3.norm_def, V3.normSq_def]
  apply Real.sqrt_le_sqrt
  nlinarith [mul_self_nonneg a.y, mul_self_nonneg a.z]

/-! ### sphere (specialised type, inflated) against a convex hull (generic support) -/

/-- `Sphere(center=(0,0,0), radius=1)` -/
def cexC0 : Coll ℝ := ⟨.sphere, ⟨0, 0, 0⟩, 1⟩
/-- `ConvexHullVertices(...)`: no specialised support (`found = False`) -/
def cexC1 : Coll ℝ := ⟨.other, ⟨0, 0, 0⟩, 0⟩
def cexVerts : List V := [⟨5, 0, 0⟩, ⟨5, 1, 0⟩, ⟨5, 0, 1⟩, ⟨6, 0, 0⟩]

/-- `Sphere.support_function` of the unit sphere at the origin -/
noncomputable def cexGen0 : V → Except Err V := fun d => .ok (sphereWorldSupport ⟨0, 0, 0⟩ 1 d)
/-- `ConvexHullVertices.support_function` -/
noncomputable def cexGen1 : V → Except Err V := hullSupport cexVerts

noncomputable def cexSupp : Unit → V → Except Err ((V × V) × Unit) :=
  fun _ dir => (supportFunction cexC0 cexC1 M3.one ⟨5, 0, 0⟩ cexGen0 cexGen1 dir).map fun p => (p, ())

theorem cex_dispatch_generic : dispatchBranch cexC0 cexC1 = 1 := by
  simp [dispatchBranch, cexC0, cexC1, Kind.found]

theorem cex_inflation_before_fix : inflationOf_asIs_before_fix cexC0 cexC1 = 1 := by
  simp [inflationOf_asIs_before_fix, cexC0, cexC1, Kind.inflated]

/-- after the repair the same pair gets no inflation -/
theorem cex_inflation : inflationOf cexC0 cexC1 = 0 := by
  simp [inflationOf, cexC0, cexC1, Kind.found]

/-! ### the dispatch after the repair: inflation only together with the core supports -/

/-- generic fall-back ⇒ no inflation -/
theorem inflationOf_generic (c0 c1 : Coll ℝ) (h : dispatchBranch c0 c1 = 1) : inflationOf c0 c1 = 0 := by
  unfold dispatchBranch at h
  unfold inflationOf
  split
  · rename_i hf; rw [if_pos hf] at h; cases h
  · rfl

/-- for two specialised colliders (all the primitives variant accepts) nothing changed -/
theorem inflationOf_eq_before_fix_of_found (c0 c1 : Coll ℝ) (h : dispatchBranch c0 c1 = 0) :
    inflationOf c0 c1 = inflationOf_asIs_before_fix c0 c1 := by
  unfold dispatchBranch at h
  unfold inflationOf
  split
  · rfl
  · rename_i hf; rw [if_neg hf] at h; cases h

/-- with core supports the inflation is the sum of the radii of the inflated colliders -/
theorem inflationOf_core (c0 c1 : Coll ℝ) (h : dispatchBranch c0 c1 = 0) :
    inflationOf c0 c1 = (if c0.kind.inflated then c0.radius else 0) + (if c1.kind.inflated then c1.radius else 0) := by
  rw [inflationOf_eq_before_fix_of_found c0 c1 h]
  unfold inflationOf_asIs_before_fix
  split <;> split <;> simp

theorem supp0 : cexSupp () ⟨-1, 0, 0⟩ = .ok ((⟨-1, 0, 0⟩, ⟨6, 0, 0⟩), ()) := by
  norm_num [cexSupp, cexGen0, cexGen1, supportFunction, cexC0, cexC1, Kind.found, sphereWorldSupport,
    hullSupport, cexVerts, hullSupportFrom, normx, Except.map, V3.dot_def, V3.sdiv, V3.smul, isZero, bind,
    Except.bind]

theorem supp1 : cexSupp () ⟨7, 0, 0⟩ = .ok ((⟨1, 0, 0⟩, ⟨5, 0, 0⟩), ()) := by
  norm_num [cexSupp, cexGen0, cexGen1, supportFunction, cexC0, cexC1, Kind.found, sphereWorldSupport,
    hullSupport, cexVerts, hullSupportFrom, normx, Except.map, V3.dot_def, V3.sdiv, V3.smul, isZero, bind,
    Except.bind]

theorem supp2 : cexSupp () ⟨4, 0, 0⟩ = .ok ((⟨1, 0, 0⟩, ⟨5, 0, 0⟩), ()) := by
  norm_num [cexSupp, cexGen0, cexGen1, supportFunction, cexC0, cexC1, Kind.found, sphereWorldSupport,
    hullSupport, cexVerts, hullSupportFrom, normx, Except.map, V3.dot_def, V3.sdiv, V3.smul, isZero, bind,
    Except.bind]

noncomputable def cexCfg : Cfg ℝ := ⟨128, 1.79769e+308 + 1, 1e-06, 1, false⟩

def z3 : V := ⟨0, 0, 0⟩

def cexSt1 : St ℝ :=
  { i := 1, accel := false, alpha := 0
    simplex := ⟨⟨-7, 0, 0⟩, z3, z3, z3⟩
    len := 1
    ray := ⟨-7, 0, 0⟩, rayLen := 7, rayDir := ⟨1, 0, 0⟩, supportPoint := ⟨-7, 0, 0⟩ }

def cexSt2 : St ℝ :=
  { i := 2, accel := false, alpha := 4
    simplex := ⟨⟨-4, 0, 0⟩, ⟨-4, 0, 0⟩, z3, z3⟩
    len := 1
    ray := ⟨-4, 0, 0⟩, rayLen := 4, rayDir := ⟨-7, 0, 0⟩, supportPoint := ⟨-4, 0, 0⟩ }

def cexRes : Res ℝ := ⟨false, 3, ⟨⟨-4, 0, 0⟩, ⟨-4, 0, 0⟩, z3, z3⟩, 1, 2, 3⟩

theorem pass0 : pass cexCfg cexSupp (initSt false) () = .ok (.next cexSt1 ()) := by
  norm_num [pass, decideStep, afterProject, projRayLen, Except.map, initSt, cexCfg, cexSt1, nextRayDir, supp0, omegaOf, cdiv, normx, V3.dot_def, bind,
    Except.bind, Simplex.setRow, project, fwGapSmall, cvCheckPassed, isZero, z3]

theorem pass1 : pass cexCfg cexSupp cexSt1 () = .ok (.next cexSt2 ()) := by
  norm_num [pass, decideStep, afterProject, projRayLen, Except.map, cexCfg, cexSt1, cexSt2, nextRayDir, supp1, omegaOf, cdiv, normx, V3.dot_def, bind,
    Except.bind, Simplex.setRow, project, projectLineOrigin, originToPoint, fwGapSmall, cvCheckPassed,
    isZero, z3]

theorem pass2 : pass cexCfg cexSupp cexSt2 () = .ok (.done cexRes ()) := by
  norm_num [pass, decideStep, afterProject, projRayLen, Except.map, cexCfg, cexSt2, cexRes, nextRayDir, supp2, omegaOf, cdiv, normx, V3.dot_def, bind,
    Except.bind, Simplex.setRow, fwGapSmall, cvCheckPassed, isZero, z3]

theorem cex_run : gjk 128 1.79769e+308 1e-06 (1 : ℝ) false false cexSupp () = .ok (cexRes, ()) := by
  have hcfg : (⟨128, 1.79769e+308 + 1, 1e-06, 1, false⟩ : Cfg ℝ) = cexCfg := rfl
  have h0 : (initSt false : St ℝ).i < cexCfg.maxIter := by simp [initSt, cexCfg]
  have h1 : cexSt1.i < cexCfg.maxIter := by simp [cexSt1, cexCfg]
  have h2 : cexSt2.i < cexCfg.maxIter := by simp [cexSt2, cexCfg]
  unfold gjk
  rw [hcfg, show (128 + 2 : Nat) = 127 + 1 + 1 + 1 from rfl, loop]
  simp only [h0, if_true, pass0, bind, Except.bind]
  rw [loop]
  simp only [h1, if_true, pass1, bind, Except.bind]
  rw [loop]
  simp only [h2, if_true, pass2, bind, Except.bind]

/-! the same scene after the repair: inflation 0, result 4 -/

noncomputable def cexCfg0 : Cfg ℝ := ⟨128, 1.79769e+308 + 0, 1e-06, 0, false⟩
def cexRes0 : Res ℝ := ⟨false, 4, ⟨⟨-4, 0, 0⟩, ⟨-4, 0, 0⟩, z3, z3⟩, 1, 2, 3⟩

theorem pass0' : pass cexCfg0 cexSupp (initSt false) () = .ok (.next cexSt1 ()) := by
  norm_num [pass, decideStep, afterProject, projRayLen, Except.map, initSt, cexCfg0, cexSt1, nextRayDir, supp0,
    omegaOf, cdiv, normx, V3.dot_def, bind, Except.bind, Simplex.setRow, project, fwGapSmall, cvCheckPassed,
    isZero, z3]

theorem pass1' : pass cexCfg0 cexSupp cexSt1 () = .ok (.next cexSt2 ()) := by
  norm_num [pass, decideStep, afterProject, projRayLen, Except.map, cexCfg0, cexSt1, cexSt2, nextRayDir, supp1,
    omegaOf, cdiv, normx, V3.dot_def, bind, Except.bind, Simplex.setRow, project, projectLineOrigin,
    originToPoint, fwGapSmall, cvCheckPassed, isZero, z3]

theorem pass2' : pass cexCfg0 cexSupp cexSt2 () = .ok (.done cexRes0 ()) := by
  norm_num [pass, decideStep, afterProject, projRayLen, Except.map, cexCfg0, cexSt2, cexRes0, nextRayDir, supp2,
    omegaOf, cdiv, normx, V3.dot_def, bind, Except.bind, Simplex.setRow, fwGapSmall, cvCheckPassed, isZero, z3]

theorem cex_run_fixed : gjk 128 1.79769e+308 1e-06 (0 : ℝ) false false cexSupp () = .ok (cexRes0, ()) := by
  have hcfg : (⟨128, 1.79769e+308 + 0, 1e-06, 0, false⟩ : Cfg ℝ) = cexCfg0 := rfl
  have h0 : (initSt false : St ℝ).i < cexCfg0.maxIter := by simp [initSt, cexCfg0]
  have h1 : cexSt1.i < cexCfg0.maxIter := by simp [cexSt1, cexCfg0]
  have h2 : cexSt2.i < cexCfg0.maxIter := by simp [cexSt2, cexCfg0]
  unfold gjk
  rw [hcfg, show (128 + 2 : Nat) = 127 + 1 + 1 + 1 from rfl, loop]
  simp only [h0, if_true, pass0', bind, Except.bind]
  rw [loop]
  simp only [h1, if_true, pass1', bind, Except.bind]
  rw [loop]
  simp only [h2, if_true, pass2', bind, Except.bind]

/-! the sets of the scene and their true distance -/

/-- the unit ball at the origin -/
def cexBall : V → Prop := fun p => V3.norm p ≤ 1

/-- convex hull of `cexVerts` -/
def cexHull : V → Prop := fun q => ∃ w0 w1 w2 w3 : ℝ, 0 ≤ w0 ∧ 0 ≤ w1 ∧ 0 ≤ w2 ∧ 0 ≤ w3 ∧
  w0 + w1 + w2 + w3 = 1 ∧ q = ⟨5 * w0 + 5 * w1 + 5 * w2 + 6 * w3, w1, w2⟩

theorem cex_true_distance : IsDist (mdiff cexBall cexHull) 4 := by
  constructor
  · rintro z ⟨p, q, hp, ⟨w0, w1, w2, w3, h0, h1, h2, h3, hs, rfl⟩, rfl⟩
    have hpx : |p.x| ≤ 1 := le_trans (abs_x_le_norm p) hp
    have hx := abs_x_le_norm (p - ⟨5 * w0 + 5 * w1 + 5 * w2 + 6 * w3, w1, w2⟩)
    simp only [V3.sub_x] at hx
    have := abs_le.mp hpx
    have h5 : 4 ≤ |p.x - (5 * w0 + 5 * w1 + 5 * w2 + 6 * w3)| := by
      rw [abs_sub_comm, le_abs]; left; nlinarith
    linarith
  · intro ε hε
    refine ⟨⟨1, 0, 0⟩ - ⟨5, 0, 0⟩, ⟨⟨1, 0, 0⟩, ⟨5, 0, 0⟩, ?_, ⟨1, 0, 0, 0, ?_⟩, rfl⟩, ?_⟩
    · simp [cexBall, normx]
    · norm_num
    · rw [mk_sub_mk]; norm_num [normx]; linarith

/-! ### `project_line_origin` outside its (un-accelerated) precondition -/

/-- B = (1,0,0) older point, A = (3,0,0) newest point: the origin lies in the Voronoi region of B,
which the routine never tests; it returns the point of the *line* closest to the origin, here
the origin itself, although the segment is at distance 1. -/
theorem projectLineOrigin_extrapolates :
    (projectLineOrigin (⟨⟨1, 0, 0⟩, ⟨3, 0, 0⟩, z3, z3⟩ : Simplex ℝ)).map (fun p => (p.ray, p.len, p.inside)) =
      .ok (⟨0, 0, 0⟩, 2, false) := by
  norm_num [projectLineOrigin, originToSegment, V3.dot_def, V3.sdiv, V3.smul, isZero, Except.map, z3]

/-! ### `project_tetra_to_origin` inside the un-accelerated iteration -/

/-- rows D, C, B (the triangle kept by the previous projection) and the newest point A -/
def tetD : V := ⟨4, -2, 1⟩
def tetC : V := ⟨4, 0, -1⟩
def tetB : V := ⟨4, 3, 0⟩
def tetA : V := ⟨2, -1, 1⟩
def tetS : Simplex ℝ := ⟨tetD, tetC, tetB, tetA⟩

/-- the state is one the un-accelerated loop can be in: the previous ray `v = (4,0,0)` is the foot of
the origin on the plane of the triangle and lies strictly inside it (weights 3/8, 3/8, 1/4), the rows
have the orientation `origin_to_triangle` leaves behind, and the newest point lies beyond the supporting
plane of `v` (`⟨v, A⟩ < ⟨v, v⟩`, it is the minimiser of `⟨v, ·⟩` over the four points). -/
theorem tet_precondition :
    (⟨4, 0, 0⟩ : V) = (3 / 8 : ℝ) * tetD + ((3 / 8 : ℝ) * tetC + (1 / 4 : ℝ) * tetB) ∧
    V3.dot (⟨4, 0, 0⟩ : V) tetD = 16 ∧ V3.dot (⟨4, 0, 0⟩ : V) tetC = 16 ∧ V3.dot (⟨4, 0, 0⟩ : V) tetB = 16 ∧
    V3.dot (⟨4, 0, 0⟩ : V) tetA = 8 ∧
    0 < V3.dot (V3.cross (tetC - tetB) (tetD - tetB)) (-tetB) := by
  refine ⟨?_, ?_, ?_, ?_, ?_, ?_⟩
  · apply V3.ext' <;> norm_num [tetD, tetC, tetB]
  all_goals norm_num [V3.dot_def, V3.cross, tetD, tetC, tetB, tetA]

/-- the routine selects the edge region A–D although the origin projects outside that edge
(`origin_to_segment` is called with a negative parameter) and returns `(0,0,1)`, a point of norm 1 -/
theorem projectTetra_run :
    (projectTetraToOrigin tetS).map (fun p => (p.ray, p.len, p.inside)) = .ok (⟨0, 0, 1⟩, 2, false) := by
  norm_num [projectTetraToOrigin, tetS, tetD, tetC, tetB, tetA, regionAD, regionAB, regionAC, regionA, regionABC,
    regionACD, regionADB, originToSegment, V3.dot_def, V3.cross, V3.sdiv, V3.smul, Except.map]

/-- … while every point of the tetrahedron has squared norm at least 125/21 > 1 -/
theorem tetra_hull_far (w0 w1 w2 w3 : ℝ) (h0 : 0 ≤ w0) (h1 : 0 ≤ w1) (h2 : 0 ≤ w2) (h3 : 0 ≤ w3)
    (hs : w0 + w1 + w2 + w3 = 1) :
    (125 / 21 : ℝ) ≤ V3.normSq (w0 * tetD + (w1 * tetC + (w2 * tetB + w3 * tetA))) := by
  set x : V := w0 * tetD + (w1 * tetC + (w2 * tetB + w3 * tetA)) with hx
  have hcs := V3.dot_sq_le (⟨44 / 21, -17 / 21, 20 / 21⟩ : V) x
  have hn : V3.normSq (⟨44 / 21, -17 / 21, 20 / 21⟩ : V) = 125 / 21 := by norm_num [V3.normSq_def]
  have hd : V3.dot (⟨44 / 21, -17 / 21, 20 / 21⟩ : V) x =
      (230 / 21) * w0 + (156 / 21) * w1 + (125 / 21) * w2 + (125 / 21) * w3 := by
    simp only [hx, V3.dot_def, V3.add_x, V3.add_y, V3.add_z, V3.smul_x, V3.smul_y, V3.smul_z, tetD, tetC, tetB,
      tetA]
    ring
  have hge : (125 / 21 : ℝ) ≤ V3.dot (⟨44 / 21, -17 / 21, 20 / 21⟩ : V) x := by
    rw [hd]; nlinarith
  rw [hn] at hcs
  nlinarith [V3.normSq_nonneg x]

end Nesterov
end D3
