/-
C02 — vocabulary and the two geometric lemmas every exit-branch theorem rests on:

* `deep_support_margin` : a point `δ`-inside both `A` and `B` forces every support value of `A ⊖ B` to be
  at least `2 δ |d|`  (so an exit that observes a support value `< 2 δ` along a unit direction proves that the
  pair is *not* `δ`-deep);
* `gap_support`         : if the closest pair of `A`, `B` is at distance `≥ δ` there is a unit `n` along which
  every point of `A ⊖ B` has `⟨n, y⟩ ≤ -δ` (separating slab);  `slab_disjoint`, `slab_gap` are the easy
  converses used for the "False ⇒ disjoint" exits.

Own definitions (namespace `D3.Isect`), no dependency on other verticals' proof files.
-/
import D3.Spec.Vec
import Mathlib.Tactic.NormNum

namespace D3
namespace Isect

/-- `K` is closed under segments -/
def ConvexSet (K : V → Prop) : Prop :=
  ∀ x y, K x → K y → ∀ t : ℝ, 0 ≤ t → t ≤ 1 → K ((1 - t) * x + t * y)

/-- Minkowski difference `A ⊖ B = {a - b}` -/
def mdiff (A B : V → Prop) : V → Prop := fun y => ∃ a b, A a ∧ B b ∧ y = a - b

/-- `z` lies at least `δ` inside `K`: the closed ball of radius `δ` about `z` is contained in `K` -/
def DeepIn (K : V → Prop) (z : V) (δ : ℝ) : Prop := ∀ x, V3.normSq (x - z) ≤ δ * δ → K x

/-- the pair shares a point lying at least `δ` inside both -/
def SharedDeep (A B : V → Prop) (δ : ℝ) : Prop := ∃ z, DeepIn A z δ ∧ DeepIn B z δ

/-- the sets have no common point -/
def Disjoint' (A B : V → Prop) : Prop := ∀ x, ¬ (A x ∧ B x)

/-- every pair of points is at distance at least `δ` -/
def GapAtLeast (A B : V → Prop) (δ : ℝ) : Prop := ∀ a b, A a → B b → δ * δ ≤ V3.normSq (a - b)

/-- separating slab of width `δ` with unit normal `n`: `⟨n, a - b⟩ ≤ -δ` for all `a ∈ A`, `b ∈ B` -/
def Slab (A B : V → Prop) (n : V) (δ : ℝ) : Prop :=
  V3.normSq n = 1 ∧ ∀ y, mdiff A B y → V3.dot n y ≤ -δ

/-- `v` is a point of `K` of minimal norm -/
def IsMinNorm (K : V → Prop) (v : V) : Prop := K v ∧ ∀ x, K x → V3.normSq v ≤ V3.normSq x

/-- hull of up to four points (explicit weights) -/
def Hull4 (a b c d : V) : V → Prop := fun x =>
  ∃ α β γ δ : ℝ, 0 ≤ α ∧ 0 ≤ β ∧ 0 ≤ γ ∧ 0 ≤ δ ∧ α + β + γ + δ = 1 ∧
    x = α * a + β * b + γ * c + δ * d

theorem V3.smul_def (s : ℝ) (a : V) : s * a = ⟨s * a.x, s * a.y, s * a.z⟩ := rfl

theorem normSq_smul (s : ℝ) (a : V) : V3.normSq (s * a) = s * s * V3.normSq a := by
  simp only [V3.normSq_def, V3.smul_x, V3.smul_y, V3.smul_z]; ring

/-- support point of `A ⊖ B` from support points of `A` (along `d`) and `B` (along `-d`) -/
theorem isSupport_mdiff {A B : V → Prop} {d p q : V} (hA : IsSupport A d p) (hB : IsSupport B (-d) q) :
    IsSupport (mdiff A B) d (p - q) := by
  refine ⟨⟨p, q, hA.1, hB.1, rfl⟩, ?_⟩
  rintro y ⟨a, b, ha, hb, rfl⟩
  have h1 := hA.2 a ha
  have h2 := hB.2 b hb
  simp only [V3.dot_def, V3.neg_x, V3.neg_y, V3.neg_z, V3.sub_x, V3.sub_y, V3.sub_z] at *
  linarith

/-- the Minkowski difference of convex sets is convex -/
theorem mdiff_convex {A B : V → Prop} (hA : ConvexSet A) (hB : ConvexSet B) : ConvexSet (mdiff A B) := by
  rintro x y ⟨a, b, ha, hb, rfl⟩ ⟨a', b', ha', hb', rfl⟩ t ht0 ht1
  refine ⟨(1 - t) * a + t * a', (1 - t) * b + t * b', hA a a' ha ha' t ht0 ht1, hB b b' hb hb' t ht0 ht1, ?_⟩
  apply V3.ext' <;> simp <;> ring

/-- the origin lies in `A ⊖ B` iff the sets meet -/
theorem mdiff_zero_iff {A B : V → Prop} : mdiff A B ⟨0, 0, 0⟩ ↔ ∃ x, A x ∧ B x := by
  constructor
  · rintro ⟨a, b, ha, hb, h⟩
    have hx : a.x = b.x := by have := congrArg V3.x h; simp at this; linarith
    have hy : a.y = b.y := by have := congrArg V3.y h; simp at this; linarith
    have hz : a.z = b.z := by have := congrArg V3.z h; simp at this; linarith
    have : a = b := V3.ext' hx hy hz
    exact ⟨a, ha, this ▸ hb⟩
  · rintro ⟨x, ha, hb⟩
    exact ⟨x, x, ha, hb, by apply V3.ext' <;> simp⟩

/-! ### (0a) deep ⇒ support margin -/

/-- core of `deep_support_margin`: for every `s ≥ 0` with `s² |d|² ≤ δ²` the support value along `d` is at
least `2 s |d|²` -/
theorem deep_support_scaled {A B : V → Prop} {z d w : V} {δ s : ℝ}
    (hA : DeepIn A z δ) (hB : DeepIn B z δ) (hw : IsSupport (mdiff A B) d w)
    (hs : s * s * V3.normSq d ≤ δ * δ) : 2 * s * V3.normSq d ≤ V3.dot d w := by
  have ha : A (z + s * d) := hA _ (by
    have : z + s * d - z = s * d := by apply V3.ext' <;> simp
    rw [this, normSq_smul]; exact hs)
  have hb : B (z - s * d) := hB _ (by
    have : V3.normSq (z - s * d - z) = s * s * V3.normSq d := by
      simp only [V3.normSq_def, V3.sub_x, V3.sub_y, V3.sub_z, V3.smul_x, V3.smul_y, V3.smul_z]; ring
    rw [this]; exact hs)
  have := hw.2 _ ⟨_, _, ha, hb, rfl⟩
  simp only [V3.dot_def, V3.normSq_def, V3.sub_x, V3.sub_y, V3.sub_z, V3.add_x, V3.add_y, V3.add_z,
    V3.smul_x, V3.smul_y, V3.smul_z] at *
  linarith

/-- **(0a) `deep_support_margin`.** If `z` lies `δ`-inside both `A` and `B` then the support value of
`A ⊖ B` along *every* direction `d` is at least `2 δ |d|`. -/
theorem deep_support_margin {A B : V → Prop} {z d w : V} {δ : ℝ} (_hδ : 0 ≤ δ)
    (hA : DeepIn A z δ) (hB : DeepIn B z δ) (hw : IsSupport (mdiff A B) d w) :
    2 * δ * V3.norm d ≤ V3.dot d w := by
  by_cases hd : V3.norm d = 0
  · -- d = 0
    have hn : V3.normSq d = 0 := by rw [← V3.norm_sq, hd]; ring
    have := deep_support_scaled (s := 0) hA hB hw (by rw [hn]; nlinarith)
    rw [hd]; linarith
  · have hpos : 0 < V3.norm d := lt_of_le_of_ne (V3.norm_nonneg d) (Ne.symm hd)
    have hsq := V3.norm_sq d
    have key := deep_support_scaled (s := δ / V3.norm d) hA hB hw (by
      rw [← hsq]; field_simp; exact le_refl _)
    have e : 2 * (δ / V3.norm d) * V3.normSq d = 2 * δ * V3.norm d := by
      rw [← hsq]; field_simp
    linarith

/-- unit direction version -/
theorem deep_support_margin_unit {A B : V → Prop} {d w : V} {δ : ℝ} (hδ : 0 ≤ δ)
    (hdeep : SharedDeep A B δ) (hd : V3.normSq d = 1) (hw : IsSupport (mdiff A B) d w) :
    2 * δ ≤ V3.dot d w := by
  obtain ⟨z, hA, hB⟩ := hdeep
  have h := deep_support_margin hδ hA hB hw
  have : V3.norm d = 1 := by
    rw [V3.norm_def, hd]; exact Real.sqrt_one
  rw [this] at h; linarith

/-- contrapositive used by the exits: a unit direction with support value `< 2 δ` excludes `δ`-depth -/
theorem not_deep_of_small_support {A B : V → Prop} {d w : V} {δ : ℝ} (hδ : 0 ≤ δ)
    (hd : V3.normSq d = 1) (hw : IsSupport (mdiff A B) d w) (h : V3.dot d w < 2 * δ) :
    ¬ SharedDeep A B δ := fun hdeep => by
  have := deep_support_margin_unit hδ hdeep hd hw; linarith

/-! ### (0b) gap ⇒ separating direction, and the converses -/

/-- variational inequality of a minimum-norm point of a convex set -/
theorem minNorm_var {K : V → Prop} (hK : ConvexSet K) {v : V} (hv : IsMinNorm K v) {y : V} (hy : K y) :
    V3.normSq v ≤ V3.dot v y := by
  by_contra hlt
  rw [not_le] at hlt
  -- c = |v|² - v·y > 0 ; D = |y - v|²
  set c := V3.normSq v - V3.dot v y with hc
  have hcpos : 0 < c := by linarith
  set D := V3.normSq (y - v) with hD
  have hDnn : 0 ≤ D := V3.normSq_nonneg _
  -- the point x_t = (1-t) v + t y has |x_t|² = |v|² - 2 t c + t² D
  have expand : ∀ t : ℝ, V3.normSq ((1 - t) * v + t * y) = V3.normSq v - 2 * t * c + t * t * D := by
    intro t
    simp only [hc, hD, V3.normSq_def, V3.dot_def, V3.add_x, V3.add_y, V3.add_z, V3.sub_x, V3.sub_y,
      V3.sub_z, V3.smul_x, V3.smul_y, V3.smul_z]
    ring
  by_cases hcase : D ≤ c
  · -- t = 1
    have h1 := hv.2 _ (hK v y hv.1 hy 1 (by norm_num) (by norm_num))
    rw [expand 1] at h1; nlinarith
  · rw [not_le] at hcase
    have hDpos : 0 < D := lt_trans hcpos hcase
    have ht0 : 0 ≤ c / D := le_of_lt (div_pos hcpos hDpos)
    have ht1 : c / D ≤ 1 := by rw [div_le_one hDpos]; exact le_of_lt hcase
    have h1 := hv.2 _ (hK v y hv.1 hy (c / D) ht0 ht1)
    rw [expand (c / D)] at h1
    have : c / D * (c / D) * D = c * (c / D) := by field_simp
    have h2 : 0 < c * (c / D) := mul_pos hcpos (div_pos hcpos hDpos)
    nlinarith

/-- **(0b) `gap_support`.** If `A ⊖ B` is convex, its minimum-norm point `v` exists (closest pair attained:
compact colliders) and `|v| ≥ δ > 0`, then the unit vector `n = -v/|v|` satisfies `⟨n, y⟩ ≤ -δ` for every
`y ∈ A ⊖ B`: the support value of `A ⊖ B` along `n` is `≤ -δ`. -/
theorem gap_support {A B : V → Prop} (hK : ConvexSet (mdiff A B)) {v : V} (hv : IsMinNorm (mdiff A B) v)
    {δ : ℝ} (hδ : 0 < δ) (hgap : δ ≤ V3.norm v) :
    ∃ n, Slab A B n δ := by
  have hpos : 0 < V3.norm v := lt_of_lt_of_le hδ hgap
  have hsq := V3.norm_sq v
  refine ⟨(-(1 / V3.norm v)) * v, ?_, ?_⟩
  · rw [normSq_smul, ← hsq]; field_simp
  · intro y hy
    have h := minNorm_var hK hv hy
    have e : V3.dot ((-(1 / V3.norm v)) * v) y = -(V3.dot v y / V3.norm v) := by
      simp only [V3.dot_def, V3.smul_x, V3.smul_y, V3.smul_z]; field_simp; ring
    rw [e]
    have : V3.norm v ≤ V3.dot v y / V3.norm v := by
      rw [le_div_iff₀ hpos, hsq]; exact h
    linarith

/-- `GapAtLeast` in terms of the minimum-norm point -/
theorem gap_of_minNorm {A B : V → Prop} {v : V} (hv : IsMinNorm (mdiff A B) v) {δ : ℝ} (hδ : 0 ≤ δ)
    (hgap : δ ≤ V3.norm v) : GapAtLeast A B δ := by
  intro a b ha hb
  have := hv.2 _ ⟨a, b, ha, hb, rfl⟩
  have hsq := V3.norm_sq v
  nlinarith [V3.norm_nonneg v]

/-- a direction along which all of `A ⊖ B` is strictly negative separates the sets -/
theorem disjoint_of_neg_support {A B : V → Prop} {d : V}
    (h : ∀ y, mdiff A B y → V3.dot d y < 0) : Disjoint' A B := by
  rintro x ⟨ha, hb⟩
  have := h _ ⟨x, x, ha, hb, rfl⟩
  simp [V3.dot_def] at this

/-- a support point with negative support value gives a separating plane -/
theorem disjoint_of_support_neg {A B : V → Prop} {d w : V} (hw : IsSupport (mdiff A B) d w)
    (h : V3.dot d w < 0) : Disjoint' A B :=
  disjoint_of_neg_support fun y hy => lt_of_le_of_lt (hw.2 y hy) h

/-- a slab of width `δ` implies distance at least `δ` (Cauchy–Schwarz) -/
theorem slab_gap {A B : V → Prop} {n : V} {δ : ℝ} (hδ : 0 ≤ δ) (h : Slab A B n δ) : GapAtLeast A B δ := by
  intro a b ha hb
  have h1 := h.2 _ ⟨a, b, ha, hb, rfl⟩
  have cs := V3.dot_sq_le n (a - b)
  rw [h.1] at cs
  nlinarith

theorem slab_disjoint {A B : V → Prop} {n : V} {δ : ℝ} (hδ : 0 < δ) (h : Slab A B n δ) : Disjoint' A B :=
  disjoint_of_neg_support (d := n) fun y hy => by have := h.2 y hy; linarith

/-- a deep pair is never separated by any slab, and vice versa (the two ground-truth classes of the
harness are mutually exclusive) -/
theorem deep_not_slab {A B : V → Prop} {n : V} {δ δ' : ℝ} (_hδ : 0 ≤ δ) (hδ' : 0 < δ')
    (hdeep : SharedDeep A B δ) (h : Slab A B n δ') : False := by
  obtain ⟨z, hA, hB⟩ := hdeep
  have hz : A z ∧ B z := ⟨hA z (by simp [V3.normSq_def]; nlinarith), hB z (by simp [V3.normSq_def]; nlinarith)⟩
  exact slab_disjoint hδ' h z hz

end Isect
end D3
