/-
Helper lemmas for `D3/Properties/C13Link.lean`: the point sets that C13
(`D3.ContainTest.*Local` / `*Set`, D3/Proofs/ContainTestSets.lean), C03
(`D3.Support.*LocalSet` / `*Set`, D3/Proofs/SupportSets.lean, SupportHull.lean) and C10/C11
(`D3.DistPoly.*`, D3/Proofs/DistPolySets.lean) were written against are the same sets.

Only set-level facts live here (no model function occurs); ℝ only.
-/
import D3.Proofs.ContainTestExact
import D3.Proofs.SupportHull
import D3.Proofs.DistPolySets

namespace D3
namespace ContainTestLink

/-! ### generic -/

/-- `poseImage` respects pointwise equivalence of the local sets (any matrix, orthonormal or not) -/
theorem poseImage_congr {A : Pose ℝ} {K K' : V → Prop} (h : ∀ q, K q ↔ K' q) (p : V) :
    poseImage A K p ↔ poseImage A K' p := by
  constructor
  · rintro ⟨q, hq, rfl⟩; exact ⟨q, (h q).mp hq, rfl⟩
  · rintro ⟨q, hq, rfl⟩; exact ⟨q, (h q).mpr hq, rfl⟩

theorem normSq_self_sub (p : V) : V3.normSq (p - p) = 0 := by
  simp [V3.normSq_def]

theorem eq_of_normSq_sub_eq_zero {p q : V} (h : V3.normSq (p - q) = 0) : p = q := by
  have h0 := V3.normSq_eq_zero h
  have hx : (p - q).x = 0 := by rw [h0]
  have hy : (p - q).y = 0 := by rw [h0]
  have hz : (p - q).z = 0 := by rw [h0]
  simp only [V3.sub_x, V3.sub_y, V3.sub_z] at hx hy hz
  apply V3.ext' <;> linarith

/-- what C10/C11 prove of a point-to-convex-set query (closest point in the set, `d² = |p − cp|²`,
nothing in the set is closer) pins down membership of the query point: `p ∈ K ↔ d = 0` -/
theorem mem_iff_dist_zero {K : V → Prop} {p cp : V} {dist : ℝ} (hmem : K cp)
    (hd : dist * dist = V3.normSq (p - cp))
    (hopt : ∀ x, K x → dist * dist ≤ V3.normSq (p - x)) : K p ↔ dist = 0 := by
  constructor
  · intro hp
    have h := hopt p hp
    rw [normSq_self_sub] at h
    exact mul_self_eq_zero.mp (le_antisymm h (mul_self_nonneg dist))
  · intro h0
    rw [h0, zero_mul] at hd
    rw [eq_of_normSq_sub_eq_zero hd.symm]
    exact hmem

/-! ### local sets: C13's definition ↔ C03's definition -/

theorem normSq_sub_axis (q : V) (s : ℝ) :
    V3.normSq (q - ⟨0, 0, s⟩) = q.x * q.x + q.y * q.y + (q.z - s) * (q.z - s) := by
  simp only [V3.normSq_def, V3.sub_x, V3.sub_y, V3.sub_z]; ring

/-- capsule: `dist(q, axis segment) ≤ r` in the two spellings (`h` arbitrary) -/
theorem capsuleLocal_iff {r : ℝ} (hr : 0 ≤ r) (h : ℝ) (q : V) :
    ContainTest.capsuleLocal r h q ↔ Support.capsuleLocalSet r h q := by
  unfold ContainTest.capsuleLocal Support.capsuleLocalSet
  constructor
  · rintro ⟨s, hs, hn⟩
    rw [ContainTest.norm_le_iff hr, normSq_sub_axis] at hn
    rw [abs_le] at hs
    exact ⟨s, hs.1, hs.2, hn⟩
  · rintro ⟨s, h1, h2, hn⟩
    refine ⟨s, abs_le.mpr ⟨h1, h2⟩, ?_⟩
    rw [ContainTest.norm_le_iff hr, normSq_sub_axis]
    exact hn

/-- cylinder: `|z| ≤ len/2 ∧ radial ≤ r` in the two spellings -/
theorem cylinderLocal_iff {r : ℝ} (hr : 0 ≤ r) (len : ℝ) (q : V) :
    ContainTest.cylinderLocal r len q ↔ Support.cylinderLocalSet r len q := by
  unfold ContainTest.cylinderLocal Support.cylinderLocalSet
  rw [ContainTest.radial_le_iff hr, abs_le]
  constructor
  · rintro ⟨⟨a, b⟩, c⟩; exact ⟨c, a, b⟩
  · rintro ⟨c, a, b⟩; exact ⟨⟨a, b⟩, c⟩

/-- cone (base disk at `z = 0`, apex `(0,0,h)` on both sides): C13 writes the cross-section
radius as `r·(1 − z/h)`, C03 clears the division -/
theorem coneLocal_iff {r h : ℝ} (hr : 0 ≤ r) (hh : 0 < h) (q : V) :
    ContainTest.coneLocal r h q ↔ Support.coneLocalSet r h q := by
  unfold ContainTest.coneLocal Support.coneLocalSet
  refine and_congr_right fun _ => and_congr_right fun hz => ?_
  have hk : 0 ≤ r * (1 - q.z / h) :=
    mul_nonneg hr (sub_nonneg.mpr ((div_le_one hh).mpr hz))
  have hh2 : 0 < h * h := mul_pos hh hh
  have e : r * (1 - q.z / h) * (r * (1 - q.z / h)) = r * r * ((h - q.z) * (h - q.z)) / (h * h) := by
    field_simp
  rw [ContainTest.radial_le_iff hk, e, le_div_iff₀ hh2]
  constructor <;> intro hle <;> linarith

/-- ellipsoid: `(·)^2` vs `(·)*(·)` -/
theorem ellipsoidLocal_iff (radii q : V) :
    ContainTest.ellipsoidLocal radii q ↔ Support.ellipsoidLocalSet radii q := by
  unfold ContainTest.ellipsoidLocal Support.ellipsoidLocalSet
  simp only [sq]

/-- box: C13's `|qᵢ| ≤ sizeᵢ/2` is C03's `Box(size)` set (half lengths `size/2`) -/
theorem boxLocal_iff (size q : V) :
    ContainTest.boxLocal size q ↔ Support.boxSizeSet size q := by
  unfold ContainTest.boxLocal Support.boxSizeSet Support.boxLocalSet
  simp only [abs_le]

/-! ### posed sets that C03 states in centre / normal form -/

/-- ball: C13's pose image of `|q| ≤ r` is C03's `|p − c|² ≤ r²` with `c = A.t` -/
theorem ballSet_iff {A : Pose ℝ} (hA : Orthonormal A.R) {r : ℝ} (hr : 0 ≤ r) (p : V) :
    ContainTest.ballSet A r p ↔ Support.ballSet A.t r p := by
  unfold ContainTest.ballSet Support.ballSet
  rw [ContainTest.poseImage_iff hA, ContainTest.ballLocal, ContainTest.norm_le_iff hr,
    ContainTest.applyInv_normSq hA]

/-- flat disk: C13's pose image of `z = 0 ∧ radial ≤ r` is C03's disk with centre `A.t` and
normal the third column of the pose -/
theorem diskSet_iff {A : Pose ℝ} (hA : Orthonormal A.R) {r : ℝ} (hr : 0 ≤ r) (p : V) :
    ContainTest.diskSet A r p ↔ Support.diskSet A.t r A.R.col2 p := by
  unfold ContainTest.diskSet Support.diskSet
  rw [ContainTest.poseImage_iff hA, ContainTest.diskLocal, ContainTest.radial_le_iff hr,
    ContainTest.applyInv_z, ContainTest.radialSq_eq hA]
  refine and_congr_right fun h0 => ?_
  rw [h0]; simp

/-! ### the disk slab in centre / normal form -/

/-- dropping the normal component of `p − c` lands in the plane of the disk and shortens
`|p − c|²` by exactly the square of that component -/
theorem disk_project (p c n : V) (hn : V3.dot n n = 1) :
    V3.dot ((p - V3.dot (p - c) n * n) - c) n = 0 ∧
    V3.normSq ((p - V3.dot (p - c) n * n) - c) =
      V3.normSq (p - c) - V3.dot (p - c) n * V3.dot (p - c) n := by
  simp only [V3.dot_def, V3.normSq_def, V3.sub_x, V3.sub_y, V3.sub_z, V3.smul_x, V3.smul_y,
    V3.smul_z] at *
  constructor
  · linear_combination (-((p.x - c.x) * n.x + (p.y - c.y) * n.y + (p.z - c.z) * n.z)) * hn
  · linear_combination (((p.x - c.x) * n.x + (p.y - c.y) * n.y + (p.z - c.z) * n.z) *
      ((p.x - c.x) * n.x + (p.y - c.y) * n.y + (p.z - c.z) * n.z)) * hn

theorem dot_sub_smul_right (d p n : V) (s : ℝ) :
    V3.dot d p = V3.dot d (p - s * n) + s * V3.dot d n := by
  simp only [V3.dot_def, V3.sub_x, V3.sub_y, V3.sub_z, V3.smul_x, V3.smul_y, V3.smul_z]; ring

theorem normSq_sub_sub_smul (p n : V) (s : ℝ) (hn : V3.dot n n = 1) :
    V3.normSq (p - (p - s * n)) = s * s := by
  simp only [V3.dot_def, V3.normSq_def, V3.sub_x, V3.sub_y, V3.sub_z, V3.smul_x, V3.smul_y,
    V3.smul_z] at *
  linear_combination (s * s) * hn

/-- every point within `δ` of the plane whose in-plane part is within `r` of the centre is a
point of C03's flat disk moved by `s·n` with `|s| ≤ δ` -/
theorem diskSlab_decompose (p c n : V) (r δ : ℝ) (hn : V3.dot n n = 1)
    (h1 : |V3.dot (p - c) n| ≤ δ)
    (h2 : V3.normSq (p - c) - V3.dot (p - c) n * V3.dot (p - c) n ≤ r * r) :
    Support.diskSet c r n (p - V3.dot (p - c) n * n) ∧ |V3.dot (p - c) n| ≤ δ := by
  obtain ⟨e1, e2⟩ := disk_project p c n hn
  exact ⟨⟨e1, by rw [e2]; exact h2⟩, h1⟩

/-! ### C13's sets ↔ C10/C11's sets -/

theorem boxSet_iff_distPoly (A : Pose ℝ) (size p : V) :
    ContainTest.boxSet A size p ↔ DistPoly.boxSet A size p :=
  poseImage_congr (fun _ => Iff.rfl) p

theorem cylinderSet_iff_distPoly (A : Pose ℝ) {r : ℝ} (hr : 0 ≤ r) (len : ℝ) (p : V) :
    ContainTest.cylinderSet A r len p ↔ DistPoly.cylinderSet A r len p := by
  refine poseImage_congr (fun q => ?_) p
  unfold ContainTest.cylinderLocal DistPoly.cylLocal
  rw [ContainTest.radial_le_iff hr]
  exact and_comm

end ContainTestLink
end D3
