/-
EPA, invariants of the executable loop that *are* proved: every face of every reachable
polytope state is either one of the initial faces or was created by `extend_with_point`, and
its stored normal is a unit vector (or, only for a zero-area initial face of a flat simplex, the
zero vector).  Stated for any winding repair that keeps or negates the normal (`FixOk`: the
current `fixCcw` and the pre-repair `fixCcw_asIs_before_fix`).
-/
import D3.Proofs.EpaInit

namespace D3
namespace Epa

/-- what `norm_vector` can return -/
def UnitOrZero (n : V) : Prop := IsUnitVec n ∨ n = ⟨0, 0, 0⟩

theorem isUnit_neg {n : V} (h : IsUnitVec n) : IsUnitVec (-n) := by
  unfold IsUnitVec at *
  simp only [V3.dot_def, V3.neg_x, V3.neg_y, V3.neg_z] at *
  linarith [h]

theorem normVector_unitOrZero (v : V) : UnitOrZero (normVector v) := by
  rcases lt_or_eq_of_le (V3.normSq_nonneg v) with h | h
  · exact Or.inl (normVector_unit h)
  · right
    have hz := V3.normSq_eq_zero h.symm
    unfold normVector
    have : V3.norm v = 0 := by rw [V3.norm_def, ← h]; exact Real.sqrt_zero
    rw [if_pos this]; exact hz

theorem norm_zero_vec : V3.norm (⟨0, 0, 0⟩ : V) = 0 := by
  rw [V3.norm_def, V3.normSq_def]; simp

/-- a normal that survives the `norm < 0.5` skip is a unit vector -/
theorem unit_of_not_skipped {n : V} (h : UnitOrZero n) (hs : ¬ V3.norm n < 0.5) : IsUnitVec n := by
  rcases h with h | h
  · exact h
  · exfalso; apply hs; rw [h, norm_zero_vec]; norm_num

/-- predicates on normals that the loop preserves -/
structure NormalPred (P : V → Prop) : Prop where
  unit : ∀ n, IsUnitVec n → P n
  neg : ∀ n, P n → P (-n)

theorem normalPred_isUnit : NormalPred IsUnitVec := ⟨fun _ h => h, fun _ h => isUnit_neg h⟩

theorem normalPred_unitOrZero : NormalPred UnitOrZero :=
  ⟨fun _ h => Or.inl h, fun n h => by
    rcases h with h | h
    · exact Or.inl (isUnit_neg h)
    · right; rw [h]; apply V3.ext' <;> simp⟩

theorem mem_overwriteWithLast {β : Type} {l : List β} {k : Nat} {x : β}
    (h : x ∈ overwriteWithLast l k) : x ∈ l := by
  unfold overwriteWithLast at h
  split at h
  · exact h
  · rename_i last hl
    have h1 := List.mem_of_mem_dropLast h
    rcases List.mem_or_eq_of_mem_set h1 with h2 | h2
    · exact h2
    · rw [h2]; exact List.mem_of_getLast? hl

/-- removal keeps a subset of the faces -/
theorem scan_subset (maxLoose : Nat) (eps : ℝ) (w : V) :
    ∀ (fuel i : Nat) (faces : List (Face ℝ)) (loose : List (Edge ℝ)) (ov : Bool) (x : Face ℝ),
      x ∈ (scan maxLoose eps w fuel i faces loose ov).1 → x ∈ faces
  | 0, _, _, _, _, _, h => by simpa [scan] using h
  | fuel + 1, i, faces, loose, ov, x, h => by
    unfold scan at h
    split at h
    · exact h
    · split at h
      · exact mem_overwriteWithLast (scan_subset maxLoose eps w fuel i _ _ _ x h)
      · exact scan_subset maxLoose eps w fuel (i + 1) faces loose ov x h

/-- both variants of the winding repair keep or negate the normal -/
def FixOk (fix : Face ℝ → Face ℝ) : Prop := ∀ f, (fix f).n = f.n ∨ (fix f).n = -f.n

theorem fixOk_before_fix (bias : ℝ) : FixOk (fixCcw_asIs_before_fix bias) := by
  intro f; unfold fixCcw_asIs_before_fix; split
  · exact Or.inr rfl
  · exact Or.inl rfl

theorem fixOk_cur (bias : ℝ) : FixOk (fixCcw bias) := by
  intro f; unfold fixCcw; split
  · exact Or.inr rfl
  · exact Or.inl rfl

/-- re-triangulation keeps the old faces and adds faces with unit normals (up to sign) -/
theorem extend_pred {P : V → Prop} (hP : NormalPred P) {fix : Face ℝ → Face ℝ} (hfix : FixOk fix)
    (maxFaces : Nat) (w : V) :
    ∀ (es : List (Edge ℝ)) (faces faces' : List (Face ℝ)),
      extend maxFaces fix w es faces = .ok faces' → (∀ f ∈ faces, P f.n) → ∀ f ∈ faces', P f.n
  | [], faces, faces', h, hin => by
    simp only [extend, Except.ok.injEq] at h; subst h; exact hin
  | e :: es, faces, faces', h, hin => by
    unfold extend at h
    split at h
    · dsimp only at h
      split at h
      · exact extend_pred hP hfix maxFaces w es faces faces' h hin
      · rename_i hns
        apply extend_pred hP hfix maxFaces w es _ faces' h
        intro f hf
        rcases List.mem_append.mp hf with hf | hf
        · exact hin f hf
        · simp only [List.mem_singleton] at hf
          subst hf
          have hu : IsUnitVec (mkFace e.1 e.2 w).n :=
            unit_of_not_skipped (by rw [mkFace_n]; exact normVector_unitOrZero _) hns
          rcases hfix (mkFace e.1 e.2 w) with h1 | h1
          · rw [h1]; exact hP.unit _ hu
          · rw [h1]; exact hP.neg _ (hP.unit _ hu)
    · simp at h

theorem stepWith_grown_pred {P : V → Prop} (hP : NormalPred P) {fix : Face ℝ → Face ℝ}
    (hfix : FixOk fix) {p : Params ℝ} {faces : List (Face ℝ)} {d : ℝ} {f : Face ℝ} {w : V}
    {faces' kept : List (Face ℝ)} {loose : List (Edge ℝ)} {ov : Bool}
    (h : stepWith p fix faces d f w = .ok (.grown faces' loose ov kept))
    (hin : ∀ g ∈ faces, P g.n) : ∀ g ∈ faces', P g.n := by
  unfold stepWith at h
  split at h
  · simp at h
  · dsimp only at h
    split at h
    · rename_i fs hext
      simp only [Except.ok.injEq, StepOut.grown.injEq] at h
      obtain ⟨rfl, _, _, _⟩ := h
      exact extend_pred hP hfix p.maxFaces w _ _ _ hext
        (fun g hg => hin g (scan_subset _ _ _ _ _ _ _ _ g hg))
    · simp at h

/-- the predicate on normals holds for the faces of every result of the loop -/
theorem loop_pred {P : V → Prop} (hP : NormalPred P) {fix : Face ℝ → Face ℝ} (hfix : FixOk fix)
    {p : Params ℝ} {supp : Nat → V → V} :
    ∀ (k it : Nat) (faces : List (Face ℝ)) (last : Option Nat) (r : Result ℝ),
      loop p fix supp k it faces last = .ok r → (∀ g ∈ faces, P g.n) → ∀ g ∈ r.faces, P g.n
  | 0, it, faces, last, r, h, hin => by
    unfold loop at h
    split at h
    · simp at h
    · split at h <;> (simp only [Except.ok.injEq] at h; subst h; exact hin)
  | k + 1, it, faces, last, r, h, hin => by
    unfold loop at h
    split at h
    · simp at h
    · split at h
      · simp at h
      · simp only [Except.ok.injEq] at h; subst h; exact hin
      · rename_i faces' _ _ _ hst
        exact loop_pred hP hfix k (it + 1) faces' _ r h (stepWith_grown_pred hP hfix hst hin)

theorem buildFaces_unitOrZero (s0 s1 s2 s3 : V) : ∀ g ∈ buildFaces s0 s1 s2 s3, UnitOrZero g.n := by
  intro g hg
  simp only [buildFaces, List.mem_cons, List.not_mem_nil, or_false] at hg
  rcases hg with rfl | rfl | rfl | rfl <;> (rw [mkFace_n]; exact normVector_unitOrZero _)

theorem buildFaces_unit {s0 s1 s2 s3 : V} (h : orient s0 s1 s2 s3 ≠ 0) :
    ∀ g ∈ buildFaces s0 s1 s2 s3, IsUnitVec g.n := by
  obtain ⟨h1, h2, h3, h4⟩ := raw_normals_pos h
  intro g hg
  simp only [buildFaces, List.mem_cons, List.not_mem_nil, or_false] at hg
  rcases hg with rfl | rfl | rfl | rfl <;> rw [mkFace_n]
  · exact normVector_unit h1
  · exact normVector_unit h2
  · exact normVector_unit h3
  · exact normVector_unit h4

theorem initFaces_unitOrZero (s0 s1 s2 s3 : V) : ∀ g ∈ initFaces s0 s1 s2 s3, UnitOrZero g.n := by
  rcases initFaces_oriented s0 s1 s2 s3 with ⟨e, _⟩ | ⟨e, _⟩ <;> rw [e] <;>
    exact buildFaces_unitOrZero _ _ _ _

theorem initFaces_unit {s0 s1 s2 s3 : V} (h : orient s0 s1 s2 s3 ≠ 0) :
    ∀ g ∈ initFaces s0 s1 s2 s3, IsUnitVec g.n := by
  rcases initFaces_oriented s0 s1 s2 s3 with ⟨e, _⟩ | ⟨e, h'⟩ <;> rw [e]
  · exact buildFaces_unit h
  · exact buildFaces_unit (ne_of_lt h')

end Epa
end D3
