/-
Convex hulls of short lists of points (the valid prefix of the simplex arrays of GJK):
weights as lists, `InHull`, `InRelInt`, and the lemmas the loop invariant needs
(hull ⊆ convex set, monotone under sublists, contains the segment to an appended point,
pre-images under `Y = P − Q`).
-/
import D3.Proofs.GjkSpec

namespace D3
namespace Gjk

abbrev zeroV : V := ⟨0, 0, 0⟩

/-- `Σ wᵢ yᵢ` over two lists (truncated to the shorter) -/
def lincomb : List ℝ → List V → V
  | w :: ws, y :: ys => w * y + lincomb ws ys
  | _, _ => zeroV

/-- convex hull of a list of points -/
def InHull (ys : List V) (y : V) : Prop :=
  ∃ ws : List ℝ, ws.length = ys.length ∧ (∀ w ∈ ws, 0 ≤ w) ∧ ws.sum = 1 ∧ y = lincomb ws ys

/-- convex combinations with strictly positive weights on every point of the list -/
def InRelInt (ys : List V) (y : V) : Prop :=
  ∃ ws : List ℝ, ws.length = ys.length ∧ (∀ w ∈ ws, 0 < w) ∧ ws.sum = 1 ∧ y = lincomb ws ys

theorem InRelInt.inHull {ys : List V} {y : V} (h : InRelInt ys y) : InHull ys y := by
  obtain ⟨ws, hl, hp, hs, he⟩ := h
  exact ⟨ws, hl, fun w hw => (hp w hw).le, hs, he⟩

@[simp] theorem lincomb_nil_left (ys : List V) : lincomb [] ys = zeroV := by
  cases ys <;> rfl

@[simp] theorem lincomb_nil_right (ws : List ℝ) : lincomb ws [] = zeroV := by
  cases ws <;> rfl

@[simp] theorem lincomb_cons (w : ℝ) (ws : List ℝ) (y : V) (ys : List V) :
    lincomb (w :: ws) (y :: ys) = w * y + lincomb ws ys := rfl

theorem add_zeroV (a : V) : a + zeroV = a := by apply V3.ext' <;> simp
theorem zeroV_add (a : V) : zeroV + a = a := by apply V3.ext' <;> simp
theorem smul_zeroV (c : ℝ) : c * zeroV = zeroV := by apply V3.ext' <;> simp
theorem zero_smul_vec (a : V) : (0 : ℝ) * a = zeroV := by apply V3.ext' <;> simp
theorem one_smul_vec (a : V) : (1 : ℝ) * a = a := by apply V3.ext' <;> simp
theorem neg_one_smul_vec (a : V) : (-1 : ℝ) * a = -a := by apply V3.ext' <;> simp

theorem lincomb_scale (c : ℝ) : ∀ (ws : List ℝ) (ys : List V),
    lincomb (ws.map (c * ·)) ys = c * lincomb ws ys
  | [], ys => by simp [smul_zeroV]
  | w :: ws, [] => by simp [smul_zeroV]
  | w :: ws, y :: ys => by
    simp only [List.map_cons, lincomb_cons, lincomb_scale c ws ys]
    apply V3.ext' <;> simp <;> ring

theorem lincomb_append : ∀ (ws : List ℝ) (ys : List V) (ws' : List ℝ) (ys' : List V),
    ws.length = ys.length → lincomb (ws ++ ws') (ys ++ ys') = lincomb ws ys + lincomb ws' ys'
  | [], [], ws', ys', _ => by simp [zeroV_add]
  | [], _ :: _, _, _, h => by simp at h
  | _ :: _, [], _, _, h => by simp at h
  | w :: ws, y :: ys, ws', ys', h => by
    simp only [List.cons_append, lincomb_cons]
    rw [lincomb_append ws ys ws' ys' (by simpa using h)]
    apply V3.ext' <;> simp <;> ring

theorem lincomb_sub : ∀ (ws : List ℝ) (ps qs : List V), ps.length = qs.length →
    lincomb ws (List.zipWith (· - ·) ps qs) = lincomb ws ps - lincomb ws qs
  | [], ps, qs, _ => by simp; apply V3.ext' <;> simp
  | w :: ws, [], [], _ => by simp; apply V3.ext' <;> simp
  | _ :: _, [], _ :: _, h => by simp at h
  | _ :: _, _ :: _, [], h => by simp at h
  | w :: ws, p :: ps, q :: qs, h => by
    simp only [List.zipWith_cons_cons, lincomb_cons]
    rw [lincomb_sub ws ps qs (by simpa using h)]
    apply V3.ext' <;> simp <;> ring

theorem sum_map_mul (c : ℝ) : ∀ ws : List ℝ, (ws.map (c * ·)).sum = c * ws.sum
  | [] => by simp
  | w :: ws => by simp [sum_map_mul c ws, mul_add]

theorem sum_nonneg_list : ∀ (ws : List ℝ), (∀ w ∈ ws, 0 ≤ w) → 0 ≤ ws.sum
  | [], _ => by simp
  | w :: ws, h => by
    simp only [List.sum_cons]
    have := sum_nonneg_list ws (fun x hx => h x (List.mem_cons_of_mem _ hx))
    have := h w (List.mem_cons_self)
    linarith

theorem lincomb_of_sum_zero : ∀ (ws : List ℝ) (ys : List V), (∀ w ∈ ws, 0 ≤ w) → ws.sum = 0 →
    lincomb ws ys = zeroV
  | [], ys, _, _ => by simp
  | w :: ws, [], _, _ => by simp
  | w :: ws, y :: ys, h, hs => by
    simp only [List.sum_cons] at hs
    have h1 := sum_nonneg_list ws (fun x hx => h x (List.mem_cons_of_mem _ hx))
    have h2 := h w (List.mem_cons_self)
    have hw : w = 0 := by linarith
    have hs' : ws.sum = 0 := by linarith
    simp only [lincomb_cons, lincomb_of_sum_zero ws ys (fun x hx => h x (List.mem_cons_of_mem _ hx)) hs',
      hw, zero_smul_vec, add_zeroV]

/-- a normalised non-negative combination of points of a convex set lies in the set -/
theorem convex_lincomb {K : V → Prop} (hK : ConvexSet K) : ∀ (ws : List ℝ) (ys : List V),
    ws.length = ys.length → (∀ w ∈ ws, 0 ≤ w) → (∀ y ∈ ys, K y) → 0 < ws.sum →
    K ((1 / ws.sum) * lincomb ws ys)
  | [], _, _, _, _, hs => by simp at hs
  | _ :: _, [], h, _, _, _ => by simp at h
  | w :: ws, y :: ys, hl, hw, hy, hs => by
    have hw0 := hw w (List.mem_cons_self)
    have hws : ∀ x ∈ ws, 0 ≤ x := fun x hx => hw x (List.mem_cons_of_mem _ hx)
    have hs1 := sum_nonneg_list ws hws
    simp only [List.sum_cons] at hs ⊢
    rcases hs1.lt_or_eq with hpos | hzero
    · -- genuine convex combination of `y` and the normalised rest
      have ih := convex_lincomb hK ws ys (by simpa using hl) hws
        (fun z hz => hy z (List.mem_cons_of_mem _ hz)) hpos
      have hk := hK y _ (hy y (List.mem_cons_self)) ih (ws.sum / (w + ws.sum))
        (div_nonneg hpos.le hs.le) ((div_le_one hs).mpr (by linarith))
      have e : (1 - ws.sum / (w + ws.sum)) * y + (ws.sum / (w + ws.sum)) * ((1 / ws.sum) * lincomb ws ys)
          = (1 / (w + ws.sum)) * (w * y + lincomb ws ys) := by
        have h1 : (w + ws.sum) ≠ 0 := ne_of_gt hs
        have h2 : ws.sum ≠ 0 := ne_of_gt hpos
        apply V3.ext' <;> simp <;> field_simp <;> ring
      rw [e] at hk
      exact hk
    · have hz := lincomb_of_sum_zero ws ys hws hzero.symm
      rw [lincomb_cons, hz, add_zeroV, ← hzero]
      have hwne : w ≠ 0 := by intro h0; rw [h0, ← hzero] at hs; simp at hs
      have e : (1 / (w + 0)) * (w * y) = y := by
        apply V3.ext' <;> simp <;> field_simp
      rw [e]
      exact hy y (List.mem_cons_self)

/-- the hull of points of a convex set is inside the set -/
theorem hull_subset_convex {K : V → Prop} (hK : ConvexSet K) {ys : List V} (hy : ∀ y ∈ ys, K y)
    {x : V} (hx : InHull ys x) : K x := by
  obtain ⟨ws, hl, hw, hs, rfl⟩ := hx
  have := convex_lincomb hK ws ys hl hw hy (by rw [hs]; norm_num)
  rw [hs] at this
  simpa [one_smul_vec] using this

/-- hull of a sublist ⊆ hull of the list -/
theorem hull_sublist {ys' ys : List V} (h : List.Sublist ys' ys) {x : V} (hx : InHull ys' x) :
    InHull ys x := by
  induction h generalizing x with
  | slnil => exact hx
  | cons a _ ih =>
    obtain ⟨ws, hl, hw, hs, he⟩ := ih hx
    refine ⟨0 :: ws, by simp [hl], ?_, by simp [hs], ?_⟩
    · intro w hw'
      rcases List.mem_cons.mp hw' with rfl | h'
      · exact le_refl _
      · exact hw w h'
    · rw [lincomb_cons, zero_smul_vec, zeroV_add]; exact he
  | cons_cons a _ ih =>
    obtain ⟨ws, hl, hw, hs, he⟩ := hx
    cases ws with
    | nil => simp at hl
    | cons w ws =>
      -- peel the first weight, renormalising is not needed: reuse weights directly
      rename_i l₁ l₂ _
      by_cases hrest : ws.sum = 0
      · -- all mass on `a`
        have hws : ∀ z ∈ ws, 0 ≤ z := fun z hz => hw z (List.mem_cons_of_mem _ hz)
        have hz := lincomb_of_sum_zero ws l₁ hws hrest
        refine ⟨w :: List.replicate l₂.length 0, by simp, ?_, ?_, ?_⟩
        · intro z hz'
          rcases List.mem_cons.mp hz' with rfl | h'
          · exact hw _ (List.mem_cons_self)
          · rw [List.eq_of_mem_replicate h']
        · simp only [List.sum_cons] at hs ⊢
          have : (List.replicate l₂.length (0 : ℝ)).sum = 0 := by simp
          rw [this]; linarith
        · rw [he, lincomb_cons, lincomb_cons, hz]
          have : lincomb (List.replicate l₂.length (0 : ℝ)) l₂ = zeroV :=
            lincomb_of_sum_zero _ _ (fun z hz => by rw [List.eq_of_mem_replicate hz]) (by simp)
          rw [this]
      · have hws : ∀ z ∈ ws, 0 ≤ z := fun z hz => hw z (List.mem_cons_of_mem _ hz)
        have hpos : 0 < ws.sum := lt_of_le_of_ne (sum_nonneg_list ws hws) (Ne.symm hrest)
        -- normalised rest is in the hull of l₁, hence (ih) of l₂
        have hin : InHull l₁ ((1 / ws.sum) * lincomb ws l₁) := by
          refine ⟨ws.map ((1 / ws.sum) * ·), by simpa using hl, ?_, ?_, (lincomb_scale _ _ _).symm⟩
          · intro z hz
            obtain ⟨u, hu, rfl⟩ := List.mem_map.mp hz
            exact mul_nonneg (by positivity) (hws u hu)
          · rw [sum_map_mul]; field_simp
        obtain ⟨us, hul, huw, hus, hue⟩ := ih hin
        refine ⟨w :: us.map (ws.sum * ·), by simp [hul], ?_, ?_, ?_⟩
        · intro z hz
          rcases List.mem_cons.mp hz with rfl | h'
          · exact hw _ (List.mem_cons_self)
          · obtain ⟨u, hu, rfl⟩ := List.mem_map.mp h'
            exact mul_nonneg hpos.le (huw u hu)
        · simp only [List.sum_cons] at hs ⊢
          rw [sum_map_mul, hus]; linarith
        · rw [he, lincomb_cons, lincomb_cons, lincomb_scale, ← hue]
          apply V3.ext' <;> simp <;> field_simp

/-- the segment from a hull point to an appended point lies in the hull of the extended list -/
theorem hull_segment {ys : List V} {v : V} (hv : InHull ys v) (w : V) (t : ℝ) (h0 : 0 ≤ t)
    (h1 : t ≤ 1) : InHull (ys ++ [w]) ((1 - t) * v + t * w) := by
  obtain ⟨ws, hl, hw, hs, rfl⟩ := hv
  refine ⟨ws.map ((1 - t) * ·) ++ [t], by simp [hl], ?_, ?_, ?_⟩
  · intro z hz
    rcases List.mem_append.mp hz with h' | h'
    · obtain ⟨u, hu, rfl⟩ := List.mem_map.mp h'
      exact mul_nonneg (by linarith) (hw u hu)
    · simp at h'; rw [h']; exact h0
  · rw [List.sum_append, sum_map_mul]; simp [hs]
  · rw [lincomb_append _ _ _ _ (by simp [hl]), lincomb_scale]
    simp [add_zeroV]

theorem hull_append_right {ys : List V} (w : V) : InHull (ys ++ [w]) w := by
  refine ⟨List.replicate ys.length 0 ++ [1], by simp, ?_, by simp, ?_⟩
  · intro z hz
    rcases List.mem_append.mp hz with h' | h'
    · rw [List.eq_of_mem_replicate h']
    · simp at h'; rw [h']; norm_num
  · rw [lincomb_append _ _ _ _ (by simp)]
    have : lincomb (List.replicate ys.length (0 : ℝ)) ys = zeroV :=
      lincomb_of_sum_zero _ _ (fun z hz => by rw [List.eq_of_mem_replicate hz]) (by simp)
    rw [this]
    simp [zeroV_add, add_zeroV, one_smul_vec]

theorem hull_append_left {ys : List V} {v : V} (hv : InHull ys v) (w : V) :
    InHull (ys ++ [w]) v :=
  hull_sublist (List.sublist_append_left ys [w]) hv

/-- hull of `Y = P − Q` lies in the Minkowski difference of convex sets, with explicit
pre-images given by the same weights -/
theorem hull_pre_images {A B : V → Prop} (hA : ConvexSet A) (hB : ConvexSet B)
    {ps qs : List V} (hlen : ps.length = qs.length) (hp : ∀ p ∈ ps, A p) (hq : ∀ q ∈ qs, B q)
    {ws : List ℝ} (hl : ws.length = ps.length) (hw : ∀ w ∈ ws, 0 ≤ w) (hs : ws.sum = 1) :
    A (lincomb ws ps) ∧ B (lincomb ws qs) ∧
      lincomb ws (List.zipWith (· - ·) ps qs) = lincomb ws ps - lincomb ws qs := by
  refine ⟨hull_subset_convex hA hp ⟨ws, hl, hw, hs, rfl⟩,
    hull_subset_convex hB hq ⟨ws, by rw [hl, hlen], hw, hs, rfl⟩, lincomb_sub ws ps qs hlen⟩

theorem hull_subset_minkDiff {A B : V → Prop} (hA : ConvexSet A) (hB : ConvexSet B)
    {ps qs : List V} (hlen : ps.length = qs.length) (hp : ∀ p ∈ ps, A p) (hq : ∀ q ∈ qs, B q)
    {y : V} (hy : InHull (List.zipWith (· - ·) ps qs) y) : MinkDiff A B y := by
  obtain ⟨ws, hl, hw, hs, rfl⟩ := hy
  have hl' : ws.length = ps.length := by
    rw [hl, List.length_zipWith, hlen, Nat.min_self]
  obtain ⟨ha, hb, he⟩ := hull_pre_images hA hB hlen hp hq hl' hw hs
  exact ⟨_, _, ha, hb, he⟩

end Gjk
end D3
