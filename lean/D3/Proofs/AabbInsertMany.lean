/-
Step (6): the jitted loop `insertMany` (= `insert_aabbs`) implements the fold of `T.insert`
over the insert order, with fresh parent rows `filledLen, filledLen+1, …`.
-/
import D3.Proofs.AabbInsertLeaf

set_option linter.unusedSectionVars false
set_option linter.unusedVariables false

namespace D3
namespace Aabb

/-- the core state encodes the abstract state (`none` = empty tree): strong representation
with root parent `INDEX_NONE`, distinct indices all below `filledLen`, tight, valid boxes. -/
def Enc (c : Core ℝ) : Option (T ℝ) → Prop
  | none => c.root = INDEX_NONE
  | some t => t.idx = c.root ∧ RepP c.nodes c.aabbs INDEX_NONE t ∧ t.indices.Nodup ∧
      t.Tight ∧ t.AllValid ∧ ∀ i ∈ t.indices, i < (c.filledLen : Int)

/-- indices used by the abstract state -/
def oIndices : Option (T ℝ) → List Int
  | none => []
  | some t => t.indices

/-- the rows `slots` are pre-loaded leaf rows waiting for insertion: distinct, blank
(`emptyNode`), below `filledLen`, outside the tree, each holding its (valid) box; and there is
room for one fresh parent row per pending slot in both arrays. -/
structure Pending (c : Core ℝ) (used : List Int) (slots : List (Int × Box ℝ)) : Prop where
  nodup : (slots.map (·.1)).Nodup
  row : ∀ x ∈ slots, rd c.nodes x.1 = .ok emptyNode ∧ rd c.aabbs x.1 = .ok x.2 ∧ x.2.Valid ∧
    x.1 < (c.filledLen : Int) ∧ x.1 ∉ used
  roomN : c.filledLen + slots.length ≤ c.nodes.size
  roomA : c.filledLen + slots.length ≤ c.aabbs.size

/-- the tree-layer insert list: slot, box, fresh parent index -/
def insList : Nat → List (Int × Box ℝ) → List (Int × Box ℝ × Int)
  | _, [] => []
  | f, x :: rest => (x.1, x.2, (f : Int)) :: insList (f + 1) rest

theorem inR_of_lt {β : Type} (a : Array β) (n : Nat) (h : n < a.size) : InR a (n : Int) := by
  constructor
  · omega
  · simpa using h

/-- **`insertMany` refines the fold of `T.insert`** (non-empty tree). -/
theorem insertMany_refines : ∀ (slots : List (Int × Box ℝ)) (c : Core ℝ) (t : T ℝ),
    Enc c (some t) → Pending c t.indices slots →
    ∃ c' t', insertMany c (slots.map (·.1)) = .ok c' ∧ Enc c' (some t') ∧
      (insList c.filledLen slots).foldlM (fun t x => t.insert x.1 x.2.1 x.2.2) t = some t' ∧
      t'.leaves.Perm (slots.reverse ++ t.leaves) ∧ t'.size = t.size + 2 * slots.length ∧
      c'.filledLen = c.filledLen + slots.length ∧
      c'.nodes.size = c.nodes.size ∧ c'.aabbs.size = c.aabbs.size ∧
      (∀ j, j ∉ t.indices → j ∉ slots.map (·.1) →
        (j < (c.filledLen : Int) ∨ (c'.filledLen : Int) ≤ j) →
        rd c'.nodes j = rd c.nodes j ∧ rd c'.aabbs j = rd c.aabbs j)
  | [], c, t, henc, _ => by
    refine ⟨c, t, rfl, henc, rfl, by simp, by simp, by simp, rfl, rfl, ?_⟩
    intro j _ _ _; exact ⟨rfl, rfl⟩
  | x :: rest, c, t, henc, hpend => by
    obtain ⟨hidx, hrep, hnd, htight, hvalid, hlt⟩ := henc
    obtain ⟨hnl, hlb, hlbv, hxlt, hxt⟩ := hpend.row x (by simp)
    have hroomN := hpend.roomN
    have hroomA := hpend.roomA
    simp only [List.length_cons] at hroomN hroomA
    have hpN : InR c.nodes c.filledLen := inR_of_lt _ _ (by omega)
    have hpA : InR c.aabbs c.filledLen := inR_of_lt _ _ (by omega)
    have hpl : (c.filledLen : Int) ≠ x.1 := by omega
    have hp : (c.filledLen : Int) ∉ t.indices := fun h => by have := hlt _ h; omega
    obtain ⟨c₁, t₁, hc₁, hins, hidx₁, hrep₁, hnd₁, htight₁, hvalid₁, hleaves₁, hinds₁, hsize₁, hf₁,
      hs1, hs2, hframe₁⟩ :=
      insertLeaf_refines c t x.1 emptyNode x.2 hrep hidx hnd htight hvalid hnl rfl rfl hlb hlbv hxt
        hpN hpA hpl hp
    have hnodup := hpend.nodup
    simp only [List.map_cons, List.nodup_cons] at hnodup
    have henc₁ : Enc c₁ (some t₁) := by
      refine ⟨hidx₁, hrep₁, hnd₁, htight₁, hvalid₁, ?_⟩
      intro i hi
      have := hinds₁.subset hi
      simp only [List.mem_cons] at this
      rw [hf₁]
      rcases this with h | h | h
      · omega
      · omega
      · have := hlt i h; omega
    have hpend₁ : Pending c₁ t₁.indices rest := by
      refine ⟨hnodup.2, ?_, by rw [hf₁, hs1]; omega, by rw [hf₁, hs2]; omega⟩
      intro y hy
      obtain ⟨y1, y2, y3, y4, y5⟩ := hpend.row y (by simp [hy])
      have hyx : y.1 ≠ x.1 := by
        intro h; apply hnodup.1; rw [← h]; exact List.mem_map_of_mem hy
      have hyp : y.1 ≠ (c.filledLen : Int) := by omega
      obtain ⟨f1, f2⟩ := hframe₁ y.1 y5 hyx hyp
      refine ⟨f1 ▸ y1, f2 ▸ y2, y3, by rw [hf₁]; omega, ?_⟩
      intro h
      have := hinds₁.subset h
      simp only [List.mem_cons] at this
      rcases this with h | h | h
      · exact hyp h
      · exact hyx h
      · exact y5 h
    obtain ⟨c', t', hc', henc', hfold, hleaves, hsize, hf, hsN, hsA, hframe⟩ :=
      insertMany_refines rest c₁ t₁ henc₁ hpend₁
    refine ⟨c', t', ?_, henc', ?_, ?_, ?_, ?_, by rw [hsN, hs1], by rw [hsA, hs2], ?_⟩
    · simp only [insertMany, List.map_cons, List.foldlM_cons, bind, Except.bind, hc₁]
      exact hc'
    · simp only [insList, List.foldlM_cons, hins]
      rw [← hf₁]
      exact hfold
    · refine hleaves.trans ?_
      simp only [List.reverse_cons, List.append_assoc, List.singleton_append]
      exact List.Perm.append_left _ hleaves₁
    · rw [hsize, hsize₁]; simp only [List.length_cons]; omega
    · rw [hf, hf₁]; simp only [List.length_cons]; omega
    · intro j hjt hjs hjr
      simp only [List.map_cons, List.mem_cons, not_or] at hjs
      have hjp : j ≠ (c.filledLen : Int) := by
        rcases hjr with h | h
        · omega
        · rw [hf, hf₁] at h; omega
      obtain ⟨g1, g2⟩ := hframe₁ j hjt hjs.1 hjp
      have hjt₁ : j ∉ t₁.indices := by
        intro h
        have := hinds₁.subset h
        simp only [List.mem_cons] at this
        rcases this with h | h | h
        · exact hjp h
        · exact hjs.1 h
        · exact hjt h
      obtain ⟨g3, g4⟩ := hframe j hjt₁ hjs.2 (by
        rcases hjr with h | h
        · left; rw [hf₁]; omega
        · right; exact h)
      exact ⟨g3.trans g1, g4.trans g2⟩

/-- **`insertMany` on the empty tree**: the first slot becomes the root (no parent row is
allocated), the rest is inserted as in `insertMany_refines`. -/
theorem insertMany_refines_empty (x : Int × Box ℝ) (rest : List (Int × Box ℝ)) (c : Core ℝ)
    (henc : Enc c none) (hpend : Pending c [] (x :: rest)) :
    ∃ c' t', insertMany c ((x :: rest).map (·.1)) = .ok c' ∧ Enc c' (some t') ∧
      (insList c.filledLen rest).foldlM (fun t y => t.insert y.1 y.2.1 y.2.2) (.leaf x.1 x.2)
        = some t' ∧
      t'.leaves.Perm (x :: rest).reverse ∧ t'.size = 2 * (x :: rest).length - 1 ∧
      c'.filledLen = c.filledLen + rest.length ∧
      c'.nodes.size = c.nodes.size ∧ c'.aabbs.size = c.aabbs.size := by
  obtain ⟨hnl, hlb, hlbv, hxlt, _⟩ := hpend.row x (by simp)
  obtain ⟨c₁, hc₁, hroot₁, hrep₁, hf₁, hs1, hA₁, hframe₁⟩ :=
    insertLeaf_empty_struct c x.1 emptyNode x.2 henc hnl rfl rfl rfl hlb
  have hnodup := hpend.nodup
  simp only [List.map_cons, List.nodup_cons] at hnodup
  have hroomN := hpend.roomN
  have hroomA := hpend.roomA
  simp only [List.length_cons] at hroomN hroomA
  have henc₁ : Enc c₁ (some (.leaf x.1 x.2)) := by
    refine ⟨hroot₁.symm, hrep₁, by simp [T.indices], trivial, hlbv, ?_⟩
    intro i hi
    simp only [T.indices, List.mem_singleton] at hi
    rw [hi, hf₁]; exact hxlt
  have hpend₁ : Pending c₁ (T.leaf x.1 x.2).indices rest := by
    refine ⟨hnodup.2, ?_, by rw [hf₁, hs1]; omega, by rw [hf₁, hA₁]; omega⟩
    intro y hy
    obtain ⟨y1, y2, y3, y4, _⟩ := hpend.row y (by simp [hy])
    have hyx : y.1 ≠ x.1 := by
      intro h; apply hnodup.1; rw [← h]; exact List.mem_map_of_mem hy
    refine ⟨(hframe₁ y.1 hyx) ▸ y1, hA₁ ▸ y2, y3, by rw [hf₁]; exact y4, ?_⟩
    simp only [T.indices, List.mem_singleton]
    exact hyx
  obtain ⟨c', t', hc', henc', hfold, hleaves, hsize, hf, hsN, hsA, _⟩ :=
    insertMany_refines rest c₁ _ henc₁ hpend₁
  refine ⟨c', t', ?_, henc', ?_, ?_, ?_, by rw [hf, hf₁], by rw [hsN, hs1], by rw [hsA, hA₁]⟩
  · simp only [insertMany, List.map_cons, List.foldlM_cons, bind, Except.bind, hc₁]
    exact hc'
  · rw [← hf₁]; exact hfold
  · refine hleaves.trans ?_
    simp [T.leaves]
  · rw [hsize]; simp only [T.size, List.length_cons]; omega

end Aabb
end D3
