/-
EPA, S3: soundness of the decidable checker `facesCertificate` run on the returned faces.
Proved: an accepted face list is a closed, consistently oriented surface (every directed edge
once, its reverse once), no face is degenerate, every stored normal points to the outer side,
the origin is on the inner side of every face plane, and every face plane supports (within
`slack`) the convex hull of all face vertices — so each face lies on the boundary of that hull.
Not proved (see PARTIAL in harness/props/c07.py): that such a surface is the *whole* boundary,
i.e. `Poly faces ⊆ Hull (allVerts faces)`.
-/
import D3.Proofs.EpaInit

namespace D3
namespace Epa

/-- convex hull of a finite point list, as the closure under segments -/
inductive Hull (vs : List V) : V → Prop
  | vert {v : V} : v ∈ vs → Hull vs v
  | seg {x y : V} {t : ℝ} : Hull vs x → Hull vs y → 0 ≤ t → t ≤ 1 →
      Hull vs ((1 - t) * x + t * y)

theorem height_affine (f : Face ℝ) (x y : V) (t : ℝ) :
    height f ((1 - t) * x + t * y) = (1 - t) * height f x + t * height f y := by
  simp only [height, V3.dot_def, V3.sub_x, V3.sub_y, V3.sub_z, V3.add_x, V3.add_y, V3.add_z,
    V3.smul_x, V3.smul_y, V3.smul_z]
  ring

/-- the three vertices of a face lie in its own plane -/
theorem height_own (f : Face ℝ) : height f f.a = 0 ∧ height f f.b = 0 ∧ height f f.c = 0 := by
  simp only [height, rawNormal, V3.cross, V3.dot_def, V3.sub_x, V3.sub_y, V3.sub_z]
  refine ⟨?_, ?_, ?_⟩ <;> ring

theorem height_le_of_hull {f : Face ℝ} {vs : List V} {s : ℝ}
    (h : ∀ v ∈ vs, height f v ≤ s) : ∀ x, Hull vs x → height f x ≤ s := by
  intro x hx
  induction hx with
  | vert hv => exact h _ hv
  | seg _ _ h0 h1 ihx ihy =>
    rw [height_affine]
    nlinarith [ihx, ihy, h0, h1]

/-- what an accepted face list satisfies -/
structure Certified (slack : ℝ) (faces : List (Face ℝ)) : Prop where
  closed : ∀ e ∈ allEdges faces,
    (allEdges faces).count e = 1 ∧ (allEdges faces).count (e.2, e.1) = 1
  nondegenerate : ∀ f ∈ faces, 0 < V3.normSq (rawNormal f)
  normal_out : ∀ f ∈ faces, 0 < V3.dot (rawNormal f) f.n
  origin_inner : ∀ f ∈ faces, height f ⟨0, 0, 0⟩ ≤ 0
  supports : ∀ f ∈ faces, ∀ x, Hull (allVerts faces) x → height f x ≤ slack

theorem facesCertificate_sound {slack : ℝ} {faces : List (Face ℝ)}
    (h : facesCertificate slack faces = true) : Certified slack faces := by
  unfold facesCertificate at h
  rw [Bool.and_eq_true] at h
  obtain ⟨hc, hf⟩ := h
  rw [List.all_eq_true] at hf
  refine ⟨?_, ?_, ?_, ?_, ?_⟩
  · intro e he
    unfold closedSurface at hc
    simp only [List.all_eq_true, Bool.and_eq_true, beq_iff_eq] at hc
    exact hc e he
  · intro f hm
    have := hf f hm
    simp only [Bool.and_eq_true, decide_eq_true_eq] at this
    exact this.1.1.1
  · intro f hm
    have := hf f hm
    simp only [Bool.and_eq_true, decide_eq_true_eq] at this
    exact this.1.1.2
  · intro f hm
    have := hf f hm
    simp only [Bool.and_eq_true, decide_eq_true_eq] at this
    exact this.1.2
  · intro f hm
    have := hf f hm
    simp only [Bool.and_eq_true, decide_eq_true_eq, List.all_eq_true] at this
    exact height_le_of_hull this.2

/-- with `slack = 0` every face triangle lies on the boundary of the hull of all vertices:
its plane touches the hull at the face's own vertices and has the hull on its inner side -/
theorem Certified.face_on_boundary {faces : List (Face ℝ)} (h : Certified 0 faces)
    {f : Face ℝ} (hf : f ∈ faces) :
    Hull (allVerts faces) f.a ∧ height f f.a = 0 ∧
    ∀ x, Hull (allVerts faces) x → height f x ≤ 0 := by
  refine ⟨Hull.vert ?_, (height_own f).1, h.supports f hf⟩
  simp only [allVerts, List.mem_flatMap]
  exact ⟨f, hf, by simp [faceVerts]⟩

end Epa
end D3
