/-
C02 — exit-branch lemmas for the boolean libccd-style GJK (`D3.IsectLibccd`).
-/
import D3.Proofs.IntersectSpec
import D3.Model.IntersectLibccd

namespace D3
namespace IsectLibccd
open Isect

theorem EPS_SQRT_pos : (0 : ℝ) < EPS_SQRT := by
  unfold EPS_SQRT D3.Gen.gjk__gjk_libccd__EPSILON_SQRT; norm_num

/-! ### (3a) "support point before the origin" exit -/

/-- what is known when `_gjk` leaves through `support_point_is_before_origin` (exit branch 1) -/
theorem gjkStep_br1 {sup : V → V} {S S' : Sx ℝ} {n n' : Nat} {dir dir' : V} {b : Bool} {rb : Nat}
    (h : gjkStep sup S n dir = .ok (some (b, 1), S', n', dir', rb)) :
    b = false ∧ V3.dot (sup dir) dir < -EPS_SQRT := by
  unfold gjkStep at h
  simp only at h
  split at h
  · simp at h
  split at h
  · rename_i hlt
    simp only [Except.ok.injEq, Prod.mk.injEq, Option.some.injEq] at h
    exact ⟨h.1.1.symm, hlt⟩
  split at h
  · cases h
  split at h
  · cases h
  split at h
  · simp at h
  · simp at h
  · split at h <;> simp at h

/-- **`false_before_origin`.** If `_gjk` answers False because the new support point does not pass the
origin (`⟨w, dir⟩ < -√EPSILON`), every point of `A ⊖ B` has `⟨dir, y⟩ < -√EPSILON < 0`: the plane through the
origin orthogonal to `dir` separates the colliders, which are therefore disjoint. -/
theorem false_before_origin {A B : V → Prop} {sup : V → V} (hsup : ∀ d, IsSupport (mdiff A B) d (sup d))
    {S S' : Sx ℝ} {n n' : Nat} {dir dir' : V} {b : Bool} {rb : Nat}
    (h : gjkStep sup S n dir = .ok (some (b, 1), S', n', dir', rb)) :
    b = false ∧ (∀ y, mdiff A B y → V3.dot dir y < -EPS_SQRT) ∧ Disjoint' A B := by
  obtain ⟨hb, hlt⟩ := gjkStep_br1 h
  have hall : ∀ y, mdiff A B y → V3.dot dir y < -EPS_SQRT := fun y hy => by
    have := (hsup dir).2 y hy
    rw [V3.dot_comm] at hlt; linarith
  exact ⟨hb, hall, disjoint_of_neg_support (d := dir) fun y hy => by
    have := hall y hy; linarith [EPS_SQRT_pos]⟩

/-- every answer of the `for` loop of `_gjk` other than the iteration cap is the answer of one pass of its
body -/
theorem gjkLoop_last_step (sup : V → V) :
    ∀ (k it : Nat) (S : Sx ℝ) (n : Nat) (dir : V) (b : Bool) (its br : Nat),
      gjkLoop sup k it S n dir = .ok (b, its, br) → br ≠ 5 →
      ∃ S0 n0 dir0 S' n' dir' rb, gjkStep sup S0 n0 dir0 = .ok (some (b, br), S', n', dir', rb)
  | 0, _, _, _, _, _, _, _, h, hbr => by
    simp only [gjkLoop, Except.ok.injEq, Prod.mk.injEq] at h
    exact absurd h.2.2.symm hbr
  | k + 1, it, S, n, dir, b, its, br, h, hbr => by
    unfold gjkLoop at h
    split at h
    · cases h
    · rename_i b' br' S' n' dir' rb heq
      simp only [Except.ok.injEq, Prod.mk.injEq] at h
      obtain ⟨rfl, _, rfl⟩ := h
      exact ⟨S, n, dir, S', n', dir', rb, heq⟩
    · exact gjkLoop_last_step sup k _ _ _ _ _ _ _ h hbr

/-! ### (3b) "origin inside the tetrahedron" exit -/

theorem signI_eq_mul_pos {x y : ℝ} (h : signI x = signI y) (hy : y ≠ 0) : 0 < x * y := by
  unfold signI at h
  rcases lt_trichotomy y 0 with hy' | hy' | hy'
  · rw [if_pos hy'] at h
    by_cases hx : x < 0
    · exact mul_pos_of_neg_of_neg hx hy'
    · rw [if_neg hx] at h
      split at h <;> simp at h
  · exact absurd hy' hy
  · have : ¬ y < 0 := not_lt.mpr (le_of_lt hy')
    rw [if_neg this, if_pos hy'] at h
    by_cases hx : x < 0
    · rw [if_pos hx] at h; simp at h
    · rw [if_neg hx] at h
      by_cases hx' : 0 < x
      · exact mul_pos hx' hy'
      · rw [if_neg hx'] at h; simp at h

/-- what is known when `_tetrahedron` answers CONTACT through `origin_is_in_tetrahedron` (branch 2): the three
sign tests of the code hold (A = newest point `v[3]`, B = `v[2]`, C = `v[1]`, D = `v[0]`) -/
theorem tetrahedron_contact_signs {S : Sx ℝ} {r : Refine ℝ} (h : tetrahedron S = .ok r) (hbr : r.br = 2) :
    r.state = .contact ∧
    signI (V3.dot (V3.cross (S.v1 - S.v3) (S.v0 - S.v3)) (-S.v3)) =
      signI (V3.dot (V3.cross (S.v1 - S.v3) (S.v0 - S.v3)) (S.v2 - S.v3)) ∧
    signI (V3.dot (V3.cross (S.v0 - S.v3) (S.v2 - S.v3)) (-S.v3)) =
      signI (V3.dot (V3.cross (S.v0 - S.v3) (S.v2 - S.v3)) (S.v1 - S.v3)) ∧
    signI (V3.dot (V3.cross (S.v2 - S.v3) (S.v1 - S.v3)) (-S.v3)) =
      signI (V3.dot (V3.cross (S.v2 - S.v3) (S.v1 - S.v3)) (S.v0 - S.v3)) := by
  unfold tetrahedron at h
  simp only at h
  split at h
  · cases h
  split at h
  · cases h; simp at hbr
  split at h
  · cases h
  · cases h; simp at hbr
  · split at h
    · rename_i hall
      cases h
      simp only [Bool.and_eq_true, decide_eq_true_eq] at hall
      exact ⟨rfl, hall.1.1, hall.1.2, hall.2⟩
    · split at h
      · cases h
      · rename_i r' _
        cases h
        simp only at hbr
        split at hbr
        · omega
        · split at hbr <;> omega

/-- **`contact_origin_in_tetra` (geometry).** For a non-degenerate tetrahedron `A B C D`
(`det = ⟨AC × AD, AB⟩ ≠ 0`), if the origin is on the same side of the planes `ACD`, `ADB`, `ABC` as `B`, `C`,
`D` respectively (the three sign tests of `_tetrahedron`) **and** on the same side of `BCD` as `A` (the GJK
invariant for the face opposite to the newest point, which the code does not test), then the origin lies in
`hull{A, B, C, D}`. -/
theorem origin_in_tetra_of_signs (A B C D : V)
    (hdet : V3.dot (V3.cross (C - A) (D - A)) (B - A) ≠ 0)
    (hb : signI (V3.dot (V3.cross (C - A) (D - A)) (-A)) = signI (V3.dot (V3.cross (C - A) (D - A)) (B - A)))
    (hc : signI (V3.dot (V3.cross (D - A) (B - A)) (-A)) = signI (V3.dot (V3.cross (D - A) (B - A)) (C - A)))
    (hd : signI (V3.dot (V3.cross (B - A) (C - A)) (-A)) = signI (V3.dot (V3.cross (B - A) (C - A)) (D - A)))
    (hopp : 0 ≤ V3.dot (V3.cross (C - B) (D - B)) (A - B) * V3.dot (V3.cross (C - B) (D - B)) (-B)) :
    Hull4 A B C D ⟨0, 0, 0⟩ := by
  obtain ⟨det, hdetdef⟩ : ∃ det, det = V3.dot (V3.cross (C - A) (D - A)) (B - A) := ⟨_, rfl⟩
  obtain ⟨sb, hsb⟩ : ∃ sb, sb = V3.dot (V3.cross (C - A) (D - A)) (-A) := ⟨_, rfl⟩
  obtain ⟨sc, hsc⟩ : ∃ sc, sc = V3.dot (V3.cross (D - A) (B - A)) (-A) := ⟨_, rfl⟩
  obtain ⟨sd, hsd⟩ : ∃ sd, sd = V3.dot (V3.cross (B - A) (C - A)) (-A) := ⟨_, rfl⟩
  -- the three "reference" determinants coincide
  have e1 : V3.dot (V3.cross (D - A) (B - A)) (C - A) = det := by
    rw [hdetdef]; simp only [V3.dot_def, V3.cross, V3.sub_x, V3.sub_y, V3.sub_z]; ring
  have e2 : V3.dot (V3.cross (B - A) (C - A)) (D - A) = det := by
    rw [hdetdef]; simp only [V3.dot_def, V3.cross, V3.sub_x, V3.sub_y, V3.sub_z]; ring
  rw [← hdetdef] at hdet hb
  rw [e1] at hc
  rw [e2] at hd
  rw [← hsb] at hb
  rw [← hsc] at hc
  rw [← hsd] at hd
  have pb := signI_eq_mul_pos hb hdet
  have pc := signI_eq_mul_pos hc hdet
  have pd := signI_eq_mul_pos hd hdet
  -- the fourth face
  have e3 : V3.dot (V3.cross (C - B) (D - B)) (A - B) = -det := by
    rw [hdetdef]; simp only [V3.dot_def, V3.cross, V3.sub_x, V3.sub_y, V3.sub_z]; ring
  have e4 : V3.dot (V3.cross (C - B) (D - B)) (-B) = -(det - sb - sc - sd) := by
    rw [hdetdef, hsb, hsc, hsd]
    simp only [V3.dot_def, V3.cross, V3.sub_x, V3.sub_y, V3.sub_z, V3.neg_x, V3.neg_y, V3.neg_z]; ring
  rw [e3, e4] at hopp
  have pa : 0 ≤ (det - sb - sc - sd) * det := by nlinarith
  have hdd : 0 < det * det := mul_self_pos.mpr hdet
  have hii : 0 < det⁻¹ * det⁻¹ := mul_self_pos.mpr (inv_ne_zero hdet)
  -- Cramer: det • (-A) = sb • AB + sc • AC + sd • AD
  have cx : det * (-A.x) = sb * (B.x - A.x) + sc * (C.x - A.x) + sd * (D.x - A.x) := by
    rw [hdetdef, hsb, hsc, hsd]
    simp only [V3.dot_def, V3.cross, V3.sub_x, V3.sub_y, V3.sub_z, V3.neg_x, V3.neg_y, V3.neg_z]; ring
  have cy : det * (-A.y) = sb * (B.y - A.y) + sc * (C.y - A.y) + sd * (D.y - A.y) := by
    rw [hdetdef, hsb, hsc, hsd]
    simp only [V3.dot_def, V3.cross, V3.sub_x, V3.sub_y, V3.sub_z, V3.neg_x, V3.neg_y, V3.neg_z]; ring
  have cz : det * (-A.z) = sb * (B.z - A.z) + sc * (C.z - A.z) + sd * (D.z - A.z) := by
    rw [hdetdef, hsb, hsc, hsd]
    simp only [V3.dot_def, V3.cross, V3.sub_x, V3.sub_y, V3.sub_z, V3.neg_x, V3.neg_y, V3.neg_z]; ring
  refine ⟨(det - sb - sc - sd) / det, sb / det, sc / det, sd / det, ?_, ?_, ?_, ?_, ?_, ?_⟩
  · rw [div_eq_mul_inv]
    have : (det - sb - sc - sd) * det⁻¹ = ((det - sb - sc - sd) * det) * (det⁻¹ * det⁻¹) := by
      field_simp
    rw [this]; exact mul_nonneg pa (le_of_lt hii)
  · have : sb / det = (sb * det) * (det⁻¹ * det⁻¹) := by field_simp
    rw [this]; exact le_of_lt (mul_pos pb hii)
  · have : sc / det = (sc * det) * (det⁻¹ * det⁻¹) := by field_simp
    rw [this]; exact le_of_lt (mul_pos pc hii)
  · have : sd / det = (sd * det) * (det⁻¹ * det⁻¹) := by field_simp
    rw [this]; exact le_of_lt (mul_pos pd hii)
  · field_simp; ring
  · apply V3.ext' <;>
      simp only [V3.add_x, V3.add_y, V3.add_z, V3.smul_x, V3.smul_y, V3.smul_z] <;>
      field_simp <;> linarith

/-- **`contact_origin_in_tetra`.** The CONTACT answer "origin inside the tetrahedron" of `_tetrahedron` on the
model, for a non-degenerate simplex whose oldest face `BCD` has the origin on the side of the newest point
`A`, implies that the origin is a convex combination of the four simplex points (`A ⊖ B`-points, hence a
common point of the colliders). -/
theorem contact_origin_in_tetra {S : Sx ℝ} {r : Refine ℝ} (h : tetrahedron S = .ok r) (hbr : r.br = 2)
    (hdet : V3.dot (V3.cross (S.v1 - S.v3) (S.v0 - S.v3)) (S.v2 - S.v3) ≠ 0)
    (hopp : 0 ≤ V3.dot (V3.cross (S.v1 - S.v2) (S.v0 - S.v2)) (S.v3 - S.v2) *
        V3.dot (V3.cross (S.v1 - S.v2) (S.v0 - S.v2)) (-S.v2)) :
    r.state = .contact ∧ Hull4 S.v3 S.v2 S.v1 S.v0 ⟨0, 0, 0⟩ := by
  obtain ⟨hst, hb, hc, hd⟩ := tetrahedron_contact_signs h hbr
  exact ⟨hst, origin_in_tetra_of_signs S.v3 S.v2 S.v1 S.v0 hdet hb hc hd hopp⟩

end IsectLibccd
end D3
