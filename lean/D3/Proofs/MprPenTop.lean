/-
Structure of `mpr_penetration` at ℝ: which exit produced the result, what `_discover_portal`
and `_refine_portal` guarantee about the rows of the portal (every row 1..3 is a support row —
also across the view-"swap", which copies a valid row), the origin ray is never the zero vector.
-/
import D3.Proofs.MprPenContact

set_option linter.unusedSectionVars false
set_option linter.unusedVariables false

namespace D3
namespace MprPen

/-! ### `_find_origin_ray` -/

theorem findOriginRay_ne_zero (c1 c2 : V) : (findOriginRay c1 c2).1.v ≠ V3.zero := by
  unfold findOriginRay
  dsimp only
  split_ifs with hz
  · intro h
    have hx := congrArg V3.x h
    rw [vecIsZero_iff] at hz
    have h0 : (makeSupportPoint c1 c2).v.x = 0 := by rw [hz]; rfl
    simp only [zero_def, h0] at hx
    have hpos : (0 : ℝ) < EPS * 10.0 := by
      have := EPS_pos
      have h10 : (10.0 : ℝ) = 10 := by norm_num
      rw [h10]; linarith
    linarith
  · intro h; exact hz ((vecIsZero_iff _).mpr h)

theorem findOriginRay_ab (c1 c2 : V) :
    (findOriginRay c1 c2).1.a = c1 ∧ (findOriginRay c1 c2).1.b = c2 := by
  unfold findOriginRay
  dsimp only
  split_ifs <;> exact ⟨rfl, rfl⟩

/-- unless the centres coincide, row 0 is `c1 − c2` -/
theorem findOriginRay_v (c1 c2 : V) (h : c1 ≠ c2) : (findOriginRay c1 c2).1.v = c1 - c2 := by
  unfold findOriginRay
  dsimp only
  split_ifs with hz
  · exfalso
    apply h
    rw [vecIsZero_iff] at hz
    have hx := congrArg V3.x hz
    have hy := congrArg V3.y hz
    have hzz := congrArg V3.z hz
    simp only [makeSupportPoint, sub_def, zero_def] at hx hy hzz
    apply V3.ext' <;> linarith
  · rfl

/-- the first search direction is a unit vector -/
theorem originRay_dir_unit (c1 c2 : V) : V3.normSq (normVector (-(findOriginRay c1 c2).1.v)) = 1 := by
  apply normVector_unit
  intro h
  apply findOriginRay_ne_zero c1 c2
  have hx := congrArg V3.x h
  have hy := congrArg V3.y h
  have hz := congrArg V3.z h
  simp only [neg_def, zero_def] at hx hy hz
  apply V3.ext' <;> simp only [zero_def] <;> linarith

/-! ### `_discover_portal` -/

theorem iterateDiscoverPortal_rows {A B : V → Prop} (p0 p1 p2 p3 : SP ℝ) (dir : V) (size : ℕ)
    (h1 : SPIn A B p1) (h2 : SPIn A B p2) (h3 : SPIn A B p3) :
    SPIn A B (iterateDiscoverPortal p0 p1 p2 p3 dir size).2.2.1 ∧
      SPIn A B (iterateDiscoverPortal p0 p1 p2 p3 dir size).2.2.2.1 := by
  unfold iterateDiscoverPortal
  split_ifs <;> exact ⟨by assumption, by assumption⟩

theorem discoverLoop_spec {A B : V → Prop} {sup : Sup ℝ} (hs : SupOK A B sup) (p0 : SP ℝ) :
    ∀ (rem it : ℕ) (p1 p2 : SP ℝ) (dir : V), SPIn A B p1 → SPIn A B p2 →
      ((discoverLoop sup p0 rem it p1 p2 dir).1 = .outside ∨
        (discoverLoop sup p0 rem it p1 p2 dir).1 = .built) ∧
      (discoverLoop sup p0 rem it p1 p2 dir).2.1.p0 = p0 ∧
      SPIn A B (discoverLoop sup p0 rem it p1 p2 dir).2.1.p1 ∧
      SPIn A B (discoverLoop sup p0 rem it p1 p2 dir).2.1.p2 ∧
      SPIn A B (discoverLoop sup p0 rem it p1 p2 dir).2.1.p3 := by
  intro rem
  induction rem with
  | zero =>
    intro it p1 p2 dir h1 h2
    have h3 : SPIn A B (supportFn sup dir) := supportFn_in hs _
    obtain ⟨e1, e2⟩ := iterateDiscoverPortal_rows (A := A) (B := B) p0 p1 p2 _ dir 3 h1 h2 h3
    unfold discoverLoop
    dsimp only
    split_ifs
    · exact ⟨Or.inl rfl, rfl, h1, h2, h3⟩
    · exact ⟨Or.inr rfl, rfl, e1, e2, h3⟩
    · exact ⟨Or.inr rfl, rfl, e1, e2, h3⟩
  | succ n ih =>
    intro it p1 p2 dir h1 h2
    have h3 : SPIn A B (supportFn sup dir) := supportFn_in hs _
    obtain ⟨e1, e2⟩ := iterateDiscoverPortal_rows (A := A) (B := B) p0 p1 p2 _ dir 3 h1 h2 h3
    unfold discoverLoop
    dsimp only
    split_ifs
    · exact ⟨Or.inl rfl, rfl, h1, h2, h3⟩
    · exact ⟨Or.inr rfl, rfl, e1, e2, h3⟩
    · cases n with
      | zero => exact ⟨Or.inr rfl, rfl, e1, e2, h3⟩
      | succ m => exact ih _ _ _ _ e1 e2

/-- what `_discover_portal` returns, by state -/
theorem discoverPortal_spec {A B : V → Prop} {sup : Sup ℝ} (hs : SupOK A B sup) (c1 c2 : V)
    (maxIter : ℕ) :
    (discoverPortal sup c1 c2 maxIter).2.1.p0 = (findOriginRay c1 c2).1 ∧
    (((discoverPortal sup c1 c2 maxIter).1 = .onV1 ∨ (discoverPortal sup c1 c2 maxIter).1 = .onSegment) →
      (discoverPortal sup c1 c2 maxIter).2.1.p1 =
        supportFn sup (normVector (-(findOriginRay c1 c2).1.v))) ∧
    ((discoverPortal sup c1 c2 maxIter).1 = .onV1 →
      (discoverPortal sup c1 c2 maxIter).2.1.p1.v = V3.zero) ∧
    ((discoverPortal sup c1 c2 maxIter).1 = .onSegment →
      (discoverPortal sup c1 c2 maxIter).2.1.p1.v ≠ V3.zero) ∧
    ((discoverPortal sup c1 c2 maxIter).1 = .built →
      SPIn A B (discoverPortal sup c1 c2 maxIter).2.1.p1 ∧
      SPIn A B (discoverPortal sup c1 c2 maxIter).2.1.p2 ∧
      SPIn A B (discoverPortal sup c1 c2 maxIter).2.1.p3) := by
  unfold discoverPortal
  dsimp only
  split_ifs with hout
  · refine ⟨rfl, ?_, ?_, ?_, ?_⟩ <;> intro h <;> simp at h
  · generalize hp0 : (findOriginRay c1 c2).1 = p0
    have hp1 : SPIn A B (findSupportOriginRay sup p0).1 := supportFn_in hs _
    have hp1eq : (findSupportOriginRay sup p0).1 = supportFn sup (normVector (-p0.v)) := rfl
    generalize hq1 : (findSupportOriginRay sup p0).1 = p1 at hp1 hp1eq ⊢
    unfold findSupportPerp
    dsimp only
    split_ifs with hc hz hz2
    · -- onV1
      refine ⟨rfl, fun _ => hp1eq, fun _ => (vecIsZero_iff _).mp hz, ?_, ?_⟩ <;> intro h <;> simp at h
    · -- onSegment
      refine ⟨rfl, fun _ => hp1eq, ?_, fun _ => fun h0 => hz ((vecIsZero_iff _).mpr h0), ?_⟩ <;>
        intro h <;> simp at h
    · -- outside after row 2
      refine ⟨rfl, ?_, ?_, ?_, ?_⟩ <;> intro h <;> simp at h
    · -- loop
      have hp2 : SPIn A B (supportFn sup (normVector (V3.cross p0.v p1.v))) := supportFn_in hs _
      generalize supportFn sup (normVector (V3.cross p0.v p1.v)) = p2 at hp2 ⊢
      have hsw : SPIn A B (searchDirectionPerp p0 p1 p2).2.1 ∧ SPIn A B (searchDirectionPerp p0 p1 p2).2.2.1 := by
        unfold searchDirectionPerp swapVerticesAsIs
        dsimp only
        split_ifs
        · exact ⟨hp2, hp2⟩
        · exact ⟨hp1, hp2⟩
      obtain ⟨hst, hP0, r1, r2, r3⟩ := discoverLoop_spec hs p0 maxIter 0 _ _ (searchDirectionPerp p0 p1 p2).1 hsw.1 hsw.2
      refine ⟨hP0, ?_, ?_, ?_, fun _ => ⟨r1, r2, r3⟩⟩
      · intro h; rcases h with h | h <;> rcases hst with h' | h' <;> rw [h'] at h <;> cases h
      · intro h; rcases hst with h' | h' <;> rw [h'] at h <;> cases h
      · intro h; rcases hst with h' | h' <;> rw [h'] at h <;> cases h

/-! ### `_refine_portal` -/

theorem refinePortal_spec {A B : V → Prop} {sup : Sup ℝ} (hs : SupOK A B sup) (tol : ℝ) (p0 : SP ℝ) :
    ∀ (fuel it : ℕ) (p1 p2 p3 : SP ℝ) (res : Bool × Portal ℝ × ℕ × ℕ),
      SPIn A B p1 → SPIn A B p2 → SPIn A B p3 →
      refinePortal sup tol p0 fuel it p1 p2 p3 = .ok res →
      res.2.1.p0 = p0 ∧ SPIn A B res.2.1.p1 ∧ SPIn A B res.2.1.p2 ∧ SPIn A B res.2.1.p3 := by
  intro fuel
  induction fuel with
  | zero => intro it p1 p2 p3 res _ _ _ h; simp [refinePortal] at h
  | succ fuel ih =>
    intro it p1 p2 p3 res h1 h2 h3 h
    rw [refinePortal] at h
    dsimp only at h
    split_ifs at h with c1 c2 c3
    · injection h with h; rw [← h]; exact ⟨rfl, h1, h2, h3⟩
    · injection h with h; rw [← h]; exact ⟨rfl, h1, h2, h3⟩
    · injection h with h; rw [← h]; exact ⟨rfl, h1, h2, h3⟩
    · have h4 : SPIn A B (supportFn sup (portalDirection p1 p2 p3)) := supportFn_in hs _
      obtain ⟨e1, e2, e3⟩ := expandPortal_rows (A := A) (B := B) p0 p1 p2 p3 _ h1 h2 h3 h4
      exact ih _ _ _ _ _ e1 e2 e3 h

/-! ### `mpr_penetration` -/

/-- the three ways `mpr_penetration` produces penetration info -/
theorem mprPenetration_cases {sup : Sup ℝ} {c1 c2 : V} {tol : ℝ} {maxIter fuel : ℕ}
    {res : PenRes ℝ} {i : PenInfo ℝ}
    (h : mprPenetration sup c1 c2 tol maxIter fuel = .ok res) (hi : res.info = some i) :
    ((discoverPortal sup c1 c2 maxIter).1 = .onV1 ∧
      i = specialInfo (findPenetrationTouch (discoverPortal sup c1 c2 maxIter).2.1.p1) 2
        (discoverPortal sup c1 c2 maxIter).2.1) ∨
    ((discoverPortal sup c1 c2 maxIter).1 = .onSegment ∧
      i = specialInfo (findPenetrationSegment (discoverPortal sup c1 c2 maxIter).2.1.p1) 3
        (discoverPortal sup c1 c2 maxIter).2.1) ∨
    ((discoverPortal sup c1 c2 maxIter).1 = .built ∧
      ∃ (P' : Portal ℝ) (k e : ℕ),
        refinePortal sup tol (discoverPortal sup c1 c2 maxIter).2.1.p0 fuel 0
          (discoverPortal sup c1 c2 maxIter).2.1.p1 (discoverPortal sup c1 c2 maxIter).2.1.p2
          (discoverPortal sup c1 c2 maxIter).2.1.p3 = .ok (true, P', k, e) ∧
        findPenetrationInfo sup P' tol maxIter = .ok i) := by
  unfold mprPenetration at h
  dsimp only at h
  generalize discoverPortal sup c1 c2 maxIter = d at h ⊢
  obtain ⟨st, P, k⟩ := d
  cases st with
  | outside =>
    simp only at h
    injection h with h; rw [← h] at hi; cases hi
  | onV1 =>
    simp only at h
    injection h with h; rw [← h] at hi
    injection hi with hi
    exact Or.inl ⟨rfl, hi.symm⟩
  | onSegment =>
    simp only at h
    injection h with h; rw [← h] at hi
    injection hi with hi
    exact Or.inr (Or.inl ⟨rfl, hi.symm⟩)
  | built =>
    simp only at h
    right; right
    refine ⟨rfl, ?_⟩
    cases hr : refinePortal sup tol P.p0 fuel 0 P.p1 P.p2 P.p3 with
    | error e => simp only [hr, bind, Except.bind] at h; cases h
    | ok r =>
      obtain ⟨b, P', k', e'⟩ := r
      simp only [hr, bind, Except.bind] at h
      cases b with
      | false =>
        simp only [pure, Except.pure] at h
        injection h with h; rw [← h] at hi; cases hi
      | true =>
        simp only [if_true] at h
        cases hf : findPenetrationInfo sup P' tol maxIter with
        | error e => simp only [hf] at h; cases h
        | ok i' =>
          simp only [hf, pure, Except.pure] at h
          injection h with h; rw [← h] at hi
          injection hi with hi
          exact ⟨P', k', e', rfl, by rw [← hi]; exact hf⟩

end MprPen
end D3
