/-
Step (7): every history of `insert_aabbs` calls on a fresh `AabbTree`.
-/
import D3.Proofs.AabbInsertBatch

set_option linter.unusedSectionVars false
set_option linter.unusedVariables false

namespace D3
namespace Aabb

/-- a history of `insert_aabbs` calls, run on the class-level model with the repaired order -/
noncomputable def runHistory (tr : Tree ℝ) (h : List Batch) : Except Err (Tree ℝ) :=
  h.foldlM (fun tr b => Tree.insertAabbs insertOrderFixed tr b.boxes b.ext b.mode b.perm) tr

/-- all (row, box) pairs a history puts into the tree: the `k`-th box of a call made at
`filled_len = f` goes to row `f + k` -/
def histLeaves : Nat → List Batch → List (Int × Box ℝ)
  | _, [] => []
  | f, b :: bs => histLeaves (nextFilled f b.boxes.length) bs ++ batchLeaves f b.boxes

/-- all (row, datum) pairs of a history: the datum supplied with the `k`-th box of a call made
at `filled_len = f` belongs to row `f + k` (`none` when the call had no external data) -/
def histData : Nat → List Batch → List (Nat × Option Nat)
  | _, [] => []
  | f, b :: bs => ((List.range b.boxes.length).map fun k => (f + k, b.datum k)) ++
      histData (nextFilled f b.boxes.length) bs

theorem nextFilled_ge (f n : Nat) : f + n ≤ nextFilled f n := by
  unfold nextFilled
  split
  · omega
  · split <;> omega

theorem TInv.empty : TInv (Tree.empty : Tree ℝ) none :=
  ⟨rfl, rfl, rfl, rfl, rfl⟩

/-- every history, from any object satisfying the class invariant -/
theorem history_from : ∀ (h : List Batch) (tr : Tree ℝ) (ot : Option (T ℝ)), TInv tr ot →
    (∀ b ∈ h, b.Ok) →
    ∃ tr' ot', runHistory tr h = .ok tr' ∧ TInv tr' ot' ∧
      (oleaves ot').Perm (histLeaves tr.core.filledLen h ++ oleaves ot) ∧
      (∀ r, r < tr.core.filledLen → tr'.ext[r]? = tr.ext[r]?) ∧
      (∀ x ∈ histData tr.core.filledLen h, tr'.ext[x.1]? = some x.2)
  | [], tr, ot, hinv, _ => by
    refine ⟨tr, ot, rfl, hinv, by simp [histLeaves], fun _ _ => rfl, ?_⟩
    intro x hx; simp [histData] at hx
  | b :: bs, tr, ot, hinv, hok => by
    obtain ⟨tr₁, ot₁, hrun₁, hinv₁, hf₁, hleaves₁, hold₁, hnew₁⟩ :=
      insertAabbs_step tr ot b hinv (hok b (by simp))
    obtain ⟨tr', ot', hrun, hinv', hleaves, hold, hnew⟩ :=
      history_from bs tr₁ ot₁ hinv₁ (fun b' hb' => hok b' (by simp [hb']))
    have hge := nextFilled_ge tr.core.filledLen b.boxes.length
    refine ⟨tr', ot', ?_, hinv', ?_, ?_, ?_⟩
    · simp only [runHistory, List.foldlM_cons, bind, Except.bind, hrun₁]
      exact hrun
    · refine hleaves.trans ?_
      simp only [histLeaves, hf₁, List.append_assoc]
      exact List.Perm.append_left _ hleaves₁
    · intro r hr
      rw [hold r (by rw [hf₁]; omega), hold₁ r hr]
    · intro x hx
      simp only [histData, List.mem_append, List.mem_map, List.mem_range] at hx
      rcases hx with ⟨k, hk, rfl⟩ | hx
      · rw [hold _ (by rw [hf₁]; omega)]
        exact hnew₁ k hk
      · exact hnew x (hf₁ ▸ hx)

/-! ### the unrepaired `sort` order -/

theorem insertOrderAsIs_eq (mode : Mode) (boxes : List (Box ℝ)) (f N : Nat) (perm : List Nat)
    (hN : N = f + 2 * boxes.length) (h : mode = .sort → f = 0) :
    insertOrderAsIs mode boxes f (f + boxes.length) N perm
      = insertOrderFixed mode boxes f (f + boxes.length) N perm := by
  cases mode with
  | none => rfl
  | shuffle => rfl
  | sort =>
    have hf := h rfl
    subst hf
    subst hN
    simp only [insertOrderAsIs, insertOrderFixed, pySlice, Nat.zero_add, List.drop_zero]
    have : 2 * boxes.length - boxes.length = boxes.length := by omega
    rw [this, List.take_length]

/-- on an object satisfying the class invariant the *unrepaired* order function computes the
same insert order as the repaired one unless mode `sort` is used on a non-empty tree -/
theorem insertAabbs_asIs_eq (tr : Tree ℝ) (b : Batch)
    (hN : tr.core.nodes.size = tr.core.filledLen)
    (h : b.mode = .sort → tr.core.filledLen = 0 ∨ b.boxes = []) :
    Tree.insertAabbs insertOrderAsIs tr b.boxes b.ext b.mode b.perm
      = Tree.insertAabbs insertOrderFixed tr b.boxes b.ext b.mode b.perm := by
  by_cases hnil : b.boxes = []
  · rw [hnil]; simp [Tree.insertAabbs]
  have h : b.mode = .sort → tr.core.filledLen = 0 := fun hm => (h hm).resolve_right hnil
  have key := insertOrderAsIs_eq b.mode b.boxes tr.core.filledLen
    (tr.core.nodes ++ Array.replicate (2 * (tr.core.filledLen + b.boxes.length - tr.core.nodes.size))
      emptyNode).size b.perm (by simp [hN]) h
  unfold Tree.insertAabbs Tree.insertAabbs.go
  simp only [key]


/-- the history as run by the code *as it is* (order function `insertOrderAsIs`: mode `sort`
argsorts a wrongly sliced batch and forgets the row offset) -/
noncomputable def runHistoryAsIs (tr : Tree ℝ) (h : List Batch) : Except Err (Tree ℝ) :=
  h.foldlM (fun tr b => Tree.insertAabbs insertOrderAsIs tr b.boxes b.ext b.mode b.perm) tr

/-- mode `sort` is only used while the tree is still empty (or with an empty batch) -/
def sortOnlyOnEmpty : Nat → List Batch → Prop
  | _, [] => True
  | f, b :: bs => (b.mode = .sort → f = 0 ∨ b.boxes = []) ∧
      sortOnlyOnEmpty (nextFilled f b.boxes.length) bs

theorem runHistoryAsIs_eq : ∀ (h : List Batch) (tr : Tree ℝ) (ot : Option (T ℝ)), TInv tr ot →
    (∀ b ∈ h, b.Ok) → sortOnlyOnEmpty tr.core.filledLen h → runHistoryAsIs tr h = runHistory tr h
  | [], _, _, _, _, _ => rfl
  | b :: bs, tr, ot, hinv, hok, hs => by
    obtain ⟨tr₁, ot₁, hrun₁, hinv₁, hf₁, _⟩ := insertAabbs_step tr ot b hinv (hok b (by simp))
    have e := insertAabbs_asIs_eq tr b hinv.szN hs.1
    simp only [runHistoryAsIs, runHistory, List.foldlM_cons, bind, Except.bind, e, hrun₁]
    exact runHistoryAsIs_eq bs tr₁ ot₁ hinv₁ (fun b' hb' => hok b' (by simp [hb'])) (hf₁ ▸ hs.2)

end Aabb
end D3
