/-
C09 — original GJK (`gjk_distance_original`): feasibility of the returned points from the
non-negative weights over the cached support points, the "no improvement" exit is optimal
(weak duality), the tetrahedron exit returns a point within half the residual of both shapes.
-/
import D3.Proofs.NesterovProj
import D3.Model.GjkOrig

namespace D3
namespace GjkOrig
open Nesterov

/-! ### convex combinations -/

def wsum : List ℝ → ℝ
  | [] => 0
  | w :: ws => w + wsum ws

theorem smul_def' (s : ℝ) (a : V) : V3.smul s a = s * a := rfl

theorem lincomb_zero_of_wsum_zero : ∀ (w : List ℝ) (ps : List V), (∀ x ∈ w, 0 ≤ x) → wsum w = 0 →
    lincomb w ps = ⟨0, 0, 0⟩
  | [], _, _, _ => by simp [lincomb]
  | _ :: _, [], _, _ => by simp [lincomb]
  | w :: ws, p :: ps, hw, hs => by
    have h0 : 0 ≤ w := hw w (by simp)
    have hws : ∀ x ∈ ws, 0 ≤ x := fun x hx => hw x (by simp [hx])
    have hnn : 0 ≤ wsum ws := by
      clear hs
      induction ws with
      | nil => simp [wsum]
      | cons a t ih =>
        simp only [wsum]
        have := hws a (by simp)
        have := ih (fun x hx => hw x (by simp at hx ⊢; tauto)) (fun x hx => hws x (by simp [hx]))
        linarith
    simp only [wsum] at hs
    have hw0 : w = 0 := by linarith
    have hs0 : wsum ws = 0 := by linarith
    simp only [lincomb, lincomb_zero_of_wsum_zero ws ps hws hs0, hw0]
    apply V3.ext' <;> simp [V3.smul]

/-- a convex combination of points of a convex set lies in the set (scaled form for the induction) -/
theorem lincomb_mem_scaled {K : V → Prop} (hK : ConvexSet K) :
    ∀ (w : List ℝ) (ps : List V), w.length = ps.length → (∀ x ∈ w, 0 ≤ x) → (∀ p ∈ ps, K p) →
      0 < wsum w → K ((1 / wsum w) * lincomb w ps)
  | [], _, _, _, _, h => by simp [wsum] at h
  | _ :: _, [], hl, _, _, _ => by simp at hl
  | w :: ws, p :: ps, hl, hw, hp, hpos => by
    have h0 : 0 ≤ w := hw w (by simp)
    have hws : ∀ x ∈ ws, 0 ≤ x := fun x hx => hw x (by simp [hx])
    have hps : ∀ q ∈ ps, K q := fun q hq => hp q (by simp [hq])
    have hKp : K p := hp p (by simp)
    have hl' : ws.length = ps.length := by simpa using hl
    have hnn : 0 ≤ wsum ws := by
      clear hpos hl hl'
      induction ws with
      | nil => simp [wsum]
      | cons a t ih =>
        simp only [wsum]
        have := hws a (by simp)
        have := ih (fun x hx => hw x (by simp at hx ⊢; tauto)) (fun x hx => hws x (by simp [hx]))
        linarith
    simp only [wsum] at hpos ⊢
    by_cases hz : wsum ws = 0
    · have hl0 := lincomb_zero_of_wsum_zero ws ps hws hz
      have hwp : 0 < w := by linarith
      have : (1 / (w + wsum ws)) * lincomb (w :: ws) (p :: ps) = p := by
        simp only [lincomb, hl0, hz, add_zero]
        apply V3.ext' <;> simp [V3.smul] <;> field_simp
      rw [this]; exact hKp
    · have hpos' : 0 < wsum ws := lt_of_le_of_ne hnn (Ne.symm hz)
      have ih := lincomb_mem_scaled hK ws ps hl' hws hps hpos'
      set q := (1 / wsum ws) * lincomb ws ps with hq
      set S := w + wsum ws with hS
      have ht0 : 0 ≤ wsum ws / S := div_nonneg hnn hpos.le
      have ht1 : wsum ws / S ≤ 1 := by rw [div_le_one hpos]; linarith
      have := hK p q hKp ih (wsum ws / S) ht0 ht1
      have heq : (1 / S) * lincomb (w :: ws) (p :: ps) = p + (wsum ws / S) * (q - p) := by
        simp only [lincomb, hq]
        apply V3.ext' <;> simp [V3.smul] <;> field_simp <;> ring
      rw [heq]; exact this

theorem lincomb_mem {K : V → Prop} (hK : ConvexSet K) (w : List ℝ) (ps : List V)
    (hl : w.length = ps.length) (hw : ∀ x ∈ w, 0 ≤ x) (hp : ∀ p ∈ ps, K p) (hs : wsum w = 1) :
    K (lincomb w ps) := by
  have := lincomb_mem_scaled hK w ps hl hw hp (by rw [hs]; norm_num)
  rw [hs] at this
  have e : (1 / 1 : ℝ) * lincomb w ps = lincomb w ps := by apply V3.ext' <;> simp
  rwa [e] at this

theorem lincomb_sub : ∀ (w : List ℝ) (ps qs : List V), ps.length = qs.length →
    lincomb w ps - lincomb w qs = lincomb w (List.zipWith (· - ·) ps qs)
  | [], _, _, _ => by simp [lincomb]; apply V3.ext' <;> simp
  | _ :: _, [], [], _ => by simp [lincomb]; apply V3.ext' <;> simp
  | _ :: _, [], _ :: _, h => by simp at h
  | _ :: _, _ :: _, [], h => by simp at h
  | w :: ws, p :: ps, q :: qs, h => by
    have h' : ps.length = qs.length := by simpa using h
    have ih := lincomb_sub ws ps qs h'
    simp only [lincomb, List.zipWith_cons_cons, ← ih]
    apply V3.ext' <;> simp [V3.smul] <;> ring

/-! ### feasibility of the returned points -/

/-- invariant tying the simplex to the two vertex caches: every simplex point is the difference of
a cached point of `A` and a cached point of `B` -/
def Consistent (A B : V → Prop) (c1 c2 : Array V) (simplex : List (Entry ℝ)) : Prop :=
  ∀ e ∈ simplex, ∃ p q, getD c1 e.i1 = .ok p ∧ getD c2 e.i2 = .ok q ∧ A p ∧ B q ∧ e.pt = p - q

theorem gather_consistent {A B : V → Prop} {c1 c2 : Array V} :
    ∀ (simplex : List (Entry ℝ)), Consistent A B c1 c2 simplex →
      ∃ ps qs, gather c1 (simplex.map (·.i1)) = .ok ps ∧ gather c2 (simplex.map (·.i2)) = .ok qs ∧
        (∀ p ∈ ps, A p) ∧ (∀ q ∈ qs, B q) ∧ ps.length = simplex.length ∧ qs.length = simplex.length ∧
        List.zipWith (· - ·) ps qs = simplex.map (·.pt)
  | [], _ => ⟨[], [], rfl, rfl, by simp, by simp, rfl, rfl, rfl⟩
  | e :: es, h => by
    obtain ⟨p, q, hp, hq, hA, hB, hpt⟩ := h e (by simp)
    obtain ⟨ps, qs, h1, h2, h3, h4, h5, h6, h7⟩ :=
      gather_consistent es (fun e' he' => h e' (by simp [he']))
    refine ⟨p :: ps, q :: qs, ?_, ?_, ?_, ?_, by simp [h5], by simp [h6], ?_⟩
    · simp [gather, hp, h1, bind, Except.bind]
    · simp [gather, hq, h2, bind, Except.bind]
    · intro x hx; simp at hx; rcases hx with rfl | hx; exact hA; exact h3 x hx
    · intro x hx; simp at hx; rcases hx with rfl | hx; exact hB; exact h4 x hx
    · simp [h7, hpt]

/-- **feasibility** (`gjk_distance_original`): with the returned non-negative weights (sum 1) over
the cached support points, the two points computed by `compute_point` lie in `A` resp. `B`, their
difference is the solution vector `v`, and for a simplex of fewer than 4 points the returned
distance is `|a − b|`; for a 4-point simplex the routine returns the midpoint of `a` and `b`
(distance 0), which is within `|v| / 2` of both shapes. -/
theorem finish_feasible {A B : V → Prop} (hA : ConvexSet A) (hB : ConvexSet B) {c1 c2 : Array V}
    {sol : Sol ℝ} {simplex : List (Entry ℝ)} {it : Nat}
    (hc : Consistent A B c1 c2 simplex)
    (hwl : (sol.w.take simplex.length).length = simplex.length)
    (hw : ∀ x ∈ sol.w.take simplex.length, 0 ≤ x) (hs : wsum (sol.w.take simplex.length) = 1)
    (hdir : sol.dir = lincomb (sol.w.take simplex.length) (simplex.map (·.pt)))
    (hdsq : sol.dsq = V3.normSq sol.dir) :
    ∃ out a b, finish c1 c2 sol simplex it = .ok out ∧ A a ∧ B b ∧ a - b = sol.dir ∧
      (simplex.length ≠ 4 → out.a = a ∧ out.b = b ∧ out.distance = V3.norm (a - b)) ∧
      (simplex.length = 4 → out.distance = 0 ∧ out.a = out.b ∧
        V3.norm (out.a - a) = V3.norm sol.dir / 2 ∧ V3.norm (out.b - b) = V3.norm sol.dir / 2) := by
  obtain ⟨ps, qs, h1, h2, h3, h4, h5, h6, h7⟩ := gather_consistent simplex hc
  set w := sol.w.take simplex.length with hwdef
  have ha : A (lincomb w ps) := lincomb_mem hA w ps (by rw [hwl, h5]) hw h3 hs
  have hb : B (lincomb w qs) := lincomb_mem hB w qs (by rw [hwl, h6]) hw h4 hs
  have hab : lincomb w ps - lincomb w qs = sol.dir := by
    rw [lincomb_sub w ps qs (by rw [h5, h6]), h7, hdir]
  by_cases h4' : simplex.length = 4
  · refine ⟨⟨0, V3.smul 0.5 (lincomb w ps + lincomb w qs), V3.smul 0.5 (lincomb w ps + lincomb w qs),
      simplex, it, 1⟩, _, _, ?_, ha, hb, hab, fun h => absurd h4' h, fun _ => ⟨rfl, rfl, ?_, ?_⟩⟩
    · have hw4 : w = List.take 4 sol.w := by rw [hwdef, h4']
      simp [finish, computePoint, h1, h2, bind, Except.bind, h4', hw4]
    · have : V3.smul 0.5 (lincomb w ps + lincomb w qs) - lincomb w ps = (-(1 / 2 : ℝ)) * sol.dir := by
        rw [← hab]; apply V3.ext' <;> simp [V3.smul] <;> ring
      rw [this, norm_smul', abs_neg, abs_of_nonneg (by norm_num)]; ring
    · have : V3.smul 0.5 (lincomb w ps + lincomb w qs) - lincomb w qs = ((1 / 2 : ℝ)) * sol.dir := by
        rw [← hab]; apply V3.ext' <;> simp [V3.smul] <;> ring
      rw [this, norm_smul', abs_of_nonneg (by norm_num)]; ring
  · have hnn : ¬ sol.dsq < 0 := by rw [hdsq]; exact not_lt.mpr (V3.normSq_nonneg _)
    refine ⟨⟨HasSqrt.sqrt sol.dsq, lincomb w ps, lincomb w qs, simplex, it, 0⟩, _, _, ?_, ha, hb, hab,
      fun _ => ⟨rfl, rfl, ?_⟩, fun h => absurd h h4'⟩
    · simp [finish, computePoint, h1, h2, bind, Except.bind, h4', ← hwdef, hnn]
    · rw [hab, hdsq]; rfl

/-! ### the "no improvement" exit is optimal -/

/-- **exit accuracy of the original GJK (weak duality).** `v` is the current min-norm point,
`w` the new support point of `M = A ⊖ B` along `−v` (`⟨v, w⟩ ≤ ⟨v, y⟩` for all `y ∈ M`), `v'` the
min-norm point of the simplex extended by `w` — at least as good as every point of the segment
`[v, w]`. If the new squared distance is not smaller (`no_improvement`), then no point of `M` is
closer to the origin than `v`: the returned distance is the true distance. -/
theorem no_improvement_optimal {M : V → Prop} {v w v' : V}
    (hw : ∀ y, M y → V3.dot v w ≤ V3.dot v y)
    (hv' : ∀ t : ℝ, 0 ≤ t → t ≤ 1 → V3.normSq v' ≤ V3.normSq (v + t * (w - v)))
    (hno : V3.normSq v ≤ V3.normSq v') :
    ∀ y, M y → V3.norm v ≤ V3.norm y := by
  have hg : V3.normSq v ≤ V3.dot v w := by
    by_contra hcon
    rw [not_le] at hcon
    set g := V3.normSq v - V3.dot v w with hgdef
    have hgpos : 0 < g := by linarith
    set D := V3.normSq (w - v) with hD
    have hD0 : 0 ≤ D := V3.normSq_nonneg _
    have hdot : V3.dot (w - v) (-v) = g := by
      simp only [hgdef, V3.normSq_def, V3.dot_def, V3.sub_x, V3.sub_y, V3.sub_z, V3.neg_x, V3.neg_y,
        V3.neg_z]; ring
    have key : ∀ t : ℝ, 0 ≤ t → t ≤ 1 → V3.normSq v ≤ V3.normSq v - 2 * t * g + t * t * D := by
      intro t h0 h1
      have := hv' t h0 h1
      rw [normSq_lerp, hdot] at this
      linarith
    by_cases hDg : D ≤ g
    · have := key 1 (by norm_num) (le_refl _)
      nlinarith
    · rw [not_le] at hDg
      have hDpos : 0 < D := lt_trans hgpos hDg
      have ht1 : g / D ≤ 1 := by rw [div_le_one hDpos]; exact hDg.le
      have := key (g / D) (div_nonneg hgpos.le hDpos.le) ht1
      have e : V3.normSq v - 2 * (g / D) * g + g / D * (g / D) * D = V3.normSq v - g * g / D := by
        field_simp; ring
      rw [e] at this
      have : 0 < g * g / D := div_pos (mul_pos hgpos hgpos) hDpos
      linarith
  intro y hy
  have h1 : V3.normSq v ≤ V3.dot v y := le_trans hg (hw y hy)
  have h2 := V3.dot_le_norm_mul v y
  have h3 := V3.norm_sq v
  have hn := V3.norm_nonneg v
  by_cases hz : V3.norm v = 0
  · rw [hz]; exact V3.norm_nonneg y
  · have hpos : 0 < V3.norm v := lt_of_le_of_ne hn (Ne.symm hz)
    nlinarith

end GjkOrig
end D3
