/-
C02 — the degenerate CONTACT exit `origin_on_AB_segment` of `_line_segment` (libccd-style GJK, `lineSegment`
branch 0): `|AB × AO|² < EPSILON` and `AB·AO > 0`.

What the test establishes: the foot `x = A + t·AB`, `t = AB·AO / |AB|² > 0`, of the origin on the line `AB` has
`|x|²·|AB|² = |AB × AO|² < EPSILON` (Lagrange identity).  The test does NOT check `t ≤ 1`; that is equivalent to
`A·B ≤ |B|²`, which holds in a GJK run when `|B|² ≥ √EPSILON` (`A` passed `A·(-B) ≥ -√EPSILON`).  Under that
side condition `x` lies on the segment, hence in `A ⊖ B` for convex colliders.
-/
import D3.Proofs.IntersectLibccd

namespace D3
namespace IsectLibccd
open Isect

theorem EPS_pos : (0 : ℝ) < EPS := by
  unfold EPS D3.Gen.utils__EPSILON; norm_num

theorem absS_of_nonneg {x : ℝ} (h : 0 ≤ x) : absS x = x := by
  unfold absS; rw [if_neg (not_lt.mpr h)]

/-- what `_line_segment` has tested when it answers CONTACT (branch 0) -/
theorem lineSegment_br0 {S : Sx ℝ} (h : (lineSegment S).br = 0) :
    (lineSegment S).state = .contact ∧ 0 < V3.dot (S.v0 - S.v1) (-S.v1) ∧
      V3.normSq (V3.cross (S.v0 - S.v1) (-S.v1)) < EPS := by
  unfold lineSegment at h ⊢
  simp only at h ⊢
  split
  · rename_i hc
    refine ⟨rfl, hc.2, ?_⟩
    have := hc.1
    rwa [absS_of_nonneg (show 0 ≤ V3.dot (V3.cross (S.v0 - S.v1) (-S.v1))
      (V3.cross (S.v0 - S.v1) (-S.v1)) from V3.normSq_nonneg _)] at this
  · rename_i hc
    rw [if_neg hc] at h
    split at h <;> simp at h

/-- foot of the origin on the line `AB`: for `AB·AO > 0` and `A·B ≤ |B|²` it is a point of the segment, and
`|x|²·|AB|² = |AB × AO|²` -/
theorem foot_on_segment (A B : V) (hpos : 0 < V3.dot (B - A) (-A)) (hside : V3.dot A B ≤ V3.dot B B) :
    ∃ t : ℝ, 0 < t ∧ t ≤ 1 ∧ 0 < V3.normSq (B - A) ∧
      V3.normSq ((1 - t) * A + t * B) * V3.normSq (B - A) = V3.normSq (V3.cross (B - A) (-A)) := by
  obtain ⟨ax, ay, az⟩ := A
  obtain ⟨bx, by', bz⟩ := B
  simp only [V3.dot_def, V3.normSq_def, V3.sub_x, V3.sub_y, V3.sub_z, V3.neg_x, V3.neg_y, V3.neg_z,
    V3.add_x, V3.add_y, V3.add_z, V3.smul_x, V3.smul_y, V3.smul_z, V3.cross] at hpos hside ⊢
  set D := (bx - ax) * (bx - ax) + (by' - ay) * (by' - ay) + (bz - az) * (bz - az) with hD
  set g := (bx - ax) * -ax + (by' - ay) * -ay + (bz - az) * -az with hg
  have hDpos : 0 < D := by
    by_contra hn
    have h0 : D = 0 := le_antisymm (not_lt.mp hn) (by
      rw [hD]
      nlinarith [mul_self_nonneg (bx - ax), mul_self_nonneg (by' - ay), mul_self_nonneg (bz - az)])
    have hx : bx - ax = 0 := by
      nlinarith [mul_self_nonneg (bx - ax), mul_self_nonneg (by' - ay), mul_self_nonneg (bz - az)]
    have hy : by' - ay = 0 := by
      nlinarith [mul_self_nonneg (bx - ax), mul_self_nonneg (by' - ay), mul_self_nonneg (bz - az)]
    have hz : bz - az = 0 := by
      nlinarith [mul_self_nonneg (bx - ax), mul_self_nonneg (by' - ay), mul_self_nonneg (bz - az)]
    rw [hg, hx, hy, hz] at hpos
    simp at hpos
  have hgD : g ≤ D := by rw [hg, hD]; nlinarith
  refine ⟨g / D, div_pos hpos hDpos, by rw [div_le_one hDpos]; exact hgD, hDpos, ?_⟩
  have ht : g / D * D = g := by field_simp
  rw [hD, hg] at ht ⊢
  linear_combination
    (g / D * D - g) * ht

/-- **`origin_on_AB_segment` ⇒ the origin is (almost) in `A ⊖ B`.**  If `_line_segment` answers CONTACT, the two
simplex points lie in `A ⊖ B` (convex colliders) and `A·B ≤ |B|²`, there are `a ∈ A`, `b ∈ B` with
`|a - b|²·|AB|² < EPSILON`; if the cross product vanishes exactly, a common point. -/
theorem origin_on_segment_near {A B : V → Prop} (hcA : ConvexSet A) (hcB : ConvexSet B) {S : Sx ℝ}
    (h0 : mdiff A B S.v0) (h1 : mdiff A B S.v1) (hbr : (lineSegment S).br = 0)
    (hside : V3.dot S.v1 S.v0 ≤ V3.dot S.v0 S.v0) :
    (lineSegment S).state = .contact ∧
      (∃ a b, A a ∧ B b ∧ V3.normSq (a - b) * V3.normSq (S.v0 - S.v1) < EPS) ∧
      (V3.cross (S.v0 - S.v1) (-S.v1) = ⟨0, 0, 0⟩ → ∃ x, A x ∧ B x) := by
  obtain ⟨hst, hpos, hlt⟩ := lineSegment_br0 hbr
  obtain ⟨t, ht0, ht1, hD, hid⟩ := foot_on_segment S.v1 S.v0 hpos hside
  obtain ⟨a, b, ha, hb, hab⟩ := mdiff_convex hcA hcB S.v1 S.v0 h1 h0 t ht0.le ht1
  refine ⟨hst, ⟨a, b, ha, hb, by rw [← hab, hid]; exact hlt⟩, ?_⟩
  intro hz
  rw [hz] at hid
  have h0' : V3.normSq ((1 - t) * S.v1 + t * S.v0) = 0 := by
    have : V3.normSq (⟨0, 0, 0⟩ : V) = 0 := by simp [V3.normSq_def]
    rw [this] at hid
    rcases mul_eq_zero.mp hid with h | h
    · exact h
    · linarith
  have hx := V3.normSq_eq_zero h0'
  rw [hx] at hab
  exact mdiff_zero_iff.mp ⟨a, b, ha, hb, hab⟩

end IsectLibccd
end D3
