/-
C15 helper lemmas: the rows skipped by `make_halfplanes` because the face is parallel to the
contact plane (`α := ℝ`).

* `faceParallel_row_skipped` : a row whose normal is a multiple of the unit plane normal is skipped
                               by `make_halfplanes` (its 2-D normal is exactly `0 ≤ EPSILON`);
* `faceParallel_const`       : such a row is constant on the contact plane;
* `parallel_core`            : if the four vertices of the tetrahedron lie on both sides of the
                               plane (beyond a tolerance `≥ 0`), that constant is in `(0, 1)`;
* `parallel_row_tet`         : … for every row of a barycentric transform of the tetrahedron;
* `tilt_skipped_row_negative`: a skipped row that is *not* exactly parallel (tilt `1e-16 < EPSILON`, tetrahedron
                               at `x ≈ 1e16`) with value `-1/2` at `plane_point`, although the check accepts.
-/
import D3.Proofs.HydroPolygon

namespace D3
namespace Hydro

/-- the face belonging to row `r` is parallel to the plane with normal `n`: the gradient of the
barycentric coordinate is a multiple of `n` -/
def FaceParallel (r : Row4 ℝ) (n : V) : Prop :=
  ∃ μ : ℝ, r.n.x = μ * n.x ∧ r.n.y = μ * n.y ∧ r.n.z = μ * n.z

/-- a row of a parallel face is skipped by `make_halfplanes` -/
theorem faceParallel_row_skipped {n cx cy : V} {b : Nat} {r : Row4 ℝ} (pp : V)
    (hbas : planeBasisFromNormal n = .ok (b, cx, cy)) (hpar : FaceParallel r n) :
    makeHalfplaneRow pp cx cy r = none := by
  obtain ⟨μ, hx, hy, hz⟩ := hpar
  obtain ⟨ox, oy⟩ := planeBasis_orth hbas
  have e1 : V3.dot r.n cx = 0 := by
    simp only [V3.dot_def] at ox ⊢
    rw [hx, hy, hz]
    linear_combination μ * ox
  have e2 : V3.dot r.n cy = 0 := by
    simp only [V3.dot_def] at oy ⊢
    rw [hx, hy, hz]
    linear_combination μ * oy
  unfold makeHalfplaneRow
  simp only [sqrt_real, normal2d, e1, e2, mul_zero, add_zero, Real.sqrt_zero]
  rw [if_neg (not_lt.mpr eps_pos.le)]

/-- a row of a parallel face has the same value at every point of the plane `⟨n, x⟩ = d` -/
theorem faceParallel_const {n : V} {r : Row4 ℝ} {μ : ℝ}
    (hx : r.n.x = μ * n.x) (hy : r.n.y = μ * n.y) (hz : r.n.z = μ * n.z) (d : ℝ) (x : V) :
    rowVal r x = μ * (V3.dot x n - d) + (μ * d + r.c) := by
  simp only [rowVal, V3.dot_def]
  rw [hx, hy, hz]
  ring

/-- signed distances `s_k` (the opposite vertex) and `s_a, s_b, s_c` (the face) with
`μ·s + K = δ`; vertices strictly on both sides beyond `tol ≥ 0` force `0 < K < 1` -/
theorem parallel_core {μ K tol sk sa sb sc : ℝ} (htol : 0 ≤ tol)
    (hk : μ * sk + K = 1) (ha : μ * sa + K = 0) (hb : μ * sb + K = 0) (hc : μ * sc + K = 0)
    (hneg : sk < -tol ∨ sa < -tol ∨ sb < -tol ∨ sc < -tol)
    (hpos : tol < sk ∨ tol < sa ∨ tol < sb ∨ tol < sc) : 0 < K ∧ K < 1 := by
  have hμ : μ ≠ 0 := by
    intro h0
    rw [h0] at hk ha
    linarith
  have hab : sa = sb := mul_left_cancel₀ hμ (by linarith)
  have hac : sa = sc := mul_left_cancel₀ hμ (by linarith)
  subst hab
  subst hac
  have hneg' : sk < -tol ∨ sa < -tol := by tauto
  have hpos' : tol < sk ∨ tol < sa := by tauto
  have h1 : μ * (sk - sa) = 1 := by linarith
  rcases hneg' with hn | hn <;> rcases hpos' with hp | hp
  · linarith
  · have hμneg : μ < 0 := by
      by_contra hcon
      have : 0 ≤ μ := not_lt.mp hcon
      nlinarith
    have hsa : 0 < sa := by linarith
    have hsk : sk < 0 := by linarith
    have p1 : 0 < (-μ) * sa := mul_pos (by linarith) hsa
    have p2 : 0 < (-μ) * (-sk) := mul_pos (by linarith) (by linarith)
    constructor <;> nlinarith
  · have hμpos : 0 < μ := by
      by_contra hcon
      have : μ ≤ 0 := not_lt.mp hcon
      nlinarith
    have hsa : sa < 0 := by linarith
    have hsk : 0 < sk := by linarith
    have p1 : 0 < μ * (-sa) := mul_pos hμpos (by linarith)
    have p2 : 0 < μ * sk := mul_pos hμpos hsk
    constructor <;> nlinarith
  · linarith

/-- one tetrahedron: if its vertices lie strictly on both sides of the plane `⟨n, x⟩ = d` (beyond
`tol ≥ 0`, the two conditions of `check_tetrahedra_intersect_contact_plane` for this tetrahedron)
and the face of row `r` is parallel to the plane, the barycentric coordinate of that row is
strictly between 0 and 1 at every point of the plane -/
theorem parallel_row_tet {X : X4 ℝ} {t : Tet ℝ} (hX : IsBaryTransform X t) {n : V} {d tol : ℝ}
    (htol : 0 ≤ tol) (hmin : (planeDistances t n d).min < -tol)
    (hmax : tol < (planeDistances t n d).max) {r : Row4 ℝ} (hr : r ∈ X.rows)
    (hpar : FaceParallel r n) {P : V} (hP : V3.dot n P = d) :
    0 < rowVal r P ∧ rowVal r P < 1 := by
  obtain ⟨μ, hx, hy, hz⟩ := hpar
  obtain ⟨h00, h01, h02, h03, h10, h11, h12, h13, h20, h21, h22, h23, h30, h31, h32, h33⟩ := hX
  have hval : rowVal r P = μ * d + r.c := by
    rw [faceParallel_const hx hy hz d P, V3.dot_comm, hP]; ring
  rw [hval]
  simp only [Q4.min, Q4.max, planeDistances, min_lt_iff, lt_max_iff] at hmin hmax
  simp only [X4.rows, List.mem_cons, List.not_mem_nil, or_false] at hr
  have c := faceParallel_const hx hy hz d
  rcases hr with rfl | rfl | rfl | rfl
  · exact parallel_core htol ((c t.v0).symm.trans h00) ((c t.v1).symm.trans h01)
      ((c t.v2).symm.trans h02) ((c t.v3).symm.trans h03) (by tauto) (by tauto)
  · exact parallel_core htol ((c t.v1).symm.trans h11) ((c t.v0).symm.trans h10)
      ((c t.v2).symm.trans h12) ((c t.v3).symm.trans h13) (by tauto) (by tauto)
  · exact parallel_core htol ((c t.v2).symm.trans h22) ((c t.v0).symm.trans h20)
      ((c t.v1).symm.trans h21) ((c t.v3).symm.trans h23) (by tauto) (by tauto)
  · exact parallel_core htol ((c t.v3).symm.trans h33) ((c t.v0).symm.trans h30)
      ((c t.v1).symm.trans h31) ((c t.v2).symm.trans h32) (by tauto) (by tauto)

/-- both tetrahedra: `check_tetrahedra_intersect_contact_plane` accepts and the face of one of
the eight rows is parallel to the contact plane -/
theorem parallel_row_check {X1 X2 : X4 ℝ} {t1 t2 : Tet ℝ} (hX1 : IsBaryTransform X1 t1)
    (hX2 : IsBaryTransform X2 t2) {n : V} {d tol : ℝ} (htol : 0 ≤ tol)
    (hchk : checkTetrahedraIntersectContactPlane t1 t2 n d tol = true) {r : Row4 ℝ}
    (hr : r ∈ X1.rows ++ X2.rows) (hpar : FaceParallel r n) {P : V} (hP : V3.dot n P = d) :
    0 < rowVal r P ∧ rowVal r P < 1 := by
  unfold checkTetrahedraIntersectContactPlane at hchk
  simp only [Bool.and_eq_true, decide_eq_true_eq] at hchk
  obtain ⟨⟨⟨a1, a2⟩, b1⟩, b2⟩ := hchk
  rcases List.mem_append.mp hr with hr | hr
  · exact parallel_row_tet hX1 htol a1 a2 hr hpar hP
  · exact parallel_row_tet hX2 htol b1 b2 hr hpar hP

/-- `plane_basis_from_normal((0,0,1))` -/
theorem planeBasis_z : planeBasisFromNormal (⟨0, 0, 1⟩ : V) = .ok (0, ⟨-1, 0, 0⟩, ⟨0, -1, 0⟩) := by
  unfold planeBasisFromNormal
  simp only [sqrt_real]
  have h1 : Real.sqrt ((0 : ℝ) * 0 + 1 * 1) = 1 := by norm_num
  rw [h1]
  have hz : isZero (1 : ℝ) = false := by simp [isZero]
  simp [absS, hz]

/-! ### a skipped row that is not exactly parallel -/

/-- a tetrahedron far from the origin (`x ≈ 10¹⁶`) whose face 0 is tilted by `10⁻¹⁶ < EPSILON`
against the plane `z = 0` … -/
def tiltT : Tet ℝ :=
  ⟨⟨1e16, 0, 0.5⟩, ⟨1e16, 0, -0.5⟩, ⟨1e16, 1, -0.5⟩, ⟨1e16 + 1, 0, -0.5 - 1e-16⟩⟩
/-- … and its exact barycentric transform -/
def tiltX : X4 ℝ :=
  ⟨⟨⟨1e-16, 0, 1⟩, -0.5⟩, ⟨⟨-(1 + 1e-16), -1, -1⟩, 1e16 + 1.5⟩, ⟨⟨0, 1, 0⟩, 0⟩, ⟨⟨1, 0, 0⟩, -1e16⟩⟩

theorem tiltX_contract : IsBaryTransform tiltX tiltT := by
  constructor <;> norm_num [rowVal, V3.dot_def, tiltX, tiltT]

/-- the tetrahedron has vertices on both sides of the plane `z = 0` beyond the tolerance, row 0 is
skipped by `make_halfplanes` (2-D normal of norm `10⁻¹⁶ ≤ EPSILON`, not exactly parallel), and its
value at `plane_point = (0,0,0)` is `-1/2`: the value at `plane_point` of a skipped row is not
positive in general -/
theorem tilt_skipped_row_negative :
    (planeDistances tiltT ⟨0, 0, 1⟩ 0).min < -(1e-6 : ℝ) ∧
    (1e-6 : ℝ) < (planeDistances tiltT ⟨0, 0, 1⟩ 0).max ∧
    makeHalfplaneRow (planePointOf ⟨0, 0, 1⟩ 0) ⟨-1, 0, 0⟩ ⟨0, -1, 0⟩ tiltX.r0 = none ∧
    ¬ FaceParallel tiltX.r0 ⟨0, 0, 1⟩ ∧
    rowVal tiltX.r0 (planePointOf ⟨0, 0, 1⟩ 0) = -0.5 := by
  refine ⟨?_, ?_, ?_, ?_, ?_⟩
  · simp only [Q4.min, planeDistances, min_lt_iff, V3.dot_def, tiltT]
    norm_num
  · simp only [Q4.max, planeDistances, lt_max_iff, V3.dot_def, tiltT]
    norm_num
  · cases hh : makeHalfplaneRow (planePointOf ⟨0, 0, 1⟩ 0) ⟨-1, 0, 0⟩ ⟨0, -1, 0⟩ tiltX.r0 with
    | none => rfl
    | some hp =>
      exfalso
      have h1 := (makeHalfplaneRow_some hh).1
      have hx : (normal2d tiltX.r0 ⟨-1, 0, 0⟩ ⟨0, -1, 0⟩).x = -1e-16 := by
        norm_num [normal2d, V3.dot_def, tiltX]
      have hy : (normal2d tiltX.r0 ⟨-1, 0, 0⟩ ⟨0, -1, 0⟩).y = 0 := by
        norm_num [normal2d, V3.dot_def, tiltX]
      rw [hx, hy, show (-1e-16 : ℝ) * -1e-16 + 0 * 0 = 1e-16 * 1e-16 by ring,
        Real.sqrt_mul_self (by norm_num)] at h1
      norm_num [eps, D3.Gen.utils__EPSILON] at h1
  · rintro ⟨μ, hx, _, _⟩
    simp only [tiltX, mul_zero] at hx
    norm_num at hx
  · norm_num [rowVal, V3.dot_def, tiltX, planePointOf]

end Hydro
end D3
