/-
C15 helper lemmas, part 3: `compute_contact_polygon`, `intersect_tetrahedron_pair`,
`compute_contact_force` unfolded into their stages (`α := ℝ`, any `atan2`).
-/
import D3.Proofs.HydroPlane

namespace D3
namespace Hydro

/-- what one 3-D vertex of the contact polygon is: the lift of a 2-D point returned by
`intersect_halfplanes` on the half-planes made from the eight rows -/
structure VertexOrigin (X1 X2 : X4 ℝ) (n : V) (d : ℝ) (P : V) : Prop where
  ex : ∃ (b0 : Nat) (cx cy : V) (v2 : List (V2 ℝ)) (q : V2 ℝ),
    planeBasisFromNormal n = .ok (b0, cx, cy) ∧
    intersectHalfplanes (makeHalfplanes (X1.rows ++ X2.rows) (planePointOf n d) cx cy) = .ok v2 ∧
    q ∈ v2 ∧ P = lift (planePointOf n d) cx cy q

/-- what `VertexOrigin` implies for the eight rows and for the plane equation -/
theorem vertexOrigin_spec {X1 X2 : X4 ℝ} {n : V} {d : ℝ} {P : V} (hn : V3.dot n n = 1)
    (hP : VertexOrigin X1 X2 n d P) :
    V3.dot n P = d ∧
    ∃ (cx cy : V) (q : V2 ℝ), P = lift (planePointOf n d) cx cy q ∧
      ∀ r ∈ X1.rows ++ X2.rows,
        ((makeHalfplaneRow (planePointOf n d) cx cy r).isSome → -(eps : ℝ) ≤ rowVal r P) ∧
        (makeHalfplaneRow (planePointOf n d) cx cy r = none →
          |rowVal r P - rowVal r (planePointOf n d)| ≤ (eps : ℝ) * (|q.x| + |q.y|)) := by
  obtain ⟨b0, cx, cy, v2, q, hbas, hv2, hq, rfl⟩ := hP.ex
  obtain ⟨hx, hy⟩ := planeBasis_orth hbas
  refine ⟨lift_on_plane d hn hx hy q, cx, cy, q, rfl, ?_⟩
  intro r hr
  constructor
  · intro hs
    obtain ⟨h, hh⟩ := Option.isSome_iff_exists.mp hs
    have hmem : h ∈ makeHalfplanes (X1.rows ++ X2.rows) (planePointOf n d) cx cy := by
      unfold makeHalfplanes
      exact List.mem_filterMap.mpr ⟨r, hr, hh⟩
    obtain ⟨k, hk⟩ := List.getElem?_of_mem hmem
    obtain ⟨hfrom, _⟩ := intersectHalfplanes_spec _ _ hv2
    obtain ⟨i, j, hi, hj, _, hgi, hgj, h2, hvalid⟩ := hfrom q hq
    obtain ⟨_, hsi, hsj⟩ := intersectTwo_some h2
    have hside : -(eps : ℝ) ≤ hpSide h q := by
      by_cases hki : k = i
      · subst hki
        rw [hgi] at hk; cases hk
        rw [hsi]; linarith [eps_pos]
      · by_cases hkj : k = j
        · subst hkj
          rw [hgj] at hk; cases hk
          rw [hsj]; linarith [eps_pos]
        · exact (validPoint_iff _ i j q).mp hvalid k h hk hki hkj
    rw [(makeHalfplaneRow_some hh).2.2 q, halfplane_trace] at hside
    exact hside
  · intro hnone
    exact skipped_row_coordinate hnone q

variable [HasAtan2 ℝ]

/-- stages of `compute_contact_polygon` -/
theorem computeContactPolygon_stages {X1 X2 : X4 ℝ} {n : V} {d : ℝ} {b : Nat} {poly : List V}
    (h : computeContactPolygon X1 X2 n d = .ok (b, poly)) :
    (b = 0 → 3 ≤ poly.length) ∧ (b ≠ 0 → poly = []) ∧ ∀ P ∈ poly, VertexOrigin X1 X2 n d P := by
  unfold computeContactPolygon at h
  obtain ⟨bas, hbas, h⟩ := except_bind_ok h
  obtain ⟨b0, cx, cy⟩ := bas
  simp only at h
  obtain ⟨v2, hv2, h⟩ := except_bind_ok h
  split at h
  · simp only [Except.ok.injEq, Prod.mk.injEq] at h
    obtain ⟨rfl, rfl⟩ := h
    exact ⟨(by intro h; omega), fun _ => rfl, (by intro P hP; cases hP)⟩
  · split at h
    · simp only [Except.ok.injEq, Prod.mk.injEq] at h
      obtain ⟨rfl, rfl⟩ := h
      exact ⟨(by intro h; omega), fun _ => rfl, (by intro P hP; cases hP)⟩
    · rename_i hlen
      simp only [Except.ok.injEq, Prod.mk.injEq] at h
      obtain ⟨rfl, rfl⟩ := h
      refine ⟨fun _ => ?_, fun hb => absurd rfl hb, ?_⟩
      · simp only [projectPolygonTo3d, List.length_map]
        omega
      · intro P hP
        simp only [projectPolygonTo3d, List.mem_map] at hP
        obtain ⟨q, hq, rfl⟩ := hP
        have hq1 : q ∈ orderPoints v2 := (filterUnique_sublist _).subset hq
        have hq2 : q ∈ v2 := (orderPoints_perm v2).subset hq1
        exact ⟨⟨b0, cx, cy, v2, q, hbas, hv2, hq2, rfl⟩⟩

/-- stages of `intersect_tetrahedron_pair` on its regular exit (branch 0) -/
theorem pair_branch0 {t1 t2 : Tet ℝ} {e1 e2 : Q4 ℝ} {X1 X2 : X4 ℝ} {E1 E2 : ℝ} {r : PairResult ℝ}
    (h : intersectTetrahedronPair t1 e1 X1 t2 e2 X2 E1 E2 = .ok r) (hb : r.branch = 0) :
    r.intersecting = true ∧ V3.dot r.plane.n r.plane.n = 1 ∧
    checkTetrahedraIntersectContactPlane t1 t2 r.plane.n r.plane.c 1e-6 = true ∧
    ∃ poly, r.polygon = some poly ∧ 3 ≤ poly.length ∧
      ∀ P ∈ poly, VertexOrigin X1 X2 r.plane.n r.plane.c P := by
  unfold intersectTetrahedronPair at h
  rcases hcp : contactPlane X1 X2 e1 e2 E1 E2 with ⟨hnf, same, bc⟩
  rw [hcp] at h
  simp only at h
  cases same with
  | true =>
    simp only [if_true] at h
    obtain ⟨x, _, h⟩ := except_bind_ok h
    obtain ⟨_, pl, poly⟩ := x
    simp only [Except.ok.injEq] at h
    subst h
    simp at hb
  | false =>
    simp only [Bool.false_eq_true, if_false] at h
    split at h
    · simp only [Except.ok.injEq] at h
      subst h
      simp at hb
    · rename_i hchk
      obtain ⟨x, hx, h⟩ := except_bind_ok h
      obtain ⟨bp, poly⟩ := x
      simp only at h
      split at h
      · simp only [Except.ok.injEq] at h
        subst h
        simp at hb
      · rename_i hlen
        simp only [Except.ok.injEq] at h
        subst h
        obtain ⟨_, _, hall⟩ := computeContactPolygon_stages hx
        refine ⟨rfl, contactPlane_unit hcp, ?_, poly, rfl, by omega, hall⟩
        simpa using hchk

/-- a pair that is reported as intersecting went through the "same" exit or the regular exit -/
theorem pair_intersecting_branch {t1 t2 : Tet ℝ} {e1 e2 : Q4 ℝ} {X1 X2 : X4 ℝ} {E1 E2 : ℝ}
    {r : PairResult ℝ} (h : intersectTetrahedronPair t1 e1 X1 t2 e2 X2 E1 E2 = .ok r)
    (hi : r.intersecting = true) : r.branch = 0 ∨ r.branch = 1 := by
  unfold intersectTetrahedronPair at h
  rcases hcp : contactPlane X1 X2 e1 e2 E1 E2 with ⟨hnf, same, bc⟩
  rw [hcp] at h
  simp only at h
  cases same with
  | true =>
    simp only [if_true] at h
    obtain ⟨x, _, h⟩ := except_bind_ok h
    obtain ⟨_, pl, poly⟩ := x
    simp only [Except.ok.injEq] at h
    subst h
    exact Or.inr rfl
  | false =>
    simp only [Bool.false_eq_true, if_false] at h
    split at h
    · simp only [Except.ok.injEq] at h
      subst h
      simp at hi
    · obtain ⟨x, hx, h⟩ := except_bind_ok h
      obtain ⟨bp, poly⟩ := x
      simp only at h
      split at h
      · simp only [Except.ok.injEq] at h
        subst h
        simp at hi
      · simp only [Except.ok.injEq] at h
        subst h
        exact Or.inl rfl

omit [HasAtan2 ℝ] in
/-- stages of `compute_contact_force` -/
theorem computeContactForce_spec {solve : V → Q4 ℝ} {e : Q4 ℝ} {plane : Row4 ℝ} {poly : List V}
    {E : ℝ} {r : ForceResult ℝ} (h : computeContactForce solve e plane poly E = .ok r) :
    r.force = V3.smul r.totalForce plane.n ∧ 0 ≤ r.area ∧
    (SolveNonneg solve poly → e.Nonneg → 0 ≤ E → 0 ≤ r.totalForce) := by
  unfold computeContactForce at h
  simp only at h
  obtain ⟨acc, hacc, h⟩ := except_bind_ok h
  have key : r.force = V3.smul r.totalForce plane.n ∧ r.area = acc.a ∧ r.totalForce = acc.f := by
    split at h
    · simp only [pure, Except.pure, bind, Except.bind, Except.ok.injEq] at h
      subst h; exact ⟨rfl, rfl, rfl⟩
    · split at h
      · simp only [pure, Except.pure, bind, Except.bind, Except.ok.injEq] at h
        subst h; exact ⟨rfl, rfl, rfl⟩
      · simp [throw, throwThe, MonadExceptOf.throw, bind, Except.bind] at h
  obtain ⟨k1, k2, k3⟩ := key
  obtain ⟨ha, hf⟩ := forceFold_inv solve (e.scale E) poly _ _ _ hacc (le_refl _)
  rw [k2, k3]
  refine ⟨by rw [k1, k3], ha, ?_⟩
  intro hs he hE
  apply hf hs ?_ (le_refl _)
  obtain ⟨e0, e1, e2, e3⟩ := he
  exact ⟨mul_nonneg e0 hE, mul_nonneg e1 hE, mul_nonneg e2 hE, mul_nonneg e3 hE⟩

end Hydro
end D3
