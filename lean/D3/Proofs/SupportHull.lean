/-
C03 — vertex hulls: first argmax is a support point of the convex hull; the Box collider
(hull of the eight posed corners) against the solid box; mean of the vertices; Margin.
-/
import D3.Proofs.SupportClosed

namespace D3
namespace Support

/-! ### hull: linear functionals are maximised at vertices -/

theorem dot_segment (d a b : V) (t : ℝ) :
    V3.dot d ((1 - t) * a + t * b) = (1 - t) * V3.dot d a + t * V3.dot d b := by
  simp only [V3.dot_def, V3.add_x, V3.add_y, V3.add_z, V3.smul_x, V3.smul_y, V3.smul_z]; ring

theorem hull_le {vs : List V} {d : V} {M : ℝ} (h : ∀ v ∈ vs, V3.dot d v ≤ M) :
    ∀ x, hullSet vs x → V3.dot d x ≤ M := by
  intro x hx
  induction hx with
  | vertex hv => exact h _ hv
  | segment _ _ t0 t1 iha ihb =>
    rw [dot_segment]
    nlinarith [mul_le_mul_of_nonneg_left iha (sub_nonneg.2 t1), mul_le_mul_of_nonneg_left ihb t0]

/-- the hull is convex and is contained in every convex set that contains the vertices -/
theorem hull_convex (vs : List V) : ConvexSet (hullSet vs) :=
  fun _ _ ha hb _ t0 t1 => hullSet.segment ha hb t0 t1

theorem hull_minimal {vs : List V} {K : V → Prop} (hK : ConvexSet K) (h : ∀ v ∈ vs, K v) :
    ∀ x, hullSet vs x → K x := by
  intro x hx
  induction hx with
  | vertex hv => exact h _ hv
  | segment _ _ t0 t1 iha ihb => exact hK _ _ iha ihb _ t0 t1

/-! ### first argmax -/

/-- invariant of the running argmax: the best-so-far is a vertex of the whole list at its index,
its stored value is its projection, and it dominates everything already seen -/
theorem argmaxFrom_spec (d : V) (all : List V) :
    ∀ (vs pre : List V) (best : Nat × V × ℝ), all = pre ++ vs →
      all[best.1]? = some best.2.1 → best.2.2 = V3.dot best.2.1 d →
      (∀ v ∈ pre, V3.dot v d ≤ best.2.2) →
      let r := argmaxFrom d vs pre.length best
      all[r.1]? = some r.2.1 ∧ (∀ v ∈ all, V3.dot v d ≤ V3.dot r.2.1 d) := by
  intro vs
  induction vs with
  | nil =>
    intro pre best hall hidx hval hpre
    simp only [argmaxFrom]
    refine ⟨hidx, ?_⟩
    intro v hv
    rw [hall, List.append_nil] at hv
    rw [← hval]; exact hpre v hv
  | cons v vs ih =>
    intro pre best hall hidx hval hpre
    simp only [argmaxFrom]
    have hall' : all = (pre ++ [v]) ++ vs := by rw [hall]; simp
    have hlen : (pre ++ [v]).length = pre.length + 1 := by simp
    split_ifs with hlt
    · have := ih (pre ++ [v]) (pre.length, v, V3.dot v d) hall'
        (by rw [hall]; simp) rfl
        (by
          intro w hw
          rcases List.mem_append.mp hw with hw | hw
          · exact le_trans (hpre w hw) hlt.le
          · simp at hw; rw [hw])
      rw [hlen] at this
      exact this
    · have := ih (pre ++ [v]) best hall' hidx hval
        (by
          intro w hw
          rcases List.mem_append.mp hw with hw | hw
          · exact hpre w hw
          · simp at hw; rw [hw]; exact not_lt.mp hlt)
      rw [hlen] at this
      exact this

theorem mem_of_getElem? {l : List V} {i : Nat} {v : V} (h : l[i]? = some v) : v ∈ l :=
  List.mem_of_getElem? h

/-- `ConvexHullVertices.support_function` : for a non-empty vertex list the result is a vertex of
the list (at the returned index) and a support point of the convex hull -/
theorem supportHull_isSupport (d : V) (vs : List V) (hne : vs ≠ []) :
    ∃ i p, supportHull d vs = .ok (i, p) ∧ vs[i]? = some p ∧ IsSupport (hullSet vs) d p := by
  cases vs with
  | nil => exact absurd rfl hne
  | cons v rest =>
    have h := argmaxFrom_spec d (v :: rest) rest [v] (0, v, V3.dot v d) rfl rfl rfl
      (by intro w hw; simp at hw; rw [hw])
    simp only [List.length_singleton] at h
    obtain ⟨h1, h2⟩ := h
    refine ⟨_, _, rfl, h1, hullSet.vertex (mem_of_getElem? h1), ?_⟩
    apply hull_le
    intro w hw
    rw [V3.dot_comm d w, V3.dot_comm d]
    exact h2 w hw


/-- `np.argmax` returns the FIRST maximal index: every earlier vertex is strictly worse -/
theorem argmaxFrom_first (d : V) (all : List V) :
    ∀ (vs pre : List V) (best : Nat × V × ℝ), all = pre ++ vs →
      (∀ v ∈ pre, V3.dot v d ≤ best.2.2) →
      (∀ j, j < best.1 → ∀ w, all[j]? = some w → V3.dot w d < best.2.2) →
      best.2.2 = V3.dot best.2.1 d →
      let r := argmaxFrom d vs pre.length best
      (∀ j, j < r.1 → ∀ w, all[j]? = some w → V3.dot w d < V3.dot r.2.1 d) := by
  intro vs
  induction vs with
  | nil =>
    intro pre best _ _ hfirst hval
    simp only [argmaxFrom]
    rw [← hval]; exact hfirst
  | cons v vs ih =>
    intro pre best hall hpre hfirst hval
    simp only [argmaxFrom]
    have hall' : all = (pre ++ [v]) ++ vs := by rw [hall]; simp
    have hlen : (pre ++ [v]).length = pre.length + 1 := by simp
    split_ifs with hlt
    · have := ih (pre ++ [v]) (pre.length, v, V3.dot v d) hall'
        (by
          intro w hw
          rcases List.mem_append.mp hw with hw | hw
          · exact le_trans (hpre w hw) hlt.le
          · simp at hw; rw [hw])
        (by
          intro j hj w hw
          rw [hall, List.getElem?_append_left hj] at hw
          exact lt_of_le_of_lt (hpre w (List.mem_of_getElem? hw)) hlt)
        rfl
      rw [hlen] at this
      exact this
    · have := ih (pre ++ [v]) best hall'
        (by
          intro w hw
          rcases List.mem_append.mp hw with hw | hw
          · exact hpre w hw
          · simp at hw; rw [hw]; exact not_lt.mp hlt)
        hfirst hval
      rw [hlen] at this
      exact this

theorem supportHull_first (d : V) (vs : List V) (i : Nat) (p : V)
    (h : supportHull d vs = .ok (i, p)) :
    ∀ j, j < i → ∀ w, vs[j]? = some w → V3.dot w d < V3.dot p d := by
  cases vs with
  | nil => simp [supportHull] at h
  | cons v rest =>
    simp only [supportHull, Except.ok.injEq, Prod.mk.injEq] at h
    obtain ⟨h1, h2⟩ := h
    have := argmaxFrom_first d (v :: rest) rest [v] (0, v, V3.dot v d) rfl
      (by intro w hw; simp at hw; rw [hw]) (by intro j hj; exact absurd hj (Nat.not_lt_zero _)) rfl
    simp only [List.length_singleton] at this
    rw [h1, h2] at this
    exact this

/-! ### Box collider = hull of `convert_box_to_vertices` -/

/-- the corner coordinate that maximises `l * c` over `c ∈ {-0.5, 0.5}` -/
noncomputable def cornerCoord (l : ℝ) : ℝ := if l < 0 then -0.5 else 0.5

theorem corner_mem (a b c : ℝ) :
    (⟨cornerCoord a, cornerCoord b, cornerCoord c⟩ : V) ∈ (boxCoords : List V) := by
  unfold cornerCoord boxCoords
  split_ifs <;> simp

theorem boxCoords_half : ∀ c ∈ (boxCoords : List V),
    (c.x = -0.5 ∨ c.x = 0.5) ∧ (c.y = -0.5 ∨ c.y = 0.5) ∧ (c.z = -0.5 ∨ c.z = 0.5) := by
  intro c hc
  simp only [boxCoords, List.mem_cons, List.not_mem_nil, or_false] at hc
  rcases hc with h | h | h | h | h | h | h | h <;> subst h <;> simp

theorem half_mem {c s : ℝ} (hs : 0 ≤ s) (hc : c = -0.5 ∨ c = 0.5) : -(s / 2) ≤ c * s ∧ c * s ≤ s / 2 := by
  rcases hc with h | h <;> subst h <;> constructor <;> norm_num <;> linarith

theorem corner_max {l q s : ℝ} (h1 : -(s / 2) ≤ q) (h2 : q ≤ s / 2) : l * q ≤ l * (cornerCoord l * s) := by
  unfold cornerCoord
  split_ifs with h
  · norm_num; nlinarith
  · norm_num; nlinarith [not_lt.mp h]

/-- local box of a `Box(size)` collider -/
def boxSizeSet (size : V) : V → Prop := boxLocalSet ⟨size.x / 2, size.y / 2, size.z / 2⟩

theorem boxVertices_mem (A : Pose ℝ) (size : V) (hx : 0 ≤ size.x) (hy : 0 ≤ size.y) (hz : 0 ≤ size.z) :
    ∀ p ∈ boxVertices A size, poseImage A (boxSizeSet size) p := by
  intro p hp
  simp only [boxVertices, List.mem_map] at hp
  obtain ⟨c, hc, rfl⟩ := hp
  obtain ⟨c1, c2, c3⟩ := boxCoords_half c hc
  exact ⟨_, ⟨half_mem hx c1, half_mem hy c2, half_mem hz c3⟩, transformPoint_eq A _⟩

/-- `Box.support_function` (first argmax over the eight posed corners) is a support point of the
posed solid box -/
theorem supportBox_isSupport (d : V) (A : Pose ℝ) (size : V) (hx : 0 ≤ size.x) (hy : 0 ≤ size.y)
    (hz : 0 ≤ size.z) :
    ∃ i p, supportHull d (boxVertices A size) = .ok (i, p) ∧ (boxVertices A size)[i]? = some p ∧
      IsSupport (poseImage A (boxSizeSet size)) d p := by
  have hne : boxVertices A size ≠ [] := by simp [boxVertices, boxCoords]
  obtain ⟨i, p, h1, h2, h3⟩ := supportHull_isSupport d _ hne
  refine ⟨i, p, h1, h2, boxVertices_mem A size hx hy hz p (List.mem_of_getElem? h2), ?_⟩
  -- the corner chosen by the signs of the local direction is one of the eight vertices …
  set ld := A.R.tmulVec d with hld
  set cl : V := ⟨cornerCoord ld.x * size.x, cornerCoord ld.y * size.y, cornerCoord ld.z * size.z⟩
  have hcl : transformPoint A cl ∈ boxVertices A size := by
    simp only [boxVertices, List.mem_map]
    exact ⟨_, corner_mem ld.x ld.y ld.z, rfl⟩
  -- … it maximises over the local box …
  have hsup : IsSupport (boxSizeSet size) ld cl := by
    refine ⟨⟨?_, ?_, ?_⟩, ?_⟩
    · exact half_mem hx (by unfold cornerCoord; split_ifs <;> simp)
    · exact half_mem hy (by unfold cornerCoord; split_ifs <;> simp)
    · exact half_mem hz (by unfold cornerCoord; split_ifs <;> simp)
    · rintro q ⟨⟨a1, a2⟩, ⟨b1, b2⟩, ⟨c1, c2⟩⟩
      simp only [V3.dot_def]
      have := corner_max (l := ld.x) a1 a2
      have := corner_max (l := ld.y) b1 b2
      have := corner_max (l := ld.z) c1 c2
      linarith
  have hsup' := isSupport_transformPoint (A := A) (d := d) hsup
  -- … and the argmax vertex is at least as good
  intro x hx'
  exact le_trans (hsup'.2 x hx') (h3.2 _ (hullSet.vertex hcl))

/-! ### centre of a vertex hull -/

theorem mean_step (a v : V) (k : ℝ) (hk : 0 < k) :
    V3.sdiv (a + v) (k + 1) = (1 - 1 / (k + 1)) * V3.sdiv a k + (1 / (k + 1)) * v := by
  have : k + 1 ≠ 0 := by linarith
  have : k ≠ 0 := ne_of_gt hk
  apply V3.ext' <;> simp only [V3.sdiv, V3.add_x, V3.add_y, V3.add_z, V3.smul_x, V3.smul_y, V3.smul_z] <;>
    field_simp <;> ring

theorem mean_fold (vs : List V) : ∀ (l : List V) (a : V) (k : ℝ), (∀ v ∈ l, v ∈ vs) → 0 < k →
    hullSet vs (V3.sdiv a k) →
    0 < l.foldl (fun c _ => c + 1) k ∧
    hullSet vs (V3.sdiv (l.foldl (fun a v => a + v) a) (l.foldl (fun c _ => c + 1) k)) := by
  intro l
  induction l with
  | nil => intro a k _ hk h; exact ⟨hk, h⟩
  | cons v l ih =>
    intro a k hl hk h
    simp only [List.foldl_cons]
    apply ih (a + v) (k + 1) (fun w hw => hl w (List.mem_cons_of_mem _ hw)) (by linarith)
    rw [mean_step a v k hk]
    apply hullSet.segment h (hullSet.vertex (hl v List.mem_cons_self))
    · have : 0 < k + 1 := by linarith
      positivity
    · rw [div_le_one (by linarith)]; linarith

/-- `ConvexHullVertices.center` (the mean of the vertices) is a point of the hull -/
theorem meanV_mem (vs : List V) (hne : vs ≠ []) : hullSet vs (meanV vs) := by
  cases vs with
  | nil => exact absurd rfl hne
  | cons v rest =>
    unfold meanV
    simp only [List.foldl_cons]
    have h0 : (V3.zero : V) + v = v := by apply V3.ext' <;> simp [V3.zero]
    rw [h0, zero_add]
    refine (mean_fold (v :: rest) rest v 1 (fun w hw => List.mem_cons_of_mem _ hw) one_pos ?_).2
    have : V3.sdiv v 1 = v := by apply V3.ext' <;> simp [V3.sdiv]
    rw [this]; exact hullSet.vertex List.mem_cons_self

/-! ### Margin -/

theorem margin_core (K : V → Prop) (m : ℝ) (hm : 0 ≤ m) (d p : V) (h : IsSupport K d p) (n : ℝ)
    (hn0 : 0 ≤ n) (hnn : n * n = V3.normSq d) :
    IsSupport (marginSet K m) d (p + m * normVectorN d n) := by
  unfold normVectorN
  have key : ∀ q, marginSet K m q → V3.dot d q ≤ V3.dot d p + n * m := by
    rintro q ⟨x, u, hx, hu, rfl⟩
    have h1 := h.2 x hx
    have h2 := cs3 hn0 hnn hm hu
    have : V3.dot d (x + u) = V3.dot d x + V3.dot d u := by
      simp only [V3.dot_def, V3.add_x, V3.add_y, V3.add_z]; ring
    linarith
  by_cases hz : isZero n
  · rw [if_pos hz]
    have hn : n = 0 := (isZero_iff _).1 hz
    have hd : d = ⟨0, 0, 0⟩ := V3.normSq_eq_zero (by rw [← hnn, hn]; ring)
    apply isSupport_of_dir_zero _ hd
    refine ⟨p, ⟨0, 0, 0⟩, h.1, ?_, ?_⟩
    · rw [V3.normSq_def]; nlinarith
    · subst hd; apply V3.ext' <;> simp
  · rw [if_neg hz]
    have hne : n ≠ 0 := fun h => hz ((isZero_iff _).2 h)
    have hnn' : n * n = d.x * d.x + d.y * d.y + d.z * d.z := by rw [hnn, V3.normSq_def]
    refine ⟨⟨p, m * V3.sdiv d n, h.1, ?_, rfl⟩, ?_⟩
    · simp only [V3.normSq_def, V3.sdiv, V3.smul_x, V3.smul_y, V3.smul_z]
      have : m * (d.x / n) * (m * (d.x / n)) + m * (d.y / n) * (m * (d.y / n))
          + m * (d.z / n) * (m * (d.z / n)) = m * m := by
        field_simp
        linear_combination (-(m ^ 2)) * hnn'
      exact le_of_eq this
    · intro q hq
      have k := key q hq
      have e : V3.dot d (p + m * V3.sdiv d n) = V3.dot d p + n * m := by
        simp only [V3.dot_def, V3.sdiv, V3.add_x, V3.add_y, V3.add_z, V3.smul_x, V3.smul_y, V3.smul_z]
        have : d.x * (m * (d.x / n)) + d.y * (m * (d.y / n)) + d.z * (m * (d.z / n)) = n * m := by
          field_simp
          linear_combination (-m) * hnn'
        linarith
      rw [e]; exact k

/-- `Margin.support_function` : `p + margin * norm_vector(d)` is a support point of the
Minkowski sum of `K` with the ball of radius `margin` (also for `d = 0`) -/
theorem margin_support (K : V → Prop) (m : ℝ) (hm : 0 ≤ m) (d p : V) (h : IsSupport K d p) :
    IsSupport (marginSet K m) d (p + m * normVector d) :=
  margin_core K m hm d p h _ (V3.norm_nonneg d) (V3.norm_sq d)

theorem margin_superset (K : V → Prop) (m : ℝ) (p : V) (h : K p) : marginSet K m p := by
  refine ⟨p, ⟨0, 0, 0⟩, h, ?_, ?_⟩
  · rw [V3.normSq_def]; nlinarith [mul_self_nonneg m]
  · apply V3.ext' <;> simp

end Support
end D3
