/-
C03 — `MeshHillClimbingSupportFunction.__init__` : the constructed `connections`, shortcuts and
start index satisfy `MeshWF` exactly when every shortcut vertex occurs in a triangle.
-/
import D3.Proofs.SupportMesh

namespace D3
namespace Support

theorem setUpdate_mem (js l : List Nat) (c : Nat) (h : c ∈ setUpdate l js) : c ∈ l ∨ c ∈ js := by
  unfold setUpdate at h
  induction js generalizing l with
  | nil => exact Or.inl (by simpa using h)
  | cons j js ih =>
    simp only [List.foldl_cons] at h
    rcases ih _ h with h' | h'
    · split_ifs at h' with hj
      · exact Or.inl h'
      · rcases List.mem_append.mp h' with h'' | h''
        · exact Or.inl h''
        · simp at h''; exact Or.inr (h'' ▸ List.mem_cons_self)
    · exact Or.inr (List.mem_cons_of_mem _ h')

theorem lookup_append_isSome (a b : List (Nat × List Nat)) (j : Nat) :
    ((a ++ b).lookup j).isSome = ((a.lookup j).isSome || (b.lookup j).isSome) := by
  induction a with
  | nil => simp
  | cons e a ih =>
    obtain ⟨k, v⟩ := e
    simp only [List.cons_append, List.lookup]
    by_cases hk : j = k
    · subst hk; simp
    · have : (j == k) = false := by simpa using hk
      rw [this]; exact ih

theorem connEnsure_isSome (conn : List (Nat × List Nat)) (i j : Nat) :
    ((connEnsure conn i).lookup j).isSome = (decide (j = i) || (conn.lookup j).isSome) := by
  unfold connEnsure
  cases h : conn.lookup i with
  | some l =>
    by_cases hj : j = i
    · subst hj; simp [h]
    · simp [hj]
  | none =>
    simp only [lookup_append_isSome, List.lookup]
    by_cases hj : j = i
    · subst hj; simp
    · have : (j == i) = false := by simpa using hj
      simp [this, hj, Bool.or_comm]

theorem connEnsure_mem (conn : List (Nat × List Nat)) (i : Nat) (e : Nat × List Nat)
    (h : e ∈ connEnsure conn i) : e ∈ conn ∨ e = (i, []) := by
  unfold connEnsure at h
  cases hl : conn.lookup i with
  | some l => rw [hl] at h; exact Or.inl h
  | none =>
    rw [hl] at h
    rcases List.mem_append.mp h with h | h
    · exact Or.inl h
    · simp at h; exact Or.inr h

theorem connUpdate_isSome (conn : List (Nat × List Nat)) (i : Nat) (js : List Nat) (j : Nat) :
    ((connUpdate conn i js).lookup j).isSome = (conn.lookup j).isSome := by
  unfold connUpdate
  induction conn with
  | nil => simp
  | cons e conn ih =>
    obtain ⟨k, v⟩ := e
    simp only [List.map_cons, List.lookup]
    have hk1 : (if k = i then (k, setUpdate v js) else (k, v)).1 = k := by split_ifs <;> rfl
    by_cases hk : j = k
    · subst hk
      split_ifs <;> simp
    · have : (j == k) = false := by simpa using hk
      split_ifs <;> simp only [this] <;> exact ih

theorem connUpdate_mem (conn : List (Nat × List Nat)) (i : Nat) (js : List Nat) (e' : Nat × List Nat)
    (h : e' ∈ connUpdate conn i js) :
    ∃ e ∈ conn, e'.1 = e.1 ∧ ∀ c ∈ e'.2, c ∈ e.2 ∨ c ∈ js := by
  unfold connUpdate at h
  obtain ⟨e, he, rfl⟩ := List.mem_map.mp h
  refine ⟨e, he, ?_, ?_⟩
  · split_ifs <;> rfl
  · intro c hc
    split_ifs at hc with hi
    · exact setUpdate_mem js e.2 c hc
    · exact Or.inl hc

/-- invariant of the `connections` construction relative to the set `S` of vertices seen so far -/
def ConnInv (S : Nat → Prop) (conn : List (Nat × List Nat)) : Prop :=
  (∀ e ∈ conn, S e.1 ∧ ∀ c ∈ e.2, S c) ∧ (∀ i, S i → (conn.lookup i).isSome = true)

theorem connAddTriangle_inv (S : Nat → Prop) (conn : List (Nat × List Nat)) (t : Nat × Nat × Nat)
    (h : ConnInv S conn) :
    ConnInv (fun i => S i ∨ i = t.1 ∨ i = t.2.1 ∨ i = t.2.2) (connAddTriangle conn t) := by
  obtain ⟨h1, h2⟩ := h
  unfold connAddTriangle
  dsimp only
  constructor
  · intro e' he'
    -- peel the three updates
    obtain ⟨e3, he3, hk3, hn3⟩ := connUpdate_mem _ _ _ e' he'
    obtain ⟨e2, he2, hk2, hn2⟩ := connUpdate_mem _ _ _ e3 he3
    obtain ⟨e1, he1, hk1, hn1⟩ := connUpdate_mem _ _ _ e2 he2
    -- peel the three ensures
    have hbase : (S e1.1 ∨ e1.1 = t.1 ∨ e1.1 = t.2.1 ∨ e1.1 = t.2.2) ∧ ∀ c ∈ e1.2, S c := by
      rcases connEnsure_mem _ _ _ he1 with h | h
      · rcases connEnsure_mem _ _ _ h with h | h
        · rcases connEnsure_mem _ _ _ h with h | h
          · exact ⟨Or.inl (h1 e1 h).1, (h1 e1 h).2⟩
          · rw [h]; exact ⟨Or.inr (Or.inl rfl), by simp⟩
        · rw [h]; exact ⟨Or.inr (Or.inr (Or.inl rfl)), by simp⟩
      · rw [h]; exact ⟨Or.inr (Or.inr (Or.inr rfl)), by simp⟩
    refine ⟨by rw [hk3, hk2, hk1]; exact hbase.1, ?_⟩
    intro c hc
    rcases hn3 c hc with hc | hc
    · rcases hn2 c hc with hc | hc
      · rcases hn1 c hc with hc | hc
        · exact Or.inl (hbase.2 c hc)
        · simp at hc; rcases hc with rfl | rfl <;> simp
      · simp at hc; rcases hc with rfl | rfl <;> simp
    · simp at hc; rcases hc with rfl | rfl <;> simp
  · intro i hi
    rw [connUpdate_isSome, connUpdate_isSome, connUpdate_isSome, connEnsure_isSome, connEnsure_isSome,
      connEnsure_isSome]
    rcases hi with hi | hi | hi | hi
    · simp [h2 i hi]
    · simp [hi]
    · simp [hi]
    · simp [hi]

/-- `i` is one of the three vertex indices of triangle `t` -/
def TriVert (t : Nat × Nat × Nat) (i : Nat) : Prop := i = t.1 ∨ i = t.2.1 ∨ i = t.2.2

theorem ConnInv_congr {S S' : Nat → Prop} (h : ∀ i, S i ↔ S' i) {conn : List (Nat × List Nat)}
    (hc : ConnInv S conn) : ConnInv S' conn :=
  ⟨fun e he => ⟨(h _).mp (hc.1 e he).1, fun c hcm => (h _).mp ((hc.1 e he).2 c hcm)⟩,
   fun i hi => hc.2 i ((h i).mpr hi)⟩

theorem conn_fold_inv : ∀ (tris : List (Nat × Nat × Nat)) (S : Nat → Prop)
    (conn : List (Nat × List Nat)), ConnInv S conn →
    ConnInv (fun i => S i ∨ ∃ t ∈ tris, TriVert t i) (tris.foldl connAddTriangle conn) := by
  intro tris
  induction tris with
  | nil =>
    intro S conn h
    exact ConnInv_congr (fun i => by simp) h
  | cons t tris ih =>
    intro S conn h
    simp only [List.foldl_cons]
    have := ih _ _ (connAddTriangle_inv S conn t h)
    refine ConnInv_congr (fun i => ?_) this
    simp only [TriVert, List.mem_cons, exists_eq_or_imp]
    exact or_assoc

theorem argBest_lt {better : ℝ → ℝ → Bool} {key : V → ℝ} :
    ∀ (vs : List V) (i : Nat) (best : Nat × ℝ), best.1 < i →
      argBest better key vs i best < i + vs.length := by
  intro vs
  induction vs with
  | nil => intro i best h; simpa [argBest] using h
  | cons v vs ih =>
    intro i best h
    simp only [argBest, List.length_cons]
    split_ifs
    · have := ih (i + 1) (i, key v) (Nat.lt_succ_self i); omega
    · have := ih (i + 1) best (Nat.lt_succ_of_lt h); omega

theorem argBest0_lt {better : ℝ → ℝ → Bool} {key : V → ℝ} {vs : List V} {r : Nat}
    (h : argBest0 better key vs = .ok r) : r < vs.length := by
  cases vs with
  | nil => simp [argBest0] at h
  | cons v rest =>
    simp only [argBest0, Except.ok.injEq] at h
    have := argBest_lt (better := better) (key := key) rest 1 (0, key v) Nat.one_pos
    rw [h] at this
    simp only [List.length_cons]; omega

theorem minFold_vert : ∀ (tris : List (Nat × Nat × Nat)) (a : Nat),
    let r := tris.foldl (fun m t => min m (min t.1 (min t.2.1 t.2.2))) a
    r = a ∨ ∃ t ∈ tris, TriVert t r := by
  intro tris
  induction tris with
  | nil => intro a; exact Or.inl rfl
  | cons t tris ih =>
    intro a
    simp only [List.foldl_cons]
    rcases ih (min a (min t.1 (min t.2.1 t.2.2))) with h | ⟨t', ht', hv⟩
    · rw [h]
      have : min a (min t.1 (min t.2.1 t.2.2)) = a ∨ TriVert t (min a (min t.1 (min t.2.1 t.2.2))) := by
        unfold TriVert
        rcases Nat.le_total a (min t.1 (min t.2.1 t.2.2)) with h1 | h1
        · exact Or.inl (Nat.min_eq_left h1)
        · rw [Nat.min_eq_right h1]
          rcases Nat.le_total t.1 (min t.2.1 t.2.2) with h2 | h2
          · rw [Nat.min_eq_left h2]; exact Or.inr (Or.inl rfl)
          · rw [Nat.min_eq_right h2]
            rcases Nat.le_total t.2.1 t.2.2 with h3 | h3
            · rw [Nat.min_eq_left h3]; exact Or.inr (Or.inr (Or.inl rfl))
            · rw [Nat.min_eq_right h3]; exact Or.inr (Or.inr (Or.inr rfl))
      rcases this with h' | h'
      · exact Or.inl h'
      · exact Or.inr ⟨t, List.mem_cons_self, h'⟩
    · exact Or.inr ⟨t', List.mem_cons_of_mem _ ht', hv⟩

/-- **`__init__` produces well-formed data** exactly when the triangle indices are vertex indices
and every shortcut vertex (arg-max/min of a coordinate over ALL vertices) occurs in a triangle;
the cached start index `np.min(triangles)` is then valid too. -/
theorem build_wf (verts : Array V) (tris : List (Nat × Nat × Nat)) (m : MeshData ℝ) (fi : Nat)
    (h : MeshData.build verts tris = .ok (m, fi))
    (hidx : ∀ t ∈ tris, ∀ i, TriVert t i → i < verts.size)
    (hsc : ∀ s ∈ m.shortcuts, ∃ t ∈ tris, TriVert t s) :
    MeshWF m ∧ Valid m fi ∧ m.verts = verts := by
  cases tris with
  | nil => simp [MeshData.build] at h
  | cons t0 rest =>
    simp only [MeshData.build] at h
    split at h
    · rename_i a b c e f g ha hb hc he hf hg
      simp only [Except.ok.injEq, Prod.mk.injEq] at h
      obtain ⟨hm, hfi⟩ := h
      have hinv := conn_fold_inv (t0 :: rest) (fun _ => False) [] ⟨by simp, by simp⟩
      have hconn : m.conn = (t0 :: rest).foldl connAddTriangle [] := by rw [← hm]
      have hverts : m.verts = verts := by rw [← hm]
      rw [← hconn] at hinv
      have hS : ∀ i, (∃ t ∈ t0 :: rest, TriVert t i) → Valid m i := by
        rintro i ⟨t, ht, hv⟩
        refine ⟨by rw [hverts]; exact hidx t ht i hv, ?_⟩
        obtain ⟨l, hl⟩ := Option.isSome_iff_exists.mp (hinv.2 i (Or.inr ⟨t, ht, hv⟩))
        exact ⟨l, connLookup_ok.mpr hl⟩
      refine ⟨⟨fun s hs => hS s (hsc s hs), ?_⟩, ?_, hverts⟩
      · intro k l hl c hc
        have := (hinv.1 (k, l) (lookup_mem (connLookup_ok.mp hl))).2 c hc
        rcases this with h' | h'
        · exact absurd h' id
        · exact hS c h'
      · rw [← hfi]
        rcases minFold_vert (t0 :: rest) t0.1 with h' | h'
        · rw [h']; exact hS _ ⟨t0, List.mem_cons_self, Or.inl rfl⟩
        · exact hS _ h'
    · simp at h


end Support
end D3
