/-
Structural lemmas for `make_tetrahedral_capsule` over ℝ: vertex and element counts, every vertex
lies on or inside the capsule (cap vertices on the cap spheres), potentials.
-/
import D3.Proofs.TetraMeshCylinder

namespace D3
namespace TetraMesh

/-- on or inside the capsule of radius `r` around the segment `[-h/2, h/2]` of the z-axis:
within distance `r` of some point of the segment -/
def InCapsule (r h : ℝ) (p : V3 ℝ) : Prop :=
  ∃ c : ℝ, -(h / 2) ≤ c ∧ c ≤ h / 2 ∧ p.x ^ 2 + p.y ^ 2 + (p.z - c) ^ 2 ≤ r ^ 2

/-- `int(np.clip(x, 3, 706))` by counting: the result is in `[3, 706]` -/
theorem clipIntLoop_bounds (x : ℝ) : ∀ (fuel n : Nat) (acc : ℝ), 3 ≤ n → n + fuel ≤ 706 →
    3 ≤ clipIntLoop x fuel n acc ∧ clipIntLoop x fuel n acc ≤ 706
  | 0, n, _, h3, h7 => by simp only [clipIntLoop]; omega
  | fuel + 1, n, acc, h3, h7 => by
    simp only [clipIntLoop]
    split
    · exact clipIntLoop_bounds x fuel (n + 1) (acc + 1) (by omega) (by omega)
    · omega

theorem clipInt_bounds (x : ℝ) : 3 ≤ clipInt3_706 x ∧ clipInt3_706 x ≤ 706 :=
  clipIntLoop_bounds x 703 3 (1 + 2) (le_refl _) (by omega)

theorem capsuleElements_length (n : Nat) :
    (capsuleElements n).length = 4 * ((n / 2 - 1) * n) + 5 * n := by
  unfold capsuleElements
  simp only [List.length_append]
  rw [flatMap_const_length _ (n * 4) _ (fun i _ => by
      rw [flatMap_const_length _ 4 _ (fun _ _ => rfl)]; simp),
    flatMap_const_length _ 5 _ (fun _ _ => rfl)]
  simp only [List.length_range]
  ring

theorem capsule_vertices_spec (r h : ℝ) (n : Nat) (h0 : 0 < h) (vs : List (V3 ℝ))
    (hv : capsuleVertices r h n = .ok vs) :
    vs.length = 4 + 2 * (n / 2 * n) ∧ (∀ p ∈ vs, InCapsule r h p) ∧
      vs.getD 0 V3.zero = ⟨0, 0, h / 2⟩ ∧ vs.getD 1 V3.zero = ⟨0, 0, -(h / 2)⟩ := by
  have hh : (0.5 : ℝ) * h = h / 2 := by rw [half_lit]; ring
  unfold capsuleVertices at hv
  simp only [hh] at hv
  split at hv
  · cases hv
  · cases hv
    refine ⟨?_, ?_, rfl, rfl⟩
    · rw [List.length_append, flatMap_const_length _ (n * 2) _ (fun i _ => by
        rw [flatMap_const_length _ 2 _ (fun _ _ => rfl)]; simp)]
      simp only [List.length_cons, List.length_nil, List.length_range]
      ring
    · intro p hp
      rcases List.mem_append.mp hp with hp | hp
      · simp only [List.mem_cons, List.not_mem_nil, or_false] at hp
        rcases hp with rfl | rfl | rfl | rfl
        · exact ⟨h / 2, by linarith, le_refl _, by simp; positivity⟩
        · exact ⟨-(h / 2), le_refl _, by linarith, by simp; positivity⟩
        · exact ⟨h / 2, by linarith, le_refl _, by simp⟩
        · exact ⟨-(h / 2), le_refl _, by linarith, by simp only []; ring_nf; exact le_refl _⟩
      · obtain ⟨i, _, hp⟩ := List.mem_flatMap.mp hp
        obtain ⟨j, _, hp⟩ := List.mem_flatMap.mp hp
        simp only [List.mem_cons, List.not_mem_nil, or_false] at hp
        set θ : ℝ := 0.5 * piLit - ofNatS i * (0.5 * piLit / ofNatS (n / 2)) with hθ
        set φ : ℝ := ofNatS j * (2 * piLit / ofNatS n) with hφ
        have e1 := Real.sin_sq_add_cos_sq θ
        have e2 := Real.sin_sq_add_cos_sq φ
        have key : (r * Real.sin θ * Real.cos φ) ^ 2 + (r * Real.sin θ * Real.sin φ) ^ 2 +
            (r * Real.cos θ) ^ 2 = r ^ 2 := by
          have : (r * Real.sin θ * Real.cos φ) ^ 2 + (r * Real.sin θ * Real.sin φ) ^ 2 =
              r ^ 2 * Real.sin θ ^ 2 * (Real.sin φ ^ 2 + Real.cos φ ^ 2) := by ring
          rw [this, e2]
          nlinarith [e1]
        rcases hp with rfl | rfl
        · refine ⟨h / 2, ?_, le_refl _, ?_⟩
          · linarith
          · show (r * Real.sin θ * Real.cos φ) ^ 2 + (r * Real.sin θ * Real.sin φ) ^ 2 +
              (r * Real.cos θ + h / 2 - h / 2) ^ 2 ≤ r ^ 2
            rw [show r * Real.cos θ + h / 2 - h / 2 = r * Real.cos θ by ring, key]
        · refine ⟨-(h / 2), le_refl _, ?_, ?_⟩
          · linarith
          · show (r * Real.sin θ * Real.cos φ) ^ 2 + (r * Real.sin θ * Real.sin φ) ^ 2 +
              (-(r * Real.cos θ + h / 2) - -(h / 2)) ^ 2 ≤ r ^ 2
            rw [show -(r * Real.cos θ + h / 2) - -(h / 2) = -(r * Real.cos θ) by ring, neg_sq, key]

/-- **capsule.** If the factory returns a mesh (positive height), then the number of vertices per
circle `n` is in `[3, 706]`, there are `4 + 2·⌊n/2⌋·n` vertices and `4(⌊n/2⌋−1)n + 5n`
tetrahedra, every vertex lies on or inside the capsule (the cap vertices at distance exactly `r`
from a cap centre), the first two vertices are the ends of the medial segment and carry the
potential `r`, all other potentials are 0. -/
theorem capsule_structure (r h hint : ℝ) (h0 : 0 < h) (m : Mesh ℝ)
    (hm : makeTetrahedralCapsule r h hint = .ok m) :
    ∃ n : Nat, 3 ≤ n ∧ n ≤ 706 ∧ m.vertices.length = 4 + 2 * (n / 2 * n) ∧
      m.tets.length = 4 * ((n / 2 - 1) * n) + 5 * n ∧
      (∀ p ∈ m.vertices, InCapsule r h p) ∧
      m.vertices.getD 0 V3.zero = ⟨0, 0, h / 2⟩ ∧ m.vertices.getD 1 V3.zero = ⟨0, 0, -(h / 2)⟩ ∧
      m.potentials.length = m.vertices.length ∧
      (∀ i, i < m.vertices.length → m.potentials[i]? = some (if i < 2 then r else 0)) := by
  unfold makeTetrahedralCapsule at hm
  split at hm
  · cases hm
  · obtain ⟨n3, n7⟩ := clipInt_bounds (2 * piLit * r / hint)
    set n := clipInt3_706 (2 * piLit * r / hint) with hn
    unfold capsuleMeshN at hm
    cases hv : capsuleVertices r h n with
    | error e => simp [hv, bind, Except.bind] at hm
    | ok vs =>
      simp only [hv, bind, Except.bind, pure, Except.pure] at hm
      cases hm
      obtain ⟨hl, hin, g0, g1⟩ := capsule_vertices_spec r h n h0 vs hv
      refine ⟨n, n3, n7, hl, capsuleElements_length n, hin, g0, g1, by simp, ?_⟩
      intro i hi
      simp only [List.getElem?_map, List.getElem?_range hi, Option.map_some]

end TetraMesh
end D3
