/-
Link C10 ↔ C03: `plane_to_ellipsoid` and `plane_to_cylinder` (`distance/_plane.py`) as the composition of
the two modelled support-function calls (`D3/Model/Support.lean`, proved in the C03 vertical) with the modelled
tail `planeToSupportPair` (`D3/Model/DistLine.lean`, proved in the C10 vertical).

* the composed model functions `planeToEllipsoid`, `planeToCylinder` (add-only, scalar-polymorphic);
* convexity of C03's solid ellipsoid / solid cylinder (`convex_poseImage`, `convex_ellipsoidLocalSet`,
  `convex_cylinderLocalSet`) in the `ConvexSet` vocabulary of C10;
* the band hypothesis `HullNoBand` of the tail for the two support points, discharged from geometric
  conditions (`hullNoBand_of_not_straddle`, `hullNoBand_pair_of_side`, and the closed forms
  `ellipsoid_hullNoBand`, `cylinder_hullNoBand` for orthonormal poses and bounded aspect ratio).
-/
import D3.Proofs.DistLineHull
import D3.Proofs.SupportClosed

namespace D3
namespace DistLine

/-! ### the composed model functions -/

section model
scalar_variables

/-- `plane_to_ellipsoid(plane_point, plane_normal, ellipsoid2origin, radii)`:
`point1 = support_function_ellipsoid(-plane_normal, ellipsoid2origin, radii)`,
`point2 = support_function_ellipsoid(plane_normal, ellipsoid2origin, radii)`,
`return _plane_to_convex_hull_points(plane_point, plane_normal, np.vstack((point1, point2)))` -/
def planeToEllipsoid (pp n : V3 α) (A : Pose α) (radii : V3 α) : Except Err (Res3 α) :=
  let point1 := (Support.supportEllipsoid (-n) A radii).2
  let point2 := (Support.supportEllipsoid n A radii).2
  planeToSupportPair pp n point1 point2

/-- `plane_to_cylinder(plane_point, plane_normal, cylinder2origin, radius, length)`:
`point1 = support_function_cylinder(-plane_normal, cylinder2origin, radius, length)`,
`point2 = support_function_cylinder(plane_normal, cylinder2origin, radius, length)`,
`return _plane_to_convex_hull_points(plane_point, plane_normal, np.vstack((point1, point2)))` -/
def planeToCylinder (pp n : V3 α) (A : Pose α) (radius length : α) : Except Err (Res3 α) :=
  let point1 := (Support.supportCylinder (-n) A radius length).2
  let point2 := (Support.supportCylinder n A radius length).2
  planeToSupportPair pp n point1 point2

end model

/-! ### convexity of C03's sets, in C10's vocabulary -/

/-- C10's `ConvexSet` (`x + t (y − x)`) and C03's (`(1 − t) a + t b`) are the same notion -/
theorem convexSet_iff_support (K : V → Prop) : ConvexSet K ↔ Support.ConvexSet K := by
  have e : ∀ (x y : V) (t : ℝ), x + t * (y - x) = (1 - t) * x + t * y := by
    intro x y t; apply V3.ext' <;> simp <;> ring
  constructor
  · intro h a b ha hb t h0 h1
    rw [← e]; exact h a b t ha hb h0 h1
  · intro h x y t hx hy h0 h1
    rw [e]; exact h x y hx hy t h0 h1

/-- the pose map `q ↦ R q + t` is affine (every matrix `R`) -/
theorem pose_apply_seg (A : Pose ℝ) (a b : V) (t : ℝ) :
    A.apply (a + t * (b - a)) = A.apply a + t * (A.apply b - A.apply a) := by
  apply V3.ext' <;>
    simp only [Pose.apply, M3.mulVec, V3.dot_def, V3.add_x, V3.add_y, V3.add_z, V3.sub_x, V3.sub_y, V3.sub_z,
      V3.smul_x, V3.smul_y, V3.smul_z] <;> ring

/-- the image of a convex set under a pose (any matrix, orthonormal or not) is convex -/
theorem convex_poseImage {K : V → Prop} (hK : ConvexSet K) (A : Pose ℝ) : ConvexSet (poseImage A K) := by
  rintro x y t ⟨a, ha, rfl⟩ ⟨b, hb, rfl⟩ h0 h1
  exact ⟨a + t * (b - a), hK a b t ha hb h0 h1, (pose_apply_seg A a b t).symm⟩

/-- convexity of the square: `(u + t (v − u))² ≤ (1 − t) u² + t v²` on `[0, 1]` -/
theorem sq_seg_le (u v t : ℝ) (h0 : 0 ≤ t) (h1 : t ≤ 1) :
    (u + t * (v - u)) * (u + t * (v - u)) ≤ (1 - t) * (u * u) + t * (v * v) := by
  nlinarith [mul_nonneg (mul_nonneg h0 (sub_nonneg.mpr h1)) (mul_self_nonneg (u - v))]

/-- the solid ellipsoid `Σ (qᵢ/rᵢ)² ≤ 1` is convex (for every `radii`, also degenerate ones) -/
theorem convex_ellipsoidLocalSet (radii : V) : ConvexSet (Support.ellipsoidLocalSet radii) := by
  intro a b t ha hb h0 h1
  unfold Support.ellipsoidLocalSet at *
  have ex : (a + t * (b - a)).x / radii.x = a.x / radii.x + t * (b.x / radii.x - a.x / radii.x) := by
    simp only [V3.add_x, V3.smul_x, V3.sub_x]; ring
  have ey : (a + t * (b - a)).y / radii.y = a.y / radii.y + t * (b.y / radii.y - a.y / radii.y) := by
    simp only [V3.add_y, V3.smul_y, V3.sub_y]; ring
  have ez : (a + t * (b - a)).z / radii.z = a.z / radii.z + t * (b.z / radii.z - a.z / radii.z) := by
    simp only [V3.add_z, V3.smul_z, V3.sub_z]; ring
  rw [ex, ey, ez]
  have sx := sq_seg_le (a.x / radii.x) (b.x / radii.x) t h0 h1
  have sy := sq_seg_le (a.y / radii.y) (b.y / radii.y) t h0 h1
  have sz := sq_seg_le (a.z / radii.z) (b.z / radii.z) t h0 h1
  have h1' : 0 ≤ 1 - t := sub_nonneg.mpr h1
  nlinarith [mul_le_mul_of_nonneg_left ha h1', mul_le_mul_of_nonneg_left hb h0]

/-- the solid cylinder `x² + y² ≤ r²`, `|z| ≤ l/2` is convex (every `r`, `l`) -/
theorem convex_cylinderLocalSet (r l : ℝ) : ConvexSet (Support.cylinderLocalSet r l) := by
  rintro a b t ⟨ha, ha1, ha2⟩ ⟨hb, hb1, hb2⟩ h0 h1
  have h1' : 0 ≤ 1 - t := sub_nonneg.mpr h1
  refine ⟨?_, ?_, ?_⟩
  · simp only [V3.add_x, V3.smul_x, V3.sub_x, V3.add_y, V3.smul_y, V3.sub_y]
    have sx := sq_seg_le a.x b.x t h0 h1
    have sy := sq_seg_le a.y b.y t h0 h1
    nlinarith [mul_le_mul_of_nonneg_left ha h1', mul_le_mul_of_nonneg_left hb h0]
  · simp only [V3.add_z, V3.smul_z, V3.sub_z]
    nlinarith [mul_le_mul_of_nonneg_left ha1 h1', mul_le_mul_of_nonneg_left hb1 h0]
  · simp only [V3.add_z, V3.smul_z, V3.sub_z]
    nlinarith [mul_le_mul_of_nonneg_left ha2 h1', mul_le_mul_of_nonneg_left hb2 h0]

/-- C03's posed solid ellipsoid is convex -/
theorem convex_ellipsoidSet (A : Pose ℝ) (radii : V) :
    ConvexSet (poseImage A (Support.ellipsoidLocalSet radii)) :=
  convex_poseImage (convex_ellipsoidLocalSet radii) A

/-- C03's posed solid cylinder is convex -/
theorem convex_cylinderSet (A : Pose ℝ) (r l : ℝ) :
    ConvexSet (poseImage A (Support.cylinderLocalSet r l)) :=
  convex_poseImage (convex_cylinderLocalSet r l) A

/-! ### the band hypothesis for a pair of support points -/

/-- for a two-point list whose first point is not above the second, `HullNoBand` is a statement about that one
ordered pair only -/
theorem hullNoBand_pair {pp n pm pq : V} (hle : V3.dot (pm - pp) n ≤ V3.dot (pq - pp) n)
    (h : V3.dot (pm - pp) n < 0 → 0 < V3.dot (pq - pp) n →
      (1e-6 : ℝ) * V3.normSq (pq - pm) ≤ (V3.dot (pq - pp) n - V3.dot (pm - pp) n) ^ 2) :
    HullNoBand pp n [pm, pq] := by
  intro p hp q hq hpn hqn
  simp only [List.mem_cons, List.mem_nil_iff, or_false] at hp hq
  rcases hp with rfl | rfl <;> rcases hq with rfl | rfl
  · linarith
  · exact h hpn hqn
  · linarith
  · linarith

/-- the support point for `−n` is not above the support point for `+n` -/
theorem support_pair_le {K : V → Prop} {pp n pm pq : V} (hm : IsSupport K (-n) pm) (hq : IsSupport K n pq) :
    V3.dot (pm - pp) n ≤ V3.dot (pq - pp) n := by
  have := hq.2 pm hm.1
  vsimp at this
  vsimp
  linarith

/-- if the two support points do not lie strictly on opposite sides of the plane, there is no band -/
theorem hullNoBand_of_not_straddle {K : V → Prop} {pp n pm pq : V} (hm : IsSupport K (-n) pm)
    (hq : IsSupport K n pq) (h : ¬ (V3.dot (pm - pp) n < 0 ∧ 0 < V3.dot (pq - pp) n)) :
    HullNoBand pp n [pm, pq] :=
  hullNoBand_pair (support_pair_le hm hq) (fun a b => absurd ⟨a, b⟩ h)

/-- **no band when the plane does not cut the body**: if all of `K` lies in one closed half space of the plane,
`HullNoBand` holds for the two support points -/
theorem hullNoBand_pair_of_side {K : V → Prop} {pp n pm pq : V} (hm : IsSupport K (-n) pm)
    (hq : IsSupport K n pq)
    (h : (∀ x, K x → 0 ≤ V3.dot (x - pp) n) ∨ (∀ x, K x → V3.dot (x - pp) n ≤ 0)) :
    HullNoBand pp n [pm, pq] := by
  apply hullNoBand_of_not_straddle hm hq
  rintro ⟨a, b⟩
  rcases h with h | h
  · have := h pm hm.1; linarith
  · have := h pq hq.1; linarith

/-! ### closed forms: orthonormal pose and bounded aspect ratio leave no band at all -/

theorem tmulVec_neg (R : Mat) (n : V) : R.tmulVec (-n) = -(R.tmulVec n) := by
  apply V3.ext' <;> simp only [M3.tmulVec, V3.dot_def, V3.neg_x, V3.neg_y, V3.neg_z] <;> ring

/-- the band inequality for two posed points follows from the same inequality in the local frame when the pose
is orthonormal -/
theorem band_transformPoint {A : Pose ℝ} (hA : Orthonormal A.R) (n pp ql pl : V)
    (h : (1e-6 : ℝ) * V3.normSq (ql - pl) ≤ (V3.dot (A.R.tmulVec n) (ql - pl)) ^ 2) :
    (1e-6 : ℝ) * V3.normSq (Support.transformPoint A ql - Support.transformPoint A pl) ≤
      (V3.dot (Support.transformPoint A ql - pp) n - V3.dot (Support.transformPoint A pl - pp) n) ^ 2 := by
  have e1 : Support.transformPoint A ql - Support.transformPoint A pl = A.R.mulVec (ql - pl) := by
    apply V3.ext' <;>
      simp only [Support.transformPoint, M3.mulVec, V3.dot_def, V3.add_x, V3.add_y, V3.add_z, V3.sub_x, V3.sub_y,
        V3.sub_z] <;> ring
  have e2 : V3.normSq (A.R.mulVec (ql - pl)) = V3.normSq (ql - pl) := hA.dot_mulVec _ _
  have e3 : V3.dot (Support.transformPoint A ql - pp) n - V3.dot (Support.transformPoint A pl - pp) n
      = V3.dot n (Support.transformPoint A ql - Support.transformPoint A pl) := by
    vsimp; ring
  rw [e3, e1, e2, M3.dot_mulVec]
  exact h

/-- value of `norm_vector(w) * radii` when the norm is positive -/
theorem ellipsoidLocalN_pos (w radii : V) {s : ℝ} (hs : 0 < s) :
    (Support.ellipsoidLocalN w radii s).2 = ⟨w.x / s * radii.x, w.y / s * radii.y, w.z / s * radii.z⟩ := by
  have hnz : ¬ Support.isZero s := by rw [Support.isZero_iff]; exact ne_of_gt hs
  simp only [Support.ellipsoidLocalN, Support.normVectorN, if_neg hnz, sdiv_x, sdiv_y, sdiv_z]

theorem wsum_ge {a b c x y z L : ℝ} (ha : 0 ≤ a) (hb : 0 ≤ b) (hc : 0 ≤ c) (hx : L ≤ x) (hy : L ≤ y)
    (hz : L ≤ z) : (a + b + c) * L ≤ a * x + b * y + c * z := by
  nlinarith [mul_le_mul_of_nonneg_left hx ha, mul_le_mul_of_nonneg_left hy hb, mul_le_mul_of_nonneg_left hz hc]

theorem wsum_le {a b c x y z H : ℝ} (ha : 0 ≤ a) (hb : 0 ≤ b) (hc : 0 ≤ c) (hx : x ≤ H) (hy : y ≤ H)
    (hz : z ≤ H) : a * x + b * y + c * z ≤ (a + b + c) * H := by
  nlinarith [mul_le_mul_of_nonneg_left hx ha, mul_le_mul_of_nonneg_left hy hb, mul_le_mul_of_nonneg_left hz hc]

/-- scalar core of `ellipsoidLocal_band`: `s = |Dm|`, `|m| = 1`, radii in `[lo, hi]`, `hi ≤ 1000 lo` -/
theorem ellipsoid_band_alg {mx my mz rx ry rz s lo hi : ℝ} (hm : mx * mx + my * my + mz * mz = 1)
    (hs2 : s * s = mx * rx * (mx * rx) + my * ry * (my * ry) + mz * rz * (mz * rz)) (hs0 : 0 ≤ s)
    (hlo : 0 < lo) (hhi : hi ≤ 1000 * lo) (hx : lo ≤ rx ∧ rx ≤ hi) (hy : lo ≤ ry ∧ ry ≤ hi)
    (hz : lo ≤ rz ∧ rz ≤ hi) :
    0 < s ∧ lo * lo ≤ s * s ∧ hi * hi ≤ 1000000 * (lo * lo) ∧
      mx * rx * (mx * rx) * (rx * rx) + my * ry * (my * ry) * (ry * ry) + mz * rz * (mz * rz) * (rz * rz)
        ≤ hi * hi * (s * s) := by
  have rx2 : lo * lo ≤ rx * rx := mul_self_le_mul_self hlo.le hx.1
  have ry2 : lo * lo ≤ ry * ry := mul_self_le_mul_self hlo.le hy.1
  have rz2 : lo * lo ≤ rz * rz := mul_self_le_mul_self hlo.le hz.1
  have hx2 : rx * rx ≤ hi * hi := mul_self_le_mul_self (le_trans hlo.le hx.1) hx.2
  have hy2 : ry * ry ≤ hi * hi := mul_self_le_mul_self (le_trans hlo.le hy.1) hy.2
  have hz2 : rz * rz ≤ hi * hi := mul_self_le_mul_self (le_trans hlo.le hz.1) hz.2
  have hslo : lo * lo ≤ s * s := by
    have := wsum_ge (mul_self_nonneg mx) (mul_self_nonneg my) (mul_self_nonneg mz) rx2 ry2 rz2
    rw [hm] at this
    rw [hs2]; linarith
  have hspos : 0 < s := by
    rcases lt_or_eq_of_le hs0 with h | h
    · exact h
    · rw [← h] at hslo
      have := mul_pos hlo hlo
      linarith
  have hhi0 : 0 ≤ hi := le_trans hlo.le (le_trans hx.1 hx.2)
  have hhl : hi * hi ≤ 1000000 * (lo * lo) := by
    have := mul_self_le_mul_self hhi0 hhi
    linarith
  refine ⟨hspos, hslo, hhl, ?_⟩
  have := wsum_le (mul_self_nonneg (mx * rx)) (mul_self_nonneg (my * ry)) (mul_self_nonneg (mz * rz)) hx2 hy2 hz2
  rw [← hs2] at this
  linarith

/-- the displacement between the two local support points of the ellipsoid: `2 s` along `m`, and
`|v|² s² = 4 |D² m|²` -/
theorem ellipsoid_disp {mx my mz rx ry rz s : ℝ} (hs : 0 < s)
    (hs2 : s * s = mx * rx * (mx * rx) + my * ry * (my * ry) + mz * rz * (mz * rz)) :
    V3.dot (⟨mx, my, mz⟩ : V)
      ((⟨mx * rx / s * rx, my * ry / s * ry, mz * rz / s * rz⟩ : V)
        - ⟨-mx * rx / s * rx, -my * ry / s * ry, -mz * rz / s * rz⟩) = 2 * s ∧
    V3.normSq ((⟨mx * rx / s * rx, my * ry / s * ry, mz * rz / s * rz⟩ : V)
        - ⟨-mx * rx / s * rx, -my * ry / s * ry, -mz * rz / s * rz⟩) * (s * s)
      = 4 * (mx * rx * (mx * rx) * (rx * rx) + my * ry * (my * ry) * (ry * ry)
          + mz * rz * (mz * rz) * (rz * rz)) := by
  have hsne : s ≠ 0 := ne_of_gt hs
  constructor
  · vsimp
    field_simp
    linarith
  · vsimp
    field_simp
    ring

/-- local frame, ellipsoid: for a unit direction `m` the two support points `±D²m/|Dm|` are `2|Dm|` apart along
`m` and `2|D²m|/|Dm|` apart in space; with all radii in `[lo, hi]`, `hi ≤ 1000·lo`, the band inequality holds -/
theorem ellipsoidLocal_band (m radii : V) (hm : V3.normSq m = 1) (lo hi : ℝ) (hlo : 0 < lo)
    (hhi : hi ≤ 1000 * lo) (hx : lo ≤ radii.x ∧ radii.x ≤ hi) (hy : lo ≤ radii.y ∧ radii.y ≤ hi)
    (hz : lo ≤ radii.z ∧ radii.z ≤ hi) :
    (1e-6 : ℝ) * V3.normSq ((Support.ellipsoidLocal m radii).2 - (Support.ellipsoidLocal (-m) radii).2) ≤
      (V3.dot m ((Support.ellipsoidLocal m radii).2 - (Support.ellipsoidLocal (-m) radii).2)) ^ 2 := by
  obtain ⟨rx, ry, rz⟩ := radii
  obtain ⟨mx, my, mz⟩ := m
  simp only at hx hy hz
  rw [V3.normSq_def] at hm
  simp only at hm
  -- s = |D m|
  have hs2 := V3.norm_sq (⟨mx * rx, my * ry, mz * rz⟩ : V)
  rw [V3.normSq_def] at hs2
  simp only at hs2
  have hs0 := V3.norm_nonneg (⟨mx * rx, my * ry, mz * rz⟩ : V)
  have hneg : V3.norm (⟨-mx * rx, -my * ry, -mz * rz⟩ : V) = V3.norm (⟨mx * rx, my * ry, mz * rz⟩ : V) := by
    rw [V3.norm_def, V3.norm_def]; congr 1; simp only [V3.normSq_def]; ring
  have e1 : Support.ellipsoidLocal (⟨mx, my, mz⟩ : V) ⟨rx, ry, rz⟩
      = Support.ellipsoidLocalN ⟨mx * rx, my * ry, mz * rz⟩ ⟨rx, ry, rz⟩ (V3.norm (⟨mx * rx, my * ry, mz * rz⟩ : V)) := rfl
  have e2 : Support.ellipsoidLocal (-(⟨mx, my, mz⟩ : V)) ⟨rx, ry, rz⟩
      = Support.ellipsoidLocalN ⟨-mx * rx, -my * ry, -mz * rz⟩ ⟨rx, ry, rz⟩
          (V3.norm (⟨-mx * rx, -my * ry, -mz * rz⟩ : V)) := rfl
  rw [e1, e2, hneg]
  generalize V3.norm (⟨mx * rx, my * ry, mz * rz⟩ : V) = s at hs2 hs0
  obtain ⟨hspos, hslo, hhl, hQle⟩ := ellipsoid_band_alg hm hs2 hs0 hlo hhi hx hy hz
  rw [ellipsoidLocalN_pos _ _ hspos, ellipsoidLocalN_pos _ _ hspos]
  obtain ⟨hdot, hQ⟩ := ellipsoid_disp hspos hs2
  rw [hdot]
  have e4 : (2 * s) ^ 2 = 4 * (s * s) := by ring
  rw [e4]
  generalize V3.normSq ((⟨mx * rx / s * rx, my * ry / s * ry, mz * rz / s * rz⟩ : V)
        - ⟨-mx * rx / s * rx, -my * ry / s * ry, -mz * rz / s * rz⟩) = N at hQ
  have hN : N ≤ 4 * (hi * hi) := by
    apply le_of_mul_le_mul_right _ (mul_pos hspos hspos)
    rw [hQ]; linarith
  norm_num
  linarith

/-- **ellipsoid, no band**: for an orthonormal pose, a unit normal and radii within a factor 1000 of each other,
the two support points of `plane_to_ellipsoid` satisfy `HullNoBand` for every plane -/
theorem ellipsoid_hullNoBand {A : Pose ℝ} (hA : Orthonormal A.R) {n : V} (hu : UnitVec n) (radii : V)
    (lo hi : ℝ) (hlo : 0 < lo) (hhi : hi ≤ 1000 * lo) (hx : lo ≤ radii.x ∧ radii.x ≤ hi)
    (hy : lo ≤ radii.y ∧ radii.y ≤ hi) (hz : lo ≤ radii.z ∧ radii.z ≤ hi) (pp : V) :
    HullNoBand pp n [(Support.supportEllipsoid (-n) A radii).2, (Support.supportEllipsoid n A radii).2] := by
  have hm : V3.normSq (A.R.tmulVec n) = 1 := by
    have := hA.dot_tmulVec n n
    rw [dot_self_eq_normSq] at this
    rw [this]; exact hu
  have hpos : 0 < radii.x ∧ 0 < radii.y ∧ 0 < radii.z :=
    ⟨lt_of_lt_of_le hlo hx.1, lt_of_lt_of_le hlo hy.1, lt_of_lt_of_le hlo hz.1⟩
  apply hullNoBand_pair
    (support_pair_le (Support.supportEllipsoid_isSupport (-n) A radii hpos.1 hpos.2.1 hpos.2.2)
      (Support.supportEllipsoid_isSupport n A radii hpos.1 hpos.2.1 hpos.2.2))
  intro _ _
  have := ellipsoidLocal_band (A.R.tmulVec n) radii hm lo hi hlo hhi hx hy hz
  rw [← tmulVec_neg] at this
  exact band_transformPoint hA n pp _ _ this

/-- value of the body of `support_function_cylinder` -/
theorem cylinderLocalS_val (ld : V) (r l s : ℝ) :
    (Support.cylinderLocalS ld r l s).2 =
      if s = 0 then ⟨r, 0, if ld.z < 0 then -(l / 2) else l / 2⟩
      else ⟨ld.x * (r / s), ld.y * (r / s), if ld.z < 0 then -(l / 2) else l / 2⟩ := by
  unfold Support.cylinderLocalS
  simp only [Support.isZero_iff, Support.half_real]
  by_cases hs : s = 0 <;> by_cases hz : ld.z < 0 <;> simp only [hs, hz, if_true, if_false] <;>
    (apply V3.ext' <;> first | rfl | (simp only []; ring))

/-- the two caps chosen for `m` and `−m`: their `z` difference is `l·sign(m_z)` -/
theorem cyl_zdiff (mz l : ℝ) (hl : 0 ≤ l) :
    0 ≤ mz * ((if mz < 0 then -(l / 2) else l / 2) - (if -mz < 0 then -(l / 2) else l / 2)) ∧
    (mz * ((if mz < 0 then -(l / 2) else l / 2) - (if -mz < 0 then -(l / 2) else l / 2))) ^ 2 = l * l * (mz * mz) ∧
    ((if mz < 0 then -(l / 2) else l / 2) - (if -mz < 0 then -(l / 2) else l / 2)) ^ 2 ≤ l * l := by
  rcases lt_trichotomy mz 0 with h | h | h
  · rw [if_pos h, if_neg (by linarith)]
    refine ⟨by nlinarith, by ring, by nlinarith⟩
  · subst h
    simp only [lt_irrefl, neg_zero, if_false]
    refine ⟨by simp, by ring, by nlinarith [mul_nonneg hl hl]⟩
  · rw [if_neg (by linarith), if_pos (by linarith)]
    refine ⟨by nlinarith, by ring, by nlinarith⟩

/-- scalar core of `cylinderLocal_band` -/
theorem cylinder_band_alg {r l s mz D dz : ℝ} (hr : 0 ≤ r) (hl : 0 ≤ l) (h1 : l ≤ 999 * (2 * r))
    (h2 : 2 * r ≤ 999 * l) (hs0 : 0 ≤ s) (hsm : s * s + mz * mz = 1) (hD0 : 0 ≤ D)
    (hD2 : D ^ 2 = l * l * (mz * mz)) (hdz : dz ^ 2 ≤ l * l) :
    (1e-6 : ℝ) * (4 * (r * r) + dz ^ 2) ≤ (2 * r * s + D) ^ 2 := by
  have l2 : l * l ≤ 998001 * (4 * (r * r)) := by
    have := mul_self_le_mul_self hl h1; linarith
  have r2 : 4 * (r * r) ≤ 998001 * (l * l) := by
    have := mul_self_le_mul_self (by linarith : (0 : ℝ) ≤ 2 * r) h2; linarith
  have H1 : (1e-6 : ℝ) * (4 * (r * r) + l * l) ≤ 4 * (r * r) := by norm_num; linarith
  have H2 : (1e-6 : ℝ) * (4 * (r * r) + l * l) ≤ l * l := by norm_num; linarith
  have a := mul_le_mul_of_nonneg_right H1 (mul_self_nonneg s)
  have b := mul_le_mul_of_nonneg_right H2 (mul_self_nonneg mz)
  have c : 0 ≤ 2 * r * s * D := mul_nonneg (mul_nonneg (by linarith) hs0) hD0
  have e : (2 * r * s + D) ^ 2 = 4 * (r * r) * (s * s) + D ^ 2 + 2 * (2 * r * s * D) := by ring
  have f : (1e-6 : ℝ) * (4 * (r * r) + l * l) * (s * s) + (1e-6 : ℝ) * (4 * (r * r) + l * l) * (mz * mz)
      = (1e-6 : ℝ) * (4 * (r * r) + l * l) := by
    rw [← mul_add, hsm, mul_one]
  rw [e, hD2]
  have g : (1e-6 : ℝ) * (4 * (r * r) + dz ^ 2) ≤ (1e-6 : ℝ) * (4 * (r * r) + l * l) := by
    apply mul_le_mul_of_nonneg_left _ (by norm_num); linarith
  linarith

/-- local frame, cylinder: for a unit direction `m`, `0 ≤ r`, `0 ≤ l` and diameter / length within a factor 999
of each other the two support points satisfy the band inequality (all branches: `s == 0`, sign of `m_z`, tie) -/
theorem cylinderLocal_band (m : V) (r l : ℝ) (hm : V3.normSq m = 1) (hr : 0 ≤ r) (hl : 0 ≤ l)
    (h1 : l ≤ 999 * (2 * r)) (h2 : 2 * r ≤ 999 * l) :
    (1e-6 : ℝ) * V3.normSq ((Support.cylinderLocal m r l).2 - (Support.cylinderLocal (-m) r l).2) ≤
      (V3.dot m ((Support.cylinderLocal m r l).2 - (Support.cylinderLocal (-m) r l).2)) ^ 2 := by
  obtain ⟨mx, my, mz⟩ := m
  rw [V3.normSq_def] at hm
  simp only at hm
  have hs2 : HasSqrt.sqrt (mx * mx + my * my) * HasSqrt.sqrt (mx * mx + my * my) = mx * mx + my * my :=
    Support.sqrt_sq2 mx my
  have hs0 : 0 ≤ HasSqrt.sqrt (mx * mx + my * my) := Support.sqrt_nonneg' _
  have e1 : Support.cylinderLocal (⟨mx, my, mz⟩ : V) r l
      = Support.cylinderLocalS ⟨mx, my, mz⟩ r l (HasSqrt.sqrt (mx * mx + my * my)) := rfl
  have e2 : Support.cylinderLocal (-(⟨mx, my, mz⟩ : V)) r l
      = Support.cylinderLocalS ⟨-mx, -my, -mz⟩ r l (HasSqrt.sqrt (mx * mx + my * my)) := by
    show Support.cylinderLocalS ⟨-mx, -my, -mz⟩ r l (HasSqrt.sqrt (-mx * -mx + -my * -my)) = _
    rw [neg_mul_neg, neg_mul_neg]
  rw [e1, e2, cylinderLocalS_val, cylinderLocalS_val]
  generalize HasSqrt.sqrt (mx * mx + my * my) = s at hs2 hs0
  obtain ⟨hD0, hD2, hdz⟩ := cyl_zdiff mz l hl
  by_cases hs : s = 0
  · subst hs
    simp only [if_true]
    have hmz : mz * mz = 1 := by nlinarith [mul_self_nonneg mx, mul_self_nonneg my]
    rw [hmz, mul_one] at hD2
    vsimp
    simp only [sub_self, mul_zero, zero_add, add_zero]
    generalize (if mz < 0 then -(l / 2) else l / 2) - (if -mz < 0 then -(l / 2) else l / 2) = dz at hD0 hD2 hdz
    rw [hD2]
    have : dz * dz ≤ l * l := by rw [← sq]; exact hdz
    nlinarith [mul_nonneg hl hl]
  · simp only [if_neg hs]
    have hspos : 0 < s := lt_of_le_of_ne hs0 (Ne.symm hs)
    have hsm : s * s + mz * mz = 1 := by rw [hs2]; linarith
    have key := cylinder_band_alg hr hl h1 h2 hs0 hsm hD0 hD2 hdz
    vsimp
    generalize (if mz < 0 then -(l / 2) else l / 2) - (if -mz < 0 then -(l / 2) else l / 2) = dz at key hD0 hD2 hdz ⊢
    have en : (mx * (r / s) - -mx * (r / s)) * (mx * (r / s) - -mx * (r / s))
        + (my * (r / s) - -my * (r / s)) * (my * (r / s) - -my * (r / s)) + dz * dz = 4 * (r * r) + dz ^ 2 := by
      have : (mx * mx + my * my) / (s * s) = 1 := by rw [← hs2]; exact div_self (ne_of_gt (mul_pos hspos hspos))
      have e : (mx * (r / s) - -mx * (r / s)) * (mx * (r / s) - -mx * (r / s))
        + (my * (r / s) - -my * (r / s)) * (my * (r / s) - -my * (r / s))
          = 4 * (r * r) * ((mx * mx + my * my) / (s * s)) := by
        field_simp; ring
      rw [e, this]; ring
    have ed : mx * (mx * (r / s) - -mx * (r / s)) + my * (my * (r / s) - -my * (r / s)) + mz * dz
        = 2 * r * s + mz * dz := by
      have e : mx * (mx * (r / s) - -mx * (r / s)) + my * (my * (r / s) - -my * (r / s))
          = 2 * r * ((mx * mx + my * my) / s) := by
        field_simp; ring
      rw [e, ← hs2, mul_div_assoc, div_self (ne_of_gt hspos), mul_one]
    rw [en, ed]
    exact key

/-- **cylinder, no band**: for an orthonormal pose, a unit normal, `0 ≤ r`, `0 ≤ l` and diameter / length within a
factor 999 of each other, the two support points of `plane_to_cylinder` satisfy `HullNoBand` for every plane -/
theorem cylinder_hullNoBand {A : Pose ℝ} (hA : Orthonormal A.R) {n : V} (hu : UnitVec n) (r l : ℝ)
    (hr : 0 ≤ r) (hl : 0 ≤ l) (h1 : l ≤ 999 * (2 * r)) (h2 : 2 * r ≤ 999 * l) (pp : V) :
    HullNoBand pp n [(Support.supportCylinder (-n) A r l).2, (Support.supportCylinder n A r l).2] := by
  have hm : V3.normSq (A.R.tmulVec n) = 1 := by
    have := hA.dot_tmulVec n n
    rw [dot_self_eq_normSq] at this
    rw [this]; exact hu
  apply hullNoBand_pair
    (support_pair_le (Support.supportCylinder_isSupport (-n) A r l hr hl)
      (Support.supportCylinder_isSupport n A r l hr hl))
  intro _ _
  have := cylinderLocal_band (A.R.tmulVec n) r l hm hr hl h1 h2
  rw [← tmulVec_neg] at this
  exact band_transformPoint hA n pp _ _ this

end DistLine
end D3
