/-
C04 — the collider sum type: point set, well-formedness, and the induction that lifts the
per-shape results to `Collider.aabb` (including nested `Margin` wrappers).
-/
import D3.Proofs.ContainmentEllipsoid
import D3.Proofs.ContainmentRigid

set_option linter.unusedSectionVars false
set_option linter.unusedVariables false

namespace D3
namespace Containment
open Aabb (Box)

/-- the point set of a collider (world frame) -/
def Collider.pts : Collider ℝ → V → Prop
  | .sphere c r => ballSet c r
  | .hull vs => hullSet vs
  | .box A size => poseImage A (boxLocal size)
  | .mesh A vs => poseImage A (hullSet vs)
  | .capsule A r h => poseImage A (capsuleLocal r h)
  | .ellipsoid A radii => poseImage A (ellipsoidLocal radii)
  | .cylinder A r l => poseImage A (cylinderLocal r l)
  | .disk c r n => diskSet c r n
  | .ellipse c a0 a1 r0 r1 => ellipseSet c a0 a1 r0 r1
  | .cone A r h => poseImage A (coneLocal r h)
  | .margin inner m => marginSet inner.pts m

/-- well-formedness the property grants: orthonormal poses, unit normals/axes, strictly
positive sizes, non-empty vertex sets, non-negative margins -/
def Collider.WF : Collider ℝ → Prop
  | .sphere _ r => 0 < r
  | .hull vs => vs ≠ []
  | .box A size => Orthonormal A.R ∧ 0 < size.x ∧ 0 < size.y ∧ 0 < size.z
  | .mesh A vs => Orthonormal A.R ∧ vs ≠ []
  | .capsule A r h => Orthonormal A.R ∧ 0 < r ∧ 0 < h
  | .ellipsoid A radii => Orthonormal A.R ∧ 0 < radii.x ∧ 0 < radii.y ∧ 0 < radii.z
  | .cylinder A r l => Orthonormal A.R ∧ 0 < r ∧ 0 < l
  | .disk _ r n => 0 < r ∧ V3.dot n n = 1
  | .ellipse _ a0 a1 r0 r1 => 0 < r0 ∧ 0 < r1 ∧ V3.dot a0 a0 = 1 ∧ V3.dot a1 a1 = 1 ∧ V3.dot a0 a1 = 0
  | .cone A r h => Orthonormal A.R ∧ 0 < r ∧ 0 < h
  | .margin inner m => inner.WF ∧ 0 ≤ m

/-- `P` holds for the data of the ellipsoid inside the collider, if there is one -/
def Collider.EllAll (P : Pose ℝ → V → Prop) : Collider ℝ → Prop
  | .ellipsoid A radii => P A radii
  | .margin inner _ => inner.EllAll P
  | _ => True

/-- lifting: whenever the ellipsoid function in use is correct on the ellipsoids that occur,
`Collider.aabb` succeeds and returns the exact per-axis range of the collider's point set -/
theorem collider_spec_of (ell : Pose ℝ → V → Except Err (Box ℝ)) (P : Pose ℝ → V → Prop)
    (hell : ∀ A radii, Orthonormal A.R → 0 < radii.x → 0 < radii.y → 0 < radii.z → P A radii →
      ∃ b, ell A radii = .ok b ∧ AabbSpec b (poseImage A (ellipsoidLocal radii))) :
    ∀ c : Collider ℝ, c.WF → c.EllAll P → ∃ b, c.aabb ell = .ok b ∧ AabbSpec b c.pts
  | .sphere c r, h, _ => ⟨_, rfl, sphereAabb_spec c r h.le⟩
  | .hull vs, h, _ => hullAabb_spec vs h
  | .box A size, h, _ => boxAabb_spec A size h.2.1.le h.2.2.1.le h.2.2.2.le
  | .mesh A vs, h, _ => meshAabb_spec A vs h.2
  | .capsule A r hh, h, _ => ⟨_, rfl, capsuleAabb_spec A h.1 h.2.1.le h.2.2.le⟩
  | .ellipsoid A radii, h, hp => hell A radii h.1 h.2.1 h.2.2.1 h.2.2.2 hp
  | .cylinder A r l, h, _ => cylinderAabb_spec A h.1 h.2.1.le h.2.2.le
  | .disk c r n, h, _ => diskAabb_spec c h.1.le n h.2
  | .ellipse c a0 a1 r0 r1, _, _ => ellipseAabb_spec c a0 a1 r0 r1
  | .cone A r hh, h, _ => ⟨_, rfl, coneAabb_spec A h.1 h.2.1.le hh⟩
  | .margin inner m, h, hp => by
    obtain ⟨b, hb, hs⟩ := collider_spec_of ell P hell inner h.1 hp
    refine ⟨inflate b m, ?_, inflate_spec h.2 hs⟩
    simp only [Collider.aabb, hb]
    rfl

/-- the code as it is never reaches an error branch (`sqrtNeg`, `divZero`, `badInput`) on a
well-formed collider — not even for rotated ellipsoids, where the returned box is wrong -/
theorem collider_asIs_total : ∀ c : Collider ℝ, c.WF → ∃ b, c.aabb ellipsoidAabb_asIs = .ok b
  | .sphere c r, _ => ⟨_, rfl⟩
  | .hull vs, h => let ⟨b, hb, _⟩ := hullAabb_spec vs h; ⟨b, hb⟩
  | .box A size, h => let ⟨b, hb, _⟩ := boxAabb_spec A size h.2.1.le h.2.2.1.le h.2.2.2.le; ⟨b, hb⟩
  | .mesh A vs, h => let ⟨b, hb, _⟩ := meshAabb_spec A vs h.2; ⟨b, hb⟩
  | .capsule A r hh, _ => ⟨_, rfl⟩
  | .ellipsoid A radii, h => ⟨_, ellipsoidAabb_asIs_eq A h.1 radii h.2.1 h.2.2.1 h.2.2.2⟩
  | .cylinder A r l, h => let ⟨b, hb, _⟩ := cylinderAabb_spec A h.1 h.2.1.le h.2.2.le; ⟨b, hb⟩
  | .disk c r n, h => let ⟨b, hb, _⟩ := diskAabb_spec c h.1.le n h.2; ⟨b, hb⟩
  | .ellipse c a0 a1 r0 r1, _ => let ⟨b, hb, _⟩ := ellipseAabb_spec c a0 a1 r0 r1; ⟨b, hb⟩
  | .cone A r hh, _ => ⟨_, rfl⟩
  | .margin inner m, h => by
    obtain ⟨b, hb⟩ := collider_asIs_total inner h.1
    exact ⟨inflate b m, by simp only [Collider.aabb, hb]; rfl⟩

end Containment
end D3
