/-
C04 — the shapes whose extents involve a square root: cylinder, capsule, disk, cone,
ellipse, (repaired) ellipsoid.  Everything reduces to Cauchy–Schwarz in the form
`⟨w, u⟩ ≤ |w|·r` for `|u| ≤ r`, with equality for a multiple of `w`.
-/
import D3.Proofs.ContainmentBasic
import Mathlib.Tactic.FieldSimp

set_option linter.unusedSectionVars false
set_option linter.unusedVariables false

namespace D3
namespace Containment
open Aabb (Box)

/-! ### Cauchy–Schwarz with a radius -/

theorem norm_le_of_normSq_le {u : V} {r : ℝ} (hr : 0 ≤ r) (h : V3.normSq u ≤ r * r) :
    V3.norm u ≤ r := by
  rw [V3.norm_def]
  calc Real.sqrt (V3.normSq u) ≤ Real.sqrt (r * r) := Real.sqrt_le_sqrt h
    _ = r := Real.sqrt_mul_self hr

theorem dot_le_norm_mul_radius (w u : V) {r : ℝ} (hr : 0 ≤ r) (h : V3.normSq u ≤ r * r) :
    V3.dot w u ≤ V3.norm w * r :=
  le_trans (V3.dot_le_norm_mul w u)
    (mul_le_mul_of_nonneg_left (norm_le_of_normSq_le hr h) (V3.norm_nonneg w))

/-- the bound is attained by a multiple of `w` -/
theorem exists_dot_eq_norm_mul (w : V) (r : ℝ) :
    ∃ u : V, V3.normSq u ≤ r * r ∧ V3.dot w u = V3.norm w * r ∧ ∃ k : ℝ, u = k * w := by
  by_cases h : V3.norm w = 0
  · refine ⟨(0 : ℝ) * w, ?_, ?_, 0, rfl⟩
    · simp only [V3.normSq_def, V3.smul_x, V3.smul_y, V3.smul_z]
      nlinarith [mul_self_nonneg r]
    · rw [h]; simp only [V3.dot_def, V3.smul_x, V3.smul_y, V3.smul_z]; ring
  · have hn := V3.norm_sq w
    rw [V3.normSq_def] at hn
    refine ⟨(r / V3.norm w) * w, ?_, ?_, _, rfl⟩
    · simp only [V3.normSq_def, V3.smul_x, V3.smul_y, V3.smul_z]
      have : r / V3.norm w * w.x * (r / V3.norm w * w.x) + r / V3.norm w * w.y * (r / V3.norm w * w.y)
          + r / V3.norm w * w.z * (r / V3.norm w * w.z)
          = (r / V3.norm w) * (r / V3.norm w) * (w.x * w.x + w.y * w.y + w.z * w.z) := by ring
      rw [this, ← hn]
      field_simp
      exact le_refl _
    · simp only [V3.dot_def, V3.smul_x, V3.smul_y, V3.smul_z]
      have : w.x * (r / V3.norm w * w.x) + w.y * (r / V3.norm w * w.y) + w.z * (r / V3.norm w * w.z)
          = (r / V3.norm w) * (w.x * w.x + w.y * w.y + w.z * w.z) := by ring
      rw [this, ← hn]
      field_simp

/-- `sqrt(1 - c²)` is the length of the other two components of a unit vector -/
theorem planar_norm_of_unit {ρ : V} (hρ : V3.dot ρ ρ = 1) :
    0 ≤ 1 - ρ.z * ρ.z ∧ V3.norm (⟨ρ.x, ρ.y, 0⟩ : V) = Real.sqrt (1 - ρ.z * ρ.z) := by
  rw [V3.dot_def] at hρ
  refine ⟨by nlinarith [mul_self_nonneg ρ.x, mul_self_nonneg ρ.y], ?_⟩
  rw [V3.norm_def, V3.normSq_def]
  congr 1
  show ρ.x * ρ.x + ρ.y * ρ.y + 0 * 0 = 1 - ρ.z * ρ.z
  linarith

theorem norm_of_unit {ρ : V} (hρ : V3.dot ρ ρ = 1) : V3.norm ρ = 1 := by
  rw [V3.norm_def]
  show Real.sqrt (V3.dot ρ ρ) = 1
  rw [hρ, Real.sqrt_one]

theorem mul_le_abs_mul {a x b : ℝ} (h1 : -b ≤ x) (h2 : x ≤ b) : a * x ≤ |a| * b := by
  rcases le_total 0 a with h | h
  · rw [abs_of_nonneg h]; nlinarith
  · rw [abs_of_nonpos h]; nlinarith

/-- image of a set under an arbitrary map -/
theorem axisBounds_image {g : V → V} {K : V → Prop} {lo hi : ℝ} {f : V → ℝ}
    (h : AxisBounds lo hi (fun q => f (g q)) K) :
    AxisBounds lo hi f (fun p => ∃ q, K q ∧ p = g q) := by
  obtain ⟨h1, ⟨p, hp, e1⟩, ⟨q, hq, e2⟩⟩ := h
  refine ⟨?_, ⟨g p, ⟨p, hp, rfl⟩, e1⟩, ⟨g q, ⟨q, hq, rfl⟩, e2⟩⟩
  rintro x ⟨y, hy, rfl⟩
  exact h1 y hy

theorem sqrtChecked_ok {x : ℝ} (h : 0 ≤ x) : sqrtChecked x = .ok (Real.sqrt x) := by
  unfold sqrtChecked
  rw [if_neg (not_lt.mpr h)]
  rfl

theorem half_real : (0.5 : ℝ) = 1 / 2 := by norm_num

/-! ### cylinder -/

theorem cylinderLocal_symm (r l : ℝ) (q : V) (h : cylinderLocal r l q) : cylinderLocal r l (-q) := by
  obtain ⟨h1, h2, h3⟩ := h
  simp only [cylinderLocal, V3.neg_x, V3.neg_y, V3.neg_z]
  exact ⟨by nlinarith, by linarith, by linarith⟩

/-- range of a unit row functional on the local cylinder -/
theorem cylinder_axis {ρ : V} (hρ : V3.dot ρ ρ = 1) {r l : ℝ} (hr : 0 ≤ r) (hl : 0 ≤ l) (τ : ℝ) :
    AxisBounds (τ - (0.5 * l * |ρ.z| + r * Real.sqrt (1 - ρ.z * ρ.z)))
      (τ + (0.5 * l * |ρ.z| + r * Real.sqrt (1 - ρ.z * ρ.z)))
      (fun q => V3.dot ρ q + τ) (cylinderLocal r l) := by
  obtain ⟨_, hpl⟩ := planar_norm_of_unit hρ
  apply axisBounds_symmetric (cylinderLocal_symm r l)
  · rintro q ⟨h1, h2, h3⟩
    have hd : V3.dot (⟨ρ.x, ρ.y, 0⟩ : V) ⟨q.x, q.y, 0⟩ ≤ V3.norm (⟨ρ.x, ρ.y, 0⟩ : V) * r :=
      dot_le_norm_mul_radius _ _ hr (by rw [V3.normSq_def]; show q.x * q.x + q.y * q.y + 0 * 0 ≤ r * r; linarith)
    rw [hpl, V3.dot_def] at hd
    have hz := mul_le_abs_mul (a := ρ.z) h2 h3
    simp only [V3.dot_def, half_real] at hd ⊢
    nlinarith
  · obtain ⟨u, hu, hd, k, hk⟩ := exists_dot_eq_norm_mul (⟨ρ.x, ρ.y, 0⟩ : V) r
    have huz : u.z = 0 := by rw [hk]; simp
    rw [hpl, V3.dot_def] at hd
    rw [V3.normSq_def, huz] at hu
    simp only at hd
    rcases le_total 0 ρ.z with hz | hz
    · refine ⟨⟨u.x, u.y, l / 2⟩, ⟨by nlinarith, by show -(l/2) ≤ l/2; linarith, le_refl _⟩, ?_⟩
      simp only [V3.dot_def, half_real, abs_of_nonneg hz]
      rw [huz] at hd
      nlinarith
    · refine ⟨⟨u.x, u.y, -(l / 2)⟩, ⟨by nlinarith, le_refl _, by show -(l/2) ≤ l/2; linarith⟩, ?_⟩
      simp only [V3.dot_def, half_real, abs_of_nonpos hz]
      rw [huz] at hd
      nlinarith

theorem cylinderExtent1_ok (r l a : ℝ) (h : 0 ≤ 1 - a * a) :
    cylinderExtent1 r l a = .ok (0.5 * l * |a| + r * Real.sqrt (1 - a * a)) := by
  unfold cylinderExtent1
  rw [sqrtChecked_ok h, absS_real]
  rfl

/-- **cylinder** (`cylinder_aabb`, `Cylinder.aabb`); the `sqrtNeg` branch is unreachable -/
theorem cylinderAabb_spec (A : Pose ℝ) (hR : Orthonormal A.R) {r l : ℝ} (hr : 0 ≤ r) (hl : 0 ≤ l) :
    ∃ b, cylinderAabb A r l = .ok b ∧ AabbSpec b (poseImage A (cylinderLocal r l)) := by
  have p0 := (planar_norm_of_unit hR.r00).1
  have p1 := (planar_norm_of_unit hR.r11).1
  have p2 := (planar_norm_of_unit hR.r22).1
  refine ⟨_, by
    simp only [cylinderAabb, M3.col2, cylinderExtent1_ok r l _ p0, cylinderExtent1_ok r l _ p1,
      cylinderExtent1_ok r l _ p2]
    rfl, ?_⟩
  apply aabbSpec_of_axes
  · exact axisBounds_poseImage (cylinder_axis hR.r00 hr hl A.t.x)
  · exact axisBounds_poseImage (cylinder_axis hR.r11 hr hl A.t.y)
  · exact axisBounds_poseImage (cylinder_axis hR.r22 hr hl A.t.z)

/-! ### capsule -/

theorem capsuleLocal_symm (r h : ℝ) (q : V) (hq : capsuleLocal r h q) : capsuleLocal r h (-q) := by
  obtain ⟨s, h1, h2, h3⟩ := hq
  refine ⟨-s, by linarith, by linarith, ?_⟩
  simp only [V3.neg_x, V3.neg_y, V3.neg_z]
  nlinarith

theorem capsule_axis {ρ : V} (hρ : V3.dot ρ ρ = 1) {r h : ℝ} (hr : 0 ≤ r) (hh : 0 ≤ h) (τ : ℝ) :
    AxisBounds (τ - (0.5 * h * |ρ.z| + r)) (τ + (0.5 * h * |ρ.z| + r))
      (fun q => V3.dot ρ q + τ) (capsuleLocal r h) := by
  have hn := norm_of_unit hρ
  apply axisBounds_symmetric (capsuleLocal_symm r h)
  · rintro q ⟨s, h1, h2, h3⟩
    have hd : V3.dot ρ (⟨q.x, q.y, q.z - s⟩ : V) ≤ V3.norm ρ * r :=
      dot_le_norm_mul_radius _ _ hr (by rw [V3.normSq_def]; exact h3)
    rw [hn, V3.dot_def] at hd
    have hz := mul_le_abs_mul (a := ρ.z) h1 h2
    simp only [V3.dot_def, half_real] at hd ⊢
    nlinarith
  · obtain ⟨u, hu, hd, _⟩ := exists_dot_eq_norm_mul ρ r
    rw [hn, V3.dot_def] at hd
    rw [V3.normSq_def] at hu
    rcases le_total 0 ρ.z with hz | hz
    · refine ⟨⟨u.x, u.y, u.z + h / 2⟩, ⟨h / 2, by linarith, le_refl _, ?_⟩, ?_⟩
      · show u.x * u.x + u.y * u.y + (u.z + h / 2 - h / 2) * (u.z + h / 2 - h / 2) ≤ r * r
        nlinarith
      · simp only [V3.dot_def, half_real, abs_of_nonneg hz]
        nlinarith
    · refine ⟨⟨u.x, u.y, u.z - h / 2⟩, ⟨-(h / 2), le_refl _, by linarith, ?_⟩, ?_⟩
      · show u.x * u.x + u.y * u.y + (u.z - h / 2 - -(h / 2)) * (u.z - h / 2 - -(h / 2)) ≤ r * r
        nlinarith
      · simp only [V3.dot_def, half_real, abs_of_nonpos hz]
        nlinarith

/-- **capsule** (`capsule_aabb`, `Capsule.aabb`) -/
theorem capsuleAabb_spec (A : Pose ℝ) (hR : Orthonormal A.R) {r h : ℝ} (hr : 0 ≤ r) (hh : 0 ≤ h) :
    AabbSpec (capsuleAabb A r h) (poseImage A (capsuleLocal r h)) := by
  apply aabbSpec_of_axes
  · have := axisBounds_poseImage (A := A) (f := (·.x)) (capsule_axis hR.r00 hr hh A.t.x)
    simp only [capsuleAabb, capsuleExtent1, absS_real]
    exact this
  · have := axisBounds_poseImage (A := A) (f := (·.y)) (capsule_axis hR.r11 hr hh A.t.y)
    simp only [capsuleAabb, capsuleExtent1, absS_real]
    exact this
  · have := axisBounds_poseImage (A := A) (f := (·.z)) (capsule_axis hR.r22 hr hh A.t.z)
    simp only [capsuleAabb, capsuleExtent1, absS_real]
    exact this

/-! ### generic: ball and planar disk in a parameter space -/

/-- range of `u ↦ ⟨w, u⟩ + τ` on the ball of radius `r` -/
theorem ball_axis (w : V) {r : ℝ} (hr : 0 ≤ r) (τ : ℝ) :
    AxisBounds (τ - V3.norm w * r) (τ + V3.norm w * r) (fun u => V3.dot w u + τ)
      (fun u => V3.normSq u ≤ r * r) := by
  apply axisBounds_symmetric
  · intro q hq
    simpa only [V3.normSq_def, V3.neg_x, V3.neg_y, V3.neg_z, neg_mul_neg] using hq
  · intro q hq; exact dot_le_norm_mul_radius w q hr hq
  · obtain ⟨u, hu, hd, _⟩ := exists_dot_eq_norm_mul w r
    exact ⟨u, hu, hd⟩

/-! ### disk -/

/-- the disk translated to the origin -/
def diskDirs (r : ℝ) (n : V) : V → Prop := fun d => V3.dot d n = 0 ∧ V3.normSq d ≤ r * r

/-- range of a unit functional `e` on the centred disk with unit normal `n`, where `a = ⟨e, n⟩` -/
theorem disk_axis {e n : V} (he : V3.dot e e = 1) (hn : V3.dot n n = 1) {a : ℝ}
    (ha : V3.dot e n = a) {r : ℝ} (hr : 0 ≤ r) (τ : ℝ) :
    0 ≤ 1 - a * a ∧
    AxisBounds (τ - r * Real.sqrt (1 - a * a)) (τ + r * Real.sqrt (1 - a * a))
      (fun d => V3.dot e d + τ) (diskDirs r n) := by
  -- `u = e - a n` is the component of `e` in the disk plane
  have hu2 : V3.normSq (e - a * n) = 1 - a * a := by
    simp only [V3.normSq_def, V3.dot_def, V3.sub_x, V3.sub_y, V3.sub_z, V3.smul_x, V3.smul_y,
      V3.smul_z] at he hn ha ⊢
    linear_combination he + (a * a) * hn - (2 * a) * ha
  have h0 : 0 ≤ 1 - a * a := by rw [← hu2]; exact V3.normSq_nonneg _
  have hun : V3.norm (e - a * n) = Real.sqrt (1 - a * a) := by rw [V3.norm_def, hu2]
  have hperp : V3.dot (e - a * n) n = 0 := by
    simp only [V3.dot_def, V3.sub_x, V3.sub_y, V3.sub_z, V3.smul_x, V3.smul_y, V3.smul_z] at hn ha ⊢
    linear_combination ha - a * hn
  refine ⟨h0, ?_⟩
  apply axisBounds_symmetric
  · rintro d ⟨h1, h2⟩
    refine ⟨?_, ?_⟩
    · simp only [V3.dot_def, V3.neg_x, V3.neg_y, V3.neg_z] at h1 ⊢; linarith
    · simpa only [V3.normSq_def, V3.neg_x, V3.neg_y, V3.neg_z, neg_mul_neg] using h2
  · rintro d ⟨h1, h2⟩
    have hd := dot_le_norm_mul_radius (e - a * n) d hr h2
    rw [hun] at hd
    simp only [V3.dot_def, V3.sub_x, V3.sub_y, V3.sub_z, V3.smul_x, V3.smul_y, V3.smul_z] at hd h1 ⊢
    have key : e.x * d.x + e.y * d.y + e.z * d.z
        = (e.x - a * n.x) * d.x + (e.y - a * n.y) * d.y + (e.z - a * n.z) * d.z := by
      linear_combination a * h1
    linarith
  · obtain ⟨u, hu, hd, k, hk⟩ := exists_dot_eq_norm_mul (e - a * n) r
    rw [hun] at hd
    refine ⟨u, ⟨?_, hu⟩, ?_⟩
    · rw [hk]
      simp only [V3.dot_def, V3.sub_x, V3.sub_y, V3.sub_z, V3.smul_x, V3.smul_y, V3.smul_z] at hperp ⊢
      linear_combination k * hperp
    · -- ⟨e, u⟩ = ⟨e - a n, u⟩ because u ⟂ n
      have hun0 : V3.dot u n = 0 := by
        rw [hk]
        simp only [V3.dot_def, V3.sub_x, V3.sub_y, V3.sub_z, V3.smul_x, V3.smul_y, V3.smul_z] at hperp ⊢
        linear_combination k * hperp
      simp only [V3.dot_def, V3.sub_x, V3.sub_y, V3.sub_z, V3.smul_x, V3.smul_y, V3.smul_z] at hd hun0 ⊢
      linear_combination hd + a * hun0

theorem diskSet_iff (c : V) (r : ℝ) (n : V) (p : V) :
    diskSet c r n p ↔ ∃ d, diskDirs r n d ∧ p = d + c := by
  constructor
  · intro h
    exact ⟨p - c, h, by apply V3.ext' <;> simp⟩
  · rintro ⟨d, hd, rfl⟩
    have : d + c - c = d := by apply V3.ext' <;> simp
    unfold diskSet
    rw [this]
    exact hd

theorem diskExtent1_ok (r a : ℝ) (h : 0 ≤ 1 - a * a) :
    diskExtent1 r a = .ok (r * Real.sqrt (1 - a * a)) := by
  unfold diskExtent1
  rw [sqrtChecked_ok h]
  rfl

/-- **disk** (`disk_aabb`, `Disk.aabb`) for a unit normal; the `sqrtNeg` branch is unreachable -/
theorem diskAabb_spec (c : V) {r : ℝ} (hr : 0 ≤ r) (n : V) (hn : V3.dot n n = 1) :
    ∃ b, diskAabb c r n = .ok b ∧ AabbSpec b (diskSet c r n) := by
  have ex : V3.dot (⟨1, 0, 0⟩ : V) n = n.x := by simp [V3.dot_def]
  have ey : V3.dot (⟨0, 1, 0⟩ : V) n = n.y := by simp [V3.dot_def]
  have ez : V3.dot (⟨0, 0, 1⟩ : V) n = n.z := by simp [V3.dot_def]
  obtain ⟨p0, b0⟩ := disk_axis (e := ⟨1, 0, 0⟩) (by simp [V3.dot_def]) hn ex hr c.x
  obtain ⟨p1, b1⟩ := disk_axis (e := ⟨0, 1, 0⟩) (by simp [V3.dot_def]) hn ey hr c.y
  obtain ⟨p2, b2⟩ := disk_axis (e := ⟨0, 0, 1⟩) (by simp [V3.dot_def]) hn ez hr c.z
  refine ⟨_, by
    simp only [diskAabb, diskExtent1_ok r _ p0, diskExtent1_ok r _ p1, diskExtent1_ok r _ p2]
    rfl, ?_⟩
  have tr : ∀ {lo hi : ℝ} {f : V → ℝ}, AxisBounds lo hi (fun d => f (d + c)) (diskDirs r n) →
      AxisBounds lo hi f (diskSet c r n) := by
    intro lo hi f h
    exact AxisBounds.congr (fun p => (diskSet_iff c r n p).symm) (axisBounds_image (g := fun d => d + c) h)
  apply aabbSpec_of_axes
  · apply tr
    have : (fun d : V => (d + c).x) = fun d => V3.dot (⟨1, 0, 0⟩ : V) d + c.x := by
      funext d; simp [V3.dot_def]
    rw [this]; exact b0
  · apply tr
    have : (fun d : V => (d + c).y) = fun d => V3.dot (⟨0, 1, 0⟩ : V) d + c.y := by
      funext d; simp [V3.dot_def]
    rw [this]; exact b1
  · apply tr
    have : (fun d : V => (d + c).z) = fun d => V3.dot (⟨0, 0, 1⟩ : V) d + c.z := by
      funext d; simp [V3.dot_def]
    rw [this]; exact b2

/-! ### cone -/

theorem coneE1_eq {a : ℝ} (h : 0 ≤ 1 - a * a) : coneE1 a = Real.sqrt (1 - a * a) := by
  unfold coneE1
  rw [max_eq_right h]
  rfl

/-- range of a unit row functional on the local cone: the larger (smaller) of the base-disk
extreme and the apex value -/
theorem cone_axis {ρ : V} (hρ : V3.dot ρ ρ = 1) {r : ℝ} (hr : 0 ≤ r) (h τ : ℝ) :
    AxisBounds (min (τ - Real.sqrt (1 - ρ.z * ρ.z) * r) (τ + h * ρ.z))
      (max (τ + Real.sqrt (1 - ρ.z * ρ.z) * r) (τ + h * ρ.z))
      (fun q => V3.dot ρ q + τ) (coneLocal r h) := by
  obtain ⟨_, hpl⟩ := planar_norm_of_unit hρ
  set e := Real.sqrt (1 - ρ.z * ρ.z) with he
  have base : ∀ x y : ℝ, x * x + y * y ≤ r * r → -(e * r) ≤ ρ.x * x + ρ.y * y ∧ ρ.x * x + ρ.y * y ≤ e * r := by
    intro x y hxy
    have h1 : V3.dot (⟨ρ.x, ρ.y, 0⟩ : V) ⟨x, y, 0⟩ ≤ V3.norm (⟨ρ.x, ρ.y, 0⟩ : V) * r :=
      dot_le_norm_mul_radius _ _ hr (by rw [V3.normSq_def]; show x * x + y * y + 0 * 0 ≤ r * r; linarith)
    have h2 : V3.dot (⟨ρ.x, ρ.y, 0⟩ : V) ⟨-x, -y, 0⟩ ≤ V3.norm (⟨ρ.x, ρ.y, 0⟩ : V) * r :=
      dot_le_norm_mul_radius _ _ hr (by rw [V3.normSq_def]; show -x * -x + -y * -y + 0 * 0 ≤ r * r; nlinarith)
    rw [hpl, V3.dot_def] at h1 h2
    simp only at h1 h2
    constructor <;> nlinarith
  obtain ⟨u, hu, hd, k, hk⟩ := exists_dot_eq_norm_mul (⟨ρ.x, ρ.y, 0⟩ : V) r
  have huz : u.z = 0 := by rw [hk]; simp
  rw [hpl, V3.dot_def] at hd
  rw [V3.normSq_def, huz] at hu
  simp only at hd
  rw [huz] at hd
  have hu' : u.x * u.x + u.y * u.y ≤ r * r := by linarith
  have hu'' : -u.x * -u.x + -u.y * -u.y ≤ r * r := by nlinarith
  refine ⟨?_, ?_, ?_⟩
  · rintro q ⟨s, x, y, hs0, hs1, hxy, rfl⟩
    obtain ⟨b1, b2⟩ := base x y hxy
    have h1s : 0 ≤ 1 - s := by linarith
    have hmin1 := min_le_left (τ - e * r) (τ + h * ρ.z)
    have hmin2 := min_le_right (τ - e * r) (τ + h * ρ.z)
    have hmax1 := le_max_left (τ + e * r) (τ + h * ρ.z)
    have hmax2 := le_max_right (τ + e * r) (τ + h * ρ.z)
    simp only [V3.dot_def]
    constructor
    · nlinarith [mul_le_mul_of_nonneg_left b1 h1s, mul_le_mul_of_nonneg_left hmin1 h1s,
        mul_le_mul_of_nonneg_left hmin2 hs0]
    · nlinarith [mul_le_mul_of_nonneg_left b2 h1s, mul_le_mul_of_nonneg_left hmax1 h1s,
        mul_le_mul_of_nonneg_left hmax2 hs0]
  · rcases min_choice (τ - e * r) (τ + h * ρ.z) with hm | hm
    · refine ⟨⟨(1 - 0) * -u.x, (1 - 0) * -u.y, 0 * h⟩, ⟨0, -u.x, -u.y, le_refl _, by norm_num, hu'', rfl⟩, ?_⟩
      rw [hm]; simp only [V3.dot_def]; nlinarith
    · refine ⟨⟨(1 - 1) * 0, (1 - 1) * 0, 1 * h⟩, ⟨1, 0, 0, by norm_num, le_refl _, by nlinarith, rfl⟩, ?_⟩
      rw [hm]; simp only [V3.dot_def]; ring
  · rcases max_choice (τ + e * r) (τ + h * ρ.z) with hm | hm
    · refine ⟨⟨(1 - 0) * u.x, (1 - 0) * u.y, 0 * h⟩, ⟨0, u.x, u.y, le_refl _, by norm_num, hu', rfl⟩, ?_⟩
      rw [hm]; simp only [V3.dot_def]; nlinarith
    · refine ⟨⟨(1 - 1) * 0, (1 - 1) * 0, 1 * h⟩, ⟨1, 0, 0, by norm_num, le_refl _, by nlinarith, rfl⟩, ?_⟩
      rw [hm]; simp only [V3.dot_def]; ring

/-- **cone** (`cone_aabb`, `Cone.aabb`); the clamp `max(0, ·)` is inactive -/
theorem coneAabb_spec (A : Pose ℝ) (hR : Orthonormal A.R) {r : ℝ} (hr : 0 ≤ r) (h : ℝ) :
    AabbSpec (coneAabb A r h) (poseImage A (coneLocal r h)) := by
  have p0 := (planar_norm_of_unit hR.r00).1
  have p1 := (planar_norm_of_unit hR.r11).1
  have p2 := (planar_norm_of_unit hR.r22).1
  apply aabbSpec_of_axes
  · have := axisBounds_poseImage (A := A) (f := (·.x)) (cone_axis hR.r00 hr h A.t.x)
    simp only [coneAabb, M3.col2, coneE1_eq p0, coneE1_eq p1, coneE1_eq p2]
    exact this
  · have := axisBounds_poseImage (A := A) (f := (·.y)) (cone_axis hR.r11 hr h A.t.y)
    simp only [coneAabb, M3.col2, coneE1_eq p0, coneE1_eq p1, coneE1_eq p2]
    exact this
  · have := axisBounds_poseImage (A := A) (f := (·.z)) (cone_axis hR.r22 hr h A.t.z)
    simp only [coneAabb, M3.col2, coneE1_eq p0, coneE1_eq p1, coneE1_eq p2]
    exact this

theorem divChecked_ok {a b : ℝ} (h : b ≠ 0) : divChecked a b = .ok (a / b) := by
  unfold divChecked
  rw [if_neg h]

/-- before the repair: same result at exact real arithmetic (orthonormal pose, `height ≠ 0`);
the NaN defect was a rounding defect -/
theorem coneAabb_asIs_before_fix_eq (A : Pose ℝ) (hR : Orthonormal A.R) (r : ℝ) {h : ℝ} (hh : h ≠ 0) :
    coneAabb_asIs_before_fix A r h = .ok (coneAabb A r h) := by
  have p0 := (planar_norm_of_unit hR.r00).1
  have p1 := (planar_norm_of_unit hR.r11).1
  have p2 := (planar_norm_of_unit hR.r22).1
  have hh2 : h * h ≠ 0 := mul_ne_zero hh hh
  have q : ∀ (t c : ℝ), (t + h * c - t) * (t + h * c - t) / (h * h) = c * c := by
    intro t c; field_simp; ring
  simp only [coneAabb_asIs_before_fix, coneAabb, M3.col2, V3.sub_x, V3.sub_y, V3.sub_z, V3.add_x, V3.add_y,
    V3.add_z, V3.smul_x, V3.smul_y, V3.smul_z, divChecked_ok hh2, bind, Except.bind, q,
    sqrtChecked_ok p0, sqrtChecked_ok p1, sqrtChecked_ok p2, coneE1_eq p0, coneE1_eq p1, coneE1_eq p2,
    pure, Except.pure]

/-! ### ellipse -/

theorem ellipseExtent1_ok (r0 r1 a0 a1 : ℝ) :
    ellipseExtent1 r0 r1 a0 a1 = .ok (V3.norm (⟨r0 * a0, r1 * a1, 0⟩ : V)) := by
  unfold ellipseExtent1
  rw [sqrtChecked_ok (by nlinarith [mul_self_nonneg (r0 * a0), mul_self_nonneg (r1 * a1)])]
  congr 1
  rw [V3.norm_def, V3.normSq_def]
  congr 1
  show r0 * a0 * (r0 * a0) + r1 * a1 * (r1 * a1) = r0 * a0 * (r0 * a0) + r1 * a1 * (r1 * a1) + 0 * 0
  ring

theorem ellipseSet_iff (c a0 a1 : V) (r0 r1 : ℝ) (p : V) :
    ellipseSet c a0 a1 r0 r1 p ↔
      ∃ w : V, (V3.normSq w ≤ 1 * 1 ∧ w.z = 0) ∧ p = c + (w.x * r0) * a0 + (w.y * r1) * a1 := by
  constructor
  · rintro ⟨u, v, h, rfl⟩
    exact ⟨⟨u, v, 0⟩, ⟨by rw [V3.normSq_def]; show u * u + v * v + 0 * 0 ≤ 1 * 1; linarith, rfl⟩, rfl⟩
  · rintro ⟨w, ⟨h, hz⟩, rfl⟩
    refine ⟨w.x, w.y, ?_, rfl⟩
    rw [V3.normSq_def, hz] at h
    linarith

/-- range of `w ↦ a w.x + b w.y + τ` on the unit disk of the parameter plane -/
theorem unitDisk_axis (a b τ : ℝ) :
    AxisBounds (τ - V3.norm (⟨a, b, 0⟩ : V)) (τ + V3.norm (⟨a, b, 0⟩ : V))
      (fun w => a * w.x + b * w.y + τ) (fun w : V => V3.normSq w ≤ 1 * 1 ∧ w.z = 0) := by
  have := axisBounds_symmetric (K := fun w : V => V3.normSq w ≤ 1 * 1 ∧ w.z = 0)
    (ρ := (⟨a, b, 0⟩ : V)) (τ := τ) (e := V3.norm (⟨a, b, 0⟩ : V))
    (by
      rintro q ⟨h1, h2⟩
      refine ⟨?_, by simp [h2]⟩
      simpa only [V3.normSq_def, V3.neg_x, V3.neg_y, V3.neg_z, neg_mul_neg] using h1)
    (by
      rintro q ⟨h1, _⟩
      have := dot_le_norm_mul_radius (⟨a, b, 0⟩ : V) q zero_le_one h1
      linarith)
    (by
      obtain ⟨u, hu, hd, k, hk⟩ := exists_dot_eq_norm_mul (⟨a, b, 0⟩ : V) 1
      exact ⟨u, ⟨hu, by rw [hk]; simp⟩, by rw [hd]; ring⟩)
  have hf : (fun w : V => V3.dot (⟨a, b, 0⟩ : V) w + τ) = fun w => a * w.x + b * w.y + τ := by
    funext w; simp [V3.dot_def]
  rw [hf] at this
  exact this

/-- **ellipse** (`ellipse_aabb`, `Ellipse.aabb`) : for arbitrary axes and radii -/
theorem ellipseAabb_spec (c a0 a1 : V) (r0 r1 : ℝ) :
    ∃ b, ellipseAabb c a0 a1 r0 r1 = .ok b ∧ AabbSpec b (ellipseSet c a0 a1 r0 r1) := by
  refine ⟨_, by simp only [ellipseAabb, ellipseExtent1_ok]; rfl, ?_⟩
  have tr : ∀ {lo hi : ℝ} {f : V → ℝ},
      AxisBounds lo hi (fun w => f (c + (w.x * r0) * a0 + (w.y * r1) * a1))
        (fun w : V => V3.normSq w ≤ 1 * 1 ∧ w.z = 0) →
      AxisBounds lo hi f (ellipseSet c a0 a1 r0 r1) := by
    intro lo hi f h
    exact AxisBounds.congr (fun p => (ellipseSet_iff c a0 a1 r0 r1 p).symm)
      (axisBounds_image (g := fun w => c + (w.x * r0) * a0 + (w.y * r1) * a1) h)
  apply aabbSpec_of_axes
  · apply tr
    have := unitDisk_axis (r0 * a0.x) (r1 * a1.x) c.x
    have hf : (fun w : V => (c + (w.x * r0) * a0 + (w.y * r1) * a1).x)
        = fun w => r0 * a0.x * w.x + r1 * a1.x * w.y + c.x := by
      funext w; simp only [V3.add_x, V3.smul_x]; ring
    rw [hf]; exact this
  · apply tr
    have := unitDisk_axis (r0 * a0.y) (r1 * a1.y) c.y
    have hf : (fun w : V => (c + (w.x * r0) * a0 + (w.y * r1) * a1).y)
        = fun w => r0 * a0.y * w.x + r1 * a1.y * w.y + c.y := by
      funext w; simp only [V3.add_y, V3.smul_y]; ring
    rw [hf]; exact this
  · apply tr
    have := unitDisk_axis (r0 * a0.z) (r1 * a1.z) c.z
    have hf : (fun w : V => (c + (w.x * r0) * a0 + (w.y * r1) * a1).z)
        = fun w => r0 * a0.z * w.x + r1 * a1.z * w.y + c.z := by
      funext w; simp only [V3.add_z, V3.smul_z]; ring
    rw [hf]; exact this

end Containment
end D3
