/-
Vector level of `_line_to_line_segment` and `_line_segment_to_line_segment` at `α := ℝ`:
never a division by zero (for `epsilon > 0`), membership, distance consistency, global optimality.
-/
import D3.Proofs.DistLineSeg

namespace D3
namespace DistLine

/-- equality case of Cauchy–Schwarz: if `|u|²|v|² = (u·v)²` then `(u·r)|v|² = (u·v)(v·r)` for every `r` -/
theorem cs_eq (u v r : V) (h : V3.dot u u * V3.dot v v - V3.dot u v * V3.dot u v = 0) :
    V3.dot u r * V3.dot v v = V3.dot u v * V3.dot v r := by
  have hw : V3.normSq ((V3.dot v v) * u - (V3.dot u v) * v) = 0 := by
    have : V3.normSq ((V3.dot v v) * u - (V3.dot u v) * v)
        = V3.dot v v * (V3.dot u u * V3.dot v v - V3.dot u v * V3.dot u v) := by vsimp; ring
    rw [this, h]; ring
  have hz := V3.normSq_eq_zero hw
  have hx := congrArg V3.x hz
  have hy := congrArg V3.y hz
  have hzz := congrArg V3.z hz
  simp only [V3.sub_x, V3.sub_y, V3.sub_z, V3.smul_x, V3.smul_y, V3.smul_z] at hx hy hzz
  have : V3.dot u r * V3.dot v v - V3.dot u v * V3.dot v r
      = ((V3.dot v v) * u.x - (V3.dot u v) * v.x) * r.x + ((V3.dot v v) * u.y - (V3.dot u v) * v.y) * r.y
        + ((V3.dot v v) * u.z - (V3.dot u v) * v.z) * r.z := by
    rw [V3.dot_def u r, V3.dot_def v r]; ring
  rw [hx, hy, hzz] at this
  linarith

theorem cs_le (u v : V) : V3.dot u v * V3.dot u v ≤ V3.dot u u * V3.dot v v := V3.dot_sq_le u v

/-! ### `_line_to_line_segment` -/

/-- characterisation of an `.ok` result outside the both-degenerate branch -/
theorem lineToSegmentK_char {lp ld s0 s1 : V} {eps : ℝ} {r : Res ℝ}
    (h : lineToSegmentK lp ld s0 s1 eps = .ok r)
    (hnd : ¬(V3.dot (s1 - s0) (s1 - s0) < eps ∧ V3.dot ld ld < eps)) :
    ∃ s t br, lsParams (V3.dot (s1 - s0) (s1 - s0)) (V3.dot (s1 - s0) ld) (V3.dot (s1 - s0) (s0 - lp))
        (V3.dot ld ld) (V3.dot ld (s0 - lp)) eps = .ok (s, t, br) ∧
      r.p1 = lp + t * ld ∧ r.p2 = s0 + s * (s1 - s0) ∧ r.d = V3.norm (r.p2 - r.p1) ∧
      r.t1 = t ∧ r.t2 = s ∧ r.br = br := by
  unfold lineToSegmentK at h
  simp only [bind, Except.bind, pure, Except.pure] at h
  rw [if_neg hnd] at h
  split at h
  · cases h
  · rename_i v hv
    obtain ⟨s, t, br⟩ := v
    injection h with h
    subst h
    exact ⟨s, t, br, hv, rfl, rfl, rfl, rfl, rfl, rfl⟩

theorem lineToSegmentK_ok (lp ld s0 s1 : V) {eps : ℝ} (he : 0 < eps) :
    ∃ r, lineToSegmentK lp ld s0 s1 eps = .ok r := by
  unfold lineToSegmentK
  simp only [bind, Except.bind, pure, Except.pure]
  split
  · exact ⟨_, rfl⟩
  · rename_i hnd
    obtain ⟨⟨s, t, br⟩, hr⟩ := lsParams_ok (V3.dot (s1 - s0) (s1 - s0)) (V3.dot (s1 - s0) ld)
      (V3.dot (s1 - s0) (s0 - lp)) (V3.dot ld ld) (V3.dot ld (s0 - lp)) he hnd
    rw [hr]
    exact ⟨_, rfl⟩

theorem lineToSegmentK_mem₁ {lp ld s0 s1 : V} {eps : ℝ} {r : Res ℝ}
    (h : lineToSegmentK lp ld s0 s1 eps = .ok r)
    (hnd : ¬(V3.dot (s1 - s0) (s1 - s0) < eps ∧ V3.dot ld ld < eps)) : lineSet lp ld r.p1 := by
  obtain ⟨s, t, br, _, hp1, _⟩ := lineToSegmentK_char h hnd
  exact ⟨t, hp1⟩

theorem lineToSegmentK_mem₂ {lp ld s0 s1 : V} {eps : ℝ} {r : Res ℝ}
    (h : lineToSegmentK lp ld s0 s1 eps = .ok r)
    (hnd : ¬(V3.dot (s1 - s0) (s1 - s0) < eps ∧ V3.dot ld ld < eps)) : segmentSet s0 s1 r.p2 := by
  obtain ⟨s, t, br, hpar, _, hp2, _⟩ := lineToSegmentK_char h hnd
  obtain ⟨h0, h1⟩ := lsParams_mem hpar
  exact ⟨s, h0, h1, hp2⟩

theorem lineToSegmentK_dist {lp ld s0 s1 : V} {eps : ℝ} {r : Res ℝ}
    (h : lineToSegmentK lp ld s0 s1 eps = .ok r)
    (hnd : ¬(V3.dot (s1 - s0) (s1 - s0) < eps ∧ V3.dot ld ld < eps)) :
    r.d * r.d = V3.normSq (r.p1 - r.p2) ∧ 0 ≤ r.d := by
  obtain ⟨s, t, br, _, _, _, hd, _⟩ := lineToSegmentK_char h hnd
  rw [hd, normSq_sub_comm]; exact norm_dist _

theorem lineToSegmentK_opt {lp ld s0 s1 : V} {eps : ℝ} {r : Res ℝ}
    (h : lineToSegmentK lp ld s0 s1 eps = .ok r) (heps : 0 < eps)
    (ha : eps ≤ V3.dot (s1 - s0) (s1 - s0)) (he : eps < V3.dot ld ld) :
    LowerBound (lineSet lp ld) (segmentSet s0 s1) r.d := by
  have hnd : ¬(V3.dot (s1 - s0) (s1 - s0) < eps ∧ V3.dot ld ld < eps) := fun hh => by linarith [hh.1]
  obtain ⟨s, t, br, hpar, hp1, hp2, _, _⟩ := lineToSegmentK_char h hnd
  obtain ⟨hte, hk⟩ := lsParams_kkt hpar heps ha he (cs_le _ _)
    (fun h0 => cs_eq (s1 - s0) ld (s0 - lp) h0)
  apply lowerBound_of_variational (lineToSegmentK_dist h hnd).1
  · rintro x ⟨t', rfl⟩
    have e : V3.dot (r.p1 - r.p2) (lp + t' * ld - r.p1)
        = (t' - t) * (t * V3.dot ld ld - (V3.dot (s1 - s0) ld * s + V3.dot ld (s0 - lp))) := by
      rw [hp1, hp2]; vsimp; ring
    rw [e, hte]; simp
  · rintro y ⟨s', h0, h1, rfl⟩
    have k := hk.kkt01 s' h0 h1
    have e : V3.dot (r.p1 - r.p2) (s0 + s' * (s1 - s0) - r.p2)
        = -((V3.dot (s1 - s0) (s0 - lp) + s * V3.dot (s1 - s0) (s1 - s0) - t * V3.dot (s1 - s0) ld)
            * (s' - s)) := by
      rw [hp1, hp2]; vsimp; ring
    rw [e]; linarith

/-! ### `_line_segment_to_line_segment` -/

theorem segToSegK_char {a0 a1 b0 b1 : V} {eps : ℝ} {r : Res ℝ}
    (h : segToSegK a0 a1 b0 b1 eps = .ok r) :
    (V3.dot (a1 - a0) (a1 - a0) < eps ∧ V3.dot (b1 - b0) (b1 - b0) < eps ∧
      r.p1 = a0 ∧ r.p2 = b0 ∧ r.d = V3.norm (r.p2 - r.p1) ∧ r.br = 0) ∨
    (¬(V3.dot (a1 - a0) (a1 - a0) < eps ∧ V3.dot (b1 - b0) (b1 - b0) < eps) ∧
     ∃ s t br, ssParams (V3.dot (a1 - a0) (a1 - a0)) (V3.dot (a1 - a0) (b1 - b0)) (V3.dot (a1 - a0) (a0 - b0))
        (V3.dot (b1 - b0) (b1 - b0)) (V3.dot (b1 - b0) (a0 - b0)) eps = .ok (s, t, br) ∧
      r.p1 = a0 + s * (a1 - a0) ∧ r.p2 = b0 + t * (b1 - b0) ∧ r.d = V3.norm (r.p2 - r.p1) ∧
      r.t1 = s ∧ r.t2 = t ∧ r.br = br) := by
  unfold segToSegK at h
  simp only [bind, Except.bind, pure, Except.pure] at h
  split at h
  · rename_i hd
    left
    injection h with h
    subst h
    exact ⟨hd.1, hd.2, rfl, rfl, rfl, rfl⟩
  · rename_i hnd
    right
    refine ⟨hnd, ?_⟩
    split at h
    · cases h
    · rename_i v hv
      obtain ⟨s, t, br⟩ := v
      injection h with h
      subst h
      exact ⟨s, t, br, hv, rfl, rfl, rfl, rfl, rfl, rfl⟩

/-- no division by zero for **any** pair of segments (degenerate ones included) when `epsilon > 0` -/
theorem segToSegK_ok (a0 a1 b0 b1 : V) {eps : ℝ} (he : 0 < eps) :
    ∃ r, segToSegK a0 a1 b0 b1 eps = .ok r := by
  unfold segToSegK
  simp only [bind, Except.bind, pure, Except.pure]
  split
  · exact ⟨_, rfl⟩
  · rename_i hnd
    obtain ⟨⟨s, t, br⟩, hr⟩ := ssParams_ok (V3.dot (a1 - a0) (a1 - a0)) (V3.dot (a1 - a0) (b1 - b0))
      (V3.dot (a1 - a0) (a0 - b0)) (V3.dot (b1 - b0) (b1 - b0)) (V3.dot (b1 - b0) (a0 - b0)) he hnd
    rw [hr]
    exact ⟨_, rfl⟩

theorem segToSegK_mem {a0 a1 b0 b1 : V} {eps : ℝ} {r : Res ℝ}
    (h : segToSegK a0 a1 b0 b1 eps = .ok r) (heps : 0 < eps) :
    segmentSet a0 a1 r.p1 ∧ segmentSet b0 b1 r.p2 := by
  rcases segToSegK_char h with ⟨_, _, hp1, hp2, _⟩ | ⟨_, s, t, br, hpar, hp1, hp2, _⟩
  · constructor
    · exact ⟨0, le_refl _, zero_le_one, by rw [hp1]; apply V3.ext' <;> simp⟩
    · exact ⟨0, le_refl _, zero_le_one, by rw [hp2]; apply V3.ext' <;> simp⟩
  · obtain ⟨⟨hs0, hs1⟩, ⟨ht0, ht1⟩⟩ := ssParams_mem hpar heps
    exact ⟨⟨s, hs0, hs1, hp1⟩, ⟨t, ht0, ht1, hp2⟩⟩

theorem segToSegK_dist {a0 a1 b0 b1 : V} {eps : ℝ} {r : Res ℝ}
    (h : segToSegK a0 a1 b0 b1 eps = .ok r) :
    r.d * r.d = V3.normSq (r.p1 - r.p2) ∧ 0 ≤ r.d := by
  rcases segToSegK_char h with ⟨_, _, _, _, hd, _⟩ | ⟨_, s, t, br, _, _, _, hd, _⟩ <;>
  · rw [hd, normSq_sub_comm]; exact norm_dist _

theorem segToSegK_opt {a0 a1 b0 b1 : V} {eps : ℝ} {r : Res ℝ}
    (h : segToSegK a0 a1 b0 b1 eps = .ok r) (heps : 0 < eps)
    (ha : eps ≤ V3.dot (a1 - a0) (a1 - a0)) (he : eps < V3.dot (b1 - b0) (b1 - b0)) :
    LowerBound (segmentSet a0 a1) (segmentSet b0 b1) r.d := by
  rcases segToSegK_char h with ⟨hlt, _⟩ | ⟨_, s, t, br, hpar, hp1, hp2, _⟩
  · linarith
  · obtain ⟨ks, kt⟩ := ssParams_kkt hpar heps ha he (cs_le _ _)
      (fun h0 => cs_eq (a1 - a0) (b1 - b0) (a0 - b0) h0)
    apply lowerBound_of_variational (segToSegK_dist h).1
    · rintro x ⟨s', h0, h1, rfl⟩
      have k := ks.kkt01 s' h0 h1
      have e : V3.dot (r.p1 - r.p2) (a0 + s' * (a1 - a0) - r.p1)
          = (V3.dot (a1 - a0) (a0 - b0) + s * V3.dot (a1 - a0) (a1 - a0) - t * V3.dot (a1 - a0) (b1 - b0))
              * (s' - s) := by
        rw [hp1, hp2]; vsimp; ring
      rw [e]; exact k
    · rintro y ⟨t', h0, h1, rfl⟩
      have k := kt.kkt01 t' h0 h1
      have e : V3.dot (r.p1 - r.p2) (b0 + t' * (b1 - b0) - r.p2)
          = -((-(V3.dot (b1 - b0) (a0 - b0)) - s * V3.dot (a1 - a0) (b1 - b0) + t * V3.dot (b1 - b0) (b1 - b0))
              * (t' - t)) := by
        rw [hp1, hp2]; vsimp; ring
      rw [e]; linarith

end DistLine
end D3
