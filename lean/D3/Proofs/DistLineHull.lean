/-
`_plane_to_convex_hull_points` (and its users `plane_to_triangle/rectangle/box`) at `α := ℝ`.
-/
import D3.Proofs.DistLinePlane

namespace D3
namespace DistLine

/-! ### `np.argmin`, `np.argmax` -/

theorem argminGo_spec : ∀ (xs pre : List ℝ) (i bi : ℕ) (bv : ℝ),
    i = pre.length → pre[bi]? = some bv → (∀ x ∈ pre, bv ≤ x) →
    ∃ v, (pre ++ xs)[argminGo xs i bi bv]? = some v ∧ ∀ x ∈ pre ++ xs, v ≤ x
  | [], pre, i, bi, bv, _, hb, hle => by
    simp only [argminGo, List.append_nil]
    exact ⟨bv, hb, hle⟩
  | x :: xs, pre, i, bi, bv, hi, hb, hle => by
    have hbi : bi < pre.length := by
      rcases Nat.lt_or_ge bi pre.length with h | h
      · exact h
      · rw [List.getElem?_eq_none h] at hb; cases hb
    unfold argminGo
    have happ : pre ++ x :: xs = (pre ++ [x]) ++ xs := by simp
    rw [happ]
    split
    · rename_i hlt
      apply argminGo_spec xs (pre ++ [x]) (i + 1) i x
      · simp [hi]
      · rw [hi]; simp
      · intro y hy
        rcases List.mem_append.mp hy with h | h
        · exact le_of_lt (lt_of_lt_of_le hlt (hle y h))
        · simp at h; rw [h]
    · rename_i hnlt
      apply argminGo_spec xs (pre ++ [x]) (i + 1) bi bv
      · simp [hi]
      · rw [List.getElem?_append_left hbi]; exact hb
      · intro y hy
        rcases List.mem_append.mp hy with h | h
        · exact hle y h
        · simp at h; rw [h]; exact not_lt.mp hnlt

/-- `argmin` of a non-empty list is the index of a minimum -/
theorem argmin_spec (l : List ℝ) (hne : l ≠ []) :
    ∃ v, l[argmin l]? = some v ∧ ∀ x ∈ l, v ≤ x := by
  cases l with
  | nil => exact absurd rfl hne
  | cons x xs =>
    have := argminGo_spec xs [x] 1 0 x rfl rfl (by intro y hy; simp at hy; rw [hy])
    simpa [argmin] using this

theorem argmaxGo_eq_neg : ∀ (xs : List ℝ) (i bi : ℕ) (bv : ℝ),
    argmaxGo xs i bi bv = argminGo (xs.map fun x => -x) i bi (-bv)
  | [], _, _, _ => rfl
  | x :: xs, i, bi, bv => by
    simp only [argmaxGo, List.map_cons, argminGo, neg_lt_neg_iff]
    split
    · exact argmaxGo_eq_neg xs (i + 1) i x
    · exact argmaxGo_eq_neg xs (i + 1) bi bv

/-- `argmax` of a non-empty list is the index of a maximum -/
theorem argmax_spec (l : List ℝ) (hne : l ≠ []) :
    ∃ v, l[argmax l]? = some v ∧ ∀ x ∈ l, x ≤ v := by
  have hm : argmax l = argmin (l.map fun x => -x) := by
    cases l with
    | nil => rfl
    | cons x xs => simp only [argmax, List.map_cons, argmin]; exact argmaxGo_eq_neg xs 1 0 x
  obtain ⟨v, hv, hle⟩ := argmin_spec (l.map fun x => -x) (by simpa using hne)
  rw [← hm, List.getElem?_map] at hv
  obtain ⟨w, hw, rfl⟩ := Option.map_eq_some_iff.mp hv
  refine ⟨w, hw, ?_⟩
  intro x hx
  have := hle (-x) (List.mem_map.mpr ⟨x, hx, rfl⟩)
  linarith

/-! ### heights over a plane are affine, hence bounded on the hull by the vertex extremes -/

theorem hull_height_bounds {pts : List V} {pp n : V} {lo hi : ℝ}
    (hlo : ∀ p ∈ pts, lo ≤ V3.dot (p - pp) n) (hhi : ∀ p ∈ pts, V3.dot (p - pp) n ≤ hi) :
    ∀ x, Hull pts x → lo ≤ V3.dot (x - pp) n ∧ V3.dot (x - pp) n ≤ hi := by
  intro x hx
  induction hx with
  | vertex p hp => exact ⟨hlo p hp, hhi p hp⟩
  | seg x y t _ _ h0 h1 ihx ihy =>
    have e : V3.dot (x + t * (y - x) - pp) n = (1 - t) * V3.dot (x - pp) n + t * V3.dot (y - pp) n := by
      vsimp; ring
    rw [e]
    constructor
    · nlinarith [ihx.1, ihy.1]
    · nlinarith [ihx.2, ihy.2]

theorem segment_subset_hull {pts : List V} {p q : V} (hp : p ∈ pts) (hq : q ∈ pts) :
    ∀ x, segmentSet p q x → Hull pts x := by
  rintro x ⟨t, h0, h1, rfl⟩
  exact Hull.seg p q t (Hull.vertex p hp) (Hull.vertex q hq) h0 h1

/-! ### `_plane_to_convex_hull_points` -/

theorem getElem?_map_some {β γ : Type} {l : List β} {f : β → γ} {i : ℕ} {v : γ}
    (h : (l.map f)[i]? = some v) : ∃ p, l[i]? = some p ∧ f p = v ∧ p ∈ l := by
  rw [List.getElem?_map] at h
  obtain ⟨p, hp, hf⟩ := Option.map_eq_some_iff.mp h
  exact ⟨p, hp, hf, List.mem_of_getElem? hp⟩

/-- how the straddling branch hands on the result of `_line_segment_to_plane`
(`sw = true`: swapped into `(dist, plane point, hull point)` — the current code; `sw = false`: forwarded
unchanged — the code before /repo 4c5c535) -/
def hullFwd (sw : Bool) (x : Except Err (Res3 ℝ)) : Except Err (Res3 ℝ) := do
  let r ← x
  pure (if sw then ⟨r.d, r.p2, r.p1, r.br⟩ else r)

theorem hullFwd_ok {sw : Bool} {x : Except Err (Res3 ℝ)} {r : Res3 ℝ} (h : hullFwd sw x = .ok r) :
    ∃ r', x = .ok r' ∧ r = (if sw then ⟨r'.d, r'.p2, r'.p1, r'.br⟩ else r') := by
  unfold hullFwd at h
  cases x with
  | error e => simp only [bind, Except.bind] at h; cases h
  | ok r' =>
    simp only [bind, Except.bind, pure, Except.pure] at h
    injection h with h
    exact ⟨r', rfl, h.symm⟩

/-- what the function computes, for a non-empty vertex list -/
theorem planeToHullG_char (sw : Bool) (pp n : V) (pts : List V) (hne : pts ≠ []) :
    ∃ pmin pmax, pmin ∈ pts ∧ pmax ∈ pts ∧
      (∀ p ∈ pts, V3.dot (pmin - pp) n ≤ V3.dot (p - pp) n) ∧
      (∀ p ∈ pts, V3.dot (p - pp) n ≤ V3.dot (pmax - pp) n) ∧
      ((V3.dot (pmin - pp) n * V3.dot (pmax - pp) n < 0 ∧
          planeToHullG sw pp n pts = hullFwd sw (segToPlaneK pmin pmax pp n 1e-6)) ∨
       (¬ V3.dot (pmin - pp) n * V3.dot (pmax - pp) n < 0 ∧
          ∃ cp, cp ∈ pts ∧ (∀ p ∈ pts, |V3.dot (cp - pp) n| ≤ |V3.dot (p - pp) n|) ∧
            planeToHullG sw pp n pts
              = .ok ⟨|V3.dot (cp - pp) n|, cp - (V3.dot (cp - pp) n) * n, cp, 10⟩)) := by
  have hts : (pts.map fun p => V3.dot (p - pp) n) ≠ [] := by simpa using hne
  obtain ⟨tmin, hmin, hminle⟩ := argmin_spec _ hts
  obtain ⟨tmax, hmax, hmaxle⟩ := argmax_spec _ hts
  obtain ⟨pmin, hpmin, hfmin, hmemmin⟩ := getElem?_map_some hmin
  obtain ⟨pmax, hpmax, hfmax, hmemmax⟩ := getElem?_map_some hmax
  refine ⟨pmin, pmax, hmemmin, hmemmax, ?_, ?_, ?_⟩
  · intro p hp
    rw [hfmin]; exact hminle _ (List.mem_map.mpr ⟨p, hp, rfl⟩)
  · intro p hp
    rw [hfmax]; exact hmaxle _ (List.mem_map.mpr ⟨p, hp, rfl⟩)
  · by_cases hs : V3.dot (pmin - pp) n * V3.dot (pmax - pp) n < 0
    · left
      refine ⟨hs, ?_⟩
      unfold planeToHullG hullFwd
      dsimp only
      rw [hmin, hmax, hpmin, hpmax]
      dsimp only
      rw [← hfmin, ← hfmax, if_pos hs]
    · right
      refine ⟨hs, ?_⟩
      have hts2 : ((pts.map fun p => V3.dot (p - pp) n).map absS) ≠ [] := by simpa using hne
      obtain ⟨v, hv, hvle⟩ := argmin_spec _ hts2
      obtain ⟨t, ht, hft, _⟩ := getElem?_map_some hv
      obtain ⟨cp, hcp, hfcp, hmemcp⟩ := getElem?_map_some ht
      refine ⟨cp, hmemcp, ?_, ?_⟩
      · intro p hp
        have := hvle (absS (V3.dot (p - pp) n))
          (List.mem_map.mpr ⟨_, List.mem_map.mpr ⟨p, hp, rfl⟩, rfl⟩)
        rw [← hft, ← hfcp, absS_real, absS_real] at this
        exact this
      · unfold planeToHullG
        simp only [pure, Except.pure]
        rw [hmin, hmax, hpmin, hpmax]
        dsimp only
        rw [← hfmin, ← hfmax, if_neg hs]
        rw [ht, hcp]
        dsimp only
        rw [← hfcp, absS_real]

theorem planeToHullG_ok (sw : Bool) (pp n : V) (pts : List V) (hne : pts ≠ []) :
    ∃ r, planeToHullG sw pp n pts = .ok r := by
  obtain ⟨pmin, pmax, _, _, _, _, h⟩ := planeToHullG_char sw pp n pts hne
  rcases h with ⟨_, he⟩ | ⟨_, cp, _, _, he⟩
  · obtain ⟨r', hr'⟩ := segToPlaneK_ok pmin pmax pp n (by norm_num : (0 : ℝ) < 1e-6)
    rw [he, hr']
    exact ⟨_, rfl⟩
  · exact ⟨_, he⟩

theorem planeToHull_ok (pp n : V) (pts : List V) (hne : pts ≠ []) : ∃ r, planeToHull pp n pts = .ok r :=
  planeToHullG_ok true pp n pts hne

/-- the band condition of `_plane_to_convex_hull_points`: no pair of vertices on opposite sides of the plane
whose connecting segment makes an angle with the plane with `sin² < 1e-6` (the hard-coded epsilon the
function passes to `_line_segment_to_plane`) -/
def HullNoBand (pp n : V) (pts : List V) : Prop :=
  ∀ p ∈ pts, ∀ q ∈ pts, V3.dot (p - pp) n < 0 → 0 < V3.dot (q - pp) n →
    (1e-6 : ℝ) * V3.normSq (q - p) ≤ (V3.dot (q - pp) n - V3.dot (p - pp) n) ^ 2

/-- in the straddling case outside the band, `_line_segment_to_plane` finds the intersection point -/
theorem straddle_hit {p q pp n : V} {r : Res3 ℝ} (h : segToPlaneK p q pp n 1e-6 = .ok r)
    (hp : V3.dot (p - pp) n < 0) (hq : 0 < V3.dot (q - pp) n)
    (hb : (1e-6 : ℝ) * V3.normSq (q - p) ≤ (V3.dot (q - pp) n - V3.dot (p - pp) n) ^ 2) :
    r.d = 0 ∧ r.p2 = r.p1 ∧ segmentSet p q r.p1 ∧ planeSet pp n r.p1 := by
  obtain ⟨hlen, hdir⟩ := segmentToLine_spec p q
  have hl0 : 0 ≤ (segmentToLine p q).2 := by rw [hlen]; exact V3.norm_nonneg _
  have hsq : (segmentToLine p q).2 * (segmentToLine p q).2 = V3.normSq (q - p) := by
    rw [hlen]; exact V3.norm_sq _
  -- len · l = τq − τp > 0
  have hll : (segmentToLine p q).2 * V3.dot (segmentToLine p q).1 n
      = V3.dot (q - pp) n - V3.dot (p - pp) n := by
    have : V3.dot (q - pp) n - V3.dot (p - pp) n = V3.dot (q - p) n := by vsimp; ring
    rw [this, hdir]; vsimp; ring
  have hpos : 0 < (segmentToLine p q).2 * V3.dot (segmentToLine p q).1 n := by rw [hll]; linarith
  have hlenpos : 0 < (segmentToLine p q).2 := by
    rcases lt_or_eq_of_le hl0 with h' | h'
    · exact h'
    · rw [← h'] at hpos; simp at hpos
  have hlpos : 0 < V3.dot (segmentToLine p q).1 n := by
    by_contra hle
    push Not at hle
    nlinarith
  have hge : (1e-6 : ℝ) ≤ V3.dot (segmentToLine p q).1 n * V3.dot (segmentToLine p q).1 n := by
    have h2 : (1e-6 : ℝ) * ((segmentToLine p q).2 * (segmentToLine p q).2)
        ≤ ((segmentToLine p q).2 * V3.dot (segmentToLine p q).1 n) ^ 2 := by rw [hsq, hll]; exact hb
    have h3 : 0 < (segmentToLine p q).2 * (segmentToLine p q).2 := mul_pos hlenpos hlenpos
    by_contra hlt
    push Not at hlt
    nlinarith
  have hm₁ := segToPlaneK_mem₁ h
  have hnl : V3.dot n (segmentToLine p q).1 = V3.dot (segmentToLine p q).1 n := V3.dot_comm _ _
  have hτ : V3.dot pp n - V3.dot n p = -(V3.dot (p - pp) n) := by vsimp; ring
  rcases segToPlaneK_char h with ⟨_, _, hne, _, _, hd, hp1, hp2⟩ | ⟨_, _, hne, ht, _⟩ | ⟨_, _, hne, ht, _⟩ |
    ⟨_, hlt, _⟩
  · refine ⟨hd, hp2, hm₁, ?_⟩
    rw [hp1]; exact lineToPlane_hit hne rfl
  · -- t < 0 is impossible: t = −τp / l > 0
    exfalso
    rw [hτ, hnl] at ht
    have : 0 < -(V3.dot (p - pp) n) / V3.dot (segmentToLine p q).1 n := div_pos (by linarith) hlpos
    linarith
  · -- t > len is impossible: −τp ≤ len·l = τq − τp
    exfalso
    rw [hτ, hnl] at ht
    have := (lt_div_iff₀ hlpos).mp ht
    linarith
  · exfalso; linarith

/-- **feasibility of `_plane_to_convex_hull_points` for every placement** (no band hypothesis, since /repo
4c5c535 hands the tuple of `_line_segment_to_plane` on in the documented order): `p1` on the plane, `p2` in the
hull of the listed points, `d² = |p1 − p2|²`, `d ≥ 0` -/
theorem planeToHull_feas {pp n : V} {pts : List V} {r : Res3 ℝ} (h : planeToHull pp n pts = .ok r)
    (hne : pts ≠ []) (hu : UnitVec n) :
    planeSet pp n r.p1 ∧ Hull pts r.p2 ∧ (r.d * r.d = V3.normSq (r.p1 - r.p2) ∧ 0 ≤ r.d) := by
  have h' : planeToHullG true pp n pts = .ok r := h
  obtain ⟨pmin, pmax, hmin, hmax, _, _, hc⟩ := planeToHullG_char true pp n pts hne
  rcases hc with ⟨_, he⟩ | ⟨_, cp, hcp, _, he⟩
  · rw [he] at h'
    obtain ⟨r', hr', hrr⟩ := hullFwd_ok h'
    simp only [if_true] at hrr
    subst hrr
    refine ⟨segToPlaneK_mem₂ hr' hu, segment_subset_hull hmin hmax _ (segToPlaneK_mem₁ hr'), ?_⟩
    have := segToPlaneK_dist hr' hu
    show r'.d * r'.d = V3.normSq (r'.p2 - r'.p1) ∧ 0 ≤ r'.d
    rw [normSq_sub_comm]; exact this
  · rw [he] at h'
    injection h' with h'
    subst h'
    have hτ : V3.dot n (cp - pp) = V3.dot (cp - pp) n := V3.dot_comm _ _
    refine ⟨?_, Hull.vertex cp hcp, ?_⟩
    · show planeSet pp n (cp - (V3.dot (cp - pp) n) * n)
      rw [← hτ]; exact foot_mem cp pp n hu
    · have := foot_dist cp pp n hu
      rw [hτ, normSq_sub_comm] at this
      exact this

/-- everything `_plane_to_convex_hull_points` promises: feasibility (`planeToHull_feas`) and, outside the band,
global optimality against **any** set `K` whose heights over the plane are bounded by the extreme vertex
heights (the hull itself, or a convex body of which the listed points are support points in the directions `±n`) -/
theorem planeToHull_spec_gen {pp n : V} {pts : List V} {r : Res3 ℝ} (h : planeToHull pp n pts = .ok r)
    (hne : pts ≠ []) (hu : UnitVec n) (hband : HullNoBand pp n pts) (K : V → Prop)
    (hK : ∀ y, K y → ∀ lo hi : ℝ, (∀ p ∈ pts, lo ≤ V3.dot (p - pp) n) → (∀ p ∈ pts, V3.dot (p - pp) n ≤ hi) →
      lo ≤ V3.dot (y - pp) n ∧ V3.dot (y - pp) n ≤ hi) :
    planeSet pp n r.p1 ∧ Hull pts r.p2 ∧ (r.d * r.d = V3.normSq (r.p1 - r.p2) ∧ 0 ≤ r.d) ∧
      LowerBound (planeSet pp n) K r.d := by
  obtain ⟨f1, f2, f3⟩ := planeToHull_feas h hne hu
  refine ⟨f1, f2, f3, ?_⟩
  have h' : planeToHullG true pp n pts = .ok r := h
  obtain ⟨pmin, pmax, hmin, hmax, hlo, hhi, hc⟩ := planeToHullG_char true pp n pts hne
  rcases hc with ⟨hs, he⟩ | ⟨hs, cp, hcp, hcl, he⟩
  · -- straddling outside the band: the hit point, d = 0
    have hlt : V3.dot (pmin - pp) n < 0 ∧ 0 < V3.dot (pmax - pp) n := by
      have := hlo pmax hmax
      constructor
      · by_contra hge
        push Not at hge
        nlinarith
      · by_contra hle
        push Not at hle
        nlinarith
    rw [he] at h'
    obtain ⟨r', hr', hrr⟩ := hullFwd_ok h'
    simp only [if_true] at hrr
    subst hrr
    obtain ⟨hd, _, _, _⟩ := straddle_hit hr' hlt.1 hlt.2 (hband pmin hmin pmax hmax hlt.1 hlt.2)
    intro x _ y _
    show r'.d * r'.d ≤ _
    rw [hd]; simp only [mul_zero]; exact V3.normSq_nonneg _
  · -- all vertices on one side: the vertex closest to the plane
    rw [he] at h'
    injection h' with h'
    subst h'
    have hτ : V3.dot n (cp - pp) = V3.dot (cp - pp) n := V3.dot_comm _ _
    · apply lowerBound_of_variational f3.1
      · intro x hx
        show 0 ≤ V3.dot (cp - (V3.dot (cp - pp) n) * n - cp) (x - (cp - (V3.dot (cp - pp) n) * n))
        have := foot_orth cp pp n hu x hx
        rw [hτ] at this
        have e : V3.dot (cp - (V3.dot (cp - pp) n) * n - cp) (x - (cp - (V3.dot (cp - pp) n) * n))
            = -(V3.dot (cp - (cp - (V3.dot (cp - pp) n) * n)) (x - (cp - (V3.dot (cp - pp) n) * n))) := by
          vsimp; ring
        rw [e, this]; simp
      · intro y hy
        show V3.dot (cp - (V3.dot (cp - pp) n) * n - cp) (y - cp) ≤ 0
        have e : V3.dot (cp - (V3.dot (cp - pp) n) * n - cp) (y - cp)
            = -(V3.dot (cp - pp) n * (V3.dot (y - pp) n - V3.dot (cp - pp) n)) := by vsimp; ring
        rw [e]
        -- all heights have one sign; cp has the smallest absolute height
        obtain ⟨hylo, hyhi⟩ := hK y hy _ _ hlo hhi
        have hmn := hcl pmin hmin
        have hmx := hcl pmax hmax
        have hcplo := hlo cp hcp
        have hcphi := hhi cp hcp
        push Not at hs
        by_cases h0 : 0 ≤ V3.dot (pmin - pp) n
        · -- all heights ≥ 0: τ(cp) = min
          have hc0 : 0 ≤ V3.dot (cp - pp) n := le_trans h0 hcplo
          rw [abs_of_nonneg hc0, abs_of_nonneg h0] at hmn
          have : V3.dot (cp - pp) n ≤ V3.dot (y - pp) n := by linarith
          nlinarith
        · -- τmin < 0, so τmax ≤ 0: all heights ≤ 0: τ(cp) = max
          push Not at h0
          have hmax0 : V3.dot (pmax - pp) n ≤ 0 := by
            by_contra hpos
            push Not at hpos
            nlinarith
          have hc0 : V3.dot (cp - pp) n ≤ 0 := le_trans hcphi hmax0
          rw [abs_of_nonpos hc0, abs_of_nonpos hmax0] at hmx
          have : V3.dot (y - pp) n ≤ V3.dot (cp - pp) n := by linarith
          nlinarith

theorem planeToHull_spec {pp n : V} {pts : List V} {r : Res3 ℝ} (h : planeToHull pp n pts = .ok r)
    (hne : pts ≠ []) (hu : UnitVec n) (hband : HullNoBand pp n pts) :
    planeSet pp n r.p1 ∧ Hull pts r.p2 ∧ (r.d * r.d = V3.normSq (r.p1 - r.p2) ∧ 0 ≤ r.d) ∧
      LowerBound (planeSet pp n) (Hull pts) r.d :=
  planeToHull_spec_gen h hne hu hband (Hull pts) (fun y hy _ _ hlo hhi => hull_height_bounds hlo hhi y hy)

/-- closed under segments -/
def ConvexSet (K : V → Prop) : Prop :=
  ∀ x y (t : ℝ), K x → K y → 0 ≤ t → t ≤ 1 → K (x + t * (y - x))

theorem hull_subset_convex {K : V → Prop} (hc : ConvexSet K) {pts : List V} (hp : ∀ p ∈ pts, K p) :
    ∀ x, Hull pts x → K x := by
  intro x hx
  induction hx with
  | vertex p h => exact hp p h
  | seg x y t _ _ h0 h1 ihx ihy => exact hc x y t ihx ihy h0 h1

/-- **`plane_to_ellipsoid`, `plane_to_cylinder`** (their tail after the two support calls): the function is
`_plane_to_convex_hull_points` on the two support points `p₋`, `p₊` of the convex body `K` in the directions
`−n`, `+n`.  Outside the band: point on the plane, point in `K`, consistent distance, global optimality
against all of `K`. -/
theorem planeToSupportPair_spec {pp n pm pq : V} {K : V → Prop} {r : Res3 ℝ}
    (h : planeToHull pp n [pm, pq] = .ok r) (hu : UnitVec n) (hc : ConvexSet K)
    (hm : IsSupport K (-n) pm) (hq : IsSupport K n pq) (hband : HullNoBand pp n [pm, pq]) :
    planeSet pp n r.p1 ∧ K r.p2 ∧ (r.d * r.d = V3.normSq (r.p1 - r.p2) ∧ 0 ≤ r.d) ∧
      LowerBound (planeSet pp n) K r.d := by
  obtain ⟨h1, h2, h3, h4⟩ := planeToHull_spec_gen h (by simp) hu hband K (by
    intro y hy lo hi hlo hhi
    have a := hlo pm (by simp)
    have b := hhi pq (by simp)
    have sm := hm.2 y hy
    have sq := hq.2 y hy
    have e1 : V3.dot (y - pp) n = V3.dot n y - V3.dot n pp := by vsimp; ring
    have e2 : V3.dot (pm - pp) n = -(V3.dot (-n) pm) - V3.dot n pp := by vsimp; ring
    have e3 : V3.dot (pq - pp) n = V3.dot n pq - V3.dot n pp := by vsimp; ring
    have e4 : V3.dot (-n) y = -(V3.dot n y) := by vsimp; ring
    rw [e4] at sm
    rw [e1]
    constructor <;> linarith)
  refine ⟨h1, ?_, h3, h4⟩
  apply hull_subset_convex hc _ _ h2
  intro p hp
  simp only [List.mem_cons, List.mem_nil_iff, or_false] at hp
  rcases hp with rfl | rfl
  · exact hm.1
  · exact hq.1

/-- feasibility of the tail of `plane_to_ellipsoid` / `plane_to_cylinder` for every placement (no band) -/
theorem planeToSupportPair_feas {pp n pm pq : V} {K : V → Prop} {r : Res3 ℝ}
    (h : planeToHull pp n [pm, pq] = .ok r) (hu : UnitVec n) (hc : ConvexSet K) (hm : K pm) (hq : K pq) :
    planeSet pp n r.p1 ∧ K r.p2 ∧ (r.d * r.d = V3.normSq (r.p1 - r.p2) ∧ 0 ≤ r.d) := by
  obtain ⟨h1, h2, h3⟩ := planeToHull_feas h (by simp) hu
  refine ⟨h1, ?_, h3⟩
  apply hull_subset_convex hc _ _ h2
  intro p hp
  simp only [List.mem_cons, List.mem_nil_iff, or_false] at hp
  rcases hp with rfl | rfl
  · exact hm
  · exact hq

/-! ### the defect of the code before /repo 4c5c535 (finding F-c10-plane-hull-swapped, repaired) -/

/-- `(dir·n)² · |q − p|² = ((q − p)·n)²` for the normalised direction of `convert_segment_to_line` -/
theorem segmentToLine_sin (p q n : V) :
    V3.dot (segmentToLine p q).1 n * V3.dot (segmentToLine p q).1 n * V3.normSq (q - p)
      = V3.dot (q - p) n * V3.dot (q - p) n := by
  obtain ⟨hlen, hdir⟩ := segmentToLine_spec p q
  have hsq : (segmentToLine p q).2 * (segmentToLine p q).2 = V3.normSq (q - p) := by
    rw [hlen]; exact V3.norm_sq _
  have : V3.dot (q - p) n = (segmentToLine p q).2 * V3.dot (segmentToLine p q).1 n := by
    rw [hdir]; vsimp; ring
  rw [this, ← hsq]; ring

/-- **Defect of the code before /repo 4c5c535 (finding F-c10-plane-hull-swapped, repaired).**  If the vertices lie
on both sides of the plane but every straddling vertex pair is inside the band (`sin² < 1e-6` between its segment
and the plane), then the old `_plane_to_convex_hull_points` forwarded the *parallel* answer of
`_line_segment_to_plane` unchanged: the first returned point (documented as the closest point **on the plane**)
is a vertex strictly below the plane. -/
theorem planeToHull_before_fix_band {pp n : V} {pts : List V} {r : Res3 ℝ}
    (h : planeToHull_asIs_before_fix pp n pts = .ok r)
    (hex : ∃ p ∈ pts, ∃ q ∈ pts, V3.dot (p - pp) n < 0 ∧ 0 < V3.dot (q - pp) n)
    (hall : ∀ p ∈ pts, ∀ q ∈ pts, V3.dot (p - pp) n < 0 → 0 < V3.dot (q - pp) n →
      V3.dot (segmentToLine p q).1 n * V3.dot (segmentToLine p q).1 n < 1e-6) :
    ¬ planeSet pp n r.p1 ∧ 0 < r.d ∧ r.br = 3 := by
  obtain ⟨p, hp, q, hq, hpn, hqp⟩ := hex
  have hne : pts ≠ [] := List.ne_nil_of_mem hp
  have h' : planeToHullG false pp n pts = .ok r := h
  obtain ⟨pmin, pmax, hmin, hmax, hlo, hhi, hc⟩ := planeToHullG_char false pp n pts hne
  have h1 : V3.dot (pmin - pp) n < 0 := lt_of_le_of_lt (hlo p hp) hpn
  have h2 : 0 < V3.dot (pmax - pp) n := lt_of_lt_of_le hqp (hhi q hq)
  rcases hc with ⟨_, he⟩ | ⟨hs, _⟩
  · rw [he] at h'
    obtain ⟨r', hr', hrr⟩ := hullFwd_ok h'
    simp only [Bool.false_eq_true, if_false] at hrr
    subst hrr
    have hb := hall pmin hmin pmax hmax h1 h2
    have hτ : V3.dot n (pmin - pp) = V3.dot (pmin - pp) n := V3.dot_comm _ _
    rcases segToPlaneK_char hr' with ⟨_, hge, _⟩ | ⟨_, hge, _⟩ | ⟨_, hge, _⟩ | ⟨hbr, _, hf⟩
    · exfalso; linarith
    · exfalso; linarith
    · exfalso; linarith
    · refine ⟨?_, ?_, hbr⟩
      · rw [hf.2.1]; unfold planeSet; rw [hτ]; exact ne_of_lt h1
      · rw [hf.1, hτ]; exact abs_pos.mpr (ne_of_lt h1)
  · exfalso; apply hs; nlinarith

/-- concrete instance of the repaired defect: a triangle of edge length ≈ 1 crossing the plane `z = 0`
at an angle of about 0.03° (`plane_to_triangle` on this input returned
`(2⁻¹², (0,0,−2⁻¹²), (0,0,0))` before /repo 4c5c535) -/
theorem planeToTriangle_before_fix_counterexample :
    ∃ r, planeToTriangle_asIs_before_fix (⟨0, 0, 0⟩ : V) ⟨0, 0, 1⟩ ⟨0, 0, -(1 / 4096)⟩ ⟨1, 0, 1 / 4096⟩
        ⟨0, 1, 1 / 4096⟩ = .ok r ∧
      ¬ planeSet (⟨0, 0, 0⟩ : V) ⟨0, 0, 1⟩ r.p1 ∧ 0 < r.d := by
  obtain ⟨r, hr⟩ := planeToHullG_ok false (⟨0, 0, 0⟩ : V) ⟨0, 0, 1⟩
    [⟨0, 0, -(1 / 4096)⟩, ⟨1, 0, 1 / 4096⟩, ⟨0, 1, 1 / 4096⟩] (by simp)
  refine ⟨r, hr, ?_⟩
  have key := planeToHull_before_fix_band hr
    ⟨⟨0, 0, -(1 / 4096)⟩, by simp, ⟨1, 0, 1 / 4096⟩, by simp, by vsimp; norm_num, by vsimp; norm_num⟩
    (by
      intro p hp q hq hpn hqp
      have hs := segmentToLine_sin p q (⟨0, 0, 1⟩ : V)
      simp only [List.mem_cons, List.mem_nil_iff, or_false] at hp hq
      -- the only vertex below the plane is the first one
      have hp' : p = ⟨0, 0, -(1 / 4096)⟩ := by
        rcases hp with rfl | rfl | rfl
        · rfl
        · exfalso; revert hpn; vsimp; norm_num
        · exfalso; revert hpn; vsimp; norm_num
      subst hp'
      rcases hq with rfl | rfl | rfl
      · exfalso; revert hqp; vsimp; norm_num
      · have e1 : V3.normSq ((⟨1, 0, 1 / 4096⟩ : V) - ⟨0, 0, -(1 / 4096)⟩) = 1 + (1 / 2048) ^ 2 := by
          vsimp; norm_num
        have e2 : V3.dot ((⟨1, 0, 1 / 4096⟩ : V) - ⟨0, 0, -(1 / 4096)⟩) ⟨0, 0, 1⟩ = 1 / 2048 := by
          vsimp; norm_num
        rw [e1, e2] at hs
        nlinarith
      · have e1 : V3.normSq ((⟨0, 1, 1 / 4096⟩ : V) - ⟨0, 0, -(1 / 4096)⟩) = 1 + (1 / 2048) ^ 2 := by
          vsimp; norm_num
        have e2 : V3.dot ((⟨0, 1, 1 / 4096⟩ : V) - ⟨0, 0, -(1 / 4096)⟩) ⟨0, 0, 1⟩ = 1 / 2048 := by
          vsimp; norm_num
        rw [e1, e2] at hs
        nlinarith)
  exact ⟨key.1, key.2.1⟩

end DistLine
end D3
