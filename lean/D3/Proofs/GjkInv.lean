/-
Loop invariant of the Jolt GJK distance loop (C01) with abstract support points and a solver
specification (`SolverSpec`, and `SolverSpecOn good` = the same contract required only on the
simplices satisfying `good`): `Stored` (Y = P − Q, P ⊆ A, Q ⊆ B on the valid prefix), `Closest` (the current
point is the min-norm point of the hull of the stored points, with positive weights), and what
holds on each exit of one call of `distanceLoopStep`.
-/
import D3.Proofs.GjkStep

namespace D3
namespace Gjk
open GjkJolt

abbrev e1 : V := ⟨1, 0, 0⟩

/-- **specification of the simplex solver** (`get_closest_point_to_origin`): on `n ∈ 1..4` stored
points it returns the min-norm point `v` of their hull, `|v|²`, the success flag
`|v|² < prev`, and a feature set (bits `< 2ⁿ`) such that `v` is a combination of exactly the
selected points with strictly positive weights; `0xf` is only reported with `v = 0`.
(Partial correctness: nothing is required when the solver returns an error.) -/
structure SolverSpec (solve : Solver ℝ) : Prop where
  spec : ∀ (Y : A4 V) (n : Nat) (prev : ℝ) (r : SolveOut ℝ), 1 ≤ n → n ≤ 4 →
    solve Y n prev = .ok r →
      r.vLenSq = V3.normSq r.v ∧ (r.success = true ↔ r.vLenSq < prev) ∧ r.set < 2 ^ n ∧
      IsMinNorm (InHull (Y.pre n)) r.v ∧ InRelInt (keep r.set 0 (Y.pre n)) r.v ∧
      (r.set = 15 → r.v = zeroV)

/-- **the solver contract relative to a predicate `good Y n`** on the simplices handed to the
solver (`Y` the array, `n` the number of valid points): the conjuncts of `SolverSpec` are only
required on good simplices.  `SolverSpec` is the instance `good := fun _ _ => True`
(`solverSpec_iff_on_true`); the model of the real solver satisfies the contract on `JoltGood`,
the conjunction of the C18 band exclusions (`D3.Gjk.joltSolver_spec`). -/
structure SolverSpecOn (good : A4 V → Nat → Prop) (solve : Solver ℝ) : Prop where
  spec : ∀ (Y : A4 V) (n : Nat) (prev : ℝ) (r : SolveOut ℝ), 1 ≤ n → n ≤ 4 → good Y n →
    solve Y n prev = .ok r →
      r.vLenSq = V3.normSq r.v ∧ (r.success = true ↔ r.vLenSq < prev) ∧ r.set < 2 ^ n ∧
      IsMinNorm (InHull (Y.pre n)) r.v ∧ InRelInt (keep r.set 0 (Y.pre n)) r.v ∧
      (r.set = 15 → r.v = zeroV)

/-- the unconditional contract implies the contract on every predicate -/
theorem SolverSpec.on {solve : Solver ℝ} (h : SolverSpec solve) (good : A4 V → Nat → Prop) :
    SolverSpecOn good solve :=
  ⟨fun Y n prev r h1 h4 _ hr => h.spec Y n prev r h1 h4 hr⟩

theorem solverSpec_iff_on_true {solve : Solver ℝ} :
    SolverSpec solve ↔ SolverSpecOn (fun _ _ => True) solve :=
  ⟨fun h => h.on _, fun h => ⟨fun Y n prev r h1 h4 hr => h.spec Y n prev r h1 h4 trivial hr⟩⟩

/-- a contract on `good` is a contract on every stronger predicate -/
theorem SolverSpecOn.mono {good good' : A4 V → Nat → Prop} {solve : Solver ℝ}
    (h : SolverSpecOn good solve) (hsub : ∀ Y n, good' Y n → good Y n) :
    SolverSpecOn good' solve :=
  ⟨fun Y n prev r h1 h4 hg hr => h.spec Y n prev r h1 h4 (hsub Y n hg) hr⟩

/-- the stored points: `Yᵢ = Pᵢ − Qᵢ`, `Pᵢ ∈ A`, `Qᵢ ∈ B` for `i < n` -/
structure StoredArr (A B : V → Prop) (Y P Q : A4 V) (n : Nat) : Prop where
  y_eq : Y.pre n = List.zipWith (· - ·) (P.pre n) (Q.pre n)
  p_mem : ∀ p ∈ P.pre n, A p
  q_mem : ∀ q ∈ Q.pre n, B q

def Stored (A B : V → Prop) (st : State ℝ) (nmax : Nat) : Prop :=
  st.nPoints ≤ nmax ∧ StoredArr A B st.Y st.P st.Q st.nPoints

/-- `x` is the min-norm point of the hull of `ys` and has positive weights on all of `ys` -/
structure Closest (ys : List V) (x : V) : Prop where
  minnorm : IsMinNorm (InHull ys) x
  relint : InRelInt ys x

/-- running state (after at least one completed iteration): the search direction is `−x` for
the current closest point `x`, `v_len_sq = prev_v_len_sq = |x|² > tol²` -/
def Cur (tolSq : ℝ) (st : State ℝ) (x : V) : Prop :=
  st.sd = (-1 : ℝ) * x ∧ Closest (st.Y.pre st.nPoints) x ∧ st.vLenSq = V3.normSq x ∧
    st.prevVLenSq = st.vLenSq ∧ tolSq < st.vLenSq ∧
    (∀ y ∈ st.Y.pre st.nPoints, EPS * V3.normSq y < st.vLenSq)

/-- the loop variables before the first iteration -/
def IsInit (st : State ℝ) : Prop :=
  st.nPoints = 0 ∧ st.sd = e1 ∧ st.vLenSq = 1 ∧ st.prevVLenSq = MAXF

/-- invariant at the head of the loop; the first support point must be finite enough that
neither the solver's `|v|² < MAX_FLOAT` nor the relative-progress test misfire -/
def Running (tolSq : ℝ) (st : State ℝ) (w : V) : Prop :=
  (∃ x, Cur tolSq st x) ∨ (IsInit st ∧ V3.normSq w < (1 - EPS) * MAXF)

theorem EPS_pos : (0 : ℝ) < EPS := by
  unfold EPS D3.Gen.utils__EPSILON; norm_num

theorem EPS_lt_one : (EPS : ℝ) < 1 := by
  unfold EPS D3.Gen.utils__EPSILON; norm_num

theorem MAXF_pos : (0 : ℝ) < MAXF := by
  unfold MAXF D3.Gen.utils__MAX_FLOAT; norm_num

theorem relint_ne_nil {ys : List V} {x : V} (h : InRelInt ys x) : ys ≠ [] := by
  rintro rfl
  obtain ⟨ws, hl, _, hs, _⟩ := h
  have : ws = [] := List.length_eq_zero_iff.mp (by simpa using hl)
  rw [this] at hs
  simp at hs

theorem mem_of_mem_keep {β : Type} {s i : Nat} {ys : List β} {y : β} (h : y ∈ keep s i ys) :
    y ∈ ys := (keep_sublist s i ys).subset h

/-- storing a new support point keeps `Stored` -/
theorem storedArr_set {A B : V → Prop} {Y P Q Y1 P1 Q1 : A4 V} {n : Nat} {p q : V}
    (h : StoredArr A B Y P Q n) (hn : n ≤ 4) (hp : A p) (hq : B q)
    (hY : Y.set n (p - q) = .ok Y1) (hP : P.set n p = .ok P1) (hQ : Q.set n q = .ok Q1) :
    n ≤ 3 ∧ StoredArr A B Y1 P1 Q1 (n + 1) ∧ Y1.pre (n + 1) = Y.pre n ++ [p - q] ∧
      Y1.pre n = Y.pre n ∧ P1.pre n = P.pre n ∧ Q1.pre n = Q.pre n := by
  obtain ⟨h3, eY⟩ := pre_set Y Y1 n _ hY
  obtain ⟨_, eP⟩ := pre_set P P1 n _ hP
  obtain ⟨_, eQ⟩ := pre_set Q Q1 n _ hQ
  refine ⟨h3, ⟨?_, ?_, ?_⟩, eY, pre_set_same _ _ _ _ hY, pre_set_same _ _ _ _ hP,
    pre_set_same _ _ _ _ hQ⟩
  · rw [eY, eP, eQ, h.y_eq]
    rw [List.zipWith_append (by rw [pre_length P n hn, pre_length Q n hn])]
    rfl
  · intro x hx
    rw [eP] at hx
    rcases List.mem_append.mp hx with h' | h'
    · exact h.p_mem x h'
    · simp at h'; rw [h']; exact hp
  · intro x hx
    rw [eQ] at hx
    rcases List.mem_append.mp hx with h' | h'
    · exact h.q_mem x h'
    · simp at h'; rw [h']; exact hq

/-- compaction keeps `Stored` -/
theorem storedArr_keep {A B : V → Prop} {Y P Q Y' P' Q' : A4 V} {m k s : Nat}
    (h : StoredArr A B Y P Q m)
    (eY : Y'.pre k = keep s 0 (Y.pre m)) (eP : P'.pre k = keep s 0 (P.pre m))
    (eQ : Q'.pre k = keep s 0 (Q.pre m)) : StoredArr A B Y' P' Q' k := by
  refine ⟨?_, ?_, ?_⟩
  · rw [eY, eP, eQ, h.y_eq, keep_zipWith]
  · intro x hx; rw [eP] at hx; exact h.p_mem x (mem_of_mem_keep hx)
  · intro x hx; rw [eQ] at hx; exact h.q_mem x (mem_of_mem_keep hx)

theorem keep_15 {β : Type} (ys : List β) (h : ys.length ≤ 4) : keep 15 0 ys = ys := by
  match ys, h with
  | [], _ => rfl
  | [a], _ => rfl
  | [a, b], _ => rfl
  | [a, b, c], _ => rfl
  | [a, b, c, d], _ => rfl

/-- everything that is known after `stepTail` returned, in terms of the closest point `x` of the
selected sub-simplex -/
theorem tail_inv {A B : V → Prop} {Y P Q : A4 V} {m : Nat} (hm : m ≤ 4)
    (hst : StoredArr A B Y P Q m) {s : Nat} (hs : s < 16) {x : V}
    (hx : Closest (keep s 0 (Y.pre m)) x) {prev tolSq : ℝ} {ok : Bool} {sd : V} {vl : ℝ}
    {out : StepOut ℝ} (h : stepTail Y P Q m prev tolSq ok sd vl s = .ok out) :
    Stored A B out.st 4 ∧ Closest (out.st.Y.pre out.st.nPoints) x ∧
      out.st.Y.pre out.st.nPoints = keep s 0 (Y.pre m) ∧ out.set = s ∧
      ((out.gs = .intersection ∧ out.st.vLenSq = 0 ∧ out.st.sd = sd ∧ out.st.prevVLenSq = prev ∧
          ((s = 15 ∧ out.br = 1) ∨ vl ≤ tolSq ∨
            (tolSq < vl ∧ ∃ y ∈ out.st.Y.pre out.st.nPoints, vl ≤ EPS * V3.normSq y))) ∨
       (out.gs = .noIntersection ∧ out.st.nPoints ≤ 3 ∧ out.st.vLenSq = vl ∧
          out.st.sd = (-1 : ℝ) * sd ∧ out.st.prevVLenSq = prev ∧ tolSq < vl ∧ vl ≤ prev ∧
          prev - vl ≤ EPS * prev) ∨
       (out.gs = .unknown ∧ out.st.nPoints ≤ 3 ∧ out.st.vLenSq = vl ∧ out.st.prevVLenSq = vl ∧
          out.st.sd = (-1 : ℝ) * sd ∧ tolSq < vl ∧ vl ≤ prev ∧ EPS * prev < prev - vl ∧
          (∀ y ∈ out.st.Y.pre out.st.nPoints, EPS * V3.normSq y < vl))) := by
  rcases stepTail_cases h with ⟨hs15, rfl⟩ | ⟨hs15, Y', P', Q', k, hupd, hrest⟩
  · -- 0xf: nothing is compacted
    have hk : keep s 0 (Y.pre m) = Y.pre m := by
      rw [hs15]; exact keep_15 _ (by rw [pre_length Y m hm]; exact hm)
    refine ⟨⟨hm, hst⟩, by simpa [hk] using hx, hk.symm, rfl, Or.inl ⟨rfl, rfl, rfl, rfl, Or.inl ⟨hs15, rfl⟩⟩⟩
  · obtain ⟨Y2, P2, Q2, k2, hupd2, hkm, hk3, eY, eP, eQ⟩ := updateSimplex_spec Y P Q m s hm hs
    rw [hupd] at hupd2
    cases hupd2
    have hstored : StoredArr A B Y' P' Q' k := storedArr_keep hst eY eP eQ
    have hk4 : k ≤ 4 := le_trans hkm hm
    have hcl : Closest (Y'.pre k) x := by rw [eY]; exact hx
    rcases hrest with ⟨ht, rfl⟩ | ⟨ht, my, hmy, hrest⟩
    · exact ⟨⟨hk4, hstored⟩, hcl, eY, rfl, Or.inl ⟨rfl, rfl, rfl, rfl, Or.inr (Or.inl ht)⟩⟩
    · have hk1 : 1 ≤ k := by
        have hne := relint_ne_nil hcl.relint
        have hl := pre_length Y' k hk4
        rcases Nat.eq_zero_or_pos k with h0 | h0
        · rw [h0] at hl; exact absurd (List.length_eq_zero_iff.mp (by rw [h0]; exact hl)) hne
        · exact h0
      obtain ⟨my', hmy', hall, ymax, hymem, hyeq⟩ := maxY_spec Y' k hk1 hk4
      rw [hmy] at hmy'
      cases hmy'
      rcases hrest with ⟨hy, rfl⟩ | ⟨hy, hp, hrest⟩
      · exact ⟨⟨hk4, hstored⟩, hcl, eY, rfl,
          Or.inl ⟨rfl, rfl, rfl, rfl, Or.inr (Or.inr ⟨ht, ymax, hymem, by rw [← hyeq]; exact hy⟩)⟩⟩
      · rcases hrest with ⟨hq, rfl⟩ | ⟨hq, rfl⟩
        · exact ⟨⟨hk4, hstored⟩, hcl, eY, rfl,
            Or.inr (Or.inl ⟨rfl, hk3 hs15, rfl, rfl, rfl, ht, hp, hq⟩)⟩
        · refine ⟨⟨hk4, hstored⟩, hcl, eY, rfl,
            Or.inr (Or.inr ⟨rfl, hk3 hs15, rfl, rfl, rfl, ht, hp, hq, ?_⟩)⟩
          intro y hy'
          have := hall y hy'
          nlinarith [EPS_pos]

/-- facts about one call of `distanceLoopStep` from a state satisfying the invariant, on every
non-clipped return.  `x` is the closest point carried by the returned state, `v'` the min-norm
point of the hull of the old points plus the new support point `w = p − q`. -/
structure StepInv (A B : V → Prop) (tolSq : ℝ) (st : State ℝ) (w : V) (out : StepOut ℝ)
    (x v' : V) : Prop where
  stored : Stored A B out.st 4
  closest : Closest (out.st.Y.pre out.st.nPoints) x
  sub : (out.st.Y.pre out.st.nPoints).Sublist (st.Y.pre st.nPoints ++ [w])
  vmin : IsMinNorm (InHull (st.Y.pre st.nPoints ++ [w])) v'
  /-- either the solver improved (`x = v'`, strictly below `prev`) or it did not and `x` is the
  old closest point -/
  improved : (x = v' ∧ V3.normSq v' < st.prevVLenSq) ∨
    (st.prevVLenSq ≤ V3.normSq v' ∧ Cur tolSq st x ∧ out.gs = .noIntersection)
  exits :
    (out.gs = .intersection ∧ out.st.vLenSq = 0 ∧ out.st.sd = x ∧
        ((out.br = 1 ∧ x = zeroV) ∨ V3.normSq x ≤ tolSq ∨
          (tolSq < V3.normSq x ∧ ∃ y ∈ out.st.Y.pre out.st.nPoints,
            V3.normSq x ≤ EPS * V3.normSq y))) ∨
    (out.gs = .noIntersection ∧ out.st.nPoints ≤ 3 ∧ out.st.vLenSq = V3.normSq x ∧
        V3.normSq out.st.sd = V3.normSq x ∧ tolSq < V3.normSq x ∧
        st.prevVLenSq - V3.normSq v' ≤ EPS * st.prevVLenSq) ∨
    (out.gs = .unknown ∧ Stored A B out.st 3 ∧ Cur tolSq out.st x ∧
        out.st.vLenSq < (1 - EPS) * st.prevVLenSq)

theorem normSq_neg_one_smul (a : V) : V3.normSq ((-1 : ℝ) * a) = V3.normSq a := by
  simp only [V3.normSq_def, V3.smul_x, V3.smul_y, V3.smul_z]; ring

theorem neg_one_neg_one_smul (a : V) : (-1 : ℝ) * ((-1 : ℝ) * a) = a := by
  apply V3.ext' <;> simp

theorem two_pow_le_16 {n : Nat} (hn : n ≤ 4) : 2 ^ n ≤ 16 := by
  interval_cases n <;> norm_num

/-- **(1) the loop invariant is preserved, and (2)/(5)/(6) raw material for every exit**
(the simplex handed to the solver in this call is `good`) -/
theorem step_inv {A B : V → Prop} {good : A4 V → Nat → Prop} {solve : Solver ℝ}
    (hsolve : SolverSpecOn good solve)
    {st : State ℝ} {p q : V} {tolSq maxD : ℝ} (htol : 0 ≤ tolSq)
    (hst : Stored A B st 3) (hrun : Running tolSq st (p - q)) (hp : A p) (hq : B q)
    (hgood : ∀ Y1, st.Y.set st.nPoints (p - q) = .ok Y1 → good Y1 (st.nPoints + 1))
    {out : StepOut ℝ} (h : distanceLoopStep solve p q st tolSq maxD = .ok out)
    (hnc : out.gs ≠ .clipped) : ∃ x v', StepInv A B tolSq st (p - q) out x v' := by
  rcases step_cases h with ⟨_, rfl⟩ | ⟨_, Y1, P1, Q1, r, hY, hP, hQ, hr, hcase⟩
  · exact absurd rfl hnc
  obtain ⟨hn3, hstored⟩ := hst
  obtain ⟨_, hst1, eY1, eY1n, eP1n, eQ1n⟩ :=
    storedArr_set hstored (by omega) hp hq hY hP hQ
  obtain ⟨hvl, hsucc, hset, hmin, hrel, h15⟩ :=
    hsolve.spec Y1 (st.nPoints + 1) st.prevVLenSq r (by omega) (by omega) (hgood Y1 hY) hr
  have hset16 : r.set < 16 := lt_of_lt_of_le hset (two_pow_le_16 (by omega))
  rw [eY1] at hmin
  rcases hcase with ⟨hs, ht⟩ | ⟨hs, ht⟩
  · -- the solver improved: the new closest point is r.v
    have hlt : V3.normSq r.v < st.prevVLenSq := by rw [← hvl]; exact hsucc.mp hs
    have hcl : Closest (keep r.set 0 (Y1.pre (st.nPoints + 1))) r.v := by
      refine ⟨⟨hrel.inHull, ?_⟩, hrel⟩
      intro y hy
      apply hmin.2
      rw [← eY1]
      exact hull_sublist (keep_sublist _ _ _) hy
    obtain ⟨hsto, hclo, hpre, _, hex⟩ := tail_inv (by omega) hst1 hset16 hcl ht
    refine ⟨r.v, r.v, ⟨hsto, hclo, ?_, hmin, Or.inl ⟨rfl, hlt⟩, ?_⟩⟩
    · rw [hpre, eY1]; exact keep_sublist _ _ _
    · rcases hex with ⟨hg, hv0, hsd, _, hc⟩ | ⟨hg, hn, hv, hsd, hpv, htl, _, hq'⟩ |
        ⟨hg, hn, hv, hpv, hsd, htl, _, hdec, hally⟩
      · refine Or.inl ⟨hg, hv0, hsd, ?_⟩
        rcases hc with ⟨hc15, hbr⟩ | hc | ⟨hc1, y, hy, hc2⟩
        · exact Or.inl ⟨hbr, h15 hc15⟩
        · exact Or.inr (Or.inl (by rw [← hvl]; exact hc))
        · exact Or.inr (Or.inr ⟨by rw [← hvl]; exact hc1, y, hy, by rw [← hvl]; exact hc2⟩)
      · refine Or.inr (Or.inl ⟨hg, hn, by rw [hv, hvl], by rw [hsd, normSq_neg_one_smul], ?_, ?_⟩)
        · rw [← hvl]; exact htl
        · rw [← hvl]; exact hq'
      · refine Or.inr (Or.inr ⟨hg, ⟨hn, hsto.2⟩, ⟨hsd, hclo, by rw [hv, hvl], by rw [hpv, hv], ?_, ?_⟩, ?_⟩)
        · rw [hv]; exact htl
        · rw [hv]; exact hally
        · rw [hv]; linarith [show (1 - EPS) * st.prevVLenSq = st.prevVLenSq - EPS * st.prevVLenSq by ring]
  · -- no improvement: the old state is kept
    have hnlt : st.prevVLenSq ≤ V3.normSq r.v := by
      rw [← hvl]
      by_contra hc
      have := hsucc.mpr (not_le.mp hc)
      rw [hs] at this
      exact Bool.noConfusion this
    rcases hrun with ⟨x0, hcur⟩ | ⟨hinit, hfin⟩
    · obtain ⟨hsd0, hcl0, hv0, hpv0, htl0, hall0⟩ := hcur
      have hkeep : keep (allBits st.nPoints) 0 (Y1.pre st.nPoints) = st.Y.pre st.nPoints := by
        rw [eY1n]
        exact keep_allBits _ _ hn3 (pre_length _ _ (by omega))
      have hst1n : StoredArr A B Y1 P1 Q1 st.nPoints :=
        ⟨by rw [eY1n, eP1n, eQ1n]; exact hstored.y_eq, by rw [eP1n]; exact hstored.p_mem,
          by rw [eQ1n]; exact hstored.q_mem⟩
      have hcl : Closest (keep (allBits st.nPoints) 0 (Y1.pre st.nPoints)) x0 := by
        rw [hkeep]; exact hcl0
      obtain ⟨hsto, hclo, hpre, _, hex⟩ :=
        tail_inv (by omega) hst1n (lt_trans (allBits_lt _ hn3) (by norm_num)) hcl ht
      have hnoint : out.gs = .noIntersection := by
        rcases hex with ⟨_, _, _, _, hc⟩ | ⟨hg, _⟩ | ⟨_, _, _, _, _, _, _, hc, _⟩
        · rcases hc with ⟨hc15, _⟩ | hc | ⟨hc1, y, hy, hc2⟩
          · have := allBits_lt st.nPoints hn3; omega
          · linarith
          · -- the previous iteration already established ε·|y|² < |x0|² for the same points
            exfalso
            rw [hpre, hkeep] at hy
            have := hall0 y hy
            linarith
        · exact hg
        · exfalso
          rw [hpv0] at hc
          have : (0:ℝ) ≤ st.vLenSq := by rw [hv0]; exact V3.normSq_nonneg _
          nlinarith [EPS_pos]
      refine ⟨x0, r.v, ⟨hsto, hclo, ?_, hmin, Or.inr ⟨hnlt, ⟨hsd0, hcl0, hv0, hpv0, htl0, hall0⟩, hnoint⟩, ?_⟩⟩
      · rw [hpre, hkeep]; exact List.sublist_append_left _ _
      · rcases hex with ⟨hg, _⟩ | ⟨hg, hn, hv, hsd, hpv, htl, _, hq'⟩ | ⟨hg, _⟩
        · rw [hnoint] at hg; exact GjkState.noConfusion hg
        · refine Or.inr (Or.inl ⟨hg, hn, by rw [hv, hv0], ?_, by rw [← hv0]; exact htl, ?_⟩)
          · rw [hsd, hsd0, neg_one_neg_one_smul]
          · have : (0:ℝ) ≤ st.prevVLenSq := by rw [hpv0, hv0]; exact V3.normSq_nonneg _
            nlinarith [EPS_pos]
        · rw [hnoint] at hg; exact GjkState.noConfusion hg
    · -- first iteration: the only stored point is w, and |w|² < MAX_FLOAT, so the solver succeeds
      exfalso
      obtain ⟨hn0, _, _, hprev⟩ := hinit
      have hw : InHull (st.Y.pre st.nPoints ++ [p - q]) (p - q) := hull_append_right _
      have := hmin.2 _ hw
      rw [hprev] at hnlt
      have hM := MAXF_pos
      nlinarith [EPS_pos]

end Gjk
end D3
