/-
C18, original GJK: feasibility of the backup procedure.  Whatever the dot-product table is,
every candidate the procedure constructs has positive weights that sum to 1 and reproduce its
point from the listed vertices in order; the accept/reject chain only ever copies candidates,
so the returned solution is feasible, the procedure never divides by zero, and the returned
squared distance is never larger than that of any vertex or any tested candidate.
-/
import D3.Proofs.SimplexSpec
import D3.Model.SimplexOrig

set_option linter.unusedSectionVars false
set_option linter.unusedVariables false

namespace D3
namespace SimplexOrig
open D3.Simplex (lincomb hullSet)

theorem EPS_pos : (0 : ℝ) < EPS := by
  norm_num [EPS, D3.Gen.gjk__gjk_original__EPSILON]

theorem cdiv_ok {x y : ℝ} (hy : y ≠ 0) : cdiv x y = .ok (x / y) := by
  unfold cdiv
  rcases lt_or_gt_of_ne hy with h | h
  · simp [h]
  · simp [h]

/-- feasibility of a solution with respect to the input points `pts`:
weights non-negative, sum 1, reproduce `pt` from `ps` in order; `ps` are the points of `pts`
with indices `idx`; `distSq = |pt|²`. -/
structure Feas (pts : List V) (s : Sol ℝ) : Prop where
  len : s.w.length = s.ps.length
  nonneg : ∀ x ∈ s.w, 0 ≤ x
  sum : s.w.sum = 1
  comb : lincomb s.w s.ps = s.pt
  coh : s.ps.map some = s.idx.map (fun i => pts[i]?)
  dist : s.distSq = V3.dot s.pt s.pt

theorem Feas.mask {pts : List V} {s : Sol ℝ} (h : Feas pts s) (m : Nat) :
    Feas pts { s with mask := m } :=
  ⟨h.len, h.nonneg, h.sum, h.comb, h.coh, h.dist⟩

theorem Feas.hull {pts : List V} {s : Sol ℝ} (h : Feas pts s) : hullSet s.ps s.pt :=
  ⟨s.w, h.len, h.nonneg, h.sum, h.comb⟩

theorem fromVertex_feas (pts : List V) (i : Nat) (p : V) (dii : ℝ) (hp : pts[i]? = some p)
    (hd : dii = V3.dot p p) : Feas pts (fromVertex i p dii) := by
  refine ⟨rfl, by simp [fromVertex], by simp [fromVertex], ?_, by simp [fromVertex, hp], hd⟩
  apply V3.ext' <;> simp [fromVertex, lincomb]

theorem fromLineSegment_feas (pts : List V) (i j : Nat) (pi pj : V) (a b : ℝ)
    (hi : pts[i]? = some pi) (hj : pts[j]? = some pj) (ha : 0 < a) (hb : 0 < b) :
    ∃ c, fromLineSegment i j pi pj a b = .ok c ∧ Feas pts c := by
  have hs : a + b ≠ 0 := by positivity
  have e : fromLineSegment i j pi pj a b = .ok ⟨[i, j], [pi, pj], [a / (a + b), 1 - a / (a + b)],
      a / (a + b) * pi + (1 - a / (a + b)) * pj,
      V3.dot (a / (a + b) * pi + (1 - a / (a + b)) * pj) (a / (a + b) * pi + (1 - a / (a + b)) * pj),
      0⟩ := by
    simp only [fromLineSegment, cdiv_ok hs, bind, Except.bind]
  refine ⟨_, e, ?_⟩
  have h0 : 0 ≤ a / (a + b) := by positivity
  have h1 : 0 ≤ 1 - a / (a + b) := by
    have : 1 - a / (a + b) = b / (a + b) := by field_simp; ring
    rw [this]; positivity
  refine ⟨rfl, ?_, by simp, ?_, by simp [hi, hj], rfl⟩
  · intro x hx
    simp only [List.mem_cons, List.not_mem_nil, or_false] at hx
    rcases hx with rfl | rfl <;> assumption
  · apply V3.ext' <;> simp [lincomb]

theorem fromFace_feas (pts : List V) (i j k : Nat) (pi pj pk : V) (a b c : ℝ)
    (hi : pts[i]? = some pi) (hj : pts[j]? = some pj) (hk : pts[k]? = some pk)
    (ha : 0 < a) (hb : 0 < b) (hc : 0 < c) :
    ∃ s, fromFace i j k pi pj pk a b c = .ok s ∧ Feas pts s := by
  have hs : a + b + c ≠ 0 := by positivity
  have e : fromFace i j k pi pj pk a b c = .ok ⟨[i, j, k], [pi, pj, pk],
      [a / (a + b + c), b / (a + b + c), 1 - (a / (a + b + c) + b / (a + b + c))],
      a / (a + b + c) * pi + b / (a + b + c) * pj + (1 - (a / (a + b + c) + b / (a + b + c))) * pk,
      V3.dot (a / (a + b + c) * pi + b / (a + b + c) * pj + (1 - (a / (a + b + c) + b / (a + b + c))) * pk)
        (a / (a + b + c) * pi + b / (a + b + c) * pj + (1 - (a / (a + b + c) + b / (a + b + c))) * pk),
      0⟩ := by
    simp only [fromFace, cdiv_ok hs, bind, Except.bind]
  refine ⟨_, e, ?_⟩
  have h0 : 0 ≤ a / (a + b + c) := by positivity
  have h1 : 0 ≤ b / (a + b + c) := by positivity
  have h2 : 0 ≤ 1 - (a / (a + b + c) + b / (a + b + c)) := by
    have : 1 - (a / (a + b + c) + b / (a + b + c)) = c / (a + b + c) := by field_simp; ring
    rw [this]; positivity
  refine ⟨rfl, ?_, by simp only [List.sum_cons, List.sum_nil]; ring, ?_, by simp [hi, hj, hk], rfl⟩
  · intro x hx
    simp only [List.mem_cons, List.not_mem_nil, or_false] at hx
    rcases hx with rfl | rfl | rfl <;> assumption
  · apply V3.ext' <;> simp [lincomb, add_assoc]

theorem fromTetrahedron_feas (p0 p1 p2 p3 : V) (a b c d : ℝ)
    (ha : 0 < a) (hb : 0 < b) (hc : 0 < c) (hd : 0 < d) :
    ∃ s, fromTetrahedron p0 p1 p2 p3 a b c d = .ok s ∧ Feas [p0, p1, p2, p3] s := by
  have hs : a + b + c + d ≠ 0 := by positivity
  have e : fromTetrahedron p0 p1 p2 p3 a b c d = .ok ⟨[0, 1, 2, 3], [p0, p1, p2, p3],
      [a / (a + b + c + d), b / (a + b + c + d), c / (a + b + c + d), d / (a + b + c + d)],
      a / (a + b + c + d) * p0 + b / (a + b + c + d) * p1 + c / (a + b + c + d) * p2 +
        d / (a + b + c + d) * p3,
      V3.dot (a / (a + b + c + d) * p0 + b / (a + b + c + d) * p1 + c / (a + b + c + d) * p2 +
        d / (a + b + c + d) * p3) (a / (a + b + c + d) * p0 + b / (a + b + c + d) * p1 +
        c / (a + b + c + d) * p2 + d / (a + b + c + d) * p3), 0⟩ := by
    simp only [fromTetrahedron, cdiv_ok hs, bind, Except.bind]
  refine ⟨_, e, ?_⟩
  refine ⟨rfl, ?_, ?_, ?_, by simp, rfl⟩
  · intro x hx
    simp only [List.mem_cons, List.not_mem_nil, or_false] at hx
    rcases hx with rfl | rfl | rfl | rfl <;> positivity
  · simp only [List.sum_cons, List.sum_nil]; field_simp; ring
  · apply V3.ext' <;> simp [lincomb, add_assoc]

/-! ### the accept/reject steps keep feasibility and never increase the distance -/

theorem tryCand_feas (pts : List V) (cond : Bool) (cand : Except Err (Sol ℝ)) (bit : Nat)
    (cur : Sol ℝ) (hcur : Feas pts cur)
    (hc : cond = true → ∃ c, cand = .ok c ∧ Feas pts c) :
    ∃ r, tryCand cond cand bit cur = .ok r ∧ Feas pts r ∧ r.distSq ≤ cur.distSq ∧
      (cond = true → ∀ c, cand = .ok c → r.distSq ≤ c.distSq) := by
  cases cond
  · exact ⟨cur, rfl, hcur, le_refl _, fun h => by cases h⟩
  · obtain ⟨c, hc1, hc2⟩ := hc rfl
    by_cases hlt : c.distSq < cur.distSq
    · refine ⟨{ c with mask := cur.mask + bit }, by simp [tryCand, hc1, hlt, bind, Except.bind],
        hc2.mask _, hlt.le, fun _ c' hc' => ?_⟩
      rw [hc1] at hc'; cases hc'; exact le_refl _
    · refine ⟨cur, by simp [tryCand, hc1, hlt, bind, Except.bind], hcur, le_refl _,
        fun _ c' hc' => ?_⟩
      rw [hc1] at hc'; cases hc'; exact not_lt.mp hlt

theorem tryCandLast_feas (pts : List V) (cond : Bool) (cand : Except Err (Sol ℝ)) (bit : Nat)
    (cur : Sol ℝ) (hcur : Feas pts cur)
    (hc : cond = true → ∃ c, cand = .ok c ∧ Feas pts c) :
    ∃ r, tryCandLast cond cand bit cur = .ok r ∧ Feas pts r ∧ r.distSq ≤ cur.distSq ∧
      (cond = true → ∀ c, cand = .ok c → r.distSq ≤ c.distSq) := by
  cases cond
  · exact ⟨cur, rfl, hcur, le_refl _, fun h => by cases h⟩
  · obtain ⟨c, hc1, hc2⟩ := hc rfl
    by_cases hlt : c.distSq - cur.distSq < 0 ∨ (cur.idx.length = 4 ∧ c.distSq - cur.distSq ≤ 0)
    · refine ⟨{ c with mask := cur.mask + bit }, by simp only [tryCandLast, hc1, hlt, bind, Except.bind, if_true],
        hc2.mask _, ?_, fun _ c' hc' => ?_⟩
      · show c.distSq ≤ cur.distSq
        rcases hlt with h | ⟨_, h⟩ <;> linarith
      · rw [hc1] at hc'; cases hc'; exact le_refl _
    · refine ⟨cur, by simp only [tryCandLast, hc1, hlt, bind, Except.bind, if_true, if_false], hcur, le_refl _,
        fun _ c' hc' => ?_⟩
      rw [hc1] at hc'; cases hc'
      have : ¬ (c.distSq - cur.distSq < 0) := fun h => hlt (Or.inl h)
      linarith [not_lt.mp this]

theorem tryVertex_feas (pts : List V) (i : Nat) (p : V) (dii : ℝ) (bit : Nat) (cur : Sol ℝ)
    (hcur : Feas pts cur) (hp : pts[i]? = some p) (hd : dii = V3.dot p p) :
    Feas pts (tryVertex i p dii bit cur) ∧ (tryVertex i p dii bit cur).distSq ≤ cur.distSq ∧
      (tryVertex i p dii bit cur).distSq ≤ dii := by
  unfold tryVertex
  by_cases hlt : dii < cur.distSq
  · simp only [hlt, if_true]
    exact ⟨(fromVertex_feas pts i p dii hp hd).mask _, hlt.le, le_refl _⟩
  · simp only [hlt, if_false]
    exact ⟨hcur, le_refl _, not_lt.mp hlt⟩

theorem cond2 {x y : ℝ} (h : (!(decide (x ≤ 0) || decide (y ≤ 0))) = true) : 0 < x ∧ 0 < y := by
  simp only [Bool.not_eq_true', Bool.or_eq_false_iff, decide_eq_false_iff_not, not_le] at h
  exact h

theorem cond3 {x y z : ℝ} (h : (!(decide (x ≤ 0) || decide (y ≤ 0) || decide (z ≤ 0))) = true) :
    0 < x ∧ 0 < y ∧ 0 < z := by
  simp only [Bool.not_eq_true', Bool.or_eq_false_iff, decide_eq_false_iff_not, not_le] at h
  exact ⟨h.1.1, h.1.2, h.2⟩

theorem cond4 {x y z u : ℝ}
    (h : (!(decide (x ≤ EPS) || decide (y ≤ EPS) || decide (z ≤ EPS) || decide (u ≤ EPS))) = true) :
    0 < x ∧ 0 < y ∧ 0 < z ∧ 0 < u := by
  simp only [Bool.not_eq_true', Bool.or_eq_false_iff, decide_eq_false_iff_not, not_le] at h
  have := EPS_pos
  exact ⟨by linarith [h.1.1.1], by linarith [h.1.1.2], by linarith [h.1.2], by linarith [h.2]⟩

/-! ### the three procedures -/

theorem backupLine_feasible (p0 p1 : V) (t00 t10 t11 : ℝ)
    (h0 : t00 = V3.dot p0 p0) (h1 : t11 = V3.dot p1 p1) :
    ∃ r, backupLine p0 p1 t00 t10 t11 = .ok r ∧ Feas [p0, p1] r ∧
      r.distSq ≤ t00 ∧ r.distSq ≤ t11 := by
  unfold backupLine
  extract_lets d12 d02 s0 seg01
  have f0 : Feas [p0, p1] s0 := fromVertex_feas _ 0 p0 t00 rfl h0
  obtain ⟨s1, e1, f1, m1, _⟩ := tryCand_feas [p0, p1] seg01 (fromLineSegment 0 1 p0 p1 d02 d12) 1 s0 f0
    (fun h => fromLineSegment_feas _ 0 1 p0 p1 d02 d12 rfl rfl (cond2 h).1 (cond2 h).2)
  simp only [e1, bind, Except.bind]
  obtain ⟨f2, m2, v2⟩ := tryVertex_feas [p0, p1] 1 p1 t11 2 s1 f1 rfl h1
  refine ⟨_, rfl, f2, ?_, v2⟩
  have : s0.distSq = t00 := rfl
  linarith

theorem backupFace_feasible (p0 p1 p2 : V) (t00 t10 t11 t20 t21 t22 : ℝ)
    (h0 : t00 = V3.dot p0 p0) (h1 : t11 = V3.dot p1 p1) (h2 : t22 = V3.dot p2 p2) :
    ∃ r, backupFace p0 p1 p2 t00 t10 t11 t20 t21 t22 = .ok r ∧ Feas [p0, p1, p2] r ∧
      r.distSq ≤ t00 ∧ r.distSq ≤ t11 ∧ r.distSq ≤ t22 := by
  unfold backupFace
  extract_lets d12 d02 d24 e132 d26 e123 d04 d16 e213 d15 d25 d06 s0 seg01 seg02 face012 seg12
  have f0 : Feas [p0, p1, p2] s0 := fromVertex_feas _ 0 p0 t00 rfl h0
  have hs0 : s0.distSq = t00 := rfl
  obtain ⟨s1, e1, f1, m1, _⟩ := tryCand_feas [p0, p1, p2] seg01 (fromLineSegment 0 1 p0 p1 d02 d12) 1 s0 f0
    (fun h => fromLineSegment_feas _ 0 1 p0 p1 d02 d12 rfl rfl (cond2 h).1 (cond2 h).2)
  simp only [e1, bind, Except.bind]
  obtain ⟨s2, e2, f2, m2, _⟩ := tryCand_feas [p0, p1, p2] seg02 (fromLineSegment 0 2 p0 p2 d04 d24) 2 s1 f1
    (fun h => fromLineSegment_feas _ 0 2 p0 p2 d04 d24 rfl rfl (cond2 h).1 (cond2 h).2)
  simp only [e2]
  obtain ⟨s3, e3, f3, m3, _⟩ := tryCand_feas [p0, p1, p2] face012 (fromFace 0 1 2 p0 p1 p2 d06 d16 d26) 4 s2 f2
    (fun h => fromFace_feas _ 0 1 2 p0 p1 p2 d06 d16 d26 rfl rfl rfl (cond3 h).1 (cond3 h).2.1 (cond3 h).2.2)
  simp only [e3]
  obtain ⟨f4, m4, v4⟩ := tryVertex_feas [p0, p1, p2] 1 p1 t11 8 s3 f3 rfl h1
  set s4 := tryVertex 1 p1 t11 8 s3 with hs4
  obtain ⟨f5, m5, v5⟩ := tryVertex_feas [p0, p1, p2] 2 p2 t22 16 s4 f4 rfl h2
  set s5 := tryVertex 2 p2 t22 16 s4 with hs5
  obtain ⟨s6, e6, f6, m6, _⟩ := tryCand_feas [p0, p1, p2] seg12 (fromLineSegment 2 1 p2 p1 d25 d15) 32 s5 f5
    (fun h => fromLineSegment_feas _ 2 1 p2 p1 d25 d15 rfl rfl (cond2 h).2 (cond2 h).1)
  simp only [e6]
  refine ⟨_, rfl, f6, ?_, ?_, ?_⟩
  · have a4 : s4.distSq ≤ s3.distSq := m4
    have a5 : s5.distSq ≤ s4.distSq := m5
    linarith
  · have a4 : s4.distSq ≤ t11 := v4
    have a5 : s5.distSq ≤ s4.distSq := m5
    linarith
  · have a5 : s5.distSq ≤ t22 := v5
    linarith

theorem backupTetra_feasible (p0 p1 p2 p3 : V) (t00 t10 t11 t20 t21 t22 t30 t31 t32 t33 : ℝ)
    (h0 : t00 = V3.dot p0 p0) (h1 : t11 = V3.dot p1 p1) (h2 : t22 = V3.dot p2 p2)
    (h3 : t33 = V3.dot p3 p3) :
    ∃ r, backupTetra p0 p1 p2 p3 t00 t10 t11 t20 t21 t22 t30 t31 t32 t33 = .ok r ∧
      Feas [p0, p1, p2, p3] r ∧
      r.distSq ≤ t00 ∧ r.distSq ≤ t11 ∧ r.distSq ≤ t22 ∧ r.distSq ≤ t33 := by
  unfold backupTetra
  extract_lets d12 d02 d24 e132 d26 e123 d04 d16 e213 d15 d25 d06 d38 e142 d311 e143 d312 d314
    e124 e134 d08 d111 d212 d19 d39 e214 d011 d214 d210 d310 e314 d012 d114 e243 d313 e234 d213
    e324 d113 d014 s0 seg01 seg02 face012 seg03 face013 face023 hull seg12 seg13 seg23 face123
  have f0 : Feas [p0, p1, p2, p3] s0 := fromVertex_feas _ 0 p0 t00 rfl h0
  have hs0 : s0.distSq = t00 := rfl
  obtain ⟨s1, e1, f1, m1, _⟩ := tryCand_feas [p0, p1, p2, p3] seg01
    (fromLineSegment 0 1 p0 p1 d02 d12) 1 s0 f0
    (fun h => fromLineSegment_feas _ 0 1 p0 p1 d02 d12 rfl rfl (cond2 h).1 (cond2 h).2)
  simp only [e1, bind, Except.bind]
  obtain ⟨s2, e2, f2, m2, _⟩ := tryCand_feas [p0, p1, p2, p3] seg02
    (fromLineSegment 0 2 p0 p2 d04 d24) 2 s1 f1
    (fun h => fromLineSegment_feas _ 0 2 p0 p2 d04 d24 rfl rfl (cond2 h).1 (cond2 h).2)
  simp only [e2]
  obtain ⟨s3, e3, f3, m3, _⟩ := tryCand_feas [p0, p1, p2, p3] face012
    (fromFace 0 1 2 p0 p1 p2 d06 d16 d26) 4 s2 f2
    (fun h => fromFace_feas _ 0 1 2 p0 p1 p2 d06 d16 d26 rfl rfl rfl (cond3 h).1 (cond3 h).2.1 (cond3 h).2.2)
  simp only [e3]
  obtain ⟨s4, e4, f4, m4, _⟩ := tryCand_feas [p0, p1, p2, p3] seg03
    (fromLineSegment 0 3 p0 p3 d08 d38) 8 s3 f3
    (fun h => fromLineSegment_feas _ 0 3 p0 p3 d08 d38 rfl rfl (cond2 h).1 (cond2 h).2)
  simp only [e4]
  obtain ⟨s5, e5, f5, m5, _⟩ := tryCand_feas [p0, p1, p2, p3] face013
    (fromFace 0 1 3 p0 p1 p3 d011 d111 d311) 16 s4 f4
    (fun h => fromFace_feas _ 0 1 3 p0 p1 p3 d011 d111 d311 rfl rfl rfl (cond3 h).1 (cond3 h).2.1 (cond3 h).2.2)
  simp only [e5]
  obtain ⟨s6, e6, f6, m6, _⟩ := tryCand_feas [p0, p1, p2, p3] face023
    (fromFace 0 3 2 p0 p3 p2 d012 d312 d212) 32 s5 f5
    (fun h => fromFace_feas _ 0 3 2 p0 p3 p2 d012 d312 d212 rfl rfl rfl (cond3 h).1 (cond3 h).2.2 (cond3 h).2.1)
  simp only [e6]
  obtain ⟨s7, e7, f7, m7, _⟩ := tryCand_feas [p0, p1, p2, p3] hull
    (fromTetrahedron p0 p1 p2 p3 d014 d114 d214 d314) 64 s6 f6
    (fun h => fromTetrahedron_feas p0 p1 p2 p3 d014 d114 d214 d314 (cond4 h).1 (cond4 h).2.1
      (cond4 h).2.2.1 (cond4 h).2.2.2)
  simp only [e7]
  obtain ⟨f8, m8, v8⟩ := tryVertex_feas [p0, p1, p2, p3] 1 p1 t11 128 s7 f7 rfl h1
  set s8 := tryVertex 1 p1 t11 128 s7 with hs8
  obtain ⟨f9, m9, v9⟩ := tryVertex_feas [p0, p1, p2, p3] 2 p2 t22 256 s8 f8 rfl h2
  set s9 := tryVertex 2 p2 t22 256 s8 with hs9
  obtain ⟨f10, m10, v10⟩ := tryVertex_feas [p0, p1, p2, p3] 3 p3 t33 512 s9 f9 rfl h3
  set s10 := tryVertex 3 p3 t33 512 s9 with hs10
  obtain ⟨s11, e11, f11, m11, _⟩ := tryCand_feas [p0, p1, p2, p3] seg12
    (fromLineSegment 2 1 p2 p1 d25 d15) 1024 s10 f10
    (fun h => fromLineSegment_feas _ 2 1 p2 p1 d25 d15 rfl rfl (cond2 h).2 (cond2 h).1)
  simp only [e11]
  obtain ⟨s12, e12, f12, m12, _⟩ := tryCand_feas [p0, p1, p2, p3] seg13
    (fromLineSegment 3 1 p3 p1 d39 d19) 2048 s11 f11
    (fun h => fromLineSegment_feas _ 3 1 p3 p1 d39 d19 rfl rfl (cond2 h).2 (cond2 h).1)
  simp only [e12]
  obtain ⟨s13, e13, f13, m13, _⟩ := tryCand_feas [p0, p1, p2, p3] seg23
    (fromLineSegment 2 3 p2 p3 d210 d310) 4096 s12 f12
    (fun h => fromLineSegment_feas _ 2 3 p2 p3 d210 d310 rfl rfl (cond2 h).1 (cond2 h).2)
  simp only [e13]
  obtain ⟨s14, e14, f14, m14, _⟩ := tryCandLast_feas [p0, p1, p2, p3] face123
    (fromFace 3 1 2 p3 p1 p2 d313 d113 d213) 8192 s13 f13
    (fun h => fromFace_feas _ 3 1 2 p3 p1 p2 d313 d113 d213 rfl rfl rfl (cond3 h).2.2 (cond3 h).1 (cond3 h).2.1)
  simp only [e14]
  have a8 : s8.distSq ≤ s7.distSq := m8
  have a9 : s9.distSq ≤ s8.distSq := m9
  have a10 : s10.distSq ≤ s9.distSq := m10
  have b8 : s8.distSq ≤ t11 := v8
  have b9 : s9.distSq ≤ t22 := v9
  have b10 : s10.distSq ≤ t33 := v10
  exact ⟨_, rfl, f14, by linarith, by linarith, by linarith, by linarith⟩

/-! ### the array wrapper `backupProcedure` -/

theorem backupProcedure_eq4 (p0 p1 p2 p3 : V) (t00 t10 t11 t20 t21 t22 t30 t31 t32 t33 : ℝ) :
    backupProcedure #[p0, p1, p2, p3] #[t00, t10, t11, t20, t21, t22, t30, t31, t32, t33] =
    (backupTetra p0 p1 p2 p3 t00 t10 t11 t20 t21 t22 t30 t31 t32 t33 >>= fun s =>
      .ok ⟨s.idx, s.ps, s.w, s.pt, s.distSq, 16384 * 4 + s.mask⟩) := rfl

theorem backupProcedure_eq3 (p0 p1 p2 : V) (t00 t10 t11 t20 t21 t22 : ℝ) :
    backupProcedure #[p0, p1, p2] #[t00, t10, t11, t20, t21, t22] =
    (backupFace p0 p1 p2 t00 t10 t11 t20 t21 t22 >>= fun s =>
      .ok ⟨s.idx, s.ps, s.w, s.pt, s.distSq, 16384 * 3 + s.mask⟩) := rfl

theorem backupProcedure_eq2 (p0 p1 : V) (t00 t10 t11 : ℝ) :
    backupProcedure #[p0, p1] #[t00, t10, t11] =
    (backupLine p0 p1 t00 t10 t11 >>= fun s =>
      .ok ⟨s.idx, s.ps, s.w, s.pt, s.distSq, 16384 * 2 + s.mask⟩) := rfl

theorem backupProcedure_eq1 (p0 : V) (t00 : ℝ) :
    backupProcedure #[p0] #[t00] = .ok ⟨[0], [p0], [1], p0, t00, 16384 * 1 + 0⟩ := rfl

end SimplexOrig
end D3
