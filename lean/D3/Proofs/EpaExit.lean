/-
EPA, exit-branch lemmas (S2): what the success exit of `epa` implies for an arbitrary set
`M = A ⊖ B`, for every polytope state, assuming only that the point handed back by the two
colliders is a support point of `M` in the direction of the closest face's normal.
Plus the link from the executable model (`closest`, `stepWith`, `loop`) to these statements.
-/
import D3.Spec.Vec
import D3.Model.Epa

namespace D3
namespace Epa

/-- unit vector -/
def IsUnitVec (n : V) : Prop := V3.dot n n = 1

/-- the Minkowski difference after collider 2 has been translated by `t`:
`A ⊖ (B + t) = (A ⊖ B) − t` -/
def shifted (M : V → Prop) (t : V) : V → Prop := fun y => ∃ x, M x ∧ y = x - t

/-- inner closed half-space of a face (stored normal, plane through vertex `a`) -/
def Inner (f : Face ℝ) (x : V) : Prop := V3.dot f.n x ≤ faceDist f

/-- intersection of the inner half-spaces of all faces -/
def Poly (faces : List (Face ℝ)) (x : V) : Prop := ∀ f ∈ faces, Inner f x

/-- The polytope invariant of EPA, in half-space form: unit normals, the origin on the inner
side of every face (`d_f ≥ 0`), and the region bounded by the faces lies inside `M`. -/
structure EpaInv (M : V → Prop) (faces : List (Face ℝ)) : Prop where
  unit : ∀ f ∈ faces, IsUnitVec f.n
  nonneg : ∀ f ∈ faces, 0 ≤ faceDist f
  inside : ∀ x, Poly faces x → M x

theorem mtvOf_def (n w : V) : mtvOf n w = V3.dot w n * n := rfl

theorem dot_mtvOf (n w x : V) : V3.dot (mtvOf n w) x = V3.dot w n * V3.dot n x := by
  simp only [mtvOf, V3.smul, V3.dot_def]; ring

/-- `⟨a, b⟩ ≤ 1` for unit vectors -/
theorem dot_le_one_of_unit {a b : V} (ha : IsUnitVec a) (hb : IsUnitVec b) : V3.dot a b ≤ 1 := by
  have h := V3.dot_sq_le a b
  unfold IsUnitVec at ha hb
  rw [V3.normSq, V3.normSq, ha, hb] at h
  nlinarith [h]

/-- every point of `M` is below the support plane -/
theorem support_plane {M : V → Prop} {n w : V} (hw : IsSupport M n w) :
    ∀ x, M x → V3.dot x n ≤ V3.dot w n := by
  intro x hx
  have := hw.2 x hx
  rw [V3.dot_comm x n, V3.dot_comm w n]; exact this

/-- after translating collider 2 by `mtv = ⟨w,n⟩ n` the whole difference lies in `⟨y, n⟩ ≤ 0` -/
theorem shifted_below {M : V → Prop} {n w : V} (hn : IsUnitVec n) (hw : IsSupport M n w) :
    ∀ y, shifted M (mtvOf n w) y → V3.dot y n ≤ 0 := by
  rintro y ⟨x, hx, rfl⟩
  have h := support_plane hw x hx
  unfold IsUnitVec at hn
  simp only [mtvOf, V3.smul, V3.dot_def, V3.sub_x, V3.sub_y, V3.sub_z] at *
  have e : (x.x - (w.x * n.x + w.y * n.y + w.z * n.z) * n.x) * n.x +
      (x.y - (w.x * n.x + w.y * n.y + w.z * n.z) * n.y) * n.y +
      (x.z - (w.x * n.x + w.y * n.y + w.z * n.z) * n.z) * n.z =
      (x.x * n.x + x.y * n.y + x.z * n.z) -
        (w.x * n.x + w.y * n.y + w.z * n.z) * (n.x * n.x + n.y * n.y + n.z * n.z) := by ring
  rw [e, hn]; linarith

/-- … so the origin is not an interior point of the translated difference: every ball around
it contains a point outside -/
theorem origin_not_interior {M : V → Prop} {n w : V} (hn : IsUnitVec n) (hw : IsSupport M n w)
    (r : ℝ) (hr : 0 < r) : ∃ y : V, V3.normSq y < r * r ∧ ¬ shifted M (mtvOf n w) y := by
  refine ⟨(r / 2) * n, ?_, ?_⟩
  · unfold IsUnitVec at hn
    simp only [V3.normSq_def, V3.dot_def, V3.smul_x, V3.smul_y, V3.smul_z] at *
    nlinarith [hn, hr]
  · intro hy
    have := shifted_below hn hw _ hy
    unfold IsUnitVec at hn
    simp only [V3.dot_def, V3.smul_x, V3.smul_y, V3.smul_z] at *
    nlinarith [hn, hr]

/-- the translated difference still touches the separating plane (at `w − mtv`) -/
theorem shifted_touches {M : V → Prop} {n w : V} (hn : IsUnitVec n) (hw : IsSupport M n w) :
    shifted M (mtvOf n w) (w - mtvOf n w) ∧ V3.dot (w - mtvOf n w) n = 0 := by
  refine ⟨⟨w, hw.1, rfl⟩, ?_⟩
  unfold IsUnitVec at hn
  simp only [mtvOf, V3.smul, V3.dot_def, V3.sub_x, V3.sub_y, V3.sub_z] at *
  linear_combination (-(w.x * n.x + w.y * n.y + w.z * n.z)) * hn

/-- length of the returned vector -/
theorem norm_mtvOf {n w : V} (hn : IsUnitVec n) : V3.norm (mtvOf n w) = |V3.dot w n| := by
  rw [V3.norm_def]
  have : V3.normSq (mtvOf n w) = V3.dot w n * V3.dot w n := by
    unfold IsUnitVec at hn
    simp only [mtvOf, V3.smul, V3.normSq_def, V3.dot_def] at *
    linear_combination ((w.x * n.x + w.y * n.y + w.z * n.z) * (w.x * n.x + w.y * n.y + w.z * n.z)) * hn
  rw [this, ← sq, Real.sqrt_sq_eq_abs]

/-- the point `d • m` lies in the polytope when `d` is the smallest face distance -/
theorem scaled_unit_in_poly {faces : List (Face ℝ)} {d : ℝ} {m : V}
    (hunit : ∀ f ∈ faces, IsUnitVec f.n) (hd : 0 ≤ d) (hmin : ∀ g ∈ faces, d ≤ faceDist g)
    (hm : IsUnitVec m) : Poly faces (d * m) := by
  intro g hg
  have h1 := dot_le_one_of_unit (hunit g hg) hm
  have h2 := hmin g hg
  unfold Inner
  have : V3.dot g.n (d * m) = d * V3.dot g.n m := by
    simp only [V3.dot_def, V3.smul_x, V3.smul_y, V3.smul_z]; ring
  rw [this]
  nlinarith [h1, h2, hd]

/-! ### the executable model -/

theorem argminGo_spec : ∀ (xs : List ℝ) (i bi : Nat) (bv : ℝ) (pre : List ℝ),
    pre.length = i → bi < i → pre[bi]? = some bv → (∀ y ∈ pre, bv ≤ y) →
    let r := argminGo xs i bi bv
    (pre ++ xs)[r.1]? = some r.2 ∧ ∀ y ∈ pre ++ xs, r.2 ≤ y
  | [], i, bi, bv, pre, _, _, hget, hmin => by
    simp only [argminGo, List.append_nil]
    exact ⟨hget, hmin⟩
  | x :: xs, i, bi, bv, pre, hlen, hbi, hget, hmin => by
    simp only [argminGo]
    have hcons : pre ++ x :: xs = (pre ++ [x]) ++ xs := by simp
    split
    · rename_i hlt
      rw [hcons]
      apply argminGo_spec xs (i + 1) i x (pre ++ [x])
      · simp [hlen]
      · omega
      · rw [← hlen]; simp
      · intro y hy
        rcases List.mem_append.mp hy with h | h
        · exact le_of_lt (lt_of_lt_of_le hlt (hmin y h))
        · simp at h; rw [h]
    · rename_i hnlt
      rw [hcons]
      apply argminGo_spec xs (i + 1) bi bv (pre ++ [x])
      · simp [hlen]
      · omega
      · rw [List.getElem?_append_left (by omega)]; exact hget
      · intro y hy
        rcases List.mem_append.mp hy with h | h
        · exact hmin y h
        · simp at h; rw [h]; exact not_lt.mp hnlt

theorem argmin_spec {xs : List ℝ} {i : Nat} {d : ℝ} (h : argmin xs = some (i, d)) :
    xs[i]? = some d ∧ ∀ y ∈ xs, d ≤ y := by
  cases xs with
  | nil => simp [argmin] at h
  | cons x xs =>
    simp only [argmin, Option.some.injEq] at h
    have := argminGo_spec xs 1 0 x [x] rfl (by omega) rfl (by intro y hy; simp at hy; rw [hy])
    simp only [List.singleton_append] at this
    rw [h] at this
    exact this

/-- `find_face_closest_to_origin` returns a face of the list with the smallest `⟨v0, n⟩` -/
theorem closest_spec {faces : List (Face ℝ)} {i : Nat} {d : ℝ} {f : Face ℝ}
    (h : closest faces = .ok (i, d, f)) :
    faces[i]? = some f ∧ f ∈ faces ∧ d = faceDist f ∧ ∀ g ∈ faces, d ≤ faceDist g := by
  unfold closest at h
  split at h
  · exact absurd h (by simp)
  · rename_i j e ha
    split at h
    · rename_i g hg
      simp only [Except.ok.injEq, Prod.mk.injEq] at h
      obtain ⟨rfl, rfl, rfl⟩ := h
      obtain ⟨h1, h2⟩ := argmin_spec ha
      refine ⟨hg, List.mem_of_getElem? hg, ?_, ?_⟩
      · rw [List.getElem?_map, hg] at h1
        simpa using h1.symm
      · intro g' hg'
        exact h2 _ (List.mem_map_of_mem hg')
    · exact absurd h (by simp)

/-- the loop body returns `done` exactly on the convergence test, with `mtv = n ⟨w, n⟩` -/
theorem stepWith_done {p : Params ℝ} {fix : Face ℝ → Face ℝ} {faces : List (Face ℝ)} {d : ℝ}
    {f : Face ℝ} {w mtv : V} (h : stepWith p fix faces d f w = .ok (.done mtv)) :
    V3.dot w f.n - d < p.eps ∧ mtv = mtvOf f.n w := by
  unfold stepWith at h
  split at h
  · rename_i hc
    simp only [Except.ok.injEq, StepOut.done.injEq] at h
    simp only [converged, decide_eq_true_eq] at hc
    exact ⟨hc, h.symm⟩
  · dsimp only at h
    split at h <;> simp at h

/-- **success exit of the whole loop**: whatever happened before, a result with
`success = true` was produced by a closest-face search on the returned faces followed by a
passed convergence test with the support point of that iteration. -/
theorem loop_success {p : Params ℝ} {fix : Face ℝ → Face ℝ} {supp : Nat → V → V} :
    ∀ (k it : Nat) (faces : List (Face ℝ)) (last : Option Nat) (r : Result ℝ),
      loop p fix supp k it faces last = .ok r → r.success = true →
      ∃ (i : Nat) (f : Face ℝ) (j : Nat),
        closest r.faces = .ok (i, faceDist f, f) ∧
        V3.dot (supp j f.n) f.n - faceDist f < p.eps ∧
        r.mtv = some (mtvOf f.n (supp j f.n))
  | 0, it, faces, last, r, h, hs => by
    unfold loop at h
    split at h
    · simp at h
    · split at h <;> (simp only [Except.ok.injEq] at h; subst h; simp at hs)
  | k + 1, it, faces, last, r, h, hs => by
    unfold loop at h
    split at h
    · simp at h
    · rename_i i d f hc
      split at h
      · simp at h
      · rename_i mtv hst
        simp only [Except.ok.injEq] at h
        subst h
        obtain ⟨h1, h2⟩ := stepWith_done hst
        obtain ⟨_, _, hd, _⟩ := closest_spec hc
        subst hd
        exact ⟨i, f, it, hc, h1, by rw [h2]⟩
      · rename_i faces' _ _ _ hst
        exact loop_success k (it + 1) faces' (some i) r h hs

end Epa
end D3
