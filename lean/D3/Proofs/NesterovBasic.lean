/-
C09 — vocabulary and analytic core for the Nesterov-accelerated GJK theorems (ℝ, Mathlib):
norm lemmas on `V3 ℝ`, Minkowski difference, distance of the origin to a set (as an infimum,
no compactness assumed), weak duality (`omega` is a lower bound), the duality-gap exit and the
set-level inflation identity.
-/
import D3.Spec.Vec
import D3.Model.Nesterov
import Mathlib.Tactic.NormNum

namespace D3
namespace Nesterov

/-! ### norm lemmas -/

theorem norm_sq' (a : V) : V3.norm a ^ 2 = V3.normSq a := by
  rw [pow_two]; exact V3.norm_sq a

theorem normSq_eq_dot (a : V) : V3.normSq a = V3.dot a a := rfl

theorem norm_zero' : V3.norm (⟨0, 0, 0⟩ : V) = 0 := by
  simp [V3.norm_def, V3.normSq_def]

theorem norm_eq_zero {a : V} (h : V3.norm a = 0) : a = ⟨0, 0, 0⟩ := by
  apply V3.normSq_eq_zero
  have := V3.norm_sq a
  rw [h] at this; linarith

theorem norm_neg' (a : V) : V3.norm (-a) = V3.norm a := by
  simp only [V3.norm_def, V3.normSq_def, V3.neg_x, V3.neg_y, V3.neg_z]
  congr 1; ring

theorem norm_sub_comm' (a b : V) : V3.norm (a - b) = V3.norm (b - a) := by
  simp only [V3.norm_def, V3.normSq_def, V3.sub_x, V3.sub_y, V3.sub_z]
  congr 1; ring

theorem norm_smul' (s : ℝ) (a : V) : V3.norm (s * a) = |s| * V3.norm a := by
  have h : V3.normSq (s * a) = (|s| * V3.norm a) * (|s| * V3.norm a) := by
    have := V3.norm_sq a
    calc V3.normSq (s * a) = s * s * V3.normSq a := by
          simp only [V3.normSq_def, V3.smul_x, V3.smul_y, V3.smul_z]; ring
      _ = |s| * |s| * (V3.norm a * V3.norm a) := by rw [abs_mul_abs_self, this]
      _ = _ := by ring
  rw [V3.norm_def, h]
  exact Real.sqrt_mul_self (mul_nonneg (abs_nonneg s) (V3.norm_nonneg a))

theorem norm_add_le' (a b : V) : V3.norm (a + b) ≤ V3.norm a + V3.norm b := by
  have ha := V3.norm_nonneg a
  have hb := V3.norm_nonneg b
  have hab := V3.norm_nonneg (a + b)
  have h1 : V3.normSq (a + b) = V3.normSq a + 2 * V3.dot a b + V3.normSq b := by
    simp only [V3.normSq_def, V3.dot_def, V3.add_x, V3.add_y, V3.add_z]; ring
  have h2 := V3.dot_le_norm_mul a b
  have h3 := V3.norm_sq (a + b)
  have h4 := V3.norm_sq a
  have h5 := V3.norm_sq b
  nlinarith [h1, h2, h3, h4, h5]

theorem norm_sub_le' (a b : V) : V3.norm (a - b) ≤ V3.norm a + V3.norm b := by
  have h : a - b = a + -b := by apply V3.ext' <;> simp <;> ring
  rw [h]
  calc V3.norm (a + -b) ≤ V3.norm a + V3.norm (-b) := norm_add_le' a (-b)
    _ = _ := by rw [norm_neg']

/-- reverse triangle inequality in the form used for inflated shapes -/
theorem norm_ge_sub (a u v : V) : V3.norm a - V3.norm u - V3.norm v ≤ V3.norm (a + u - v) := by
  have h : a = (a + u - v) + (v - u) := by apply V3.ext' <;> simp
  have h1 : V3.norm a ≤ V3.norm (a + u - v) + V3.norm (v - u) := by
    conv_lhs => rw [h]
    exact norm_add_le' _ _
  have h2 := norm_sub_le' v u
  linarith

/-! ### sets, Minkowski difference, distance of the origin -/

/-- `A ⊖ B` -/
def mdiff (A B : V → Prop) : V → Prop := fun z => ∃ x y, A x ∧ B y ∧ z = x - y

/-- `c` is a lower bound of the distance of the origin to `M` -/
def LowerBound (M : V → Prop) (c : ℝ) : Prop := ∀ x, M x → c ≤ V3.norm x

/-- `δ = inf { |x| : x ∈ M }` (the true distance of the two colliders when `M = A ⊖ B`) -/
def IsDist (M : V → Prop) (δ : ℝ) : Prop :=
  LowerBound M δ ∧ ∀ ε, 0 < ε → ∃ x, M x ∧ V3.norm x < δ + ε

/-- `K ⊕ ball r` : the sphere / capsule with core `K` (centre point / axis segment) and radius `r` -/
def inflate (K : V → Prop) (r : ℝ) : V → Prop := fun p => ∃ c, K c ∧ V3.norm (p - c) ≤ r

theorem IsDist.nonneg {M : V → Prop} {δ : ℝ} (h : IsDist M δ) : 0 ≤ δ := by
  by_contra hn
  rw [not_le] at hn
  obtain ⟨x, _, hx⟩ := h.2 (-δ) (by linarith)
  have := V3.norm_nonneg x
  linarith

theorem LowerBound.le_dist {M : V → Prop} {c δ : ℝ} (hc : LowerBound M c) (h : IsDist M δ) : c ≤ δ := by
  by_contra hn
  rw [not_le] at hn
  obtain ⟨x, hx, hlt⟩ := h.2 ((c - δ) / 2) (by linarith)
  have := hc x hx
  linarith

theorem IsDist.le_norm {M : V → Prop} {δ : ℝ} (h : IsDist M δ) {v : V} (hv : M v) : δ ≤ V3.norm v :=
  h.1 v hv

theorem lowerBound_zero (M : V → Prop) : LowerBound M 0 := fun x _ => V3.norm_nonneg x

theorem LowerBound.max {M : V → Prop} {a b : ℝ} (ha : LowerBound M a) (hb : LowerBound M b) :
    LowerBound M (max a b) := fun x hx => max_le (ha x hx) (hb x hx)

/-! ### weak duality -/

/-- the pair returned by `support_function(-ray_dir, …)` : `s0` maximises `⟨-d,·⟩` on `A`, `s1`
maximises `⟨d,·⟩` on `B`; their difference minimises `⟨d,·⟩` on `A ⊖ B`. -/
theorem support_pair_minimises {A B : V → Prop} {d s0 s1 : V}
    (h0 : IsSupport A (-d) s0) (h1 : IsSupport B d s1) :
    mdiff A B (s0 - s1) ∧ ∀ z, mdiff A B z → V3.dot d (s0 - s1) ≤ V3.dot d z := by
  refine ⟨⟨s0, s1, h0.1, h1.1, rfl⟩, ?_⟩
  rintro z ⟨x, y, hx, hy, rfl⟩
  have a := h0.2 x hx
  have b := h1.2 y hy
  simp only [V3.dot_def, V3.neg_x, V3.neg_y, V3.neg_z, V3.sub_x, V3.sub_y, V3.sub_z] at *
  linarith

theorem cdiv_real {x y q : ℝ} (h : cdiv x y = .ok q) : y ≠ 0 ∧ q = x / y := by
  unfold cdiv at h
  split at h
  · rename_i hy
    injection h with h
    exact ⟨by rcases hy with hy | hy <;> [exact ne_of_lt hy; exact ne_of_gt hy], h.symm⟩
  · cases h

/-- **weak duality**: whatever direction `d ≠ 0` is used (the ray itself or the momentum
direction), `ω = ⟨d, s⟩ / |d|` with `s` minimising `⟨d,·⟩` over `M` is a lower bound of the
distance of the origin to `M`. -/
theorem omega_lower_bound_core {M : V → Prop} {d s : V} {ω : ℝ}
    (hs : ∀ x, M x → V3.dot d s ≤ V3.dot d x) (hω : omegaOf d s = .ok ω) : LowerBound M ω := by
  obtain ⟨hne, rfl⟩ := cdiv_real hω
  intro x hx
  have hn : 0 < V3.norm d := lt_of_le_of_ne (V3.norm_nonneg d) (Ne.symm hne)
  rw [div_le_iff₀ hn]
  calc V3.dot d s ≤ V3.dot d x := hs x hx
    _ ≤ V3.norm d * V3.norm x := V3.dot_le_norm_mul d x
    _ = V3.norm x * V3.norm d := mul_comm _ _

/-! ### the duality-gap exit -/

theorem cvCheckPassed_iff (tol rayLen alpha : ℝ) :
    cvCheckPassed tol rayLen alpha = true ↔ rayLen - alpha ≤ tol * rayLen := by
  unfold cvCheckPassed
  simp only [decide_eq_true_eq]
  constructor <;> intro h <;> linarith

theorem cv_exit_core {M : V → Prop} {v : V} {tol alpha δ : ℝ}
    (hv : M v) (hα : LowerBound M alpha) (hδ : IsDist M δ)
    (hcv : cvCheckPassed tol (V3.norm v) alpha = true) :
    alpha ≤ δ ∧ δ ≤ V3.norm v ∧ |V3.norm v - δ| ≤ tol * V3.norm v := by
  have h1 := hα.le_dist hδ
  have h2 := hδ.le_norm hv
  rw [cvCheckPassed_iff] at hcv
  refine ⟨h1, h2, ?_⟩
  rw [abs_of_nonneg (by linarith)]
  linarith

/-! ### inflation: `dist(A ⊕ ball rA, B ⊕ ball rB) = max 0 (dist(A, B) − rA − rB)` -/

theorem inflate_lower {A B : V → Prop} {δ rA rB : ℝ} (hδ : LowerBound (mdiff A B) δ) :
    LowerBound (mdiff (inflate A rA) (inflate B rB)) (max 0 (δ - rA - rB)) := by
  rintro z ⟨p, q, ⟨c, hc, hpc⟩, ⟨c', hc', hqc⟩, rfl⟩
  apply max_le (V3.norm_nonneg _)
  have h0 := hδ (c - c') ⟨c, c', hc, hc', rfl⟩
  have h1 := norm_ge_sub (c - c') (p - c) (q - c')
  have h2 : c - c' + (p - c) - (q - c') = p - q := by apply V3.ext' <;> simp
  rw [h2] at h1
  linarith

theorem inflate_attain {A B : V → Prop} {δ rA rB : ℝ} (hA : 0 ≤ rA) (hB : 0 ≤ rB)
    (hδ : IsDist (mdiff A B) δ) (ε : ℝ) (hε : 0 < ε) :
    ∃ z, mdiff (inflate A rA) (inflate B rB) z ∧ V3.norm z < max 0 (δ - rA - rB) + ε := by
  obtain ⟨w, ⟨c, c', hc, hc', rfl⟩, hw⟩ := hδ.2 ε hε
  set D := V3.norm (c - c') with hD
  have hD0 : 0 ≤ D := V3.norm_nonneg _
  by_cases hcase : D ≤ rA + rB
  · -- the inflated shapes meet: a common point on the segment from c to c'
    by_cases hz : D = 0
    · have hcc : c - c' = ⟨0, 0, 0⟩ := norm_eq_zero (by rw [← hD, hz])
      have hpc : c - c = (⟨0, 0, 0⟩ : V) := by apply V3.ext' <;> simp
      refine ⟨c - c, ⟨c, c, ⟨c, hc, by rw [hpc, norm_zero']; exact hA⟩,
        ⟨c', hc', by rw [hcc, norm_zero']; exact hB⟩, rfl⟩, ?_⟩
      rw [hpc, norm_zero']
      have := le_max_left 0 (δ - rA - rB)
      linarith
    · have hDpos : 0 < D := lt_of_le_of_ne hD0 (Ne.symm hz)
      have hsum : 0 < rA + rB := lt_of_lt_of_le hDpos hcase
      set t := rA / (rA + rB) with ht
      have ht0 : 0 ≤ t := div_nonneg hA hsum.le
      have ht1 : t ≤ 1 := by rw [ht, div_le_one hsum]; linarith
      have htD : t * D ≤ rA := by
        rw [ht, div_mul_eq_mul_div, div_le_iff₀ hsum]; nlinarith
      have htD' : (1 - t) * D ≤ rB := by
        have : 1 - t = rB / (rA + rB) := by rw [ht]; field_simp; ring
        rw [this, div_mul_eq_mul_div, div_le_iff₀ hsum]; nlinarith
      -- p = c - t (c - c')
      let p : V := c - t * (c - c')
      have hp1 : p - c = (-t) * (c - c') := by apply V3.ext' <;> simp [p]
      have hp2 : p - c' = (1 - t) * (c - c') := by apply V3.ext' <;> simp [p] <;> ring
      have hpp : p - p = (⟨0, 0, 0⟩ : V) := by apply V3.ext' <;> simp
      refine ⟨p - p, ⟨p, p, ⟨c, hc, ?_⟩, ⟨c', hc', ?_⟩, rfl⟩, ?_⟩
      · rw [hp1, norm_smul', abs_neg, abs_of_nonneg ht0]; exact htD
      · rw [hp2, norm_smul', abs_of_nonneg (by linarith)]; exact htD'
      · rw [hpp, norm_zero']
        have := le_max_left 0 (δ - rA - rB)
        linarith
  · rw [not_le] at hcase
    have hDpos : 0 < D := by linarith
    -- p = c - (rA / D) (c - c'),  q = c' + (rB / D) (c - c')
    let p : V := c - (rA / D) * (c - c')
    let q : V := c' + (rB / D) * (c - c')
    have hp1 : p - c = (-(rA / D)) * (c - c') := by apply V3.ext' <;> simp [p]
    have hq1 : q - c' = (rB / D) * (c - c') := by apply V3.ext' <;> simp [q]
    have hpq : p - q = (1 - (rA + rB) / D) * (c - c') := by
      apply V3.ext' <;> simp [p, q] <;> field_simp <;> ring
    refine ⟨p - q, ⟨p, q, ⟨c, hc, ?_⟩, ⟨c', hc', ?_⟩, rfl⟩, ?_⟩
    · rw [hp1, norm_smul', abs_neg, abs_of_nonneg (div_nonneg hA hDpos.le), ← hD,
        div_mul_cancel₀ _ (ne_of_gt hDpos)]
    · rw [hq1, norm_smul', abs_of_nonneg (div_nonneg hB hDpos.le), ← hD,
        div_mul_cancel₀ _ (ne_of_gt hDpos)]
    · have hpos : 0 ≤ 1 - (rA + rB) / D := by
        rw [sub_nonneg, div_le_one hDpos]; linarith
      rw [hpq, norm_smul', abs_of_nonneg hpos, ← hD]
      have : (1 - (rA + rB) / D) * D = D - rA - rB := by field_simp; ring
      rw [this]
      have := le_max_right 0 (δ - rA - rB)
      linarith

end Nesterov
end D3
