/-
C15 helper lemmas, part 2: from the contact plane to the 3-D polygon (`α := ℝ`).

* `makeHalfplaneRow_side`   : for a kept row the quantity tested by `point_outside_of_halfplane`
                              equals `⟨n2d, q⟩ - ds`;
* `halfplane_trace`         : … which is the barycentric coordinate `⟨n, x⟩ + c` of the lifted point
                              `x = plane_point + q₀·cx + q₁·cy` (for **every** `cart2plane`, orthonormal or not);
* `skipped_row_coordinate`  : for a skipped row the coordinate of the lifted point is
                              `⟨n2d, q⟩ + λ(plane_point)` with `|n2d| ≤ EPSILON`;
* `planeBasis_orth`         : both basis vectors of `plane_basis_from_normal` are orthogonal to the normal;
* `lift_on_plane`           : `⟨n, lift q⟩ = d` for a unit normal;
* `contactPlane_unit`       : the normal returned by `contact_plane` on the regular exit is a unit vector;
* `orderPoints_perm`, `filterUnique_sublist` : ordering and de-duplication only permute / drop points;
* `bary_of_contract`        : rows with `λ_k(v_j) = δ_kj` compute barycentric coordinates;
* `forceFold_inv`           : area and (under the sign hypotheses) force accumulate non-negatively.
-/
import D3.Proofs.HydroKernel

namespace D3
namespace Hydro

/-- the affine functional of a row: one barycentric coordinate (for a row of `X`) or the signed
plane equation -/
def rowVal (r : Row4 ℝ) (x : V) : ℝ := V3.dot r.n x + r.c

/-! ### `make_halfplanes` -/

theorem makeHalfplaneRow_some {pp cx cy : V} {r : Row4 ℝ} {h : HP ℝ}
    (hh : makeHalfplaneRow pp cx cy r = some h) :
    (eps : ℝ) < Real.sqrt ((normal2d r cx cy).x * (normal2d r cx cy).x +
        (normal2d r cx cy).y * (normal2d r cx cy).y) ∧
    h.d = ⟨(normal2d r cx cy).y, -(normal2d r cx cy).x⟩ ∧
    ∀ q : V2 ℝ, hpSide h q =
      (normal2d r cx cy).x * q.x + (normal2d r cx cy).y * q.y - dsOf r pp := by
  unfold makeHalfplaneRow at hh
  simp only [sqrt_real] at hh
  split at hh
  · rename_i hlt
    simp only [Option.some.injEq] at hh
    subst hh
    refine ⟨hlt, rfl, ?_⟩
    intro q
    set a := (normal2d r cx cy).x with ha
    set b := (normal2d r cx cy).y with hb
    have hpos : 0 < Real.sqrt (a * a + b * b) := lt_trans eps_pos hlt
    have hnn : 0 ≤ a * a + b * b := by nlinarith [mul_self_nonneg a, mul_self_nonneg b]
    have hsq : Real.sqrt (a * a + b * b) * Real.sqrt (a * a + b * b) = a * a + b * b :=
      Real.mul_self_sqrt hnn
    have hne : a * a + b * b ≠ 0 := by
      intro h0; rw [h0, Real.sqrt_zero] at hpos; exact lt_irrefl _ hpos
    simp only [hpSide_def]
    rw [hsq]
    have hi : (a * a + b * b) * (a * a + b * b)⁻¹ = 1 := mul_inv_cancel₀ hne
    simp only [div_eq_mul_inv]
    linear_combination (-(dsOf r pp)) * hi
  · cases hh

theorem makeHalfplaneRow_none {pp cx cy : V} {r : Row4 ℝ}
    (hh : makeHalfplaneRow pp cx cy r = none) :
    Real.sqrt ((normal2d r cx cy).x * (normal2d r cx cy).x +
        (normal2d r cx cy).y * (normal2d r cx cy).y) ≤ (eps : ℝ) := by
  unfold makeHalfplaneRow at hh
  simp only [sqrt_real] at hh
  split at hh
  · cases hh
  · rename_i hlt; exact not_lt.mp hlt

/-- the 2-D quantity `⟨n2d, q⟩ - ds` is the value of the row at the lifted point -/
theorem halfplane_trace (pp cx cy : V) (r : Row4 ℝ) (q : V2 ℝ) :
    (normal2d r cx cy).x * q.x + (normal2d r cx cy).y * q.y - dsOf r pp =
      rowVal r (lift pp cx cy q) := by
  simp only [normal2d, dsOf, rowVal, lift, V3.dot_def]
  ring

theorem abs_le_sqrt_sum_left (a b : ℝ) : |a| ≤ Real.sqrt (a * a + b * b) := by
  rw [← Real.sqrt_mul_self (abs_nonneg a)]
  apply Real.sqrt_le_sqrt
  rw [abs_mul_abs_self]
  nlinarith [mul_self_nonneg b]

theorem abs_le_sqrt_sum_right (a b : ℝ) : |b| ≤ Real.sqrt (a * a + b * b) := by
  rw [← Real.sqrt_mul_self (abs_nonneg b)]
  apply Real.sqrt_le_sqrt
  rw [abs_mul_abs_self]
  nlinarith [mul_self_nonneg a]

/-- a skipped row (face parallel to the contact plane up to `EPSILON`): its value on the plane
differs from its value at `plane_point` by at most `EPSILON · (|q₀| + |q₁|)` -/
theorem skipped_row_coordinate {pp cx cy : V} {r : Row4 ℝ}
    (hh : makeHalfplaneRow pp cx cy r = none) (q : V2 ℝ) :
    |rowVal r (lift pp cx cy q) - rowVal r pp| ≤ (eps : ℝ) * (|q.x| + |q.y|) := by
  have hn := makeHalfplaneRow_none hh
  have h1 := le_trans (abs_le_sqrt_sum_left (normal2d r cx cy).x (normal2d r cx cy).y) hn
  have h2 := le_trans (abs_le_sqrt_sum_right (normal2d r cx cy).x (normal2d r cx cy).y) hn
  have e : rowVal r (lift pp cx cy q) - rowVal r pp =
      (normal2d r cx cy).x * q.x + (normal2d r cx cy).y * q.y := by
    simp only [normal2d, rowVal, lift, V3.dot_def]; ring
  rw [e]
  calc |(normal2d r cx cy).x * q.x + (normal2d r cx cy).y * q.y|
      ≤ |(normal2d r cx cy).x * q.x| + |(normal2d r cx cy).y * q.y| := abs_add_le _ _
    _ = |(normal2d r cx cy).x| * |q.x| + |(normal2d r cx cy).y| * |q.y| := by
        rw [abs_mul, abs_mul]
    _ ≤ eps * |q.x| + eps * |q.y| := by
        nlinarith [abs_nonneg q.x, abs_nonneg q.y]
    _ = eps * (|q.x| + |q.y|) := by ring

/-! ### `plane_basis_from_normal`, `project_polygon_to_3d` -/

theorem isZero_false_ne {x : ℝ} (h : isZero x = false) : x ≠ 0 := by
  intro h0
  subst h0
  simp [isZero] at h

theorem isZero_true_eq {x : ℝ} (h : isZero x = true) : x = 0 := by
  simp only [isZero, Bool.and_eq_true, decide_eq_true_eq] at h
  linarith [h.1, h.2]

/-- both vectors returned by `plane_basis_from_normal` are orthogonal to the normal -/
theorem planeBasis_orth {n cx cy : V} {b : Nat} (h : planeBasisFromNormal n = .ok (b, cx, cy)) :
    V3.dot n cx = 0 ∧ V3.dot n cy = 0 := by
  unfold planeBasisFromNormal at h
  simp only [sqrt_real] at h
  split at h
  · split at h
    · cases h
    · rename_i hz
      have hne := isZero_false_ne (Bool.eq_false_iff.mpr hz)
      simp only [Except.ok.injEq, Prod.mk.injEq] at h
      obtain ⟨_, rfl, rfl⟩ := h
      simp only [V3.dot_def]
      constructor
      · field_simp; ring
      · field_simp; ring
  · split at h
    · cases h
    · rename_i hz
      have hne := isZero_false_ne (Bool.eq_false_iff.mpr hz)
      simp only [Except.ok.injEq, Prod.mk.injEq] at h
      obtain ⟨_, rfl, rfl⟩ := h
      simp only [V3.dot_def]
      constructor
      · field_simp; ring
      · field_simp; ring

/-- a lifted point lies on the plane `⟨n, x⟩ = d` (unit normal, basis orthogonal to it) -/
theorem lift_on_plane {n cx cy : V} (d : ℝ) (hn : V3.dot n n = 1) (hx : V3.dot n cx = 0)
    (hy : V3.dot n cy = 0) (q : V2 ℝ) : V3.dot n (lift (planePointOf n d) cx cy q) = d := by
  simp only [V3.dot_def, lift, planePointOf] at *
  linear_combination q.x * hx + q.y * hy + d * hn

/-! ### `contact_plane` -/

/-- on the regular exit of `contact_plane` the normal is a unit vector -/
theorem contactPlane_unit {X1 X2 : X4 ℝ} {e1 e2 : Q4 ℝ} {E1 E2 : ℝ} {h : Row4 ℝ} {b : Nat}
    (hc : contactPlane X1 X2 e1 e2 E1 E2 = (h, false, b)) : V3.dot h.n h.n = 1 := by
  unfold contactPlane at hc
  simp only at hc
  split at hc
  · simp only [Prod.mk.injEq, Bool.true_eq_false, false_and, and_false] at hc
  · rename_i hz
    have hne := isZero_false_ne (Bool.eq_false_iff.mpr hz)
    split at hc
    · simp only [Prod.mk.injEq, Bool.true_eq_false, false_and, and_false] at hc
    · simp only [Prod.mk.injEq, true_and] at hc
      obtain ⟨rfl, _⟩ := hc
      set w := (rawPlane X1 X2 e1 e2 E1 E2).n with hw
      have hsq := V3.norm_sq w
      simp only [V3.sdiv, V3.dot_def, V3.normSq_def] at hsq ⊢
      field_simp
      linarith [hsq]

/-! ### `order_points`, `filter_unique_points` -/

theorem insertKeyed_perm (x : ℝ × V2 ℝ) : ∀ l : List (ℝ × V2 ℝ), (insertKeyed x l).Perm (x :: l)
  | [] => List.Perm.refl _
  | y :: ys => by
    unfold insertKeyed
    split
    · exact List.Perm.refl _
    · exact ((insertKeyed_perm x ys).cons y).trans (List.Perm.swap x y ys)

theorem foldl_insertKeyed_perm : ∀ (l acc : List (ℝ × V2 ℝ)),
    (l.foldl (fun acc x => insertKeyed x acc) acc).Perm (l ++ acc)
  | [], acc => List.Perm.refl _
  | x :: l, acc => by
    simp only [List.foldl_cons, List.cons_append]
    refine (foldl_insertKeyed_perm l (insertKeyed x acc)).trans ?_
    refine (List.Perm.append_left l (insertKeyed_perm x acc)).trans ?_
    exact List.perm_middle

theorem sortKeyed_perm (l : List (ℝ × V2 ℝ)) : (sortKeyed l).Perm l := by
  have := foldl_insertKeyed_perm l []
  simpa [sortKeyed] using this

section
variable [HasAtan2 ℝ]

theorem orderPoints_perm (pts : List (V2 ℝ)) : (orderPoints pts).Perm pts := by
  unfold orderPoints
  simp only
  have h := (sortKeyed_perm
    (pts.map fun p => (atan2 (p.y - sumList (pts.map (·.y)) / ofNatS pts.length)
      (p.x - sumList (pts.map (·.x)) / ofNatS pts.length), p))).map (·.2)
  refine h.trans ?_
  rw [List.map_map]
  simp [Function.comp_def]

end

theorem filterUniqueGo_sublist (prev : V2 ℝ) : ∀ l : List (V2 ℝ), (filterUniqueGo prev l).Sublist l
  | [] => List.Sublist.slnil
  | q :: qs => by
    unfold filterUniqueGo
    split
    · exact (filterUniqueGo_sublist q qs).cons_cons q
    · exact (filterUniqueGo_sublist q qs).cons q

theorem filterUnique_sublist : ∀ l : List (V2 ℝ), (filterUniquePoints l).Sublist l
  | [] => List.Sublist.slnil
  | p :: ps => by
    unfold filterUniquePoints
    exact (filterUniqueGo_sublist p ps).cons_cons p

/-! ### barycentric coordinates -/

/-- the contract of `barycentric_transforms` (`np.linalg.pinv` of a non-singular matrix): row `k` of
`X` evaluates to `δ_kj` at vertex `j` -/
structure IsBaryTransform (X : X4 ℝ) (t : Tet ℝ) : Prop where
  h00 : rowVal X.r0 t.v0 = 1
  h01 : rowVal X.r0 t.v1 = 0
  h02 : rowVal X.r0 t.v2 = 0
  h03 : rowVal X.r0 t.v3 = 0
  h10 : rowVal X.r1 t.v0 = 0
  h11 : rowVal X.r1 t.v1 = 1
  h12 : rowVal X.r1 t.v2 = 0
  h13 : rowVal X.r1 t.v3 = 0
  h20 : rowVal X.r2 t.v0 = 0
  h21 : rowVal X.r2 t.v1 = 0
  h22 : rowVal X.r2 t.v2 = 1
  h23 : rowVal X.r2 t.v3 = 0
  h30 : rowVal X.r3 t.v0 = 0
  h31 : rowVal X.r3 t.v1 = 0
  h32 : rowVal X.r3 t.v2 = 0
  h33 : rowVal X.r3 t.v3 = 1

/-- `P = Σ b_j v_j` with `Σ b_j = 1` -/
def IsBary (t : Tet ℝ) (b : Q4 ℝ) (P : V) : Prop :=
  b.a + b.b + b.c + b.d = 1 ∧ P = combPoints b t

/-- under the contract, the rows of `X` evaluate to the barycentric coordinates -/
theorem bary_of_contract {X : X4 ℝ} {t : Tet ℝ} (hX : IsBaryTransform X t) {b : Q4 ℝ} {P : V}
    (hb : IsBary t b P) :
    rowVal X.r0 P = b.a ∧ rowVal X.r1 P = b.b ∧ rowVal X.r2 P = b.c ∧ rowVal X.r3 P = b.d := by
  obtain ⟨hs, rfl⟩ := hb
  obtain ⟨h00, h01, h02, h03, h10, h11, h12, h13, h20, h21, h22, h23, h30, h31, h32, h33⟩ := hX
  simp only [rowVal, V3.dot_def, combPoints] at *
  refine ⟨?_, ?_, ?_, ?_⟩
  · linear_combination b.a * h00 + b.b * h01 + b.c * h02 + b.d * h03 - X.r0.c * hs
  · linear_combination b.a * h10 + b.b * h11 + b.c * h12 + b.d * h13 - X.r1.c * hs
  · linear_combination b.a * h20 + b.b * h21 + b.c * h22 + b.d * h23 - X.r2.c * hs
  · linear_combination b.a * h30 + b.b * h31 + b.c * h32 + b.d * h33 - X.r3.c * hs

/-! ### `compute_contact_force` -/

/-- sign hypotheses under which every pressure sample is non-negative -/
def SolveNonneg (solve : V → Q4 ℝ) (poly : List V) : Prop :=
  ∀ (i j k : Nat) (v0 v1 v2 : V), poly[i]? = some v0 → poly[j]? = some v1 → poly[k]? = some v2 →
    0 ≤ (solve ((v0 + v1 + v2).sdiv 3.0)).a ∧ 0 ≤ (solve ((v0 + v1 + v2).sdiv 3.0)).b ∧
    0 ≤ (solve ((v0 + v1 + v2).sdiv 3.0)).c ∧ 0 ≤ (solve ((v0 + v1 + v2).sdiv 3.0)).d

def Q4.Nonneg (e : Q4 ℝ) : Prop := 0 ≤ e.a ∧ 0 ≤ e.b ∧ 0 ≤ e.c ∧ 0 ≤ e.d

theorem forceStep_inv (solve : V → Q4 ℝ) (w : Q4 ℝ) (poly : List V) (acc acc' : ForceAcc ℝ)
    (tri : Nat × Nat × Nat) (h : forceStep solve w poly.toArray acc tri = .ok acc')
    (ha : 0 ≤ acc.a) :
    0 ≤ acc'.a ∧ (SolveNonneg solve poly → w.Nonneg → 0 ≤ acc.f → 0 ≤ acc'.f) := by
  unfold forceStep at h
  split at h
  · rename_i v0 v1 v2 h0 h1 h2
    simp only [Except.ok.injEq] at h
    subst h
    have harea : 0 ≤ 0.5 * V3.norm (V3.cross (v1 - v0) (v2 - v0)) :=
      mul_nonneg (by norm_num) (V3.norm_nonneg _)
    refine ⟨by simp only; linarith, ?_⟩
    intro hs hw hf
    simp only [List.getElem?_toArray] at h0 h1 h2
    obtain ⟨s0, s1, s2, s3⟩ := hs _ _ _ v0 v1 v2 h0 h1 h2
    obtain ⟨w0, w1, w2, w3⟩ := hw
    simp only
    have hp : 0 ≤ (solve ((v0 + v1 + v2).sdiv 3.0)).a * w.a + (solve ((v0 + v1 + v2).sdiv 3.0)).b * w.b +
        (solve ((v0 + v1 + v2).sdiv 3.0)).c * w.c + (solve ((v0 + v1 + v2).sdiv 3.0)).d * w.d := by
      have := mul_nonneg s0 w0
      have := mul_nonneg s1 w1
      have := mul_nonneg s2 w2
      have := mul_nonneg s3 w3
      linarith
    have := mul_nonneg hp harea
    linarith
  · cases h

theorem forceFold_inv (solve : V → Q4 ℝ) (w : Q4 ℝ) (poly : List V) :
    ∀ (tris : List (Nat × Nat × Nat)) (acc acc' : ForceAcc ℝ),
      tris.foldlM (forceStep solve w poly.toArray) acc = .ok acc' → 0 ≤ acc.a →
      0 ≤ acc'.a ∧ (SolveNonneg solve poly → w.Nonneg → 0 ≤ acc.f → 0 ≤ acc'.f)
  | [], acc, acc', h, ha => by
    simp only [List.foldlM_nil, pure, Except.pure, Except.ok.injEq] at h
    subst h
    exact ⟨ha, fun _ _ hf => hf⟩
  | tri :: tris, acc, acc', h, ha => by
    rw [List.foldlM_cons] at h
    obtain ⟨a1, h1, h2⟩ := except_bind_ok h
    obtain ⟨ha1, hf1⟩ := forceStep_inv solve w poly acc a1 tri h1 ha
    obtain ⟨ha2, hf2⟩ := forceFold_inv solve w poly tris a1 acc' h2 ha1
    exact ⟨ha2, fun hs hw hf => hf2 hs hw (hf1 hs hw hf)⟩

/-! ### swapping the two tetrahedra -/

theorem rawPlane_swap (X1 X2 : X4 ℝ) (e1 e2 : Q4 ℝ) (E1 E2 : ℝ) :
    (rawPlane X2 X1 e2 e1 E2 E1).n = -(rawPlane X1 X2 e1 e2 E1 E2).n ∧
    (rawPlane X2 X1 e2 e1 E2 E1).c = -(rawPlane X1 X2 e1 e2 E1 E2).c := by
  constructor
  · apply V3.ext' <;> simp [rawPlane]
  · simp [rawPlane]

theorem norm_neg (w : V) : V3.norm (-w) = V3.norm w := by
  simp only [V3.norm_def, V3.normSq_def, V3.neg_x, V3.neg_y, V3.neg_z]
  congr 1; ring

/-- swapping the two tetrahedra flips the orientation of the contact plane and nothing else:
same exit, opposite normal, opposite offset (the same set of points `⟨n, x⟩ = d`) -/
theorem contactPlane_swap (X1 X2 : X4 ℝ) (e1 e2 : Q4 ℝ) (E1 E2 : ℝ) :
    (contactPlane X2 X1 e2 e1 E2 E1).1.n = -(contactPlane X1 X2 e1 e2 E1 E2).1.n ∧
    (contactPlane X2 X1 e2 e1 E2 E1).1.c = -(contactPlane X1 X2 e1 e2 E1 E2).1.c ∧
    (contactPlane X2 X1 e2 e1 E2 E1).2 = (contactPlane X1 X2 e1 e2 E1 E2).2 := by
  obtain ⟨hn, hc⟩ := rawPlane_swap X1 X2 e1 e2 E1 E2
  unfold contactPlane
  simp only [hn, hc, norm_neg]
  split
  · simp [hn, hc]
  · have e : absS (-(rawPlane X1 X2 e1 e2 E1 E2).c / V3.norm (rawPlane X1 X2 e1 e2 E1 E2).n * -1) =
        absS ((rawPlane X1 X2 e1 e2 E1 E2).c / V3.norm (rawPlane X1 X2 e1 e2 E1 E2).n * -1) := by
      rw [absS_real, absS_real]
      rw [show -(rawPlane X1 X2 e1 e2 E1 E2).c / V3.norm (rawPlane X1 X2 e1 e2 E1 E2).n * -1 =
        -((rawPlane X1 X2 e1 e2 E1 E2).c / V3.norm (rawPlane X1 X2 e1 e2 E1 E2).n * -1) by ring, abs_neg]
    simp only [e]
    split
    · refine ⟨?_, ?_, rfl⟩
      · apply V3.ext' <;> simp [V3.sdiv, neg_div]
      · ring
    · refine ⟨?_, ?_, rfl⟩
      · apply V3.ext' <;> simp [V3.sdiv, neg_div]
      · ring

end Hydro
end D3
