/-
Strong representation predicate `RepP` (rows of `nodes` are fully determined, including
parent pointers) and the pure tree-layer functions that describe what `insert_leaf` does
before the upward refit: `target` (leaf reached by the descent), `targetPar` (its parent),
`pathLen` (number of nodes on the path incl. the new parent) and `graft` (relinked tree
with stale boxes on the path).  Structural, any scalar.
-/
import D3.Proofs.AabbExact
import D3.Proofs.AabbInsertMem

set_option linter.unusedSectionVars false
set_option linter.unusedVariables false

namespace D3
namespace Aabb

scalar_variables

/-- the arrays encode the tree `t` hanging below parent `par`: every row of `nodes` used by
the tree is *completely* determined — leaves are `[par, -1, -1, TYPE_LEAF]`, inner nodes
`[par, left.idx, right.idx, TYPE_BRANCH]` — and `aabbs` holds the boxes. -/
def RepP (nodes : Array Node) (aabbs : Array (Box α)) : Int → T α → Prop
  | par, .leaf i b =>
      rd nodes i = .ok ⟨par, INDEX_NONE, INDEX_NONE, TYPE_LEAF⟩ ∧ rd aabbs i = .ok b
  | par, .node i b l r =>
      rd nodes i = .ok ⟨par, l.idx, r.idx, TYPE_BRANCH⟩ ∧ rd aabbs i = .ok b ∧
      RepP nodes aabbs i l ∧ RepP nodes aabbs i r

/-- index of the leaf the descent loop of `insert_leaf` reaches -/
def T.target (lb : Box α) : T α → Int
  | .leaf i _ => i
  | .node _ _ l r =>
    if volume (merge lb l.box) < volume (merge lb r.box) then l.target lb else r.target lb

/-- box of that leaf -/
def T.targetBox (lb : Box α) : T α → Box α
  | .leaf _ b => b
  | .node _ _ l r =>
    if volume (merge lb l.box) < volume (merge lb r.box) then l.targetBox lb else r.targetBox lb

/-- parent of that leaf (`par` if the tree is a single leaf) -/
def T.targetPar (lb : Box α) : Int → T α → Int
  | par, .leaf _ _ => par
  | _, .node i _ l r =>
    if volume (merge lb l.box) < volume (merge lb r.box) then l.targetPar lb i else r.targetPar lb i

/-- number of nodes on the refit path (new parent included) -/
def T.pathLen (lb : Box α) : T α → Nat
  | .leaf _ _ => 1
  | .node _ _ l r =>
    (if volume (merge lb l.box) < volume (merge lb r.box) then l.pathLen lb else r.pathLen lb) + 1

/-- the tree after the relinking writes of `insert_leaf` and *before* `fix_upward_tree`:
new parent `p` above the reached leaf, boxes of the ancestors still stale. -/
def T.graft (li : Int) (lb : Box α) (p : Int) : T α → T α
  | .leaf i b => .node p (merge lb b) (.leaf i b) (.leaf li lb)
  | .node i b l r =>
    if volume (merge lb l.box) < volume (merge lb r.box) then .node i b (l.graft li lb p) r
    else .node i b l (r.graft li lb p)

/-! ### basic facts -/

theorem RepP.congr {N N' : Array Node} {A A' : Array (Box α)} :
    ∀ (t : T α) (par : Int), (∀ j ∈ t.indices, rd N' j = rd N j ∧ rd A' j = rd A j) →
      RepP N A par t → RepP N' A' par t
  | .leaf i b, par, h, ⟨h1, h2⟩ => by
    obtain ⟨e1, e2⟩ := h i (by simp [T.indices])
    exact ⟨e1 ▸ h1, e2 ▸ h2⟩
  | .node i b l r, par, h, ⟨h1, h2, hl, hr⟩ => by
    obtain ⟨e1, e2⟩ := h i (by simp [T.indices])
    refine ⟨e1 ▸ h1, e2 ▸ h2, ?_, ?_⟩
    · exact RepP.congr l i (fun j hj => h j (by simp [T.indices, hj])) hl
    · exact RepP.congr r i (fun j hj => h j (by simp [T.indices, hj])) hr

theorem RepP.toRep {N : Array Node} {A : Array (Box α)} :
    ∀ (t : T α) (par : Int), RepP N A par t → Rep N A t
  | .leaf i b, par, ⟨h1, h2⟩ => Rep.leaf i b _ h1 rfl h2
  | .node i b l r, par, ⟨h1, h2, hl, hr⟩ =>
    Rep.node i b _ l r h1 (by simp [TYPE_BRANCH, TYPE_LEAF]) rfl rfl h2 (RepP.toRep l i hl) (RepP.toRep r i hr)

theorem RepP.allBranch {N : Array Node} {A : Array (Box α)} :
    ∀ (t : T α) (par : Int), RepP N A par t → AllBranch N t
  | .leaf i b, par, _ => trivial
  | .node i b l r, par, ⟨h1, h2, hl, hr⟩ =>
    ⟨⟨_, h1, rfl⟩, RepP.allBranch l i hl, RepP.allBranch r i hr⟩

theorem RepP.rd_box {N : Array Node} {A : Array (Box α)} {t : T α} {par : Int}
    (h : RepP N A par t) : rd A t.idx = .ok t.box := by
  cases t with
  | leaf i b => exact h.2
  | node i b l r => exact h.2.1

theorem RepP.inR {N : Array Node} {A : Array (Box α)} :
    ∀ (t : T α) (par : Int), RepP N A par t → ∀ j ∈ t.indices, InR N j ∧ InR A j
  | .leaf i b, par, ⟨h1, h2⟩, j, hj => by
    simp only [T.indices, List.mem_singleton] at hj
    subst hj
    exact ⟨rd_ok_inR h1, rd_ok_inR h2⟩
  | .node i b l r, par, ⟨h1, h2, hl, hr⟩, j, hj => by
    simp only [T.indices, List.mem_cons, List.mem_append] at hj
    rcases hj with hj | hj | hj
    · subst hj
      exact ⟨rd_ok_inR h1, rd_ok_inR h2⟩
    · exact RepP.inR l i hl j hj
    · exact RepP.inR r i hr j hj

theorem T.idx_mem_indices (t : T α) : t.idx ∈ t.indices := by
  cases t <;> simp [T.idx, T.indices]

theorem T.size_eq_length : ∀ (t : T α), t.size = t.indices.length
  | .leaf _ _ => rfl
  | .node _ _ l r => by
    simp [T.size, T.indices, T.size_eq_length l, T.size_eq_length r]

theorem T.target_mem (lb : Box α) : ∀ (t : T α), t.target lb ∈ t.indices
  | .leaf i b => by simp [T.target, T.indices]
  | .node i b l r => by
    simp only [T.target, T.indices]
    split
    · have := T.target_mem lb l
      simp [this]
    · have := T.target_mem lb r
      simp [this]

/-- the parent of the reached leaf is `par` for a single leaf, otherwise a node of the tree -/
theorem T.targetPar_mem (lb : Box α) : ∀ (t : T α) (par : Int),
    (∃ i b, t = .leaf i b ∧ t.targetPar lb par = par) ∨ t.targetPar lb par ∈ t.indices
  | .leaf i b, par => Or.inl ⟨i, b, rfl, rfl⟩
  | .node i b l r, par => by
    right
    simp only [T.targetPar, T.indices]
    split
    · rcases T.targetPar_mem lb l i with ⟨_, _, _, h⟩ | h
      · rw [h]; simp
      · simp [h]
    · rcases T.targetPar_mem lb r i with ⟨_, _, _, h⟩ | h
      · rw [h]; simp
      · simp [h]

theorem T.pathLen_le_size (lb : Box α) : ∀ (t : T α), t.pathLen lb ≤ t.size
  | .leaf _ _ => by simp [T.pathLen, T.size]
  | .node _ _ l r => by
    simp only [T.pathLen, T.size]
    have := T.pathLen_le_size lb l
    have := T.pathLen_le_size lb r
    split <;> omega

/-- the reached leaf's rows -/
theorem RepP.target_row {N : Array Node} {A : Array (Box α)} (lb : Box α) :
    ∀ (t : T α) (par : Int), RepP N A par t →
      rd N (t.target lb) = .ok ⟨t.targetPar lb par, INDEX_NONE, INDEX_NONE, TYPE_LEAF⟩ ∧
      rd A (t.target lb) = .ok (t.targetBox lb)
  | .leaf i b, par, h => h
  | .node i b l r, par, ⟨_, _, hl, hr⟩ => by
    simp only [T.target, T.targetPar, T.targetBox]
    split
    · exact RepP.target_row lb l i hl
    · exact RepP.target_row lb r i hr

/-! ### `graft` versus `insert` -/

theorem T.graft_idx (li : Int) (lb : Box α) (p : Int) (t t' : T α)
    (h : t.insert li lb p = some t') : (t.graft li lb p).idx = t'.idx := by
  cases t with
  | leaf i b => simp [T.insert] at h; subst h; rfl
  | node i b l r =>
    simp only [T.insert] at h
    simp only [T.graft]
    split at h
    · cases h
    · split at h
      · rename_i hc
        rw [if_pos hc]
        split at h
        · cases h; rfl
        · cases h
      · rename_i hc
        rw [if_neg hc]
        split at h
        · cases h; rfl
        · cases h

theorem T.graft_indices (li : Int) (lb : Box α) (p : Int) : ∀ (t t' : T α),
    t.insert li lb p = some t' → t'.indices = (t.graft li lb p).indices
  | .leaf i b, t', h => by simp [T.insert] at h; subst h; rfl
  | .node i b l r, t', h => by
    simp only [T.insert] at h
    simp only [T.graft]
    split at h
    · cases h
    · split at h
      · rename_i hc
        rw [if_pos hc]
        split at h
        · rename_i l' hl'
          cases h
          simp [T.indices, T.graft_indices li lb p l l' hl']
        · cases h
      · rename_i hc
        rw [if_neg hc]
        split at h
        · rename_i r' hr'
          cases h
          simp [T.indices, T.graft_indices li lb p r r' hr']
        · cases h

theorem T.graft_indices_perm (li : Int) (lb : Box α) (p : Int) : ∀ (t : T α),
    (t.graft li lb p).indices.Perm (p :: li :: t.indices)
  | .leaf i b => by
    simp only [T.graft, T.indices, List.singleton_append]
    exact List.Perm.cons p (List.Perm.swap li i [])
  | .node i b l r => by
    simp only [T.graft]
    split
    · simp only [T.indices]
      have h1 : ((l.graft li lb p).indices ++ r.indices).Perm ((p :: li :: l.indices) ++ r.indices) :=
        List.Perm.append_right _ (T.graft_indices_perm li lb p l)
      refine (List.Perm.cons i h1).trans ?_
      simp only [List.cons_append]
      exact (List.Perm.swap p i _).trans (List.Perm.cons p (List.Perm.swap li i _))
    · simp only [T.indices]
      have h1 : (l.indices ++ (r.graft li lb p).indices).Perm (l.indices ++ (p :: li :: r.indices)) :=
        List.Perm.append_left _ (T.graft_indices_perm li lb p r)
      refine (List.Perm.cons i h1).trans ?_
      have h2 : (l.indices ++ p :: li :: r.indices).Perm (p :: li :: (l.indices ++ r.indices)) := by
        have := List.perm_middle (l₁ := l.indices) (a := p) (l₂ := li :: r.indices)
        refine this.trans (List.Perm.cons p ?_)
        exact List.perm_middle
      refine (List.Perm.cons i h2).trans ?_
      exact (List.Perm.swap p i _).trans (List.Perm.cons p (List.Perm.swap li i _))

/-- pigeonhole: distinct in-range indices are at most as many as rows -/
theorem nodup_inR_length_le {β : Type} (a : Array β) (l : List Int) (hn : l.Nodup)
    (hr : ∀ j ∈ l, InR a j) : l.length ≤ a.size := by
  have h1 : (l.map Int.toNat).Nodup := by
    refine (List.nodup_map_iff_inj_on hn).mpr ?_
    intro x hx y hy hxy
    have := (hr x hx).1
    have := (hr y hy).1
    omega
  have h2 : l.map Int.toNat ⊆ List.range a.size := by
    intro n hn'
    simp only [List.mem_map] at hn'
    obtain ⟨j, hj, rfl⟩ := hn'
    exact List.mem_range.mpr (hr j hj).2
  have := (List.subperm_of_subset h1 h2).length_le
  simpa using this

theorem RepP.size_le {N : Array Node} {A : Array (Box α)} {t : T α} {par : Int}
    (h : RepP N A par t) (hn : t.indices.Nodup) : t.size ≤ N.size := by
  rw [T.size_eq_length]
  exact nodup_inR_length_le N _ hn (fun j hj => (RepP.inR t par h j hj).1)

end Aabb
end D3
