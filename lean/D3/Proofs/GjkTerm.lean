/-
C01/C19: under the loop invariant one call of `distanceLoopStep` cannot fail unless the solver
fails (in particular `assert prev_v_len_sq >= v_len_sq` is unreachable in exact arithmetic), and
the `while True` loop terminates: every continuing iteration multiplies `|v|²` by less than
`1 − ε` while it stays above `tol²`.
-/
import D3.Proofs.GjkExit
import Mathlib.Analysis.SpecificLimits.Basic

namespace D3
namespace Gjk
open GjkJolt

theorem set_ok {β : Type} (Y : A4 β) (n : Nat) (x : β) (hn : n ≤ 3) : ∃ Y', Y.set n x = .ok Y' := by
  interval_cases n <;> exact ⟨_, rfl⟩

/-- `stepTail` returns normally when the assertion's premise holds -/
theorem stepTail_ok {Y P Q : A4 V} {m : Nat} (hm : m ≤ 4) {s : Nat} (hs : s < 16)
    (hne : keep s 0 (Y.pre m) ≠ []) {prev tolSq : ℝ} {ok : Bool} {sd : V} {vl : ℝ}
    (hvp : vl ≤ prev) : ∃ out, stepTail Y P Q m prev tolSq ok sd vl s = .ok out := by
  unfold stepTail
  split
  · exact ⟨_, rfl⟩
  · obtain ⟨Y', P', Q', k, hupd, hkm, _, eY, _, _⟩ := updateSimplex_spec Y P Q m s hm hs
    rw [hupd]
    simp only
    split
    · exact ⟨_, rfl⟩
    · have hk4 : k ≤ 4 := le_trans hkm hm
      have hk1 : 1 ≤ k := by
        have hl := pre_length Y' k hk4
        rcases Nat.eq_zero_or_pos k with h0 | h0
        · rw [h0] at hl eY
          have : Y'.pre 0 = [] := List.length_eq_zero_iff.mp hl
          rw [this] at eY
          exact absurd eY.symm hne
        · exact h0
      obtain ⟨my, hmy, _⟩ := maxY_spec Y' k hk1 hk4
      rw [hmy]
      simp only
      split
      · exact ⟨_, rfl⟩
      · split <;> exact ⟨_, rfl⟩

/-- **no failure under the invariant**: from a state satisfying the invariant, with genuine
points of `A`, `B` as arguments, `_distance_loop` returns normally whenever the solver does
(no `IndexError`, and the assertion `prev_v_len_sq >= v_len_sq` cannot fire) -/
theorem step_ok {A B : V → Prop} {good : A4 V → Nat → Prop} {solve : Solver ℝ}
    (hsolve : SolverSpecOn good solve)
    (htotal : ∀ Y n prev, 1 ≤ n → n ≤ 4 → good Y n → ∃ r, solve Y n prev = .ok r)
    {st : State ℝ} {p q : V} {tolSq maxD : ℝ}
    (hst : Stored A B st 3) (hrun : Running tolSq st (p - q))
    (hgood : ∀ Y1, st.Y.set st.nPoints (p - q) = .ok Y1 → good Y1 (st.nPoints + 1)) :
    ∃ out, distanceLoopStep solve p q st tolSq maxD = .ok out := by
  unfold distanceLoopStep
  simp only
  split
  · exact ⟨_, rfl⟩
  · obtain ⟨hn3, hstored⟩ := hst
    obtain ⟨Y1, hY⟩ := set_ok st.Y st.nPoints (p - q) hn3
    obtain ⟨P1, hP⟩ := set_ok st.P st.nPoints p hn3
    obtain ⟨Q1, hQ⟩ := set_ok st.Q st.nPoints q hn3
    obtain ⟨r, hr⟩ := htotal Y1 (st.nPoints + 1) st.prevVLenSq (by omega) (by omega) (hgood Y1 hY)
    rw [hY, hP, hQ]
    simp only [hr]
    obtain ⟨hvl, hsucc, hset, hmin, hrel, _⟩ :=
      hsolve.spec Y1 (st.nPoints + 1) st.prevVLenSq r (by omega) (by omega) (hgood Y1 hY) hr
    have hset16 : r.set < 16 := lt_of_lt_of_le hset (two_pow_le_16 (by omega))
    obtain ⟨_, eY1⟩ := pre_set st.Y Y1 st.nPoints _ hY
    have eY1n := pre_set_same st.Y Y1 st.nPoints _ hY
    split
    · rename_i hs
      exact stepTail_ok (by omega) hset16 (relint_ne_nil hrel) (hsucc.mp hs).le
    · rename_i hs
      have hnlt : st.prevVLenSq ≤ V3.normSq r.v := by
        rw [← hvl]
        by_contra hc
        exact hs (hsucc.mpr (not_le.mp hc))
      rcases hrun with ⟨x0, hsd0, hcl0, hv0, hpv0, htl0, _⟩ | ⟨⟨hn0, _, _, hprev⟩, hfin⟩
      · have hkeep : keep (allBits st.nPoints) 0 (Y1.pre st.nPoints) = st.Y.pre st.nPoints := by
          rw [eY1n]; exact keep_allBits _ _ hn3 (pre_length _ _ (by omega))
        exact stepTail_ok (by omega) (lt_trans (allBits_lt _ hn3) (by norm_num))
          (by rw [hkeep]; exact relint_ne_nil hcl0.relint) (by rw [hpv0])
      · exfalso
        rw [eY1] at hmin
        have := hmin.2 _ (hull_append_right (ys := st.Y.pre st.nPoints) (p - q))
        rw [hprev] at hnlt
        have hM := MAXF_pos
        nlinarith [EPS_pos]

/-- the loop terminates from a running state once `(1−ε)ᵏ·|v|² ≤ tol²` for the fuel `k + 1` -/
theorem loop_terminates_cur {A B : V → Prop} {good : A4 V → Nat → Prop} {solve : Solver ℝ}
    (hsolve : SolverSpecOn good solve)
    (htotal : ∀ Y n prev, 1 ≤ n → n ≤ 4 → good Y n → ∃ r, solve Y n prev = .ok r)
    {sA sB : V → V} (hsA : ∀ d, d ≠ zeroV → IsSupport A d (sA d))
    (hsB : ∀ d, d ≠ zeroV → IsSupport B d (sB d)) {tolSq maxD : ℝ} (htol : 0 ≤ tolSq) :
    ∀ (k fuel it : Nat) (st : State ℝ) (x : V), Stored A B st 3 → Cur tolSq st x →
      VisitedGood good solve sA sB tolSq maxD st →
      (1 - EPS) ^ k * st.vLenSq ≤ tolSq → k + 1 ≤ fuel →
      ∃ res, gjkLoop solve sA sB tolSq maxD fuel it st = .ok res
  | 0, _, _, st, x, _, hcur, _, hk, _ => by
    obtain ⟨_, _, _, _, htl, _⟩ := hcur
    simp at hk; linarith
  | k + 1, 0, _, _, _, _, _, _, _, hf => by omega
  | k + 1, fuel + 1, it, st, x, hst, hcur, hvis, hk, hf => by
    have hsd : st.sd ≠ zeroV := by
      obtain ⟨hsdx, _, hv, _, htl, _⟩ := hcur
      apply ne_zero_of_normSq_pos
      rw [hsdx, normSq_neg_one_smul, ← hv]; linarith
    have hnegsd : -st.sd ≠ zeroV := by
      intro h0; apply hsd
      have hx := congrArg V3.x h0; have hy := congrArg V3.y h0; have hz := congrArg V3.z h0
      simp at hx hy hz
      apply V3.ext' <;> simp <;> linarith
    have hrun : Running tolSq st (sA st.sd - sB (-st.sd)) := Or.inl ⟨x, hcur⟩
    obtain ⟨out, hout⟩ := step_ok (maxD := maxD) hsolve htotal hst hrun hvis.here
    unfold gjkLoop
    simp only [bind, Except.bind, hout]
    split
    · rename_i hunk
      obtain ⟨x', v', hinv⟩ := step_inv hsolve htol hst hrun (hsA _ hsd).1 (hsB _ hnegsd).1
        hvis.here hout (by rw [hunk]; simp)
      rcases hinv.exits with ⟨hg, _⟩ | ⟨hg, _⟩ | ⟨_, hsto, hcur', hdec⟩
      · rw [hunk] at hg; exact GjkState.noConfusion hg
      · rw [hunk] at hg; exact GjkState.noConfusion hg
      · apply loop_terminates_cur hsolve htotal hsA hsB htol k fuel (it + 1) out.st x' hsto hcur'
          (hvis.next hout hunk) _ (by omega)
        obtain ⟨_, _, hv, hpv, _, _⟩ := hcur
        have hpow : 0 ≤ (1 - EPS : ℝ) ^ k := pow_nonneg (by linarith [EPS_lt_one]) k
        calc (1 - EPS) ^ k * out.st.vLenSq ≤ (1 - EPS) ^ k * ((1 - EPS) * st.prevVLenSq) :=
              mul_le_mul_of_nonneg_left hdec.le hpow
          _ = (1 - EPS) ^ (k + 1) * st.vLenSq := by rw [hpv]; ring
          _ ≤ tolSq := hk
    · exact ⟨_, rfl⟩

/-- **`terminates`.**  For `tol > 0`, a total solver satisfying its specification and support
mappings satisfying theirs, there is a number of iterations `N` (depending on the two sets only
through the first closest point) such that the `while True` loop of `gjk_distance_jolt` returns
normally for every fuel `≥ N`: the fuel-exhaustion outcome is unreachable. -/
theorem loop_terminates {A B : V → Prop} {good : A4 V → Nat → Prop} {solve : Solver ℝ}
    (hsolve : SolverSpecOn good solve)
    (htotal : ∀ Y n prev, 1 ≤ n → n ≤ 4 → good Y n → ∃ r, solve Y n prev = .ok r)
    {sA sB : V → V} (hsA : ∀ d, d ≠ zeroV → IsSupport A d (sA d))
    (hsB : ∀ d, d ≠ zeroV → IsSupport B d (sB d))
    (hfin : V3.normSq (sA e1 - sB (-e1)) < (1 - EPS) * MAXF)
    {tolSq maxD : ℝ} (htol : 0 < tolSq) (y0 : A4 V)
    (hvis : VisitedGood good solve sA sB tolSq maxD (gjkInit y0)) :
    ∃ N, ∀ fuel, N ≤ fuel → ∃ res, gjkLoop solve sA sB tolSq maxD fuel 0 (gjkInit y0) = .ok res := by
  have hst := stored_init A B y0
  have hrun : Running tolSq (gjkInit y0) (sA (gjkInit y0).sd - sB (-(gjkInit y0).sd)) :=
    Or.inr ⟨isInit_init y0, hfin⟩
  have hneg : -(gjkInit y0 : State ℝ).sd ≠ zeroV := by
    intro h0; have := congrArg V3.x h0; simp [gjkInit] at this
  obtain ⟨out, hout⟩ := step_ok (maxD := maxD) hsolve htotal hst hrun hvis.here
  by_cases hunk : out.gs = .unknown
  · obtain ⟨x', v', hinv⟩ := step_inv hsolve htol.le hst hrun (hsA _ e1_ne_zero).1 (hsB _ hneg).1
      hvis.here hout (by rw [hunk]; simp)
    rcases hinv.exits with ⟨hg, _⟩ | ⟨hg, _⟩ | ⟨_, hsto, hcur', _⟩
    · rw [hunk] at hg; exact GjkState.noConfusion hg
    · rw [hunk] at hg; exact GjkState.noConfusion hg
    · have hvpos : 0 < out.st.vLenSq := by
        obtain ⟨_, _, _, _, htl, _⟩ := hcur'; linarith
      obtain ⟨k, hk⟩ := exists_pow_lt_of_lt_one (div_pos htol hvpos)
        (show (1 - EPS : ℝ) < 1 by linarith [EPS_pos])
      refine ⟨k + 2, fun fuel hf => ?_⟩
      obtain ⟨f, rfl⟩ : ∃ f, fuel = f + 1 := ⟨fuel - 1, by omega⟩
      unfold gjkLoop
      simp only [bind, Except.bind, hout, hunk, if_true]
      apply loop_terminates_cur hsolve htotal hsA hsB htol.le k f 1 out.st x' hsto hcur'
        (hvis.next hout hunk) _ (by omega)
      have := (lt_div_iff₀ hvpos).mp hk
      exact this.le
  · refine ⟨1, fun fuel hf => ?_⟩
    obtain ⟨f, rfl⟩ : ∃ f, fuel = f + 1 := ⟨fuel - 1, by omega⟩
    unfold gjkLoop
    simp only [bind, Except.bind, hout, hunk, if_false]
    exact ⟨_, rfl⟩

end Gjk
end D3
