/-
Structural lemmas for `make_triangular_icosphere`, `make_tetrahedral_sphere`,
`make_tetrahedral_ellipsoid` over ℝ: the normalisation step puts every boundary vertex on the
sphere / ellipsoid, element counts per subdivision order, potentials.
-/
import D3.Proofs.TetraMeshHelpers

namespace D3
namespace TetraMesh

/-! ### `mapM` over `Except` -/

theorem mapM_except_ok {β γ : Type} (f : β → Except Err γ) :
    ∀ (l : List β) (r : List γ), l.mapM f = .ok r → List.Forall₂ (fun a b => f a = .ok b) l r
  | [], r, h => by
    simp only [List.mapM_nil] at h
    cases h
    exact List.Forall₂.nil
  | a :: l, r, h => by
    rw [List.mapM_cons] at h
    cases ha : f a with
    | error e => rw [ha] at h; cases h
    | ok b =>
      rw [ha] at h
      cases hl : l.mapM f with
      | error e => rw [hl] at h; cases h
      | ok bs =>
        rw [hl] at h
        cases h
        exact List.Forall₂.cons ha (mapM_except_ok f l bs hl)

theorem forall₂_mem_right {β γ : Type} {R : β → γ → Prop} {l : List β} {r : List γ}
    (h : List.Forall₂ R l r) : ∀ b ∈ r, ∃ a ∈ l, R a b := by
  induction h with
  | nil => intro b hb; cases hb
  | cons hab _ ih =>
    intro b hb
    rcases List.mem_cons.mp hb with rfl | hb
    · exact ⟨_, by simp, hab⟩
    · obtain ⟨a, ha, hr⟩ := ih b hb
      exact ⟨a, by simp [ha], hr⟩

/-! ### the normalisation step -/

/-- `vertices /= 1.0 / radius * norm(vertices)` puts the row on the sphere of that radius -/
theorem normalizeRow_spec (r : ℝ) (hr : 0 < r) (p q : V3 ℝ) (h : normalizeRow r p = .ok q) :
    V3.normSq q = r * r := by
  unfold normalizeRow at h
  rw [if_neg (ne_of_gt hr)] at h
  dsimp only at h
  split at h
  · cases h
  · rename_i hd
    cases h
    have hn : V3.norm p ≠ 0 := by
      intro h0; apply hd; rw [h0]; ring
    have hsq := V3.norm_sq p
    rw [V3.normSq_def] at hsq
    simp only [V3.normSq_def, V3.sdiv]
    have hr' : r ≠ 0 := ne_of_gt hr
    field_simp
    nlinarith [hsq]

/-! ### counts of the subdivision -/

theorem foldl_subdivide_length (l : List (Nat × Nat × Nat)) :
    ∀ (acc : List (Nat × Nat × Nat)) (st : IcoState),
      (l.foldl subdivideTriangle (acc, st)).1.length = acc.length + 4 * l.length := by
  induction l with
  | nil => intro acc st; simp
  | cons t ts ih =>
    intro acc st
    rw [List.foldl_cons]
    obtain ⟨v1, v2, v3⟩ := t
    simp only [subdivideTriangle]
    rw [ih]
    simp only [List.length_append, List.length_cons, List.length_nil]
    omega

theorem subdivideOnce_length (acc : List (Nat × Nat × Nat) × IcoState) :
    (subdivideOnce acc).1.length = 4 * acc.1.length := by
  unfold subdivideOnce
  rw [foldl_subdivide_length]
  simp

theorem repeat_subdivide_length (order : Nat) (acc : List (Nat × Nat × Nat) × IcoState) :
    (Nat.repeat subdivideOnce order acc).1.length = 4 ^ order * acc.1.length := by
  induction order with
  | zero => simp [Nat.repeat]
  | succ n ih =>
    simp only [Nat.repeat]
    rw [subdivideOnce_length, ih]
    ring

/-- `20 · 4^order` triangles -/
theorem icoTopology_triangles (order : Nat) : (icoTopology order).1.length = 20 * 4 ^ order := by
  unfold icoTopology
  rw [repeat_subdivide_length]
  simp [icoTriangles0]
  ring

/-- invariant of the subdivision: the next free index is 12 + number of created midpoints -/
def IcoInv (st : IcoState) : Prop := st.v = 12 + st.parents.length

theorem addMidPoint_inv (a b : Nat) (st : IcoState) (h : IcoInv st) : IcoInv (addMidPoint a b st).2 := by
  unfold addMidPoint
  dsimp only
  split
  · exact h
  · unfold IcoInv at *
    simp only [List.length_append, List.length_cons, List.length_nil]
    omega

theorem subdivideTriangle_inv (acc : List (Nat × Nat × Nat) × IcoState) (t : Nat × Nat × Nat)
    (h : IcoInv acc.2) : IcoInv (subdivideTriangle acc t).2 := by
  obtain ⟨tris, st⟩ := acc
  obtain ⟨v1, v2, v3⟩ := t
  simp only [subdivideTriangle]
  exact addMidPoint_inv _ _ _ (addMidPoint_inv _ _ _ (addMidPoint_inv _ _ _ h))

theorem foldl_subdivide_inv (l : List (Nat × Nat × Nat)) :
    ∀ (acc : List (Nat × Nat × Nat) × IcoState), IcoInv acc.2 →
      IcoInv (l.foldl subdivideTriangle acc).2 := by
  induction l with
  | nil => intro acc h; exact h
  | cons t ts ih => intro acc h; rw [List.foldl_cons]; exact ih _ (subdivideTriangle_inv acc t h)

theorem icoTopology_inv (order : Nat) : IcoInv (icoTopology order).2 := by
  unfold icoTopology
  induction order with
  | zero => simp [Nat.repeat, IcoInv]
  | succ n ih =>
    simp only [Nat.repeat]
    unfold subdivideOnce
    exact foldl_subdivide_inv _ _ ih

theorem icoMidpoints_length : ∀ (ps : List (Nat × Nat)) (vs r : List (V3 ℝ)),
    icoMidpoints vs ps = .ok r → r.length = vs.length + ps.length
  | [], vs, r, h => by
    simp only [icoMidpoints] at h; cases h; simp
  | (a, b) :: rest, vs, r, h => by
    simp only [icoMidpoints] at h
    cases ha : getV vs a with
    | error e => rw [ha] at h; cases h
    | ok pa =>
      cases hb : getV vs b with
      | error e => rw [ha, hb] at h; cases h
      | ok pb =>
        rw [ha, hb] at h
        have := icoMidpoints_length rest _ r h
        simp only [List.length_append, List.length_cons, List.length_nil] at this ⊢
        omega

/-- **icosphere.** If the factory returns, it returns `10·4^order + 2` vertices, all at distance
`radius` from the centre, and `20·4^order` triangles. -/
theorem icosphere_spec (c : V3 ℝ) (r : ℝ) (hr : 0 < r) (order : Nat)
    (vs : List (V3 ℝ)) (tris : List (Nat × Nat × Nat))
    (h : makeTriangularIcosphere c r order = .ok (vs, tris)) :
    vs.length = 10 * 4 ^ order + 2 ∧ tris.length = 20 * 4 ^ order ∧
      ∀ v ∈ vs, V3.normSq (v - c) = r * r := by
  unfold makeTriangularIcosphere at h
  have hinv := icoTopology_inv order
  have htri := icoTopology_triangles order
  dsimp only at h
  split at h
  · cases h
  · rename_i hle
    split at h
    · cases h
    · rename_i vs0 hm
      split at h
      · cases h
      · rename_i vs1 hn
        injection h with h
        injection h with h1 h2
        subst h1 h2
        have hf := mapM_except_ok _ _ _ hn
        have hlen0 := icoMidpoints_length _ _ _ hm
        have hl0 : vs0.length = (icoTopology order).2.v := by
          rw [hlen0]; unfold IcoInv at hinv; rw [hinv]; simp [icoVertices0]
        refine ⟨?_, htri, ?_⟩
        · rw [List.length_map, ← hf.length_eq, List.length_append, List.length_replicate, hl0]
          unfold icoVertexCount at *
          omega
        · intro v hv
          obtain ⟨q, hq, rfl⟩ := List.mem_map.mp hv
          obtain ⟨p, _, hp⟩ := forall₂_mem_right hf q hq
          have := normalizeRow_spec r hr p q hp
          simp only [V3.normSq_def, V3.sub_x, V3.sub_y, V3.sub_z, V3.add_x, V3.add_y, V3.add_z] at this ⊢
          nlinarith [this]

/-- vertex counts produced by the midpoint cache, checked by evaluation for orders 0–2:
exactly the allocated `10·4^order + 2` rows -/
theorem icosphere_counts :
    (icoTopology 0).2.v = icoVertexCount 0 ∧ (icoTopology 1).2.v = icoVertexCount 1 ∧
      (icoTopology 2).2.v = icoVertexCount 2 ∧
      (icoTopology 0).2.cache = [] ∧ (icoTopology 1).2.cache = [] ∧ (icoTopology 2).2.cache = [] := by
  decide +kernel

/-! ### sphere and ellipsoid meshes -/

/-- what is proved about a centre-fan mesh over an icosphere -/
structure FanGood (order : Nat) (inr : ℝ) (OnSurface : V3 ℝ → Prop) (m : Mesh ℝ) : Prop where
  n_vertices : m.vertices.length = 10 * 4 ^ order + 3
  n_tets : m.tets.length = 20 * 4 ^ order
  pot_len : m.potentials.length = m.vertices.length
  /-- every vertex but the last is on the surface with potential 0; the last is the centre with
  the inradius as potential -/
  boundary : ∀ i, i < 10 * 4 ^ order + 2 →
    ∃ p, m.vertices[i]? = some p ∧ OnSurface p ∧ m.potentials[i]? = some 0
  centre : m.vertices[10 * 4 ^ order + 2]? = some ⟨0, 0, 0⟩ ∧
    m.potentials[10 * 4 ^ order + 2]? = some inr
  /-- every tetrahedron is a surface triangle joined to the centre vertex -/
  fan : ∀ t ∈ m.tets, t.i3 = 10 * 4 ^ order + 2

theorem fanTets_i3 (tris : List (Nat × Nat × Nat)) (c : Nat) : ∀ t ∈ fanTets tris c, t.i3 = c := by
  intro t ht
  unfold fanTets at ht
  obtain ⟨x, _, rfl⟩ := List.mem_map.mp ht
  rfl

theorem fan_good_of (order : Nat) (inr : ℝ) (OnSurface : V3 ℝ → Prop)
    (vs : List (V3 ℝ)) (tris : List (Nat × Nat × Nat))
    (hl : vs.length = 10 * 4 ^ order + 2) (ht : tris.length = 20 * 4 ^ order)
    (hs : ∀ v ∈ vs, OnSurface v) :
    FanGood order inr OnSurface
      { vertices := vs ++ [V3.zero], tets := fanTets tris vs.length,
        potentials := List.replicate vs.length 0 ++ [inr] } := by
  refine ⟨?_, ?_, ?_, ?_, ?_, ?_⟩
  · simp [hl]
  · simp [fanTets, ht]
  · simp
  · intro i hi
    have hi' : i < vs.length := by omega
    refine ⟨vs[i], ?_, hs _ (List.getElem_mem hi'), ?_⟩
    · simp [List.getElem?_append_left hi']
    · rw [List.getElem?_append_left (by simpa using hi')]
      simp [hi']
  · constructor
    · rw [← hl]; simp [V3.zero]
    · rw [← hl]
      rw [List.getElem?_append_right (by simp)]
      simp
  · intro t htm
    rw [← hl]
    exact fanTets_i3 _ _ t htm

/-- **sphere.** If `make_tetrahedral_sphere` returns a mesh, every vertex but the last lies on the
sphere of the given radius and has potential 0, the last vertex is the centre with potential
`radius`, and the element counts are `10·4^order+3` / `20·4^order`. -/
theorem sphere_good (r : ℝ) (hr : 0 < r) (order : Nat) (m : Mesh ℝ)
    (h : makeTetrahedralSphere r order = .ok m) :
    FanGood order r (fun p => V3.normSq p = r * r) m := by
  unfold makeTetrahedralSphere at h
  split at h
  · cases h
  · rename_i vs tris hico
    cases h
    obtain ⟨hl, ht, hs⟩ := icosphere_spec V3.zero r hr order vs tris hico
    apply fan_good_of order r _ vs tris hl ht
    intro v hv
    have := hs v hv
    simpa [V3.normSq_def, V3.zero] using this

/-- **ellipsoid.** Likewise with the ellipsoid equation and the smallest radius as inradius. -/
theorem ellipsoid_good (radii : V3 ℝ) (hr : 0 < radii.x ∧ 0 < radii.y ∧ 0 < radii.z) (order : Nat)
    (m : Mesh ℝ) (h : makeTetrahedralEllipsoid radii order = .ok m) :
    FanGood order (min (min radii.x radii.y) radii.z)
      (fun p => (p.x / radii.x) ^ 2 + (p.y / radii.y) ^ 2 + (p.z / radii.z) ^ 2 = 1) m := by
  unfold makeTetrahedralEllipsoid at h
  split at h
  · cases h
  · rename_i vs tris hico
    cases h
    obtain ⟨hl, ht, hs⟩ := icosphere_spec V3.zero 1 one_pos order vs tris hico
    have := fan_good_of order (min (min radii.x radii.y) radii.z)
      (fun p => (p.x / radii.x) ^ 2 + (p.y / radii.y) ^ 2 + (p.z / radii.z) ^ 2 = 1)
      (vs.map (scaleRow radii)) tris (by simpa using hl) ht ?_
    · simpa using this
    · intro v hv
      obtain ⟨p, hp, rfl⟩ := List.mem_map.mp hv
      have h1 := hs p hp
      obtain ⟨a, b, c⟩ := hr
      simp only [V3.normSq_def, V3.zero, V3.sub_x, V3.sub_y, V3.sub_z, sub_zero] at h1
      simp only [scaleRow]
      have ea : p.x * radii.x / radii.x = p.x := by field_simp
      have eb : p.y * radii.y / radii.y = p.y := by field_simp
      have ec : p.z * radii.z / radii.z = p.z := by field_simp
      rw [ea, eb, ec]
      nlinarith [h1]

/-! ### definedness at order 0 (non-vacuity of the conditional theorems) -/

theorem mapM_ok_of_forall {β γ : Type} (f : β → Except Err γ) :
    ∀ (l : List β), (∀ a ∈ l, ∃ b, f a = .ok b) → ∃ r, l.mapM f = .ok r
  | [], _ => ⟨[], rfl⟩
  | a :: l, h => by
    obtain ⟨b, hb⟩ := h a (by simp)
    obtain ⟨bs, hbs⟩ := mapM_ok_of_forall f l (fun x hx => h x (by simp [hx]))
    exact ⟨b :: bs, by rw [List.mapM_cons, hb, hbs]; rfl⟩

theorem normalizeRow_ok (r : ℝ) (hr : 0 < r) (p : V3 ℝ) (hp : 0 < V3.normSq p) :
    ∃ q, normalizeRow r p = .ok q := by
  unfold normalizeRow
  rw [if_neg (ne_of_gt hr)]
  dsimp only
  have hn : 0 < V3.norm p := by
    rw [V3.norm_def]; exact Real.sqrt_pos.mpr hp
  have : (1 : ℝ) / r * V3.norm p ≠ 0 := by positivity
  rw [if_neg this]
  exact ⟨_, rfl⟩

/-- the icosahedron itself (order 0) is always defined: no vertex has norm 0 -/
theorem sphere_order0_defined (r : ℝ) (hr : 0 < r) : ∃ m, makeTetrahedralSphere r 0 = .ok m := by
  have htopo : icoTopology 0 = (icoTriangles0, ⟨[], 12, []⟩) := rfl
  have hpos : ∀ p ∈ (icoVertices0 : List (V3 ℝ)), 0 < V3.normSq p := by
    intro p hp
    simp only [icoVertices0, List.mem_cons, List.not_mem_nil, or_false] at hp
    have f2 : 0 ≤ (goldenF : ℝ) * goldenF := mul_self_nonneg _
    rcases hp with rfl | rfl | rfl | rfl | rfl | rfl | rfl | rfl | rfl | rfl | rfl | rfl <;>
      (simp only [V3.normSq_def]; nlinarith [f2])
  obtain ⟨vs, hvs⟩ := mapM_ok_of_forall (normalizeRow r) (icoVertices0 : List (V3 ℝ))
    (fun p hp => normalizeRow_ok r hr p (hpos p hp))
  have hico : makeTriangularIcosphere (V3.zero : V3 ℝ) r 0 = .ok (vs.map (· + V3.zero), icoTriangles0) := by
    unfold makeTriangularIcosphere
    simp only [htopo, icoVertexCount, icoMidpoints]
    have : (icoVertices0 : List (V3 ℝ)).length = 12 := rfl
    simp [this, hvs]
  exact ⟨_, by unfold makeTetrahedralSphere; rw [hico]⟩

end TetraMesh
end D3
