/-
The vertex hulls used by `plane_to_triangle`, `plane_to_rectangle`, `plane_to_box` are the primitives
themselves: `Hull [A,B,C] = triangleSet A B C`, `Hull (rectVertices …) = rectSet …`.
-/
import D3.Proofs.DistLineHull

namespace D3
namespace DistLine

/-- the triangle with vertices `A B C` in barycentric coordinates -/
def triangleSet (A B C : V) : V → Prop := fun x =>
  ∃ u v w : ℝ, 0 ≤ u ∧ 0 ≤ v ∧ 0 ≤ w ∧ u + v + w = 1 ∧ x = u * A + v * B + w * C

theorem hull_triangle (A B C : V) (x : V) : Hull [A, B, C] x ↔ triangleSet A B C x := by
  constructor
  · intro hx
    induction hx with
    | vertex p hp =>
      simp only [List.mem_cons, List.mem_nil_iff, or_false] at hp
      rcases hp with rfl | rfl | rfl
      · exact ⟨1, 0, 0, by norm_num, le_refl _, le_refl _, by norm_num, by apply V3.ext' <;> simp⟩
      · exact ⟨0, 1, 0, le_refl _, by norm_num, le_refl _, by norm_num, by apply V3.ext' <;> simp⟩
      · exact ⟨0, 0, 1, le_refl _, le_refl _, by norm_num, by norm_num, by apply V3.ext' <;> simp⟩
    | seg x y t _ _ h0 h1 ihx ihy =>
      obtain ⟨u, v, w, hu, hv, hw, hs, rfl⟩ := ihx
      obtain ⟨u', v', w', hu', hv', hw', hs', rfl⟩ := ihy
      refine ⟨(1 - t) * u + t * u', (1 - t) * v + t * v', (1 - t) * w + t * w', ?_, ?_, ?_, ?_, ?_⟩
      · nlinarith
      · nlinarith
      · nlinarith
      · nlinarith
      · apply V3.ext' <;> simp only [V3.add_x, V3.add_y, V3.add_z, V3.sub_x, V3.sub_y, V3.sub_z,
          V3.smul_x, V3.smul_y, V3.smul_z] <;> ring
  · rintro ⟨u, v, w, hu, hv, hw, hs, rfl⟩
    have hA : Hull [A, B, C] A := Hull.vertex A (by simp)
    have hB : Hull [A, B, C] B := Hull.vertex B (by simp)
    have hC : Hull [A, B, C] C := Hull.vertex C (by simp)
    by_cases hvw : v + w = 0
    · have hv0 : v = 0 := by linarith
      have hw0 : w = 0 := by linarith
      have hu1 : u = 1 := by linarith
      have : u * A + v * B + w * C = A := by
        rw [hv0, hw0, hu1]; apply V3.ext' <;> simp
      rw [this]; exact hA
    · have hpos : 0 < v + w := lt_of_le_of_ne (by linarith) (Ne.symm hvw)
      have hy : Hull [A, B, C] (B + (w / (v + w)) * (C - B)) :=
        Hull.seg B C _ hB hC (div_nonneg hw (le_of_lt hpos)) ((div_le_one hpos).mpr (by linarith))
      have hx := Hull.seg A _ (v + w) hA hy (le_of_lt hpos) (by linarith)
      have e : u * A + v * B + w * C = A + (v + w) * (B + (w / (v + w)) * (C - B) - A) := by
        have hu' : u = 1 - (v + w) := by linarith
        rw [hu']
        apply V3.ext' <;> simp only [V3.add_x, V3.add_y, V3.add_z, V3.sub_x, V3.sub_y, V3.sub_z,
          V3.smul_x, V3.smul_y, V3.smul_z] <;> field_simp <;> ring
      rw [e]; exact hx

/-! ### rectangle -/

/-- the rectangle with centre `c`, axes `ax0 ax1` and side lengths `l0 l1` -/
def rectSet (c ax0 ax1 : V) (l0 l1 : ℝ) : V → Prop := fun x =>
  ∃ u v : ℝ, -(l0 / 2) ≤ u ∧ u ≤ l0 / 2 ∧ -(l1 / 2) ≤ v ∧ v ≤ l1 / 2 ∧ x = c + u * ax0 + v * ax1

theorem rectVertex_eq (c ax0 ax1 : V) (l0 l1 k0 k1 : ℝ) :
    rectVertex c ax0 ax1 l0 l1 (k0, k1) = c + (k0 * l0) * ax0 + (k1 * l1) * ax1 := by
  unfold rectVertex
  apply V3.ext' <;> simp only [V3.add_x, V3.add_y, V3.add_z, V3.smul_x, V3.smul_y, V3.smul_z] <;> ring

theorem rectVertices_eq (c ax0 ax1 : V) (l0 l1 : ℝ) :
    rectVertices c ax0 ax1 l0 l1 =
      [c + (-(l0 / 2)) * ax0 + (-(l1 / 2)) * ax1, c + (-(l0 / 2)) * ax0 + (l1 / 2) * ax1,
       c + (l0 / 2) * ax0 + (-(l1 / 2)) * ax1, c + (l0 / 2) * ax0 + (l1 / 2) * ax1] := by
  unfold rectVertices rectCoords
  simp only [List.map_cons, List.map_nil, rectVertex_eq]
  have h1 : (-0.5 : ℝ) * l0 = -(l0 / 2) := by norm_num; ring
  have h2 : (0.5 : ℝ) * l0 = l0 / 2 := by norm_num; ring
  have h3 : (-0.5 : ℝ) * l1 = -(l1 / 2) := by norm_num; ring
  have h4 : (0.5 : ℝ) * l1 = l1 / 2 := by norm_num; ring
  rw [h1, h2, h3, h4]

theorem rectSet_convex {c ax0 ax1 : V} {l0 l1 : ℝ} {x y : V} {t : ℝ}
    (hx : rectSet c ax0 ax1 l0 l1 x) (hy : rectSet c ax0 ax1 l0 l1 y) (h0 : 0 ≤ t) (h1 : t ≤ 1) :
    rectSet c ax0 ax1 l0 l1 (x + t * (y - x)) := by
  obtain ⟨u, v, a1, a2, a3, a4, rfl⟩ := hx
  obtain ⟨u', v', b1, b2, b3, b4, rfl⟩ := hy
  refine ⟨(1 - t) * u + t * u', (1 - t) * v + t * v', by nlinarith, by nlinarith, by nlinarith,
    by nlinarith, ?_⟩
  apply V3.ext' <;> simp only [V3.add_x, V3.add_y, V3.add_z, V3.sub_x, V3.sub_y, V3.sub_z,
    V3.smul_x, V3.smul_y, V3.smul_z] <;> ring

theorem hull_rect (c ax0 ax1 : V) (l0 l1 : ℝ) (h0 : 0 < l0) (h1 : 0 < l1) (x : V) :
    Hull (rectVertices c ax0 ax1 l0 l1) x ↔ rectSet c ax0 ax1 l0 l1 x := by
  rw [rectVertices_eq]
  constructor
  · intro hx
    induction hx with
    | vertex p hp =>
      simp only [List.mem_cons, List.mem_nil_iff, or_false] at hp
      rcases hp with rfl | rfl | rfl | rfl
      · exact ⟨-(l0 / 2), -(l1 / 2), le_refl _, by linarith, le_refl _, by linarith, rfl⟩
      · exact ⟨-(l0 / 2), l1 / 2, le_refl _, by linarith, by linarith, le_refl _, rfl⟩
      · exact ⟨l0 / 2, -(l1 / 2), by linarith, le_refl _, le_refl _, by linarith, rfl⟩
      · exact ⟨l0 / 2, l1 / 2, by linarith, le_refl _, by linarith, le_refl _, rfl⟩
    | seg x y t _ _ ht0 ht1 ihx ihy => exact rectSet_convex ihx ihy ht0 ht1
  · rintro ⟨u, v, a1, a2, a3, a4, rfl⟩
    set L := [c + (-(l0 / 2)) * ax0 + (-(l1 / 2)) * ax1, c + (-(l0 / 2)) * ax0 + (l1 / 2) * ax1,
       c + (l0 / 2) * ax0 + (-(l1 / 2)) * ax1, c + (l0 / 2) * ax0 + (l1 / 2) * ax1] with hL
    have v00 : Hull L (c + (-(l0 / 2)) * ax0 + (-(l1 / 2)) * ax1) := Hull.vertex _ (by simp [hL])
    have v01 : Hull L (c + (-(l0 / 2)) * ax0 + (l1 / 2) * ax1) := Hull.vertex _ (by simp [hL])
    have v10 : Hull L (c + (l0 / 2) * ax0 + (-(l1 / 2)) * ax1) := Hull.vertex _ (by simp [hL])
    have v11 : Hull L (c + (l0 / 2) * ax0 + (l1 / 2) * ax1) := Hull.vertex _ (by simp [hL])
    have hb0 : 0 ≤ v / l1 + 1 / 2 := by
      have : -(1 / 2) ≤ v / l1 := by rw [le_div_iff₀ h1]; linarith
      linarith
    have hb1 : v / l1 + 1 / 2 ≤ 1 := by
      have : v / l1 ≤ 1 / 2 := by rw [div_le_iff₀ h1]; linarith
      linarith
    have ha0 : 0 ≤ u / l0 + 1 / 2 := by
      have : -(1 / 2) ≤ u / l0 := by rw [le_div_iff₀ h0]; linarith
      linarith
    have ha1 : u / l0 + 1 / 2 ≤ 1 := by
      have : u / l0 ≤ 1 / 2 := by rw [div_le_iff₀ h0]; linarith
      linarith
    have e0 := Hull.seg _ _ (v / l1 + 1 / 2) v00 v01 hb0 hb1
    have e1 := Hull.seg _ _ (v / l1 + 1 / 2) v10 v11 hb0 hb1
    have e := Hull.seg _ _ (u / l0 + 1 / 2) e0 e1 ha0 ha1
    have : c + u * ax0 + v * ax1 =
        c + -(l0 / 2) * ax0 + -(l1 / 2) * ax1 +
          (v / l1 + 1 / 2) * (c + -(l0 / 2) * ax0 + (l1 / 2) * ax1 - (c + -(l0 / 2) * ax0 + -(l1 / 2) * ax1)) +
        (u / l0 + 1 / 2) *
          (c + (l0 / 2) * ax0 + -(l1 / 2) * ax1 +
              (v / l1 + 1 / 2) * (c + (l0 / 2) * ax0 + (l1 / 2) * ax1 - (c + (l0 / 2) * ax0 + -(l1 / 2) * ax1)) -
            (c + -(l0 / 2) * ax0 + -(l1 / 2) * ax1 +
              (v / l1 + 1 / 2) *
                (c + -(l0 / 2) * ax0 + (l1 / 2) * ax1 - (c + -(l0 / 2) * ax0 + -(l1 / 2) * ax1)))) := by
      apply V3.ext' <;> simp only [V3.add_x, V3.add_y, V3.add_z, V3.sub_x, V3.sub_y, V3.sub_z,
        V3.smul_x, V3.smul_y, V3.smul_z] <;> field_simp <;> ring
    rw [this]; exact e

/-! ### box -/

/-- the box with pose `A` and edge lengths `size` -/
def boxSet (A : Pose ℝ) (size : V) : V → Prop := fun x =>
  ∃ q : V, (-(size.x / 2) ≤ q.x ∧ q.x ≤ size.x / 2) ∧ (-(size.y / 2) ≤ q.y ∧ q.y ≤ size.y / 2) ∧
    (-(size.z / 2) ≤ q.z ∧ q.z ≤ size.z / 2) ∧ x = A.t + A.R.mulVec q

theorem hull_map_affine {f : V → V} (hf : ∀ x y (t : ℝ), f (x + t * (y - x)) = f x + t * (f y - f x))
    {pts : List V} {x : V} (hx : Hull pts x) : Hull (pts.map f) (f x) := by
  induction hx with
  | vertex p hp => exact Hull.vertex _ (List.mem_map.mpr ⟨p, hp, rfl⟩)
  | seg x y t _ _ h0 h1 ihx ihy => rw [hf]; exact Hull.seg _ _ t ihx ihy h0 h1

theorem lerp_half {s q : ℝ} (hs : s ≠ 0) : -(s / 2) + (q / s + 1 / 2) * (s / 2 - -(s / 2)) = q := by
  field_simp; ring

theorem lerp_half_mem {s q : ℝ} (hs : 0 < s) (h0 : -(s / 2) ≤ q) (h1 : q ≤ s / 2) :
    0 ≤ q / s + 1 / 2 ∧ q / s + 1 / 2 ≤ 1 := by
  constructor
  · have : -(1 / 2) ≤ q / s := by rw [le_div_iff₀ hs]; linarith
    linarith
  · have : q / s ≤ 1 / 2 := by rw [div_le_iff₀ hs]; linarith
    linarith

theorem hull_seg_x {L : List V} {a0 a1 b c t : ℝ} (h0 : Hull L ⟨a0, b, c⟩) (h1 : Hull L ⟨a1, b, c⟩)
    (ht0 : 0 ≤ t) (ht1 : t ≤ 1) : Hull L ⟨a0 + t * (a1 - a0), b, c⟩ := by
  have := Hull.seg _ _ t h0 h1 ht0 ht1
  have e : (⟨a0, b, c⟩ : V) + t * ((⟨a1, b, c⟩ : V) - ⟨a0, b, c⟩) = ⟨a0 + t * (a1 - a0), b, c⟩ := by
    apply V3.ext' <;> simp
  rw [e] at this; exact this

theorem hull_seg_y {L : List V} {a b0 b1 c t : ℝ} (h0 : Hull L ⟨a, b0, c⟩) (h1 : Hull L ⟨a, b1, c⟩)
    (ht0 : 0 ≤ t) (ht1 : t ≤ 1) : Hull L ⟨a, b0 + t * (b1 - b0), c⟩ := by
  have := Hull.seg _ _ t h0 h1 ht0 ht1
  have e : (⟨a, b0, c⟩ : V) + t * ((⟨a, b1, c⟩ : V) - ⟨a, b0, c⟩) = ⟨a, b0 + t * (b1 - b0), c⟩ := by
    apply V3.ext' <;> simp
  rw [e] at this; exact this

theorem hull_seg_z {L : List V} {a b c0 c1 t : ℝ} (h0 : Hull L ⟨a, b, c0⟩) (h1 : Hull L ⟨a, b, c1⟩)
    (ht0 : 0 ≤ t) (ht1 : t ≤ 1) : Hull L ⟨a, b, c0 + t * (c1 - c0)⟩ := by
  have := Hull.seg _ _ t h0 h1 ht0 ht1
  have e : (⟨a, b, c0⟩ : V) + t * ((⟨a, b, c1⟩ : V) - ⟨a, b, c0⟩) = ⟨a, b, c0 + t * (c1 - c0)⟩ := by
    apply V3.ext' <;> simp
  rw [e] at this; exact this

/-- the eight corners of the axis-aligned local box -/
noncomputable def localCorners (size : V) : List V :=
  [⟨-(size.x / 2), -(size.y / 2), -(size.z / 2)⟩, ⟨-(size.x / 2), -(size.y / 2), size.z / 2⟩,
   ⟨-(size.x / 2), size.y / 2, -(size.z / 2)⟩, ⟨-(size.x / 2), size.y / 2, size.z / 2⟩,
   ⟨size.x / 2, -(size.y / 2), -(size.z / 2)⟩, ⟨size.x / 2, -(size.y / 2), size.z / 2⟩,
   ⟨size.x / 2, size.y / 2, -(size.z / 2)⟩, ⟨size.x / 2, size.y / 2, size.z / 2⟩]

theorem local_box_hull (size q : V) (hx : 0 < size.x) (hy : 0 < size.y) (hz : 0 < size.z)
    (bx : -(size.x / 2) ≤ q.x ∧ q.x ≤ size.x / 2) (by' : -(size.y / 2) ≤ q.y ∧ q.y ≤ size.y / 2)
    (bz : -(size.z / 2) ≤ q.z ∧ q.z ≤ size.z / 2) : Hull (localCorners size) q := by
  obtain ⟨tx0, tx1⟩ := lerp_half_mem hx bx.1 bx.2
  obtain ⟨ty0, ty1⟩ := lerp_half_mem hy by'.1 by'.2
  obtain ⟨tz0, tz1⟩ := lerp_half_mem hz bz.1 bz.2
  have c (a b c : ℝ) (h : (⟨a, b, c⟩ : V) ∈ localCorners size) : Hull (localCorners size) ⟨a, b, c⟩ :=
    Hull.vertex _ h
  have z00 := hull_seg_z (c (-(size.x / 2)) (-(size.y / 2)) (-(size.z / 2)) (by simp [localCorners])) (c (-(size.x / 2)) (-(size.y / 2)) (size.z / 2)
    (by simp [localCorners])) tz0 tz1
  have z01 := hull_seg_z (c (-(size.x / 2)) (size.y / 2) (-(size.z / 2)) (by simp [localCorners]))
    (c (-(size.x / 2)) (size.y / 2) (size.z / 2) (by simp [localCorners])) tz0 tz1
  have z10 := hull_seg_z (c (size.x / 2) (-(size.y / 2)) (-(size.z / 2)) (by simp [localCorners]))
    (c (size.x / 2) (-(size.y / 2)) (size.z / 2) (by simp [localCorners])) tz0 tz1
  have z11 := hull_seg_z (c (size.x / 2) (size.y / 2) (-(size.z / 2)) (by simp [localCorners]))
    (c (size.x / 2) (size.y / 2) (size.z / 2) (by simp [localCorners])) tz0 tz1
  rw [lerp_half (ne_of_gt hz)] at z00 z01 z10 z11
  have y0 := hull_seg_y z00 z01 ty0 ty1
  have y1 := hull_seg_y z10 z11 ty0 ty1
  rw [lerp_half (ne_of_gt hy)] at y0 y1
  have x0 := hull_seg_x y0 y1 tx0 tx1
  rw [lerp_half (ne_of_gt hx)] at x0
  exact x0

theorem boxVertex_eq (A : Pose ℝ) (size k : V) :
    boxVertex A size k = A.t + A.R.mulVec ⟨k.x * size.x, k.y * size.y, k.z * size.z⟩ := by
  unfold boxVertex M3.mulVec
  apply V3.ext' <;> simp only [V3.add_x, V3.add_y, V3.add_z, V3.dot_def] <;> ring

theorem boxVertices_eq (A : Pose ℝ) (size : V) :
    boxVertices A size = (localCorners size).map fun q => A.t + A.R.mulVec q := by
  unfold boxVertices boxCoords localCorners
  simp only [List.map_cons, List.map_nil, boxVertex_eq]
  have h1 : ∀ s : ℝ, (-0.5 : ℝ) * s = -(s / 2) := by intro s; norm_num; ring
  have h2 : ∀ s : ℝ, (0.5 : ℝ) * s = s / 2 := by intro s; norm_num; ring
  simp only [h1, h2]

theorem pose_affine (A : Pose ℝ) (x y : V) (t : ℝ) :
    A.t + A.R.mulVec (x + t * (y - x))
      = (A.t + A.R.mulVec x) + t * ((A.t + A.R.mulVec y) - (A.t + A.R.mulVec x)) := by
  unfold M3.mulVec
  apply V3.ext' <;> simp only [V3.add_x, V3.add_y, V3.add_z, V3.sub_x, V3.sub_y, V3.sub_z,
    V3.smul_x, V3.smul_y, V3.smul_z, V3.dot_def] <;> ring

theorem hull_box (A : Pose ℝ) (size : V) (hx : 0 < size.x) (hy : 0 < size.y) (hz : 0 < size.z) (x : V) :
    Hull (boxVertices A size) x ↔ boxSet A size x := by
  rw [boxVertices_eq]
  constructor
  · intro h
    induction h with
    | vertex p hp =>
      obtain ⟨q, hq, rfl⟩ := List.mem_map.mp hp
      refine ⟨q, ?_⟩
      simp only [localCorners, List.mem_cons, List.mem_nil_iff, or_false] at hq
      rcases hq with rfl | rfl | rfl | rfl | rfl | rfl | rfl | rfl <;>
        exact ⟨⟨by linarith, by linarith⟩, ⟨by linarith, by linarith⟩, ⟨by linarith, by linarith⟩, rfl⟩
    | seg x y t _ _ h0 h1 ihx ihy =>
      obtain ⟨q, ax, ay, az, rfl⟩ := ihx
      obtain ⟨q', bx, by', bz, rfl⟩ := ihy
      refine ⟨q + t * (q' - q), ?_, ?_, ?_, (pose_affine A q q' t).symm⟩
      · simp only [V3.add_x, V3.smul_x, V3.sub_x]; constructor <;> nlinarith [ax.1, ax.2, bx.1, bx.2]
      · simp only [V3.add_y, V3.smul_y, V3.sub_y]; constructor <;> nlinarith [ay.1, ay.2, by'.1, by'.2]
      · simp only [V3.add_z, V3.smul_z, V3.sub_z]; constructor <;> nlinarith [az.1, az.2, bz.1, bz.2]
  · rintro ⟨q, bx, by', bz, rfl⟩
    exact hull_map_affine (f := fun q => A.t + A.R.mulVec q) (pose_affine A)
      (local_box_hull size q hx hy hz bx by' bz)

end DistLine
end D3
