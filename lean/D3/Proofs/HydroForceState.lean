/-
The cached properties of `RigidBody` at ℝ: under cache coherence (`CacheOk`) every getter
returns what a recomputation from the current vertices gives and leaves a coherent body with the
same data; hence `find_contact_surface` / `contact_forces` with their state threading equal the
cache-free functions.  `express_in` resets all four caches, so its result is always coherent.
-/
import D3.Proofs.HydroForceBroad

set_option linter.unusedSectionVars false
set_option linter.unusedSimpArgs false

namespace D3
namespace HydroForce
open Aabb

theorem Body.SameData.refl (b : Body ℝ) : b.SameData b := ⟨rfl, rfl, rfl, rfl⟩
theorem Body.SameData.trans {a b c : Body ℝ} (h1 : a.SameData b) (h2 : b.SameData c) : a.SameData c :=
  ⟨h1.pose.trans h2.pose, h1.verts.trans h2.verts, h1.tets.trans h2.tets, h1.pots.trans h2.pots⟩

theorem Body.SameData.tetPts {a b : Body ℝ} (h : a.SameData b) : a.tetPtsPure = b.tetPtsPure := by
  unfold Body.tetPtsPure; rw [h.verts, h.tets]
theorem Body.SameData.aabbs {a b : Body ℝ} (h : a.SameData b) : a.aabbsPure = b.aabbsPure := by
  unfold Body.aabbsPure; rw [h.verts, h.tets]
theorem Body.SameData.com {a b : Body ℝ} (h : a.SameData b) : a.comPure = b.comPure := by
  unfold Body.comPure; rw [h.verts, h.tets]
theorem Body.SameData.tree {a b : Body ℝ} (h : a.SameData b) : a.treePure = b.treePure := by
  unfold Body.treePure; rw [h.verts, h.tets]
theorem Body.SameData.potentials {a b : Body ℝ} (h : a.SameData b) :
    a.tetrahedraPotentials = b.tetrahedraPotentials := by
  unfold Body.tetrahedraPotentials; rw [h.pots, h.tets]

/-- **`express_in` resets every cache**: the re-expressed body is coherent whatever the caches
of the input were -/
theorem expressIn_cacheOk (b : Body ℝ) (N : Pose ℝ) : (b.expressIn N).CacheOk :=
  ⟨fun _ h => by simp [Body.expressIn] at h, fun _ h => by simp [Body.expressIn] at h,
   fun _ h => by simp [Body.expressIn] at h, fun _ h => by simp [Body.expressIn] at h⟩

/-- a freshly constructed body is coherent -/
theorem mk'_cacheOk (pose : Pose ℝ) (verts : List V) (tets : List (Nat × Nat × Nat × Nat))
    (pots : List ℝ) : (Body.mk' pose verts tets pots).CacheOk :=
  ⟨fun _ h => by simp [Body.mk'] at h, fun _ h => by simp [Body.mk'] at h,
   fun _ h => by simp [Body.mk'] at h, fun _ h => by simp [Body.mk'] at h⟩

/-- moving a body (changing only its pose) keeps its caches coherent: they are body-frame data -/
theorem moved_cacheOk {b : Body ℝ} (h : b.CacheOk) (g : Pose ℝ) : (b.moved g).CacheOk :=
  ⟨h.tet, h.com, h.aabbs, h.tree⟩

theorem updatePose_cacheOk {b : Body ℝ} (h : b.CacheOk) (P : Pose ℝ) : (b.updatePose P).CacheOk :=
  ⟨h.tet, h.com, h.aabbs, h.tree⟩

/-- a stateful getter `m` agrees with the pure value `p` and leaves a coherent body with the
same data as `b` -/
def Spec {β : Type} (m : Except Err (β × Body ℝ)) (p : Except Err β) (b : Body ℝ) : Prop :=
  match p with
  | .error e => m = .error e
  | .ok v => ∃ b', m = .ok (v, b') ∧ b'.SameData b ∧ b'.CacheOk

theorem tetrahedraPoints_spec {b : Body ℝ} (h : b.CacheOk) : Spec b.tetrahedraPoints b.tetPtsPure b := by
  unfold Body.tetrahedraPoints
  cases hc : b.cTetPts with
  | some t =>
    rw [h.tet t hc]
    exact ⟨b, rfl, Body.SameData.refl b, h⟩
  | none =>
    simp only []
    cases hg : b.tetPtsPure with
    | error e =>
      have hg' : gatherTets b.verts b.tets = .error e := hg
      simp only [Spec, hg', bind, Except.bind]
    | ok t =>
      have hg' : gatherTets b.verts b.tets = .ok t := hg
      refine ⟨{ b with cTetPts := some t }, ?_, ⟨rfl, rfl, rfl, rfl⟩, ?_⟩
      · simp only [hg', bind, Except.bind, pure, Except.pure]
      · exact ⟨fun t' ht' => by
          have : t = t' := by simpa using ht'
          subst this; exact hg, h.com, h.aabbs, h.tree⟩

theorem aabbsPure_eq (b : Body ℝ) :
    b.aabbsPure = (match b.tetPtsPure with | .ok tp => .ok (tetrahedralMeshAabbs tp) | .error e => .error e) := by
  unfold Body.aabbsPure aabbsOf Body.tetPtsPure
  cases gatherTets b.verts b.tets <;> rfl

theorem comPure_eq (b : Body ℝ) :
    b.comPure = (match b.tetPtsPure with | .ok tp => centerOfMass tp | .error e => .error e) := by
  unfold Body.comPure comOf Body.tetPtsPure
  cases gatherTets b.verts b.tets <;> rfl

theorem treePure_eq (b : Body ℝ) :
    b.treePure = (match b.aabbsPure with | .ok a => buildTree a | .error e => .error e) := by
  unfold Body.treePure treeOf Body.aabbsPure
  cases aabbsOf b.verts b.tets <;> rfl

theorem aabbs_spec {b : Body ℝ} (h : b.CacheOk) : Spec b.aabbs b.aabbsPure b := by
  unfold Body.aabbs
  cases hc : b.cAabbs with
  | some a =>
    rw [h.aabbs a hc]
    exact ⟨b, rfl, Body.SameData.refl b, h⟩
  | none =>
    simp only []
    have hs := tetrahedraPoints_spec h
    rw [aabbsPure_eq]
    cases hg : b.tetPtsPure with
    | error e =>
      rw [hg] at hs
      simp only [Spec] at hs ⊢
      simp only [hs, bind, Except.bind]
    | ok tp =>
      rw [hg] at hs
      obtain ⟨b', hm, hsd, hok⟩ := hs
      refine ⟨{ b' with cAabbs := some (tetrahedralMeshAabbs tp) }, ?_, ⟨hsd.pose, hsd.verts, hsd.tets, hsd.pots⟩, ?_⟩
      · simp only [hm, bind, Except.bind, pure, Except.pure]
      · refine ⟨hok.tet, hok.com, fun a ha => ?_, hok.tree⟩
        have : tetrahedralMeshAabbs tp = a := by simpa using ha
        subst this
        have e1 : ({ b' with cAabbs := some (tetrahedralMeshAabbs tp) } : Body ℝ).aabbsPure = b.aabbsPure :=
          Body.SameData.aabbs ⟨hsd.pose, hsd.verts, hsd.tets, hsd.pots⟩
        rw [e1, aabbsPure_eq, hg]

theorem com_spec {b : Body ℝ} (h : b.CacheOk) : Spec b.com b.comPure b := by
  unfold Body.com
  cases hc : b.cCom with
  | some c =>
    rw [h.com c hc]
    exact ⟨b, rfl, Body.SameData.refl b, h⟩
  | none =>
    simp only []
    have hs := tetrahedraPoints_spec h
    rw [comPure_eq]
    cases hg : b.tetPtsPure with
    | error e =>
      rw [hg] at hs
      simp only [Spec] at hs ⊢
      simp only [hs, bind, Except.bind]
    | ok tp =>
      rw [hg] at hs
      obtain ⟨b', hm, hsd, hok⟩ := hs
      simp only []
      cases hcm : centerOfMass tp with
      | error e =>
        simp only [Spec, hm, hcm, bind, Except.bind]
      | ok c =>
        refine ⟨{ b' with cCom := some c }, ?_, ⟨hsd.pose, hsd.verts, hsd.tets, hsd.pots⟩, ?_⟩
        · simp only [hm, hcm, bind, Except.bind, pure, Except.pure]
        · refine ⟨hok.tet, fun c' hc' => ?_, hok.aabbs, hok.tree⟩
          have : c = c' := by simpa using hc'
          subst this
          have e1 : ({ b' with cCom := some c } : Body ℝ).comPure = b.comPure :=
            Body.SameData.com ⟨hsd.pose, hsd.verts, hsd.tets, hsd.pots⟩
          rw [e1, comPure_eq, hg]; exact hcm

theorem aabbTree_spec {b : Body ℝ} (h : b.CacheOk) : Spec b.aabbTree b.treePure b := by
  unfold Body.aabbTree
  cases hc : b.cTree with
  | some c =>
    rw [h.tree c hc]
    exact ⟨b, rfl, Body.SameData.refl b, h⟩
  | none =>
    simp only []
    have hs := aabbs_spec h
    rw [treePure_eq]
    cases hg : b.aabbsPure with
    | error e =>
      rw [hg] at hs
      simp only [Spec] at hs ⊢
      simp only [hs, bind, Except.bind]
    | ok a =>
      rw [hg] at hs
      obtain ⟨b', hm, hsd, hok⟩ := hs
      simp only []
      cases hbt : buildTree a with
      | error e =>
        simp only [Spec, hm, hbt, bind, Except.bind]
      | ok c =>
        refine ⟨{ b' with cTree := some c }, ?_, ⟨hsd.pose, hsd.verts, hsd.tets, hsd.pots⟩, ?_⟩
        · simp only [hm, hbt, bind, Except.bind, pure, Except.pure]
        · refine ⟨hok.tet, hok.com, hok.aabbs, fun c' hc' => ?_⟩
          have : c = c' := by simpa using hc'
          subst this
          have e1 : ({ b' with cTree := some c } : Body ℝ).treePure = b.treePure :=
            Body.SameData.tree ⟨hsd.pose, hsd.verts, hsd.tets, hsd.pots⟩
          rw [e1, treePure_eq, hg]; exact hbt

/-- two-body version of `Spec` -/
def Spec2 {β : Type} (m : Except Err (β × Body ℝ × Body ℝ)) (p : Except Err β) (b1 b2 : Body ℝ) : Prop :=
  match p with
  | .error e => m = .error e
  | .ok v => ∃ b1' b2', m = .ok (v, b1', b2') ∧ b1'.SameData b1 ∧ b2'.SameData b2 ∧
      b1'.CacheOk ∧ b2'.CacheOk

theorem broadPhase_spec {b1 b2 : Body ℝ} (h1 : b1.CacheOk) (h2 : b2.CacheOk) (u : Bool) :
    Spec2 (broadPhase b1 b2 u) (broadCore b1.verts b1.tets b2.verts b2.tets u) b1 b2 := by
  cases u with
  | true =>
    simp only [broadPhase, broadCore, if_true]
    have s1 := aabbTree_spec h1
    have s2 := aabbTree_spec h2
    unfold Body.treePure at s1 s2
    cases r1 : treeOf b1.verts b1.tets with
    | error e =>
      rw [r1] at s1
      simp only [Spec] at s1
      simp only [Spec2, s1, bind, Except.bind]
    | ok c1 =>
      rw [r1] at s1
      obtain ⟨b1', m1, sd1, ok1⟩ := s1
      cases r2 : treeOf b2.verts b2.tets with
      | error e =>
        rw [r2] at s2
        simp only [Spec] at s2
        simp only [Spec2, m1, s2, bind, Except.bind]
      | ok c2 =>
        rw [r2] at s2
        obtain ⟨b2', m2, sd2, ok2⟩ := s2
        cases r3 : broadTree c1 c2 with
        | error e => simp only [Spec2, m1, m2, r3, bind, Except.bind]
        | ok ps =>
          simp only [Spec2, bind, Except.bind, r3]
          refine ⟨b1', b2', ?_, sd1, sd2, ok1, ok2⟩
          simp only [m1, m2, r3, bind, Except.bind, pure, Except.pure]
  | false =>
    simp only [broadPhase, broadCore, Bool.false_eq_true, if_false]
    have s1 := aabbs_spec h1
    have s2 := aabbs_spec h2
    unfold Body.aabbsPure at s1 s2
    cases r1 : aabbsOf b1.verts b1.tets with
    | error e =>
      rw [r1] at s1
      simp only [Spec] at s1
      simp only [Spec2, s1, bind, Except.bind]
    | ok a1 =>
      rw [r1] at s1
      obtain ⟨b1', m1, sd1, ok1⟩ := s1
      cases r2 : aabbsOf b2.verts b2.tets with
      | error e =>
        rw [r2] at s2
        simp only [Spec] at s2
        simp only [Spec2, m1, s2, bind, Except.bind]
      | ok a2 =>
        rw [r2] at s2
        obtain ⟨b2', m2, sd2, ok2⟩ := s2
        simp only [Spec2, bind, Except.bind, pure, Except.pure]
        refine ⟨b1', b2', ?_, sd1, sd2, ok1, ok2⟩
        simp only [m1, m2, bind, Except.bind, pure, Except.pure]

/-- `find_contact_surface` with its state threading = the cache-free function, for a coherent
body 2 (body 1 is always coherent after `express_in`); both returned bodies are coherent and
carry the data of `b1.expressIn b2.pose` and `b2` -/
theorem findContactSurface_spec (pairFn : PairFn ℝ) (b1 b2 : Body ℝ) (h2 : b2.CacheOk) (u : Bool) :
    Spec2 (findContactSurface pairFn b1 b2 u)
      ((contactsPure pairFn b1 b2 u).map fun cs =>
        ({ frame2world := b2.pose, intersection := !cs.isEmpty, contacts := cs } : ContactSurface ℝ))
      (b1.expressIn b2.pose) b2 := by
  unfold findContactSurface contactsPure contactsCore
  have h1 := expressIn_cacheOk b1 b2.pose
  generalize b1.expressIn b2.pose = E at h1 ⊢
  have sb := broadPhase_spec h1 h2 u
  cases r0 : broadCore E.verts E.tets b2.verts b2.tets u with
  | error e =>
    rw [r0] at sb
    simp only [Spec2] at sb
    simp only [Spec2, sb, r0, bind, Except.bind, Except.map]
  | ok pairs =>
    rw [r0] at sb
    obtain ⟨e1, c1, m0, sd1, sd2, ok1, ok2⟩ := sb
    have st1 := tetrahedraPoints_spec ok1
    rw [sd1.tetPts] at st1
    unfold Body.tetPtsPure at st1
    cases r1 : gatherTets E.verts E.tets with
    | error e =>
      rw [r1] at st1
      simp only [Spec] at st1
      simp only [Spec2, m0, st1, r0, r1, bind, Except.bind, Except.map]
    | ok tp1 =>
      rw [r1] at st1
      obtain ⟨e2, m1, sd1', ok1'⟩ := st1
      have st2 := tetrahedraPoints_spec ok2
      rw [sd2.tetPts] at st2
      unfold Body.tetPtsPure at st2
      cases r2 : gatherTets b2.verts b2.tets with
      | error e =>
        rw [r2] at st2
        simp only [Spec] at st2
        simp only [Spec2, m0, m1, st2, r0, r1, r2, bind, Except.bind, Except.map]
      | ok tp2 =>
        rw [r2] at st2
        obtain ⟨c2, m2, sd2', ok2'⟩ := st2
        have p1 : e2.tetrahedraPotentials = gatherEps E.pots E.tets :=
          (sd1'.trans sd1).potentials
        have p2 : c2.tetrahedraPotentials = gatherEps b2.pots b2.tets :=
          (sd2'.trans sd2).potentials
        cases r3 : gatherEps E.pots E.tets with
        | error e =>
          rw [r3] at p1
          simp only [Spec2, m0, m1, m2, p1, r0, r1, r2, r3, bind, Except.bind, Except.map]
        | ok ep1 =>
          rw [r3] at p1
          cases r4 : gatherEps b2.pots b2.tets with
          | error e =>
            rw [r4] at p2
            simp only [Spec2, m0, m1, m2, p1, p2, r0, r1, r2, r3, r4, bind, Except.bind, Except.map]
          | ok ep2 =>
            rw [r4] at p2
            cases r5 : narrowPhase pairFn tp1 ep1 tp2 ep2 pairs with
            | error e =>
              simp only [Spec2, m0, m1, m2, p1, p2, r0, r1, r2, r3, r4, r5, bind, Except.bind, Except.map]
            | ok cs =>
              simp only [Spec2, r0, r1, r2, r3, r4, r5, bind, Except.bind, Except.map]
              refine ⟨e2, c2, ?_, sd1'.trans sd1, sd2'.trans sd2, ok1', ok2'⟩
              simp only [m0, m1, m2, p1, p2, r5, bind, Except.bind, Except.map, pure, Except.pure,
                (sd2'.trans sd2).pose]

/-- `accumulate_wrenches` with its cached `com` reads = the pure sums about the recomputed
centres of mass -/
theorem accumulateWrenches_spec (surf : ContactSurface ℝ) {b1 b2 : Body ℝ} (h1 : b1.CacheOk)
    (h2 : b2.CacheOk) :
    Spec2 (accumulateWrenches surf b1 b2)
      (do let com1 ← b1.comPure
          let com2 ← b2.comPure
          pure (accumulateWrenchesAt surf.frame2world surf.contacts com1 com2)) b1 b2 := by
  unfold accumulateWrenches
  have s1 := com_spec h1
  have s2 := com_spec h2
  cases r1 : b1.comPure with
  | error e =>
    rw [r1] at s1
    simp only [Spec] at s1
    simp only [Spec2, s1, bind, Except.bind]
  | ok com1 =>
    rw [r1] at s1
    obtain ⟨b1', m1, sd1, ok1⟩ := s1
    cases r2 : b2.comPure with
    | error e =>
      rw [r2] at s2
      simp only [Spec] at s2
      simp only [Spec2, m1, s2, bind, Except.bind]
    | ok com2 =>
      rw [r2] at s2
      obtain ⟨b2', m2, sd2, ok2⟩ := s2
      simp only [Spec2, bind, Except.bind, pure, Except.pure]
      exact ⟨b1', b2', by simp only [m1, m2], sd1, sd2, ok1, ok2⟩

/-- **`contact_forces` = its cache-free counterpart** for a coherent body 2; the returned
bodies are coherent, body 1 carries the data of `b1.expressIn b2.pose`, body 2 is unchanged
up to filled caches -/
theorem contactForces_spec (pairFn : PairFn ℝ) (b1 b2 : Body ℝ) (h2 : b2.CacheOk) :
    Spec2 (contactForces pairFn b1 b2) (contactForcesPure pairFn b1 b2) (b1.expressIn b2.pose) b2 := by
  have hf := findContactSurface_spec pairFn b1 b2 h2 false
  unfold contactForces contactForcesPure forcesCore
  unfold contactsPure at hf
  simp only [] at hf ⊢
  generalize b1.expressIn b2.pose = E at hf ⊢
  cases r0 : contactsCore pairFn E.verts E.tets E.pots b2.verts b2.tets b2.pots false with
  | error e =>
    rw [r0] at hf
    simp only [Spec2, Except.map] at hf
    simp only [Spec2, hf, r0, bind, Except.bind]
  | ok cs =>
    rw [r0] at hf
    obtain ⟨e1, c1, m0, sd1, sd2, ok1, ok2⟩ := hf
    have ha := accumulateWrenches_spec
      ({ frame2world := b2.pose, intersection := !cs.isEmpty, contacts := cs } : ContactSurface ℝ) ok1 ok2
    rw [sd1.com, sd2.com] at ha
    unfold Body.comPure at ha
    cases r1 : comOf E.verts E.tets with
    | error e =>
      rw [r1] at ha
      simp only [Spec2, bind, Except.bind] at ha
      simp only [Spec2, m0, ha, r0, r1, bind, Except.bind]
    | ok com1 =>
      rw [r1] at ha
      cases r2 : comOf b2.verts b2.tets with
      | error e =>
        rw [r2] at ha
        simp only [Spec2, bind, Except.bind] at ha
        simp only [Spec2, m0, ha, r0, r1, r2, bind, Except.bind]
      | ok com2 =>
        rw [r2] at ha
        simp only [Spec2, bind, Except.bind, pure, Except.pure] at ha
        obtain ⟨e2, c2, m1, sd1', sd2', ok1', ok2'⟩ := ha
        simp only [Spec2, r0, r1, r2, bind, Except.bind, pure, Except.pure]
        refine ⟨e2, c2, ?_, sd1'.trans sd1, sd2'.trans sd2, ok1', ok2'⟩
        simp only [m0, m1]

end HydroForce
end D3
