/-
Model of the Nesterov-accelerated GJK of distance3d (C09), core Lean only, scalar-polymorphic:

* `distance3d/gjk/_gjk_nesterov_accelerated.py`
    `gjk_nesterov_accelerated` (main loop: ray / ray_dir / ray_len, momentum, omega lower bound,
    Frank–Wolfe duality-gap switch, convergence test `cv_check_passed`, `inflation`),
    `support_function` / `select_support` (which collider types get the specialised core
    support + inflation and which the generic world-frame support),
    `sphere_support`, `capsule_support`, `box_support`, `ellipsoid_support`, `cylinder_support`,
    `origin_to_point/segment/triangle`, `project_line_origin`, `t_b`, `project_triangle_origin`,
    `region_*`, `project_tetra_to_origin`;
* `distance3d/gjk/_gjk_nesterov_accelerated_primitives.py`
    `run_gjk_nesterov_accelerated`, type-coded `select_support` (0 sphere, 1 capsule, 2 box,
    3 ellipsoid, 4 cylinder) over the `data` vectors of `get_data_from_collider`, the same
    projection routines (textually identical up to unused index arguments; the only difference,
    a two-armed `if` whose arms are equal in the non-primitives file, has no effect).

Faithful to the code as it is: the initial `ray = (1,0,0)`, `ray_len = 1`, `alpha = 0`,
`distance = 0` returned at the iteration cap, `continue` without `i += 1` when the acceleration is
switched off, the `1.00000001` / `1.00001` inflation factors of the box / cylinder supports, the
truthiness test `if c.dot(a_cross_b):` inside `project_tetra_to_origin`, and the fact that
`inflation` is subtracted whatever support pair was used.
Divisions are checked (`divZero`) where numpy would produce inf/NaN without raising.
Exit ids: 1 `ray_len < tolerance`, 2 `omega > upper_bound`, 3 convergence test, 4 origin inside the
simplex / `ray_len == 0`, 5 iteration cap.
-/
import D3.Model.Vec
import D3.Gen.Constants

namespace D3
namespace Nesterov

scalar_variables

/-- `x == 0.0` as IEEE sees it (true for ±0, false for NaN); at ℝ it is `x = 0` -/
abbrev isZero (x : α) : Prop := x ≤ 0 ∧ 0 ≤ x

def cdiv (x y : α) : Except Err α :=
  if y < 0 ∨ 0 < y then .ok (x / y) else .error .divZero

/-- `float(n)` for the small integers of the momentum formula -/
def natS : Nat → α
  | 0 => 0
  | n + 1 => natS n + 1

/-- `utils.norm_vector` -/
def normVector (v : V3 α) : V3 α :=
  let n := V3.norm v
  if isZero n then v else V3.sdiv v n

/-! ### supports in the frame of collider 0 -/

/-- collider types as `select_support` / `get_data_from_collider` distinguish them; everything
else (Cone, Disk, Ellipse, MeshGraph, ConvexHullVertices, Margin) is `other` (`found = False`;
the primitives variant asserts it away) -/
inductive Kind where
  | sphere | capsule | box | ellipsoid | cylinder | other
  deriving Repr, DecidableEq, Inhabited

/-- `data` as built by `get_data_from_collider`: sphere `(0,0,0)`, capsule `(h/2,0,0)`,
box `size/2`, ellipsoid `(a²,b²,c²)`, cylinder `(l/2, r, 0)`; `radius` is what `inflation` adds -/
structure Coll (α : Type) where
  kind : Kind
  data : V3 α
  radius : α
  deriving Repr

def Kind.found : Kind → Bool
  | .other => false
  | _ => true

def Kind.inflated : Kind → Bool
  | .sphere => true
  | .capsule => true
  | _ => false

/-- the `inflation` of `gjk_nesterov_accelerated` **before** the repair (commit 78b7577): the radii of
spheres / capsules were added whatever support pair `support_function` would use -/
def inflationOf_asIs_before_fix (c0 c1 : Coll α) : α :=
  let i0 : α := if c0.kind.inflated then 0 + c0.radius else 0
  if c1.kind.inflated then i0 + c1.radius else i0

/-- the `inflation` of `gjk_nesterov_accelerated` as it is now: the radii are only added
`if _has_specialised_support(collider0) and _has_specialised_support(collider1)` (the same type list
as `select_support`'s `found`), i.e. exactly when `support_function` returns the core supports.
`gjk_nesterov_accelerated_primitives` has no such guard but only accepts specialised types, for which
both definitions agree (`inflationOf_eq_before_fix_of_found`). -/
def inflationOf (c0 c1 : Coll α) : α :=
  if c0.kind.found && c1.kind.found then inflationOf_asIs_before_fix c0 c1 else 0

def sphereSupport : V3 α := ⟨0, 0, 0⟩

def capsuleSupport (dir : V3 α) (data : V3 α) : V3 α :=
  if 0 < dir.z then ⟨0, 0, data.x⟩ else ⟨0, 0, -data.x⟩

def boxSupport (dir : V3 α) (data : V3 α) : V3 α :=
  let inflate : α := if isZero dir.x ∨ isZero dir.y ∨ isZero dir.z then 1.00000001 else 1.0
  ⟨if 0 < dir.x then inflate * data.x else -inflate * data.x,
   if 0 < dir.y then inflate * data.y else -inflate * data.y,
   if 0 < dir.z then inflate * data.z else -inflate * data.z⟩

def ellipsoidSupport (dir : V3 α) (data : V3 α) : Except Err (V3 α) :=
  let v : V3 α := ⟨data.x * dir.x, data.y * dir.y, data.z * dir.z⟩
  let q := V3.dot v dir
  if q < 0 then .error .sqrtNeg else
    let d := sqrt q
    if d < 0 ∨ 0 < d then .ok (V3.sdiv v d) else .error .divZero

def cylinderSupport (dir : V3 α) (data : V3 α) : V3 α :=
  let inflate : α := 1.00001
  let axial : Prop := isZero dir.x ∧ isZero dir.y
  let h : α := if axial then data.x * inflate else data.x
  let sz : α := if 0 < dir.z then h else if dir.z < 0 then -h else 0
  let r : α := if 0 < dir.z then data.y else if dir.z < 0 then data.y else data.y * inflate
  if axial then ⟨0, 0, sz⟩
  else
    let n := sqrt (dir.x * dir.x + dir.y * dir.y)
    ⟨dir.x / n * r, dir.y / n * r, sz⟩

/-- `select_support`: support point and the `found` flag -/
def selectSupport (dir : V3 α) (c : Coll α) : Except Err (V3 α) :=
  match c.kind with
  | .sphere => .ok sphereSupport
  | .capsule => .ok (capsuleSupport dir c.data)
  | .box => .ok (boxSupport dir c.data)
  | .ellipsoid => ellipsoidSupport dir c.data
  | .cylinder => .ok (cylinderSupport dir c.data)
  | .other => .ok ⟨0, 0, 0⟩

/-- branch of `support_function`: 0 both specialised (core supports in the frame of collider 0),
1 generic fall-back for **both** colliders (world-frame `collider.support_function`) -/
def dispatchBranch (c0 c1 : Coll α) : Nat := if c0.kind.found && c1.kind.found then 0 else 1

/-- `support_function(dir, collider0, collider1)`; `gen0`, `gen1` are the colliders' own
world-frame `support_function`s -/
def supportFunction (c0 c1 : Coll α) (oR1 : M3 α) (ot1 : V3 α)
    (gen0 gen1 : V3 α → Except Err (V3 α)) (dir : V3 α) : Except Err (V3 α × V3 α) :=
  if c0.kind.found && c1.kind.found then do
    let s0 ← selectSupport dir c0
    let s1 ← selectSupport (oR1.tmulVec (-dir)) c1
    .ok (s0, oR1.mulVec s1 + ot1)
  else do
    let g0 ← gen0 dir
    let g1 ← gen1 (-dir)
    .ok (g0, g1)

/-- `Sphere.support_function` (world frame, radius included) -/
def sphereWorldSupport (c : V3 α) (radius : α) (d : V3 α) : V3 α :=
  let n := V3.norm d
  if isZero n then c + ⟨0, 0, radius⟩ else c + V3.smul radius (V3.sdiv d n)

/-- `ConvexHullVertices.support_function`: first maximiser of `vertices.dot(d)` -/
def hullSupportFrom (d : V3 α) : List (V3 α) → V3 α → V3 α
  | [], best => best
  | v :: vs, best => if V3.dot best d < V3.dot v d then hullSupportFrom d vs v else hullSupportFrom d vs best

def hullSupport (vs : List (V3 α)) (d : V3 α) : Except Err (V3 α) :=
  match vs with
  | [] => .error .indexOOB
  | v :: rest => .ok (hullSupportFrom d rest v)

/-! ### projections of the origin on the simplex -/

/-- the `(4,3)` array `simplex`; rows beyond `simplex_len` hold stale data as in the code -/
structure Simplex (α : Type) where
  p0 : V3 α
  p1 : V3 α
  p2 : V3 α
  p3 : V3 α
  deriving Repr, Inhabited

def Simplex.setRow (s : Simplex α) (i : Nat) (v : V3 α) : Simplex α :=
  if i = 0 then { s with p0 := v } else if i = 1 then { s with p1 := v }
  else if i = 2 then { s with p2 := v } else { s with p3 := v }

def Simplex.row (s : Simplex α) (i : Nat) : V3 α :=
  if i = 0 then s.p0 else if i = 1 then s.p1 else if i = 2 then s.p2 else s.p3

/-- result of a projection: `ray`, `simplex_len`, `inside`, the rewritten simplex, branch id -/
structure Proj (α : Type) where
  ray : V3 α
  len : Nat
  inside : Bool
  simplex : Simplex α
  branch : Nat

/-- `origin_to_point` -/
def originToPoint (br : Nat) (s : Simplex α) (a : V3 α) : Proj α :=
  ⟨a, 1, false, { s with p0 := a }, br⟩

/-- `origin_to_segment`: `ray = (ab·b * a + ab_dot_a0 * b) / ab·ab` — **no** test that the
parameter stays ≤ 1 -/
def originToSegment (br : Nat) (s : Simplex α) (a b ab : V3 α) (abDotA0 : α) :
    Except Err (Proj α) :=
  let den := V3.dot ab ab
  if den < 0 ∨ 0 < den then
    .ok ⟨V3.sdiv (V3.smul (V3.dot ab b) a + V3.smul abDotA0 b) den, 2, false,
      { s with p0 := b, p1 := a }, br⟩
  else .error .divZero

/-- `origin_to_triangle` -/
def originToTriangle (br : Nat) (s : Simplex α) (a b c abc : V3 α) (abcDotA0 : α) :
    Except Err (Proj α) :=
  if isZero abcDotA0 then
    .ok ⟨⟨0, 0, 0⟩, 3, true, { s with p0 := c, p1 := b, p2 := a }, br⟩
  else
    let s' : Simplex α := if 0 < abcDotA0 then { s with p0 := c, p1 := b, p2 := a }
      else { s with p0 := b, p1 := c, p2 := a }
    let den := V3.dot abc abc
    if den < 0 ∨ 0 < den then .ok ⟨V3.smul (-abcDotA0 / den) abc, 3, false, s', br + 1⟩
    else .error .divZero

/-- `project_line_origin` (A = row 1 is the newest point, B = row 0) -/
def projectLineOrigin (s : Simplex α) : Except Err (Proj α) :=
  let a := s.p1
  let b := s.p0
  let ab := b - a
  let d := V3.dot ab (-a)
  if isZero d then
    let p := originToPoint 0 s a
    .ok { p with inside := decide (isZero a.x ∧ isZero a.y ∧ isZero a.z) }
  else if d < 0 then .ok (originToPoint 1 s a)
  else originToSegment 2 s a b ab d

/-- `t_b` -/
def tB (br : Nat) (s : Simplex α) (a b ab : V3 α) : Except Err (Proj α) :=
  let towardsB := V3.dot ab (-a)
  if towardsB < 0 then .ok (originToPoint br s a) else originToSegment (br + 1) s a b ab towardsB

/-- `project_triangle_origin` (A = row 2 newest, B = row 1, C = row 0) -/
def projectTriangleOrigin (s : Simplex α) : Except Err (Proj α) :=
  let a := s.p2
  let b := s.p1
  let c := s.p0
  let ab := b - a
  let ac := c - a
  let abc := V3.cross ab ac
  let edgeAc2o := V3.dot (V3.cross abc ac) (-a)
  if 0 ≤ edgeAc2o then
    let towardsC := V3.dot ac (-a)
    if 0 ≤ towardsC then originToSegment 0 s a c ac towardsC
    else tB 1 s a b ab
  else
    let edgeAb2o := V3.dot (V3.cross ab abc) (-a)
    if 0 ≤ edgeAb2o then tB 3 s a b ab
    else originToTriangle 5 s a b c abc (V3.dot abc (-a))

/-- the `region_*` helpers of `project_tetra_to_origin`; the `inside` flag of
`origin_to_triangle` is dropped by `[:2]` -/
def regionA (br : Nat) (s : Simplex α) (a : V3 α) : Except Err (Proj α) := .ok (originToPoint br s a)
def regionAB (br : Nat) (s : Simplex α) (a b : V3 α) (ba_aa : α) : Except Err (Proj α) :=
  originToSegment br s a b (b - a) (-ba_aa)
def regionAC (br : Nat) (s : Simplex α) (a c : V3 α) (ca_aa : α) : Except Err (Proj α) :=
  originToSegment br s a c (c - a) (-ca_aa)
def regionAD (br : Nat) (s : Simplex α) (a d : V3 α) (da_aa : α) : Except Err (Proj α) :=
  originToSegment br s a d (d - a) (-da_aa)
def dropInside (br : Nat) (p : Except Err (Proj α)) : Except Err (Proj α) :=
  p.map fun q => { q with inside := false, branch := br }
def regionABC (br : Nat) (s : Simplex α) (a b c a_cross_b : V3 α) : Except Err (Proj α) :=
  dropInside br (originToTriangle br s a b c (V3.cross (b - a) (c - a)) (-(V3.dot c a_cross_b)))
def regionACD (br : Nat) (s : Simplex α) (a c d a_cross_c : V3 α) : Except Err (Proj α) :=
  dropInside br (originToTriangle br s a c d (V3.cross (c - a) (d - a)) (-(V3.dot d a_cross_c)))
def regionADB (br : Nat) (s : Simplex α) (a d b a_cross_b : V3 α) : Except Err (Proj α) :=
  dropInside br (originToTriangle br s a d b (V3.cross (d - a) (b - a)) (V3.dot d a_cross_b))
def tetraInside (br : Nat) (s : Simplex α) : Except Err (Proj α) :=
  .ok ⟨⟨0, 0, 0⟩, 4, true, s, br⟩

/-- `project_tetra_to_origin` (A = row 3 newest, B = row 2, C = row 1, D = row 0); the decision
tree is a mechanical transcription of the source (42 leaves, leaf number = branch id) -/
def projectTetraToOrigin (s : Simplex α) : Except Err (Proj α) :=
  let a := s.p3
  let b := s.p2
  let c := s.p1
  let d := s.p0
  let aa := V3.dot a a
  let da := V3.dot d a
  let db := V3.dot d b
  let dc := V3.dot d c
  let dd := V3.dot d d
  let da_aa := da - aa
  let ca := V3.dot c a
  let cb := V3.dot c b
  let cc := V3.dot c c
  let ca_aa := ca - aa
  let ba := V3.dot b a
  let bb := V3.dot b b
  let bc := cb
  let bd := db
  let ba_aa := ba - aa
  let ba_ca := ba - ca
  let ca_da := ca - da
  let da_ba := da - ba
  let a_cross_b := V3.cross a b
  let a_cross_c := V3.cross a c
    if ba_aa ≤ 0 then
      if (-(V3.dot d a_cross_b)) ≤ 0 then
        if (((ba * da_ba) + (bd * ba_aa)) - (bb * da_aa)) ≤ 0 then
          if da_aa ≤ 0 then
            if (((ba * ba_ca) + (bb * ca_aa)) - (bc * ba_aa)) ≤ 0 then
              regionABC 1 s a b c a_cross_b
            else
              regionAB 2 s a b ba_aa
          else
            if (((ba * ba_ca) + (bb * ca_aa)) - (bc * ba_aa)) ≤ 0 then
              if (((ca * ba_ca) + (cb * ca_aa)) - (cc * ba_aa)) ≤ 0 then
                if (((ca * ca_da) + (cc * da_aa)) - (dc * ca_aa)) ≤ 0 then
                  regionACD 3 s a c d a_cross_c
                else
                  regionAC 4 s a c ca_aa
              else
                regionABC 5 s a b c a_cross_b
            else
              regionAB 6 s a b ba_aa
        else
          if (((da * da_ba) + (dd * ba_aa)) - (db * da_aa)) ≤ 0 then
            regionADB 7 s a d b a_cross_b
          else
            if (((ca * ca_da) + (cc * da_aa)) - (dc * ca_aa)) ≤ 0 then
              if (((da * ca_da) + (dc * da_aa)) - (dd * ca_aa)) ≤ 0 then
                regionAD 8 s a d da_aa
              else
                regionACD 9 s a c d a_cross_c
            else
              if (((da * ca_da) + (dc * da_aa)) - (dd * ca_aa)) ≤ 0 then
                regionAD 10 s a d da_aa
              else
                regionAC 11 s a c ca_aa
      else
        if (V3.dot c a_cross_b) ≤ 0 then
          if (((ba * ba_ca) + (bb * ca_aa)) - (bc * ba_aa)) ≤ 0 then
            if (((ca * ba_ca) + (cb * ca_aa)) - (cc * ba_aa)) ≤ 0 then
              if (((ca * ca_da) + (cc * da_aa)) - (dc * ca_aa)) ≤ 0 then
                regionACD 12 s a c d a_cross_c
              else
                regionAC 13 s a c ca_aa
            else
              regionABC 14 s a b c a_cross_b
          else
            regionAD 15 s a d da_aa
        else
          if (V3.dot d a_cross_c) ≤ 0 then
            if (((ca * ca_da) + (cc * da_aa)) - (dc * ca_aa)) ≤ 0 then
              if (((da * ca_da) + (dc * da_aa)) - (dd * ca_aa)) ≤ 0 then
                regionAD 16 s a d da_aa
              else
                regionACD 17 s a c d a_cross_c
            else
              if ca_aa ≤ 0 then
                regionAC 18 s a c ca_aa
              else
                regionAD 19 s a d da_aa
          else
            tetraInside 20 s
    else
      if ca_aa ≤ 0 then
        if (V3.dot d a_cross_c) ≤ 0 then
          if da_aa ≤ 0 then
            if (((ca * ca_da) + (cc * da_aa)) - (dc * ca_aa)) ≤ 0 then
              if (((da * ca_da) + (dc * da_aa)) - (dd * ca_aa)) ≤ 0 then
                if (((da * da_ba) + (dd * ba_aa)) - (db * da_aa)) ≤ 0 then
                  regionADB 21 s a d b a_cross_b
                else
                  regionAD 22 s a d da_aa
              else
                regionACD 23 s a c d a_cross_c
            else
              if (((ca * ba_ca) + (cb * ca_aa)) - (cc * ba_aa)) ≤ 0 then
                regionAC 24 s a c ca_aa
              else
                regionABC 25 s a b c a_cross_b
          else
            if (((ca * ba_ca) + (cb * ca_aa)) - (cc * ba_aa)) ≤ 0 then
              if (((ca * ca_da) + (cc * da_aa)) - (dc * ca_aa)) ≤ 0 then
                regionACD 26 s a c d a_cross_c
              else
                regionAC 27 s a c ca_aa
            else
              if ¬ isZero (V3.dot c a_cross_b) then
                regionABC 28 s a b c a_cross_b
              else
                regionACD 29 s a c d a_cross_c
        else
          if (V3.dot c a_cross_b) ≤ 0 then
            if (((ca * ba_ca) + (cb * ca_aa)) - (cc * ba_aa)) ≤ 0 then
              regionAC 30 s a c ca_aa
            else
              regionABC 31 s a b c a_cross_b
          else
            if (-(V3.dot d a_cross_b)) ≤ 0 then
              if (((da * da_ba) + (dd * ba_aa)) - (db * da_aa)) ≤ 0 then
                regionADB 32 s a d b a_cross_b
              else
                regionAD 33 s a d da_aa
            else
              tetraInside 34 s
      else
        if da_aa ≤ 0 then
          if (-(V3.dot d a_cross_b)) ≤ 0 then
            if (((da * ca_da) + (dc * da_aa)) - (dd * ca_aa)) ≤ 0 then
              if (((da * da_ba) + (dd * ba_aa)) - (db * da_aa)) ≤ 0 then
                regionADB 35 s a d b a_cross_b
              else
                regionAD 36 s a d da_aa
            else
              if (V3.dot d a_cross_c) ≤ 0 then
                regionACD 37 s a c d a_cross_c
              else
                regionADB 38 s a d b a_cross_b
          else
            if (V3.dot d a_cross_c) ≤ 0 then
              if (((da * ca_da) + (dc * da_aa)) - (dd * ca_aa)) ≤ 0 then
                regionAD 39 s a d da_aa
              else
                regionACD 40 s a c d a_cross_c
            else
              tetraInside 41 s
        else
          regionA 42 s a

/-! ### main loop -/

structure Cfg (α : Type) where
  maxIter : Nat
  /-- `upper_bound + inflation` -/
  upperBound : α
  tol : α
  inflation : α
  /-- `normalize_support_direction` (both colliders are `MeshGraph`) -/
  normalize : Bool

/-- loop variables of `gjk_nesterov_accelerated` / `run_gjk_nesterov_accelerated` -/
structure St (α : Type) where
  i : Nat
  accel : Bool
  alpha : α
  simplex : Simplex α
  len : Nat
  ray : V3 α
  rayLen : α
  rayDir : V3 α
  supportPoint : V3 α

structure Res (α : Type) where
  inside : Bool
  distance : α
  simplex : Simplex α
  len : Nat
  iters : Nat
  exit : Nat

inductive Step (α σ : Type) where
  | next (st : St α) (o : σ)
  | done (r : Res α) (o : σ)

def initSt (accel : Bool) : St α :=
  { i := 0, accel := accel, alpha := 0, simplex := ⟨⟨0, 0, 0⟩, ⟨0, 0, 0⟩, ⟨0, 0, 0⟩, ⟨0, 0, 0⟩⟩, len := 0,
    ray := ⟨1, 0, 0⟩, rayLen := 1, rayDir := ⟨1, 0, 0⟩, supportPoint := ⟨1, 0, 0⟩ }

/-- the search direction `ray_dir` of this pass -/
def nextRayDir (cfg : Cfg α) (st : St α) : V3 α :=
  if st.accel then
    if cfg.normalize then
      let momentum : α := natS (st.i + 2) / natS (st.i + 3)
      let y := V3.smul momentum st.ray + V3.smul (1 - momentum) st.supportPoint
      V3.smul momentum (normVector st.rayDir) + V3.smul (1 - momentum) (normVector y)
    else
      let momentum : α := natS (st.i + 1) / natS (st.i + 3)
      let y := V3.smul momentum st.ray + V3.smul (1 - momentum) st.supportPoint
      V3.smul momentum st.rayDir + V3.smul (1 - momentum) y
  else st.ray

/-- `omega = ray_dir.dot(support_point) / np.linalg.norm(ray_dir)` -/
def omegaOf (rayDir sp : V3 α) : Except Err α := cdiv (V3.dot rayDir sp) (V3.norm rayDir)

/-- `frank_wolfe_duality_gap - tolerance <= 0` -/
def fwGapSmall (tol : α) (ray sp : V3 α) : Bool := decide (2 * V3.dot ray (ray - sp) - tol ≤ 0)

/-- `cv_check_passed = (ray_len - alpha - tolerance * ray_len) <= 0` -/
def cvCheckPassed (tol rayLen alpha : α) : Bool := decide ((rayLen - alpha) - tol * rayLen ≤ 0)

/-- projection selected by `simplex_len` -/
def project (s : Simplex α) (len : Nat) (sp : V3 α) : Except Err (Proj α) :=
  if len = 1 then .ok ⟨sp, 1, false, s, 0⟩
  else if len = 2 then projectLineOrigin s
  else if len = 3 then projectTriangleOrigin s
  else if len = 4 then projectTetraToOrigin s
  else .error .assertFail

/-- `if not inside: ray_len = np.linalg.norm(ray)` -/
def projRayLen (st : St α) (p : Proj α) : α := if p.inside then st.rayLen else V3.norm p.ray

/-- the tail of the `while` body after the projection -/
def afterProject {σ : Type} (cfg : Cfg α) (st : St α) (rayDir sp : V3 α) (alpha : α) (o' : σ)
    (p : Proj α) : Step α σ :=
  if p.inside ∨ isZero (projRayLen st p) then
    .done ⟨true, -cfg.inflation - 1, p.simplex, p.len, st.i, 4⟩ o'
  else
    .next { i := st.i + 1, accel := st.accel, alpha := alpha, simplex := p.simplex,
            len := p.len, ray := p.ray, rayLen := projRayLen st p, rayDir := rayDir,
            supportPoint := sp } o'

/-- the part of the `while` body after the support call: `omega` against `upper_bound`, the
Frank–Wolfe switch, `alpha`, the convergence test and the projection -/
def decideStep {σ : Type} (cfg : Cfg α) (st : St α) (rayDir sp : V3 α) (omega : α) (o' : σ) :
    Except Err (Step α σ) :=
  let simplex := st.simplex.setRow st.len sp
  let len := st.len + 1
  if cfg.upperBound < omega then
    .ok (.done ⟨false, omega - cfg.inflation, simplex, len, st.i, 2⟩ o')
  else if st.accel && fwGapSmall cfg.tol st.ray sp then
    .ok (.next { st with accel := false, simplex := simplex, rayDir := rayDir, supportPoint := sp } o')
  else
    let alpha := max st.alpha omega
    if decide (0 < st.i) && cvCheckPassed cfg.tol st.rayLen alpha then
      if st.accel then
        .ok (.next { st with accel := false, alpha := alpha, simplex := simplex, rayDir := rayDir,
                             supportPoint := sp } o')
      else
        let distance := st.rayLen - cfg.inflation
        .ok (.done ⟨decide (distance < cfg.tol), distance, simplex, st.len, st.i, 3⟩ o')
    else (project simplex len sp).map (afterProject cfg st rayDir sp alpha o')

/-- one pass of the `while` body. `supp` answers `support_function(-ray_dir, …)` and threads an
oracle state `σ` (unit for a support mapping, the remaining recorded answers for a trace). -/
def pass {σ : Type} (cfg : Cfg α) (supp : σ → V3 α → Except Err ((V3 α × V3 α) × σ))
    (st : St α) (o : σ) : Except Err (Step α σ) :=
  if st.rayLen < cfg.tol then
    .ok (.done ⟨true, -cfg.inflation, st.simplex, st.len, st.i, 1⟩ o)
  else do
    let rayDir := nextRayDir cfg st
    let ((s0, s1), o') ← supp o (-rayDir)
    let omega ← omegaOf rayDir (s0 - s1)
    decideStep cfg st rayDir (s0 - s1) omega o'

/-- `while i < max_interations:`; falling out of the loop returns the initial `distance = 0.0` -/
def loop {σ : Type} (cfg : Cfg α) (supp : σ → V3 α → Except Err ((V3 α × V3 α) × σ)) :
    Nat → St α → σ → Except Err (Res α × σ)
  | 0, _, _ => .error .fuel
  | fuel + 1, st, o =>
    if st.i < cfg.maxIter then do
      match ← pass cfg supp st o with
      | .next st' o' => loop cfg supp fuel st' o'
      | .done r o' => .ok (r, o')
    else .ok (⟨false, 0, st.simplex, st.len, st.i, 5⟩, o)

/-- `gjk_nesterov_accelerated(collider0, collider1, max_interations, upper_bound, tolerance,
use_nesterov_acceleration)` with the support pair abstracted; at most one pass does not advance
`i` (the one that switches the acceleration off), so `maxIter + 2` passes always suffice
(`loop_fuel_sufficient`). -/
def gjk {σ : Type} (maxIter : Nat) (upperBound tol inflation : α) (normalize accel : Bool)
    (supp : σ → V3 α → Except Err ((V3 α × V3 α) × σ)) (o : σ) : Except Err (Res α × σ) :=
  loop ⟨maxIter, upperBound + inflation, tol, inflation, normalize⟩ supp (maxIter + 2) (initSt accel) o

/-- the public entry point with its default arguments (`Gen.Constants`) on two described colliders -/
def gjkColliders (c0 c1 : Coll α) (oR1 : M3 α) (ot1 : V3 α) (gen0 gen1 : V3 α → Except Err (V3 α))
    (bothMesh accel : Bool) : Except Err (Res α) :=
  (gjk (σ := Unit)
    D3.Gen.gjk__gjk_nesterov_accelerated__gjk_nesterov_accelerated__max_interations
    D3.Gen.gjk__gjk_nesterov_accelerated__gjk_nesterov_accelerated__upper_bound
    D3.Gen.gjk__gjk_nesterov_accelerated__gjk_nesterov_accelerated__tolerance
    (inflationOf c0 c1) bothMesh accel
    (fun _ dir => (supportFunction c0 c1 oR1 ot1 gen0 gen1 dir).map fun p => (p, ())) ()).map (·.1)

/-- the entry point as it was before commit 78b7577 (inflation added for every sphere / capsule) -/
def gjkColliders_asIs_before_fix (c0 c1 : Coll α) (oR1 : M3 α) (ot1 : V3 α) (gen0 gen1 : V3 α → Except Err (V3 α))
    (bothMesh accel : Bool) : Except Err (Res α) :=
  (gjk (σ := Unit)
    D3.Gen.gjk__gjk_nesterov_accelerated__gjk_nesterov_accelerated__max_interations
    D3.Gen.gjk__gjk_nesterov_accelerated__gjk_nesterov_accelerated__upper_bound
    D3.Gen.gjk__gjk_nesterov_accelerated__gjk_nesterov_accelerated__tolerance
    (inflationOf_asIs_before_fix c0 c1) bothMesh accel
    (fun _ dir => (supportFunction c0 c1 oR1 ot1 gen0 gen1 dir).map fun p => (p, ())) ()).map (·.1)

/-- `gjk_nesterov_accelerated_distance` : `max(distance, 0.0)` -/
def distanceOf (r : Res α) : α := if r.distance < 0 then 0 else r.distance

end Nesterov
end D3
