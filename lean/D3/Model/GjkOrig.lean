/-
Model of the main loop of the original GJK (`distance3d/gjk/_gjk_original.py`,
`gjk_distance_original`), C09; core Lean only, scalar-polymorphic.

Modelled: `VertexCachedCollider` (the two vertex caches), `SimplexInfo.add_new_point`
(`_move_first_point_to_last_spot` + `set_first_point`), `copy_from` (old simplex),
`nondecreasing_ordered_indices` + `reorder` for 4 points, the loop control
(`no_improvement`, `simplex_is_tetrahedron`, the `backup` flag, restoring the old simplex unless
`iteration == 1`), `compute_point`, and the output assembly (midpoint and distance 0 for a
4-point simplex).  Johnson's distance sub-algorithm with its backup procedure
(`distance_subalgorithm_with_backup_procedure`) is a **parameter** `sub` (its backup part is
modelled in `D3.Model.SimplexOrig`, property C18); the two support mappings are the parameter
`supp`.  Both thread an oracle state `σ` so that the driver can answer them from a recorded trace.

A detail of the code that matters: in backup mode `backup_procedure` mutates and returns the
*current* `solution` object, so `new_solution is solution` and `no_improvement` is `x >= x`.
-/
import D3.Model.Vec

namespace D3
namespace GjkOrig

scalar_variables

/-- `np.dot(barycentric_coordinates, [vertices…])` -/
def lincomb : List α → List (V3 α) → V3 α
  | w :: ws, p :: ps => V3.smul w p + lincomb ws ps
  | _, _ => ⟨0, 0, 0⟩

/-- `Solution`: barycentric coordinates, search direction, squared distance -/
structure Sol (α : Type) where
  w : List α
  dir : V3 α
  dsq : α
  deriving Repr

/-- one simplex point with its two cache indices -/
structure Entry (α : Type) where
  i1 : Nat
  i2 : Nat
  pt : V3 α
  deriving Repr

structure Out (α : Type) where
  distance : α
  a : V3 α
  b : V3 α
  simplex : List (Entry α)
  iterations : Nat
  /-- 0 regular exit, 1 tetrahedron exit (midpoint, distance 0) -/
  branch : Nat
  deriving Repr

def getD (l : Array (V3 α)) (i : Nat) : Except Err (V3 α) :=
  match l[i]? with
  | some x => .ok x
  | none => .error .indexOOB

/-- `[vertex_cache.vertices_[i] for i in indices]` -/
def gather (cache : Array (V3 α)) : List Nat → Except Err (List (V3 α))
  | [] => .ok []
  | i :: is => do
    let p ← getD cache i
    let ps ← gather cache is
    .ok (p :: ps)

/-- `compute_point(vertex_cache, barycentric_coordinates[:n], indices[:n])` -/
def computePoint (cache : Array (V3 α)) (w : List α) (idx : List Nat) : Except Err (V3 α) := do
  let ps ← gather cache idx
  .ok (lincomb w ps)

/-- the `return` of `gjk_distance_original` -/
def finish (cache1 cache2 : Array (V3 α)) (sol : Sol α) (simplex : List (Entry α)) (iteration : Nat) :
    Except Err (Out α) := do
  let n := simplex.length
  let w := sol.w.take n
  let a ← computePoint cache1 w (simplex.map (·.i1))
  let b ← computePoint cache2 w (simplex.map (·.i2))
  if n = 4 then
    let m := V3.smul 0.5 (a + b)
    .ok ⟨0, m, m, simplex, iteration, 1⟩
  else
    if sol.dsq < 0 then .error .sqrtNeg else
    .ok ⟨sqrt sol.dsq, a, b, simplex, iteration, 0⟩

/-- `nondecreasing_ordered_indices` from `d_k = dot_product_table[k, 0]`, k = 1, 2, 3 -/
def nondecreasingOrder (d1 d2 d3 : α) : List Nat :=
  let o1 : Nat := if d2 < d1 then 2 else 1
  let o2 : Nat := if d2 < d1 then 1 else 2
  let dd := fun (k : Nat) => if k = 1 then d1 else d2
  if d3 < dd o1 then [0, 3, o1, o2]
  else if d3 < dd o2 then [0, o1, 3, o2]
  else [0, o1, o2, 3]

/-- `add_new_point`: the new point becomes point 0, the former point 0 moves to the end -/
def addNewPoint (simplex : List (Entry α)) (e : Entry α) : List (Entry α) :=
  match simplex with
  | [] => [e]
  | p0 :: rest => e :: (rest ++ [p0])

/-- `simplex.reorder(simplex.nondecreasing_ordered_indices())` for a 4-point simplex -/
def reorder4 (simplex : List (Entry α)) : List (Entry α) :=
  match simplex with
  | [p0, p1, p2, p3] =>
    let arr := #[p0, p1, p2, p3]
    (nondecreasingOrder (V3.dot p1.pt p0.pt) (V3.dot p2.pt p0.pt) (V3.dot p3.pt p0.pt)).map
      fun k => arr.getD k p0
  | s => s

/-- the two parameters of the loop -/
structure Oracle (α σ : Type) where
  /-- `distance_subalgorithm_with_backup_procedure(simplex, solution, backup)`; the current
  solution is `none` while it is the initial one (`distance_squared = inf`); returns the new
  solution, the reduced / reordered simplex and the `backup` flag -/
  sub : σ → List (Entry α) → Option (Sol α) → Bool → Except Err ((Sol α × List (Entry α) × Bool) × σ)
  /-- `search_direction ↦ (collider1.support_function(-d), collider2.support_function(d))` -/
  supp : σ → V3 α → Except Err ((V3 α × V3 α) × σ)

structure St (α : Type) where
  simplex : List (Entry α)
  old : List (Entry α)
  sol : Option (Sol α)
  backup : Bool
  iteration : Nat
  cache1 : Array (V3 α)
  cache2 : Array (V3 α)

/-- `no_improvement = new_solution.distance_squared >= solution.distance_squared`; in backup mode
both names denote the same (mutated) object -/
def noImprovement (backupOut : Bool) (cur : Option (Sol α)) (new : Sol α) : Bool :=
  if backupOut then decide (new.dsq ≤ new.dsq)
  else match cur with
    | none => false
    | some s => decide (s.dsq ≤ new.dsq)

inductive Step (α σ : Type) where
  | next (st : St α) (o : σ)
  | done (r : Out α) (o : σ)

/-- one iteration of `while True:` -/
def step {σ : Type} (orc : Oracle α σ) (st : St α) (o : σ) : Except Err (Step α σ) := do
  let iteration := st.iteration + 1
  let ((new, simplex, backup), o1) ← orc.sub o st.simplex st.sol st.backup
  if noImprovement backup st.sol new || decide (simplex.length = 4) then
    if backup then
      let r ← finish st.cache1 st.cache2 new simplex iteration
      .ok (.done r o1)
    else
      .ok (.next { st with simplex := if iteration = 1 then simplex else st.old, backup := true,
                           iteration := iteration } o1)
  else do
    let ((v1, v2), o2) ← orc.supp o1 new.dir
    let e : Entry α := ⟨st.cache1.size, st.cache2.size, v1 - v2⟩
    let s1 := addNewPoint simplex e
    .ok (.next { simplex := if s1.length = 4 then reorder4 s1 else s1, old := s1, sol := some new,
                 backup := backup, iteration := iteration,
                 cache1 := st.cache1.push v1, cache2 := st.cache2.push v2 } o2)

/-- `while True:` — the code has no iteration cap; `fuel` exhaustion is a distinct outcome
about which nothing is proved (termination is property C19) -/
def loop {σ : Type} (orc : Oracle α σ) : Nat → St α → σ → Except Err (Out α × σ)
  | 0, _, _ => .error .fuel
  | fuel + 1, st, o => do
    match ← step orc st o with
    | .next st' o' => loop orc fuel st' o'
    | .done r o' => .ok (r, o')

/-- `gjk_distance_original` from the two `first_vertex()` points -/
def gjkOriginal {σ : Type} (orc : Oracle α σ) (fuel : Nat) (v1 v2 : V3 α) (o : σ) :
    Except Err (Out α × σ) :=
  let s0 : List (Entry α) := [⟨0, 0, v1 - v2⟩]
  loop orc fuel ⟨s0, [], none, false, 0, #[v1], #[v2]⟩ o

end GjkOrig
end D3
