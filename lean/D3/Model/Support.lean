/-
Model of the support mappings of distance3d (property C03), core Lean only.

Faithful, line by line, to
* `distance3d/utils.py`     : `norm_vector`, `plane_basis_from_normal`, `transform_point`
* `distance3d/geometry.py`  : `support_function_{cylinder,capsule,ellipsoid,box,sphere,disk,
                               ellipse,cone}`, `convert_box_to_vertices`
* `distance3d/colliders.py` : every collider's `support_function / first_vertex / center`,
                              `ConvexHullVertices` (first `np.argmax`), `Margin`
* `distance3d/mesh.py`      : `MeshHillClimbingSupportFunction.__init__/__call__`,
                              `hill_climb_mesh_extreme` (shortcut pass, neighbour loop,
                              threshold `PROJECTION_LENGTH_EPSILON`, cached `first_idx`)

Every function with a case analysis also returns a branch id (a small `Nat`).
`x == 0.0` of the Python is modelled by `isZero x := x ≤ 0 ∧ 0 ≤ x` (IEEE `==`: true for
±0, false for NaN; Lean's `DecidableEq Float` is bitwise and would distinguish −0 from +0).
-/
import D3.Model.Vec
import D3.Gen.Constants

namespace D3
namespace Support

scalar_variables

/-- `x == 0.0` -/
abbrev isZero (x : α) : Prop := x ≤ 0 ∧ 0 ≤ x

/-- body of `norm_vector` once `norm = np.linalg.norm(v)` is known -/
def normVectorN (v : V3 α) (n : α) : V3 α :=
  if isZero n then v else V3.sdiv v n

/-- `utils.norm_vector` (3-vector): `v` itself if its norm is 0, else `v / norm` -/
def normVector (v : V3 α) : V3 α := normVectorN v (V3.norm v)

/-- `utils.transform_point` : `A2B[:3, 3] + np.dot(A2B[:3, :3], p)` -/
def transformPoint (A : Pose α) (p : V3 α) : V3 α := A.t + A.R.mulVec p

/-! ### closed forms of geometry.py -/

/-- body of `support_function_cylinder` after `local_dir = R.T d`.
branch: bit0 = (`local_dir[2] >= 0`), bit1 = (`s == 0`) -/
def cylinderLocalS (ld : V3 α) (radius length s : α) : Nat × V3 α :=
  let zb : Nat × α := if ld.z < 0 then (0, -0.5 * length) else (1, 0.5 * length)
  if isZero s then (zb.1 + 2, ⟨radius, 0, zb.2⟩)
  else
    let d := radius / s
    (zb.1, ⟨ld.x * d, ld.y * d, zb.2⟩)

/-- `s = math.sqrt(local_dir[0]² + local_dir[1]²)` -/
def cylinderLocal (ld : V3 α) (radius length : α) : Nat × V3 α :=
  cylinderLocalS ld radius length (sqrt (ld.x * ld.x + ld.y * ld.y))

def supportCylinder (d : V3 α) (A : Pose α) (radius length : α) : Nat × V3 α :=
  let r := cylinderLocal (A.R.tmulVec d) radius length
  (r.1, transformPoint A r.2)

/-- body of `support_function_capsule`. branch: bit0 = (`local_dir[2] > 0`), bit1 = (`s == 0`) -/
def capsuleLocalS (ld : V3 α) (radius height s : α) : Nat × V3 α :=
  let lv : Nat × V3 α :=
    if isZero s then (2, ⟨radius, 0, 0⟩)
    else (0, ⟨ld.x * (radius / s), ld.y * (radius / s), ld.z * (radius / s)⟩)
  if 0 < ld.z then (lv.1 + 1, ⟨lv.2.x, lv.2.y, lv.2.z + 0.5 * height⟩)
  else (lv.1, ⟨lv.2.x, lv.2.y, lv.2.z - 0.5 * height⟩)

/-- `s = math.sqrt(local_dir·local_dir)` -/
def capsuleLocal (ld : V3 α) (radius height : α) : Nat × V3 α :=
  capsuleLocalS ld radius height (sqrt (ld.x * ld.x + ld.y * ld.y + ld.z * ld.z))

def supportCapsule (d : V3 α) (A : Pose α) (radius height : α) : Nat × V3 α :=
  let r := capsuleLocal (A.R.tmulVec d) radius height
  (r.1, transformPoint A r.2)

/-- body of `support_function_ellipsoid` : `norm_vector(local_dir * radii) * radii`.
branch 1 = the `norm == 0` exit of `norm_vector` -/
def ellipsoidLocalN (w radii : V3 α) (n : α) : Nat × V3 α :=
  let u := normVectorN w n
  (if isZero n then 1 else 0, ⟨u.x * radii.x, u.y * radii.y, u.z * radii.z⟩)

/-- `w = local_dir * radii`, `n = np.linalg.norm(w)` inside `norm_vector` -/
def ellipsoidLocal (ld radii : V3 α) : Nat × V3 α :=
  ellipsoidLocalN ⟨ld.x * radii.x, ld.y * radii.y, ld.z * radii.z⟩ radii
    (V3.norm ⟨ld.x * radii.x, ld.y * radii.y, ld.z * radii.z⟩)

def supportEllipsoid (d : V3 α) (A : Pose α) (radii : V3 α) : Nat × V3 α :=
  let r := ellipsoidLocal (A.R.tmulVec d) radii
  (r.1, transformPoint A r.2)

/-- body of `support_function_box` : `np.sign(local_dir) * half_lengths`.
branch: base-3 digits of (sign+1) per axis -/
def boxLocal (ld half : V3 α) : Nat × V3 α :=
  let dg (x : α) : Nat := if x < 0 then 0 else if 0 < x then 2 else 1
  (dg ld.x + 3 * dg ld.y + 9 * dg ld.z,
   ⟨signS ld.x * half.x, signS ld.y * half.y, signS ld.z * half.z⟩)

def supportBoxFn (d : V3 α) (A : Pose α) (half : V3 α) : Nat × V3 α :=
  let r := boxLocal (A.R.tmulVec d) half
  (r.1, transformPoint A r.2)

/-- `support_function_sphere`. branch 1 = `s_norm == 0` -/
def supportSphereN (d c : V3 α) (radius n : α) : Nat × V3 α :=
  if isZero n then (1, c + ⟨0, 0, radius⟩)
  else (0, c + ⟨d.x / n * radius, d.y / n * radius, d.z / n * radius⟩)

def supportSphere (d c : V3 α) (radius : α) : Nat × V3 α := supportSphereN d c radius (V3.norm d)

/-- `utils.plane_basis_from_normal`. branch 0 = `abs(n[0]) >= abs(n[1])`.
`x / length` with `length == 0` is `divZero` (ZeroDivisionError under numba, NaN interpreted). -/
def planeBasisA (n : V3 α) (length : α) : Except Err (Nat × V3 α × V3 α) :=
  if isZero length then .error .divZero else
    let x : V3 α := ⟨-n.z / length, 0, n.x / length⟩
    let y : V3 α := ⟨n.y * x.z, n.z * x.x - n.x * x.z, -n.y * x.x⟩
    .ok (0, x, y)

def planeBasisB (n : V3 α) (length : α) : Except Err (Nat × V3 α × V3 α) :=
  if isZero length then .error .divZero else
    let x : V3 α := ⟨0, n.z / length, -n.y / length⟩
    let y : V3 α := ⟨n.y * x.z - n.z * x.y, -n.x * x.z, n.x * x.y⟩
    .ok (1, x, y)

def planeBasisFromNormal (n : V3 α) : Except Err (Nat × V3 α × V3 α) :=
  if absS n.y ≤ absS n.x then planeBasisA n (sqrt (n.x * n.x + n.z * n.z))
  else planeBasisB n (sqrt (n.y * n.y + n.z * n.z))

/-- `np.column_stack((x, y, normal))` -/
def columnStack (x y n : V3 α) : M3 α := ⟨⟨x.x, y.x, n.x⟩, ⟨x.y, y.y, n.y⟩, ⟨x.z, y.z, n.z⟩⟩

/-- body of `support_function_disk` once the plane basis is known. branch 1 = `norm == 0` -/
def diskN (d c : V3 α) (radius : α) (R : M3 α) (norm : α) : Nat × V3 α :=
  let p0 := R.tmulVec d
  let point : V3 α := ⟨p0.x, p0.y, 0⟩
  if isZero norm then (1, c)
  else
    let f := radius / norm
    (0, c + R.mulVec ⟨point.x * f, point.y * f, point.z * f⟩)

/-- `R = column_stack((x, y, normal))`, `point = R.T d`, `point[2] = 0`, `norm = |point|` -/
def diskWithBasis (d c : V3 α) (radius : α) (x y normal : V3 α) : Nat × V3 α :=
  diskN d c radius (columnStack x y normal)
    (V3.norm ⟨((columnStack x y normal).tmulVec d).x, ((columnStack x y normal).tmulVec d).y, 0⟩)

/-- `support_function_disk`. branch = 2·(plane-basis branch) + (`norm == 0`) -/
def supportDisk (d c : V3 α) (radius : α) (normal : V3 α) : Except Err (Nat × V3 α) :=
  match planeBasisFromNormal normal with
  | .error e => .error e
  | .ok (b, x, y) =>
    let r := diskWithBasis d c radius x y normal
    .ok (2 * b + r.1, r.2)

/-- `support_function_ellipse`. branch 1 = the `norm == 0` exit of `norm_vector` -/
def supportEllipseN (d c a0 a1 : V3 α) (r0 r1 n : α) : Nat × V3 α :=
  let w0 := r0 * V3.dot a0 d
  let w1 := r1 * V3.dot a1 d
  let u : Nat × α × α := if isZero n then (1, w0, w1) else (0, w0 / n, w1 / n)
  let v0 := u.2.1 * r0
  let v1 := u.2.2 * r1
  (u.1, c + ⟨v0 * a0.x + v1 * a1.x, v0 * a0.y + v1 * a1.y, v0 * a0.z + v1 * a1.z⟩)

/-- `local_dir = axes.dot(d)`, `n = np.linalg.norm(radii * local_dir)` inside `norm_vector` -/
def supportEllipse (d c a0 a1 : V3 α) (r0 r1 : α) : Nat × V3 α :=
  supportEllipseN d c a0 a1 r0 r1
    (sqrt (r0 * V3.dot a0 d * (r0 * V3.dot a0 d) + r1 * V3.dot a1 d * (r1 * V3.dot a1 d)))

/-- body of `support_function_cone`. branch: bit0 = apex chosen, bit1 = (`norm == 0`) -/
def coneLocalN (ld : V3 α) (radius height norm : α) : Nat × V3 α :=
  let dp0 : V3 α := ⟨ld.x, ld.y, 0⟩
  let dp : Nat × V3 α :=
    if isZero norm then (2, ⟨0, 0, 0⟩)
    else
      let f := radius / norm
      (0, ⟨dp0.x * f, dp0.y * f, dp0.z * f⟩)
  if ld.z * height ≤ V3.dot ld dp.2 then (dp.1, dp.2) else (dp.1 + 1, ⟨0, 0, height⟩)

/-- `norm = np.linalg.norm([local_dir[0], local_dir[1], 0])` -/
def coneLocal (ld : V3 α) (radius height : α) : Nat × V3 α :=
  coneLocalN ld radius height (V3.norm ⟨ld.x, ld.y, 0⟩)

def supportCone (d : V3 α) (A : Pose α) (radius height : α) : Nat × V3 α :=
  let r := coneLocal (A.R.tmulVec d) radius height
  (r.1, transformPoint A r.2)

/-! ### vertex hulls -/

/-- `geometry.BOX_COORDS = product([-0.5, 0.5], repeat=3)` -/
def boxCoords : List (V3 α) :=
  [⟨-0.5, -0.5, -0.5⟩, ⟨-0.5, -0.5, 0.5⟩, ⟨-0.5, 0.5, -0.5⟩, ⟨-0.5, 0.5, 0.5⟩,
   ⟨0.5, -0.5, -0.5⟩, ⟨0.5, -0.5, 0.5⟩, ⟨0.5, 0.5, -0.5⟩, ⟨0.5, 0.5, 0.5⟩]

/-- `convert_box_to_vertices` : `t + (BOX_COORDS * size) Rᵀ` -/
def boxVertices (A : Pose α) (size : V3 α) : List (V3 α) :=
  boxCoords.map fun c => transformPoint A ⟨c.x * size.x, c.y * size.y, c.z * size.z⟩

/-- running first-argmax over `vertices.dot(d)`: state = (index, vertex, value) of the best so
far; a later vertex replaces it only if its value is strictly larger (`np.argmax` returns the
first maximal index) -/
def argmaxFrom (d : V3 α) : List (V3 α) → Nat → (Nat × V3 α × α) → (Nat × V3 α × α)
  | [], _, best => best
  | v :: vs, i, best =>
    let x := V3.dot v d
    if best.2.2 < x then argmaxFrom d vs (i + 1) (i, v, x) else argmaxFrom d vs (i + 1) best

/-- `vertices[np.argmax(vertices.dot(d))]` with the index; `np.argmax` of an empty array raises -/
def supportHull (d : V3 α) (vs : List (V3 α)) : Except Err (Nat × V3 α) :=
  match vs with
  | [] => .error .badInput
  | v :: rest =>
    let r := argmaxFrom d rest 1 (0, v, V3.dot v d)
    .ok (r.1, r.2.1)

/-- `np.mean(vertices, axis=0)` : row-by-row sum divided by the count -/
def meanV (vs : List (V3 α)) : V3 α :=
  let s := vs.foldl (fun a v => a + v) (V3.zero : V3 α)
  let n : α := vs.foldl (fun c _ => c + 1) 0
  V3.sdiv s n

/-! ### mesh hill climbing -/

/-- what `MeshHillClimbingSupportFunction.__init__` stores: vertices, the `connections` dict
(key ↦ neighbour array, in the iteration order of the Python `set` it was built from) and
the six `shortcut_connections` -/
structure MeshData (α : Type) where
  verts : Array (V3 α)
  conn : List (Nat × List Nat)
  shortcuts : List Nat
  deriving Repr, Inhabited

/-- `connections[idx]` (KeyError for a vertex that occurs in no triangle) -/
def connLookup (conn : List (Nat × List Nat)) (i : Nat) : Except Err (List Nat) :=
  match conn.lookup i with
  | some l => .ok l
  | none => .error .keyError

/-- `search_direction.dot(vertices[c])` : the ONE computed projection of vertex `c`
(IndexError outside the array) -/
def vertexProj (d : V3 α) (vs : Array (V3 α)) (c : Nat) : Except Err α :=
  match vs[c]? with
  | some v => .ok (V3.dot d v)
  | none => .error .indexOOB

/-- loop state of `hill_climb_mesh_extreme` (after repair e900ae9): `best_idx`,
`best_projection`, `not converged`, and — instrumentation only, like the branch ids — the number
of accepted moves so far -/
structure ClimbSt (α : Type) where
  best : Nat
  bestProj : α
  moved : Bool
  moves : Nat
  deriving Repr, Inhabited

/-- one `for connected_idx in …:` loop of `hill_climb_mesh_extreme` (the shortcut loop and the
body of the `while` loop are the same code): the candidate list is fixed when the loop starts,
`best_idx`/`best_projection` change while it runs. A candidate is accepted when
`projection - best_projection > PROJECTION_LENGTH_EPSILON` (same order of operations as the
Python: dot of `d` with the vertex, subtraction of `best_projection`, comparison). -/
def climbFold (τ : α) (d : V3 α) (vs : Array (V3 α)) :
    List Nat → ClimbSt α → Except Err (ClimbSt α)
  | [], st => .ok st
  | c :: cs, st =>
    match vertexProj d vs c with
    | .error e => .error e
    | .ok p =>
      if τ < p - st.bestProj then climbFold τ d vs cs ⟨c, p, true, st.moves + 1⟩
      else climbFold τ d vs cs st

/-- `while not converged:`; returns (final state, number of passes) -/
def hillLoop (τ : α) (d : V3 α) (m : MeshData α) :
    Nat → ClimbSt α → Nat → Except Err (ClimbSt α × Nat)
  | 0, _, _ => .error .fuel
  | fuel + 1, st, passes =>
    match connLookup m.conn st.best with
    | .error e => .error e
    | .ok nbrs =>
      match climbFold τ d m.verts nbrs { st with moved := false } with
      | .error e => .error e
      | .ok st' =>
        if st'.moved then hillLoop τ d m fuel st' (passes + 1) else .ok (st', passes + 1)

/-- `hill_climb_mesh_extreme` with threshold `τ` and explicit fuel for the `while` loop.
Returns (best_idx, branch, accepted moves) with branch = 2·passes + (1 if the shortcut pass
moved). -/
def hillClimbF (τ : α) (d : V3 α) (start : Nat) (m : MeshData α) (fuel : Nat) :
    Except Err (Nat × Nat × Nat) :=
  match vertexProj d m.verts start with
  | .error e => .error e
  | .ok bp0 =>
    match climbFold τ d m.verts m.shortcuts ⟨start, bp0, false, 0⟩ with
    | .error e => .error e
    | .ok st0 =>
      match hillLoop τ d m fuel st0 0 with
      | .error e => .error e
      | .ok (st, passes) => .ok (st.best, 2 * passes + (if st0.moved then 1 else 0), st.moves)

/-- `hill_climb_mesh_extreme` with threshold `τ`; fuel = number of vertices (never hit, in ANY
arithmetic whose acceptance test is contained in a strict order: `hillClimbF_terminates_anyArith`).
Returns (best_idx, branch). -/
def hillClimbT (τ : α) (d : V3 α) (start : Nat) (m : MeshData α) : Except Err (Nat × Nat) :=
  match hillClimbF τ d start m m.verts.size with
  | .error e => .error e
  | .ok r => .ok (r.1, r.2.1)

/-- `hill_climb_mesh_extreme` with the library's `PROJECTION_LENGTH_EPSILON` -/
def hillClimb (d : V3 α) (start : Nat) (m : MeshData α) : Except Err (Nat × Nat) :=
  hillClimbT (Gen.mesh__PROJECTION_LENGTH_EPSILON : α) d start m

/-! #### the climb before repair e900ae9 (kept: the defect is documented by theorems on it) -/

/-- `search_direction.dot(vertices[c] - vertices[b])` — recomputed for every pair -/
def projLen (d : V3 α) (vs : Array (V3 α)) (c b : Nat) : Except Err α :=
  match vs[c]?, vs[b]? with
  | some vc, some vb => .ok (V3.dot d (vc - vb))
  | _, _ => .error .indexOOB

/-- the `for` loop before the repair: a candidate is accepted when the projection of the
DIFFERENCE `vertices[c] - vertices[best]` exceeds the threshold; state = (best_idx, moved) -/
def climbFold_asIs_before_fix (τ : α) (d : V3 α) (vs : Array (V3 α)) :
    List Nat → (Nat × Bool) → Except Err (Nat × Bool)
  | [], st => .ok st
  | c :: cs, st =>
    match projLen d vs c st.1 with
    | .error e => .error e
    | .ok pl =>
      if τ < pl then climbFold_asIs_before_fix τ d vs cs (c, true)
      else climbFold_asIs_before_fix τ d vs cs st

def hillLoop_asIs_before_fix (τ : α) (d : V3 α) (m : MeshData α) :
    Nat → Nat → Nat → Except Err (Nat × Nat)
  | 0, _, _ => .error .fuel
  | fuel + 1, best, passes =>
    match connLookup m.conn best with
    | .error e => .error e
    | .ok nbrs =>
      match climbFold_asIs_before_fix τ d m.verts nbrs (best, false) with
      | .error e => .error e
      | .ok (best', moved) =>
        if moved then hillLoop_asIs_before_fix τ d m fuel best' (passes + 1)
        else .ok (best', passes + 1)

/-- `hill_climb_mesh_extreme` before the repair, explicit fuel; (best_idx, branch) -/
def hillClimbF_asIs_before_fix (τ : α) (d : V3 α) (start : Nat) (m : MeshData α) (fuel : Nat) :
    Except Err (Nat × Nat) :=
  match climbFold_asIs_before_fix τ d m.verts m.shortcuts (start, false) with
  | .error e => .error e
  | .ok (b0, sc) =>
    match hillLoop_asIs_before_fix τ d m fuel b0 0 with
    | .error e => .error e
    | .ok (b, passes) => .ok (b, 2 * passes + (if sc then 1 else 0))

def hillClimb_asIs_before_fix (d : V3 α) (start : Nat) (m : MeshData α) (fuel : Nat) :
    Except Err (Nat × Nat) :=
  hillClimbF_asIs_before_fix (Gen.mesh__PROJECTION_LENGTH_EPSILON : α) d start m fuel

/-- `MeshHillClimbingSupportFunction.__call__` : (idx, support point, branch); the caller
stores `idx` as the new `first_idx` -/
def meshCall (A : Pose α) (m : MeshData α) (firstIdx : Nat) (d : V3 α) :
    Except Err (Nat × V3 α × Nat) :=
  match hillClimb (A.R.tmulVec d) firstIdx m with
  | .error e => .error e
  | .ok (idx, br) =>
    match m.verts[idx]? with
    | none => .error .indexOOB
    | some v => .ok (idx, transformPoint A v, br)

/-! #### construction (`__init__`) -/

/-- `s.update(js)` on an insertion-ordered duplicate-free list -/
def setUpdate (l : List Nat) (js : List Nat) : List Nat :=
  js.foldl (fun l j => if j ∈ l then l else l ++ [j]) l

/-- `if i not in connections: connections[i] = set()` -/
def connEnsure (conn : List (Nat × List Nat)) (i : Nat) : List (Nat × List Nat) :=
  match conn.lookup i with
  | some _ => conn
  | none => conn ++ [(i, [])]

/-- `connections[i].update(js)` (key present) -/
def connUpdate (conn : List (Nat × List Nat)) (i : Nat) (js : List Nat) : List (Nat × List Nat) :=
  conn.map fun e => if e.1 = i then (e.1, setUpdate e.2 js) else e

def connAddTriangle (conn : List (Nat × List Nat)) (t : Nat × Nat × Nat) : List (Nat × List Nat) :=
  let i := t.1; let j := t.2.1; let k := t.2.2
  let c := connEnsure (connEnsure (connEnsure conn i) j) k
  connUpdate (connUpdate (connUpdate c i [j, k]) j [i, k]) k [i, j]

/-- first index maximising `key` (`np.argmax`; `np.argmin` with the negated comparison) -/
def argBest (better : α → α → Bool) (key : V3 α → α) : List (V3 α) → Nat → Nat × α → Nat
  | [], _, best => best.1
  | v :: vs, i, best =>
    if better (key v) best.2 then argBest better key vs (i + 1) (i, key v)
    else argBest better key vs (i + 1) best

def argBest0 (better : α → α → Bool) (key : V3 α → α) (vs : List (V3 α)) : Except Err Nat :=
  match vs with
  | [] => .error .badInput
  | v :: rest => .ok (argBest better key rest 1 (0, key v))

/-- `MeshHillClimbingSupportFunction.__init__` : (data, first_idx = `np.min(triangles)`).
The neighbour lists are produced in insertion order; the Python iterates a `set`, whose order
is an implementation detail — the theorems hold for every order and the driver takes the
order from the implementation. -/
def MeshData.build (verts : Array (V3 α)) (tris : List (Nat × Nat × Nat)) :
    Except Err (MeshData α × Nat) :=
  match tris with
  | [] => .error .badInput
  | t0 :: _ =>
    let firstIdx := tris.foldl (fun m t => min m (min t.1 (min t.2.1 t.2.2))) t0.1
    let conn := tris.foldl connAddTriangle []
    let vl := verts.toList
    let gt : α → α → Bool := fun a b => decide (b < a)
    let lt : α → α → Bool := fun a b => decide (a < b)
    match argBest0 gt (·.x) vl, argBest0 gt (·.y) vl, argBest0 gt (·.z) vl,
          argBest0 lt (·.x) vl, argBest0 lt (·.y) vl, argBest0 lt (·.z) vl with
    | .ok a, .ok b, .ok c, .ok e, .ok f, .ok g =>
      .ok ({ verts := verts, conn := conn, shortcuts := [a, b, c, e, f, g] }, firstIdx)
    | _, _, _, _, _, _ => .error .badInput

/-- decidable well-formedness of the stored mesh data — exactly the precondition under which
`hill_climb_mesh_extreme` can raise neither `KeyError` nor `IndexError`: every shortcut vertex,
every key and every listed neighbour is a vertex index, and every shortcut vertex and every
listed neighbour has its own entry in `connections`. The driver evaluates it on every mesh the
harness builds (`C03.meshwf`); soundness is theorem `wfCheck_sound`. -/
def MeshData.wfCheck (m : MeshData α) : Bool :=
  let n := m.verts.size
  let hasKey (i : Nat) : Bool := (m.conn.lookup i).isSome
  m.shortcuts.all (fun s => decide (s < n) && hasKey s) &&
  m.conn.all (fun e => decide (e.1 < n) && e.2.all (fun c => decide (c < n) && hasKey c))

/-- `d · vertices[i]` (0 outside the array) -/
def projAt (d : V3 α) (vs : Array (V3 α)) (i : Nat) : α :=
  match vs[i]? with
  | some v => V3.dot d v
  | none => 0

/-- decidable form of the hypothesis `Unimodal τ τ' d m` of the global-optimality theorem: every
vertex with an entry in `connections` that is more than `τ'` below some vertex has a neighbour
better by more than `τ`. Evaluated by the driver (`C03.unimodal`, exactly at `Rat` on lattice
meshes) for the meshes and directions of the harness; soundness: `unimodalCheck_sound`. -/
def unimodalCheck (τ τ' : α) (d : V3 α) (m : MeshData α) : Bool :=
  let n := m.verts.size
  (List.range n).all fun b =>
    match m.conn.lookup b with
    | none => true
    | some l =>
      !((List.range n).any fun i => decide (projAt d m.verts b + τ' < projAt d m.verts i)) ||
        l.any fun c => decide (τ < projAt d m.verts c - projAt d m.verts b)

/-! ### colliders -/

inductive Collider (α : Type) where
  | sphere (c : V3 α) (r : α)
  | capsule (A : Pose α) (r h : α)
  | ellipsoid (A : Pose α) (radii : V3 α)
  | cylinder (A : Pose α) (r l : α)
  | disk (c : V3 α) (r : α) (n : V3 α)
  | ellipse (c a0 a1 : V3 α) (r0 r1 : α)
  | cone (A : Pose α) (r h : α)
  /-- `Box` : a `ConvexHullVertices` over `convert_box_to_vertices(box2origin, size)` -/
  | box (A : Pose α) (size : V3 α)
  | hull (vs : List (V3 α))
  /-- `MeshGraph` with the cached `first_idx` of its support function as explicit state -/
  | mesh (A : Pose α) (m : MeshData α) (firstIdx : Nat)
  | margin (c : Collider α) (m : α)
  deriving Inhabited

/-- `collider.support_function(d)` : (branch, point, collider after the call) -/
def Collider.support : Collider α → V3 α → Except Err (Nat × V3 α × Collider α)
  | .sphere c r, d => let s := supportSphere d c r; .ok (s.1, s.2, .sphere c r)
  | .capsule A r h, d => let s := supportCapsule d A r h; .ok (s.1, s.2, .capsule A r h)
  | .ellipsoid A radii, d => let s := supportEllipsoid d A radii; .ok (s.1, s.2, .ellipsoid A radii)
  | .cylinder A r l, d => let s := supportCylinder d A r l; .ok (s.1, s.2, .cylinder A r l)
  | .disk c r n, d =>
    match supportDisk d c r n with
    | .error e => .error e
    | .ok s => .ok (s.1, s.2, .disk c r n)
  | .ellipse c a0 a1 r0 r1, d =>
    let s := supportEllipse d c a0 a1 r0 r1; .ok (s.1, s.2, .ellipse c a0 a1 r0 r1)
  | .cone A r h, d => let s := supportCone d A r h; .ok (s.1, s.2, .cone A r h)
  | .box A size, d =>
    match supportHull d (boxVertices A size) with
    | .error e => .error e
    | .ok s => .ok (s.1, s.2, .box A size)
  | .hull vs, d =>
    match supportHull d vs with
    | .error e => .error e
    | .ok s => .ok (s.1, s.2, .hull vs)
  | .mesh A m fi, d =>
    match meshCall A m fi d with
    | .error e => .error e
    | .ok (idx, p, br) => .ok (br, p, .mesh A m idx)
  | .margin c m, d =>
    match c.support d with
    | .error e => .error e
    | .ok (br, p, c') => .ok (br, p + m * normVector d, .margin c' m)

/-- `collider.first_vertex()` -/
def Collider.firstVertex : Collider α → Except Err (V3 α)
  | .sphere c r => .ok (c + ⟨0, 0, r⟩)
  | .capsule A r h => .ok (A.t - (r + 0.5 * h) * A.R.col2)
  | .ellipsoid A radii => .ok (A.t + radii.z * A.R.col2)
  | .cylinder A _ l => .ok (A.t + (0.5 * l) * A.R.col2)
  | .disk c r n =>
    match planeBasisFromNormal n with
    | .error e => .error e
    | .ok (_, x, _) => .ok (c + r * x)
  | .ellipse c a0 _ r0 _ => .ok (c + ⟨a0.x * r0, a0.y * r0, a0.z * r0⟩)
  | .cone A _ h => .ok (A.t + h * A.R.col2)
  | .box A size =>
    match boxVertices A size with
    | [] => .error .indexOOB
    | v :: _ => .ok v
  | .hull vs =>
    match vs with
    | [] => .error .indexOOB
    | v :: _ => .ok v
  | .mesh A m _ =>
    match m.verts[0]? with
    | none => .error .indexOOB
    | some v => .ok (transformPoint A v)
  | .margin c _ => c.firstVertex

/-- `collider.center()` -/
def Collider.center : Collider α → V3 α
  | .sphere c _ => c
  | .capsule A _ _ => A.t
  | .ellipsoid A _ => A.t
  | .cylinder A _ _ => A.t
  | .disk c _ _ => c
  | .ellipse c _ _ _ _ => c
  | .cone A _ h => A.t + (0.5 * h) * A.R.col2
  | .box A _ => A.t
  | .hull vs => meanV vs
  | .mesh A m _ => transformPoint A (meanV m.verts.toList)
  | .margin c _ => c.center

/-- a history of support queries on one collider object: per query `.ok (branch, point)` or the
error (after an error the object is unchanged, as in Python where the exception leaves
`first_idx` untouched) -/
def Collider.history : Collider α → List (V3 α) → List (Except Err (Nat × V3 α))
  | _, [] => []
  | c, d :: ds =>
    match c.support d with
    | .error e => .error e :: Collider.history c ds
    | .ok (br, p, c') => .ok (br, p) :: Collider.history c' ds

end Support
end D3
