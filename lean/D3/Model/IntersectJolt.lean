/-
Model of the boolean Jolt-style GJK test `gjk_intersection_jolt` (= `gjk.gjk_intersection`) of
`distance3d/gjk/_gjk_jolt.py`, property C02.  Core Lean only, scalar-polymorphic.

* `intersectionLoop`  = `_intersection_loop(p, q, Y, n_points, tolerance_sq, prev_v_len_sq, search_direction)`,
  line by line: separating-axis test with `-EPSILON`, append to `Y`, `get_closest_point_to_origin`
  (the C18 model `D3.Simplex.getClosestPointToOrigin`, imported), the three `Intersection` tests,
  negation of the direction, the `assert`, the stall test with `EPSILON * prev`, `update_simplex_y`.
* `gjkIntersectionJolt` = the `while True` driver; the two support mappings are parameters; the unbounded
  loop takes a fuel argument and reports exhaustion as `Err.fuel` (no theorem is proved "because fuel ran
  out").

Branch ids of `intersectionLoop`:
  0 separating axis (`search_direction·w < -EPSILON`)            → NoIntersection
  1 solver reports no improvement (`not success`)                → NoIntersection
  2 `simplex == 0xf`                                             → Intersection
  3 `v_len_sq <= tolerance_sq`                                   → Intersection
  4 `v_len_sq <= EPSILON * max|Y|²`                              → Intersection
  5 stall `prev - v_len_sq <= EPSILON * prev`                    → NoIntersection
  6 continue                                                     → Unknown
(On branch 1 the Python leaves `search_direction` filled with NaN — `search_direction[:] = None` — the model keeps
the old direction; the value is never used after a NoIntersection answer.)
Errors: `indexOOB` (write past `Y[3]`), `assertFail` (`assert prev_v_len_sq >= v_len_sq`), whatever the
solver raises (`divZero`).
-/
import D3.Model.Simplex

namespace D3
namespace IsectJolt

inductive GjkState where
  | noIntersection | intersection | unknown
  deriving Repr, DecidableEq, Inhabited

def GjkState.code : GjkState → Nat
  | .noIntersection => 0 | .intersection => 1 | .unknown => 2

scalar_variables

/-- `EPSILON` imported from `utils` -/
def EPS : α := D3.Gen.utils__EPSILON
/-- `MAX_FLOAT` imported from `utils` -/
def MAXF : α := D3.Gen.utils__MAX_FLOAT
/-- default `tolerance` of `gjk_intersection_jolt` -/
def TOL : α := D3.Gen.gjk__gjk_jolt__gjk_intersection_jolt__tolerance

/-- result of one call of `_intersection_loop`: the returned triple, plus the arrays the Python
mutates in place (`Y`, `search_direction`) and the branch id -/
structure Step (α : Type) where
  state : GjkState
  nPoints : Nat
  prev : α
  Y : Array (V3 α)
  dir : V3 α
  br : Nat
  deriving Repr

/-- loop of `max_y_length_squared` for `i in range(1, n_points)` -/
def maxYLoop (Y : Array (V3 α)) : Nat → Nat → α → Except Err α
  | 0, _, acc => .ok acc
  | fuel + 1, i, acc =>
    match Y[i]? with
    | some y => maxYLoop Y fuel (i + 1) (max acc (V3.dot y y))
    | none => .error .indexOOB

/-- `max_y_length_squared(y, n_points)` -/
def maxYLengthSquared (Y : Array (V3 α)) (nPoints : Nat) : Except Err α :=
  match Y[0]? with
  | some y0 => maxYLoop Y (nPoints - 1) 1 (V3.dot y0 y0)
  | none => .error .indexOOB

/-- `_intersection_loop` -/
def intersectionLoop (p q : V3 α) (Y : Array (V3 α)) (nPoints : Nat) (toleranceSq prev : α)
    (dir : V3 α) : Except Err (Step α) :=
  let w := p - q
  if V3.dot dir w < -EPS then .ok ⟨.noIntersection, nPoints, prev, Y, dir, 0⟩ else
  if ¬ nPoints < Y.size then .error .indexOOB else
  let Y1 := Y.set! nPoints w
  let n1 := nPoints + 1
  match Simplex.getClosestPointToOrigin Y1 n1 prev with
  | .error e => .error e
  | .ok r =>
    if ¬ r.success then .ok ⟨.noIntersection, n1, prev, Y1, dir, 1⟩ else
    if r.set = 0xf then .ok ⟨.intersection, n1, prev, Y1, r.v, 2⟩ else
    if r.vLenSq ≤ toleranceSq then .ok ⟨.intersection, n1, prev, Y1, r.v, 3⟩ else
    match maxYLengthSquared Y1 n1 with
    | .error e => .error e
    | .ok m =>
      if r.vLenSq ≤ EPS * m then .ok ⟨.intersection, n1, prev, Y1, r.v, 4⟩ else
      if ¬ r.vLenSq ≤ prev then .error .assertFail else
      if prev - r.vLenSq ≤ EPS * prev then .ok ⟨.noIntersection, n1, prev, Y1, -r.v, 5⟩ else
      match Simplex.updateSimplexY Y1 n1 r.set with
      | .error e => .error e
      | .ok (Y2, n2) => .ok ⟨.unknown, n2, r.vLenSq, Y2, -r.v, 6⟩

/-- the `while True` loop of `gjk_intersection_jolt`; returns the boolean and the number of
`_intersection_loop` calls made -/
def gjkLoop (sA sB : V3 α → V3 α) (toleranceSq : α) :
    Nat → Nat → Array (V3 α) → Nat → α → V3 α → Except Err (Bool × Nat × Nat)
  | 0, _, _, _, _, _ => .error .fuel
  | fuel + 1, it, Y, nPoints, prev, dir =>
    match intersectionLoop (sA dir) (sB (-dir)) Y nPoints toleranceSq prev dir with
    | .error e => .error e
    | .ok s =>
      match s.state with
      | .unknown => gjkLoop sA sB toleranceSq fuel (it + 1) s.Y s.nPoints s.prev s.dir
      | .intersection => .ok (true, it + 1, s.br)
      | .noIntersection => .ok (false, it + 1, s.br)

/-- `gjk_intersection_jolt(collider1, collider2, tolerance)` with the support mappings as parameters -/
def gjkIntersectionJolt (sA sB : V3 α → V3 α) (tolerance : α) (fuel : Nat) :
    Except Err (Bool × Nat × Nat) :=
  let z : V3 α := ⟨0, 0, 0⟩
  gjkLoop sA sB (tolerance * tolerance) fuel 0 #[z, z, z, z] 0 MAXF ⟨1, 0, 0⟩

end IsectJolt
end D3
