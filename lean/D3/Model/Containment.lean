/-
Model of `distance3d/containment.py` (every `*_aabb` function, line by line, with numpy's
broadcasting written out per component), of every `aabb()` method in `distance3d/colliders.py`
(incl. `Margin.aabb`) and of `RigidBody.aabb()` / `RigidBody.express_in` in
`distance3d/hydroelastic_contact/_rigid_body.py`.  Core Lean only.

Conventions
* a pair `(mins, maxs)` / the `(3,2)` array `np.array((mins, maxs)).T` is the `Aabb.Box`
  `[[lo0,hi0],[lo1,hi1],[lo2,hi2]]` of `D3/Model/Aabb.lean`;
* `np.sqrt` of a negative number yields NaN (plus a RuntimeWarning): modelled as `Err.sqrtNeg`;
  a division by zero inside numpy (`inf`/`nan` + warning) as `Err.divZero`;
  `np.min` of an empty array (ValueError) as `Err.badInput`;
  reading `aabbs[-1]` of an empty tree (IndexError) as `Err.indexOOB`;
* where a function has a case analysis (`np.abs`, `np.minimum/maximum`, `np.max`) a branch id
  is computed by a separate `…Branch` function that the driver prints.
-/
import D3.Model.Vec
import D3.Model.Aabb

namespace D3
namespace Containment
open Aabb (Box)

scalar_variables

/-- `(mins, maxs)` as a box -/
def mkBox (mins maxs : V3 α) : Box α := ⟨mins.x, maxs.x, mins.y, maxs.y, mins.z, maxs.z⟩

/-- `v - s`, `v + s` with a scalar broadcast over the components -/
def subS (v : V3 α) (s : α) : V3 α := ⟨v.x - s, v.y - s, v.z - s⟩
def addS (v : V3 α) (s : α) : V3 α := ⟨v.x + s, v.y + s, v.z + s⟩

def vmin (a b : V3 α) : V3 α := ⟨min a.x b.x, min a.y b.y, min a.z b.z⟩
def vmax (a b : V3 α) : V3 α := ⟨max a.x b.x, max a.y b.y, max a.z b.z⟩

/-- `np.sqrt` with the NaN outcome made explicit -/
def sqrtChecked (x : α) : Except Err α := if x < 0 then .error .sqrtNeg else .ok (sqrt x)

/-- `a / b` with numpy's inf/nan outcome made explicit -/
def divChecked (a b : α) : Except Err α := if b = 0 then .error .divZero else .ok (a / b)

/-- sign pattern of a vector (which branch `np.abs` takes per component): bit i set iff
component i is negative -/
def signCode (v : V3 α) : Nat :=
  (if v.x < 0 then 1 else 0) + (if v.y < 0 then 2 else 0) + (if v.z < 0 then 4 else 0)

/-! ### `axis_aligned_bounding_box` -/

/-- `np.min(P, axis=0), np.max(P, axis=0)` -/
def aabbOfPoints : List (V3 α) → Except Err (Box α)
  | [] => .error .badInput
  | p :: ps => .ok (mkBox (ps.foldl vmin p) (ps.foldl vmax p))

/-! ### `sphere_aabb` -/

/-- `center - radius, center + radius` -/
def sphereAabb (c : V3 α) (radius : α) : Box α := mkBox (subS c radius) (addS c radius)

/-! ### `box_aabb` (through `convert_box_to_vertices`) -/

/-- `BOX_COORDS = product([-0.5, 0.5], repeat=3)` -/
def boxCoords : List (V3 α) :=
  [⟨-0.5, -0.5, -0.5⟩, ⟨-0.5, -0.5, 0.5⟩, ⟨-0.5, 0.5, -0.5⟩, ⟨-0.5, 0.5, 0.5⟩,
   ⟨0.5, -0.5, -0.5⟩, ⟨0.5, -0.5, 0.5⟩, ⟨0.5, 0.5, -0.5⟩, ⟨0.5, 0.5, 0.5⟩]

/-- one row of `box2origin[:3, 3] + (BOX_COORDS * size).dot(box2origin[:3, :3].T)` -/
def boxVertex (A : Pose α) (size c : V3 α) : V3 α :=
  let w : V3 α := ⟨c.x * size.x, c.y * size.y, c.z * size.z⟩
  A.t + ⟨V3.dot w A.R.r0, V3.dot w A.R.r1, V3.dot w A.R.r2⟩

/-- `convert_box_to_vertices` -/
def boxVertices (A : Pose α) (size : V3 α) : List (V3 α) := boxCoords.map (boxVertex A size)

/-- `box_aabb` -/
def boxAabb (A : Pose α) (size : V3 α) : Except Err (Box α) := aabbOfPoints (boxVertices A size)

/-! ### `cylinder_aabb` -/

/-- one component of `0.5 * length * np.abs(axis) + radius * np.sqrt(1.0 - axis * axis)` -/
def cylinderExtent1 (radius length a : α) : Except Err α := do
  let s ← sqrtChecked (1 - a * a)
  pure (0.5 * length * absS a + radius * s)

/-- `cylinder_aabb` -/
def cylinderAabb (A : Pose α) (radius length : α) : Except Err (Box α) := do
  let axis := A.R.col2
  let ex ← cylinderExtent1 radius length axis.x
  let ey ← cylinderExtent1 radius length axis.y
  let ez ← cylinderExtent1 radius length axis.z
  let extent : V3 α := ⟨ex, ey, ez⟩
  pure (mkBox (A.t - extent) (A.t + extent))

/-! ### `capsule_aabb` -/

/-- one component of `0.5 * height * np.abs(capsule2origin[:3, 2]) + radius` -/
def capsuleExtent1 (radius height a : α) : α := 0.5 * height * absS a + radius

/-- `capsule_aabb` -/
def capsuleAabb (A : Pose α) (radius height : α) : Box α :=
  let axis := A.R.col2
  let extent : V3 α := ⟨capsuleExtent1 radius height axis.x, capsuleExtent1 radius height axis.y,
    capsuleExtent1 radius height axis.z⟩
  mkBox (A.t - extent) (A.t + extent)

/-! ### `ellipsoid_aabb` — as is (known finding F-ellipsoid-aabb) and repaired -/

/-- column `j` of `extents` after the three in-place statements
```
extents = R * radii[np.newaxis]            # e[i][j] = R[i][j] * radii[j]
extents /= np.linalg.norm(extents, axis=0) # n[j] = sqrt(e[0][j]² + e[1][j]² + e[2][j]²)
extents *= radii[np.newaxis]
```
given column `j` of `R` and `radii[j]` -/
def ellipsoidColumn (col : V3 α) (r : α) : Except Err (V3 α) := do
  let e : V3 α := ⟨col.x * r, col.y * r, col.z * r⟩
  let n ← sqrtChecked (e.x * e.x + e.y * e.y + e.z * e.z)
  let x ← divChecked e.x n
  let y ← divChecked e.y n
  let z ← divChecked e.z n
  pure ⟨x * r, y * r, z * r⟩

/-- the matrix `np.dot(R, extents.T)` : entry `[i][k] = Σ_j R[i][j] * extents[k][j]`;
returned as its three columns `k = 0,1,2`, each a vector over `i` -/
def ellipsoidProduct (R E : M3 α) : M3 α :=
  ⟨⟨V3.dot R.r0 E.r0, V3.dot R.r1 E.r0, V3.dot R.r2 E.r0⟩,
   ⟨V3.dot R.r0 E.r1, V3.dot R.r1 E.r1, V3.dot R.r2 E.r1⟩,
   ⟨V3.dot R.r0 E.r2, V3.dot R.r1 E.r2, V3.dot R.r2 E.r2⟩⟩

/-- `np.max(·, axis=0)` of one column -/
def max3 (v : V3 α) : α := max (max v.x v.y) v.z

/-- index of the (first) maximal component, as `np.argmax` -/
def argmax3 (v : V3 α) : Nat :=
  if v.x < v.y then (if v.y < v.z then 2 else 1) else (if v.x < v.z then 2 else 0)

/-- the matrix whose columns are `k ↦ (M[0][k], M[1][k], M[2][k])` of `ellipsoid_aabb` -/
def ellipsoidM (A : Pose α) (radii : V3 α) : Except Err (M3 α) := do
  let c0 ← ellipsoidColumn A.R.col0 radii.x
  let c1 ← ellipsoidColumn A.R.col1 radii.y
  let c2 ← ellipsoidColumn A.R.col2 radii.z
  -- rows of `extents`
  let E : M3 α := ⟨⟨c0.x, c1.x, c2.x⟩, ⟨c0.y, c1.y, c2.y⟩, ⟨c0.z, c1.z, c2.z⟩⟩
  pure (ellipsoidProduct A.R E)

/-- `ellipsoid_aabb` exactly as the code computes it -/
def ellipsoidAabb_asIs (A : Pose α) (radii : V3 α) : Except Err (Box α) := do
  let M ← ellipsoidM A radii
  let extent : V3 α := ⟨max3 M.r0, max3 M.r1, max3 M.r2⟩
  pure (mkBox (A.t - extent) (A.t + extent))

def ellipsoidBranch (A : Pose α) (radii : V3 α) : Nat :=
  match ellipsoidM A radii with
  | .ok M => argmax3 M.r0 + 3 * argmax3 M.r1 + 9 * argmax3 M.r2
  | .error _ => 27

/-- one component of the repaired extent: the norm of row `k` of `R·diag(radii)` -/
def ellipsoidFixedExtent1 (row radii : V3 α) : Except Err α :=
  let e : V3 α := ⟨row.x * radii.x, row.y * radii.y, row.z * radii.z⟩
  sqrtChecked (e.x * e.x + e.y * e.y + e.z * e.z)

/-- repaired `ellipsoid_aabb` : `extent = np.linalg.norm(R * radii[np.newaxis], axis=1)` -/
def ellipsoidAabb_fixed (A : Pose α) (radii : V3 α) : Except Err (Box α) := do
  let ex ← ellipsoidFixedExtent1 A.R.r0 radii
  let ey ← ellipsoidFixedExtent1 A.R.r1 radii
  let ez ← ellipsoidFixedExtent1 A.R.r2 radii
  let extent : V3 α := ⟨ex, ey, ez⟩
  pure (mkBox (A.t - extent) (A.t + extent))

/-! ### `disk_aabb` -/

/-- one component of `radius * np.sqrt(1.0 - normal * normal)` -/
def diskExtent1 (radius n : α) : Except Err α := do
  let s ← sqrtChecked (1 - n * n)
  pure (radius * s)

/-- `disk_aabb` -/
def diskAabb (c : V3 α) (radius : α) (normal : V3 α) : Except Err (Box α) := do
  let ex ← diskExtent1 radius normal.x
  let ey ← diskExtent1 radius normal.y
  let ez ← diskExtent1 radius normal.z
  let e : V3 α := ⟨ex, ey, ez⟩
  pure (mkBox (c - e) (c + e))

/-! ### `cone_aabb` (after the repair d7ba656: `axis` is read from the pose, clamped) -/

/-- one component of `np.sqrt(np.maximum(0.0, 1.0 - axis * axis))` -/
def coneE1 (a : α) : α := sqrt (max 0 (1 - a * a))

/-- `cone_aabb` -/
def coneAabb (A : Pose α) (radius height : α) : Box α :=
  let pa := A.t
  let pb := A.t + height * A.R.col2
  let axis := A.R.col2
  let er : V3 α := ⟨coneE1 axis.x * radius, coneE1 axis.y * radius, coneE1 axis.z * radius⟩
  mkBox (vmin (pa - er) pb) (vmax (pa + er) pb)

/-- per axis: 0 = both bounds from the base disk, 1 = the apex is the minimum,
2 = the apex is the maximum; code = b₀ + 3 b₁ + 9 b₂ -/
def coneBranch (A : Pose α) (radius height : α) : Nat :=
  let pa := A.t
  let pb := A.t + height * A.R.col2
  let axis := A.R.col2
  let b (p e q : α) : Nat := if q < p - e * radius then 1 else if p + e * radius < q then 2 else 0
  b pa.x (coneE1 axis.x) pb.x + 3 * b pa.y (coneE1 axis.y) pb.y + 9 * b pa.z (coneE1 axis.z) pb.z

/-- `cone_aabb` as it was **before** the repair d7ba656:
`a = pb - pa; e = np.sqrt(1.0 - a * a / (height * height))`.  In floating point `a` is formed
with cancellation and `|a_i|` can exceed `height` by an ulp (NaN bounds, e.g. identity
rotation, t = (0,0,0.1), height 0.3); at exact real arithmetic it agrees with the repaired
function (`coneAabb_asIs_before_fix_eq`).  Kept for that theorem only. -/
def coneAabb_asIs_before_fix (A : Pose α) (radius height : α) : Except Err (Box α) := do
  let pa := A.t
  let pb := A.t + height * A.R.col2
  let a := pb - pa
  let e1 (a : α) : Except Err α := do
    let q ← divChecked (a * a) (height * height)
    sqrtChecked (1 - q)
  let ex ← e1 a.x
  let ey ← e1 a.y
  let ez ← e1 a.z
  let er : V3 α := ⟨ex * radius, ey * radius, ez * radius⟩
  pure (mkBox (vmin (pa - er) pb) (vmax (pa + er) pb))

/-! ### `ellipse_aabb` -/

/-- one component of `np.sqrt((radii[0] * axes[0]) ** 2 + (radii[1] * axes[1]) ** 2)` -/
def ellipseExtent1 (r0 r1 a0 a1 : α) : Except Err α :=
  sqrtChecked ((r0 * a0) * (r0 * a0) + (r1 * a1) * (r1 * a1))

/-- `ellipse_aabb` -/
def ellipseAabb (c a0 a1 : V3 α) (r0 r1 : α) : Except Err (Box α) := do
  let ex ← ellipseExtent1 r0 r1 a0.x a1.x
  let ey ← ellipseExtent1 r0 r1 a0.y a1.y
  let ez ← ellipseExtent1 r0 r1 a0.z a1.z
  let extent : V3 α := ⟨ex, ey, ez⟩
  pure (mkBox (c - extent) (c + extent))

/-! ### `MeshGraph.aabb` -/

/-- one row of `mesh2origin[np.newaxis, :3, 3] + np.dot(vertices, mesh2origin[:3, :3].T)` -/
def meshVertex (A : Pose α) (v : V3 α) : V3 α :=
  A.t + ⟨V3.dot v A.R.r0, V3.dot v A.R.r1, V3.dot v A.R.r2⟩

def meshAabb (A : Pose α) (vs : List (V3 α)) : Except Err (Box α) :=
  aabbOfPoints (vs.map (meshVertex A))

/-! ### `Margin.aabb` -/

/-- `mins = aabb[:, 0] - margin; maxs = aabb[:, 1] + margin` -/
def inflate (b : Box α) (m : α) : Box α :=
  ⟨b.lo0 - m, b.hi0 + m, b.lo1 - m, b.hi1 + m, b.lo2 - m, b.hi2 + m⟩

/-! ### the collider classes -/

/-- the data each collider class keeps that its `aabb()` reads -/
inductive Collider (α : Type) where
  | sphere (c : V3 α) (radius : α)
  | hull (vertices : List (V3 α))
  | box (A : Pose α) (size : V3 α)
  | mesh (A : Pose α) (vertices : List (V3 α))
  | capsule (A : Pose α) (radius height : α)
  | ellipsoid (A : Pose α) (radii : V3 α)
  | cylinder (A : Pose α) (radius length : α)
  | disk (c : V3 α) (radius : α) (normal : V3 α)
  | ellipse (c a0 a1 : V3 α) (r0 r1 : α)
  | cone (A : Pose α) (radius height : α)
  | margin (inner : Collider α) (m : α)

/-- `collider.aabb()`; `ell` is the ellipsoid function in use (`ellipsoidAabb_asIs` for the
code as it is, `ellipsoidAabb_fixed` for the repaired variant) -/
def Collider.aabb (ell : Pose α → V3 α → Except Err (Box α)) : Collider α → Except Err (Box α)
  | .sphere c r => .ok (sphereAabb c r)
  | .hull vs => aabbOfPoints vs
  | .box A size => boxAabb A size
  | .mesh A vs => meshAabb A vs
  | .capsule A r h => .ok (capsuleAabb A r h)
  | .ellipsoid A radii => ell A radii
  | .cylinder A r l => cylinderAabb A r l
  | .disk c r n => diskAabb c r n
  | .ellipse c a0 a1 r0 r1 => ellipseAabb c a0 a1 r0 r1
  | .cone A r h => .ok (coneAabb A r h)
  | .margin inner m => do
    let b ← Collider.aabb ell inner
    pure (inflate b m)

/-! ### hydroelastic `RigidBody` -/

structure RigidBody (α : Type) where
  body2origin : Pose α
  vertices : Array (V3 α)
  tetrahedra : List (Nat × Nat × Nat × Nat)

/-- one row of `transform_points(A2B, points)` = `np.dot(points, A2B[:3, :3].T) + A2B[:3, 3]` -/
def transformPoint (A : Pose α) (v : V3 α) : V3 α :=
  (⟨V3.dot v A.R.r0, V3.dot v A.R.r1, V3.dot v A.R.r2⟩ : V3 α) + A.t

/-- `RigidBody.aabb()` (after the repair f66b757): min/max over **all** stored vertices
transformed to the world frame by `body2origin_`; `np.min` of an empty array raises. -/
def RigidBody.aabb (b : RigidBody α) : Except Err (Box α) :=
  aabbOfPoints (b.vertices.toList.map (transformPoint b.body2origin))

def getVertex (vs : Array (V3 α)) (i : Nat) : Except Err (V3 α) :=
  match vs[i]? with
  | some v => .ok v
  | none => .error .indexOOB

/-- the four points `vertices_[tetrahedra_][k]` -/
def tetPoints (vs : Array (V3 α)) (t : Nat × Nat × Nat × Nat) : Except Err (List (V3 α)) := do
  let a ← getVertex vs t.1
  let b ← getVertex vs t.2.1
  let c ← getVertex vs t.2.2.1
  let d ← getVertex vs t.2.2.2
  pure [a, b, c, d]

/-- one row of `tetrahedral_mesh_aabbs` : `np.min(·, axis=1)`, `np.max(·, axis=1)` -/
def tetBox (pts : List (V3 α)) : Except Err (Box α) := aabbOfPoints pts

/-- root box of the tree built by `insert_aabbs(self.aabbs, "sort")`: on a tight tree
(C05 `history_leaves`) it is the merge of all leaf boxes; `min`/`max` are exact and
associative, so the insertion order does not matter.  Empty tree: `aabbs[-1]`. -/
def rootBox : List (Box α) → Except Err (Box α)
  | [] => .error .indexOOB
  | b :: bs => .ok (bs.foldl Aabb.merge b)

/-- `RigidBody.aabb()` as it was **before** the repair (`self.aabb_tree.get_root_aabb()`):
the box of the *stored* (body-frame) vertices of the tetrahedra; `body2origin_` is not used.
Kept only for the counterexample theorem `rigidBodyAabb_asIs_before_fix_counterexample`. -/
def RigidBody.aabb_asIs_before_fix (b : RigidBody α) : Except Err (Box α) := do
  let pts ← b.tetrahedra.mapM (tetPoints b.vertices)
  let boxes ← pts.mapM tetBox
  rootBox boxes

/-- `RigidBody.express_in` -/
def RigidBody.expressIn (b : RigidBody α) (new : Pose α) : RigidBody α :=
  let body2new := (Pose.inv new).comp b.body2origin
  { b with vertices := b.vertices.map (transformPoint body2new), body2origin := new }

/-- `RigidBody.update_pose` -/
def RigidBody.updatePose (b : RigidBody α) (new : Pose α) : RigidBody α :=
  { b with body2origin := new }

end Containment
end D3
