/-
Model of the distance query of the Jolt-style GJK (`distance3d/gjk/_gjk_jolt.py`), property C01.
Core Lean only, scalar-polymorphic.  Faithful, line by line, to

* `_distance_loop`            → `distanceLoopStep`   (one iteration of the `while True` loop)
* `update_simplex_ypq`        → `updateSimplexYPQ`
* `max_y_length_squared`      → `maxYLengthSquared`
* `calculate_closest_points`  → `calculateClosestPoints`
* `gjk_distance_jolt`         → `gjkInit`, `gjkLoop`, `gjkFinish`, `gjkDistance`

The two support mappings are *function parameters* (`sA sB : V3 α → V3 α`); the simplex solver
(`get_closest_point_to_origin`) and the three barycentric-coordinate routines are parameters as
well (`Solver`, `Bary`), so that the S2 theorems can be stated against their *specifications*;
`joltSolver` / `joltBary` at the end of the file plug in the line-by-line models of
`D3.Model.Simplex` (property C18) — these are what the driver runs.

The `(4,3)` arrays `Y`, `P`, `Q` are 4-field records `A4` (`np.empty((4, 3))`: the initial
content is unspecified, the model takes it as a parameter and never depends on it); an access
with index ≥ 4 is `indexOOB`.  `assert prev_v_len_sq >= v_len_sq` and the `sanity_check`
assert are `assertFail`, `math.sqrt` of a negative number is `sqrtNeg`, `0.5 * (None + None)`
is `typeErr`, an exhausted iteration budget is the distinct outcome `fuel`.

Branch ids of `distanceLoopStep`:
  0 Clipped · 1 Intersection (simplex = 0xf) · 2 Intersection (|v|² ≤ tol²) ·
  3 Intersection (|v|² ≤ ε·max|Y|²) · 4 NoIntersection (relative progress, solver succeeded) ·
  5 NoIntersection (solver reported no improvement) · 6 Unknown (continue, solver succeeded) ·
  7 Unknown (continue although the solver failed — first iteration with a non-finite point only)
-/
import D3.Model.Vec
import D3.Model.Simplex
import D3.Gen.Constants

namespace D3
namespace GjkJolt

/-- `class GjkState(Enum)` -/
inductive GjkState where
  | noIntersection | intersection | unknown | clipped
  deriving Repr, DecidableEq, Inhabited

/-- the enum values of the Python class -/
def GjkState.code : GjkState → Nat
  | .noIntersection => 0 | .intersection => 1 | .unknown => 2 | .clipped => 3

/-- a `(4, ·)` array -/
structure A4 (β : Type) where
  r0 : β
  r1 : β
  r2 : β
  r3 : β
  deriving Repr, Inhabited

namespace A4
variable {β : Type}

/-- checked read `a[i]` -/
def get (a : A4 β) (i : Nat) : Except Err β :=
  match i with
  | 0 => .ok a.r0 | 1 => .ok a.r1 | 2 => .ok a.r2 | 3 => .ok a.r3
  | _ => .error .indexOOB

/-- checked write `a[i] = x` -/
def set (a : A4 β) (i : Nat) (x : β) : Except Err (A4 β) :=
  match i with
  | 0 => .ok { a with r0 := x } | 1 => .ok { a with r1 := x }
  | 2 => .ok { a with r2 := x } | 3 => .ok { a with r3 := x }
  | _ => .error .indexOOB

def toList (a : A4 β) : List β := [a.r0, a.r1, a.r2, a.r3]
def toArray (a : A4 β) : Array β := #[a.r0, a.r1, a.r2, a.r3]
/-- the valid prefix `a[:n]` -/
def pre (a : A4 β) (n : Nat) : List β := a.toList.take n

end A4

/-- what `get_closest_point_to_origin` returns: `(success, v, |v|², set bits)`
(the Python returns `(False, None, None, None)` on failure; the step function ignores the
other three components in that case) -/
structure SolveOut (α : Type) where
  success : Bool
  v : V3 α
  vLenSq : α
  set : Nat
  deriving Repr

/-- the simplex solver as a parameter: `solve Y n_points prev_v_len_sq` -/
abbrev Solver (α : Type) := A4 (V3 α) → Nat → α → Except Err (SolveOut α)

/-- the three `get_barycentric_coordinates_*` routines as parameters -/
structure Bary (α : Type) where
  line : V3 α → V3 α → Except Err (α × α)
  plane : V3 α → V3 α → V3 α → Except Err (α × α × α)
  tetra : V3 α → V3 α → V3 α → V3 α → Except Err (α × α × α × α)

/-- the loop-carried variables of `gjk_distance_jolt` -/
structure State (α : Type) where
  Y : A4 (V3 α)
  P : A4 (V3 α)
  Q : A4 (V3 α)
  nPoints : Nat
  prevVLenSq : α
  vLenSq : α
  sd : V3 α
  deriving Repr

/-- result of one call of `_distance_loop`: exit state, new loop variables (for `Clipped` the
Python returns `None`s; the model returns the unchanged input), branch id, the set bits used -/
structure StepOut (α : Type) where
  gs : GjkState
  st : State α
  br : Nat
  set : Nat
  deriving Repr

scalar_variables

/-- `EPSILON` imported from `utils` -/
def EPS : α := D3.Gen.utils__EPSILON
/-- `MAX_FLOAT` imported from `utils` -/
def MAXF : α := D3.Gen.utils__MAX_FLOAT

/-- `simplex = 0; for i in range(n): simplex |= 1 << i` -/
def allBits (n : Nat) : Nat := (List.range n).foldl (fun s i => s ||| (1 <<< i)) 0

/-- loop of `update_simplex_ypq`; `rem` iterations left, current index `i`, write index `k` -/
def updateSimplexLoop {β : Type} (simplex : Nat) :
    Nat → Nat → Nat → A4 β → A4 β → A4 β → Except Err (A4 β × A4 β × A4 β × Nat)
  | 0, _, k, Y, P, Q => .ok (Y, P, Q, k)
  | rem + 1, i, k, Y, P, Q =>
    if (simplex &&& (1 <<< i)) ≠ 0 then do
      let y ← Y.get i
      let Y ← Y.set k y
      let p ← P.get i
      let P ← P.set k p
      let q ← Q.get i
      let Q ← Q.set k q
      updateSimplexLoop simplex rem (i + 1) (k + 1) Y P Q
    else updateSimplexLoop simplex rem (i + 1) k Y P Q

/-- `update_simplex_ypq(Y, P, Q, n_points, simplex)` → `(Y, P, Q, n_new_points)` -/
def updateSimplexYPQ {β : Type} (Y P Q : A4 β) (nPoints simplex : Nat) :
    Except Err (A4 β × A4 β × A4 β × Nat) :=
  updateSimplexLoop simplex nPoints 0 0 Y P Q

/-- loop of `max_y_length_squared`: `for i in range(1, n): acc = max(acc, y[i]·y[i])` -/
def maxYLoop (Y : A4 (V3 α)) : Nat → Nat → α → Except Err α
  | 0, _, acc => .ok acc
  | rem + 1, i, acc => do
    let y ← Y.get i
    maxYLoop Y rem (i + 1) (max acc (V3.dot y y))

/-- `max_y_length_squared(y, n_points)` (reads `y[0]` whatever `n_points` is) -/
def maxYLengthSquared (Y : A4 (V3 α)) (nPoints : Nat) : Except Err α := do
  let y0 ← Y.get 0
  maxYLoop Y (nPoints - 1) 1 (V3.dot y0 y0)

/-- second half of `_distance_loop`: everything after the solver's answer has been merged into
`(n_points, search_direction, v_len_sq, simplex)`; `ok` = the solver's success flag (only used
for the branch id) -/
def stepTail (Y P Q : A4 (V3 α)) (n : Nat) (prev tolSq : α) (ok : Bool) (sd : V3 α)
    (vLenSq : α) (simplex : Nat) : Except Err (StepOut α) :=
  -- four points: the origin is inside the tetrahedron
  if simplex = 0xf then
    .ok ⟨.intersection, ⟨Y, P, Q, n, prev, 0, sd⟩, 1, simplex⟩
  else
  -- update the points of the simplex
  match updateSimplexYPQ Y P Q n simplex with
  | .error e => .error e
  | .ok (Y, P, Q, n) =>
    -- v very close to zero
    if vLenSq ≤ tolSq then
      .ok ⟨.intersection, ⟨Y, P, Q, n, prev, 0, sd⟩, 2, simplex⟩
    else
    -- v very small compared to the length of y
    match maxYLengthSquared Y n with
    | .error e => .error e
    | .ok my =>
      if vLenSq ≤ EPS * my then
        .ok ⟨.intersection, ⟨Y, P, Q, n, prev, 0, sd⟩, 3, simplex⟩
      else
      -- next separating axis: `search_direction *= -1.0`
      let sd : V3 α := (-1 : α) * sd
      -- `assert prev_v_len_sq >= v_len_sq`
      if ¬ (vLenSq ≤ prev) then .error .assertFail
      else if prev - vLenSq ≤ EPS * prev then
        .ok ⟨.noIntersection, ⟨Y, P, Q, n, prev, vLenSq, sd⟩, if ok then 4 else 5, simplex⟩
      else
        .ok ⟨.unknown, ⟨Y, P, Q, n, vLenSq, vLenSq, sd⟩, if ok then 6 else 7, simplex⟩

/-- `_distance_loop(p, q, Y, P, Q, n_points, tolerance_sq, prev_v_len_sq, v_len_sq,
search_direction, max_distance_squared)` -/
def distanceLoopStep (solve : Solver α) (p q : V3 α) (st : State α) (tolSq maxDistSq : α) :
    Except Err (StepOut α) :=
  -- support point of the Minkowski difference A - B
  let supportPoint := p - q
  let dot := V3.dot st.sd supportPoint
  -- separation of more than max_distance_squared: terminate early
  if dot < 0 ∧ st.vLenSq * maxDistSq < dot * dot then .ok ⟨.clipped, st, 0, 0⟩ else
  -- store the point (`n_points += 1`)
  match st.Y.set st.nPoints supportPoint, st.P.set st.nPoints p, st.Q.set st.nPoints q with
  | .ok Y, .ok P, .ok Q =>
    match solve Y (st.nPoints + 1) st.prevVLenSq with
    | .error e => .error e
    | .ok r =>
      if r.success then
        stepTail Y P Q (st.nPoints + 1) st.prevVLenSq tolSq true r.v r.vLenSq r.set
      else
        -- undo add last point (`n_points -= 1`), all remaining bits set
        stepTail Y P Q st.nPoints st.prevVLenSq tolSq false st.sd st.vLenSq (allBits st.nPoints)
  | _, _, _ => .error .indexOOB

/-- `calculate_closest_points(Y, P, Q, n_points)`; `none` = the Python's `(None, None)` -/
def calculateClosestPoints (bary : Bary α) (Y P Q : A4 (V3 α)) (nPoints : Nat) :
    Except Err (Option (V3 α × V3 α)) :=
  if nPoints = 1 then
    .ok (some (P.r0, Q.r0))
  else if nPoints = 2 then do
    let (u, v) ← bary.line Y.r0 Y.r1
    .ok (some (u * P.r0 + v * P.r1, u * Q.r0 + v * Q.r1))
  else if nPoints = 3 then do
    let (u, v, w) ← bary.plane Y.r0 Y.r1 Y.r2
    .ok (some (u * P.r0 + v * P.r1 + w * P.r2, u * Q.r0 + v * Q.r1 + w * Q.r2))
  else if nPoints = 4 then do
    let (u, v, w, x) ← bary.tetra Y.r0 Y.r1 Y.r2 Y.r3
    .ok (some (u * P.r0 + v * P.r1 + w * P.r2 + x * P.r3,
               u * Q.r0 + v * Q.r1 + w * Q.r2 + x * Q.r3))
  else .ok none

/-- what `gjk_distance_jolt` returns.  `clipped = true` stands for
`(MAX_FLOAT, None, None, None)`; otherwise `(dist, a, b, Y)`. -/
structure Result (α : Type) where
  clipped : Bool
  dist : α
  a : Option (V3 α)
  b : Option (V3 α)
  exit : GjkState
  st : State α
  iterations : Nat
  deriving Repr

/-- the loop variables before the first iteration; `y0` is the unspecified content of
`np.empty((4, 3))` -/
def gjkInit (y0 : A4 (V3 α)) : State α :=
  let sd : V3 α := ⟨1, 0, 0⟩
  ⟨y0, y0, y0, 0, MAXF, V3.dot sd sd, sd⟩

/-- the code after the loop of `gjk_distance_jolt` (not reached for `Clipped`) -/
def gjkFinish (bary : Bary α) (sanityCheck : α) (gs : GjkState) (st : State α) (iters : Nat) :
    Except Err (Result α) := do
  let ab ← calculateClosestPoints bary st.Y st.P st.Q st.nPoints
  let checkValue := absS (V3.dot st.sd st.sd - st.vLenSq)
  if ¬ (checkValue < sanityCheck) then .error .assertFail else
  if st.vLenSq < 0 then .error .sqrtNeg else
  let dist := sqrt st.vLenSq
  if dist < EPS then
    match ab with
    | none => .error .typeErr
    | some (a, b) =>
      let m : V3 α := (0.5 : α) * (a + b)
      .ok ⟨false, dist, some m, some m, gs, st, iters⟩
  else
    .ok ⟨false, dist, ab.map (·.1), ab.map (·.2), gs, st, iters⟩

/-- the `while True` loop; returns the exit state, the loop variables and the number of calls
of `_distance_loop` -/
def gjkLoop (solve : Solver α) (sA sB : V3 α → V3 α) (tolSq maxDistSq : α) :
    Nat → Nat → State α → Except Err (GjkState × State α × Nat)
  | 0, _, _ => .error .fuel
  | fuel + 1, it, st => do
    let p := sA st.sd
    let q := sB (-st.sd)
    let r ← distanceLoopStep solve p q st tolSq maxDistSq
    if r.gs = .unknown then gjkLoop solve sA sB tolSq maxDistSq fuel (it + 1) r.st
    else .ok (r.gs, r.st, it + 1)

/-- `gjk_distance_jolt(collider1, collider2, tolerance, max_distance_squared, sanity_check)`
with the support mappings of the two colliders as `sA`, `sB` -/
def gjkDistance (solve : Solver α) (bary : Bary α) (sA sB : V3 α → V3 α)
    (tolerance maxDistSq sanityCheck : α) (y0 : A4 (V3 α)) (fuel : Nat) :
    Except Err (Result α) := do
  let tolSq := tolerance * tolerance
  let st0 := gjkInit y0
  let (gs, st, it) ← gjkLoop solve sA sB tolSq maxDistSq fuel 0 st0
  if gs = .clipped then .ok ⟨true, MAXF, none, none, gs, st, it⟩
  else gjkFinish bary sanityCheck gs st it

/-- the default arguments of `gjk_distance_jolt` (regenerated from the source) -/
def gjkDistanceDefault (solve : Solver α) (bary : Bary α) (sA sB : V3 α → V3 α)
    (y0 : A4 (V3 α)) (fuel : Nat) : Except Err (Result α) :=
  gjkDistance solve bary sA sB D3.Gen.gjk__gjk_jolt__gjk_distance_jolt__tolerance
    D3.Gen.gjk__gjk_jolt__gjk_distance_jolt__max_distance_squared
    D3.Gen.gjk__gjk_jolt__gjk_distance_jolt__sanity_check y0 fuel

/-! ### the C18 models plugged in -/

/-- `get_closest_point_to_origin` of `D3.Model.Simplex` -/
def joltSolver : Solver α := fun Y n prev => do
  let r ← Simplex.getClosestPointToOrigin Y.toArray n prev
  .ok ⟨r.success, r.v, r.vLenSq, r.set⟩

/-- `get_barycentric_coordinates_line/plane/tetrahedron` of `D3.Model.Simplex` -/
def joltBary : Bary α where
  line a b := do
    let (u, v, _) ← Simplex.baryLine a b
    .ok (u, v)
  plane a b c := do
    let (u, v, w, _) ← Simplex.baryPlane a b c
    .ok (u, v, w)
  tetra a b c d := Simplex.baryTetra a b c d

end GjkJolt
end D3
