/-
Model of the POLYGON / SOLID family of `distance3d.distance` (core Lean only, scalar-polymorphic):

* `_triangle.py`  : `point_to_triangle` (Ericson's Voronoi regions), `_line_to_triangle`,
                    `line_to_triangle`, `line_segment_to_triangle`
* `_rectangle.py` : `point_to_rectangle`
* `_box.py`       : `point_to_box`
* `_disk.py`      : `point_to_disk`
* `_cylinder.py`  : `point_to_cylinder`
* `_circle.py`    : `point_to_circle`
plus the helpers they call (`norm_vector`, `plane_basis_from_normal`,
`convert_segment_to_line`, `_line_to_line_segment`, pytransform3d's
`perpendicular_to_vector`).

Faithful to the code that exists: same operation order, same comparisons (`<=` vs `<`),
same tolerances (default epsilons come from `D3.Gen` at the call sites in the driver and the
theorems), divisions are checked (`divZero` where Python would divide by zero), every case
analysis reports the path it took as a small `Nat`.
-/
import D3.Model.Vec

namespace D3
namespace DistPoly

/-- result of a point-to-primitive query: branch id, distance, closest point on the primitive -/
structure PtRes (α : Type) where
  branch : Nat
  dist : α
  cp : V3 α
  deriving Repr, Inhabited

/-- result of a (line|segment)-to-primitive query: branch id, distance, closest point on the
line / segment, closest point on the primitive, line parameter -/
structure LnRes (α : Type) where
  branch : Nat
  dist : α
  cpLine : V3 α
  cpPrim : V3 α
  t : α
  deriving Repr, Inhabited

scalar_variables

/-- IEEE-correct `x == 0.0` (`DecidableEq Float` is bitwise and would tell `-0.0` from `0.0`);
at `ℝ` this is `x = 0`. -/
def isZero (x : α) : Prop := ¬ (x < 0) ∧ ¬ (0 < x)

instance (x : α) : Decidable (isZero x) := by unfold isZero; exact inferInstance

/-- `np.clip(x, lo, hi)` = `minimum(maximum(x, lo), hi)` -/
def clip (x lo hi : α) : α := min (max x lo) hi

/-- which side of `np.clip` was active: 0 = clamped to `lo`, 1 = inside, 2 = clamped to `hi` -/
def clipBr (x lo hi : α) : Nat := if x < lo then 0 else if hi < x then 2 else 1

/-- the returned pair `(np.linalg.norm(point - closest_point), closest_point)` -/
def mkRes (br : Nat) (p cp : V3 α) : PtRes α := ⟨br, V3.norm (p - cp), cp⟩

/-! ### `_triangle.point_to_triangle` -/

/-- `point_to_triangle(point, triangle_points)`; branch ids: 0 vertex A, 1 vertex B, 2 edge AB,
3 vertex C, 4 edge AC, 5 edge BC, 6 face. -/
def pointToTriangle (p a b c : V3 α) : Except Err (PtRes α) :=
  let ab := b - a
  let ac := c - a
  let ap := p - a
  let d1 := V3.dot ab ap
  let d2 := V3.dot ac ap
  if d1 ≤ 0 ∧ d2 ≤ 0 then .ok (mkRes 0 p a) else
  let bp := p - b
  let d3 := V3.dot ab bp
  let d4 := V3.dot ac bp
  if 0 ≤ d3 ∧ d4 ≤ d3 then .ok (mkRes 1 p b) else
  let vc := d1 * d4 - d3 * d2
  if (vc ≤ 0 ∧ 0 ≤ d1) ∧ d3 ≤ 0 then
    if isZero (d1 - d3) then .error .divZero else
    let v := d1 / (d1 - d3)
    .ok (mkRes 2 p (a + v * ab))
  else
  let cp := p - c
  let d5 := V3.dot ab cp
  let d6 := V3.dot ac cp
  if 0 ≤ d6 ∧ d5 ≤ d6 then .ok (mkRes 3 p c) else
  let vb := d5 * d2 - d1 * d6
  if (vb ≤ 0 ∧ 0 ≤ d2) ∧ d6 ≤ 0 then
    if isZero (d2 - d6) then .error .divZero else
    let w := d2 / (d2 - d6)
    .ok (mkRes 4 p (a + w * ac))
  else
  let va := d3 * d6 - d5 * d4
  if (va ≤ 0 ∧ 0 ≤ d4 - d3) ∧ 0 ≤ d5 - d6 then
    if isZero ((d4 - d3) + (d5 - d6)) then .error .divZero else
    let w := (d4 - d3) / ((d4 - d3) + (d5 - d6))
    .ok (mkRes 5 p (b + w * (c - b)))
  else
  if isZero (va + vb + vc) then .error .divZero else
  let denom := 1 / (va + vb + vc)
  let v := vb * denom
  let w := vc * denom
  .ok (mkRes 6 p (a + v * ab + w * ac))

/-! ### `_rectangle.point_to_rectangle` -/

/-- `point_to_rectangle(point, rectangle_center, rectangle_axes, rectangle_lengths)`;
branch id `3 * side(axis 0) + side(axis 1)` with side 0/1/2 = below / inside / above. -/
def pointToRectangle (p c ax0 ax1 : V3 α) (l0 l1 : α) : Except Err (PtRes α) :=
  let diff := p - c
  let e0 := V3.dot ax0 diff
  let e1 := V3.dot ax1 diff
  let h0 := 0.5 * l0
  let h1 := 0.5 * l1
  let s0 := clip e0 (-h0) h0
  let s1 := clip e1 (-h1) h1
  -- `rectangle_coordinates.dot(rectangle_axes)` : component j = s0 * ax0[j] + s1 * ax1[j]
  let cp := c + (s0 * ax0 + s1 * ax1)
  .ok (mkRes (3 * clipBr e0 (-h0) h0 + clipBr e1 (-h1) h1) p cp)

/-! ### `_box.point_to_box` -/

/-- `inverse_transform_point(A2B, p)` = `RT.dot(p) - RT.dot(t)` (two products, as the code) -/
def inverseTransformPoint (A : Pose α) (p : V3 α) : V3 α := A.R.tmulVec p - A.R.tmulVec A.t

/-- `point_to_box(point, box2origin, size)`; branch id `9 s0 + 3 s1 + s2`. -/
def pointToBox (p : V3 α) (A : Pose α) (size : V3 α) : Except Err (PtRes α) :=
  let q := inverseTransformPoint A p
  let hx := 0.5 * size.x
  let hy := 0.5 * size.y
  let hz := 0.5 * size.z
  let qc : V3 α := ⟨clip q.x (-hx) hx, clip q.y (-hy) hy, clip q.z (-hz) hz⟩
  let cp := A.t + A.R.mulVec qc
  .ok (mkRes (9 * clipBr q.x (-hx) hx + 3 * clipBr q.y (-hy) hy + clipBr q.z (-hz) hz) p cp)

/-! ### `_disk.point_to_disk` -/

/-- `point_to_disk(point, center, radius, normal)`; branch ids: 0 point on the axis
(`length == 0`), 1 projection inside the disk (`min` picks 1), 2 outside (`min` picks `t`). -/
def pointToDisk (p c : V3 α) (radius : α) (n : V3 α) : Except Err (PtRes α) :=
  let diff := p - c
  let dtp := V3.dot diff n
  let dip := diff - dtp * n
  let sqrLen := V3.dot dip dip
  let len := sqrt sqrLen
  let t := if isZero len then radius else radius / len
  let cp := c + (min 1 t) * dip
  .ok (mkRes (if isZero len then 0 else if 1 ≤ t then 1 else 2) p cp)

/-! ### `_cylinder.point_to_cylinder` -/

/-- `point_to_cylinder(point, cylinder2origin, radius, length)`;
branch id `3 * radial + axial`, radial as in `pointToDisk`, axial = side of the clip. -/
def pointToCylinder (p : V3 α) (A : Pose α) (radius length : α) : Except Err (PtRes α) :=
  let axis := A.R.col2
  let diff := p - A.t
  let dtp := V3.dot diff axis
  let dip := diff - dtp * axis
  let sqrLen := V3.dot dip dip
  let len := sqrt sqrLen
  let t := if isZero len then radius else radius / len
  let lo := -(0.5 * length)
  let hi := 0.5 * length
  let cp := A.t + (min 1 t) * dip + (clip dtp lo hi) * axis
  .ok (mkRes (3 * (if isZero len then 0 else if 1 ≤ t then 1 else 2) + clipBr dtp lo hi) p cp)

/-! ### `_circle.point_to_circle` -/

/-- threshold of pytransform3d's `perpendicular_to_vector` (`pytransform3d.rotations.eps`);
external library, not regenerated from /repo -/
def pt3dEps : α := 1e-7

/-- `pytransform3d.rotations.perpendicular_to_vector` -/
def perpendicularToVector (a : V3 α) : Except Err (V3 α) :=
  if absS a.z < pt3dEps then .ok ⟨0, 0, 1⟩
  else if isZero a.z then .error .divZero   -- unreachable (|a.z| ≥ eps), kept for faithfulness
  else .ok ⟨1, 0, (-a.x) / a.z⟩

/-- `utils.norm_vector` -/
def normVector (v : V3 α) : V3 α :=
  let n := V3.norm v
  if isZero n then v else V3.sdiv v n

/-- body shared by the current and the pre-fix `point_to_circle`: `thr` is the threshold the
squared in-plane offset `sqr_len` is compared with.  Branch ids: 0 general (`sqr_len >= thr`),
1 treated as lying on the axis. -/
def pointToCircleThr (p c : V3 α) (radius : α) (n : V3 α) (thr : α) : Except Err (PtRes α) :=
  let diff := p - c
  let dtp := V3.dot diff n
  let dip := diff - dtp * n
  let sqrLen := V3.dot dip dip
  if thr ≤ sqrLen then
    let s := sqrt sqrLen
    if isZero s then .error .divZero else
    let cp := c + (radius / s) * dip
    .ok (mkRes 0 p cp)
  else do
    let perp ← perpendicularToVector n
    let pd := normVector perp
    let cp := c + radius * pd
    .ok ⟨1, sqrt (radius * radius + dtp * dtp), cp⟩

/-- `point_to_circle(point, center, radius, normal, epsilon)` as of /repo commit 0e4a1a6:
`if sqr_len >= epsilon * epsilon:` -/
def pointToCircle (p c : V3 α) (radius : α) (n : V3 α) (epsilon : α) : Except Err (PtRes α) :=
  pointToCircleThr p c radius n (epsilon * epsilon)

/-- the code before that fix: `if sqr_len >= epsilon:` (a squared length compared with a length
tolerance, so every point within `sqrt epsilon = 1e-3` of the axis counted as on the axis) -/
def pointToCircle_asIs_before_fix (p c : V3 α) (radius : α) (n : V3 α) (epsilon : α) :
    Except Err (PtRes α) :=
  pointToCircleThr p c radius n epsilon

/-! ### helpers of the line / segment functions -/

/-- `geometry.convert_segment_to_line` : unit direction (or 0) and length -/
def convertSegmentToLine (s e : V3 α) : V3 α × α :=
  let d := e - s
  let len := V3.norm d
  if 0 < len then (V3.sdiv d len, len) else (d, len)

/-- `utils.plane_basis_from_normal` -/
def planeBasisFromNormal (n : V3 α) : Except Err (V3 α × V3 α) :=
  if absS n.y ≤ absS n.x then
    let length := sqrt (n.x * n.x + n.z * n.z)
    if isZero length then .error .divZero else
    let x : V3 α := ⟨(-n.z) / length, 0, n.x / length⟩
    let y : V3 α := ⟨n.y * x.z, n.z * x.x - n.x * x.z, (-n.y) * x.x⟩
    .ok (x, y)
  else
    let length := sqrt (n.y * n.y + n.z * n.z)
    if isZero length then .error .divZero else
    let x : V3 α := ⟨0, n.z / length, (-n.y) / length⟩
    let y : V3 α := ⟨n.y * x.z - n.z * x.y, (-n.x) * x.z, n.x * x.y⟩
    .ok (x, y)

/-- `_line._line_to_line_segment(line_point, line_direction, segment_start, segment_end, epsilon)`.
Returns (branch, dist, closest point on line, closest point on segment, t, s); branch ids:
0 both degenerate, 1 segment degenerate, 2 line direction degenerate, 3 general non-parallel,
4 parallel (`denom == 0`). -/
def lineToLineSegment (lp ld ss se : V3 α) (epsilon : α) :
    Except Err (Nat × α × V3 α × V3 α × α × α) :=
  let d := se - ss
  let a := V3.dot d d
  let e := V3.dot ld ld
  if a < epsilon ∧ e < epsilon then
    -- (the code returns the points in swapped order here)
    .ok (0, V3.norm (lp - ss), ss, lp, 0, 0)
  else
  let r := ss - lp
  let f := V3.dot ld r
  if a < epsilon then
    if isZero e then .error .divZero else
    let s : α := 0
    let t := f / e
    let cp1 := lp + t * ld
    let cp2 := ss + s * d
    .ok (1, V3.norm (cp2 - cp1), cp1, cp2, t, s)
  else
  let c := V3.dot d r
  if e ≤ epsilon then
    if isZero a then .error .divZero else
    let t : α := 0
    let s := min (max ((-c) / a) 0) 1
    let cp1 := lp + t * ld
    let cp2 := ss + s * d
    .ok (2, V3.norm (cp2 - cp1), cp1, cp2, t, s)
  else
  let b := V3.dot d ld
  let denom := a * e - b * b
  if isZero e then .error .divZero else
  if ¬ isZero denom then
    let s := min (max ((b * f - c * e) / denom) 0) 1
    let t := (b * s + f) / e
    let cp1 := lp + t * ld
    let cp2 := ss + s * d
    .ok (3, V3.norm (cp2 - cp1), cp1, cp2, t, s)
  else
    let s : α := 0
    let t := (b * s + f) / e
    let cp1 := lp + t * ld
    let cp2 := ss + s * d
    .ok (4, V3.norm (cp2 - cp1), cp1, cp2, t, s)

/-! ### `_triangle._line_to_triangle`, `line_to_triangle`, `line_segment_to_triangle` -/

/-- the edge loop of `_line_to_triangle`: edges (C,A), (A,B), (B,C) in this order, strict `<`
against the running best that starts at `MAX_FLOAT` (`maxFloat`).  `none` = nothing was
smaller than `MAX_FLOAT` (Python: `UnboundLocalError`). -/
def triEdgeLoop (lp ld a b c : V3 α) (epsilon maxFloat : α) : Except Err (LnRes α) := do
  let r0 ← lineToLineSegment lp ld c a epsilon
  let r1 ← lineToLineSegment lp ld a b epsilon
  let r2 ← lineToLineSegment lp ld b c epsilon
  let step (best : Option (LnRes α)) (bestD : α) (k : Nat)
      (r : Nat × α × V3 α × V3 α × α × α) : Option (LnRes α) × α :=
    if r.2.1 < bestD then (some ⟨10 + 5 * k + r.1, r.2.1, r.2.2.1, r.2.2.2.1, r.2.2.2.2.1⟩, r.2.1)
    else (best, bestD)
  let (b0, d0) := step none maxFloat 0 r0
  let (b1, d1) := step b0 d0 1 r1
  let (b2, _) := step b1 d1 2 r2
  match b2 with
  | some r => .ok r
  | none => .error .assertFail

/-- `_line_to_triangle(line_point, line_direction, triangle_points, epsilon)`; branch id 0 =
the line pierces the triangle, `10 + 5 k + j` = edge `k` (0: CA, 1: AB, 2: BC) is the best,
reached through branch `j` of `_line_to_line_segment`. -/
def lineToTriangleFull (lp ld a b c : V3 α) (epsilon maxFloat : α) : Except Err (LnRes α) := do
  let e0 := b - a
  let e1 := c - a
  let normal := normVector (V3.cross e0 e1)
  if epsilon < absS (V3.dot normal ld) then
    let diff := lp - a
    let (u, v) ← planeBasisFromNormal ld
    let ude0 := V3.dot e0 u
    let ude1 := V3.dot e1 u
    let vde0 := V3.dot e0 v
    let vde1 := V3.dot e1 v
    let uddiff := V3.dot u diff
    let vddiff := V3.dot v diff
    let det := ude0 * vde1 - ude1 * vde0
    let b0r := vde1 * uddiff - ude1 * vddiff
    let b1r := ude0 * vddiff - vde0 * uddiff
    let b0 := if ¬ isZero det then b0r / det else b0r
    let b1 := if ¬ isZero det then b1r / det else b1r
    let b2 := 1 - b0 - b1
    if (0 ≤ b2 ∧ 0 ≤ b0) ∧ 0 ≤ b1 then
      let dde0 := V3.dot e0 ld
      let dde1 := V3.dot e1 ld
      let dddiff := V3.dot ld diff
      let t := (b0 * dde0 + b1 * dde1) - dddiff
      let cpl := lp + t * ld
      -- `b.dot(edge)` : component j = b0 * e0[j] + b1 * e1[j]
      let cpt := a + (b0 * e0 + b1 * e1)
      .ok ⟨0, 0, cpl, cpt, t⟩
    else triEdgeLoop lp ld a b c epsilon maxFloat
  else triEdgeLoop lp ld a b c epsilon maxFloat

/-- `line_segment_to_triangle(segment_start, segment_end, triangle_points, epsilon)`;
branch id: that of `_line_to_triangle` when the line parameter lies in the segment,
`100 + b` / `200 + b` when clamped to the start / end point (`b` = branch of `point_to_triangle`). -/
def lineSegmentToTriangle (s e a b c : V3 α) (epsilon maxFloat : α) : Except Err (LnRes α) := do
  let (dir, len) := convertSegmentToLine s e
  let r ← lineToTriangleFull s dir a b c epsilon maxFloat
  if r.t < 0 then
    let q ← pointToTriangle s a b c
    .ok ⟨100 + q.branch, q.dist, s, q.cp, r.t⟩
  else if len < r.t then
    let q ← pointToTriangle e a b c
    .ok ⟨200 + q.branch, q.dist, e, q.cp, r.t⟩
  else .ok r

end DistPoly
end D3
