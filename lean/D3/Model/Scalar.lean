/-
Scalar vocabulary of the executable model.

Every numeric model function is written once over an arbitrary scalar `α` with the
standard arithmetic classes left *unbundled*, so that the very same term can be used at
`Float` (driver, compared with the implementation), `Rat` (driver, exact arbitration) and
`ℝ` (theorems; Mathlib's own instances are picked up, so `ring`/`nlinarith` work).
This file is core Lean only (no Mathlib).
-/
namespace D3

/-- what the code takes from `math.sqrt` / `np.sqrt` -/
class HasSqrt (α : Type) where
  sqrt : α → α

/-- `math.atan2`, `np.arctan2` -/
class HasAtan2 (α : Type) where
  atan2 : α → α → α

/-- `math.sin`, `math.cos` -/
class HasTrig (α : Type) where
  sin : α → α
  cos : α → α

export HasSqrt (sqrt)
export HasAtan2 (atan2)

/-- errors the Python code can raise (or silently commit under numba) -/
inductive Err where
  | divZero | sqrtNeg | indexOOB | keyError | assertFail | typeErr | attrErr | fuel | badInput
  deriving Repr, DecidableEq, Inhabited

def Err.toString : Err → String
  | .divZero => "divZero" | .sqrtNeg => "sqrtNeg" | .indexOOB => "indexOOB"
  | .keyError => "keyError" | .assertFail => "assertFail" | .typeErr => "typeErr"
  | .attrErr => "attrErr" | .fuel => "fuel" | .badInput => "badInput"

instance : ToString Err := ⟨Err.toString⟩

set_option hygiene false in
/-- declares the scalar type `α` with all unbundled classes the model uses -/
macro "scalar_variables" : command =>
  `(variable {α : Type} [Add α] [Sub α] [Mul α] [Div α] [Neg α] [LT α] [LE α]
      [DecidableLT α] [DecidableLE α] [DecidableEq α]
      [OfNat α 0] [OfNat α 1] [OfNat α 2] [OfScientific α] [Min α] [Max α] [HasSqrt α])

instance : HasSqrt Float := ⟨Float.sqrt⟩
instance : HasAtan2 Float := ⟨Float.atan2⟩
instance : HasTrig Float := ⟨Float.sin, Float.cos⟩

/-- Exact rational square root when the argument is a perfect square of a rational;
otherwise a Newton enclosure (flagged approximate by the driver; no theorem mentions it). -/
def ratSqrt (q : Rat) : Rat :=
  if q ≤ 0 then 0 else
    let n := q.num.toNat
    let d := q.den
    let sn := Nat.sqrt n
    let sd := Nat.sqrt d
    if sn * sn = n ∧ sd * sd = d then (sn : Rat) / (sd : Rat) else
      -- 60 Newton steps from a start above the root, truncated denominators
      let x0 : Rat := ((Nat.sqrt (n / d + 1) + 1 : Nat) : Rat)
      let step (x : Rat) : Rat :=
        let y := (x + q / x) / 2
        -- keep the representation small: round to 2^-200
        let s : Nat := 2 ^ 200
        (((y * (s : Rat)).floor : Int) : Rat) / (s : Rat)
      Nat.rec x0 (fun _ x => step x) 60

instance : HasSqrt Rat := ⟨ratSqrt⟩

/-- absolute value as the code computes it (`abs`, `np.abs`, `math.fabs`) -/
def absS {α : Type} [Neg α] [LT α] [DecidableLT α] [OfNat α 0] (x : α) : α :=
  if x < 0 then -x else x

/-- `np.sign` : −1, 0, 1 -/
def signS {α : Type} [Neg α] [LT α] [DecidableLT α] [OfNat α 0] [OfNat α 1] (x : α) : α :=
  if x < 0 then -1 else if 0 < x then 1 else 0

end D3
