/-
Abstract loop models for C19 (core Lean only, executable).

* `runCapped` — the shape of every iteration-capped loop in the library
  (`for _ in range(cap)`, `while …: …; it += 1; if it >= cap: break`, `while i < cap`).
* `distStep` / `interStep` — the *exit logic* of `_gjk_jolt._distance_loop` and
  `_gjk_jolt._intersection_loop`, abstracted to the scalars the tests look at: the previous
  squared length, the solver's answer (success flag, new squared length, "simplex = 0xf"),
  `max|Y|²` and the clipping test's inputs.  The geometry is not here (it is in the C01/C02
  models); what is here is exactly what decides whether the `while True` loop goes round again.
* `hillClimb` — mesh support hill climbing over an abstract finite graph.
-/
import D3.Model.Scalar

namespace D3
namespace Term

/-- capped loop: the body returns the new state and whether the loop continues; returns the
final state and the number of times the body ran -/
def runCapped {σ : Type} (body : σ → σ × Bool) : Nat → σ → Nat → σ × Nat
  | 0, s, n => (s, n)
  | cap + 1, s, n =>
    let r := body s
    if r.2 then runCapped body cap r.1 (n + 1) else (r.1, n + 1)

inductive Exit where
  | unknown | intersection | noIntersection | clipped
  deriving Repr, DecidableEq

def Exit.toString : Exit → String
  | .unknown => "Unknown" | .intersection => "Intersection"
  | .noIntersection => "NoIntersection" | .clipped => "Clipped"

scalar_variables

/-- what one iteration of the Jolt loops observes -/
structure StepIn (α : Type) where
  /-- `search_direction · support_point` -/
  dot : α
  /-- the solver produced a candidate (it returns `False, None, …` otherwise; recorded flag) -/
  success : Bool
  /-- the solver's candidate squared length `v_len_sq` (meaningful if `success`) -/
  vNew : α
  /-- `simplex == 0xf` -/
  full : Bool
  /-- `max_y_length_squared(Y, n_points)` after the simplex update -/
  maxY : α

/-- `get_closest_point_to_origin` reports success iff `v_len_sq < prev_v_len_sqr` -/
def succeeded (prev : α) (s : StepIn α) : Bool := s.success && decide (s.vNew < prev)

/-- `v_len_sq` after the solver call: updated on success, kept otherwise -/
def vAfter (prev v : α) (s : StepIn α) : α := if succeeded prev s then s.vNew else v

/-- exit logic of `_distance_loop`; returns (state, prev_v_len_sq', v_len_sq') -/
def distStep (eps tolSq maxDistSq : α) (prev v : α) (s : StepIn α) : Exit × α × α :=
  if s.dot < 0 ∧ v * maxDistSq < s.dot * s.dot then (.clipped, prev, v)
  else if succeeded prev s ∧ s.full then (.intersection, prev, 0)
  else if vAfter prev v s ≤ tolSq then (.intersection, prev, 0)
  else if vAfter prev v s ≤ eps * s.maxY then (.intersection, prev, 0)
  else if prev - vAfter prev v s ≤ eps * prev then (.noIntersection, prev, vAfter prev v s)
  else (.unknown, vAfter prev v s, vAfter prev v s)

/-- exit logic of `_intersection_loop`; returns (state, prev_v_len_sq') -/
def interStep (eps tolSq : α) (prev : α) (s : StepIn α) : Exit × α :=
  if s.dot < -eps then (.noIntersection, prev)
  else if !succeeded prev s then (.noIntersection, prev)
  else if s.full then (.intersection, prev)
  else if s.vNew ≤ tolSq then (.intersection, prev)
  else if s.vNew ≤ eps * s.maxY then (.intersection, prev)
  else if prev - s.vNew ≤ eps * prev then (.noIntersection, prev)
  else (.unknown, s.vNew)

/-- run the distance-loop exit logic over a recorded list of observations; returns the exit
state and the number of iterations executed (`unknown` = the record ended before an exit) -/
def distRun (eps tolSq maxDistSq : α) : α → α → List (StepIn α) → Nat → Exit × Nat
  | _, _, [], n => (.unknown, n)
  | prev, v, s :: ss, n =>
    match distStep eps tolSq maxDistSq prev v s with
    | (.unknown, prev', v') => distRun eps tolSq maxDistSq prev' v' ss (n + 1)
    | (e, _, _) => (e, n + 1)

def interRun (eps tolSq : α) : α → List (StepIn α) → Nat → Exit × Nat
  | _, [], n => (.unknown, n)
  | prev, s :: ss, n =>
    match interStep eps tolSq prev s with
    | (.unknown, prev') => interRun eps tolSq prev' ss (n + 1)
    | (e, _) => (e, n + 1)

/-- mesh hill climbing over an abstract graph (code after repair e900ae9): `proj i` is the ONE
computed projection of vertex `i` on the search direction, `nbrs i` its neighbours; move to the
first neighbour `j` with `proj j - proj i > thr` (the test of `mesh.py`), stop when none passes.
Returns the final vertex and the number of moves; `none` = out of fuel. -/
def hillClimb (proj : Nat → α) (nbrs : Nat → List Nat) (thr : α) : Nat → Nat → Nat → Option (Nat × Nat)
  | 0, _, _ => none
  | fuel + 1, i, moves =>
    match (nbrs i).find? (fun j => decide (thr < proj j - proj i)) with
    | some j => hillClimb proj nbrs thr fuel j (moves + 1)
    | none => some (i, moves)

/-- the climb before the repair: the improvement is a separately computed quantity `gain i j`
(`fl(d · fl(v_j − v_i))` in the code) that need not be a difference of per-vertex values -/
def hillClimb_asIs_before_fix (gain : Nat → Nat → α) (nbrs : Nat → List Nat) (thr : α) :
    Nat → Nat → Nat → Option (Nat × Nat)
  | 0, _, _ => none
  | fuel + 1, i, moves =>
    match (nbrs i).find? (fun j => decide (thr < gain i j)) with
    | some j => hillClimb_asIs_before_fix gain nbrs thr fuel j (moves + 1)
    | none => some (i, moves)

end Term
end D3
