/-
Model of the force part of `distance3d/hydroelastic_contact` (core Lean only):

* `_rigid_body.py`   : `RigidBody` state (pose, vertices, tetrahedra, potentials and the four
                       caches `_tetrahedra_points/_com/_aabbs/_aabb_tree`), `express_in`,
                       `update_pose`, the cached properties `tetrahedra_points`,
                       `tetrahedra_potentials`, `aabbs`, `aabb_tree`, `com`;
* `_mesh_processing.py` : `tetrahedral_mesh_aabbs`, `tetrahedral_mesh_volumes`,
                       `center_of_mass_tetrahedral_mesh`;
* `_interface.py`    : `find_contact_surface` (both broad phases), `contact_forces`;
* `_forces.py`       : `accumulate_wrenches`, `_transform_wrenches` (as it is NOW) and the version
                       before the repair (`…_asIs_before_fix`, transpose of the twist adjoint);
* `utils.py`         : `invert_transform`, `transform_points`, `cross_product_matrix`,
                       `adjoint_from_transform`.

The per-pair narrow phase (`intersect_tetrahedron_pair` + `compute_contact_force`, property C15)
is an abstract PARAMETER `PairFn`: any function from two tetrahedra with their vertex potentials
(coordinates in the frame of body 2) to an optional (contact centre, force vector).  Nothing is
assumed about it here; theorems state the contract they need explicitly.

The broad phases are the C05 model: brute force `all_aabbs_overlap` = `D3.Aabb.allPairs`,
tree = `D3.Aabb.queryTree`.
-/
import D3.Model.Vec
import D3.Model.AabbTree

namespace D3
namespace HydroForce
open Aabb

/-- one row of `tetrahedra_points` (shape (4,3)) -/
structure Tet (α : Type) where
  p0 : V3 α
  p1 : V3 α
  p2 : V3 α
  p3 : V3 α
  deriving Repr, DecidableEq, Inhabited

/-- one row of `tetrahedra_potentials` (shape (4,)) -/
structure Eps (α : Type) where
  e0 : α
  e1 : α
  e2 : α
  e3 : α
  deriving Repr, DecidableEq, Inhabited

/-- a 6-vector `hstack((force, torque))` -/
structure Wrench (α : Type) where
  f : V3 α
  t : V3 α
  deriving Repr, DecidableEq, Inhabited

/-- 6×6 matrix as four 3×3 blocks (`adj[:3,:3]`, `adj[:3,3:]`, `adj[3:,:3]`, `adj[3:,3:]`) -/
structure Adj (α : Type) where
  tl : M3 α
  tr : M3 α
  bl : M3 α
  br : M3 α
  deriving Repr, DecidableEq, Inhabited

/-- one intersecting tetrahedron pair of a `ContactSurface`:
`intersecting_tetrahedra1[k]`, `intersecting_tetrahedra2[k]`, `contact_coms[k]`, `contact_forces[k]` -/
structure Contact (α : Type) where
  i : Nat
  j : Nat
  com : V3 α
  force : V3 α
  deriving Repr, DecidableEq, Inhabited

/-- the part of `ContactSurface` that the force computation reads -/
structure ContactSurface (α : Type) where
  frame2world : Pose α
  intersection : Bool
  contacts : List (Contact α)
  deriving Repr

/-- `RigidBody` -/
structure Body (α : Type) where
  pose : Pose α                          -- body2origin_
  verts : List (V3 α)                    -- vertices_
  tets : List (Nat × Nat × Nat × Nat)    -- tetrahedra_
  pots : List α                          -- potentials_
  cTetPts : Option (List (Tet α))        -- _tetrahedra_points
  cCom : Option (V3 α)                   -- _com
  cAabbs : Option (List (Box α))         -- _aabbs
  cTree : Option (Core α)                -- _aabb_tree (the jitted part of the AabbTree)
  deriving Repr

/-- the abstract narrow phase: tetrahedron 1, its potentials, tetrahedron 2, its potentials
(all in the frame of body 2; Young's moduli are part of the closure) ↦ `none` (not intersecting)
or `some (contact com, force vector)` -/
abbrev PairFn (α : Type) := Tet α → Eps α → Tet α → Eps α → Option (V3 α × V3 α)

scalar_variables

/-! ### utils.py -/

/-- `invert_transform` : `[[Rᵀ, −Rᵀ t], [0, 1]]` -/
def invertTransform (A : Pose α) : Pose α := ⟨A.R.transpose, -(A.R.tmulVec A.t)⟩

/-- `np.dot(A, B)` of two homogeneous matrices with last rows `[0,0,0,1]` -/
def matMul4 (A B : Pose α) : Pose α := ⟨A.R.mul B.R, A.R.mulVec B.t + A.t⟩

/-- `transform_points` : `points.dot(R.T) + t` row by row -/
def transformPoints (A : Pose α) (ps : List (V3 α)) : List (V3 α) := ps.map fun p => A.R.mulVec p + A.t

/-- `cross_product_matrix` -/
def crossProductMatrix (v : V3 α) : M3 α :=
  ⟨⟨0, -v.z, v.y⟩, ⟨v.z, 0, -v.x⟩, ⟨-v.y, v.x, 0⟩⟩

def zeroM3 : M3 α := ⟨⟨0, 0, 0⟩, ⟨0, 0, 0⟩, ⟨0, 0, 0⟩⟩

/-- `adjoint_from_transform` -/
def adjointFromTransform (A : Pose α) : Adj α :=
  { tl := A.R, tr := zeroM3, bl := (crossProductMatrix A.t).mul A.R, br := A.R }

/-- `adj.T.dot(hstack((f, t)))` -/
def Adj.transposeMulWrench (a : Adj α) (w : Wrench α) : Wrench α :=
  ⟨a.tl.tmulVec w.f + a.bl.tmulVec w.t, a.tr.tmulVec w.f + a.br.tmulVec w.t⟩

/-! ### _rigid_body.py -/

/-- checked list read (`IndexError`) -/
def rdL {β : Type} (l : List β) (i : Nat) : Except Err β :=
  match l[i]? with
  | some x => .ok x
  | none => .error .indexOOB

/-- `RigidBody.__init__` : all caches `None` -/
def Body.mk' (pose : Pose α) (verts : List (V3 α)) (tets : List (Nat × Nat × Nat × Nat))
    (pots : List α) : Body α :=
  { pose := pose, verts := verts, tets := tets, pots := pots,
    cTetPts := none, cCom := none, cAabbs := none, cTree := none }

/-- `vertices_[tetrahedra_]` -/
def gatherTets (verts : List (V3 α)) : List (Nat × Nat × Nat × Nat) → Except Err (List (Tet α))
  | [] => .ok []
  | (a, b, c, d) :: rest => do
    let pa ← rdL verts a
    let pb ← rdL verts b
    let pc ← rdL verts c
    let pd ← rdL verts d
    let tail ← gatherTets verts rest
    pure (⟨pa, pb, pc, pd⟩ :: tail)

/-- `potentials_[tetrahedra_]` (property `tetrahedra_potentials`, not cached) -/
def gatherEps (pots : List α) : List (Nat × Nat × Nat × Nat) → Except Err (List (Eps α))
  | [] => .ok []
  | (a, b, c, d) :: rest => do
    let ea ← rdL pots a
    let eb ← rdL pots b
    let ec ← rdL pots c
    let ed ← rdL pots d
    let tail ← gatherEps pots rest
    pure (⟨ea, eb, ec, ed⟩ :: tail)

def min4 (a b c d : α) : α := min (min (min a b) c) d
def max4 (a b c d : α) : α := max (max (max a b) c) d

/-- one row of `tetrahedral_mesh_aabbs` -/
def tetAabb (t : Tet α) : Box α :=
  { lo0 := min4 t.p0.x t.p1.x t.p2.x t.p3.x, hi0 := max4 t.p0.x t.p1.x t.p2.x t.p3.x,
    lo1 := min4 t.p0.y t.p1.y t.p2.y t.p3.y, hi1 := max4 t.p0.y t.p1.y t.p2.y t.p3.y,
    lo2 := min4 t.p0.z t.p1.z t.p2.z t.p3.z, hi2 := max4 t.p0.z t.p1.z t.p2.z t.p3.z }

/-- `tetrahedral_mesh_aabbs` -/
def tetrahedralMeshAabbs (tp : List (Tet α)) : List (Box α) := tp.map tetAabb

/-- one entry of `tetrahedral_mesh_volumes` : `|((p1−p0)×(p2−p0))·(p3−p0)| / 6` -/
def tetVolume (t : Tet α) : α :=
  let c := V3.cross (t.p1 - t.p0) (t.p2 - t.p0)
  let e := t.p3 - t.p0
  absS (c.x * e.x + c.y * e.y + c.z * e.z) / (2 + 2 + 2)

/-- `tetrahedra_points.mean(axis=1)` row -/
def tetCenter (t : Tet α) : V3 α := V3.sdiv (t.p0 + t.p1 + t.p2 + t.p3) (2 + 2)

/-- sum of a list of vectors, left to right starting from zero -/
def sumV (l : List (V3 α)) : V3 α := l.foldl (· + ·) V3.zero

def sumS (l : List α) : α := l.foldl (· + ·) 0

/-- `center_of_mass_tetrahedral_mesh` : `dot(volumes, centers) / sum(volumes)`; a zero total
volume (numpy: nan with a warning) is `divZero` -/
def centerOfMass (tp : List (Tet α)) : Except Err (V3 α) :=
  let vols := tp.map tetVolume
  let tot := sumS vols
  if tot = 0 then .error .divZero
  else .ok (V3.sdiv (sumV (tp.map fun t => V3.smul (tetVolume t) (tetCenter t))) tot)

/-- the sorted single-batch tree `AabbTree().insert_aabbs(aabbs, pre_insertion_methode="sort")`
(`np.argsort` ties: stable order, see C05) -/
def buildTree (boxes : List (Box α)) : Except Err (Core α) := do
  let t ← Tree.insertAabbs insertOrderFixed Tree.empty boxes none Mode.sort []
  pure t.core

/-- property `tetrahedra_points` (fills `_tetrahedra_points`) -/
def Body.tetrahedraPoints (b : Body α) : Except Err (List (Tet α) × Body α) :=
  match b.cTetPts with
  | some t => .ok (t, b)
  | none => do
    let t ← gatherTets b.verts b.tets
    pure (t, { b with cTetPts := some t })

/-- property `tetrahedra_potentials` -/
def Body.tetrahedraPotentials (b : Body α) : Except Err (List (Eps α)) := gatherEps b.pots b.tets

/-- property `com` (fills `_com`, and `_tetrahedra_points` through `tetrahedra_points`) -/
def Body.com (b : Body α) : Except Err (V3 α × Body α) :=
  match b.cCom with
  | some c => .ok (c, b)
  | none => do
    let (tp, b) ← b.tetrahedraPoints
    let c ← centerOfMass tp
    pure (c, { b with cCom := some c })

/-- property `aabbs` (fills `_aabbs`) -/
def Body.aabbs (b : Body α) : Except Err (List (Box α) × Body α) :=
  match b.cAabbs with
  | some a => .ok (a, b)
  | none => do
    let (tp, b) ← b.tetrahedraPoints
    let a := tetrahedralMeshAabbs tp
    pure (a, { b with cAabbs := some a })

/-- property `aabb_tree` (fills `_aabb_tree`) -/
def Body.aabbTree (b : Body α) : Except Err (Core α × Body α) :=
  match b.cTree with
  | some c => .ok (c, b)
  | none => do
    let (a, b) ← b.aabbs
    let c ← buildTree a
    pure (c, { b with cTree := some c })

/-- `express_in` : vertices ↦ `(new_body2origin⁻¹ · body2origin_) · vertices`, pose := new pose,
all four caches reset -/
def Body.expressIn (b : Body α) (newPose : Pose α) : Body α :=
  let origin2new := invertTransform newPose
  let body2new := matMul4 origin2new b.pose
  { b with verts := transformPoints body2new b.verts, pose := newPose,
           cTetPts := none, cCom := none, cAabbs := none, cTree := none }

/-- `express_in` with the cache reset of `_aabbs` / `_aabb_tree` forgotten — NOT the code; used
only to show that the reset is necessary (`stale_cache_counterexample`) -/
def Body.expressIn_noReset (b : Body α) (newPose : Pose α) : Body α :=
  let body2new := matMul4 (invertTransform newPose) b.pose
  { b with verts := transformPoints body2new b.verts, pose := newPose, cTetPts := none, cCom := none }

/-- `update_pose` (artist aside): only the pose changes; vertices are body-frame, caches stay -/
def Body.updatePose (b : Body α) (pose : Pose α) : Body α := { b with pose := pose }

/-! ### _interface.py -/

/-- `all_aabbs_overlap(...)[2]` -/
def broadBrute (a1 a2 : List (Box α)) : List (Nat × Nat) := allPairs a1 a2

/-- pairs of `overlaps_aabb_tree` used as array indices: a negative index would wrap in Python
and is flagged here -/
def pairsToNat : List (Int × Int) → Except Err (List (Nat × Nat))
  | [] => .ok []
  | (i, j) :: rest =>
    if i < 0 ∨ j < 0 then .error .indexOOB
    else do
      let tail ← pairsToNat rest
      pure ((i.toNat, j.toNat) :: tail)

/-- `rigid_body1.aabb_tree.overlaps_aabb_tree(rigid_body2.aabb_tree)[3]` -/
def broadTree (c1 c2 : Core α) : Except Err (List (Nat × Nat)) := do
  let ps ← queryTree c1 c2
  pairsToNat ps

/-- the loop of `intersect_tetrahedron_pairs` followed by `contact_surface_forces`:
for every broad-phase pair read both tetrahedra and their potentials, call the narrow phase,
keep the intersecting ones in order -/
def narrowPhase (pairFn : PairFn α) (tp1 : List (Tet α)) (ep1 : List (Eps α))
    (tp2 : List (Tet α)) (ep2 : List (Eps α)) : List (Nat × Nat) → Except Err (List (Contact α))
  | [] => .ok []
  | (i, j) :: rest => do
    let t1 ← rdL tp1 i
    let e1 ← rdL ep1 i
    let t2 ← rdL tp2 j
    let e2 ← rdL ep2 j
    let tail ← narrowPhase pairFn tp1 ep1 tp2 ep2 rest
    match pairFn t1 e1 t2 e2 with
    | some (c, f) => pure (⟨i, j, c, f⟩ :: tail)
    | none => pure tail

/-- the broad-phase choice of `find_contact_surface` (body 1 already re-expressed).
(Before the repair "overlaps_aabb_tree returned float index arrays when nothing overlaps" an empty
tree result raised IndexError, see `broadCore_asIs_before_fix`.) -/
def broadPhase (b1 b2 : Body α) (useAabbTrees : Bool) :
    Except Err (List (Nat × Nat) × Body α × Body α) :=
  if useAabbTrees then do
    let (t1, b1) ← b1.aabbTree
    let (t2, b2) ← b2.aabbTree
    let ps ← broadTree t1 t2
    pure (ps, b1, b2)
  else do
    let (a1, b1) ← b1.aabbs
    let (a2, b2) ← b2.aabbs
    pure (broadBrute a1 a2, b1, b2)

/-- `find_contact_surface` (as it is now). Returns the surface and both bodies (body 1
re-expressed in the frame of body 2, caches filled as the code fills them). -/
def findContactSurface (pairFn : PairFn α) (b1 b2 : Body α) (useAabbTrees : Bool := false) :
    Except Err (ContactSurface α × Body α × Body α) := do
  let b1 := b1.expressIn b2.pose
  let (pairs, b1, b2) ← broadPhase b1 b2 useAabbTrees
  let (tp1, b1) ← b1.tetrahedraPoints
  let (tp2, b2) ← b2.tetrahedraPoints
  let ep1 ← b1.tetrahedraPotentials
  let ep2 ← b2.tetrahedraPotentials
  let contacts ← narrowPhase pairFn tp1 ep1 tp2 ep2 pairs
  pure ({ frame2world := b2.pose, intersection := !contacts.isEmpty, contacts := contacts }, b1, b2)

/-- before the repair `use_aabb_trees=True` read the attribute `aabbtree_`, which no
`RigidBody` has: `AttributeError` on every call -/
def findContactSurface_asIs_before_fix (pairFn : PairFn α) (b1 b2 : Body α)
    (useAabbTrees : Bool := false) : Except Err (ContactSurface α × Body α × Body α) :=
  if useAabbTrees then .error .attrErr else findContactSurface pairFn b1 b2 false

/-! ### _forces.py -/

/-- `_transform_wrenches` as it is now: force and torques are rotated by `R = mesh22origin[:3,:3]`;
returns `(wrench12_in_world, wrench21_in_world)` -/
def transformWrenches (mesh22origin : Pose α) (totalForce21 totalTorque12 totalTorque21 : V3 α) :
    Wrench α × Wrench α :=
  let R := mesh22origin.R
  let wrench21 : Wrench α := ⟨R.mulVec totalForce21, R.mulVec totalTorque21⟩
  let wrench12 : Wrench α := ⟨R.mulVec (-totalForce21), R.mulVec totalTorque12⟩
  (wrench12, wrench21)

/-- `_transform_wrenches` before the repair: `adjoint_from_transform(mesh22origin).T.dot(wrench)` -/
def transformWrenches_asIs_before_fix (mesh22origin : Pose α)
    (totalForce21 totalTorque12 totalTorque21 : V3 α) : Wrench α × Wrench α :=
  let wrench21 : Wrench α := ⟨totalForce21, totalTorque21⟩
  let wrench12 : Wrench α := ⟨-totalForce21, totalTorque12⟩
  let adj := adjointFromTransform mesh22origin
  (adj.transposeMulWrench wrench12, adj.transposeMulWrench wrench21)

/-- the three sums of `accumulate_wrenches` -/
def totalForce21 (cs : List (Contact α)) : V3 α := sumV (cs.map (·.force))
def totalTorque21 (cs : List (Contact α)) (com1 : V3 α) : V3 α :=
  sumV (cs.map fun c => V3.cross (c.com - com1) c.force)
def totalTorque12 (cs : List (Contact α)) (com2 : V3 α) : V3 α :=
  sumV (cs.map fun c => V3.cross (c.com - com2) (-c.force))

/-- `accumulate_wrenches` given both centres of mass -/
def accumulateWrenchesAt (frame2world : Pose α) (cs : List (Contact α)) (com1 com2 : V3 α) :
    Wrench α × Wrench α :=
  transformWrenches frame2world (totalForce21 cs) (totalTorque12 cs com2) (totalTorque21 cs com1)

def accumulateWrenchesAt_asIs_before_fix (frame2world : Pose α) (cs : List (Contact α))
    (com1 com2 : V3 α) : Wrench α × Wrench α :=
  transformWrenches_asIs_before_fix frame2world (totalForce21 cs) (totalTorque12 cs com2)
    (totalTorque21 cs com1)

/-- `accumulate_wrenches` (reads the cached property `com` of both bodies) -/
def accumulateWrenches (surf : ContactSurface α) (b1 b2 : Body α) :
    Except Err ((Wrench α × Wrench α) × Body α × Body α) := do
  let (com1, b1) ← b1.com
  let (com2, b2) ← b2.com
  pure (accumulateWrenchesAt surf.frame2world surf.contacts com1 com2, b1, b2)

/-- result of `contact_forces` : `(intersection, wrench12_in_world, wrench21_in_world)` -/
structure ForceResult (α : Type) where
  intersection : Bool
  wrench12 : Wrench α
  wrench21 : Wrench α
  deriving Repr, DecidableEq

/-- `contact_forces` (`return_details=False`); also returns the mutated bodies -/
def contactForces (pairFn : PairFn α) (b1 b2 : Body α) :
    Except Err (ForceResult α × Body α × Body α) := do
  let (surf, b1, b2) ← findContactSurface pairFn b1 b2
  let ((w12, w21), b1, b2) ← accumulateWrenches surf b1 b2
  pure (⟨surf.intersection, w12, w21⟩, b1, b2)

/-! ### pure (cache-free) counterparts used in the statements -/

/-- `tetrahedral_mesh_aabbs(vertices[tetrahedra])` -/
def aabbsOf (verts : List (V3 α)) (tets : List (Nat × Nat × Nat × Nat)) : Except Err (List (Box α)) := do
  let tp ← gatherTets verts tets
  pure (tetrahedralMeshAabbs tp)

def comOf (verts : List (V3 α)) (tets : List (Nat × Nat × Nat × Nat)) : Except Err (V3 α) := do
  let tp ← gatherTets verts tets
  centerOfMass tp

def treeOf (verts : List (V3 α)) (tets : List (Nat × Nat × Nat × Nat)) : Except Err (Core α) := do
  let a ← aabbsOf verts tets
  buildTree a

/-- what `tetrahedra_points` must return: recomputed from the current vertices -/
def Body.tetPtsPure (b : Body α) : Except Err (List (Tet α)) := gatherTets b.verts b.tets
def Body.aabbsPure (b : Body α) : Except Err (List (Box α)) := aabbsOf b.verts b.tets
def Body.comPure (b : Body α) : Except Err (V3 α) := comOf b.verts b.tets
def Body.treePure (b : Body α) : Except Err (Core α) := treeOf b.verts b.tets

/-- cache coherence: every filled cache holds what a recomputation from the current vertices
would give -/
structure Body.CacheOk (b : Body α) : Prop where
  tet : ∀ t, b.cTetPts = some t → b.tetPtsPure = .ok t
  com : ∀ c, b.cCom = some c → b.comPure = .ok c
  aabbs : ∀ a, b.cAabbs = some a → b.aabbsPure = .ok a
  tree : ∀ c, b.cTree = some c → b.treePure = .ok c

/-- same pose, vertices, tetrahedra and potentials (caches may differ) -/
structure Body.SameData (a b : Body α) : Prop where
  pose : a.pose = b.pose
  verts : a.verts = b.verts
  tets : a.tets = b.tets
  pots : a.pots = b.pots

/-- the body moved by a rigid motion `g` of the world: same body-frame data, pose `g ∘ pose` -/
def Body.moved (g : Pose α) (b : Body α) : Body α := { b with pose := matMul4 g b.pose }

/-- rotate a wrench by a matrix -/
def Wrench.rotate (R : M3 α) (w : Wrench α) : Wrench α := ⟨R.mulVec w.f, R.mulVec w.t⟩

def ForceResult.rotate (R : M3 α) (r : ForceResult α) : ForceResult α :=
  ⟨r.intersection, r.wrench12.rotate R, r.wrench21.rotate R⟩

/-- cache-free broad phase on raw mesh data -/
def broadCore (v1 : List (V3 α)) (t1 : List (Nat × Nat × Nat × Nat))
    (v2 : List (V3 α)) (t2 : List (Nat × Nat × Nat × Nat)) (useAabbTrees : Bool) :
    Except Err (List (Nat × Nat)) :=
  if useAabbTrees then do
    let c1 ← treeOf v1 t1
    let c2 ← treeOf v2 t2
    broadTree c1 c2
  else do
    let a1 ← aabbsOf v1 t1
    let a2 ← aabbsOf v2 t2
    pure (broadBrute a1 a2)

/-- the broad phase before the repair of `overlaps_aabb_tree`: `query_overlap_of_other_tree`
returns `np.array([])` (float64) when nothing overlaps, `np.unique` kept the dtype and
`tetrahedra_points[broad_tetrahedra1]` raised IndexError -/
def broadCore_asIs_before_fix (v1 : List (V3 α)) (t1 : List (Nat × Nat × Nat × Nat))
    (v2 : List (V3 α)) (t2 : List (Nat × Nat × Nat × Nat)) (useAabbTrees : Bool) :
    Except Err (List (Nat × Nat)) :=
  if useAabbTrees then do
    let c1 ← treeOf v1 t1
    let c2 ← treeOf v2 t2
    let ps ← broadTree c1 c2
    if ps.isEmpty then .error .indexOOB else pure ps
  else broadCore v1 t1 v2 t2 false

/-- cache-free `find_contact_surface` on raw mesh data (body 1 already in the frame of body 2):
the contact list in the frame of body 2, same evaluation order as the code -/
def contactsCore (pairFn : PairFn α)
    (v1 : List (V3 α)) (t1 : List (Nat × Nat × Nat × Nat)) (p1 : List α)
    (v2 : List (V3 α)) (t2 : List (Nat × Nat × Nat × Nat)) (p2 : List α)
    (useAabbTrees : Bool) : Except Err (List (Contact α)) := do
  let pairs ← broadCore v1 t1 v2 t2 useAabbTrees
  let tp1 ← gatherTets v1 t1
  let tp2 ← gatherTets v2 t2
  let ep1 ← gatherEps p1 t1
  let ep2 ← gatherEps p2 t2
  narrowPhase pairFn tp1 ep1 tp2 ep2 pairs

/-- cache-free `find_contact_surface` -/
def contactsPure (pairFn : PairFn α) (b1 b2 : Body α) (useAabbTrees : Bool := false) :
    Except Err (List (Contact α)) :=
  let b1 := b1.expressIn b2.pose
  contactsCore pairFn b1.verts b1.tets b1.pots b2.verts b2.tets b2.pots useAabbTrees

/-- cache-free `contact_forces` on raw mesh data; `frame` = pose of body 2 -/
def forcesCore (pairFn : PairFn α) (frame : Pose α)
    (v1 : List (V3 α)) (t1 : List (Nat × Nat × Nat × Nat)) (p1 : List α)
    (v2 : List (V3 α)) (t2 : List (Nat × Nat × Nat × Nat)) (p2 : List α) :
    Except Err (ForceResult α) := do
  let cs ← contactsCore pairFn v1 t1 p1 v2 t2 p2 false
  let com1 ← comOf v1 t1
  let com2 ← comOf v2 t2
  let w := accumulateWrenchesAt frame cs com1 com2
  pure ⟨!cs.isEmpty, w.1, w.2⟩

/-- cache-free `contact_forces` -/
def contactForcesPure (pairFn : PairFn α) (b1 b2 : Body α) : Except Err (ForceResult α) :=
  let b1 := b1.expressIn b2.pose
  forcesCore pairFn b2.pose b1.verts b1.tets b1.pots b2.verts b2.tets b2.pots

/-! ### run-time check used by the driver on dumped trees -/

/-- leaf `k` of the tree carries `boxes[k]` and there are no other leaves -/
def leavesMatch (t : T α) (boxes : List (Box α)) : Bool :=
  (boxes.zipIdx.all fun (b, k) => t.leaves.contains (((k : Nat) : Int), b)) &&
  (t.leaves.all fun (i, b) => decide (0 ≤ i) && (boxes[i.toNat]? == some b))

end HydroForce
end D3
