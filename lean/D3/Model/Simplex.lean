/-
Model of the simplex solver of the Jolt-style GJK (`distance3d/gjk/_gjk_jolt.py`), property C18.
Core Lean only, scalar-polymorphic.  Faithful, line by line, to

* `get_barycentric_coordinates_line / _plane / _tetrahedron`
* `closest_point_line / _triangle / _tetrahedron`
* `origin_outside_of_tetrahedron_planes`
* `update_simplex_y`, `update_simplex_ypq`
* `get_closest_point_to_origin`

including the thresholds (`EPSILON_SQR`, `EPSILON`, `MAX_FLOAT`, taken from `D3.Gen`), the
operation order of every expression, the strict/non-strict comparisons, the bit arithmetic that
remaps the feature set of a face back to indices of `Y`, and the failure modes: every `/` of
the Python is a *checked* division (`divZero` when the denominator is `±0` or NaN — numba raises
`ZeroDivisionError` there, the interpreter yields `inf`/`nan`), `assert False` is `assertFail`,
a read past the end of `Y` is `indexOOB`.

Every function with a case analysis also returns a branch id (a small `Nat`):

* `baryLine`           0 degenerate/a nearer, 1 degenerate/b nearer, 2 regular
* `baryPlane`          0/3 regular, 1/2/4/5 degenerate fallback to an edge; the degeneracy test
                         is the relative one of repair dbe9d34
                         (`baryPlane_asIs_before_fix` keeps the old absolute test)
* `closestPointLine`   0,1 as above, 2 regular→a, 3 regular→b, 4 regular→interior
* `closestPointTriangle` 0 A, 1 B, 2 AB, 3 C, 4 AC, 5 BC, 6 face,
                         7/8/9 degenerate (sliver / collinear) fallback won by edge AB/AC/BC;
                         the degeneracy test is the relative one of repair ea3a5ff
                         (`closestPointTriangle_asIs_before_fix` keeps the old absolute test)
* `originOutsideOfTetrahedronPlanes` 0 all `signd > 0`, 1 all `signd < 0`, 2 mixed
* `closestPointTetrahedron` `64·winner + 16·orientation + flags` (flags: bit i = face i
  tested; faces in the order ABC, ACD, ADB, BDC; winner 0 = no face taken (origin inside),
  1..4 = the face whose candidate was kept)
* `getClosestPointToOrigin` `1000·n_points + branch of the sub-solver`
-/
import D3.Model.Vec
import D3.Gen.Constants

namespace D3
namespace Simplex

scalar_variables

/-- `EPSILON_SQR` of `_gjk_jolt.py` -/
def EPS2 : α := D3.Gen.gjk__gjk_jolt__EPSILON_SQR
/-- `EPSILON` imported from `utils` -/
def EPS : α := D3.Gen.utils__EPSILON
/-- `MAX_FLOAT` imported from `utils` -/
def MAXF : α := D3.Gen.utils__MAX_FLOAT

/-- checked division: `divZero` unless the denominator is strictly negative or strictly
positive (so `±0` and NaN are both errors) -/
def cdiv (x y : α) : Except Err α :=
  if y < 0 ∨ 0 < y then .ok (x / y) else .error .divZero

/-- numpy `v / s` (componentwise), checked -/
def cdivV (v : V3 α) (s : α) : Except Err (V3 α) :=
  if s < 0 ∨ 0 < s then .ok (V3.sdiv v s) else .error .divZero

/-- `scalar_triple_product(a, b, c) = a · (b × c)` -/
def triple (a b c : V3 α) : α := V3.dot a (V3.cross b c)

/-- result of a closest-point routine: the point, the feature set (bit i = vertex i of the
*argument list* of that routine), and the branch id -/
structure CP (α : Type) where
  pt : V3 α
  set : Nat
  br : Nat
  deriving Repr

/-! ### barycentric coordinates -/

/-- `get_barycentric_coordinates_line(a, b)` → `(u, v, branch)` -/
def baryLine (a b : V3 α) : Except Err (α × α × Nat) :=
  let ab := b - a
  let denominator := V3.dot ab ab
  if denominator < EPS2 then
    if V3.dot a a < V3.dot b b then .ok (1, 0, 0) else .ok (0, 1, 1)
  else do
    let v ← cdiv (-(V3.dot a ab)) denominator
    .ok (1 - v, v, 2)

/-- `get_barycentric_coordinates_plane(a, b, c)` → `(u, v, w, branch)` (after repair dbe9d34:
the degeneracy test is relative, `abs(denominator) <= EPSILON * max_edge_len_sq²`, the same
criterion as in `closest_point_triangle`; `baryPlane_asIs_before_fix` keeps the old absolute test);
branch: 0 regular (v0,v1), 1 degenerate→line ab, 2 degenerate→line ac,
3 regular (v1,v2), 4 degenerate→line ac, 5 degenerate→line bc -/
def baryPlane (a b c : V3 α) : Except Err (α × α × α × Nat) :=
  let v0 := b - a
  let v1 := c - a
  let v2 := c - b
  let d00 := V3.dot v0 v0
  let d11 := V3.dot v1 v1
  let d22 := V3.dot v2 v2
  let maxEdgeLenSq := max d00 (max d11 d22)
  let degenerateLimit := EPS * maxEdgeLenSq * maxEdgeLenSq
  if d00 ≤ d22 then
    let d01 := V3.dot v0 v1
    let denominator := d00 * d11 - d01 * d01
    if absS denominator ≤ degenerateLimit then
      if d11 < d00 then do
        let (u, v, _) ← baryLine a b
        .ok (u, v, 0, 1)
      else do
        let (u, w, _) ← baryLine a c
        .ok (u, 0, w, 2)
    else do
      let a0 := V3.dot a v0
      let a1 := V3.dot a v1
      let v ← cdiv (d01 * a1 - d11 * a0) denominator
      let w ← cdiv (d01 * a0 - d00 * a1) denominator
      .ok (1 - v - w, v, w, 0)
  else
    let d12 := V3.dot v1 v2
    let denominator := d11 * d22 - d12 * d12
    if absS denominator ≤ degenerateLimit then
      if d22 < d11 then do
        let (u, w, _) ← baryLine a c
        .ok (u, 0, w, 4)
      else do
        let (v, w, _) ← baryLine b c
        .ok (0, v, w, 5)
    else do
      let c1 := V3.dot c v1
      let c2 := V3.dot c v2
      let u ← cdiv (d22 * c1 - d12 * c2) denominator
      let v ← cdiv (d11 * c2 - d12 * c1) denominator
      .ok (u, v, 1 - u - v, 3)

/-- `get_barycentric_coordinates_plane` as it was before repair dbe9d34: absolute test
`abs(denominator) < EPSILON` (`denominator` = 4·area², dimension length⁴) -/
def baryPlane_asIs_before_fix (a b c : V3 α) : Except Err (α × α × α × Nat) :=
  let v0 := b - a
  let v1 := c - a
  let v2 := c - b
  let d00 := V3.dot v0 v0
  let d11 := V3.dot v1 v1
  let d22 := V3.dot v2 v2
  if d00 ≤ d22 then
    let d01 := V3.dot v0 v1
    let denominator := d00 * d11 - d01 * d01
    if absS denominator < EPS then
      if d11 < d00 then do
        let (u, v, _) ← baryLine a b
        .ok (u, v, 0, 1)
      else do
        let (u, w, _) ← baryLine a c
        .ok (u, 0, w, 2)
    else do
      let a0 := V3.dot a v0
      let a1 := V3.dot a v1
      let v ← cdiv (d01 * a1 - d11 * a0) denominator
      let w ← cdiv (d01 * a0 - d00 * a1) denominator
      .ok (1 - v - w, v, w, 0)
  else
    let d12 := V3.dot v1 v2
    let denominator := d11 * d22 - d12 * d12
    if absS denominator < EPS then
      if d22 < d11 then do
        let (u, w, _) ← baryLine a c
        .ok (u, 0, w, 4)
      else do
        let (v, w, _) ← baryLine b c
        .ok (0, v, w, 5)
    else do
      let c1 := V3.dot c v1
      let c2 := V3.dot c v2
      let u ← cdiv (d22 * c1 - d12 * c2) denominator
      let v ← cdiv (d11 * c2 - d12 * c1) denominator
      .ok (u, v, 1 - u - v, 3)

/-- `get_barycentric_coordinates_tetrahedron(a, b, c, d)` -/
def baryTetra (a b c d : V3 α) : Except Err (α × α × α × α) :=
  let vab := b - a
  let vac := c - a
  let vad := d - a
  let va6 := -(triple b (d - b) (c - b))
  let vb6 := -(triple a vac vad)
  let vc6 := -(triple a vad vab)
  let vd6 := -(triple a vab vac)
  do
    let v6 ← cdiv 1 (triple vab vac vad)
    .ok (va6 * v6, vb6 * v6, vc6 * v6, vd6 * v6)

/-! ### closest points -/

/-- `closest_point_line(a, b)` -/
def closestPointLine (a b : V3 α) : Except Err (CP α) := do
  let (u, v, br) ← baryLine a b
  if v ≤ 0 then .ok ⟨a, 0b0001, if br = 2 then 2 else br⟩
  else if u ≤ 0 then .ok ⟨b, 0b0010, if br = 2 then 3 else br⟩
  else .ok ⟨u * a + v * b, 0b0011, if br = 2 then 4 else br⟩

/-- the normal `closest_point_triangle` uses: `ab × bc` if `|bc|² < |ac|²` else `ab × ac` -/
def triNormal (a b c : V3 α) : V3 α :=
  let ab := b - a
  let ac := c - a
  let bc := c - b
  if V3.dot bc bc < V3.dot ac ac then V3.cross ab bc else V3.cross ab ac

/-- the collinear fallback of `closest_point_triangle`: best of the three edges -/
def closestPointTriangleDegenerate (a b c : V3 α) : Except Err (CP α) := do
  -- Edge AB
  let r ← closestPointLine a b
  let closestPoint := r.pt
  let closestSet := r.set
  let bestDistSq := V3.dot closestPoint closestPoint
  -- Edge AC
  let q ← closestPointLine a c
  let distSq := V3.dot q.pt q.pt
  let (closestPoint, bestDistSq, closestSet, win) :=
    if distSq < bestDistSq then
      (q.pt, distSq, (q.set &&& 0b0001) + ((q.set &&& 0b0010) <<< 1), 8)
    else (closestPoint, bestDistSq, closestSet, 7)
  -- Edge BC
  let q ← closestPointLine b c
  let distSq := V3.dot q.pt q.pt
  if distSq < bestDistSq then .ok ⟨q.pt, q.set <<< 1, 9⟩
  else .ok ⟨closestPoint, closestSet, win⟩

/-- `max_edge_len_sq = max(ab.dot(ab), max(ac.dot(ac), bc.dot(bc)))` -/
def maxEdgeLenSq (a b c : V3 α) : α :=
  let ab := b - a
  let ac := c - a
  let bc := c - b
  max (V3.dot ab ab) (max (V3.dot ac ac) (V3.dot bc bc))

/-- the Voronoi-region cascade of `closest_point_triangle` (everything after the degeneracy
test); `n` is the normal computed before the test -/
def closestPointTriangleRegions (a b c n : V3 α) : Except Err (CP α) :=
  let ab := b - a
  let ac := c - a
  let bc := c - b
  let nLenSq := V3.dot n n
  -- vertex region A
  let ap := -a
  let d1 := V3.dot ab ap
  let d2 := V3.dot ac ap
  if d1 ≤ 0 ∧ d2 ≤ 0 then .ok ⟨a, 0b0001, 0⟩ else
  -- vertex region B
  let bp := -b
  let d3 := V3.dot ab bp
  let d4 := V3.dot ac bp
  if 0 ≤ d3 ∧ d4 ≤ d3 then .ok ⟨b, 0b0010, 1⟩ else
  -- edge region AB
  let vc := d1 * d4 - d3 * d2
  if vc ≤ 0 ∧ 0 ≤ d1 ∧ d3 ≤ 0 then do
    let v ← cdiv d1 (d1 - d3)
    .ok ⟨a + v * ab, 0b0011, 2⟩
  else
  -- vertex region C
  let cp := -c
  let d5 := V3.dot ab cp
  let d6 := V3.dot ac cp
  if 0 ≤ d6 ∧ d5 ≤ d6 then .ok ⟨c, 0b0100, 3⟩ else
  -- edge region AC
  let vb := d5 * d2 - d1 * d6
  if vb ≤ 0 ∧ 0 ≤ d2 ∧ d6 ≤ 0 then do
    let w ← cdiv d2 (d2 - d6)
    .ok ⟨a + w * ac, 0b0101, 4⟩
  else
  -- edge region BC
  let va := d3 * d6 - d5 * d4
  let d4_d3 := d4 - d3
  let d5_d6 := d5 - d6
  if va ≤ 0 ∧ 0 ≤ d4_d3 ∧ 0 ≤ d5_d6 then do
    let w ← cdiv d4_d3 (d4_d3 + d5_d6)
    .ok ⟨b + w * bc, 0b0110, 5⟩
  else do
    -- face region: `n * (a + b + c).dot(n) / (3.0 * n_len_sq)`
    let p ← cdivV (V3.dot (a + b + c) n * n) (3.0 * nLenSq)
    .ok ⟨p, 0b0111, 6⟩

/-- `closest_point_triangle(a, b, c)` (after repair ea3a5ff): degenerate iff
`n_len_sq <= EPSILON * max_edge_len_sq * max_edge_len_sq`, i.e. the altitude over the longest
edge is at most `sqrt(EPSILON)` times that edge (covers duplicate / almost duplicate points) -/
def closestPointTriangle (a b c : V3 α) : Except Err (CP α) :=
  let n := triNormal a b c
  let nLenSq := V3.dot n n
  let maxEdge := maxEdgeLenSq a b c
  if nLenSq ≤ EPS * maxEdge * maxEdge then closestPointTriangleDegenerate a b c
  else closestPointTriangleRegions a b c n

/-- `closest_point_triangle` as it was before repair ea3a5ff: absolute test
`n_len_sq < EPSILON_SQR` -/
def closestPointTriangle_asIs_before_fix (a b c : V3 α) : Except Err (CP α) :=
  let n := triNormal a b c
  let nLenSq := V3.dot n n
  if nLenSq < EPS2 then closestPointTriangleDegenerate a b c
  else closestPointTriangleRegions a b c n

/-- `origin_outside_of_tetrahedron_planes(a, b, c, d)` → four flags (faces ABC, ACD, ADB, BDC)
and the orientation branch (0: all `signd > 0`, 1: all `signd < 0`, 2: mixed → `ALL_TRUE`) -/
def originOutsideOfTetrahedronPlanes (a b c d : V3 α) : (Bool × Bool × Bool × Bool) × Nat :=
  let ab := b - a
  let ac := c - a
  let ad := d - a
  let bd := d - b
  let bc := c - b
  let ab_cross_ac := V3.cross ab ac
  let ac_cross_ad := V3.cross ac ad
  let ad_cross_ab := V3.cross ad ab
  let bd_cross_bc := V3.cross bd bc
  let signp0 := V3.dot a ab_cross_ac
  let signp1 := V3.dot a ac_cross_ad
  let signp2 := V3.dot a ad_cross_ab
  let signp3 := V3.dot b bd_cross_bc
  let signd0 := V3.dot ad ab_cross_ac
  let signd1 := V3.dot ab ac_cross_ad
  let signd2 := V3.dot ac ad_cross_ab
  let signd3 := -(V3.dot ab bd_cross_bc)
  if 0 < signd0 ∧ 0 < signd1 ∧ 0 < signd2 ∧ 0 < signd3 then
    ((decide (-EPS ≤ signp0), decide (-EPS ≤ signp1), decide (-EPS ≤ signp2),
      decide (-EPS ≤ signp3)), 0)
  else if signd0 < 0 ∧ signd1 < 0 ∧ signd2 < 0 ∧ signd3 < 0 then
    ((decide (signp0 ≤ EPS), decide (signp1 ≤ EPS), decide (signp2 ≤ EPS),
      decide (signp3 ≤ EPS)), 1)
  else ((true, true, true, true), 2)

/-- feature-set remapping of face ACD back to (A,B,C,D) -/
def remapACD (s : Nat) : Nat := (s &&& 0b0001) + ((s &&& 0b0110) <<< 1)
/-- feature-set remapping of face ADB -/
def remapADB (s : Nat) : Nat := (s &&& 0b0001) + ((s &&& 0b0010) <<< 2) + ((s &&& 0b0100) >>> 1)
/-- feature-set remapping of face BDC -/
def remapBDC (s : Nat) : Nat := ((s &&& 0b0001) <<< 1) + ((s &&& 0b0010) <<< 2) + (s &&& 0b0100)

/-- running state of `closest_point_tetrahedron`: point, set, best squared distance, winner -/
structure TetState (α : Type) where
  pt : V3 α
  set : Nat
  best : α
  win : Nat

/-- first block of `closest_point_tetrahedron` (face abc): unconditional update -/
def tetFirst (o : Bool) (a b c : V3 α) (st : TetState α) : Except Err (TetState α) :=
  if o then do
    let r ← closestPointTriangle a b c
    pure ⟨r.pt, r.set, V3.dot r.pt r.pt, 1⟩
  else pure st

/-- one of the three later blocks `if origin_out_of_planes[i]: q, new_set = closest_point_triangle(p, q, r);
dist_sq = q·q; if dist_sq < best_dist_sq: …`; the last block does not update `best_dist_sq`
(`updateBest = false`) -/
def tetStep (o : Bool) (p q r : V3 α) (remap : Nat → Nat) (win : Nat) (updateBest : Bool)
    (st : TetState α) : Except Err (TetState α) :=
  if o then do
    let t ← closestPointTriangle p q r
    let distSq := V3.dot t.pt t.pt
    if distSq < st.best then
      pure ⟨t.pt, remap t.set, if updateBest then distSq else st.best, win⟩
    else pure st
  else pure st

/-- `closest_point_tetrahedron(a, b, c, d)` -/
def closestPointTetrahedron (a b c d : V3 α) : Except Err (CP α) := do
  let st0 : TetState α := ⟨V3.zero, 0b1111, MAXF, 0⟩
  let pl := originOutsideOfTetrahedronPlanes a b c d
  let o0 := pl.1.1
  let o1 := pl.1.2.1
  let o2 := pl.1.2.2.1
  let o3 := pl.1.2.2.2
  let orient := pl.2
  let st1 ← tetFirst o0 a b c st0
  let st2 ← tetStep o1 a c d remapACD 2 true st1
  let st3 ← tetStep o2 a d b remapADB 3 true st2
  let st4 ← tetStep o3 b d c remapBDC 4 false st3
  let flags : Nat := (if o0 then 1 else 0) + (if o1 then 2 else 0) + (if o2 then 4 else 0)
    + (if o3 then 8 else 0)
  .ok ⟨st4.pt, st4.set, 64 * st4.win + 16 * orient + flags⟩

/-! ### simplex bookkeeping -/

/-- loop of `update_simplex_y`: `for i in range(n_points): if simplex & (1 << i): Y[k] = Y[i]; k += 1` -/
def updateSimplexLoop {β : Type} (simplex : Nat) (nPoints : Nat) :
    Nat → Nat → Array β → Except Err (Array β × Nat)
  | 0, k, Y => .ok (Y, k)
  | fuel + 1, k, Y =>
    let i := nPoints - (fuel + 1)
    if (simplex &&& (1 <<< i)) ≠ 0 then
      match Y[i]? with
      | some y =>
        if k < Y.size then updateSimplexLoop simplex nPoints fuel (k + 1) (Y.set! k y)
        else .error .indexOOB
      | none => .error .indexOOB
    else updateSimplexLoop simplex nPoints fuel k Y

/-- `update_simplex_y(Y, n_points, simplex)` → `(Y', n_new_points)` -/
def updateSimplexY {β : Type} (Y : Array β) (nPoints : Nat) (simplex : Nat) :
    Except Err (Array β × Nat) :=
  updateSimplexLoop simplex nPoints nPoints 0 Y

/-- `update_simplex_ypq(Y, P, Q, n_points, simplex)` : the same compaction on three arrays -/
def updateSimplexYPQ {β : Type} (Y P Q : Array β) (nPoints : Nat) (simplex : Nat) :
    Except Err (Array β × Array β × Array β × Nat) := do
  let (Y', n) ← updateSimplexY Y nPoints simplex
  let (P', _) ← updateSimplexY P nPoints simplex
  let (Q', _) ← updateSimplexY Q nPoints simplex
  .ok (Y', P', Q', n)

/-! ### `get_closest_point_to_origin` -/

/-- result of `get_closest_point_to_origin`: the Python returns `(True, v, v_len_sq, simplex)`
or `(False, None, None, None)`; the model keeps the computed values in both cases -/
structure Gcp (α : Type) where
  success : Bool
  v : V3 α
  vLenSq : α
  set : Nat
  br : Nat
  deriving Repr

def rdY (Y : Array (V3 α)) (i : Nat) : Except Err (V3 α) :=
  match Y[i]? with
  | some y => .ok y
  | none => .error .indexOOB

/-- the dispatch on `n_points` inside `get_closest_point_to_origin` -/
def solveSimplex (Y : Array (V3 α)) (nPoints : Nat) : Except Err (CP α) :=
  if nPoints = 1 then do
    let y0 ← rdY Y 0
    pure ⟨y0, 0b0001, 0⟩
  else if nPoints = 2 then do
    let y0 ← rdY Y 0
    let y1 ← rdY Y 1
    closestPointLine y0 y1
  else if nPoints = 3 then do
    let y0 ← rdY Y 0
    let y1 ← rdY Y 1
    let y2 ← rdY Y 2
    closestPointTriangle y0 y1 y2
  else if nPoints = 4 then do
    let y0 ← rdY Y 0
    let y1 ← rdY Y 1
    let y2 ← rdY Y 2
    let y3 ← rdY Y 3
    closestPointTetrahedron y0 y1 y2 y3
  else .error .assertFail

/-- `get_closest_point_to_origin(Y, n_points, prev_v_len_sqr)` -/
def getClosestPointToOrigin (Y : Array (V3 α)) (nPoints : Nat) (prevVLenSqr : α) :
    Except Err (Gcp α) :=
  (solveSimplex Y nPoints).bind fun r =>
    let vLenSq := V3.dot r.pt r.pt
    .ok ⟨decide (vLenSq < prevVLenSqr), r.pt, vLenSq, r.set, 1000 * nPoints + r.br⟩

end Simplex
end D3
