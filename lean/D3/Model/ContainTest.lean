/-
Model of `distance3d/containment_test.py` (all eight `points_in_*` predicates), core Lean only.

The Python functions are vectorised over an `(n, 3)` array of points; every operation in them
is element-wise per point (the masked index bookkeeping of `points_in_cone` included), so each
function is modelled as a single-point kernel `pointInX` and the batch function `pointsInX`
is `List.map` (`List.mapM` where the kernel can produce NaN) of the kernel.

Operation order follows the source line by line:
* `np.sum(v * v, axis=1)` on 3 columns is `v.x*v.x + v.y*v.y + v.z*v.z` = `V3.dot v v`;
* `invert_transform(A)` is `Pose.inv` (`Rᵀ`, `-(Rᵀ t)`), and
  `origin2x[:3, 3] + np.dot(points, origin2x[:3, :3].T)` is `B.t + B.R.mulVec p`;
* `A[:3, 2]` is the third *column* of the rotation, `A.R.col2`; `A[:3, 3]` is `A.t`.

Where NumPy silently produces NaN (0/0 for a capsule of height 0, a zero radius of an
ellipsoid, a cone of height 0 for points in its base plane) the model returns
`.error .divZero` (the Python result for those elements is `False`/`True` by NaN comparison
semantics, which no caller can have intended; the harness maps the NumPy warning to the enum).
-/
import D3.Model.Vec
import D3.Gen.Constants

namespace D3
namespace ContainTest

scalar_variables

/-- `x == 0.0` as IEEE compares it (`-0.0` counts as zero; `DecidableEq Float` is bitwise) -/
def isZero (x : α) : Bool := decide (x ≤ 0) && decide (0 ≤ x)

/-- the literal `3` of `np.mean(faces, axis=1)` (count of the reduced axis) -/
def three : α := 2 + 1

/-- `origin2x = invert_transform(x2origin); origin2x[:3, 3] + np.dot(points, origin2x[:3, :3].T)` -/
def localPoint (A : Pose α) (p : V3 α) : V3 α :=
  let B := A.inv
  B.t + B.R.mulVec p

/-! ### sphere -/

/-- `points_in_sphere`, one row -/
def pointInSphere (p c : V3 α) (r : α) : Bool :=
  let diff := p - c
  let squaredDist := V3.dot diff diff
  decide (squaredDist ≤ r * r)

def pointsInSphere (ps : List (V3 α)) (c : V3 α) (r : α) : List Bool :=
  ps.map fun p => pointInSphere p c r

/-! ### capsule -/

/-- `segment_start` -/
def capsuleStart (A : Pose α) (h : α) : V3 α := A.t - (0.5 * h) * A.R.col2
/-- `segment_end` -/
def capsuleEnd (A : Pose α) (h : α) : V3 α := A.t + (0.5 * h) * A.R.col2
/-- `segment_direction` -/
def capsuleDir (A : Pose α) (h : α) : V3 α := capsuleEnd A h - capsuleStart A h

/-- the unclamped `t` of `points_in_capsule` (only meaningful when the denominator is non-zero) -/
def capsuleT (p : V3 α) (A : Pose α) (h : α) : α :=
  V3.dot (p - capsuleStart A h) (capsuleDir A h) / V3.dot (capsuleDir A h) (capsuleDir A h)

/-- `points_in_capsule`, one row -/
def pointInCapsule (p : V3 α) (A : Pose α) (r h : α) : Except Err Bool :=
  let start := capsuleStart A h
  let dir := capsuleDir A h
  if isZero (V3.dot dir dir) then .error .divZero else
    let t := capsuleT p A h
    let t := min (max t 0) 1
    let closest := start + t * dir
    let diff := p - closest
    let squaredDist := V3.dot diff diff
    .ok (decide (squaredDist ≤ r * r))

/-- branch id: 0 `t` clamped to 0, 1 unclamped, 2 clamped to 1; +10 when not contained; 99 NaN -/
def capsuleBranch (p : V3 α) (A : Pose α) (r h : α) : Nat :=
  match pointInCapsule p A r h with
  | .error _ => 99
  | .ok b =>
    let t := capsuleT p A h
    (if t < 0 then 0 else if 1 < t then 2 else 1) + (if b then 0 else 10)

def pointsInCapsule (ps : List (V3 α)) (A : Pose α) (r h : α) : Except Err (List Bool) :=
  ps.mapM fun p => pointInCapsule p A r h

/-! ### ellipsoid -/

/-- `points_in_ellipsoid`, one row -/
def pointInEllipsoid (p : V3 α) (A : Pose α) (radii : V3 α) : Except Err Bool :=
  let q := localPoint A p
  if isZero radii.x || isZero radii.y || isZero radii.z then .error .divZero else
    let n : V3 α := ⟨q.x / radii.x, q.y / radii.y, q.z / radii.z⟩
    .ok (decide (V3.dot n n ≤ 1))

def pointsInEllipsoid (ps : List (V3 α)) (A : Pose α) (radii : V3 α) : Except Err (List Bool) :=
  ps.mapM fun p => pointInEllipsoid p A radii

/-! ### disk -/

/-- the slab half-width `10.0 * EPSILON` of `points_in_disk` -/
def diskSlab : α := 10.0 * D3.Gen.utils__EPSILON

/-- `dist_to_plane` of `points_in_disk` -/
def diskDistToPlane (p c n : V3 α) : α := V3.dot (p - c) n

/-- `sqr_dist_in_plane` of `points_in_disk` -/
def diskSqrInPlane (p c n : V3 α) : α :=
  let diff := p - c
  let distToPlane := V3.dot diff n
  let diffInPlane := diff - distToPlane * n
  V3.dot diffInPlane diffInPlane

/-- `points_in_disk`, one row: starts `True`, cleared by either of the two strict tests -/
def pointInDisk (p c : V3 α) (r : α) (n : V3 α) : Bool :=
  !(decide (diskSlab < absS (diskDistToPlane p c n))) &&
  !(decide (r * r < diskSqrInPlane p c n))

/-- branch id: bit 0 = slab test fired, bit 1 = radial test fired -/
def diskBranch (p c : V3 α) (r : α) (n : V3 α) : Nat :=
  (if diskSlab < absS (diskDistToPlane p c n) then 1 else 0) +
  (if r * r < diskSqrInPlane p c n then 2 else 0)

def pointsInDisk (ps : List (V3 α)) (c : V3 α) (r : α) (n : V3 α) : List Bool :=
  ps.map fun p => pointInDisk p c r n

/-! ### cone -/

/-- `dist_to_center_plane` of `points_in_cone` -/
def coneDistToCenterPlane (p : V3 α) (A : Pose α) (h : α) : α :=
  let halfHeight := 0.5 * h
  let diff := p - (A.t + halfHeight * A.R.col2)
  V3.dot diff A.R.col2

/-- `sqr_dist_in_plane` of `points_in_cone` -/
def coneSqrInPlane (p : V3 α) (A : Pose α) (h : α) : α :=
  let halfHeight := 0.5 * h
  let diff := p - (A.t + halfHeight * A.R.col2)
  let d := V3.dot diff A.R.col2
  let diffInPlane := diff - d * A.R.col2
  V3.dot diffInPlane diffInPlane

/-- `radii` of `points_in_cone` -/
def coneRadiusAt (p : V3 α) (A : Pose α) (r h : α) : α :=
  let halfHeight := 0.5 * h
  let distToBasePlane := coneDistToCenterPlane p A h + halfHeight
  (1 - distToBasePlane / h) * r

/-- `points_in_cone`, one row.  `outside_z` rows are cleared without touching the division;
`inside_z` rows divide by `height`. -/
def pointInCone (p : V3 α) (A : Pose α) (r h : α) : Except Err Bool :=
  let halfHeight := 0.5 * h
  if halfHeight < absS (coneDistToCenterPlane p A h) then .ok false
  else if isZero h then .error .divZero
  else
    let radii := coneRadiusAt p A r h
    .ok (!(decide (radii * radii < coneSqrInPlane p A h)))

/-- branch id: 0 outside_z, 1 inside_z and contained, 2 inside_z and radial test fired, 99 NaN -/
def coneBranch (p : V3 α) (A : Pose α) (r h : α) : Nat :=
  if 0.5 * h < absS (coneDistToCenterPlane p A h) then 0
  else match pointInCone p A r h with
    | .error _ => 99
    | .ok true => 1
    | .ok false => 2

def pointsInCone (ps : List (V3 α)) (A : Pose α) (r h : α) : Except Err (List Bool) :=
  ps.mapM fun p => pointInCone p A r h

/-! ### cylinder -/

/-- `dist_to_plane` of `points_in_cylinder` -/
def cylDistToPlane (p : V3 α) (A : Pose α) : α := V3.dot (p - A.t) A.R.col2

/-- `sqr_dist_in_plane` of `points_in_cylinder` -/
def cylSqrInPlane (p : V3 α) (A : Pose α) : α :=
  let diff := p - A.t
  let distToPlane := V3.dot diff A.R.col2
  let diffInPlane := diff - distToPlane * A.R.col2
  V3.dot diffInPlane diffInPlane

/-- `points_in_cylinder`, one row -/
def pointInCylinder (p : V3 α) (A : Pose α) (r len : α) : Bool :=
  !(decide (0.5 * len < absS (cylDistToPlane p A))) &&
  !(decide (r * r < cylSqrInPlane p A))

/-- branch id: bit 0 = axial test fired, bit 1 = radial test fired -/
def cylBranch (p : V3 α) (A : Pose α) (r len : α) : Nat :=
  (if 0.5 * len < absS (cylDistToPlane p A) then 1 else 0) +
  (if r * r < cylSqrInPlane p A then 2 else 0)

def pointsInCylinder (ps : List (V3 α)) (A : Pose α) (r len : α) : List Bool :=
  ps.map fun p => pointInCylinder p A r len

/-! ### box -/

/-- `points_in_box`, one row: `np.all(np.abs(points) <= 0.5 * size, axis=1)` -/
def pointInBox (p : V3 α) (A : Pose α) (size : V3 α) : Bool :=
  let q := localPoint A p
  decide (absS q.x ≤ 0.5 * size.x) && decide (absS q.y ≤ 0.5 * size.y) &&
  decide (absS q.z ≤ 0.5 * size.z)

/-- branch id: bit i set = coordinate i inside its interval -/
def boxBranch (p : V3 α) (A : Pose α) (size : V3 α) : Nat :=
  let q := localPoint A p
  (if absS q.x ≤ 0.5 * size.x then 1 else 0) + (if absS q.y ≤ 0.5 * size.y then 2 else 0) +
  (if absS q.z ≤ 0.5 * size.z then 4 else 0)

def pointsInBox (ps : List (V3 α)) (A : Pose α) (size : V3 α) : List Bool :=
  ps.map fun p => pointInBox p A size

/-! ### convex mesh -/

/-- a row of `faces = vertices[triangles]` -/
structure Face (α : Type) where
  v0 : V3 α
  v1 : V3 α
  v2 : V3 α
  deriving Repr, Inhabited

/-- NumPy integer indexing of the first axis: `-n ≤ i < n`, negative indices wrap; anything
else raises `IndexError` -/
def getVertex (vs : Array (V3 α)) (i : Int) : Except Err (V3 α) :=
  let j : Int := if 0 ≤ i then i else (vs.size : Int) + i
  if 0 ≤ j then
    match vs[j.toNat]? with
    | some v => .ok v
    | none => .error .indexOOB
  else .error .indexOOB

/-- one row of `vertices[triangles]` -/
def getFace (vs : Array (V3 α)) (tri : Int × Int × Int) : Except Err (Face α) := do
  let a ← getVertex vs tri.1
  let b ← getVertex vs tri.2.1
  let c ← getVertex vs tri.2.2
  pure ⟨a, b, c⟩

/-- `faces = vertices[triangles]` -/
def meshFaces (vs : Array (V3 α)) (tris : List (Int × Int × Int)) : Except Err (List (Face α)) :=
  tris.mapM (getFace vs)

/-- `np.cross(faces[:, 1] - faces[:, 0], faces[:, 2] - faces[:, 0])` -/
def faceNormal (f : Face α) : V3 α := V3.cross (f.v1 - f.v0) (f.v2 - f.v0)

/-- `np.mean(faces, axis=1)`: sum of the three rows, divided by the count -/
def faceCenter (f : Face α) : V3 α := V3.sdiv (f.v0 + f.v1 + f.v2) three

/-- `np.sum(face_normals * (point - face_centers), axis=1)`, one face -/
def faceProj (f : Face α) (q : V3 α) : α := V3.dot (faceNormal f) (q - faceCenter f)

/-- the loop body of `points_in_convex_mesh` for one point (faces already gathered) -/
def pointInFaces (fs : List (Face α)) (A : Pose α) (p : V3 α) : Bool :=
  let q := localPoint A p
  !(fs.any fun f => decide (0 < faceProj f q))

/-- branch id: number of faces whose test fired -/
def meshBranch (fs : List (Face α)) (A : Pose α) (p : V3 α) : Nat :=
  let q := localPoint A p
  (fs.filter fun f => decide (0 < faceProj f q)).length

/-- `points_in_convex_mesh` (the gather `vertices[triangles]` happens once, before the loop
over the points, and can raise even for an empty batch) -/
def pointsInConvexMesh (ps : List (V3 α)) (A : Pose α) (vs : Array (V3 α))
    (tris : List (Int × Int × Int)) : Except Err (List Bool) := do
  let fs ← meshFaces vs tris
  pure (ps.map fun p => pointInFaces fs A p)

end ContainTest
end D3
