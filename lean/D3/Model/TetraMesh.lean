/-
Model of the tetrahedral mesh factories and mesh helpers of
`distance3d/hydroelastic_contact/_tetra_mesh_creation.py` and `_mesh_processing.py`
(core Lean only, scalar-polymorphic).

Conventions
* a mesh is `(vertices, tetrahedra, potentials)`; vertex indices are `Nat` (the Python code keeps
  them in float arrays `v`, `m` and converts at the end: only equality of indices is used);
* fancy indexing `vertices[tetrahedra]` raises `IndexError` on an index outside the array:
  `Err.indexOOB`;
* a division by zero inside numpy (`inf`/`nan` + RuntimeWarning) or of Python floats
  (`ZeroDivisionError`) is `Err.divZero`; the `assert len(mesh_vertices) <= 12` of the box factory
  is `Err.assertFail`;
* the tolerance factor `1e-14` of `make_tetrahedral_box` / `make_tetrahedral_cylinder` is a literal
  inside the function bodies (not a named constant or default argument, hence not in
  `D3/Gen/Constants.lean`); it is `tolFactor` below and the harness compares it with the literal
  found in the source AST on every run;
* functions with a case analysis return / have a companion `…Branch` (printed by the driver).
-/
import D3.Model.Vec

namespace D3
namespace TetraMesh

/-- one row of `tetrahedra`: four vertex indices -/
structure Tet where
  i0 : Nat
  i1 : Nat
  i2 : Nat
  i3 : Nat
  deriving Repr, DecidableEq, Inhabited

def Tet.toList (t : Tet) : List Nat := [t.i0, t.i1, t.i2, t.i3]

/-- one row of `tetrahedra_points` (shape (4,3)) -/
structure TetPts (α : Type) where
  p0 : V3 α
  p1 : V3 α
  p2 : V3 α
  p3 : V3 α
  deriving Repr, Inhabited

/-- one `(3,2)` block of `tetrahedral_mesh_aabbs`: `[[lo0,hi0],[lo1,hi1],[lo2,hi2]]` -/
structure Box3 (α : Type) where
  lo0 : α
  hi0 : α
  lo1 : α
  hi1 : α
  lo2 : α
  hi2 : α
  deriving Repr, Inhabited

/-- `(vertices, tetrahedra, potentials)` -/
structure Mesh (α : Type) where
  vertices : List (V3 α)
  tets : List Tet
  potentials : List α
  deriving Repr, Inhabited

scalar_variables

/-! ## `_mesh_processing.py` -/

/-- `np.sum(np.cross(e0, e1) * e2)` with `e_i = p_{i+1} - p_0`: six times the signed volume -/
def det3 (t : TetPts α) : α :=
  V3.dot (V3.cross (t.p1 - t.p0) (t.p2 - t.p0)) (t.p3 - t.p0)

/-- one entry of `tetrahedral_mesh_volumes` : `np.abs(det) / 6.0` -/
def tetraVolume (t : TetPts α) : α := absS (det3 t) / 6.0

/-- `tetrahedral_mesh_volumes` -/
def meshVolumes (ts : List (TetPts α)) : List α := ts.map tetraVolume

/-- which branch `np.abs` takes: 0 negative determinant, 1 zero, 2 positive -/
def volumeBranch (t : TetPts α) : Nat :=
  if det3 t < 0 then 0 else if 0 < det3 t then 2 else 1

/-- `np.min(·, axis=1)` over the four points: left fold -/
def min4 (a b c d : α) : α := min (min (min a b) c) d
def max4 (a b c d : α) : α := max (max (max a b) c) d

/-- one block of `tetrahedral_mesh_aabbs` : `np.dstack((mins, maxs))` -/
def tetAabb (t : TetPts α) : Box3 α :=
  { lo0 := min4 t.p0.x t.p1.x t.p2.x t.p3.x, hi0 := max4 t.p0.x t.p1.x t.p2.x t.p3.x,
    lo1 := min4 t.p0.y t.p1.y t.p2.y t.p3.y, hi1 := max4 t.p0.y t.p1.y t.p2.y t.p3.y,
    lo2 := min4 t.p0.z t.p1.z t.p2.z t.p3.z, hi2 := max4 t.p0.z t.p1.z t.p2.z t.p3.z }

/-- `tetrahedral_mesh_aabbs` -/
def meshAabbs (ts : List (TetPts α)) : List (Box3 α) := ts.map tetAabb

/-- `tetrahedra_points.mean(axis=1)` : sum of the four points divided by 4 -/
def centroid (t : TetPts α) : V3 α := V3.sdiv (((t.p0 + t.p1) + t.p2) + t.p3) 4.0

/-- `np.sum(volumes)` -/
def sumS (l : List α) : α := l.foldl (· + ·) 0

/-- `np.dot(volumes, centers)` -/
def weightedSum (ts : List (TetPts α)) : V3 α :=
  ts.foldl (fun acc t => acc + (tetraVolume t) * (centroid t)) V3.zero

/-- `center_of_mass_tetrahedral_mesh` : `np.dot(volumes, centers) / np.sum(volumes)`
(0/0 → NaN with a RuntimeWarning for an empty or fully degenerate mesh: `divZero`) -/
def centerOfMass (ts : List (TetPts α)) : Except Err (V3 α) :=
  let den := sumS (meshVolumes ts)
  if den = 0 then .error .divZero else .ok (V3.sdiv (weightedSum ts) den)

/-! ## indexing -/

/-- checked read `vertices[i]` -/
def getV (vs : List (V3 α)) (i : Nat) : Except Err (V3 α) :=
  match vs[i]? with
  | some p => .ok p
  | none => .error .indexOOB

/-- `vertices[tet]` -/
def tetPoints (vs : List (V3 α)) (t : Tet) : Except Err (TetPts α) := do
  let a ← getV vs t.i0
  let b ← getV vs t.i1
  let c ← getV vs t.i2
  let d ← getV vs t.i3
  pure ⟨a, b, c, d⟩

/-- `RigidBody.tetrahedra_points` : `vertices[tetrahedra]` -/
def Mesh.tetrahedraPoints (m : Mesh α) : Except Err (List (TetPts α)) :=
  m.tets.mapM (tetPoints m.vertices)

/-- `tetrahedral_mesh_volumes(vertices[tetrahedra])` -/
def Mesh.volumes (m : Mesh α) : Except Err (List α) := do
  let pts ← m.tetrahedraPoints
  pure (meshVolumes pts)

/-- `len({a, b, c, d}) == 4` -/
def distinct4 (a b c d : Nat) : Bool :=
  a != b && a != c && a != d && b != c && b != d && c != d

def Tet.distinct (t : Tet) : Bool := distinct4 t.i0 t.i1 t.i2 t.i3

/-! ## `make_tetrahedral_cube` -/

/-- the literal coordinate table (rows 0–7 corners, row 8 centre) -/
def cubeCoords : List (V3 α) :=
  [⟨-0.5, -0.5, -0.5⟩, ⟨-0.5, -0.5, 0.5⟩, ⟨-0.5, 0.5, -0.5⟩, ⟨-0.5, 0.5, 0.5⟩,
   ⟨0.5, -0.5, -0.5⟩, ⟨0.5, -0.5, 0.5⟩, ⟨0.5, 0.5, -0.5⟩, ⟨0.5, 0.5, 0.5⟩,
   ⟨0, 0, 0⟩]

def cubeTets : List Tet :=
  [⟨0, 2, 6, 8⟩, ⟨0, 4, 5, 8⟩, ⟨0, 1, 2, 8⟩, ⟨1, 3, 2, 8⟩, ⟨1, 5, 7, 8⟩, ⟨1, 7, 3, 8⟩,
   ⟨5, 1, 0, 8⟩, ⟨5, 6, 7, 8⟩, ⟨6, 2, 3, 8⟩, ⟨6, 3, 7, 8⟩, ⟨6, 4, 0, 8⟩, ⟨6, 5, 4, 8⟩]

/-- `make_tetrahedral_cube(size)` -/
def makeTetrahedralCube (size : α) : Mesh α :=
  { vertices := (cubeCoords (α := α)).map fun c => size * c
    tets := cubeTets
    potentials := [0, 0, 0, 0, 0, 0, 0, 0, size / 2] }

/-! ## `make_tetrahedral_box` -/

/-- the literal `1e-14` in `relative_tolerance = 1e-14 * max(1, min_half_size)` and in the
cylinder's `tolerance = 1e-14 * max(1, min(top_z, radius))` -/
def tolFactor : α := 1e-14

/-- `-h if i == 0 else h` -/
def sgn (i : Nat) (h : α) : α := if i = 0 then -h else h

/-- `[x, y, z]` of the loop body for the index triple `(i, j, k)` -/
def corner (h : V3 α) (ijk : Nat × Nat × Nat) : V3 α :=
  ⟨sgn ijk.1 h.x, sgn ijk.2.1 h.y, sgn ijk.2.2 h.z⟩

/-- iteration order of the three nested `range(2)` loops -/
def ijkOrder : List (Nat × Nat × Nat) :=
  [(0, 0, 0), (0, 0, 1), (0, 1, 0), (0, 1, 1), (1, 0, 0), (1, 0, 1), (1, 1, 0), (1, 1, 1)]

/-- flat position of `(i, j, k)` in a `(2,2,2)` array -/
def flat (i j k : Nat) : Nat := 4 * i + 2 * j + k

/-- read `m[i, j, k]` from the part of the table filled so far -/
def mGet (m : List Nat) (i j k : Nat) : Nat := m.getD (flat i j k) 0

/-- first pass: the eight outer vertices; `v[i, j, k] = len(mesh_vertices)` before the append,
i.e. `v[i,j,k] = flat i j k` -/
def outerVertices (halfSize : V3 α) : List (V3 α) := ijkOrder.map (corner halfSize)

/-- one iteration of the second pass. State: the table `m` (filled in iteration order) and the
vertex list. `zx`, `zy`, `zz` are the tests `half_central[a] == 0` (constant during the loop). -/
def medialStep (zx zy zz : Bool) (halfCentral : V3 α)
    (st : List Nat × List (V3 α)) (ijk : Nat × Nat × Nat) : List Nat × List (V3 α) :=
  let (m, verts) := st
  let (i, j, k) := ijk
  let dupI := i == 1 && zx
  let dupJ := j == 1 && zy
  let dupK := k == 1 && zz
  let idx :=
    if dupI then mGet m 0 j k
    else if dupJ then mGet m i 0 k
    else if dupK then mGet m i j 0
    else verts.length
  let verts := if !dupI && !dupJ && !dupK then verts ++ [corner halfCentral ijk] else verts
  (m ++ [idx], verts)

/-- second pass over all `(i, j, k)` -/
def medialPass (zx zy zz : Bool) (halfCentral : V3 α) (verts : List (V3 α)) :
    List Nat × List (V3 α) :=
  ijkOrder.foldl (medialStep zx zy zz halfCentral) ([], verts)

/-- `_split_to_tetrahedra` : walk around the diagonal `v0 – v6`, drop 4-sets with repeats -/
def splitToTetrahedra (v0 v1 v2 v3 v4 v5 v6 v7 : Nat) : List Tet :=
  let step (st : Nat × List Tet) (next : Nat) : Nat × List Tet :=
    let (previous, elements) := st
    let elements :=
      if distinct4 previous next v0 v6 then elements ++ [⟨previous, next, v0, v6⟩] else elements
    (next, elements)
  ([v2, v3, v7, v4, v5, v1].foldl step (v1, [])).2

/-- the six `mesh_elements.extend(_split_to_tetrahedra(…))` calls; `m` is the medial table,
`v i j k = flat i j k` -/
def boxElements (m : List Nat) : List Tet :=
  let M := mGet m
  let v := flat
  splitToTetrahedra (M 1 0 0) (M 1 1 0) (M 1 1 1) (M 1 0 1) (v 1 0 0) (v 1 1 0) (v 1 1 1) (v 1 0 1) ++
  splitToTetrahedra (M 0 0 0) (M 0 0 1) (M 0 1 1) (M 0 1 0) (v 0 0 0) (v 0 0 1) (v 0 1 1) (v 0 1 0) ++
  splitToTetrahedra (M 0 1 0) (M 0 1 1) (M 1 1 1) (M 1 1 0) (v 0 1 0) (v 0 1 1) (v 1 1 1) (v 1 1 0) ++
  splitToTetrahedra (M 0 0 0) (M 1 0 0) (M 1 0 1) (M 0 0 1) (v 0 0 0) (v 1 0 0) (v 1 0 1) (v 0 0 1) ++
  splitToTetrahedra (M 0 0 1) (M 1 0 1) (M 1 1 1) (M 0 1 1) (v 0 0 1) (v 1 0 1) (v 1 1 1) (v 0 1 1) ++
  splitToTetrahedra (M 0 0 0) (M 0 1 0) (M 1 1 0) (M 1 0 0) (v 0 0 0) (v 0 1 0) (v 1 1 0) (v 1 0 0)

/-- `potentials = np.zeros(n); potentials[8:] = min_half_size` -/
def boxPotentials (n : Nat) (minHalf : α) : List α :=
  (List.range n).map fun i => if i < 8 then 0 else minHalf

/-- everything after the thresholding of `half_central` -/
def boxFromCentral (halfSize halfCentral : V3 α) (minHalf : α) : Except Err (Mesh α) :=
  let zx := decide (halfCentral.x = 0)
  let zy := decide (halfCentral.y = 0)
  let zz := decide (halfCentral.z = 0)
  let (m, verts) := medialPass zx zy zz halfCentral (outerVertices halfSize)
  if verts.length > 12 then .error .assertFail
  else .ok { vertices := verts, tets := boxElements m, potentials := boxPotentials verts.length minHalf }

/-- `min(half_size)` (Python's builtin over the array: left to right) -/
def minHalfSize (halfSize : V3 α) : α := min (min halfSize.x halfSize.y) halfSize.z

/-- `relative_tolerance = 1e-14 * max(1, min_half_size)` -/
def relativeTolerance (minHalf : α) : α := tolFactor * max 1 minHalf

/-- `half_central[half_central <= relative_tolerance] = 0` on one component -/
def threshold (tol x : α) : α := if x ≤ tol then 0 else x

/-- `half_central` after the thresholding -/
def halfCentralOf (halfSize : V3 α) : V3 α :=
  let mn := minHalfSize halfSize
  let tol := relativeTolerance mn
  ⟨threshold tol (halfSize.x - mn), threshold tol (halfSize.y - mn), threshold tol (halfSize.z - mn)⟩

/-- `make_tetrahedral_box(size)` -/
def makeTetrahedralBox (size : V3 α) : Except Err (Mesh α) :=
  let halfSize : V3 α := (0.5 : α) * size
  boxFromCentral halfSize (halfCentralOf halfSize) (minHalfSize halfSize)

/-- class of the box: bit 2/1/0 set iff the medial vertices are duplicated along x/y/z
(7 = cube class, 3/5/6 = two equal smallest sides, 1/2/4 = one smallest side) -/
def boxBranch (size : V3 α) : Nat :=
  let hc := halfCentralOf ((0.5 : α) * size)
  (if hc.x = 0 then 4 else 0) + (if hc.y = 0 then 2 else 0) + (if hc.z = 0 then 1 else 0)

/-! ## prism / pyramid splitting (cylinder and capsule) -/

/-- `_split_triangular_prism_to_tetrahedra` -/
def splitPrism (v0 v1 v2 v3 v4 v5 : Nat) : List Tet :=
  [⟨v3, v4, v0, v5⟩, ⟨v4, v1, v0, v5⟩, ⟨v1, v2, v0, v5⟩]

/-- `_split_pyramid_to_tetrahedra` -/
def splitPyramid (v0 v1 v2 v3 v4 : Nat) : List Tet :=
  [⟨v3, v4, v0, v2⟩, ⟨v4, v1, v0, v2⟩]

/-- `float(i)` for a loop counter -/
def ofNatS : Nat → α
  | 0 => 0
  | n + 1 => ofNatS n + 1

/-- `np.pi` (the double nearest to π) -/
def piLit : α := 3.141592653589793

/-! ## `make_tetrahedral_cylinder` -/

/-- `CylinderClass` : `Long = 0`, `Medium = 1`, `Short = 2` -/
def cylinderClass (radius length : α) : Nat :=
  let topZ := (0.5 : α) * length
  let tolerance := tolFactor * max 1 (min topZ radius)
  if topZ - radius > tolerance then 0
  else if radius - topZ > tolerance then 2
  else 1

/-- `max(3, math.ceil(x))` : the least integer `n ≥ 3` with `x ≤ n`, found by counting
(`fuel` bounds the count; running out is `Err.fuel`) -/
def ceilMax3Loop (x : α) : Nat → Nat → α → Except Err Nat
  | 0, _, _ => .error .fuel
  | fuel + 1, n, acc => if x ≤ acc then .ok n else ceilMax3Loop x fuel (n + 1) (acc + 1)

def ceilMax3 (x : α) (fuel : Nat) : Except Err Nat := ceilMax3Loop x fuel 3 (1 + 2)

section trig
variable [HasTrig α]

/-- `[x, y]` of circle vertex `i` : `radius * cos(angle_step * i)`, `radius * sin(angle_step * i)` -/
def circleXY (radius angleStep : α) (i : Nat) : α × α :=
  (radius * HasTrig.cos (angleStep * ofNatS i), radius * HasTrig.sin (angleStep * ofNatS i))

/-- the outer vertices: `[bottom_center, top_center, bottom[0], top[0], bottom[1], top[1], …]` -/
def cylinderOuter (radius topZ : α) (n : Nat) : List (V3 α) :=
  let bottomZ := -topZ
  let angleStep := 2 * piLit / ofNatS n
  [⟨0, 0, bottomZ⟩, ⟨0, 0, topZ⟩] ++
    (List.range n).flatMap fun i =>
      let xy := circleXY radius angleStep i
      [⟨xy.1, xy.2, bottomZ⟩, ⟨xy.1, xy.2, topZ⟩]

end trig

/-- index of `bottom[i]` / `top[i]`; `bottom_center = 0`, `top_center = 1` -/
def cylBottom (i : Nat) : Nat := 2 + 2 * i
def cylTop (i : Nat) : Nat := 3 + 2 * i

/-- the `(i, j)` pairs of `i = n - 1; for j in range(n): …; i = j` -/
def ringPairs (n : Nat) : List (Nat × Nat) :=
  (List.range n).map fun j => (if j = 0 then n - 1 else j - 1, j)

/-- elements of `_calc_long_cylinder_volume_mesh_with_ma`; `med0`, `med1` the medial indices -/
def longElements (n med0 med1 : Nat) : List Tet :=
  (ringPairs n).flatMap fun (i, j) =>
    [⟨0, cylBottom i, cylBottom j, med0⟩, ⟨1, cylTop j, cylTop i, med1⟩] ++
      splitPrism med0 (cylBottom i) (cylBottom j) med1 (cylTop i) (cylTop j)

/-- elements of `_calc_medium_cylinder_volume_mesh_with_ma` -/
def mediumElements (n med : Nat) : List Tet :=
  (ringPairs n).flatMap fun (i, j) =>
    [⟨0, cylBottom i, cylBottom j, med⟩, ⟨1, cylTop j, cylTop i, med⟩] ++
      splitPyramid (cylTop i) (cylTop j) (cylBottom j) (cylBottom i) med

/-- elements of `_calc_short_cylinder_volume_mesh_with_ma`; `center` then `medial[i] = center+1+i` -/
def shortElements (n center : Nat) : List Tet :=
  let med (i : Nat) := center + 1 + i
  (ringPairs n).flatMap fun (i, j) =>
    splitPrism 0 (cylBottom i) (cylBottom j) center (med i) (med j) ++
    splitPrism center (med i) (med j) 1 (cylTop i) (cylTop j) ++
    splitPrism (cylBottom i) (med i) (cylTop i) (cylBottom j) (med j) (cylTop j)

section trig
variable [HasTrig α]

/-- the mesh for a given class and number of vertices per circle -/
def cylinderMeshN (cls : Nat) (radius length : α) (n : Nat) : Except Err (Mesh α) :=
  let topZ := (0.5 : α) * length
  let outer := cylinderOuter radius topZ n
  let nOuter := outer.length
  let pot0 : List α := List.replicate nOuter 0
  if cls = 0 then
    let offsetTopZ := topZ - radius
    let offsetBottomZ := -offsetTopZ
    .ok { vertices := outer ++ [⟨0, 0, offsetBottomZ⟩, ⟨0, 0, offsetTopZ⟩]
          tets := longElements n nOuter (nOuter + 1)
          potentials := pot0 ++ [radius, radius] }
  else if cls = 1 then
    .ok { vertices := outer ++ [⟨0, 0, 0⟩]
          tets := mediumElements n nOuter
          potentials := pot0 ++ [radius] }
  else
    let halfLength := (0.5 : α) * length
    let medialRadius := radius - halfLength
    if radius = 0 then .error .divZero
    else
      let scale := medialRadius / radius
      let angleStep := 2 * piLit / ofNatS n
      let medial : List (V3 α) := (List.range n).map fun i =>
        let xy := circleXY radius angleStep i
        ⟨xy.1 * scale, xy.2 * scale, 0⟩
      .ok { vertices := outer ++ [⟨0, 0, 0⟩] ++ medial
            tets := shortElements n nOuter
            potentials := pot0 ++ [halfLength] ++ List.replicate n halfLength }

/-- `make_tetrahedral_cylinder(radius, length, resolution_hint)` -/
def makeTetrahedralCylinder (radius length resolutionHint : α) (fuel : Nat) :
    Except Err (Mesh α) :=
  if resolutionHint = 0 then .error .divZero
  else
    match ceilMax3 (2 * piLit * radius / resolutionHint) fuel with
    | .error e => .error e
    | .ok n => cylinderMeshN (cylinderClass radius length) radius length n

end trig

/-! ## `make_triangular_icosphere`, `make_tetrahedral_sphere`, `make_tetrahedral_ellipsoid` -/

/-- the 20 initial triangles -/
def icoTriangles0 : List (Nat × Nat × Nat) :=
  [(0, 11, 5), (0, 5, 1), (0, 1, 7), (0, 7, 10), (0, 10, 11), (11, 10, 2),
   (5, 11, 4), (1, 5, 9), (7, 1, 8), (10, 7, 6), (3, 9, 4), (3, 4, 2),
   (3, 2, 6), (3, 6, 8), (3, 8, 9), (9, 8, 1), (4, 9, 5), (2, 4, 11),
   (6, 2, 10), (8, 6, 7)]

/-- Cantor's pairing function: `floor((a+b)(a+b+1)/2) + min(a,b)` (the product is even) -/
def cantorKey (a b : Nat) : Nat := (a + b) * (a + b + 1) / 2 + min a b

/-- state of the subdivision: midpoint cache (key ↦ vertex index), next free vertex index `v`,
and the parents `(a, b)` of every vertex created so far, in creation order -/
structure IcoState where
  cache : List (Nat × Nat)
  v : Nat
  parents : List (Nat × Nat)
  deriving Repr, Inhabited

/-- `add_mid_point(a, b, mid_cache, v)` : second request of an edge pops the cached index -/
def addMidPoint (a b : Nat) (st : IcoState) : Nat × IcoState :=
  let key := cantorKey a b
  match st.cache.lookup key with
  | some i => (i, { st with cache := st.cache.filter fun kv => kv.1 != key })
  | none => (st.v, { cache := (key, st.v) :: st.cache, v := st.v + 1,
                     parents := st.parents ++ [(a, b)] })

/-- body of the loop over `triangles_prev` -/
def subdivideTriangle (acc : List (Nat × Nat × Nat) × IcoState) (tri : Nat × Nat × Nat) :
    List (Nat × Nat × Nat) × IcoState :=
  let (tris, st) := acc
  let (v1, v2, v3) := tri
  let (a, st) := addMidPoint v1 v2 st
  let (b, st) := addMidPoint v2 v3 st
  let (c, st) := addMidPoint v3 v1 st
  (tris ++ [(v1, a, c), (v2, b, a), (v3, c, b), (a, b, c)], st)

/-- one pass `for k, triangle in enumerate(triangles_prev)` -/
def subdivideOnce (acc : List (Nat × Nat × Nat) × IcoState) : List (Nat × Nat × Nat) × IcoState :=
  acc.1.foldl subdivideTriangle ([], acc.2)

/-- `for _ in range(order)` : triangles and the creation record of all midpoints -/
def icoTopology (order : Nat) : List (Nat × Nat × Nat) × IcoState :=
  Nat.repeat subdivideOnce order (icoTriangles0, ⟨[], 12, []⟩)

/-- allocated number of rows: `10 * 4 ** order + 2` -/
def icoVertexCount (order : Nat) : Nat := 10 * 4 ^ order + 2

/-- `f = (1 + 5 ** 0.5) / 2` -/
def goldenF : α := (1 + sqrt (5.0 : α)) / 2

/-- the 12 initial vertices -/
def icoVertices0 : List (V3 α) :=
  let f : α := goldenF
  [⟨-1, f, 0⟩, ⟨1, f, 0⟩, ⟨-1, -f, 0⟩, ⟨1, -f, 0⟩, ⟨0, -1, f⟩, ⟨0, 1, f⟩,
   ⟨0, -1, -f⟩, ⟨0, 1, -f⟩, ⟨f, 0, -1⟩, ⟨f, 0, 1⟩, ⟨-f, 0, -1⟩, ⟨-f, 0, 1⟩]

/-- `vertices[v] = 0.5 * (vertices[a] + vertices[b])` for every created midpoint, in order -/
def icoMidpoints (vs : List (V3 α)) : List (Nat × Nat) → Except Err (List (V3 α))
  | [] => .ok vs
  | (a, b) :: rest => do
    let pa ← getV vs a
    let pb ← getV vs b
    icoMidpoints (vs ++ [(0.5 : α) * (pa + pb)]) rest

/-- one row of `vertices /= 1 / radius * norm(vertices)` -/
def normalizeRow (radius : α) (p : V3 α) : Except Err (V3 α) :=
  if radius = 0 then .error .divZero
  else
    let d := 1 / radius * V3.norm p
    if d = 0 then .error .divZero else .ok (V3.sdiv p d)

/-- `make_triangular_icosphere(center, radius, order)`.  Rows of the preallocated array that the
subdivision never writes stay zero (→ 0/0 in the normalisation: `divZero`); a write past the
allocated rows is an `IndexError`. -/
def makeTriangularIcosphere (center : V3 α) (radius : α) (order : Nat) :
    Except Err (List (V3 α) × List (Nat × Nat × Nat)) :=
  let topo := icoTopology order
  let n := icoVertexCount order
  if topo.2.v > n then .error .indexOOB
  else
    match icoMidpoints (icoVertices0 (α := α)) topo.2.parents with
    | .error e => .error e
    | .ok vs =>
      match (vs ++ List.replicate (n - vs.length) V3.zero).mapM (normalizeRow radius) with
      | .error e => .error e
      | .ok vs => .ok (vs.map (· + center), topo.1)

/-- `np.hstack((triangles, center_idx * ones))` -/
def fanTets (tris : List (Nat × Nat × Nat)) (centerIdx : Nat) : List Tet :=
  tris.map fun (a, b, c) => ⟨a, b, c, centerIdx⟩

/-- `make_tetrahedral_sphere(radius, order)` -/
def makeTetrahedralSphere (radius : α) (order : Nat) : Except Err (Mesh α) :=
  match makeTriangularIcosphere V3.zero radius order with
  | .error e => .error e
  | .ok (vs, tris) =>
    let centerIdx := vs.length
    .ok { vertices := vs ++ [V3.zero]
          tets := fanTets tris centerIdx
          potentials := List.replicate vs.length 0 ++ [radius] }

/-- `vertices *= radii[np.newaxis]` on one row -/
def scaleRow (radii p : V3 α) : V3 α := ⟨p.x * radii.x, p.y * radii.y, p.z * radii.z⟩

/-- `make_tetrahedral_ellipsoid(radii, order)` -/
def makeTetrahedralEllipsoid (radii : V3 α) (order : Nat) : Except Err (Mesh α) :=
  match makeTriangularIcosphere V3.zero 1 order with
  | .error e => .error e
  | .ok (vs0, tris) =>
    let vs := vs0.map (scaleRow radii)
    let centerIdx := vs.length
    .ok { vertices := vs ++ [V3.zero]
          tets := fanTets tris centerIdx
          potentials := List.replicate vs.length 0 ++ [min (min radii.x radii.y) radii.z] }

/-! ## `make_tetrahedral_capsule` -/

/-- `int(np.clip(x, 3.0, 706.0))` : the largest integer `n` in `[3, 706]` with `n ≤ x`
(3 if `x < 3`), found by counting -/
def clipIntLoop (x : α) : Nat → Nat → α → Nat
  | 0, n, _ => n
  | fuel + 1, n, acc => if acc + 1 ≤ x then clipIntLoop x fuel (n + 1) (acc + 1) else n

def clipInt3_706 (x : α) : Nat := clipIntLoop x 703 3 (1 + 2)

/-- index of `top_cap[q]` / `bottom_cap[q]`; `medial_top = 0`, `medial_bottom = 1`, `top = 2`,
`bottom = 3` -/
def capTop (q : Nat) : Nat := 4 + 2 * q
def capBottom (q : Nat) : Nat := 5 + 2 * q

section trig
variable [HasTrig α]

/-- vertices of the capsule for `n` vertices per circle -/
def capsuleVertices (radius height : α) (n : Nat) : Except Err (List (V3 α)) :=
  let medialTopZ := (0.5 : α) * height
  let medialBottomZ := -medialTopZ
  let topZ := medialTopZ + radius
  let bottomZ := -topZ
  let nCirc := n / 2
  if nCirc = 0 ∨ n = 0 then .error .divZero
  else
    let thetaStep := 0.5 * piLit / ofNatS nCirc
    let phiStep := 2 * piLit / ofNatS n
    .ok ([⟨0, 0, medialTopZ⟩, ⟨0, 0, medialBottomZ⟩, ⟨0, 0, topZ⟩, ⟨0, 0, bottomZ⟩] ++
      (List.range nCirc).flatMap fun i =>
        let theta := 0.5 * piLit - ofNatS i * thetaStep
        let s := HasTrig.sin theta
        let topCircleZ := radius * HasTrig.cos theta + medialTopZ
        let bottomCircleZ := -topCircleZ
        (List.range n).flatMap fun j =>
          let phi := ofNatS j * phiStep
          let x := radius * s * HasTrig.cos phi
          let y := radius * s * HasTrig.sin phi
          [⟨x, y, topCircleZ⟩, ⟨x, y, bottomCircleZ⟩])

end trig

/-- elements of the capsule -/
def capsuleElements (n : Nat) : List Tet :=
  let nCirc := n / 2
  let caps : List Tet :=
    (List.range (nCirc - 1)).flatMap fun i =>
      (List.range n).flatMap fun j =>
        let j1 := (j + 1) % n
        splitPyramid (capTop ((i + 1) * n + j)) (capTop ((i + 1) * n + j1)) (capTop (i * n + j1))
          (capTop (i * n + j)) 0 ++
        splitPyramid (capBottom (i * n + j)) (capBottom (i * n + j1)) (capBottom ((i + 1) * n + j1))
          (capBottom ((i + 1) * n + j)) 1
  let off := (nCirc - 1) * n
  let rest : List Tet :=
    (List.range n).flatMap fun j =>
      let j1 := (j + 1) % n
      [⟨2, capTop (off + j1), capTop (off + j), 0⟩, ⟨3, capBottom (off + j), capBottom (off + j1), 1⟩] ++
        splitPrism 1 (capBottom j) (capBottom j1) 0 (capTop j) (capTop j1)
  caps ++ rest

section trig
variable [HasTrig α]

/-- the capsule mesh for `n` vertices per circle -/
def capsuleMeshN (radius height : α) (n : Nat) : Except Err (Mesh α) := do
  let vs ← capsuleVertices radius height n
  pure { vertices := vs
         tets := capsuleElements n
         potentials := (List.range vs.length).map fun i => if i < 2 then radius else 0 }

/-- `make_tetrahedral_capsule(radius, height, resolution_hint)` -/
def makeTetrahedralCapsule (radius height resolutionHint : α) : Except Err (Mesh α) :=
  if resolutionHint = 0 then .error .divZero
  else capsuleMeshN radius height (clipInt3_706 (2 * piLit * radius / resolutionHint))

end trig

end TetraMesh
end D3
