/-
Tree layer of the AABB-tree model (core Lean only, executable).

`T α` is the mathematical binary tree; `Rep nodes aabbs t` says the arrays encode `t`;
`absTree` reconstructs `t` from arrays (executable, fuel-driven) and `wfCheck` is the
decidable well-formedness check that the harness runs, through the driver, on the
arrays dumped from the *implementation* after every operation.
-/
import D3.Model.Aabb

namespace D3
namespace Aabb

inductive T (α : Type) where
  | leaf (i : Int) (b : Box α)
  | node (i : Int) (b : Box α) (l r : T α)
  deriving Repr

scalar_variables

def T.idx : T α → Int
  | .leaf i _ => i
  | .node i _ _ _ => i

def T.box : T α → Box α
  | .leaf _ b => b
  | .node _ b _ _ => b

def T.size : T α → Nat
  | .leaf _ _ => 1
  | .node _ _ l r => l.size + r.size + 1

/-- leaves in the order the traversal visits them (right subtree first) -/
def T.leaves : T α → List (Int × Box α)
  | .leaf i b => [(i, b)]
  | .node _ _ l r => r.leaves ++ l.leaves

/-- all node indices -/
def T.indices : T α → List Int
  | .leaf i _ => [i]
  | .node i _ l r => i :: (l.indices ++ r.indices)

/-- pruned depth-first traversal, the recursive counterpart of `query_overlap` -/
def T.collect (q : Box α) : T α → List Int
  | .leaf i b => if overlap b q then [i] else []
  | .node _ b l r => if overlap b q then r.collect q ++ l.collect q else []

/-- box containment `a ⊆ b` -/
def Box.le (a b : Box α) : Prop :=
  b.lo0 ≤ a.lo0 ∧ a.hi0 ≤ b.hi0 ∧ b.lo1 ≤ a.lo1 ∧ a.hi1 ≤ b.hi1 ∧ b.lo2 ≤ a.lo2 ∧ a.hi2 ≤ b.hi2

/-- every inner box equals the merge of its children's boxes (what `fix_upward_tree` maintains) -/
def T.Tight : T α → Prop
  | .leaf _ _ => True
  | .node _ b l r => b = merge l.box r.box ∧ l.Tight ∧ r.Tight

/-- every inner box contains its children's boxes (all that query exactness needs) -/
def T.Encl : T α → Prop
  | .leaf _ _ => True
  | .node _ b l r => Box.le l.box b ∧ Box.le r.box b ∧ l.Encl ∧ r.Encl

/-- the arrays encode the tree -/
inductive Rep (nodes : Array Node) (aabbs : Array (Box α)) : T α → Prop where
  | leaf (i : Int) (b : Box α) (nd : Node) :
      rd nodes i = .ok nd → nd.typ = TYPE_LEAF → rd aabbs i = .ok b → Rep nodes aabbs (.leaf i b)
  | node (i : Int) (b : Box α) (nd : Node) (l r : T α) :
      rd nodes i = .ok nd → nd.typ ≠ TYPE_LEAF → nd.left = l.idx → nd.right = r.idx →
      rd aabbs i = .ok b → Rep nodes aabbs l → Rep nodes aabbs r → Rep nodes aabbs (.node i b l r)

/-- executable reconstruction (fuel = number of nodes + 1 suffices for a tree) -/
def absTree (nodes : Array Node) (aabbs : Array (Box α)) : Nat → Int → Option (T α)
  | 0, _ => none
  | fuel + 1, i =>
    match rd nodes i, rd aabbs i with
    | .ok nd, .ok b =>
      if nd.typ = TYPE_LEAF then some (.leaf i b)
      else
        match absTree nodes aabbs fuel nd.left, absTree nodes aabbs fuel nd.right with
        | some l, some r => some (.node i b l r)
        | _, _ => none
    | _, _ => none

/-- decidable tightness -/
def T.tightB : T α → Bool
  | .leaf _ _ => true
  | .node _ b l r => decide (b = merge l.box r.box) && l.tightB && r.tightB

/-- parent pointers agree with the tree structure -/
def parentsOk (nodes : Array Node) : Int → T α → Bool
  | p, .leaf i _ => match rd nodes i with
    | .ok nd => decide (nd.parent = p) && decide (nd.left = INDEX_NONE) && decide (nd.right = INDEX_NONE)
    | _ => false
  | p, .node i _ l r => match rd nodes i with
    | .ok nd => decide (nd.parent = p) && decide (nd.typ = TYPE_BRANCH) &&
        parentsOk nodes i l && parentsOk nodes i r
    | _ => false

def nodupB : List Int → Bool
  | [] => true
  | x :: xs => !(xs.contains x) && nodupB xs

/-- Well-formedness of a dumped state: returns the abstract tree if the arrays encode a
tight tree with distinct indices that uses *every* row `0 … filledLen-1`, consistent
parent pointers, and `filledLen = nodes.size = aabbs.size`. The empty tree is
`root = -1 ∧ filledLen = 0`. -/
def wfCheck (c : Core α) : Option (Option (T α)) :=
  if c.root = INDEX_NONE then
    if c.filledLen = 0 ∧ c.nodes.size = 0 ∧ c.aabbs.size = 0 then some none else none
  else
    match absTree c.nodes c.aabbs (c.nodes.size + 1) c.root with
    | none => none
    | some t =>
      if t.tightB && parentsOk c.nodes INDEX_NONE t && nodupB t.indices &&
         decide (t.size = c.filledLen) && decide (c.nodes.size = c.filledLen) &&
         decide (c.aabbs.size = c.filledLen) then some (some t) else none

/-! ### insertion on the tree layer -/

/-- `insert_leaf` seen on the tree: descend by merged-volume cost (ties go right), put a new
parent `p` above the reached leaf with the old subtree left and the new leaf right, refit
every ancestor to the merge of its children. `none` = the cost assertion fired. -/
def T.insert (li : Int) (lb : Box α) (p : Int) : T α → Option (T α)
  | .leaf i b => some (.node p (merge b lb) (.leaf i b) (.leaf li lb))
  | .node i b l r =>
    let costNew := volume (merge lb b)
    let costL := volume (merge lb l.box)
    let costR := volume (merge lb r.box)
    if costNew < costL ∧ costNew < costR then none
    else if costL < costR then
      match l.insert li lb p with
      | some l' => some (.node i (merge l'.box r.box) l' r)
      | none => none
    else
      match r.insert li lb p with
      | some r' => some (.node i (merge l.box r'.box) l r')
      | none => none

end Aabb
end D3
