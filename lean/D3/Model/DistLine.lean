/-
Model of the LINE and PLANE family of `distance3d.distance` (core Lean only, polymorphic):

* `distance/_line.py`  : `_point_to_line`, `point_to_line`, `point_to_line_segment`, `_line_to_line`,
  `line_to_line`, `_line_to_line_segment`, `line_to_line_segment`,
  `_line_segment_to_line_segment`, `line_segment_to_line_segment`;
* `distance/_plane.py` : `_point_to_plane`, `point_to_plane`, `_line_to_plane`, `line_to_plane`,
  `_line_segment_to_plane`, `line_segment_to_plane`, `plane_intersects_plane`, `plane_to_plane`,
  `_plane_to_convex_hull_points`, `plane_to_triangle`, `plane_to_rectangle`, `plane_to_box`, and the tail of
  `plane_to_ellipsoid` / `plane_to_cylinder` after their support-function calls (`planeToSupportPair`);
* `geometry.py` helpers they call: `hesse_normal_form`, `convert_segment_to_line`,
  `line_from_pluecker`, `convert_rectangle_to_vertices`, `convert_box_to_vertices`.

Conventions
* line by line, same operation order as the Python (matters at `Float`);
* every division goes through `divC` (`Err.divZero` when the denominator is zero: numpy yields
  inf/nan + RuntimeWarning interpreted, numba raises ZeroDivisionError); `np.linalg.norm` and
  `math.sqrt(abs(·))` can never see a negative argument and are total;
* the test "denominator is zero" is written `¬(b < 0 ∨ 0 < b)` so that `-0.0` counts as zero at
  `Float` (Lean's `DecidableEq Float` distinguishes `0.0` and `-0.0`); same for Python's
  `denom != 0.0`;
* `min(max(t, 0.0), 1.0)` is `clamp01` written with Python's `max`/`min` semantics
  (`max(a, b)` returns `b` iff `b > a`);
* every `if` of the code has a branch id in the result (`br`); the clamp region of a clamped
  parameter is reported by the driver from the returned parameter;
* default arguments are the regenerated constants `D3.Gen.distance__…__epsilon`.
-/
import D3.Model.Vec
import D3.Gen.Constants

namespace D3
namespace DistLine

scalar_variables

/-- `a / b`; zero denominator → `divZero` -/
def divC (a b : α) : Except Err α := if b < 0 ∨ 0 < b then .ok (a / b) else .error .divZero

/-- Python `max(a, b)` -/
def pmax (a b : α) : α := if a < b then b else a
/-- Python `min(a, b)` -/
def pmin (a b : α) : α := if b < a then b else a
/-- `min(max(t, 0.0), 1.0)` -/
def clamp01 (t : α) : α := pmin (pmax t 0) 1

/-- clamp region of a returned parameter (driver/coverage only): 0 at the lower end, 2 at the upper end,
1 strictly inside -/
def region01 (t : α) : Nat := if t ≤ 0 then 0 else if 1 ≤ t then 2 else 1

/-! ## `_line.py` -/

/-- result of `_point_to_line`: `(distance, closest_point_line, t)` -/
structure PL (α : Type) where
  d : α
  p : V3 α
  t : α

/-- `_point_to_line` -/
def pointToLineK (point lp ld : V3 α) : PL α :=
  let diff := point - lp
  let t := V3.dot ld diff
  let frac : V3 α := t * ld
  let diff := diff - frac
  let cp := lp + frac
  ⟨V3.norm diff, cp, t⟩

/-- `point_to_line` : `_point_to_line(...)[:2]` -/
def pointToLine (point lp ld : V3 α) : α × V3 α :=
  let r := pointToLineK point lp ld
  (r.d, r.p)

/-- result of `point_to_line_segment` -/
structure PS (α : Type) where
  d : α
  p : V3 α
  /-- the clamped parameter (not returned by the Python; used for coverage and proofs) -/
  t : α

/-- `point_to_line_segment` -/
def pointToSegment (point a b : V3 α) : Except Err (PS α) := do
  let dir := b - a
  let t ← divC (V3.dot (point - a) dir) (V3.dot dir dir)
  let t := clamp01 t
  let cp := a + t * dir
  pure ⟨V3.norm (point - cp), cp, t⟩

/-- result of the two-primitive kernels: `(distance, closest_point1, closest_point2, t1, t2)` + branch -/
structure Res (α : Type) where
  d : α
  p1 : V3 α
  p2 : V3 α
  t1 : α
  t2 : α
  br : Nat

/-- `_line_to_line`; branches: 0 = `abs(det) >= epsilon`, 1 = parallel -/
def lineToLineK (lp1 ld1 lp2 ld2 : V3 α) (epsilon : α) : Except Err (Res α) := do
  let diff := lp1 - lp2
  let a12 := -(V3.dot ld1 ld2)
  let b1 := V3.dot ld1 diff
  let c := V3.dot diff diff
  let det := 1 - a12 * a12
  if epsilon ≤ absS det then
    let b2 := -(V3.dot ld2 diff)
    let t1 ← divC (a12 * b2 - b1) det
    let t2 ← divC (a12 * b1 - b2) det
    let distSq := t1 * (t1 + a12 * t2 + 2 * b1) + t2 * (a12 * t1 + t2 + 2 * b2) + c
    let cp2 := lp2 + t2 * ld2
    let cp1 := lp1 + t1 * ld1
    pure ⟨sqrt (absS distSq), cp1, cp2, t1, t2, 0⟩
  else
    let t1 := -b1
    let t2 : α := 0
    let distSq := b1 * t1 + c
    let cp2 := lp2
    let cp1 := lp1 + t1 * ld1
    pure ⟨sqrt (absS distSq), cp1, cp2, t1, t2, 1⟩

/-- `line_to_line` with the default `epsilon` -/
def lineToLine (lp1 ld1 lp2 ld2 : V3 α) : Except Err (Res α) :=
  lineToLineK lp1 ld1 lp2 ld2 Gen.distance__line__line_to_line__epsilon

/-- scalar part of `_line_to_line_segment` after the both-degenerate test, on the Gram entries
`a = d·d`, `b = d·ld`, `c = d·r`, `e = ld·ld`, `f = ld·r` (`d` segment direction, `r = segment_start − line_point`);
returns `(s, t, branch)`.  (`c` and `b` are computed by the Python only in the branches that use them;
they are total, so passing them in is the same.) -/
def lsParams (a b c e f epsilon : α) : Except Err (α × α × Nat) :=
  if a < epsilon then do
    -- First segment degenerates into a point
    let t ← divC f e
    pure (0, t, 1)
  else if e ≤ epsilon then do
    -- Second segment degenerates into a point
    let q ← divC (-c) a
    pure (clamp01 q, 0, 2)
  else
    let denom := a * e - b * b
    if denom < 0 ∨ 0 < denom then do
      let q ← divC (b * f - c * e) denom
      let s := clamp01 q
      let t ← divC (b * s + f) e
      pure (s, t, 3)
    else do
      let s : α := 0
      let t ← divC (b * s + f) e
      pure (s, t, 4)

/-- `_line_to_line_segment`; `p1` = point on the line (parameter `t1 = t`), `p2` = point on the segment
(parameter `t2 = s`).  Branches: 0 both degenerate, 1 `a < epsilon`, 2 `e <= epsilon`,
3 general non-parallel (`denom != 0`), 4 general parallel -/
def lineToSegmentK (lp ld s0 s1 : V3 α) (epsilon : α) : Except Err (Res α) := do
  let d := s1 - s0
  let a := V3.dot d d
  let e := V3.dot ld ld
  if a < epsilon ∧ e < epsilon then
    -- the Python returns (segment_start, line_point) in this order
    pure ⟨V3.norm (lp - s0), s0, lp, 0, 0, 0⟩
  else
    let r := s0 - lp
    let f := V3.dot ld r
    let c := V3.dot d r
    let b := V3.dot d ld
    let (s, t, br) ← lsParams a b c e f epsilon
    let cp1 := lp + t * ld
    let cp2 := s0 + s * d
    pure ⟨V3.norm (cp2 - cp1), cp1, cp2, t, s, br⟩

/-- `line_to_line_segment` with the default `epsilon` -/
def lineToSegment (lp ld s0 s1 : V3 α) : Except Err (Res α) :=
  lineToSegmentK lp ld s0 s1 Gen.distance__line__line_to_line_segment__epsilon

/-- tail of the general case of `_line_segment_to_line_segment`: `t = (b*s + f)/e`, then
"if t in [0,1] done, else clamp t, recompute s"; `k` is the branch id of the caller -/
def ssFinish (a b c e f s : α) (k : Nat) : Except Err (α × α × Nat) := do
  let t ← divC (b * s + f) e
  if t < 0 then
    let q ← divC (-c) a
    pure (clamp01 q, 0, k + 1)
  else if 1 < t then
    let q ← divC (b - c) a
    pure (clamp01 q, 1, k + 2)
  else
    pure (s, t, k)

/-- scalar part of `_line_segment_to_line_segment` after the both-degenerate test, on the Gram entries
`a = d1·d1`, `b = d1·d2`, `c = d1·r`, `e = d2·d2`, `f = d2·r` (`r = start1 − start2`); returns `(s, t, branch)` -/
def ssParams (a b c e f epsilon : α) : Except Err (α × α × Nat) :=
  if a < epsilon then do
    let q ← divC f e
    pure (0, clamp01 q, 1)
  else if e ≤ epsilon then do
    let q ← divC (-c) a
    pure (clamp01 q, 0, 2)
  else
    let denom := a * e - b * b
    if denom < 0 ∨ 0 < denom then do
      let q ← divC (b * f - c * e) denom
      ssFinish a b c e f (clamp01 q) 30
    else
      ssFinish a b c e f 0 40

/-- `_line_segment_to_line_segment`; `t1 = s` (segment 1), `t2 = t` (segment 2).
Branches: 0 both degenerate, 1 `a < epsilon`, 2 `e <= epsilon`; general case `10·k + j` with
k = 3 (`denom != 0`) or 4 (parallel) and j = 0 (`t` in [0,1]), 1 (`t < 0`), 2 (`t > 1`) -/
def segToSegK (a0 a1 b0 b1 : V3 α) (epsilon : α) : Except Err (Res α) := do
  let d1 := a1 - a0
  let d2 := b1 - b0
  let a := V3.dot d1 d1
  let e := V3.dot d2 d2
  if a < epsilon ∧ e < epsilon then
    pure ⟨V3.norm (b0 - a0), a0, b0, 0, 0, 0⟩
  else
    let r := a0 - b0
    let f := V3.dot d2 r
    let c := V3.dot d1 r
    let b := V3.dot d1 d2
    let (s, t, br) ← ssParams a b c e f epsilon
    let cp1 := a0 + s * d1
    let cp2 := b0 + t * d2
    pure ⟨V3.norm (cp2 - cp1), cp1, cp2, s, t, br⟩

/-- `line_segment_to_line_segment` with the default `epsilon` -/
def segToSeg (a0 a1 b0 b1 : V3 α) : Except Err (Res α) :=
  segToSegK a0 a1 b0 b1 Gen.distance__line__line_segment_to_line_segment__epsilon

/-! ## `geometry.py` helpers -/

/-- `hesse_normal_form(plane_point, plane_normal)[1]` -/
def hesseD (pp n : V3 α) : α := V3.dot pp n

/-- `convert_segment_to_line` : `(segment_direction, segment_length)`; the direction is left
un-normalised (zero) for a zero-length segment -/
def segmentToLine (s0 s1 : V3 α) : V3 α × α :=
  let dir := s1 - s0
  let len := V3.norm dir
  if 0 < len then (V3.sdiv dir len, len) else (dir, len)

/-- `line_from_pluecker(line_direction, line_moment)[0]` -/
def lineFromPlueckerPoint (ld lm : V3 α) : V3 α :=
  let lp := V3.cross ld lm
  let nsq := V3.dot ld ld
  if 0 < nsq then V3.sdiv lp nsq else lp

/-- `RECTANGLE_COORDS` -/
def rectCoords : List (α × α) := [(-0.5, -0.5), (-0.5, 0.5), (0.5, -0.5), (0.5, 0.5)]

/-- one row of `rectangle_center + (RECTANGLE_COORDS * rectangle_lengths).dot(rectangle_axes)` -/
def rectVertex (c ax0 ax1 : V3 α) (l0 l1 : α) (k : α × α) : V3 α :=
  let u := k.1 * l0
  let v := k.2 * l1
  c + ⟨u * ax0.x + v * ax1.x, u * ax0.y + v * ax1.y, u * ax0.z + v * ax1.z⟩

/-- `convert_rectangle_to_vertices` -/
def rectVertices (c ax0 ax1 : V3 α) (l0 l1 : α) : List (V3 α) :=
  rectCoords.map (rectVertex c ax0 ax1 l0 l1)

/-- `BOX_COORDS = product([-0.5, 0.5], repeat=3)` -/
def boxCoords : List (V3 α) :=
  [⟨-0.5, -0.5, -0.5⟩, ⟨-0.5, -0.5, 0.5⟩, ⟨-0.5, 0.5, -0.5⟩, ⟨-0.5, 0.5, 0.5⟩,
   ⟨0.5, -0.5, -0.5⟩, ⟨0.5, -0.5, 0.5⟩, ⟨0.5, 0.5, -0.5⟩, ⟨0.5, 0.5, 0.5⟩]

/-- one row of `box2origin[:3, 3] + (BOX_COORDS * size).dot(box2origin[:3, :3].T)` -/
def boxVertex (A : Pose α) (size k : V3 α) : V3 α :=
  let w : V3 α := ⟨k.x * size.x, k.y * size.y, k.z * size.z⟩
  A.t + ⟨V3.dot w A.R.r0, V3.dot w A.R.r1, V3.dot w A.R.r2⟩

/-- `convert_box_to_vertices` -/
def boxVertices (A : Pose α) (size : V3 α) : List (V3 α) := boxCoords.map (boxVertex A size)

/-! ## `_plane.py` -/

/-- `_point_to_plane` : `(t or |t|, closest_point_plane)` -/
def pointToPlaneK (point pp n : V3 α) (signed : Bool) : α × V3 α :=
  let t := V3.dot n (point - pp)
  let cp := point - t * n
  (if signed then t else absS t, cp)

/-- `point_to_plane` with the default `signed` -/
def pointToPlane (point pp n : V3 α) : α × V3 α :=
  pointToPlaneK point pp n Gen.distance__plane__point_to_plane__signed

/-- `_line_to_plane` : `(intersection, t)` -/
def lineToPlaneK (lp ld pp n : V3 α) (epsilon : α) : Except Err (Bool × α) := do
  let l := V3.dot ld n
  if l * l < epsilon then
    pure (false, 0)
  else
    let d := hesseD pp n
    let t ← divC (d - V3.dot n lp) (V3.dot n ld)
    pure (true, t)

/-- result of the plane functions: `(dist, closest point 1, closest point 2)` + branch -/
structure Res3 (α : Type) where
  d : α
  p1 : V3 α
  p2 : V3 α
  br : Nat

/-- `line_to_plane` (explicit epsilon); branches: 0 intersection, 1 parallel -/
def lineToPlaneE (lp ld pp n : V3 α) (epsilon : α) : Except Err (Res3 α) := do
  let (inter, t) ← lineToPlaneK lp ld pp n epsilon
  if inter then
    let cp := lp + t * ld
    pure ⟨0, cp, cp, 0⟩
  else
    let (dist, cpp) := pointToPlane lp pp n
    pure ⟨dist, lp, cpp, 1⟩

/-- `line_to_plane` with the default `epsilon` -/
def lineToPlane (lp ld pp n : V3 α) : Except Err (Res3 α) :=
  lineToPlaneE lp ld pp n Gen.distance__plane__line_to_plane__epsilon

/-- `_line_segment_to_plane`; branches: 0 intersection inside the segment, 1 `t < 0` (start),
2 `t > length` (end), 3 parallel (start) -/
def segToPlaneK (s0 s1 pp n : V3 α) (epsilon : α) : Except Err (Res3 α) := do
  let (dir, len) := segmentToLine s0 s1
  let (inter, t) ← lineToPlaneK s0 dir pp n epsilon
  let fin (cps : V3 α) (br : Nat) : Res3 α :=
    let (dist, cpp) := pointToPlaneK cps pp n false
    ⟨dist, cps, cpp, br⟩
  if inter then
    if 0 ≤ t ∧ t ≤ len then
      let cps := s0 + t * dir
      pure ⟨0, cps, cps, 0⟩
    else if t < 0 then
      pure (fin s0 1)
    else
      pure (fin s1 2)
  else
    pure (fin s0 3)

/-- `line_segment_to_plane` with the default `epsilon` -/
def segToPlane (s0 s1 pp n : V3 α) : Except Err (Res3 α) :=
  segToPlaneK s0 s1 pp n Gen.distance__plane__line_segment_to_plane__epsilon

/-- `plane_intersects_plane(...)[1]` (the moment; the direction is passed through) -/
def planeIntersectsPlaneMoment (pp1 n1 pp2 n2 : V3 α) : V3 α :=
  let d1 := hesseD pp1 n1
  let d2 := hesseD pp2 n2
  d2 * n1 - d1 * n2

/-- `plane_to_plane` (explicit epsilon); branches: 0 intersecting, 1 parallel -/
def planeToPlaneE (pp1 n1 pp2 n2 : V3 α) (epsilon : α) : Res3 α :=
  let ld := V3.cross n1 n2
  if epsilon < V3.norm ld then
    let lm := planeIntersectsPlaneMoment pp1 n1 pp2 n2
    let lp := lineFromPlueckerPoint ld lm
    ⟨0, lp, lp, 0⟩
  else
    let (dist, cp2) := pointToPlane pp1 pp2 n2
    ⟨dist, pp1, cp2, 1⟩

/-- `plane_to_plane` with the default `epsilon` -/
def planeToPlane (pp1 n1 pp2 n2 : V3 α) : Res3 α :=
  planeToPlaneE pp1 n1 pp2 n2 Gen.distance__plane__plane_to_plane__epsilon

/-- `np.argmin` : index of the first minimum (`go` scans with the current best) -/
def argminGo : List α → Nat → Nat → α → Nat
  | [], _, bi, _ => bi
  | x :: xs, i, bi, bv => if x < bv then argminGo xs (i + 1) i x else argminGo xs (i + 1) bi bv

def argmin : List α → Nat
  | [] => 0
  | x :: xs => argminGo xs 1 0 x

/-- `np.argmax` : index of the first maximum -/
def argmaxGo : List α → Nat → Nat → α → Nat
  | [], _, bi, _ => bi
  | x :: xs, i, bi, bv => if bv < x then argmaxGo xs (i + 1) i x else argmaxGo xs (i + 1) bi bv

def argmax : List α → Nat
  | [] => 0
  | x :: xs => argmaxGo xs 1 0 x

/-- `_plane_to_convex_hull_points`, generic in how the straddling branch hands on the tuple of
`_line_segment_to_plane` (`(dist, closest_point_segment, closest_point_plane)`, br 0–3):
`swap = true`  — the code as it is since /repo 4c5c535:
  `dist, closest_point, closest_point_plane = _line_segment_to_plane(...); return dist, closest_point_plane, closest_point`;
`swap = false` — the code before that repair, which forwarded the tuple unchanged.
The non-straddling branch (br 10) returns `(dist, closest_point_plane, closest_point)`.
Empty `points` → `indexOOB` (`np.argmin` of an empty array raises). -/
def planeToHullG (swap : Bool) (pp n : V3 α) (points : List (V3 α)) : Except Err (Res3 α) := do
  let ts := points.map fun p => V3.dot (p - pp) n
  let mi := argmin ts
  let ma := argmax ts
  match ts[mi]?, ts[ma]?, points[mi]?, points[ma]? with
  | some tmin, some tmax, some pmin, some pmax =>
    if tmin * tmax < 0 then do
      let r ← segToPlaneK pmin pmax pp n 1e-6
      pure (if swap then ⟨r.d, r.p2, r.p1, r.br⟩ else r)
    else
      let ci := argmin (ts.map absS)
      match ts[ci]?, points[ci]? with
      | some t, some cp =>
        let cpp := cp - t * n
        pure ⟨absS t, cpp, cp, 10⟩
      | _, _ => .error .indexOOB
  | _, _, _, _ => .error .indexOOB

/-- `_plane_to_convex_hull_points` (current code): `p1` = closest point on the plane, `p2` = closest point of the hull -/
def planeToHull (pp n : V3 α) (points : List (V3 α)) : Except Err (Res3 α) := planeToHullG true pp n points

/-- `_plane_to_convex_hull_points` as it was before /repo 4c5c535 (kept for the counterexample theorem of the
repaired finding F-c10-plane-hull-swapped) -/
def planeToHull_asIs_before_fix (pp n : V3 α) (points : List (V3 α)) : Except Err (Res3 α) :=
  planeToHullG false pp n points

/-- `plane_to_triangle` before /repo 4c5c535 -/
def planeToTriangle_asIs_before_fix (pp n A B C : V3 α) : Except Err (Res3 α) :=
  planeToHull_asIs_before_fix pp n [A, B, C]

/-- `plane_to_triangle` -/
def planeToTriangle (pp n A B C : V3 α) : Except Err (Res3 α) := planeToHull pp n [A, B, C]

/-- `plane_to_rectangle` -/
def planeToRectangle (pp n c ax0 ax1 : V3 α) (l0 l1 : α) : Except Err (Res3 α) :=
  planeToHull pp n (rectVertices c ax0 ax1 l0 l1)

/-- `plane_to_box` -/
def planeToBox (pp n : V3 α) (A : Pose α) (size : V3 α) : Except Err (Res3 α) :=
  planeToHull pp n (boxVertices A size)

/-- tail of `plane_to_ellipsoid` / `plane_to_cylinder` after their two support-function calls
(`point1 = support(-plane_normal)`, `point2 = support(plane_normal)`, modelled in `D3/Model/Support.lean`):
`_plane_to_convex_hull_points(plane_point, plane_normal, np.vstack((point1, point2)))` -/
def planeToSupportPair (pp n point1 point2 : V3 α) : Except Err (Res3 α) :=
  planeToHull pp n [point1, point2]

end DistLine
end D3
