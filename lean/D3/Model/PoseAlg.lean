/-
C12 — pose algebra of `distance3d/utils.py` and a handful of small kernels, modelled as the code
computes them (core Lean only, polymorphic in the scalar).

* `utils.py`            : `transform_point`, `transform_points`, `transform_directions`,
                          `inverse_transform_point`, `invert_transform`; the 4×4 product
                          `np.dot(A2B, B2C)` restricted to the upper 3×4 block (`compose`);
* `_gjk_nesterov_accelerated.support_function` : the relative pose `oR1`, `ot1` of collider 1 in the
                          frame of collider 0 (`relativePose`);
* `geometry.py`         : the pattern shared by `support_function_{cylinder,capsule,ellipsoid,box,cone}`
                          — pull the direction back with `R.T`, evaluate in the local frame, push the local
                          vertex forward with `transform_point` (`localFrameSupport`), instantiated for
                          `support_function_capsule`;
* `distance/_line.py`   : `_point_to_line`, `point_to_line_segment`, `_line_to_line` (both branches),
                          `_line_segment_to_line_segment`;
* `distance/_plane.py`  : `_point_to_plane`;
* `distance/_box.py`    : `point_to_box` (local-frame evaluation with `inverse_transform_point`).

These small kernel models are deliberately private to the C12 vertical (the full models of the distance
family belong to C10/C11); they are tied to the implementation by the C12 correspondence run.

Conventions: same operation order as the Python; a division whose denominator is zero is
`Err.divZero` (numba raises, numpy yields inf/nan); the zero test is written `¬(b < 0 ∨ 0 < b)` so
that `-0.0` counts as zero at `Float`; Python's `max(a, b)` returns `b` iff `b > a`, `min(a, b)`
returns `b` iff `b < a`; `np.clip(x, lo, hi)` is `min (max x lo) hi`.
-/
import D3.Model.Vec
import D3.Gen.Constants

namespace D3
namespace PoseAlg

scalar_variables

/-! ## `utils.py` -/

/-- `transform_point` : `A2B[:3, 3] + np.dot(A2B[:3, :3], point_in_A)` -/
def transformPoint (A : Pose α) (p : V3 α) : V3 α := A.t + A.R.mulVec p

/-- one row of `np.dot(points, R.T)` : entry `j` is `Σ_k p_k R[j,k]` -/
def rowTimesRT (R : M3 α) (p : V3 α) : V3 α := ⟨V3.dot p R.r0, V3.dot p R.r1, V3.dot p R.r2⟩

/-- `transform_points` : `np.dot(points_in_A, A2B[:3, :3].T) + A2B[:3, 3]` (row-wise) -/
def transformPoints (A : Pose α) (ps : List (V3 α)) : List (V3 α) :=
  ps.map fun p => rowTimesRT A.R p + A.t

/-- `transform_directions` : `np.dot(directions_in_A, A2B[:3, :3].T)` -/
def transformDirections (A : Pose α) (ds : List (V3 α)) : List (V3 α) :=
  ds.map fun d => rowTimesRT A.R d

/-- `inverse_transform_point` : `RT = R.T; np.dot(RT, p) - np.dot(RT, t)` -/
def inverseTransformPoint (A : Pose α) (p : V3 α) : V3 α := A.R.tmulVec p - A.R.tmulVec A.t

/-- `invert_transform` : rotation block `R.T`, translation `-np.dot(R.T, t)` (bottom row `0 0 0 1`) -/
def invertTransform (A : Pose α) : Pose α := ⟨A.R.transpose, -(A.R.tmulVec A.t)⟩

/-- `np.dot(A, B)` of two homogeneous 4×4 matrices with bottom row `0 0 0 1`, upper 3×4 block -/
def compose (A B : Pose α) : Pose α := ⟨A.R.mul B.R, A.R.mulVec B.t + A.t⟩

/-- `_gjk_nesterov_accelerated.support_function` : `oR1 = R0.T R1`, `ot1 = R0.T (c1 - t0)` -/
def relativePose (A0 A1 : Pose α) : Pose α :=
  ⟨A0.R.transpose.mul A1.R, A0.R.tmulVec (A1.t - A0.t)⟩

/-- pattern of `geometry.support_function_{cylinder,capsule,ellipsoid,box,cone}`:
`local_dir = np.dot(R.T, d)`, a local vertex from `local_dir`, `transform_point(pose, local_vertex)` -/
def localFrameSupport (A : Pose α) (localVertex : V3 α → V3 α) (d : V3 α) : V3 α :=
  transformPoint A (localVertex (A.R.tmulVec d))

/-- local part of `support_function_capsule` -/
def capsuleLocal (radius height : α) (ld : V3 α) : V3 α :=
  let s := sqrt (ld.x * ld.x + ld.y * ld.y + ld.z * ld.z)
  let v : V3 α :=
    if s < 0 ∨ 0 < s then
      let k := radius / s
      ⟨ld.x * k, ld.y * k, ld.z * k⟩
    else ⟨radius, 0, 0⟩
  if 0 < ld.z then ⟨v.x, v.y, v.z + 0.5 * height⟩ else ⟨v.x, v.y, v.z - 0.5 * height⟩

/-- `support_function_capsule` -/
def supportCapsule (d : V3 α) (A : Pose α) (radius height : α) : V3 α :=
  localFrameSupport A (capsuleLocal radius height) d

/-! ## scalar helpers -/

/-- `a / b`; zero denominator → `divZero` -/
def divC (a b : α) : Except Err α := if b < 0 ∨ 0 < b then .ok (a / b) else .error .divZero

/-- Python `max(a, b)` -/
def pmax (a b : α) : α := if a < b then b else a
/-- Python `min(a, b)` -/
def pmin (a b : α) : α := if b < a then b else a
/-- `min(max(t, 0.0), 1.0)` -/
def clamp01 (t : α) : α := pmin (pmax t 0) 1
/-- `np.clip(x, lo, hi)` -/
def clip (x lo hi : α) : α := min (max x lo) hi

/-! ## `distance/_line.py` -/

/-- result of `_point_to_line`: `(distance, closest_point_line, t)` -/
structure PL (α : Type) where
  d : α
  p : V3 α
  t : α

/-- `_point_to_line` -/
def pointToLineK (point lp ld : V3 α) : PL α :=
  let diff := point - lp
  let t := V3.dot ld diff
  let frac : V3 α := t * ld
  let diff := diff - frac
  let cp := lp + frac
  ⟨V3.norm diff, cp, t⟩

/-- `point_to_line_segment` (the clamped parameter `t` is kept for coverage and proofs) -/
def pointToSegment (point a b : V3 α) : Except Err (PL α) := do
  let dir := b - a
  let t ← divC (V3.dot (point - a) dir) (V3.dot dir dir)
  let t := clamp01 t
  let cp := a + t * dir
  pure ⟨V3.norm (point - cp), cp, t⟩

/-- result of the two-primitive kernels: `(distance, closest_point1, closest_point2, t1, t2)` + branch -/
structure Res (α : Type) where
  d : α
  p1 : V3 α
  p2 : V3 α
  t1 : α
  t2 : α
  br : Nat

/-- `_line_to_line`; branches: 0 = `abs(det) >= epsilon`, 1 = parallel -/
def lineToLineK (lp1 ld1 lp2 ld2 : V3 α) (epsilon : α) : Except Err (Res α) := do
  let diff := lp1 - lp2
  let a12 := -(V3.dot ld1 ld2)
  let b1 := V3.dot ld1 diff
  let c := V3.dot diff diff
  let det := 1 - a12 * a12
  if epsilon ≤ absS det then
    let b2 := -(V3.dot ld2 diff)
    let t1 ← divC (a12 * b2 - b1) det
    let t2 ← divC (a12 * b1 - b2) det
    let distSq := t1 * (t1 + a12 * t2 + 2 * b1) + t2 * (a12 * t1 + t2 + 2 * b2) + c
    let cp2 := lp2 + t2 * ld2
    let cp1 := lp1 + t1 * ld1
    pure ⟨sqrt (absS distSq), cp1, cp2, t1, t2, 0⟩
  else
    let t1 := -b1
    let t2 : α := 0
    let distSq := b1 * t1 + c
    let cp2 := lp2
    let cp1 := lp1 + t1 * ld1
    pure ⟨sqrt (absS distSq), cp1, cp2, t1, t2, 1⟩

/-- `line_to_line` with the default `epsilon` -/
def lineToLine (lp1 ld1 lp2 ld2 : V3 α) : Except Err (Res α) :=
  lineToLineK lp1 ld1 lp2 ld2 Gen.distance__line__line_to_line__epsilon

/-- the scalar part of `_line_segment_to_line_segment` after the "both degenerate" test:
from `a = d1·d1`, `e = d2·d2`, `f = d2·r`, `c = d1·r`, `b = d1·d2` compute `(s, t, branch)`.
(`c` and `b` are only read in the branches in which the Python computes them.)
Branches: 1 `a < epsilon`; 2 `e <= epsilon`; 3/4 general, `t` inside `[0,1]`, non-parallel / parallel
(`denom == 0`); 5/6 (`t < 0`) and 7/8 (`t > 1`) likewise. -/
def segSegParams (a e f c b epsilon : α) : Except Err (α × α × Nat) :=
  if a < epsilon then do
    let t ← divC f e
    pure (0, clamp01 t, 1)
  else if e ≤ epsilon then do
    let s ← divC (-c) a
    pure (clamp01 s, 0, 2)
  else do
    let denom := a * e - b * b
    let par : Bool := !(decide (denom < 0 ∨ 0 < denom))
    let s ← if denom < 0 ∨ 0 < denom then do
              let q ← divC (b * f - c * e) denom
              pure (clamp01 q)
            else pure 0
    let t ← divC (b * s + f) e
    if t < 0 then do
      let s ← divC (-c) a
      pure (clamp01 s, 0, if par then 6 else 5)
    else if 1 < t then do
      let s ← divC (b - c) a
      pure (clamp01 s, 1, if par then 8 else 7)
    else pure (s, t, if par then 4 else 3)

/-- `_line_segment_to_line_segment`; branch 0 = both segments degenerate (`a < epsilon and e < epsilon`) -/
def segToSegK (s1 e1 s2 e2 : V3 α) (epsilon : α) : Except Err (Res α) :=
  let d1 := e1 - s1
  let d2 := e2 - s2
  let a := V3.dot d1 d1
  let e := V3.dot d2 d2
  if a < epsilon ∧ e < epsilon then
    pure ⟨V3.norm (s2 - s1), s1, s2, 0, 0, 0⟩
  else do
    let r := s1 - s2
    let (s, t, br) ← segSegParams a e (V3.dot d2 r) (V3.dot d1 r) (V3.dot d1 d2) epsilon
    let cp1 := s1 + s * d1
    let cp2 := s2 + t * d2
    pure ⟨V3.norm (cp2 - cp1), cp1, cp2, s, t, br⟩

/-- `line_segment_to_line_segment` with the default `epsilon` -/
def segToSeg (s1 e1 s2 e2 : V3 α) : Except Err (Res α) :=
  segToSegK s1 e1 s2 e2 Gen.distance__line__line_segment_to_line_segment__epsilon

/-! ## `distance/_plane.py`, `distance/_box.py` -/

/-- `_point_to_plane` : `(t or |t|, closest_point_plane)` -/
def pointToPlaneK (point pp pn : V3 α) (signed : Bool) : α × V3 α :=
  let t := V3.dot pn (point - pp)
  let cp := point - t * pn
  (if signed then t else absS t, cp)

/-- `point_to_box` -/
def pointToBox (point : V3 α) (A : Pose α) (size : V3 α) : α × V3 α :=
  let q := inverseTransformPoint A point
  let h : V3 α := ⟨0.5 * size.x, 0.5 * size.y, 0.5 * size.z⟩
  let cl : V3 α := ⟨clip q.x (-h.x) h.x, clip q.y (-h.y) h.y, clip q.z (-h.z) h.z⟩
  let cp := A.t + A.R.mulVec cl
  (V3.norm (point - cp), cp)

end PoseAlg
end D3
