/-
Model of `distance3d/epa.py` (expanding polytope algorithm), core Lean only.

Faithful to the implementation, including what a reader would call its defects:

* `Polytope._initialize_from_simplex` first orients the simplex: if
  `⟨(B−A)×(C−A), D−A⟩ > 0` the rows are permuted to `(A, C, B, D)`, then the four faces
  `ABC, ACD, ADB, BDC` are built (`initFaces`; `buildFaces` = the construction from rows as
  they come).  A flat simplex (`… = 0`) is left as it comes.  Before the upstream repair the
  rows were never oriented: `initFaces_asIs_before_fix`;
* `norm_vector` returns the zero vector unchanged;
* `find_face_closest_to_origin` = first index of the minimum of `⟨v0, n⟩` (`np.argmin`);
* the convergence test `⟨w, n⟩ − min_dist < epsilon` and `mtv = n · ⟨w, n⟩`;
* the visibility test `⟨n, w − v0⟩ > epsilon`, the swap-with-last removal with the `i -= 1`
  re-examination, the loose-edge list with its `max_loose_edges` overflow `break` (the remaining
  edges of the triangle are dropped, the triangle is removed anyway);
* `extend_with_point`: capacity `assert n_faces < max_faces` (→ `assertFail`), the
  `norm(normal) < 0.5` skip (degenerate new face is silently not added),
  `fix_ccw_normal_direction`: vertices 0 and 1 are swapped (through a copy) and the normal is
  negated (`fixCcw`).  Before the upstream repair the swap went through numpy views
  (`temp = faces[i,0]` was a view), so vertex 0 was overwritten by vertex 1 and vertex 1 kept
  its value — the face became `(b, b, c)` with the negated normal: `fixCcw_asIs_before_fix`.

The polytope is the list of the live rows `faces[:n_faces]` in array order (removal =
overwrite with the last row, new faces appended), so indices agree with the implementation.
The rows beyond `n_faces` (stale data) are not modelled; they are only observable on the
`success = False` exit (`closest_face` is a view into the mutated array): the model reports that
exit with `mtv = none` when the viewed row is no longer live.

The two colliders enter only through `supp d = collider1.support_function(d) −
collider2.support_function(−d)`, a parameter.
-/
import D3.Model.Vec
import D3.Gen.Constants

namespace D3
namespace Epa

/-- row of `Polytope.faces`: three vertices and the normal -/
structure Face (α : Type) where
  a : V3 α
  b : V3 α
  c : V3 α
  n : V3 α
  deriving Repr, DecidableEq, Inhabited

/-- row of `LooseEdges.loose_edges` -/
abbrev Edge (α : Type) := V3 α × V3 α

scalar_variables

/-- `utils.norm_vector` : the zero vector is returned unchanged -/
def normVector (v : V3 α) : V3 α :=
  if V3.norm v = 0 then v else V3.sdiv v (V3.norm v)

/-- `Polytope.compute_normal` -/
def computeNormal (a b c : V3 α) : V3 α := normVector (V3.cross (b - a) (c - a))

def mkFace (a b c : V3 α) : Face α := ⟨a, b, c, computeNormal a b c⟩

/-- the four faces ABC, ACD, ADB, BDC of `_initialize_from_simplex`, from rows as they come -/
def buildFaces (s0 s1 s2 s3 : V3 α) : List (Face α) :=
  [mkFace s0 s1 s2, mkFace s0 s2 s3, mkFace s0 s3 s1, mkFace s1 s3 s2]

/-- the orientation test of `_initialize_from_simplex`:
`np.dot(np.cross(simplex[1] - simplex[0], simplex[2] - simplex[0]), simplex[3] - simplex[0])` -/
def simplexOrient (s0 s1 s2 s3 : V3 α) : α := V3.dot (V3.cross (s1 - s0) (s2 - s0)) (s3 - s0)

/-- `Polytope._initialize_from_simplex` : rows 1 and 2 are exchanged when the orientation test is
`> 0`, then ABC, ACD, ADB, BDC -/
def initFaces (s0 s1 s2 s3 : V3 α) : List (Face α) :=
  if 0 < simplexOrient s0 s1 s2 s3 then buildFaces s0 s2 s1 s3 else buildFaces s0 s1 s2 s3

/-- `_initialize_from_simplex` before the upstream repair: the rows were used as they came -/
def initFaces_asIs_before_fix (s0 s1 s2 s3 : V3 α) : List (Face α) := buildFaces s0 s1 s2 s3

/-- one entry of `dists` in `find_face_closest_to_origin` -/
def faceDist (f : Face α) : α := V3.dot f.a f.n

/-- `np.argmin` on a non-empty list, scanning with the current best `(bi, bv)` -/
def argminGo : List α → Nat → Nat → α → Nat × α
  | [], _, bi, bv => (bi, bv)
  | x :: xs, i, bi, bv => if x < bv then argminGo xs (i + 1) i x else argminGo xs (i + 1) bi bv

/-- `np.argmin` : first index of the minimum, with its value -/
def argmin : List α → Option (Nat × α)
  | [] => none
  | x :: xs => some (argminGo xs 1 0 x)

/-- `Polytope.find_face_closest_to_origin` : `(index, min_dist, face)`;
`np.argmin` of an empty array raises (`badInput`) -/
def closest (faces : List (Face α)) : Except Err (Nat × α × Face α) :=
  match argmin (faces.map faceDist) with
  | none => .error .badInput
  | some (i, d) =>
    match faces[i]? with
    | some f => .ok (i, d, f)
    | none => .error .indexOOB

/-- the convergence test of `epa` -/
def converged (eps : α) (minDist : α) (n w : V3 α) : Bool :=
  decide (V3.dot w n - minDist < eps)

/-- `mtv = closest_face[3] * np.dot(new_point, search_direction)` -/
def mtvOf (n w : V3 α) : V3 α := V3.smul (V3.dot w n) n

/-- `Polytope.triangle_faces_point` -/
def facesPoint (eps : α) (f : Face α) (w : V3 α) : Bool :=
  decide (eps < V3.dot f.n (w - f.a))

/-- `Polytope.get_edge` for `edge_idx = 0, 1, 2` -/
def faceEdges (f : Face α) : List (Edge α) := [(f.a, f.b), (f.b, f.c), (f.c, f.a)]

/-- `LooseEdges.edge_already_in_list` -/
def edgeMatches (eps : α) (le cur : Edge α) : Bool :=
  decide (V3.norm (le.2 - cur.1) < eps) && decide (V3.norm (le.1 - cur.2) < eps)

/-- `remove_face` / `overwrite_edge_with_last_edge` : row `k` := last row, length − 1 -/
def overwriteWithLast {β : Type} (l : List β) (k : Nat) : List β :=
  match l.getLast? with
  | none => l
  | some last => (l.set k last).dropLast

/-- `LooseEdges.add_removed_triangles_edges_to_list` for the remaining edges of one triangle.
Returns the new list and whether the `max_loose_edges` overflow `break` was taken. -/
def addTriangleEdges (maxLoose : Nat) (eps : α) : List (Edge α) → List (Edge α) → List (Edge α) × Bool
  | loose, [] => (loose, false)
  | loose, cur :: rest =>
    match loose.findIdx? (fun le => edgeMatches eps le cur) with
    | some k => addTriangleEdges maxLoose eps (overwriteWithLast loose k) rest
    | none =>
      if loose.length ≥ maxLoose then (loose, true)
      else addTriangleEdges maxLoose eps (loose ++ [cur]) rest

/-- `LooseEdges.find_triangles_facing_point_and_store_loose_edges`.
`fuel` = number of live faces at entry is exactly enough (`length − i` drops by one per step);
when it runs out `i = length`, which is the loop's own exit. Returns faces, loose edges and
whether an overflow `break` happened. -/
def scan (maxLoose : Nat) (eps : α) (w : V3 α) :
    Nat → Nat → List (Face α) → List (Edge α) → Bool → List (Face α) × List (Edge α) × Bool
  | 0, _, faces, loose, ov => (faces, loose, ov)
  | fuel + 1, i, faces, loose, ov =>
    match faces[i]? with
    | none => (faces, loose, ov)
    | some f =>
      if facesPoint eps f w then
        let r := addTriangleEdges maxLoose eps loose (faceEdges f)
        scan maxLoose eps w fuel i (overwriteWithLast faces i) r.1 (ov || r.2)
      else scan maxLoose eps w fuel (i + 1) faces loose ov

/-- `fix_ccw_normal_direction` : swap vertices 0 and 1, negate the normal -/
def fixCcw (bias : α) (f : Face α) : Face α :=
  if V3.dot f.a f.n + bias < 0 then ⟨f.b, f.a, f.c, -f.n⟩ else f

/-- `fix_ccw_normal_direction` as the code executed it before the upstream repair (view
aliasing: vertex 0 is lost) -/
def fixCcw_asIs_before_fix (bias : α) (f : Face α) : Face α :=
  if V3.dot f.a f.n + bias < 0 then ⟨f.b, f.b, f.c, -f.n⟩ else f

/-- `Polytope.extend_with_point`; `fix` is `fixCcw bias` (or its pre-repair version) -/
def extend (maxFaces : Nat) (fix : Face α → Face α) (w : V3 α) :
    List (Edge α) → List (Face α) → Except Err (List (Face α))
  | [], faces => .ok faces
  | e :: es, faces =>
    if faces.length < maxFaces then
      let f := mkFace e.1 e.2 w
      if V3.norm f.n < 0.5 then extend maxFaces fix w es faces
      else extend maxFaces fix w es (faces ++ [fix f])
    else .error .assertFail

/-- parameters of `epa` (defaults: `D3.Gen.epa__epa__*`) -/
structure Params (α : Type) where
  maxIter : Nat
  maxLoose : Nat
  maxFaces : Nat
  eps : α
  bias : α

def defaultParams : Params α :=
  { maxIter := Gen.epa__epa__max_iter, maxLoose := Gen.epa__epa__max_loose_edges,
    maxFaces := Gen.epa__epa__max_faces, eps := Gen.epa__epa__epsilon,
    bias := Gen.epa__fix_ccw_normal_direction__bias }

/-- what one pass of the loop body does -/
inductive StepOut (α : Type) where
  /-- `return mtv, faces, True` -/
  | done (mtv : V3 α)
  /-- polytope after removal + re-triangulation; loose edges; overflow flag; faces after removal -/
  | grown (faces : List (Face α)) (loose : List (Edge α)) (overflow : Bool) (kept : List (Face α))
  deriving Repr

/-- the loop body of `epa` for a given support point `w` of the closest face's normal -/
def stepWith (p : Params α) (fix : Face α → Face α) (faces : List (Face α))
    (minDist : α) (f : Face α) (w : V3 α) : Except Err (StepOut α) :=
  if converged p.eps minDist f.n w then .ok (.done (mtvOf f.n w))
  else
    let r := scan p.maxLoose p.eps w faces.length 0 faces [] false
    match extend p.maxFaces fix w r.2.1 r.1 with
    | .ok faces' => .ok (.grown faces' r.2.1 r.2.2 r.1)
    | .error e => .error e

structure Result (α : Type) where
  /-- `none` only on the `success = False` exit when the viewed row is stale -/
  mtv : Option (V3 α)
  faces : List (Face α)
  success : Bool
  iters : Nat
  deriving Repr

/-- `epa` with the Minkowski-difference support mapping `supp` as a parameter (it also receives
the iteration number, so that a recorded trace of support points can be replayed through the
very same term; real colliders ignore it).
`k` = remaining iterations, `last` = index of the last closest face. -/
def loop (p : Params α) (fix : Face α → Face α) (supp : Nat → V3 α → V3 α) :
    Nat → Nat → List (Face α) → Option Nat → Except Err (Result α)
  | 0, it, faces, last =>
    match last with
    | none => .error .badInput        -- `max_iter = 0`: `closest_face` is unbound
    | some i =>
      match faces[i]? with
      | some f => .ok ⟨some (V3.smul (V3.dot f.a f.n) f.n), faces, false, it⟩
      | none => .ok ⟨none, faces, false, it⟩
  | k + 1, it, faces, _ =>
    match closest faces with
    | .error e => .error e
    | .ok (i, d, f) =>
      match stepWith p fix faces d f (supp it f.n) with
      | .error e => .error e
      | .ok (.done mtv) => .ok ⟨some mtv, faces, true, it⟩
      | .ok (.grown faces' _ _ _) => loop p fix supp k (it + 1) faces' (some i)

/-- `epa` with the winding repair and the initial-face construction as parameters -/
def epaWith (p : Params α) (fix : Face α → Face α)
    (init : V3 α → V3 α → V3 α → V3 α → List (Face α)) (supp : Nat → V3 α → V3 α)
    (s0 s1 s2 s3 : V3 α) : Except Err (Result α) :=
  loop p fix supp p.maxIter 0 (init s0 s1 s2 s3) none

/-- `epa(simplex, collider1, collider2, …)` -/
def epa (p : Params α) (supp : Nat → V3 α → V3 α) (s0 s1 s2 s3 : V3 α) : Except Err (Result α) :=
  epaWith p (fixCcw p.bias) initFaces supp s0 s1 s2 s3

/-- `epa` before the upstream repair (rows never oriented, swap through views) -/
def epa_asIs_before_fix (p : Params α) (supp : Nat → V3 α → V3 α) (s0 s1 s2 s3 : V3 α) :
    Except Err (Result α) :=
  epaWith p (fixCcw_asIs_before_fix p.bias) initFaces_asIs_before_fix supp s0 s1 s2 s3

/-! ### S3: checker on the returned faces (uses the vertices only, exact at `Rat`) -/

/-- unnormalised plane normal of a face from its vertices -/
def rawNormal (f : Face α) : V3 α := V3.cross (f.b - f.a) (f.c - f.a)

/-- signed (scaled) height of `x` over the plane of `f` -/
def height (f : Face α) (x : V3 α) : α := V3.dot (rawNormal f) (x - f.a)

def faceVerts (f : Face α) : List (V3 α) := [f.a, f.b, f.c]

def allVerts (faces : List (Face α)) : List (V3 α) := faces.flatMap faceVerts

def allEdges (faces : List (Face α)) : List (Edge α) := faces.flatMap faceEdges

/-- every directed edge occurs once and its reverse occurs once (exact vertex equality) -/
def closedSurface (faces : List (Face α)) : Bool :=
  let es := allEdges faces
  es.all fun e => (es.count e == 1) && (es.count (e.2, e.1) == 1)

/-- `facesCertificate slack faces`: closed, consistently oriented surface; every vertex within
`slack` of the inner side of every face plane (`slack = 0` on exact inputs); the origin on the
inner side of every face plane; no degenerate face; the stored normal points to the outer side. -/
def facesCertificate (slack : α) (faces : List (Face α)) : Bool :=
  closedSurface faces &&
  faces.all (fun f =>
    decide (0 < V3.dot (rawNormal f) (rawNormal f)) &&
    decide (0 < V3.dot (rawNormal f) f.n) &&
    decide (height f ⟨0, 0, 0⟩ ≤ 0) &&
    (allVerts faces).all fun v => decide (height f v ≤ slack))

end Epa
end D3
