/-
3-vectors, 3×3 matrices and poses of the executable model (core Lean only).
Operation order follows the obvious left-to-right evaluation
(`dot a b = a.x*b.x + a.y*b.y + a.z*b.z`); numpy's BLAS may differ in the last bit, which is
why the harness never compares model-`Float` and Python by bits on general inputs.
-/
import D3.Model.Scalar

namespace D3

structure V3 (α : Type) where
  x : α
  y : α
  z : α
  deriving Repr, DecidableEq, Inhabited

/-- rows -/
structure M3 (α : Type) where
  r0 : V3 α
  r1 : V3 α
  r2 : V3 α
  deriving Repr, DecidableEq, Inhabited

/-- rigid transform `x ↦ R x + t` (the upper 3×4 block of the 4×4 pose matrix) -/
structure Pose (α : Type) where
  R : M3 α
  t : V3 α
  deriving Repr, DecidableEq, Inhabited

scalar_variables

namespace V3

def add (a b : V3 α) : V3 α := ⟨a.x + b.x, a.y + b.y, a.z + b.z⟩
def sub (a b : V3 α) : V3 α := ⟨a.x - b.x, a.y - b.y, a.z - b.z⟩
def neg (a : V3 α) : V3 α := ⟨-a.x, -a.y, -a.z⟩
def smul (s : α) (a : V3 α) : V3 α := ⟨s * a.x, s * a.y, s * a.z⟩
def sdiv (a : V3 α) (s : α) : V3 α := ⟨a.x / s, a.y / s, a.z / s⟩
def dot (a b : V3 α) : α := a.x * b.x + a.y * b.y + a.z * b.z
def cross (a b : V3 α) : V3 α :=
  ⟨a.y * b.z - a.z * b.y, a.z * b.x - a.x * b.z, a.x * b.y - a.y * b.x⟩
def normSq (a : V3 α) : α := dot a a
/-- `np.linalg.norm` -/
def norm (a : V3 α) : α := sqrt (dot a a)
def zero : V3 α := ⟨0, 0, 0⟩
/-- component by index 0,1,2 (anything else: z) -/
def get (a : V3 α) (i : Nat) : α := if i = 0 then a.x else if i = 1 then a.y else a.z
def set (a : V3 α) (i : Nat) (v : α) : V3 α :=
  if i = 0 then { a with x := v } else if i = 1 then { a with y := v } else { a with z := v }
def toList (a : V3 α) : List α := [a.x, a.y, a.z]

instance : Add (V3 α) := ⟨add⟩
instance : Sub (V3 α) := ⟨sub⟩
instance : Neg (V3 α) := ⟨neg⟩
instance : HMul α (V3 α) (V3 α) := ⟨smul⟩

end V3

namespace M3

def col0 (m : M3 α) : V3 α := ⟨m.r0.x, m.r1.x, m.r2.x⟩
def col1 (m : M3 α) : V3 α := ⟨m.r0.y, m.r1.y, m.r2.y⟩
def col2 (m : M3 α) : V3 α := ⟨m.r0.z, m.r1.z, m.r2.z⟩
def transpose (m : M3 α) : M3 α := ⟨m.col0, m.col1, m.col2⟩
/-- `R.dot(v)` -/
def mulVec (m : M3 α) (v : V3 α) : V3 α := ⟨V3.dot m.r0 v, V3.dot m.r1 v, V3.dot m.r2 v⟩
/-- `R.T.dot(v)` = `v.dot(R)` -/
def tmulVec (m : M3 α) (v : V3 α) : V3 α := ⟨V3.dot m.col0 v, V3.dot m.col1 v, V3.dot m.col2 v⟩
def mul (a b : M3 α) : M3 α :=
  let bt := b.transpose
  ⟨⟨V3.dot a.r0 bt.r0, V3.dot a.r0 bt.r1, V3.dot a.r0 bt.r2⟩,
   ⟨V3.dot a.r1 bt.r0, V3.dot a.r1 bt.r1, V3.dot a.r1 bt.r2⟩,
   ⟨V3.dot a.r2 bt.r0, V3.dot a.r2 bt.r1, V3.dot a.r2 bt.r2⟩⟩
def one : M3 α := ⟨⟨1, 0, 0⟩, ⟨0, 1, 0⟩, ⟨0, 0, 1⟩⟩
def toList (m : M3 α) : List α := m.r0.toList ++ m.r1.toList ++ m.r2.toList

end M3

namespace Pose

/-- `transform_point` : `R p + t` -/
def apply (A : Pose α) (p : V3 α) : V3 α := A.R.mulVec p + A.t
/-- `inverse_transform_point` : `Rᵀ (p − t)` -/
def applyInv (A : Pose α) (p : V3 α) : V3 α := A.R.tmulVec (p - A.t)
/-- `invert_transform` (for orthonormal `R`) -/
def inv (A : Pose α) : Pose α := ⟨A.R.transpose, -(A.R.tmulVec A.t)⟩
def comp (A B : Pose α) : Pose α := ⟨A.R.mul B.R, A.R.mulVec B.t + A.t⟩
def id : Pose α := ⟨M3.one, V3.zero⟩

end Pose

end D3
