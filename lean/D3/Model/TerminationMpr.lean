/-
Abstract exit logic of the two portal-refinement loops of `distance3d/mpr.py` (core Lean only):
`_refine_portal` (`while True`, no cap) and `_find_penetration_info` (`while True` with the
`iterations > max_iterations` escape).  As for the Jolt loops in `D3.Model.Termination`, only the
scalars the tests look at are modelled: the four dot products with the current portal direction.
-/
import D3.Model.Termination

namespace D3
namespace Term

scalar_variables

/-- what one iteration of a portal-refinement loop observes; `dir = _portal_direction(portal.v)` -/
structure PortalObs (α : Type) where
  /-- `portal.v[1] · dir` -/
  d1 : α
  /-- `portal.v[2] · dir` -/
  d2 : α
  /-- `portal.v[3] · dir` -/
  d3 : α
  /-- `next_support_point · dir` -/
  d4 : α

/-- `_encapsulates_origin(v, dir)`: `v.dot(dir) > -10.0 * EPSILON` -/
def encapsulatesOrigin (eps d : α) : Prop := -(10.0 * eps) < d

/-- `_portal_reach_tolerance`: `min(v4·dir − v[1:]·dir) < mpr_tolerance + EPSILON` -/
def portalReachTolerance (eps tol : α) (o : PortalObs α) : Prop :=
  min (min (o.d4 - o.d1) (o.d4 - o.d2)) (o.d4 - o.d3) < tol + eps

/-- one pass of `_refine_portal`'s `while True`: `intersection` = `return True`,
`noIntersection` = `return False`, `unknown` = `_expand_portal` and go round again -/
def refineStep (eps tol : α) (o : PortalObs α) : Exit :=
  if -(10.0 * eps) < o.d1 then .intersection
  else if ¬ (-(10.0 * eps) < o.d4) ∨
      min (min (o.d4 - o.d1) (o.d4 - o.d2)) (o.d4 - o.d3) < tol + eps then .noIntersection
  else .unknown

/-- `_find_penetration_info` over a recorded list of observations, `it` = the Python variable
`iterations`; returns (did the loop return?, number of loop bodies = Minkowski support calls) -/
def penInfoRun (eps tol : α) (maxIter : Nat) : List (PortalObs α) → Nat → Bool × Nat
  | [], it => (false, it)
  | o :: os, it =>
    if min (min (o.d4 - o.d1) (o.d4 - o.d2)) (o.d4 - o.d3) < tol + eps ∨ maxIter < it then (true, it + 1)
    else penInfoRun eps tol maxIter os (it + 1)

end Term
end D3
