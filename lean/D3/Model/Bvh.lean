/-
Model of `distance3d/broad_phase.py` (class `BoundingVolumeHierarchy`),
`distance3d/self_collision.py` (`detect`, `detect_any`) and
`distance3d/urdf_utils.py` (`LinkInfo`, `self_collision_whitelists`).  Core Lean only.

Frames (hashable names in Python) are `Nat` ids.  A collider is abstract: its current
pose and its shape's AABB function `aabb : Pose → Box` (the concrete functions are C04's
subject).  The transform manager is a parameter: `getT frame` is what
`tm.get_transform(frame, "origin")` answers *now*.  The narrow phase (`gjk_intersection`)
is an abstract predicate `hit` on frames.  Python dicts are insertion-ordered association
lists with unique keys (`dSet` keeps the position of an existing key, exactly like
`d[k] = v`).  The AABB tree is C05's array-level model (`D3.Aabb.Tree`), filled by
`insert_aabb` one box at a time, exactly as the Python does; its external data are
indices into `payload`, the `(frame, collider)` tuples the Python stores in
`external_data_list`.
-/
import D3.Model.AabbTree
import D3.Model.Vec

namespace D3
namespace Bvh
open Aabb

abbrev Frame := Nat

/-! ### Python `dict` (insertion ordered) -/
section Dict
variable {κ β : Type} [DecidableEq κ]

/-- `d.get(k)` -/
def dGet : List (κ × β) → κ → Option β
  | [], _ => none
  | (k', v) :: r, k => if k' = k then some v else dGet r k

/-- `d[k] = v` : an existing key keeps its position -/
def dSet : List (κ × β) → κ → β → List (κ × β)
  | [], k, v => [(k, v)]
  | (k', v') :: r, k, v => if k' = k then (k', v) :: r else (k', v') :: dSet r k v

/-- `d.pop(k, None)` -/
def dPop (d : List (κ × β)) (k : κ) : List (κ × β) := d.filter fun kv => kv.1 ≠ k

/-- `dict(seq_of_pairs)` -/
def dOfList (l : List (κ × β)) : List (κ × β) := l.foldl (fun d kv => dSet d kv.1 kv.2) []

def dKeys (d : List (κ × β)) : List κ := d.map (·.1)

end Dict

/-- `[g x for x in l]` where `g` may raise -/
def mapE {β γ : Type} (g : β → Except Err γ) : List β → Except Err (List γ)
  | [] => .ok []
  | x :: xs =>
    match g x with
    | .error e => .error e
    | .ok y =>
      match mapE g xs with
      | .error e => .error e
      | .ok ys => .ok (y :: ys)

/-- abstract convex collider: current pose + the AABB function of its shape -/
structure Collider (α : Type) where
  pose : Pose α
  aabb : Pose α → Box α

/-- `BoundingVolumeHierarchy` -/
structure State (α : Type) where
  /-- `colliders_` : frame ↦ collider, dict order -/
  colliders : List (Frame × Collider α)
  /-- `aabbtree_`; `ext[i] = some k` points to `payload[k]` -/
  tree : Tree α
  /-- the `(frame, collider)` tuples handed to `insert_aabb` since the last rebuild -/
  payload : Array (Frame × Collider α)

scalar_variables

/-- `collider.aabb()` -/
def Collider.box (c : Collider α) : Box α := c.aabb c.pose

/-- `collider.update_pose(A2B)` -/
def Collider.updatePose (c : Collider α) (p : Pose α) : Collider α := { c with pose := p }

def State.empty : State α := { colliders := [], tree := Tree.empty, payload := #[] }

/-- `self.aabbtree_.insert_aabb(collider.aabb(), (frame, collider))` on a tree/payload pair -/
def insertPayload (tree : Tree α) (payload : Array (Frame × Collider α)) (f : Frame)
    (c : Collider α) : Except Err (Tree α × Array (Frame × Collider α)) :=
  match tree.insertAabbs insertOrderFixed [c.box] (some [payload.size]) Mode.none [] with
  | .error e => .error e
  | .ok tree' => .ok (tree', payload.push (f, c))

/-- `add_collider(frame, collider)` (the set `collider_frames` is not observable through
the modelled methods and is left out) -/
def addCollider (s : State α) (f : Frame) (c : Collider α) : Except Err (State α) :=
  match insertPayload s.tree s.payload f c with
  | .error e => .error e
  | .ok (tree, payload) => .ok { colliders := dSet s.colliders f c, tree := tree, payload := payload }

/-- loop of `update_collider_poses`: `done` = already refreshed entries (reversed) -/
def updateLoop (getT : Frame → Pose α) :
    List (Frame × Collider α) → List (Frame × Collider α) → Tree α →
      Array (Frame × Collider α) → Except Err (State α)
  | [], done, tree, payload => .ok { colliders := done.reverse, tree := tree, payload := payload }
  | (f, c) :: rest, done, tree, payload =>
    let c' := c.updatePose (getT f)
    match insertPayload tree payload f c' with
    | .error e => .error e
    | .ok (tree', payload') => updateLoop getT rest ((f, c') :: done) tree' payload'

/-- `update_collider_poses()` : fresh tree, every collider gets the manager's transform and
is re-inserted in dict order -/
def updateColliderPoses (getT : Frame → Pose α) (s : State α) : Except Err (State α) :=
  updateLoop getT s.colliders [] Tree.empty #[]

/-- `external_data_list[i]` (Python list read; `None` for branch rows) -/
def State.extAt (s : State α) (i : Int) : Except Err (Option (Frame × Collider α)) :=
  match rd s.tree.ext i with
  | .error e => .error e
  | .ok none => .ok none
  | .ok (some k) =>
    match s.payload[k]? with
    | some x => .ok (some x)
    | none => .error .indexOOB

/-- an element of `np.array(external_data_list, dtype=object)[overlaps]` as `dict()` consumes
it: a `None` row is a `TypeError` -/
def State.resolve (s : State α) (i : Int) : Except Err (Frame × Collider α) :=
  match s.extAt i with
  | .error e => .error e
  | .ok none => .error .typeErr
  | .ok (some x) => .ok x

/-- `aabb_overlapping_colliders(collider, whitelist)` -/
def aabbOverlappingColliders (s : State α) (qc : Collider α) (whitelist : List Frame) :
    Except Err (List (Frame × Collider α)) :=
  match queryOverlap qc.box s.tree.core.root s.tree.core.nodes s.tree.core.aabbs with
  | .error e => .error e
  | .ok overlaps =>
    match mapE s.resolve overlaps with
    | .error e => .error e
    | .ok data => .ok (whitelist.foldl dPop (dOfList data))

abbrev DataPair (α : Type) := Option (Frame × Collider α) × Option (Frame × Collider α)

/-- `(external_data_list[pair[0]], other.external_data_list[pair[1]])` -/
def pairData (s o : State α) (p : Int × Int) : Except Err (DataPair α) :=
  match s.extAt p.1 with
  | .error e => .error e
  | .ok a =>
    match o.extAt p.2 with
    | .error e => .error e
    | .ok b => .ok (a, b)

/-- `aabb_overlapping_with_other_bvh(other_bvh)` -/
def aabbOverlappingWithOtherBvh (s o : State α) : Except Err (List (DataPair α)) :=
  match queryTree s.tree.core o.tree.core with
  | .error e => .error e
  | .ok pairs => mapE (pairData s o) pairs

/-- `aabb_overlapping_with_self()` : same traversal against itself, `pair[0] == pair[1]` skipped -/
def aabbOverlappingWithSelf (s : State α) : Except Err (List (DataPair α)) :=
  match queryTree s.tree.core s.tree.core with
  | .error e => .error e
  | .ok pairs => mapE (pairData s s) (pairs.filter fun p => !(p.1 == p.2))

/-! ### histories -/

inductive Op (α : Type) where
  | add (f : Frame) (c : Collider α)
  | update (getT : Frame → Pose α)

def step (s : State α) : Op α → Except Err (State α)
  | .add f c => addCollider s f c
  | .update getT => updateColliderPoses getT s

def run (s : State α) : List (Op α) → Except Err (State α)
  | [] => .ok s
  | o :: os =>
    match step s o with
    | .error e => .error e
    | .ok s' => run s' os

/-- `fill_tree_with_colliders(tm, …)`: `add_collider(obj.frame, _make_collider(obj))` for every
URDF collision object (the colliders `_make_collider` builds are a parameter), then
`update_collider_poses()`.  (Filling `self_collision_whitelists_` does not touch this state;
the whitelists are a parameter of `detect`.) -/
def fillTreeWithColliders (s : State α) (objs : List (Frame × Collider α))
    (getT : Frame → Pose α) : Except Err (State α) :=
  run s (objs.map (fun p => Op.add p.1 p.2) ++ [Op.update getT])

/-! ### `self_collision.py` -/

/-- `bvh.self_collision_whitelists_` (`none` = key missing → `KeyError`) -/
abbrev Whitelists := Frame → Option (List Frame)

/-- `bvh.aabb_overlapping_colliders(collider, whitelist=bvh.self_collision_whitelists_[frame])` -/
def candidates (s : State α) (wl : Whitelists) (f : Frame) (c : Collider α) :
    Except Err (List (Frame × Collider α)) :=
  match wl f with
  | none => .error .keyError
  | some w => aabbOverlappingColliders s c w

/-- inner loop of `detect`: the first candidate that `hit`s marks both frames, then `break` -/
def scan (hit : Frame → Frame → Bool) (f : Frame) :
    List (Frame × Collider α) → List (Frame × Bool) → List (Frame × Bool)
  | [], contacts => contacts
  | (g, _) :: rest, contacts =>
    if hit f g then dSet (dSet contacts f true) g true
    else scan hit f rest contacts

/-- outer loop of `detect` over `bvh.colliders_.items()` -/
def detectLoop (cand : Frame → Collider α → Except Err (List (Frame × Collider α)))
    (hit : Frame → Frame → Bool) :
    List (Frame × Collider α) → List (Frame × Bool) → Except Err (List (Frame × Bool))
  | [], contacts => .ok contacts
  | (f, c) :: rest, contacts =>
    if (dGet contacts f).isSome then detectLoop cand hit rest contacts   -- `continue`
    else
      match cand f c with
      | .error e => .error e
      | .ok cands => detectLoop cand hit rest (scan hit f cands (dSet contacts f false))

/-- `self_collision.detect(bvh)` -/
def detect (s : State α) (hit : Frame → Frame → Bool) (wl : Whitelists) :
    Except Err (List (Frame × Bool)) :=
  detectLoop (candidates s wl) hit s.colliders []

/-- loop of `detect_any`: `return True` at the first hit -/
def detectAnyLoop (cand : Frame → Collider α → Except Err (List (Frame × Collider α)))
    (hit : Frame → Frame → Bool) : List (Frame × Collider α) → Except Err Bool
  | [] => .ok false
  | (f, c) :: rest =>
    match cand f c with
    | .error e => .error e
    | .ok cands =>
      if cands.any (fun g => hit f g.1) then .ok true else detectAnyLoop cand hit rest

/-- `self_collision.detect_any(bvh)` -/
def detectAny (s : State α) (hit : Frame → Frame → Bool) (wl : Whitelists) : Except Err Bool :=
  detectAnyLoop (candidates s wl) hit s.colliders

/-! ### run-time link check (executed by the driver on the implementation's dumped state) -/

/-- `(frame, current AABB)` of every collider, dict order -/
def State.current (s : State α) : List (Frame × Box α) := s.colliders.map fun p => (p.1, p.2.box)

/-- frame and box stored behind one leaf; the payload collider's own `aabb()` must be the
leaf's box -/
def leafFn (s : State α) (p : Int × Box α) : Except Err (Frame × Box α) :=
  match s.resolve p.1 with
  | .error e => .error e
  | .ok (f, c) => if c.box = p.2 then .ok (f, p.2) else .error .assertFail

/-- frame and box stored behind every leaf of the abstract tree -/
def leafData (s : State α) (t : T α) : Except Err (List (Frame × Box α)) :=
  mapE (leafFn s) t.leaves

/-- The decidable hypothesis of the C06 broad-phase theorems: the tree arrays pass C05's
`wfCheck`, and the leaves, looked up through `external_data_list`, are — as a multiset —
exactly the `(frame, current AABB)` of `colliders_`, whose keys are distinct.
`some none` = empty BVH. -/
def linkCheck (s : State α) : Option (Option (T α)) :=
  match wfCheck s.tree.core with
  | none => none
  | some none => if s.colliders.isEmpty then some none else none
  | some (some t) =>
    match leafData s t with
    | .error _ => none
    | .ok L =>
      if L.isPerm s.current && decide ((dKeys s.current).Nodup) then some (some t) else none

/-! ### `urdf_utils.py` : generated whitelists -/

/-- what `LinkInfo` / `self_collision_whitelists` read from a `UrdfTransformManager` -/
structure UrdfInfo where
  /-- keys `(child, parent)` of `tm.transforms`, dict order -/
  transforms : List (Frame × Frame)
  /-- `tm.nodes` -/
  nodes : List Frame
  /-- `obj.frame for obj in tm.collision_objects` -/
  collisionFrames : List Frame
  /-- link named by a node called `collision:<link>/<k>` (the naming-convention regex);
  `none` for every other node -/
  linkOf : Frame → Option Frame

/-- `LinkInfo.parent_links` : `parent_links[child] = parent`, last write wins -/
def parentLinks (u : UrdfInfo) : List (Frame × Frame) :=
  u.transforms.foldl (fun d e => dSet d e.1 e.2) []

/-- `LinkInfo.child_links` : `child_links[parent] = child`, last write wins — a link with
several children keeps only the child of the last transform -/
def childLinks (u : UrdfInfo) : List (Frame × Frame) :=
  u.transforms.foldl (fun d e => dSet d e.2 e.1) []

/-- `_connected_link(relation, link)` = `relation.get(link, None)`; `link` may be `None` -/
def connectedLink (rel : List (Frame × Frame)) : Option Frame → Option Frame
  | none => none
  | some l => dGet rel l

/-- `collision_frames_attached_to_link(link)` (no link is named `None`) -/
def attached (u : UrdfInfo) : Option Frame → List Frame
  | none => []
  | some l => u.nodes.filter fun n => u.linkOf n == some l

/-- `self_collision_whitelists(tm)` -/
def selfCollisionWhitelists (u : UrdfInfo) : List (Frame × List Frame) :=
  u.collisionFrames.foldl (fun wl f =>
    let link := u.linkOf f
    let parent := connectedLink (parentLinks u) link
    let child := connectedLink (childLinks u) link
    dSet wl f (attached u link ++ attached u parent ++ attached u child)) []

end Bvh
end D3
