/-
Model of the backup procedure of the original GJK (`distance3d/gjk/_gjk_original.py`), C18.
Core Lean only, scalar-polymorphic.  Faithful to

* `BarycentricCoordinates.backup_line_segments / backup_faces / backup_tetrahedron`
  (the cofactor table `d[i, s]`, with `face_coordinates_2/3`, `tetrahedron_coordinates_4..7`;
  same operation order),
* the predicates `line_segment_01_of_line_segment_optimal`, `check_*`,
  `convex_hull_of_tetrahedron_optimal` (threshold `EPSILON = 10·eps` of that module),
* `Solution.from_vertex / from_line_segment / from_face / from_tetrahedron / copy_from`,
* `backup_procedure`, `_backup_procedure_line_segment / _face / _tetrahedron`
  (every candidate in the order of the code, strict `<` on the squared distance, the special
  acceptance test of face 1-2-3), and the `ordered_indices` handed to `SimplexInfo.reorder`.

The simplex is given by its points and by the lower-triangular `dot_product_table`
(`tab i j`, `i ≥ j`) — the procedure reads vertex norms and all cofactors from the table, not
from the points.  Divisions are checked (`divZero`).
Branch id: `2^14 · n + mask`, bit k of `mask` set iff the k-th candidate (in code order) was
accepted.
-/
import D3.Model.Vec
import D3.Gen.Constants

namespace D3
namespace SimplexOrig

scalar_variables

/-- `EPSILON` of `_gjk_original.py` -/
def EPS : α := D3.Gen.gjk__gjk_original__EPSILON

def cdiv (x y : α) : Except Err α :=
  if y < 0 ∨ 0 < y then .ok (x / y) else .error .divZero

/-- current best solution together with the bookkeeping of the backup procedure:
`idx` = `ordered_indices[:n_simplex_points]`, `ps` = the points with those indices,
`w` = `barycentric_coordinates[:n_simplex_points]`, `pt` = `search_direction` -/
structure Sol (α : Type) where
  idx : List Nat
  ps : List (V3 α)
  w : List α
  pt : V3 α
  distSq : α
  mask : Nat

/-- `Solution.from_vertex(simplex, vi)` -/
def fromVertex (vi : Nat) (p : V3 α) (dii : α) : Sol α :=
  ⟨[vi], [p], [1], p, dii, 0⟩

/-- `Solution.from_line_segment(simplex, [i, j], a, b)` -/
def fromLineSegment (i j : Nat) (pi pj : V3 α) (a b : α) : Except Err (Sol α) := do
  let coordsSum := a + b
  let w0 ← cdiv a coordsSum
  let w1 := 1 - w0
  let sd := w0 * pi + w1 * pj
  .ok ⟨[i, j], [pi, pj], [w0, w1], sd, V3.dot sd sd, 0⟩

/-- `Solution.from_face(simplex, [i, j, k], a, b, c)` -/
def fromFace (i j k : Nat) (pi pj pk : V3 α) (a b c : α) : Except Err (Sol α) := do
  let coordsSum := a + b + c
  let w0 ← cdiv a coordsSum
  let w1 ← cdiv b coordsSum
  let w2 := 1 - (w0 + w1)
  let sd := w0 * pi + w1 * pj + w2 * pk
  .ok ⟨[i, j, k], [pi, pj, pk], [w0, w1, w2], sd, V3.dot sd sd, 0⟩

/-- `Solution.from_tetrahedron(simplex, d[:, 14])` -/
def fromTetrahedron (p0 p1 p2 p3 : V3 α) (a b c d : α) : Except Err (Sol α) := do
  let s := a + b + c + d
  let w0 ← cdiv a s
  let w1 ← cdiv b s
  let w2 ← cdiv c s
  let w3 ← cdiv d s
  let sd := w0 * p0 + w1 * p1 + w2 * p2 + w3 * p3
  .ok ⟨[0, 1, 2, 3], [p0, p1, p2, p3], [w0, w1, w2, w3], sd, V3.dot sd sd, 0⟩

/-- `if cond: solution_d.from_…; if solution_d.distance_squared < solution.distance_squared: copy` -/
def tryCand (cond : Bool) (cand : Except Err (Sol α)) (bit : Nat) (cur : Sol α) :
    Except Err (Sol α) :=
  if cond then do
    let c ← cand
    if c.distSq < cur.distSq then .ok { c with mask := cur.mask + bit } else .ok cur
  else .ok cur

/-- `if dot_product_table[i, i] < solution.distance_squared: solution.from_vertex(simplex, i)` -/
def tryVertex (i : Nat) (p : V3 α) (dii : α) (bit : Nat) (cur : Sol α) : Sol α :=
  if dii < cur.distSq then { fromVertex i p dii with mask := cur.mask + bit } else cur

/-- the last candidate of the tetrahedron case (face 1-2-3):
`diff < 0.0 or n_simplex_points == 4 and diff <= 0.0` -/
def tryCandLast (cond : Bool) (cand : Except Err (Sol α)) (bit : Nat) (cur : Sol α) :
    Except Err (Sol α) :=
  if cond then do
    let c ← cand
    let diff := c.distSq - cur.distSq
    if diff < 0 ∨ (cur.idx.length = 4 ∧ diff ≤ 0) then .ok { c with mask := cur.mask + bit }
    else .ok cur
  else .ok cur

/-- `_backup_procedure_line_segment` on the table entries `t00 t10 t11` -/
def backupLine (p0 p1 : V3 α) (t00 t10 t11 : α) : Except Err (Sol α) := do
  let d12 := t00 - t10
  let d02 := t11 - t10
  let s := fromVertex 0 p0 t00
  let seg01 : Bool := !(decide (d02 ≤ 0) || decide (d12 ≤ 0))
  let s ← tryCand seg01 (fromLineSegment 0 1 p0 p1 d02 d12) 1 s
  let s := tryVertex 1 p1 t11 2 s
  .ok s

/-- `_backup_procedure_face` -/
def backupFace (p0 p1 p2 : V3 α) (t00 t10 t11 t20 t21 t22 : α) : Except Err (Sol α) := do
  -- backup_faces
  let d12 := t00 - t10
  let d02 := t11 - t10
  let d24 := t00 - t20
  let e132 := t10 - t21
  let d26 := d02 * d24 + d12 * e132
  let e123 := t20 - t21
  let d04 := t22 - t20
  let d16 := d04 * d12 + d24 * e123
  let e213 := -e123
  let d15 := t22 - t21
  let d25 := t11 - t21
  let d06 := d15 * d02 + d25 * e213
  let s := fromVertex 0 p0 t00
  let seg01 : Bool := !(decide (d02 ≤ 0) || decide (d12 ≤ 0))
  let s ← tryCand seg01 (fromLineSegment 0 1 p0 p1 d02 d12) 1 s
  let seg02 : Bool := !(decide (d04 ≤ 0) || decide (d24 ≤ 0))
  let s ← tryCand seg02 (fromLineSegment 0 2 p0 p2 d04 d24) 2 s
  let face012 : Bool := !(decide (d06 ≤ 0) || decide (d16 ≤ 0) || decide (d26 ≤ 0))
  let s ← tryCand face012 (fromFace 0 1 2 p0 p1 p2 d06 d16 d26) 4 s
  let s := tryVertex 1 p1 t11 8 s
  let s := tryVertex 2 p2 t22 16 s
  let seg12 : Bool := !(decide (d15 ≤ 0) || decide (d25 ≤ 0))
  let s ← tryCand seg12 (fromLineSegment 2 1 p2 p1 d25 d15) 32 s
  .ok s

/-- `_backup_procedure_tetrahedron` -/
def backupTetra (p0 p1 p2 p3 : V3 α) (t00 t10 t11 t20 t21 t22 t30 t31 t32 t33 : α) :
    Except Err (Sol α) := do
  -- backup_faces
  let d12 := t00 - t10
  let d02 := t11 - t10
  let d24 := t00 - t20
  let e132 := t10 - t21
  let d26 := d02 * d24 + d12 * e132
  let e123 := t20 - t21
  let d04 := t22 - t20
  let d16 := d04 * d12 + d24 * e123
  let e213 := -e123
  let d15 := t22 - t21
  let d25 := t11 - t21
  let d06 := d15 * d02 + d25 * e213
  -- backup_tetrahedron
  let d38 := t00 - t30
  let e142 := t10 - t31
  let d311 := d02 * d38 + d12 * e142
  let e143 := t20 - t32
  let d312 := d04 * d38 + d24 * e143
  let d314 := d06 * d38 + d16 * e142 + d26 * e143
  -- tetrahedron_coordinates_4
  let e124 := t30 - t31
  let e134 := t30 - t32
  let d08 := t33 - t30
  let d111 := d08 * d12 + d38 * e124
  let d212 := d08 * d24 + d38 * e134
  -- tetrahedron_coordinates_5
  let d19 := t33 - t31
  let d39 := t11 - t31
  let e214 := -e124
  let d011 := d19 * d02 + d39 * e214
  let d214 := d011 * d24 + d111 * e132 + d311 * e134
  -- tetrahedron_coordinates_6
  let d210 := t33 - t32
  let d310 := t22 - t32
  let e314 := -e134
  let d012 := d210 * d04 + d310 * e314
  let d114 := d012 * d12 + d212 * e123 + d312 * e124
  -- tetrahedron_coordinates_7
  let e243 := t21 - t32
  let d313 := d15 * d39 + d25 * e243
  let e234 := t31 - t32
  let d213 := d19 * d25 + d39 * e234
  let e324 := -e234
  let d113 := d210 * d15 + d310 * e324
  let d014 := d113 * d02 + d213 * e213 + d313 * e214
  let s := fromVertex 0 p0 t00
  let seg01 : Bool := !(decide (d02 ≤ 0) || decide (d12 ≤ 0))
  let s ← tryCand seg01 (fromLineSegment 0 1 p0 p1 d02 d12) 1 s
  let seg02 : Bool := !(decide (d04 ≤ 0) || decide (d24 ≤ 0))
  let s ← tryCand seg02 (fromLineSegment 0 2 p0 p2 d04 d24) 2 s
  let face012 : Bool := !(decide (d06 ≤ 0) || decide (d16 ≤ 0) || decide (d26 ≤ 0))
  let s ← tryCand face012 (fromFace 0 1 2 p0 p1 p2 d06 d16 d26) 4 s
  let seg03 : Bool := !(decide (d08 ≤ 0) || decide (d38 ≤ 0))
  let s ← tryCand seg03 (fromLineSegment 0 3 p0 p3 d08 d38) 8 s
  let face013 : Bool := !(decide (d011 ≤ 0) || decide (d111 ≤ 0) || decide (d311 ≤ 0))
  let s ← tryCand face013 (fromFace 0 1 3 p0 p1 p3 d011 d111 d311) 16 s
  let face023 : Bool := !(decide (d012 ≤ 0) || decide (d212 ≤ 0) || decide (d312 ≤ 0))
  let s ← tryCand face023 (fromFace 0 3 2 p0 p3 p2 d012 d312 d212) 32 s
  let hull : Bool := !(decide (d014 ≤ EPS) || decide (d114 ≤ EPS) || decide (d214 ≤ EPS)
    || decide (d314 ≤ EPS))
  let s ← tryCand hull (fromTetrahedron p0 p1 p2 p3 d014 d114 d214 d314) 64 s
  let s := tryVertex 1 p1 t11 128 s
  let s := tryVertex 2 p2 t22 256 s
  let s := tryVertex 3 p3 t33 512 s
  let seg12 : Bool := !(decide (d15 ≤ 0) || decide (d25 ≤ 0))
  let s ← tryCand seg12 (fromLineSegment 2 1 p2 p1 d25 d15) 1024 s
  let seg13 : Bool := !(decide (d19 ≤ 0) || decide (d39 ≤ 0))
  let s ← tryCand seg13 (fromLineSegment 3 1 p3 p1 d39 d19) 2048 s
  let seg23 : Bool := !(decide (d210 ≤ 0) || decide (d310 ≤ 0))
  let s ← tryCand seg23 (fromLineSegment 2 3 p2 p3 d210 d310) 4096 s
  let face123 : Bool := !(decide (d113 ≤ 0) || decide (d213 ≤ 0) || decide (d313 ≤ 0))
  let s ← tryCandLast face123 (fromFace 3 1 2 p3 p1 p2 d313 d113 d213) 8192 s
  .ok s

/-- what `distance_subalgorithm_with_backup_procedure(simplex, solution, backup=True)` leaves
behind: `idx` = argument of `simplex.reorder`, `w` = `solution.barycentric_coordinates[:k]`,
`pt` = `solution.search_direction`, `distSq` = `solution.distance_squared` -/
structure Result (α : Type) where
  idx : List Nat
  ps : List (V3 α)
  w : List α
  pt : V3 α
  distSq : α
  br : Nat

def rd {β : Type} (a : Array β) (i : Nat) : Except Err β :=
  match a[i]? with
  | some x => .ok x
  | none => .error .indexOOB

/-- `backup_procedure(simplex, solution, d, backup=True)`; `tab` is the lower triangle of
`dot_product_table`, row-major: `[t00, t10, t11, t20, t21, t22, t30, t31, t32, t33]` -/
def backupProcedure (pts : Array (V3 α)) (tab : Array α) : Except Err (Result α) := do
  let n := pts.size
  let s : Sol α ←
    if n = 1 then do
      let p0 ← rd pts 0
      let t00 ← rd tab 0
      pure (fromVertex 0 p0 t00)
    else if n = 2 then do
      let p0 ← rd pts 0; let p1 ← rd pts 1
      let t00 ← rd tab 0; let t10 ← rd tab 1; let t11 ← rd tab 2
      backupLine p0 p1 t00 t10 t11
    else if n = 3 then do
      let p0 ← rd pts 0; let p1 ← rd pts 1; let p2 ← rd pts 2
      let t00 ← rd tab 0; let t10 ← rd tab 1; let t11 ← rd tab 2
      let t20 ← rd tab 3; let t21 ← rd tab 4; let t22 ← rd tab 5
      backupFace p0 p1 p2 t00 t10 t11 t20 t21 t22
    else if n = 4 then do
      let p0 ← rd pts 0; let p1 ← rd pts 1; let p2 ← rd pts 2; let p3 ← rd pts 3
      let t00 ← rd tab 0; let t10 ← rd tab 1; let t11 ← rd tab 2
      let t20 ← rd tab 3; let t21 ← rd tab 4; let t22 ← rd tab 5
      let t30 ← rd tab 6; let t31 ← rd tab 7; let t32 ← rd tab 8; let t33 ← rd tab 9
      backupTetra p0 p1 p2 p3 t00 t10 t11 t20 t21 t22 t30 t31 t32 t33
    else .error .assertFail
  .ok ⟨s.idx, s.ps, s.w, s.pt, s.distSq, 16384 * n + s.mask⟩

end SimplexOrig
end D3
