/-
Model of the contact-polygon part of `distance3d/hydroelastic_contact` (core Lean only):

* `_halfplanes.py`               : `cross2d`, `intersect_two_halfplanes`, `point_outside_of_halfplane`,
                                   `intersect_halfplanes`
* `_tetrahedron_intersection.py` : `contact_plane`, `_handle_same_tetrahedron`,
                                   `check_tetrahedra_intersect_contact_plane`, `make_halfplanes`,
                                   `order_points`, `filter_unique_points`, `project_polygon_to_3d`,
                                   `compute_contact_polygon`, `intersect_tetrahedron_pair`
* `_forces.py`                   : `compute_contact_force` (with `tesselate_ordered_polygon(8)`)
* `utils.py`                     : `plane_basis_from_normal`

Faithful to the code as it is: the `|denom| < EPSILON` parallel test, the `-EPSILON` slack of the
outside test, the `n (n - 1) // 2 + 1` row buffer of `intersect_halfplanes` with *checked* writes
(`indexOOB` when the buffer is full — the Python `assert` only runs after the loop, so an
overflowing write would come first: IndexError interpreted, out-of-bounds store under numba) and
the strict assertion `n_intersections < len(points)` afterwards (the `3 * len(halfplanes)` buffer
before the repair commit is kept as `intersectHalfplanes_asIs_before_fix`), the `norm > EPSILON` skip of
`make_halfplanes` with compact writes at `hp_idx` (the indexing before the repair commit is kept as
`makeHalfplanes_asIs_before_fix`), the two "same tetrahedron" exits of `contact_plane`
(`norm == 0.0` and `abs(d) < 10 * EPSILON`).

Parameters (not modelled, contract stated where used): `np.linalg.pinv` (`barycentric_transforms`:
the rows `X1`, `X2` are inputs here) and `np.linalg.solve` (`compute_contact_force`: the solver is
an argument).  `np.argsort` is modelled by a stable insertion sort (numpy's sort of ≤ 16 keys is an
insertion sort; the order among *equal* angles is otherwise unspecified and no theorem uses it).
-/
import D3.Model.Vec
import D3.Gen.Constants

namespace D3
namespace Hydro

/-- a point / direction of the contact plane -/
structure V2 (α : Type) where
  x : α
  y : α
  deriving Repr, DecidableEq, Inhabited

/-- a row `[n0, n1, n2, c]`: a face half-space of a tetrahedron (row of the barycentric
transform `X`: `λ(r) = ⟨n, r⟩ + c` is one barycentric coordinate) or a plane in Hesse normal
form (`c = d`) -/
structure Row4 (α : Type) where
  n : V3 α
  c : α
  deriving Repr, DecidableEq, Inhabited

/-- a row `[p0, p1, d0, d1]` of the half-plane array: point `p` on the boundary line, direction
`d` of the line; the inside is to the left of `d` -/
structure HP (α : Type) where
  p : V2 α
  d : V2 α
  deriving Repr, DecidableEq, Inhabited

/-- four scalars (potentials of the four vertices, a 4-vector of `np.linalg.solve`) -/
structure Q4 (α : Type) where
  a : α
  b : α
  c : α
  d : α
  deriving Repr, DecidableEq, Inhabited

/-- four rows (a `(4,4)` barycentric transform) -/
structure X4 (α : Type) where
  r0 : Row4 α
  r1 : Row4 α
  r2 : Row4 α
  r3 : Row4 α
  deriving Repr, DecidableEq, Inhabited

/-- four vertices of a tetrahedron (a `(4,3)` array) -/
structure Tet (α : Type) where
  v0 : V3 α
  v1 : V3 α
  v2 : V3 α
  v3 : V3 α
  deriving Repr, DecidableEq, Inhabited

scalar_variables

/-- `EPSILON` imported from `utils` -/
def eps : α := D3.Gen.utils__EPSILON

/-- `x == 0.0` as IEEE compares it -/
def isZero (x : α) : Bool := decide (x ≤ 0) && decide (0 ≤ x)

/-- small naturals as scalars (`len(points)` in `np.mean`) -/
def ofNatS : Nat → α
  | 0 => 0
  | n + 1 => ofNatS n + 1

def X4.rows (X : X4 α) : List (Row4 α) := [X.r0, X.r1, X.r2, X.r3]

/-! ### `_halfplanes.py` -/

/-- `cross2d` -/
def cross2d (a b : V2 α) : α := a.x * b.y - a.y * b.x

def V2.sub (a b : V2 α) : V2 α := ⟨a.x - b.x, a.y - b.y⟩

/-- `intersect_two_halfplanes`; `none` = the empty array returned for parallel lines -/
def intersectTwoHalfplanes (h1 h2 : HP α) : Option (V2 α) :=
  let denom := cross2d h1.d h2.d
  if absS denom < (eps : α) then none
  else
    let t := cross2d (V2.sub h2.p h1.p) h2.d / denom
    some ⟨h1.p.x + h1.d.x * t, h1.p.y + h1.d.y * t⟩

/-- the quantity compared in `point_outside_of_halfplane` -/
def hpSide (h : HP α) (q : V2 α) : α := cross2d h.d (V2.sub q h.p)

/-- `point_outside_of_halfplane` -/
def pointOutsideOfHalfplane (h : HP α) (q : V2 α) : Bool := decide (hpSide h q < -(eps : α))

/-- the innermost loop of `intersect_halfplanes` (`break` at the first half-plane that has the
point outside = short-circuit conjunction) -/
def validPoint (hps : List (HP α)) (i j : Nat) (p : V2 α) : Bool :=
  hps.zipIdx.all fun hk => hk.2 == i || hk.2 == j || !pointOutsideOfHalfplane hk.1 p

/-- `for i in range(n): for j in range(i + 1, n)` -/
def pairIdx (n : Nat) : List (Nat × Nat) :=
  (List.range n).flatMap fun i => (List.range n).filterMap fun j => if i < j then some (i, j) else none

/-- rows of `points = np.empty((n_halfplanes * (n_halfplanes - 1) // 2 + 1, 2))`: one row per pair
`i < j` plus one (Python's `0 * (0 - 1) // 2 + 1 = 1` for the empty list agrees with the truncated
subtraction here) -/
def bufferRows (n : Nat) : Nat := n * (n - 1) / 2 + 1

/-- rows of the buffer before the repair commit: `points = np.empty((3 * len(halfplanes), 2))` -/
def bufferRows_asIs_before_fix (n : Nat) : Nat := 3 * n

/-- body of the double loop for one pair `(i, j)`; `acc` = the rows written so far
(`n_intersections = acc.length`).  The write `points[n_intersections] = p` is checked. -/
def ihStep (hps : List (HP α)) (cap : Nat) (acc : List (V2 α)) (ij : Nat × Nat) :
    Except Err (List (V2 α)) :=
  match hps[ij.1]?, hps[ij.2]? with
  | some hi, some hj =>
    match intersectTwoHalfplanes hi hj with
    | none => .ok acc
    | some p =>
      if validPoint hps ij.1 ij.2 p then
        if acc.length < cap then .ok (acc ++ [p]) else .error .indexOOB
      else .ok acc
  | _, _ => .error .indexOOB

/-- `intersect_halfplanes` with the number of buffer rows as a function of `len(halfplanes)` -/
def intersectHalfplanesWith (rows : Nat → Nat) (hps : List (HP α)) : Except Err (List (V2 α)) := do
  let cap := rows hps.length
  let acc ← (pairIdx hps.length).foldlM (ihStep hps cap) []
  if acc.length < cap then .ok acc else .error .assertFail

/-- `intersect_halfplanes` as it is now -/
def intersectHalfplanes (hps : List (HP α)) : Except Err (List (V2 α)) :=
  intersectHalfplanesWith bufferRows hps

/-- `intersect_halfplanes` before the repair commit (buffer of `3 n` rows) -/
def intersectHalfplanes_asIs_before_fix (hps : List (HP α)) : Except Err (List (V2 α)) :=
  intersectHalfplanesWith bufferRows_asIs_before_fix hps

/-! ### `utils.plane_basis_from_normal` -/

/-- branch 0 = `abs(n[0]) >= abs(n[1])`, branch 1 otherwise; a zero `length` is `divZero`
(ZeroDivisionError under numba, NaN interpreted) -/
def planeBasisFromNormal (n : V3 α) : Except Err (Nat × V3 α × V3 α) :=
  if absS n.y ≤ absS n.x then
    let length := sqrt (n.x * n.x + n.z * n.z)
    if isZero length then .error .divZero else
      let x : V3 α := ⟨-n.z / length, 0, n.x / length⟩
      let y : V3 α := ⟨n.y * x.z, n.z * x.x - n.x * x.z, -n.y * x.x⟩
      .ok (0, x, y)
  else
    let length := sqrt (n.y * n.y + n.z * n.z)
    if isZero length then .error .divZero else
      let x : V3 α := ⟨0, n.z / length, -n.y / length⟩
      let y : V3 α := ⟨n.y * x.z - n.z * x.y, -n.x * x.z, n.x * x.y⟩
      .ok (1, x, y)

/-! ### `make_halfplanes` -/

/-- `normals2d[i] = face_normals[i].dot(cart2plane.T)` -/
def normal2d (r : Row4 α) (cx cy : V3 α) : V2 α := ⟨V3.dot r.n cx, V3.dot r.n cy⟩

/-- `ds[i] = -X[i, 3] - face_normals[i].dot(plane_point)` -/
def dsOf (r : Row4 α) (planePoint : V3 α) : α := -r.c - V3.dot r.n planePoint

/-- loop body of `make_halfplanes` for one row: `none` = the row is skipped (`norm <= EPSILON`) -/
def makeHalfplaneRow (planePoint cx cy : V3 α) (r : Row4 α) : Option (HP α) :=
  let n2 := normal2d r cx cy
  let ds := dsOf r planePoint
  let norm := sqrt (n2.x * n2.x + n2.y * n2.y)
  if (eps : α) < norm then
    some ⟨⟨n2.x * ds / (norm * norm), n2.y * ds / (norm * norm)⟩, ⟨n2.y, -n2.x⟩⟩
  else none

/-- `make_halfplanes` as it is now: rows are written compactly at `hp_idx` -/
def makeHalfplanes (X : List (Row4 α)) (planePoint cx cy : V3 α) : List (HP α) :=
  X.filterMap (makeHalfplaneRow planePoint cx cy)

/-- `make_halfplanes` before the repair commit: row `i` was written at index `i` of the
`np.empty((8, 4))` buffer but the first `hp_idx` rows were returned.  `garbage` is the content of
an unwritten (uninitialised) row. -/
def makeHalfplanes_asIs_before_fix (garbage : HP α) (X : List (Row4 α)) (planePoint cx cy : V3 α) :
    List (HP α) :=
  let rows := X.map (makeHalfplaneRow planePoint cx cy)
  let hpIdx := (rows.filterMap id).length
  (rows.take hpIdx).map fun r => r.getD garbage

/-! ### `contact_plane`, `_handle_same_tetrahedron`, `check_tetrahedra_intersect_contact_plane` -/

/-- `w.dot(X)` for a 4-vector `w` and a `(4,4)` array `X` -/
def combRows (w : Q4 α) (X : X4 α) : Row4 α :=
  ⟨⟨w.a * X.r0.n.x + w.b * X.r1.n.x + w.c * X.r2.n.x + w.d * X.r3.n.x,
    w.a * X.r0.n.y + w.b * X.r1.n.y + w.c * X.r2.n.y + w.d * X.r3.n.y,
    w.a * X.r0.n.z + w.b * X.r1.n.z + w.c * X.r2.n.z + w.d * X.r3.n.z⟩,
   w.a * X.r0.c + w.b * X.r1.c + w.c * X.r2.c + w.d * X.r3.c⟩

def Q4.scale (e : Q4 α) (s : α) : Q4 α := ⟨e.a * s, e.b * s, e.c * s, e.d * s⟩

/-- `(epsilon1 * E1).dot(X1) - (epsilon2 * E2).dot(X2)` -/
def rawPlane (X1 X2 : X4 α) (e1 e2 : Q4 α) (E1 E2 : α) : Row4 α :=
  let a := combRows (e1.scale E1) X1
  let b := combRows (e2.scale E2) X2
  ⟨a.n - b.n, a.c - b.c⟩

/-- `contact_plane`: `(plane_hnf, same, branch)`.
branch 1 = `norm == 0.0`, branch 2 = `abs(plane_hnf[3]) < 10.0 * EPSILON`, branch 0 = regular. -/
def contactPlane (X1 X2 : X4 α) (e1 e2 : Q4 α) (E1 E2 : α) : Row4 α × Bool × Nat :=
  let h := rawPlane X1 X2 e1 e2 E1 E2
  let norm := V3.norm h.n
  if isZero norm then (h, true, 1)
  else
    let h' : Row4 α := ⟨h.n.sdiv norm, (h.c / norm) * (-1)⟩
    if absS h'.c < 10.0 * (eps : α) then (h', true, 2) else (h', false, 0)

/-- `weights.dot(tetrahedron)` -/
def combPoints (w : Q4 α) (t : Tet α) : V3 α :=
  ⟨w.a * t.v0.x + w.b * t.v1.x + w.c * t.v2.x + w.d * t.v3.x,
   w.a * t.v0.y + w.b * t.v1.y + w.c * t.v2.y + w.d * t.v3.y,
   w.a * t.v0.z + w.b * t.v1.z + w.c * t.v2.z + w.d * t.v3.z⟩

/-- `_handle_same_tetrahedron`: plane through the potential-weighted centre and a polygon of three
copies of that point.  branch 0 = `d > 0.0`, 1 = the fixed normal `(0,0,1)`.
`sum(epsilon) == 0` is `divZero` (NaN in the implementation). -/
def handleSameTetrahedron (e : Q4 α) (t : Tet α) : Except Err (Nat × Row4 α × List (V3 α)) :=
  let s := e.a + e.b + e.c + e.d
  if isZero s then .error .divZero else
    let w : Q4 α := ⟨e.a / s, e.b / s, e.c / s, e.d / s⟩
    let pp := combPoints w t
    let d := V3.norm pp
    if 0 < d then .ok (0, ⟨pp.sdiv d, d⟩, [pp, pp, pp])
    else .ok (1, ⟨⟨0, 0, 1⟩, d⟩, [pp, pp, pp])

/-- `tetrahedron.dot(plane_normal) - d` -/
def planeDistances (t : Tet α) (n : V3 α) (d : α) : Q4 α :=
  ⟨V3.dot t.v0 n - d, V3.dot t.v1 n - d, V3.dot t.v2 n - d, V3.dot t.v3 n - d⟩

def Q4.min (q : Q4 α) : α := Min.min (Min.min (Min.min q.a q.b) q.c) q.d
def Q4.max (q : Q4 α) : α := Max.max (Max.max (Max.max q.a q.b) q.c) q.d

/-- `check_tetrahedra_intersect_contact_plane` -/
def checkTetrahedraIntersectContactPlane (t1 t2 : Tet α) (n : V3 α) (d tolerance : α) : Bool :=
  let d1 := planeDistances t1 n d
  let d2 := planeDistances t2 n d
  decide (d1.min < -tolerance) && decide (tolerance < d1.max) &&
  decide (d2.min < -tolerance) && decide (tolerance < d2.max)

/-! ### `order_points`, `filter_unique_points`, `project_polygon_to_3d` -/

section
variable [HasAtan2 α]

def sumList (l : List α) : α := l.foldl (· + ·) 0

/-- stable insertion: behind every entry whose key is not greater (a NaN key goes to the end,
like in numpy) -/
def insertKeyed (x : α × V2 α) : List (α × V2 α) → List (α × V2 α)
  | [] => [x]
  | y :: ys => if x.1 < y.1 then x :: y :: ys else y :: insertKeyed x ys

/-- `np.argsort` of at most 16 keys is an insertion sort -/
def sortKeyed (l : List (α × V2 α)) : List (α × V2 α) :=
  l.foldl (fun acc x => insertKeyed x acc) []

/-- `order_points`: sort by `arctan2` around the mean (stable) -/
def orderPoints (pts : List (V2 α)) : List (V2 α) :=
  let n : α := ofNatS pts.length
  let cx := sumList (pts.map (·.x)) / n
  let cy := sumList (pts.map (·.y)) / n
  let keyed := pts.map fun p => (atan2 (p.y - cy) (p.x - cx), p)
  (sortKeyed keyed).map (·.2)

end

/-- `np.linalg.norm(points[j] - points[j - 1])` -/
def dist2d (a b : V2 α) : α :=
  let dx := a.x - b.x
  let dy := a.y - b.y
  sqrt (dx * dx + dy * dy)

def filterUniqueGo (prev : V2 α) : List (V2 α) → List (V2 α)
  | [] => []
  | q :: qs =>
    if 10.0 * (eps : α) < dist2d q prev then q :: filterUniqueGo q qs else filterUniqueGo q qs

/-- `filter_unique_points`: a point is kept iff it is the first or farther than `10 * EPSILON`
from its predecessor *in the input* -/
def filterUniquePoints : List (V2 α) → List (V2 α)
  | [] => []
  | p :: ps => p :: filterUniqueGo p ps

/-- one row of `vertices.dot(cart2plane) + plane_point` -/
def lift (planePoint cx cy : V3 α) (q : V2 α) : V3 α :=
  ⟨q.x * cx.x + q.y * cy.x + planePoint.x,
   q.x * cx.y + q.y * cy.y + planePoint.y,
   q.x * cx.z + q.y * cy.z + planePoint.z⟩

/-- `project_polygon_to_3d` -/
def projectPolygonTo3d (vs : List (V2 α)) (cx cy planePoint : V3 α) : List (V3 α) :=
  vs.map (lift planePoint cx cy)

/-! ### `compute_contact_polygon`, `intersect_tetrahedron_pair` -/

/-- `plane_point = plane_normal * d` -/
def planePointOf (n : V3 α) (d : α) : V3 α := ⟨n.x * d, n.y * d, n.z * d⟩

section
variable [HasAtan2 α]

/-- `compute_contact_polygon`: `(branch, vertices3d)`.
branch 1 = fewer than 3 intersection points, 2 = fewer than 3 unique points, 0 = polygon. -/
def computeContactPolygon (X1 X2 : X4 α) (n : V3 α) (d : α) : Except Err (Nat × List (V3 α)) := do
  let pp := planePointOf n d
  let (_, cx, cy) ← planeBasisFromNormal n
  let hps := makeHalfplanes (X1.rows ++ X2.rows) pp cx cy
  let v2 ← intersectHalfplanes hps
  if v2.length < 3 then .ok (1, [])
  else
    let uniq := filterUniquePoints (orderPoints v2)
    if uniq.length < 3 then .ok (2, [])
    else .ok (0, projectPolygonTo3d uniq cx cy pp)

/-- result of `intersect_tetrahedron_pair`: `polygon = none` is the Python `None` -/
structure PairResult (α : Type) where
  intersecting : Bool
  plane : Row4 α
  polygon : Option (List (V3 α))
  branch : Nat

/-- `intersect_tetrahedron_pair`.
branch 1 = "same" exit, 2 = the tetrahedra do not both straddle the plane, 3 = polygon with
fewer than 3 vertices, 0 = contact polygon.  The literal `1e-6` is the `tolerance=` of the call. -/
def intersectTetrahedronPair (t1 : Tet α) (e1 : Q4 α) (X1 : X4 α) (t2 : Tet α) (e2 : Q4 α)
    (X2 : X4 α) (E1 E2 : α) : Except Err (PairResult α) := do
  let (hnf, same, _) := contactPlane X1 X2 e1 e2 E1 E2
  if same then
    let (_, pl, poly) ← handleSameTetrahedron e2 t2
    .ok ⟨true, pl, some poly, 1⟩
  else
    if !checkTetrahedraIntersectContactPlane t1 t2 hnf.n hnf.c 1e-6 then
      .ok ⟨false, hnf, none, 2⟩
    else
      let (_, poly) ← computeContactPolygon X1 X2 hnf.n hnf.c
      if poly.length < 3 then .ok ⟨false, hnf, some poly, 3⟩
      else .ok ⟨true, hnf, some poly, 0⟩

end

/-! ### `compute_contact_force` -/

/-- `TRIANGLES = tesselate_ordered_polygon(8)`: the fan `(0, i, i+1)`, `i = 1..6` -/
def triangles8 : List (Nat × Nat × Nat) := (List.range 6).map fun i => (0, i + 1, i + 2)

structure ForceResult (α : Type) where
  com : V3 α
  force : V3 α
  area : α
  totalForce : α
  nTriangles : Nat

/-- accumulator of the triangle loop: `(total_force, total_area, intersection_com)` -/
structure ForceAcc (α : Type) where
  f : α
  a : α
  c : V3 α

/-- loop body of `compute_contact_force` for one triangle.  `solve b` stands for
`np.linalg.solve(X, b)` with `X = [[tetrahedron.T], [1 1 1 1]]` (contract: `X · solve b = b`). -/
def forceStep (solve : V3 α → Q4 α) (w : Q4 α) (poly : Array (V3 α)) (acc : ForceAcc α)
    (tri : Nat × Nat × Nat) : Except Err (ForceAcc α) :=
  match poly[tri.1]?, poly[tri.2.1]?, poly[tri.2.2]? with
  | some v0, some v1, some v2 =>
    let com : V3 α := (v0 + v1 + v2).sdiv 3.0
    let res := solve com
    let pressure := res.a * w.a + res.b * w.b + res.c * w.c + res.d * w.d
    let area := 0.5 * V3.norm (V3.cross (v1 - v0) (v2 - v0))
    .ok ⟨acc.f + pressure * area, acc.a + area, acc.c + V3.smul area com⟩
  | _, _, _ => .error .indexOOB

/-- `compute_contact_force`.  `TRIANGLES[:len(contact_polygon) - 2]`: a negative stop (fewer than
two vertices) selects triangles whose vertices do not exist (`indexOOB`); more than 8 vertices
are silently cut to the first 8. -/
def computeContactForce (solve : V3 α → Q4 α) (e : Q4 α) (plane : Row4 α) (poly : List (V3 α))
    (E : α) : Except Err (ForceResult α) := do
  let tris := if 2 ≤ poly.length then triangles8.take (poly.length - 2)
              else triangles8.take (6 - (2 - poly.length))
  let w := e.scale E
  let acc ← tris.foldlM (forceStep solve w poly.toArray) ⟨0, 0, V3.zero⟩
  let com ← if 0 < acc.a then pure (acc.c.sdiv acc.a)
            else match poly with
              | p :: _ => pure p
              | [] => throw Err.indexOOB
  .ok ⟨com, V3.smul acc.f plane.n, acc.a, acc.f, tris.length⟩

end Hydro
end D3
