/-
Executable (scalar-polymorphic, core Lean only) form of the predicate `JoltGood`: the simplices
`get_closest_point_to_origin` treats exactly, i.e. the conjunction of the C18 band exclusions.
Nothing here is called by the model of the code; it is a *checker* that a harness can run (at
`Rat`) on every simplex a recorded run hands to the solver.  `D3.Gjk.joltGoodB_iff` proves that at
`ℝ` it decides `JoltGood`, the hypothesis of the C01 theorems about the real solver.
-/
import D3.Model.Simplex
import D3.Model.GjkJolt

namespace D3
namespace Simplex

scalar_variables

/-- `EdgeOK`: `¬ |q − p|² < EPSILON_SQR`, or `p = q` -/
def edgeOKb (p q : V3 α) : Bool :=
  !(decide (V3.dot (q - p) (q - p) < EPS2)) || decide (p = q)

/-- `TriRegular`: the code's degeneracy test `|n|² ≤ EPSILON · L⁴` fails -/
def triRegularB (a b c : V3 α) : Bool :=
  !(decide (V3.dot (triNormal a b c) (triNormal a b c) ≤
      EPS * maxEdgeLenSq a b c * maxEdgeLenSq a b c))

/-- `FaceOK`: regular, or exactly collinear with exact edges -/
def faceOKb (p q r : V3 α) : Bool :=
  triRegularB p q r ||
    (decide (V3.cross (q - p) (r - p) = ⟨0, 0, 0⟩) && edgeOKb p q && edgeOKb p r && edgeOKb q r)

/-- `TetraOK` -/
def tetraOKb (a b c d : V3 α) : Bool :=
  let D := V3.dot (d - a) (V3.cross (b - a) (c - a))
  let s0 := V3.dot a (V3.cross (b - a) (c - a))
  let s1 := V3.dot a (V3.cross (c - a) (d - a))
  let s2 := V3.dot a (V3.cross (d - a) (b - a))
  let s3 := V3.dot b (V3.cross (d - b) (c - b))
  let regular := triRegularB a b c && triRegularB a c d && triRegularB a d b && triRegularB b d c
  (decide (V3.dot a a < MAXF) && decide (V3.dot b b < MAXF)) &&
  ((decide (0 < D) &&
      ((!(decide (-EPS ≤ s0)) || decide (0 ≤ s0)) && (!(decide (-EPS ≤ s1)) || decide (0 ≤ s1)) &&
       (!(decide (-EPS ≤ s2)) || decide (0 ≤ s2)) && (!(decide (-EPS ≤ s3)) || decide (0 ≤ s3))) &&
      regular) ||
   (decide (D < 0) &&
      ((!(decide (s0 ≤ EPS)) || decide (s0 ≤ 0)) && (!(decide (s1 ≤ EPS)) || decide (s1 ≤ 0)) &&
       (!(decide (s2 ≤ EPS)) || decide (s2 ≤ 0)) && (!(decide (s3 ≤ EPS)) || decide (s3 ≤ 0))) &&
      regular) ||
   (decide (D = 0) && faceOKb a b c && faceOKb a c d && faceOKb a d b && faceOKb b d c))

/-- `SimplexOK` for the first `n` of four points -/
def simplexOKb (y0 y1 y2 y3 : V3 α) (n : Nat) : Bool :=
  if n = 2 then edgeOKb y0 y1
  else if n = 3 then faceOKb y0 y1 y2
  else if n = 4 then tetraOKb y0 y1 y2 y3
  else true

end Simplex

namespace GjkJolt

scalar_variables

/-- executable `JoltGood Y n` -/
def joltGoodB (Y : A4 (V3 α)) (n : Nat) : Bool := Simplex.simplexOKb Y.r0 Y.r1 Y.r2 Y.r3 n

end GjkJolt
end D3
