/-
Model of `distance3d/aabb_tree.py` (array layer), core Lean only.

Faithful to the implementation: the tree lives in parallel arrays `nodes` (rows
`[parent, left, right, type]`) and `aabbs`; insertion descends by merged-volume cost,
adds the new parent at `filled_len`, relinks and refits upward; queries use an explicit
stack.  Every array access is a *checked* read (`indexOOB` for anything outside
`[0, size)`; negative indices are flagged instead of wrapped because a wrapped read is
never intended by this code and unchecked under numba).
-/
import D3.Model.Scalar

namespace D3
namespace Aabb

/-- an axis-aligned box, row-major like the `(3,2)` array: `[[lo0,hi0],[lo1,hi1],[lo2,hi2]]` -/
structure Box (α : Type) where
  lo0 : α
  hi0 : α
  lo1 : α
  hi1 : α
  lo2 : α
  hi2 : α
  deriving Repr, DecidableEq, Inhabited

scalar_variables

/-- `aabb_overlap` : closed-interval test -/
def overlap (a b : Box α) : Bool :=
  decide (a.lo0 ≤ b.hi0) && decide (b.lo0 ≤ a.hi0) &&
  decide (a.lo1 ≤ b.hi1) && decide (b.lo1 ≤ a.hi1) &&
  decide (a.lo2 ≤ b.hi2) && decide (b.lo2 ≤ a.hi2)

/-- `_merge_aabb` -/
def merge (a b : Box α) : Box α :=
  { lo0 := min a.lo0 b.lo0, hi0 := max a.hi0 b.hi0,
    lo1 := min a.lo1 b.lo1, hi1 := max a.hi1 b.hi1,
    lo2 := min a.lo2 b.lo2, hi2 := max a.hi2 b.hi2 }

/-- `_aabb_volume` -/
def volume (a : Box α) : α :=
  (a.hi0 - a.lo0) * (a.hi1 - a.lo1) * (a.hi2 - a.lo2)

def zeroBox : Box α := ⟨0, 0, 0, 0, 0, 0⟩

/-- row of `nodes` -/
structure Node where
  parent : Int
  left : Int
  right : Int
  typ : Int
  deriving Repr, DecidableEq, Inhabited

def INDEX_NONE : Int := -1
def TYPE_LEAF : Int := 1
def TYPE_BRANCH : Int := 2

def emptyNode : Node := ⟨-1, -1, -1, -1⟩

/-- checked read -/
def rd {β : Type} (a : Array β) (i : Int) : Except Err β :=
  if 0 ≤ i then
    match a[i.toNat]? with
    | some x => .ok x
    | none => .error .indexOOB
  else .error .indexOOB

/-- checked write -/
def wr {β : Type} (a : Array β) (i : Int) (x : β) : Except Err (Array β) :=
  if 0 ≤ i ∧ i.toNat < a.size then .ok (a.set! i.toNat x) else .error .indexOOB

/-- the part of the tree the jitted functions see -/
structure Core (α : Type) where
  root : Int
  nodes : Array Node
  aabbs : Array (Box α)
  filledLen : Nat
  deriving Repr

/-- `fix_upward_tree` (fuel = number of nodes is enough on a well-formed tree) -/
def fixUpward (nodes : Array Node) : Nat → Int → Array (Box α) → Except Err (Array (Box α))
  | 0, i, aabbs => if i = INDEX_NONE then .ok aabbs else .error .fuel
  | fuel + 1, i, aabbs =>
    if i = INDEX_NONE then .ok aabbs else do
      let nd ← rd nodes i
      if nd.left = INDEX_NONE ∨ nd.right = INDEX_NONE then .error .assertFail else do
        let bl ← rd aabbs nd.left
        let br ← rd aabbs nd.right
        let aabbs ← wr aabbs i (merge bl br)
        fixUpward nodes fuel nd.parent aabbs

/-- descent loop of `insert_leaf`: returns the sibling index -/
def descend (nodes : Array Node) (aabbs : Array (Box α)) (leafBox : Box α) :
    Nat → Int → Except Err Int
  | 0, _ => .error .fuel
  | fuel + 1, i => do
    let nd ← rd nodes i
    if nd.typ = TYPE_BRANCH then do
      let bi ← rd aabbs i
      let bl ← rd aabbs nd.left
      let br ← rd aabbs nd.right
      let costNew := volume (merge leafBox bi)
      let costL := volume (merge leafBox bl)
      let costR := volume (merge leafBox br)
      if costNew < costL ∧ costNew < costR then .error .assertFail
      else if costL < costR then descend nodes aabbs leafBox fuel nd.left
      else descend nodes aabbs leafBox fuel nd.right
    else .ok i

/-- `insert_leaf` -/
def insertLeaf (c : Core α) (leaf : Int) : Except Err (Core α) := do
  let nl ← rd c.nodes leaf
  let nodes ← wr c.nodes leaf { nl with typ := TYPE_LEAF }
  if c.root = INDEX_NONE then
    return { c with root := leaf, nodes := nodes }
  let leafBox ← rd c.aabbs leaf
  let sib ← descend nodes c.aabbs leafBox (nodes.size + 1) c.root
  let ns ← rd nodes sib
  let oldParent := ns.parent
  let newParent : Int := c.filledLen
  let filledLen := c.filledLen + 1
  let sibBox ← rd c.aabbs sib
  let nodes ← wr nodes newParent ⟨oldParent, sib, leaf, TYPE_BRANCH⟩
  let aabbs ← wr c.aabbs newParent (merge leafBox sibBox)
  let nl ← rd nodes leaf
  let nodes ← wr nodes leaf { nl with parent := newParent }
  let ns ← rd nodes sib
  let nodes ← wr nodes sib { ns with parent := newParent }
  let (root, nodes) ←
    if oldParent = INDEX_NONE then pure (newParent, nodes)
    else do
      let np ← rd nodes oldParent
      if np.left = sib then
        let nodes ← wr nodes oldParent { np with left := newParent }
        pure (c.root, nodes)
      else
        let nodes ← wr nodes oldParent { np with right := newParent }
        pure (c.root, nodes)
  let nl ← rd nodes leaf
  let aabbs ← fixUpward nodes (nodes.size + 1) nl.parent aabbs
  return { root := root, nodes := nodes, aabbs := aabbs, filledLen := filledLen }

/-- jitted `insert_aabbs` -/
def insertMany (c : Core α) (order : List Int) : Except Err (Core α) :=
  order.foldlM insertLeaf c

/-- `query_overlap`; the stack is a list whose head is the top (Python pops from the end,
`extend([l, r])` therefore becomes `r :: l :: rest`).  An `INDEX_NONE` entry (the root of
an empty tree) is skipped. -/
def queryLoop (q : Box α) (nodes : Array Node) (aabbs : Array (Box α)) (brk : Bool) :
    Nat → List Int → List Int → Except Err (List Int)
  | _, [], acc => .ok acc.reverse
  | 0, _ :: _, _ => .error .fuel
  | fuel + 1, i :: st, acc =>
    if i = INDEX_NONE then queryLoop q nodes aabbs brk fuel st acc else do
    let b ← rd aabbs i
    if overlap b q then do
      let nd ← rd nodes i
      if nd.typ = TYPE_LEAF then
        if brk then .ok (i :: acc).reverse
        else queryLoop q nodes aabbs brk fuel st (i :: acc)
      else queryLoop q nodes aabbs brk fuel (nd.right :: nd.left :: st) acc
    else queryLoop q nodes aabbs brk fuel st acc

def queryOverlap (q : Box α) (root : Int) (nodes : Array Node) (aabbs : Array (Box α))
    (brk : Bool := false) : Except Err (List Int) :=
  queryLoop q nodes aabbs brk (2 * nodes.size + 2) [root] []

/-- `query_overlap_of_other_tree` : list of pairs (index in tree 1, index in tree 2) -/
def queryTreeLoop (root1 : Int) (nodes1 : Array Node) (aabbs1 : Array (Box α))
    (nodes2 : Array Node) (aabbs2 : Array (Box α)) :
    Nat → List Int → List (Int × Int) → Except Err (List (Int × Int))
  | _, [], acc => .ok acc.reverse
  | 0, _ :: _, _ => .error .fuel
  | fuel + 1, j :: st, acc =>
    if j = INDEX_NONE then queryTreeLoop root1 nodes1 aabbs1 nodes2 aabbs2 fuel st acc else do
    let b ← rd aabbs2 j
    let nd ← rd nodes2 j
    if nd.typ = TYPE_BRANCH then do
      let hits ← queryOverlap b root1 nodes1 aabbs1 true
      if hits.length ≥ 1 then
        queryTreeLoop root1 nodes1 aabbs1 nodes2 aabbs2 fuel (nd.right :: nd.left :: st) acc
      else queryTreeLoop root1 nodes1 aabbs1 nodes2 aabbs2 fuel st acc
    else if nd.typ = TYPE_LEAF then do
      let hits ← queryOverlap b root1 nodes1 aabbs1
      queryTreeLoop root1 nodes1 aabbs1 nodes2 aabbs2 fuel st
        ((hits.map fun i => (i, j)).reverse ++ acc)
    else queryTreeLoop root1 nodes1 aabbs1 nodes2 aabbs2 fuel st acc

def queryTree (c1 c2 : Core α) : Except Err (List (Int × Int)) :=
  queryTreeLoop c1.root c1.nodes c1.aabbs c2.nodes c2.aabbs (2 * c2.nodes.size + 2) [c2.root] []

/-- `all_aabbs_overlap` (brute force pairs, row-major order) -/
def allPairs (a1 a2 : List (Box α)) : List (Nat × Nat) :=
  (a1.zipIdx.flatMap fun (b1, i) => a2.zipIdx.filterMap fun (b2, j) =>
    if overlap b1 b2 then some (i, j) else none)

/-! ### the Python class `AabbTree` -/

inductive Mode | none | sort | shuffle
  deriving Repr, DecidableEq

structure Tree (α : Type) where
  core : Core α
  ext : Array (Option Nat)      -- external data (ids), `none` = Python `None`
  insIdx : Array (Option Nat)
  insMax : Nat
  deriving Repr

def Tree.empty : Tree α :=
  { core := { root := INDEX_NONE, nodes := #[], aabbs := #[], filledLen := 0 },
    ext := #[], insIdx := #[], insMax := 0 }

/-- stable argsort of the `lo0` keys by insertion (ties: the driver passes the
permutation the implementation used; this function is the default = stable order) -/
def argsortLo0 (bs : List (Box α)) : List Nat :=
  let keyed := bs.zipIdx.map fun (b, i) => (b.lo0, i)
  let ins (x : α × Nat) (l : List (α × Nat)) : List (α × Nat) :=
    let rec go : List (α × Nat) → List (α × Nat)
      | [] => [x]
      | y :: ys => if x.1 < y.1 then x :: y :: ys else y :: go ys
    go l
  (keyed.foldl (fun acc x => ins x acc) []).map (·.2)

/-- Python slice `l[a:b]` for non-negative `a`, possibly negative `b` is not needed here:
both bounds are non-negative in `insert_aabbs`. -/
def pySlice {β : Type} (l : List β) (a b : Nat) : List β :=
  (l.take b).drop a

/-- The insert order the *as-is* code computes.
`sort`:  `_sort_aabbs(aabbs[old_filled_len : len(nodes) - filled_len])` — indices into the
sliced *batch*, used as node indices (defect: no offset, wrong slice).
`perm` is the permutation applied by `np.random.shuffle` (only used for `shuffle`). -/
def insertOrderAsIs (mode : Mode) (batch : List (Box α)) (oldFilled filled nodesLen : Nat)
    (perm : List Nat) : List Int :=
  let base : List Int := (List.range (filled - oldFilled)).map fun k => ((oldFilled + k : Nat) : Int)
  match mode with
  | .none => base
  | .sort => (argsortLo0 (pySlice batch oldFilled (nodesLen - filled))).map fun (k : Nat) => (k : Int)
  | .shuffle => perm.map fun k => ((oldFilled + k : Nat) : Int)

/-- The insert order of the repaired code: `old_filled_len + argsort(batch[:, 0, 0])`. -/
def insertOrderFixed (mode : Mode) (batch : List (Box α)) (oldFilled filled _nodesLen : Nat)
    (perm : List Nat) : List Int :=
  let base : List Int := (List.range (filled - oldFilled)).map fun k => ((oldFilled + k : Nat) : Int)
  match mode with
  | .none => base
  | .sort => (argsortLo0 batch).map fun k => ((oldFilled + k : Nat) : Int)
  | .shuffle => perm.map fun k => ((oldFilled + k : Nat) : Int)

def padTo {β : Type} (a : Array β) (n : Nat) (x : β) : Array β :=
  a ++ Array.replicate (n - a.size) x

/-- `AabbTree.insert_aabbs`, parameterised by the insert-order function (as-is / fixed). -/
def Tree.insertAabbs
    (orderFn : Mode → List (Box α) → Nat → Nat → Nat → List Nat → List Int)
    (t : Tree α) (batch : List (Box α)) (extData : Option (List Nat)) (mode : Mode)
    (perm : List Nat) : Except Err (Tree α) :=
  let n := batch.length
  if n = 0 then .ok t else
  match extData with
  | some l => if l.length ≠ n then .error .assertFail else go l.length
  | none => go 0
where
  go (_ : Nat) : Except Err (Tree α) := do
    let n := batch.length
    let oldFilled := t.core.filledLen
    let filled := oldFilled + n
    let nodes := t.core.nodes ++ Array.replicate (2 * (filled - t.core.nodes.size)) emptyNode
    let aabbs := padTo (t.core.aabbs ++ batch.toArray) nodes.size zeroBox
    let ext := match extData with
      | some l => t.ext ++ (l.map some).toArray
      | none => t.ext
    let ext := padTo ext nodes.size none
    let insIdx := t.insIdx ++ ((List.range n).map fun k => some (t.insMax + k)).toArray
    let insIdx := padTo insIdx nodes.size none
    let order := orderFn mode batch oldFilled filled nodes.size perm
    let c ← insertMany { root := t.core.root, nodes := nodes, aabbs := aabbs, filledLen := filled } order
    return { core := { c with nodes := c.nodes.extract 0 c.filledLen,
                              aabbs := c.aabbs.extract 0 c.filledLen },
             ext := ext.extract 0 c.filledLen,
             insIdx := insIdx.extract 0 c.filledLen,
             insMax := t.insMax + n }

end Aabb
end D3
