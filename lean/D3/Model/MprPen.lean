/-
Model of `distance3d/mpr.py` — `mpr_penetration` and everything it calls — plus the one function
it takes from `distance3d/distance/_triangle.py` (`point_to_triangle`) and
`minkowski.support_function` / `make_support_point`.  Core Lean only, scalar-polymorphic.

Faithful to the code that exists:

* the two colliders enter only through their support mappings and their `center()`s
  (S2: abstract support oracle).  `Sup α` is the pair `d ↦ (collider1.support_function(d),
  collider2.support_function(-d))`; the Minkowski difference is `A ⊖ B = {a − b}`
  (`make_support_point(v1, v2) = (v1 - v2, v1, v2)`).
* `Simplex.v / v1 / v2` are 4×3 arrays; row `i` of the three arrays is one `SP` (support-point
  triple).  Rows that the code leaves uninitialised (`np.empty`) are never read before they are
  written; they are `SP.zero` here.
* `_swap_vertices` swaps through numpy *views* (`tmp = v[idx1]` is a view, so after
  `v[idx1] = v[idx2]; v[idx2] = tmp` both rows hold the old row `idx2`).  The model does what
  the code does: row `idx1 := row idx2`, row `idx2` unchanged (`swapVerticesAsIs`).
* `x == 0.0` tests are `isZero` (IEEE: `-0.0 == 0.0`), `norm_vector` returns its argument when
  the norm is zero, every real division is checked (`divZero` where numpy would produce
  inf/nan or numba would raise), `_refine_portal` is `while True` without a cap — the model takes
  fuel and reports `Err.fuel`; `_find_penetration_info` is capped by `iterations >
  max_iterations` and the fuel `maxIter + 2` is proved sufficient (`findPenInfoLoop_fuel`).
* `_contact_position` is the function after the repair /repo 045c18e (degenerate-portal branch:
  `abs(coords_sum) < EPSILON` inside the fallback returns the midpoint of the pre-images of the
  portal vertex closest to the origin); the function before that commit, which divided by zero
  there (finding F-mpr-degenerate-portal-nan), is kept as `contactPosition_asIs_before_fix`.
* every case analysis reports the path taken.
-/
import D3.Model.Vec
import D3.Gen.Constants

namespace D3
namespace MprPen

/-- one row of `Simplex.v`, `Simplex.v1`, `Simplex.v2` -/
structure SP (α : Type) where
  v : V3 α
  a : V3 α
  b : V3 α
  deriving Repr, Inhabited

/-- `PortalState` (the value `CONTINUE_BUILDING_PORTAL` never leaves `_discover_portal`) -/
inductive PState where
  | outside | built | onV1 | onSegment
  deriving Repr, DecidableEq, Inhabited

def PState.code : PState → Int
  | .outside => -1 | .built => 0 | .onV1 => 1 | .onSegment => 2

/-- the portal: rows 0..3 of the simplex -/
structure Portal (α : Type) where
  p0 : SP α
  p1 : SP α
  p2 : SP α
  p3 : SP α
  deriving Repr, Inhabited

/-- what `_penetration_info` / `_find_penetration_touch` / `_find_penetration_segment` return,
plus ghost data for the theorems and the correspondence check:
`exit`: 0 tolerance exit, 1 iteration-cap exit of `_find_penetration_info`, 2 touch, 3 segment;
`tri`: branch of `point_to_triangle` (0 A, 1 B, 2 AB, 3 C, 4 AC, 5 BC, 6 face), `cpos`: branch of
`_contact_position` (0 main, 1 fallback, 2 degenerate portal), `touch`: `abs(depth) < EPSILON` fired,
`portal`: final portal, `n`: last portal direction, `w`: last support point, `iters`: expansions -/
structure PenInfo (α : Type) where
  depth : α
  dir : V3 α
  pos : V3 α
  exit : Nat
  tri : Nat
  cpos : Nat
  touch : Bool
  portal : Portal α
  n : V3 α
  w : SP α
  iters : Nat
  deriving Repr, Inhabited

/-- result of `mpr_penetration`: `(intersection, depth, direction, position)`; the last three
are `None` exactly when `info = none`.  `state` is the `PortalState` of `_discover_portal`,
`refineIters` the number of expansions in `_refine_portal`. -/
structure PenRes (α : Type) where
  inter : Bool
  state : PState
  info : Option (PenInfo α)
  refineIters : Nat
  deriving Repr, Inhabited

scalar_variables

/-- IEEE-correct `x == 0.0`; at `ℝ` this is `x = 0` -/
def isZero (x : α) : Prop := ¬ (x < 0) ∧ ¬ (0 < x)

instance (x : α) : Decidable (isZero x) := by unfold isZero; exact inferInstance

/-- `all(v == 0.0)` -/
def vecIsZero (v : V3 α) : Prop := isZero v.x ∧ isZero v.y ∧ isZero v.z

instance (v : V3 α) : Decidable (vecIsZero v) := by unfold vecIsZero; exact inferInstance

/-- `utils.EPSILON` -/
def EPS : α := D3.Gen.utils__EPSILON

def SP.zero : SP α := ⟨V3.zero, V3.zero, V3.zero⟩

/-- `utils.norm_vector` -/
def normVector (v : V3 α) : V3 α :=
  let n := V3.norm v
  if isZero n then v else V3.sdiv v n

/-- support oracle of the pair: `d ↦ (collider1.support_function(d), collider2.support_function(-d))` -/
abbrev Sup (α : Type) := V3 α → V3 α × V3 α

/-- `minkowski.make_support_point` -/
def makeSupportPoint (a b : V3 α) : SP α := ⟨a - b, a, b⟩

/-- `minkowski.support_function` -/
def supportFn (sup : Sup α) (d : V3 α) : SP α :=
  let ab := sup d
  makeSupportPoint ab.1 ab.2

/-! ### `_discover_portal` and its helpers -/

/-- `_find_origin_ray`: row 0 from the two centres; `portals_center_is_origin` nudges `v[0,0]`
(only `v`, not `v1`/`v2`).  Returns the row and whether the nudge happened. -/
def findOriginRay (c1 c2 : V3 α) : SP α × Bool :=
  let p := makeSupportPoint c1 c2
  if vecIsZero p.v then
    ({ p with v := { p.v with x := p.v.x + EPS * 10.0 } }, true)
  else (p, false)

/-- `_find_support_in_direction_of_origin_ray`: row 1 and `origin_outside_v1` -/
def findSupportOriginRay (sup : Sup α) (p0 : SP α) : SP α × Bool :=
  let d := normVector (-p0.v)
  let p1 := supportFn sup d
  (p1, decide (¬ vecIsZero p1.v) && decide (V3.dot p1.v d < EPS))

/-- `_find_support_perpendicular_to_plane_containing_origin_v01`:
`none` = `CONTINUE_BUILDING_PORTAL` (then row 2 is returned), otherwise the final state -/
def findSupportPerp (sup : Sup α) (p0 p1 : SP α) : Option PState × SP α :=
  let d := V3.cross p0.v p1.v
  if V3.dot d d < EPS then
    if vecIsZero p1.v then (some .onV1, SP.zero) else (some .onSegment, SP.zero)
  else
    let d := normVector d
    let p2 := supportFn sup d
    if V3.dot p2.v d < EPS then (some .outside, p2) else (none, p2)

/-- `_swap_vertices(v, v1, v2, 1, 2)` as it behaves on numpy views: row 1 := row 2, row 2 unchanged -/
def swapVerticesAsIs (_p1 p2 : SP α) : SP α × SP α := (p2, p2)

/-- `_search_direction_perpendicular_to_plane_containing_v012`: direction, rows 1 and 2 after the
(view) swap, and whether the swap branch ran -/
def searchDirectionPerp (p0 p1 p2 : SP α) : V3 α × SP α × SP α × Bool :=
  let d := normVector (V3.cross (p1.v - p0.v) (p2.v - p0.v))
  if V3.dot d p0.v > 0 then
    let s := swapVerticesAsIs p1 p2
    (V3.smul (-1) d, s.1, s.2, true)
  else (d, p1, p2, false)

/-- `_iterate_discover_portal`: new direction, new `portal_size`, rows 1 and 2, branch
(0: row 2 := row 3, 1: row 1 := row 3, 2: portal complete) -/
def iterateDiscoverPortal (p0 p1 p2 p3 : SP α) (dir : V3 α) (size : Nat) :
    V3 α × Nat × SP α × SP α × Nat :=
  if V3.dot (V3.cross p1.v p3.v) p0.v < EPS then
    (normVector (V3.cross (p1.v - p0.v) (p3.v - p0.v)), size, p1, p3, 0)
  else if V3.dot (V3.cross p3.v p2.v) p0.v < EPS then
    (normVector (V3.cross (p3.v - p0.v) (p2.v - p0.v)), size, p3, p2, 1)
  else (dir, 4, p1, p2, 2)

/-- the `while portal.n_points < 4` loop of `_discover_portal`; `rem` = `max_iterations - it`
(the body runs at least once, the cap is tested after the body).  Returns the state, the
portal and the number of iterations. -/
def discoverLoop (sup : Sup α) (p0 : SP α) : Nat → Nat → SP α → SP α → V3 α →
    PState × Portal α × Nat
  | rem, it, p1, p2, dir =>
    let p3 := supportFn sup dir
    if V3.dot p3.v dir < EPS then (.outside, ⟨p0, p1, p2, p3⟩, it)
    else
      let r := iterateDiscoverPortal p0 p1 p2 p3 dir 3
      let dir' := r.1
      let size := r.2.1
      let p1' := r.2.2.1
      let p2' := r.2.2.2.1
      if size = 4 then (.built, ⟨p0, p1', p2', p3⟩, it + 1)
      else
        match rem with
        | 0 => (.built, ⟨p0, p1', p2', p3⟩, it + 1)
        | 1 => (.built, ⟨p0, p1', p2', p3⟩, it + 1)
        | rem' + 1 => discoverLoop sup p0 rem' (it + 1) p1' p2' dir'

/-- `_discover_portal` -/
def discoverPortal (sup : Sup α) (c1 c2 : V3 α) (maxIter : Nat) : PState × Portal α × Nat :=
  let p0 := (findOriginRay c1 c2).1
  let r1 := findSupportOriginRay sup p0
  let p1 := r1.1
  if r1.2 then (.outside, ⟨p0, p1, SP.zero, SP.zero⟩, 0)
  else
    let r2 := findSupportPerp sup p0 p1
    match r2.1 with
    | some st => (st, ⟨p0, p1, r2.2, SP.zero⟩, 0)
    | none =>
      let p2 := r2.2
      let s := searchDirectionPerp p0 p1 p2
      discoverLoop sup p0 maxIter 0 s.2.1 s.2.2.1 s.1

/-! ### portal refinement -/

/-- `_portal_direction` -/
def portalDirection (p1 p2 p3 : SP α) : V3 α :=
  normVector (V3.cross (p2.v - p1.v) (p3.v - p1.v))

/-- `_encapsulates_origin` -/
def encapsulatesOrigin (v dir : V3 α) : Bool := decide (V3.dot v dir > -10.0 * EPS)

/-- `min` of a length-3 numpy array -/
def min3 (x y z : α) : α := min (min x y) z

/-- `_portal_reach_tolerance` -/
def portalReachTolerance (p1 p2 p3 : SP α) (v4 dir : V3 α) (tol : α) : Bool :=
  let d4 := V3.dot v4 dir
  decide (min3 (d4 - V3.dot p1.v dir) (d4 - V3.dot p2.v dir) (d4 - V3.dot p3.v dir) < tol + EPS)

/-- `_expand_portal`: rows 1..3 after the update and the branch
(0: row 1, 1: row 3, 2: row 2, 3: row 1 via the else-else path) -/
def expandPortal (p0 p1 p2 p3 p4 : SP α) : SP α × SP α × SP α × Nat :=
  let v4v0 := V3.cross p4.v p0.v
  if V3.dot p1.v v4v0 > 0 then
    if V3.dot p2.v v4v0 > 0 then (p4, p2, p3, 0) else (p1, p2, p4, 1)
  else
    if V3.dot p3.v v4v0 > 0 then (p1, p4, p3, 2) else (p4, p2, p3, 3)

/-- `_refine_portal` (`while True`: fuel; exhaustion is `Err.fuel`).  Returns the verdict, the
portal, the number of expansions and the exit (0 origin encapsulated, 1 support point not past
the origin, 2 tolerance reached). -/
def refinePortal (sup : Sup α) (tol : α) (p0 : SP α) :
    Nat → Nat → SP α → SP α → SP α → Except Err (Bool × Portal α × Nat × Nat)
  | 0, _, _, _, _ => .error .fuel
  | fuel + 1, it, p1, p2, p3 =>
    let dir := portalDirection p1 p2 p3
    if encapsulatesOrigin p1.v dir then .ok (true, ⟨p0, p1, p2, p3⟩, it, 0)
    else
      let p4 := supportFn sup dir
      if !(encapsulatesOrigin p4.v dir) then .ok (false, ⟨p0, p1, p2, p3⟩, it, 1)
      else if portalReachTolerance p1 p2 p3 p4.v dir tol then .ok (false, ⟨p0, p1, p2, p3⟩, it, 2)
      else
        let e := expandPortal p0 p1 p2 p3 p4
        refinePortal sup tol p0 fuel (it + 1) e.1 e.2.1 e.2.2.1

/-! ### `distance._triangle.point_to_triangle` -/

/-- the pair `(np.linalg.norm(point - closest_point), closest_point)` with the branch id -/
def ptRes (br : Nat) (p cp : V3 α) : Except Err (Nat × α × V3 α) := .ok (br, V3.norm (p - cp), cp)

/-- `point_to_triangle(point, [A, B, C])` (Ericson's Voronoi regions).
Branches: 0 vertex A, 1 vertex B, 2 edge AB, 3 vertex C, 4 edge AC, 5 edge BC, 6 face. -/
def pointToTriangle (p a b c : V3 α) : Except Err (Nat × α × V3 α) :=
  let ab := b - a
  let ac := c - a
  let ap := p - a
  let d1 := V3.dot ab ap
  let d2 := V3.dot ac ap
  if d1 ≤ 0 ∧ d2 ≤ 0 then ptRes 0 p a else
  let bp := p - b
  let d3 := V3.dot ab bp
  let d4 := V3.dot ac bp
  if d3 ≥ 0 ∧ d4 ≤ d3 then ptRes 1 p b else
  let vc := d1 * d4 - d3 * d2
  if vc ≤ 0 ∧ 0 ≤ d1 ∧ d3 ≤ 0 then
    if isZero (d1 - d3) then .error .divZero else
    let v := d1 / (d1 - d3)
    ptRes 2 p (a + v * ab)
  else
  let cp := p - c
  let d5 := V3.dot ab cp
  let d6 := V3.dot ac cp
  if d6 ≥ 0 ∧ d5 ≤ d6 then ptRes 3 p c else
  let vb := d5 * d2 - d1 * d6
  if vb ≤ 0 ∧ 0 ≤ d2 ∧ d6 ≤ 0 then
    if isZero (d2 - d6) then .error .divZero else
    let w := d2 / (d2 - d6)
    ptRes 4 p (a + w * ac)
  else
  let va := d3 * d6 - d5 * d4
  if va ≤ 0 ∧ 0 ≤ d4 - d3 ∧ d5 - d6 ≥ 0 then
    if isZero ((d4 - d3) + (d5 - d6)) then .error .divZero else
    let w := (d4 - d3) / ((d4 - d3) + (d5 - d6))
    ptRes 5 p (b + w * (c - b))
  else
  if isZero (va + vb + vc) then .error .divZero else
  let denom := 1 / (va + vb + vc)
  let v := vb * denom
  let w := vc * denom
  ptRes 6 p (a + v * ab + w * ac)

/-! ### penetration info -/

/-- the four unnormalised barycentric weights of `_contact_position` (main branch) -/
def baryMain (v0 v1 v2 v3 : V3 α) : α × α × α × α :=
  (V3.dot (V3.cross v1 v2) v3, V3.dot (V3.cross v3 v2) v0,
   V3.dot (V3.cross v0 v1) v3, V3.dot (V3.cross v2 v1) v0)

/-- the fallback weights (`coords_sum < EPSILON`) -/
def baryFallback (v1 v2 v3 dir : V3 α) : α × α × α × α :=
  (0, V3.dot (V3.cross v2 v3) dir, V3.dot (V3.cross v3 v1) dir, V3.dot (V3.cross v1 v2) dir)

/-- `np.sum` of four entries -/
def sum4 (w : α × α × α × α) : α := w.1 + w.2.1 + w.2.2.1 + w.2.2.2

/-- `barycentric_coordinates.dot(rows)` -/
def comb4 (w : α × α × α × α) (x0 x1 x2 x3 : V3 α) : V3 α :=
  ⟨w.1 * x0.x + w.2.1 * x1.x + w.2.2.1 * x2.x + w.2.2.2 * x3.x,
   w.1 * x0.y + w.2.1 * x1.y + w.2.2.1 * x2.y + w.2.2.2 * x3.y,
   w.1 * x0.z + w.2.1 * x1.z + w.2.2.1 * x2.z + w.2.2.2 * x3.z⟩

/-- the normalised weights `_contact_position` uses when it reaches its division, and the branch
(0 main, 1 fallback); `divZero` exactly when the selected sum is zero -/
def contactWeights (v0 v1 v2 v3 dir : V3 α) : Except Err ((α × α × α × α) × Nat) :=
  let w := baryMain v0 v1 v2 v3
  let s := sum4 w
  let r : (α × α × α × α) × α × Nat :=
    if s < EPS then
      let w' := baryFallback v1 v2 v3 dir
      (w', sum4 w', 1)
    else (w, s, 0)
  let w := r.1
  let s := r.2.1
  if isZero s then .error .divZero
  else .ok ((w.1 / s, w.2.1 / s, w.2.2.1 / s, w.2.2.2 / s), r.2.2)

/-- `_contact_position` as it was before the repair 045c18e (kept for the before/after theorems):
when both weight sums vanish (degenerate portal) the weights are divided by zero — `divZero`,
NaN in the implementation (finding F-mpr-degenerate-portal-nan) -/
def contactPosition_asIs_before_fix (P : Portal α) (dir : V3 α) : Except Err (V3 α × Nat) := do
  let r ← contactWeights P.p0.v P.p1.v P.p2.v P.p3.v dir
  let x := comb4 r.1 P.p0.a P.p1.a P.p2.a P.p3.a
  let y := comb4 r.1 P.p0.b P.p1.b P.p2.b P.p3.b
  pure (V3.smul 0.5 (x + y), r.2)

/-- the scan of the repaired `_contact_position` for the portal vertex closest to the origin:
`closest = 1; for i in range(2, 4): if v[i].dot(v[i]) < v[closest].dot(v[closest]): closest = i`
(first minimum, strict `<`).  Returns the row and its index. -/
def closestRow (p1 p2 p3 : SP α) : SP α × Nat :=
  let c : SP α × Nat := if V3.dot p2.v p2.v < V3.dot p1.v p1.v then (p2, 2) else (p1, 1)
  if V3.dot p3.v p3.v < V3.dot c.1.v c.1.v then (p3, 3) else c

/-- `barycentric_coordinates /= coords_sum` and the two weighted sums -/
def contactCombine (P : Portal α) (w : α × α × α × α) (s : α) (br : Nat) : Except Err (V3 α × Nat) :=
  if isZero s then .error .divZero
  else
    let wn : α × α × α × α := (w.1 / s, w.2.1 / s, w.2.2.1 / s, w.2.2.2 / s)
    let x := comb4 wn P.p0.a P.p1.a P.p2.a P.p3.a
    let y := comb4 wn P.p0.b P.p1.b P.p2.b P.p3.b
    .ok (V3.smul 0.5 (x + y), br)

/-- `_contact_position` (after 045c18e).  Branch: 0 main weights, 1 fallback weights,
2 degenerate portal (`abs(coords_sum) < EPSILON` inside the fallback: the midpoint of the two
pre-images of the portal vertex closest to the origin is returned, nothing is divided). -/
def contactPosition (P : Portal α) (dir : V3 α) : Except Err (V3 α × Nat) :=
  let w := baryMain P.p0.v P.p1.v P.p2.v P.p3.v
  let s := sum4 w
  if s < EPS then
    let w' := baryFallback P.p1.v P.p2.v P.p3.v dir
    let s' := sum4 w'
    if absS s' < EPS then
      let r := closestRow P.p1 P.p2 P.p3
      .ok (V3.smul 0.5 (r.1.a + r.1.b), 2)
    else contactCombine P w' s' 1
  else contactCombine P w s 0

/-- `_penetration_info`: `(depth, penetration_direction (not yet normalised), position)` and the
branches (triangle region, contact branch, touch) -/
def penetrationInfo (P : Portal α) : Except Err (α × V3 α × V3 α × Nat × Nat × Bool) := do
  let t ← pointToTriangle V3.zero P.p1.v P.p2.v P.p3.v
  let depth := t.2.1
  let touch : Bool := decide (absS depth < EPS)
  let dir := if touch then V3.zero else t.2.2
  let c ← contactPosition P (portalDirection P.p1 P.p2 P.p3)
  pure (depth, dir, c.1, t.1, c.2, touch)

/-- `_find_penetration_touch(v1, v2)` -/
def findPenetrationTouch (p1 : SP α) : α × V3 α × V3 α :=
  (0, V3.zero, V3.smul 0.5 (p1.a + p1.b))

/-- `_find_penetration_segment(v, v1, v2)` -/
def findPenetrationSegment (p1 : SP α) : α × V3 α × V3 α :=
  (V3.norm p1.v, normVector p1.v, V3.smul 0.5 (p1.a + p1.b))

/-- the exit of `_find_penetration_info`: `_penetration_info` then `norm_vector(pdir)` -/
def finishPenetration (P : Portal α) (exit : Nat) (n : V3 α) (w : SP α) (iters : Nat) :
    Except Err (PenInfo α) := do
  let r ← penetrationInfo P
  pure { depth := r.1, dir := normVector r.2.1, pos := r.2.2.1, exit := exit, tri := r.2.2.2.1,
         cpos := r.2.2.2.2.1, touch := r.2.2.2.2.2, portal := P, n := n, w := w, iters := iters }

/-- `_find_penetration_info`; `it` is the Python variable `iterations` -/
def findPenInfoLoop (sup : Sup α) (tol : α) (maxIter : Nat) (p0 : SP α) :
    Nat → Nat → SP α → SP α → SP α → Except Err (PenInfo α)
  | 0, _, _, _, _ => .error .fuel
  | fuel + 1, it, p1, p2, p3 =>
    let dir := portalDirection p1 p2 p3
    let p4 := supportFn sup dir
    let reach := portalReachTolerance p1 p2 p3 p4.v dir tol
    if reach || decide (it > maxIter) then
      finishPenetration ⟨p0, p1, p2, p3⟩ (if reach then 0 else 1) dir p4 it
    else
      let e := expandPortal p0 p1 p2 p3 p4
      findPenInfoLoop sup tol maxIter p0 fuel (it + 1) e.1 e.2.1 e.2.2.1

def findPenetrationInfo (sup : Sup α) (P : Portal α) (tol : α) (maxIter : Nat) :
    Except Err (PenInfo α) :=
  findPenInfoLoop sup tol maxIter P.p0 (maxIter + 2) 0 P.p1 P.p2 P.p3

/-- ghost fields for the two special exits -/
def specialInfo (r : α × V3 α × V3 α) (exit : Nat) (P : Portal α) : PenInfo α :=
  { depth := r.1, dir := r.2.1, pos := r.2.2, exit := exit, tri := 0, cpos := 0, touch := false,
    portal := P, n := V3.zero, w := SP.zero, iters := 0 }

/-- `mpr_penetration(collider1, collider2, mpr_tolerance, max_iterations)`;
`fuel` bounds the uncapped `_refine_portal` loop -/
def mprPenetration (sup : Sup α) (c1 c2 : V3 α) (tol : α) (maxIter : Nat) (fuel : Nat) :
    Except Err (PenRes α) :=
  let d := discoverPortal sup c1 c2 maxIter
  let P := d.2.1
  match d.1 with
  | .outside => .ok ⟨false, .outside, none, 0⟩
  | .onV1 => .ok ⟨true, .onV1, some (specialInfo (findPenetrationTouch P.p1) 2 P), 0⟩
  | .onSegment => .ok ⟨true, .onSegment, some (specialInfo (findPenetrationSegment P.p1) 3 P), 0⟩
  | .built => do
    let r ← refinePortal sup tol P.p0 fuel 0 P.p1 P.p2 P.p3
    if r.1 then
      let i ← findPenetrationInfo sup r.2.1 tol maxIter
      pure ⟨true, .built, some i, r.2.2.1⟩
    else pure ⟨false, .built, none, r.2.2.1⟩

/-- `mpr_penetration` with the default arguments of the source -/
def mprPenetrationDefault (sup : Sup α) (c1 c2 : V3 α) (fuel : Nat) : Except Err (PenRes α) :=
  mprPenetration sup c1 c2 D3.Gen.mpr__mpr_penetration__mpr_tolerance
    D3.Gen.mpr__mpr_penetration__max_iterations fuel

end MprPen
end D3
