/-
Model of the boolean libccd-style GJK test `gjk_intersection_libccd` of
`distance3d/gjk/_gjk_libccd.py`, property C02.  Core Lean only, scalar-polymorphic.  Only the
Minkowski-difference vertices `simplex.v` are modelled (the per-collider arrays `v1`, `v2` never influence
the boolean).

Faithful, line by line, to `_gjk`, `_refine_simplex`, `_line_segment`, `_triangle`, `_triangle_ab`,
`_tetrahedron`, `_rearrange_simplex_to_triangle`, `_triple_cross` and to `distance.point_to_triangle`
(own copy `ptTriDist`, distance only), with `EPSILON`, `EPSILON_SQRT`, `max_iterations` from `D3.Gen`.
Every `/` of `point_to_triangle` is a checked division (`divZero`: numba raises there, the interpreter
yields nan).  `np.sign(x) == np.sign(y)` is modelled on the integer sign (differs from numpy only for NaN).

Simplex layout as in the code: `v[n-1]` is the newest point ("A").

Branch ids
  `lineSegment` : 0 CONTACT (origin on segment) · 1 keep A only · 2 keep segment
  `triangle`    : 0 CONTACT (touching) · 1 NO_CONTACT (degenerated) · 2 region AC · 3 region AB (via AC side) ·
                  4 region A (via AC side) · 5 region AB · 6 region A · 7 above ABC · 8 below ABC (reordered)
  `tetrahedron` : 0 NO_CONTACT (degenerated) · 1 CONTACT (origin on a face) · 2 CONTACT (origin inside) ·
                  10+b / 20+b / 30+b : rearranged by `not AB_O` / `not AC_O` / else, then `triangle` branch b
  `gjk` exits   : 0 True support point is origin · 1 False support point before origin · 2 True CONTACT ·
                  3 False NO_CONTACT · 4 False `|dir|² < EPSILON` · 5 False iteration cap
-/
import D3.Model.Vec
import D3.Gen.Constants

namespace D3
namespace IsectLibccd

scalar_variables

/-- `EPSILON` imported from `utils` -/
def EPS : α := D3.Gen.utils__EPSILON
/-- `EPSILON_SQRT = math.sqrt(EPSILON)` -/
def EPS_SQRT : α := D3.Gen.gjk__gjk_libccd__EPSILON_SQRT
/-- default `max_iterations` -/
def MAX_IT : Nat := D3.Gen.gjk__gjk_libccd__gjk_intersection_libccd__max_iterations

/-- `abs` -/
def absS (x : α) : α := if x < 0 then -x else x

/-- integer sign (`np.sign`) -/
def signI (x : α) : Int := if x < 0 then -1 else if 0 < x then 1 else 0

/-- checked division -/
def cdiv (x y : α) : Except Err α :=
  if y < 0 ∨ 0 < y then .ok (x / y) else .error .divZero

/-- `_triple_cross(a, b, c) = (a × b) × c` -/
def tripleCross (a b c : V3 α) : V3 α := V3.cross (V3.cross a b) c

/-- `distance.point_to_triangle(point, (A, B, C))[0]` (distance only) with its region id -/
def ptTriDist (p a b c : V3 α) : Except Err (α × Nat) :=
  let ab := b - a
  let ac := c - a
  let ap := p - a
  let d1 := V3.dot ab ap
  let d2 := V3.dot ac ap
  if d1 ≤ 0 ∧ d2 ≤ 0 then .ok (V3.norm (p - a), 0) else
  let bp := p - b
  let d3 := V3.dot ab bp
  let d4 := V3.dot ac bp
  if 0 ≤ d3 ∧ d4 ≤ d3 then .ok (V3.norm (p - b), 1) else
  let vc := d1 * d4 - d3 * d2
  if (vc ≤ 0 ∧ 0 ≤ d1) ∧ d3 ≤ 0 then
    match cdiv d1 (d1 - d3) with
    | .error e => .error e
    | .ok v => .ok (V3.norm (p - (a + v * ab)), 2)
  else
  let cp := p - c
  let d5 := V3.dot ab cp
  let d6 := V3.dot ac cp
  if 0 ≤ d6 ∧ d5 ≤ d6 then .ok (V3.norm (p - c), 3) else
  let vb := d5 * d2 - d1 * d6
  if (vb ≤ 0 ∧ 0 ≤ d2) ∧ d6 ≤ 0 then
    match cdiv d2 (d2 - d6) with
    | .error e => .error e
    | .ok w => .ok (V3.norm (p - (a + w * ac)), 4)
  else
  let va := d3 * d6 - d5 * d4
  if (va ≤ 0 ∧ 0 ≤ d4 - d3) ∧ 0 ≤ d5 - d6 then
    match cdiv (d4 - d3) ((d4 - d3) + (d5 - d6)) with
    | .error e => .error e
    | .ok w => .ok (V3.norm (p - (b + w * (c - b))), 5)
  else
  match cdiv 1 (va + vb + vc) with
  | .error e => .error e
  | .ok denom =>
    let v := vb * denom
    let w := vc * denom
    .ok (V3.norm (p - (a + v * ab + w * ac)), 6)

inductive GjkState where
  | noContact | continue_ | contact
  deriving Repr, DecidableEq, Inhabited

def GjkState.code : GjkState → Int
  | .noContact => -1 | .continue_ => 0 | .contact => 1

/-- `simplex.v` (rows 0..3; rows ≥ `n` hold stale data exactly as the numpy array does) -/
structure Sx (α : Type) where
  v0 : V3 α
  v1 : V3 α
  v2 : V3 α
  v3 : V3 α
  deriving Repr

/-- result of `_refine_simplex`: `(state, search_direction, n_points)` + mutated `v` + branch id;
`dir` is meaningless (Python: `None`) unless `state = continue_` -/
structure Refine (α : Type) where
  state : GjkState
  dir : V3 α
  n : Nat
  S : Sx α
  br : Nat
  deriving Repr

def zeroV : V3 α := ⟨0, 0, 0⟩

/-- `_line_segment` -/
def lineSegment (S : Sx α) : Refine α :=
  let A := S.v1
  let B := S.v0
  let AB := B - A
  let AO := -A
  let originOnAB := V3.dot AB AO
  let tmp := V3.cross AB AO
  if absS (V3.dot tmp tmp) < EPS ∧ 0 < originOnAB then ⟨.contact, zeroV, 2, S, 0⟩ else
  if originOnAB < EPS then ⟨.continue_, AO, 1, { S with v0 := A }, 1⟩
  else ⟨.continue_, tripleCross AB AO AB, 2, S, 2⟩

/-- `np.all(np.abs(a - b) < EPSILON)` -/
def allClose (a b : V3 α) : Prop :=
  absS (a.x - b.x) < EPS ∧ absS (a.y - b.y) < EPS ∧ absS (a.z - b.z) < EPS

instance (a b : V3 α) : Decidable (allClose a b) := by unfold allClose; infer_instance

/-- `_triangle_ab` → `(n_points, direction, v, branch offset 0 = AB, 1 = A)` -/
def triangleAB (A B AB AO : V3 α) (S : Sx α) : Nat × V3 α × Sx α × Nat :=
  if -EPS < V3.dot AB AO then (2, tripleCross AB AO AB, { S with v0 := B, v1 := A }, 0)
  else (1, AO, { S with v0 := A }, 1)

/-- `_triangle` -/
def triangle (S : Sx α) : Except Err (Refine α) :=
  let A := S.v2
  let B := S.v1
  let C := S.v0
  match ptTriDist zeroV A B C with
  | .error e => .error e
  | .ok (d, _) =>
    if absS d < EPS_SQRT then .ok ⟨.contact, zeroV, 1, S, 0⟩ else
    if allClose A B ∨ allClose A C then .ok ⟨.noContact, zeroV, 0, S, 1⟩ else
    let AO := -A
    let AB := B - A
    let AC := C - A
    let ABC := V3.cross AB AC
    if -EPS < V3.dot (V3.cross ABC AC) AO then
      if -EPS < V3.dot AC AO then
        .ok ⟨.continue_, tripleCross AC AO AC, 2, { S with v1 := A }, 2⟩
      else
        let r := triangleAB A B AB AO S
        .ok ⟨.continue_, r.2.1, r.1, r.2.2.1, 3 + r.2.2.2⟩
    else
      if -EPS < V3.dot (V3.cross AB ABC) AO then
        let r := triangleAB A B AB AO S
        .ok ⟨.continue_, r.2.1, r.1, r.2.2.1, 5 + r.2.2.2⟩
      else
        if -EPS < V3.dot ABC AO then .ok ⟨.continue_, ABC, 3, S, 7⟩
        else .ok ⟨.continue_, -ABC, 3, { S with v0 := B, v1 := C }, 8⟩

/-- `_tetrahedron` -/
def tetrahedron (S : Sx α) : Except Err (Refine α) :=
  let A := S.v3
  let B := S.v2
  let C := S.v1
  let D := S.v0
  match ptTriDist A B C D with
  | .error e => .error e
  | .ok (dA, _) =>
    if absS dA < EPS_SQRT then .ok ⟨.noContact, zeroV, 0, S, 0⟩ else
    -- `or` chain, evaluated left to right with short-circuit
    let face (a b c : V3 α) : Except Err Bool :=
      match ptTriDist zeroV a b c with
      | .error e => .error e
      | .ok (d, _) => .ok (decide (d < EPS_SQRT))
    let onFace : Except Err Bool :=
      match face A B C with
      | .error e => .error e
      | .ok true => .ok true
      | .ok false =>
        match face A C D with
        | .error e => .error e
        | .ok true => .ok true
        | .ok false =>
          match face A B D with
          | .error e => .error e
          | .ok true => .ok true
          | .ok false => face B C D
    match onFace with
    | .error e => .error e
    | .ok true => .ok ⟨.contact, zeroV, 3, S, 1⟩
    | .ok false =>
      let AO := -A
      let AB := B - A
      let AC := C - A
      let AD := D - A
      let ABC := V3.cross AB AC
      let ACD := V3.cross AC AD
      let ADB := V3.cross AD AB
      let bOnACD := signI (V3.dot ACD AB)
      let cOnADB := signI (V3.dot ADB AC)
      let dOnABC := signI (V3.dot ABC AD)
      let abO : Bool := decide (signI (V3.dot ACD AO) = bOnACD)
      let acO : Bool := decide (signI (V3.dot ADB AO) = cOnADB)
      let adO : Bool := decide (signI (V3.dot ABC AO) = dOnABC)
      if abO && acO && adO then .ok ⟨.contact, zeroV, 4, S, 2⟩ else
      -- `_rearrange_simplex_to_triangle`
      let S' : Sx α × Nat :=
        if ¬ abO then ({ S with v2 := A }, 10)
        else if ¬ acO then ({ S with v1 := D, v0 := B, v2 := A }, 20)
        else ({ S with v0 := C, v1 := B, v2 := A }, 30)
      match triangle S'.1 with
      | .error e => .error e
      | .ok r => .ok { r with br := S'.2 + r.br }

/-- `_refine_simplex(v, v1, v2, n_points)` -/
def refineSimplex (S : Sx α) (n : Nat) : Except Err (Refine α) :=
  if n = 2 then .ok (lineSegment S)
  else if n = 3 then triangle S
  else tetrahedron S

/-- `simplex.add_point` : `v[n] = p` (IndexError when `n = 4`) -/
def addPoint (S : Sx α) (n : Nat) (p : V3 α) : Except Err (Sx α) :=
  match n with
  | 0 => .ok { S with v0 := p }
  | 1 => .ok { S with v1 := p }
  | 2 => .ok { S with v2 := p }
  | 3 => .ok { S with v3 := p }
  | _ => .error .indexOOB

/-- one pass of the `for` body of `_gjk`: `(some (answer, exit branch), _)` or `(none, (S, n, dir))` -/
def gjkStep (sup : V3 α → V3 α) (S : Sx α) (n : Nat) (dir : V3 α) :
    Except Err (Option (Bool × Nat) × Sx α × Nat × V3 α × Nat) :=
  let sp := sup dir
  if V3.dot sp sp < EPS then .ok (some (true, 0), { S with v0 := sp }, 1, dir, 0) else
  if V3.dot sp dir < -EPS_SQRT then .ok (some (false, 1), S, n, dir, 0) else
  match addPoint S n sp with
  | .error e => .error e
  | .ok S1 =>
    match refineSimplex S1 (n + 1) with
    | .error e => .error e
    | .ok r =>
      match r.state with
      | .contact => .ok (some (true, 2), r.S, r.n, dir, r.br)
      | .noContact => .ok (some (false, 3), r.S, r.n, dir, r.br)
      | .continue_ =>
        if absS (V3.dot r.dir r.dir) < EPS then .ok (some (false, 4), r.S, r.n, r.dir, r.br)
        else .ok (none, r.S, r.n, r.dir, r.br)

/-- the `for _ in range(max_iterations)` loop of `_gjk`; returns `(answer, iterations, exit branch)` -/
def gjkLoop (sup : V3 α → V3 α) : Nat → Nat → Sx α → Nat → V3 α → Except Err (Bool × Nat × Nat)
  | 0, it, _, _, _ => .ok (false, it, 5)
  | k + 1, it, S, n, dir =>
    match gjkStep sup S n dir with
    | .error e => .error e
    | .ok (some (b, br), _, _, _, _) => .ok (b, it + 1, br)
    | .ok (none, S', n', dir', _) => gjkLoop sup k (it + 1) S' n' dir'

/-- `gjk_intersection_libccd(collider1, collider2, max_iterations)`; `f1 f2` are the `first_vertex()`s -/
def gjkIntersectionLibccd (f1 f2 : V3 α) (sA sB : V3 α → V3 α) (maxIterations : Nat) :
    Except Err (Bool × Nat × Nat) :=
  let sp := f1 - f2
  gjkLoop (fun d => sA d - sB (-d)) maxIterations 0 ⟨sp, zeroV, zeroV, zeroV⟩ 1 (-sp)

end IsectLibccd
end D3
