/-
Model of the boolean MPR test `mpr_intersection` of `distance3d/mpr.py`, property C02.
Core Lean only, scalar-polymorphic.  Only the Minkowski-difference vertices `portal.v` are modelled: the
per-collider arrays `v1`, `v2` are carried along by the Python but never read by the boolean test.

Faithful, line by line, to `_find_origin_ray`, `_find_support_in_direction_of_origin_ray`,
`_find_support_perpendicular_to_plane_containing_origin_v01`,
`_search_direction_perpendicular_to_plane_containing_v012`, `_iterate_discover_portal`, `_discover_portal`,
`_portal_direction`, `_encapsulates_origin`, `_portal_reach_tolerance`, `_expand_portal`, `_refine_portal`,
`mpr_intersection`, with the thresholds from `D3.Gen` and

* **`_swap_vertices` as it really behaves**: `tmp = v[idx1]` is a numpy *view*, so after `v[idx1] = v[idx2]`
  the final `v[idx2] = tmp` writes `v[idx2]` onto itself.  Net effect: `v[idx1] := v[idx2]`, the old
  `v[idx1]` is lost (`swapVerticesAsIs`).
* `x == 0.0` / `x != 0.0` are the IEEE comparisons (`isZero`).
* the unbounded `while True` of `_refine_portal` takes fuel; exhaustion is `Err.fuel`.

Branch ids
  `discoverPortal`: 0 outside (v1 test) · 1 ORIGIN_ON_V1 · 2 ORIGIN_ON_V0V1_SEGMENT · 3 outside (v2 test) ·
                    4 outside (v3 test in the loop) · 5 portal built · 6 portal "built" by the iteration cap
  `iterateDiscoverPortal`: 0 origin outside v1-v0-v3 (v2 := v3) · 1 outside v3-v0-v2 (v1 := v3) · 2 done
  `expandPortal`: 0 v1 := v4 (first) · 1 v3 := v4 · 2 v2 := v4 · 3 v1 := v4 (last)
  `refinePortal`: 0 True (portal encapsulates origin) · 1 False (support point not past the origin) ·
                  2 False (tolerance reached)
-/
import D3.Model.Vec
import D3.Gen.Constants

namespace D3
namespace IsectMpr

scalar_variables

/-- `EPSILON` imported from `utils` -/
def EPS : α := D3.Gen.utils__EPSILON
/-- default `mpr_tolerance` of `mpr_intersection` -/
def MPR_TOL : α := D3.Gen.mpr__mpr_intersection__mpr_tolerance
/-- default `max_iterations` of `mpr_intersection` -/
def MAX_IT : Nat := D3.Gen.mpr__mpr_intersection__max_iterations

/-- `x == 0.0` (IEEE: true for ±0, false for NaN) -/
abbrev isZero (x : α) : Prop := x ≤ 0 ∧ 0 ≤ x

/-- `all(v == 0.0)` -/
abbrev allZero (v : V3 α) : Prop := isZero v.x ∧ isZero v.y ∧ isZero v.z

/-- `utils.norm_vector` -/
def normVector (v : V3 α) : V3 α :=
  let n := V3.norm v
  if isZero n then v else V3.sdiv v n

/-- `portal.v` -/
structure Portal (α : Type) where
  v0 : V3 α
  v1 : V3 α
  v2 : V3 α
  v3 : V3 α
  deriving Repr

inductive PortalState where
  | originOutsidePortal | portalWasBuilt | originOnV1 | originOnV0V1Segment
  deriving Repr, DecidableEq, Inhabited

def PortalState.code : PortalState → Int
  | .originOutsidePortal => -1 | .portalWasBuilt => 0 | .originOnV1 => 1 | .originOnV0V1Segment => 2

/-- support point of the Minkowski difference: `minkowski.support_function(c1, c2, d)[0]` -/
def supMD (sA sB : V3 α → V3 α) (d : V3 α) : V3 α := sA d - sB (-d)

/-- `_find_origin_ray`: `v0 = center1 - center2`, nudged by `10 EPSILON` in x if it is exactly 0 -/
def findOriginRay (c1 c2 : V3 α) : V3 α × Nat :=
  let v0 := c1 - c2
  if allZero v0 then (⟨v0.x + EPS * 10.0, v0.y, v0.z⟩, 1) else (v0, 0)

/-- `_swap_vertices(v, v1, v2, 1, 2)` as it behaves on numpy views: `v[1] := v[2]`, old `v[1]` lost -/
def swapVerticesAsIs12 (P : Portal α) : Portal α := { P with v1 := P.v2 }

/-- `_search_direction_perpendicular_to_plane_containing_v012` → `(portal, direction, swapped?)` -/
def searchDirectionPerpV012 (P : Portal α) : Portal α × V3 α × Nat :=
  let d := normVector (V3.cross (P.v1 - P.v0) (P.v2 - P.v0))
  if 0 < V3.dot d P.v0 then (swapVerticesAsIs12 P, -d, 1) else (P, d, 0)

/-- `_iterate_discover_portal(v, v1, v2, search_direction, portal_size)` → `(portal, direction, size, branch)` -/
def iterateDiscoverPortal (P : Portal α) (dir : V3 α) (size : Nat) : Portal α × V3 α × Nat × Nat :=
  if V3.dot (V3.cross P.v1 P.v3) P.v0 < EPS then
    let P' := { P with v2 := P.v3 }
    (P', normVector (V3.cross (P'.v1 - P'.v0) (P'.v2 - P'.v0)), size, 0)
  else if V3.dot (V3.cross P.v3 P.v2) P.v0 < EPS then
    let P' := { P with v1 := P.v3 }
    (P', normVector (V3.cross (P'.v1 - P'.v0) (P'.v2 - P'.v0)), size, 1)
  else (P, dir, 4, 2)

/-- result of `_discover_portal` -/
structure Discover (α : Type) where
  state : PortalState
  P : Portal α
  its : Nat
  br : Nat
  deriving Repr

/-- the `while portal.n_points < 4` loop of `_discover_portal`; `k` = iterations still allowed after this
one (`max_iterations - 1 - it`) -/
def discoverLoop (sup : V3 α → V3 α) : Nat → Nat → Portal α → V3 α → Discover α
  | 0, it, P, dir =>
    let P3 := { P with v3 := sup dir }
    if V3.dot P3.v3 dir < EPS then ⟨.originOutsidePortal, P3, it, 4⟩ else
    let r := iterateDiscoverPortal P3 dir 3
    ⟨.portalWasBuilt, r.1, it + 1, if r.2.2.1 = 4 then 5 else 6⟩
  | k + 1, it, P, dir =>
    let P3 := { P with v3 := sup dir }
    if V3.dot P3.v3 dir < EPS then ⟨.originOutsidePortal, P3, it, 4⟩ else
    let r := iterateDiscoverPortal P3 dir 3
    if r.2.2.1 < 4 then discoverLoop sup k (it + 1) r.1 r.2.1
    else ⟨.portalWasBuilt, r.1, it + 1, 5⟩

/-- `_discover_portal(collider1, collider2, max_iterations)`; `c1 c2` are the `center()`s -/
def discoverPortal (c1 c2 : V3 α) (sup : V3 α → V3 α) (maxIterations : Nat) : Discover α :=
  let z : V3 α := ⟨0, 0, 0⟩
  let v0 := (findOriginRay c1 c2).1
  -- `_find_support_in_direction_of_origin_ray`
  let d1 := normVector (-v0)
  let v1 := sup d1
  if ¬ allZero v1 ∧ V3.dot v1 d1 < EPS then ⟨.originOutsidePortal, ⟨v0, v1, z, z⟩, 0, 0⟩ else
  -- `_find_support_perpendicular_to_plane_containing_origin_v01`
  let c := V3.cross v0 v1
  if V3.dot c c < EPS then
    if allZero v1 then ⟨.originOnV1, ⟨v0, v1, z, z⟩, 0, 1⟩
    else ⟨.originOnV0V1Segment, ⟨v0, v1, z, z⟩, 0, 2⟩
  else
  let d2 := normVector c
  let v2 := sup d2
  if V3.dot v2 d2 < EPS then ⟨.originOutsidePortal, ⟨v0, v1, v2, z⟩, 0, 3⟩ else
  let s := searchDirectionPerpV012 ⟨v0, v1, v2, z⟩
  discoverLoop sup (maxIterations - 1) 0 s.1 s.2.1

/-- `_portal_direction` -/
def portalDirection (P : Portal α) : V3 α :=
  normVector (V3.cross (P.v2 - P.v1) (P.v3 - P.v1))

/-- `_encapsulates_origin(v, search_direction)` : `v·d > -10 EPSILON` -/
def encapsulatesOrigin (v dir : V3 α) : Bool :=
  decide (-10.0 * EPS < V3.dot v dir)

/-- `_portal_reach_tolerance(v, v4, search_direction, mpr_tolerance)` -/
def portalReachTolerance (P : Portal α) (v4 dir : V3 α) (tol : α) : Bool :=
  let dv4 := V3.dot v4 dir
  decide (min (min (dv4 - V3.dot P.v1 dir) (dv4 - V3.dot P.v2 dir)) (dv4 - V3.dot P.v3 dir) < tol + EPS)

/-- `_expand_portal` → `(portal, branch)` -/
def expandPortal (P : Portal α) (v4 : V3 α) : Portal α × Nat :=
  let v4v0 := V3.cross v4 P.v0
  if 0 < V3.dot P.v1 v4v0 then
    if 0 < V3.dot P.v2 v4v0 then ({ P with v1 := v4 }, 0) else ({ P with v3 := v4 }, 1)
  else
    if 0 < V3.dot P.v3 v4v0 then ({ P with v2 := v4 }, 2) else ({ P with v1 := v4 }, 3)

/-- one pass of the `while True` body of `_refine_portal`: `some (answer, branch)` or `none` = expand and
continue with the returned portal -/
def refineStep (sup : V3 α → V3 α) (tol : α) (P : Portal α) : Option (Bool × Nat) × Portal α :=
  let dir := portalDirection P
  if encapsulatesOrigin P.v1 dir then (some (true, 0), P) else
  let v4 := sup dir
  if ¬ encapsulatesOrigin v4 dir then (some (false, 1), P) else
  if portalReachTolerance P v4 dir tol then (some (false, 2), P) else
  (none, (expandPortal P v4).1)

/-- `_refine_portal` -/
def refinePortal (sup : V3 α → V3 α) (tol : α) : Nat → Nat → Portal α → Except Err (Bool × Nat × Nat)
  | 0, _, _ => .error .fuel
  | fuel + 1, it, P =>
    match refineStep sup tol P with
    | (some (b, br), _) => .ok (b, it, br)
    | (none, P') => refinePortal sup tol fuel (it + 1) P'

/-- `mpr_intersection(collider1, collider2, mpr_tolerance, max_iterations)`; returns the boolean,
the discover branch, and the refine branch (99 if refinement was not entered) -/
def mprIntersection (c1 c2 : V3 α) (sA sB : V3 α → V3 α) (tol : α) (maxIterations fuel : Nat) :
    Except Err (Bool × Nat × Nat) :=
  let d := discoverPortal c1 c2 (supMD sA sB) maxIterations
  match d.state with
  | .originOutsidePortal => .ok (false, d.br, 99)
  | .portalWasBuilt =>
    match refinePortal (supMD sA sB) tol fuel 0 d.P with
    | .ok (b, _, br) => .ok (b, d.br, br)
    | .error e => .error e
  | _ => .ok (true, d.br, 99)

end IsectMpr
end D3
