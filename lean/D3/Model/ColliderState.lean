/-
Model of the *state* of the collider classes of `distance3d/colliders.py` (and of
`mesh.MeshHillClimbingSupportFunction`), core Lean only.

What is modelled, line by line:

* every class as a record holding the shape parameters and **exactly** the cached fields the
  Python object keeps (`Box.vertices`, `Sphere.c`, `Disk.c/normal`, `Ellipse.c/axes`, the pose of
  the pose-storing classes, `MeshGraph`'s second pose reference and `first_idx` inside its
  support functor);
* arrays carry a **layout tag** (`Layout.c` = C-contiguous, `.f` = Fortran-contiguous 2-D,
  `.a` = any other strided view) because that is what numba's eagerly compiled typed signatures
  (`numba.float64[::1]`, `numba.float64[:, ::1]`) dispatch on.  `pose[:3, 3]`, `pose[:3, 2]` of a
  C-contiguous 4×4 matrix and `pose[:3, :2].T` are strided views, `np.ascontiguousarray` resets
  the tag.  A typed kernel applied to an argument that is not C-contiguous raises
  `TypeError: No matching definition for argument type(s)` with the JIT on and simply runs
  with `NUMBA_DISABLE_JIT=1`; the engine is a parameter (`Engine`);
* the geometric kernels (support functions, AABB functions, hill climbing, `plane_basis_from_normal`,
  vertex mean, the dictionary/shortcut construction of the mesh functor) are **parameters**
  (`Kernels α`, arbitrary functions of the cached fields): C03/C04 model their insides; nothing
  here depends on what they compute.  The closed forms written inside colliders.py itself
  (`center`, `first_vertex`, `collider2origin`, the Margin arithmetic, `convert_box_to_vertices`)
  are modelled concretely.

Not modelled: artists (`artist_ is None` throughout, so the `set_data` lines are dead), dtype
(all arrays float64), non-termination of hill climbing.

**Aliasing.** Most classes keep the caller's pose array itself (`self.box2origin = pose`,
`self.capsule2origin = pose`, `Sphere.c = pose[:3, 3]` is a view into it); arrays are *values*
in this model, i.e. the model describes the object under the assumption that nobody writes
into a pose array after handing it to `update_pose`/the constructor.  If a caller does mutate
the array in place afterwards, the pose-storing classes silently follow the mutation (and
`Box.vertices` goes stale relative to `Box.box2origin`), whereas `Disk`/`Ellipse` (which copy
since the repair) do not.  Nothing is claimed about that situation.
-/
import D3.Model.Vec

namespace D3
namespace CS

/-- numba's array layout classes: `'C'`, `'F'`, `'A'` -/
inductive Layout where
  | c | f | a
  deriving Repr, DecidableEq, Inhabited

/-- `NUMBA_DISABLE_JIT=1` (interpreted) or the compiled engine -/
inductive Engine where
  | interp | jit
  deriving Repr, DecidableEq, Inhabited

/-- a numpy array: its entries and its memory layout -/
structure Arr (β : Type) where
  val : β
  layout : Layout
  deriving Repr, DecidableEq, Inhabited

/-- freshly allocated result (`np.array`, `np.eye`, arithmetic): C-contiguous -/
def Arr.fresh {β : Type} (v : β) : Arr β := ⟨v, .c⟩

/-- `np.ascontiguousarray` -/
def Arr.ascontiguous {β : Type} (x : Arr β) : Arr β := ⟨x.val, .c⟩

/-- the full 4×4 pose array: rows 0–2 are `[R | t]`, row 3 is `(b.x, b.y, b.z, w)`.
The colliders never read row 3, but they store and return the array as it is. -/
structure M4 (α : Type) where
  P : Pose α
  b : V3 α
  w : α
  deriving Repr, DecidableEq, Inhabited

/-- axis-aligned box as the `(mins, maxs)` pair the `*_aabb` functions return -/
structure AabbV (α : Type) where
  mins : V3 α
  maxs : V3 α
  deriving Repr, DecidableEq, Inhabited

/-- layout of a column slice `pose[:3, j]` of a 4×4 array: stride is one row (32 bytes) in a
C-ordered matrix, one element in a Fortran-ordered one -/
def colSliceLayout : Layout → Layout
  | .f => .c
  | _ => .a

/-- `pose[:3, 3]` -/
def sliceT {α : Type} (p : Arr (M4 α)) : Arr (V3 α) := ⟨p.val.P.t, colSliceLayout p.layout⟩
/-- `pose[:3, 2]` -/
def sliceCol2 {α : Type} (p : Arr (M4 α)) : Arr (V3 α) := ⟨p.val.P.R.col2, colSliceLayout p.layout⟩
/-- `pose[:3, :2].T` : shape (2,3), strides (8, 32) resp. (32, 8)/(…): never C-contiguous -/
def sliceAxes {α : Type} (p : Arr (M4 α)) : Arr (V3 α × V3 α) :=
  ⟨(p.val.P.R.col0, p.val.P.R.col1), .a⟩

/-- call of an eagerly compiled function with explicit signature whose array arguments are all
declared C-contiguous (`[::1]`, `[:, ::1]`); `args` are the layouts of the array arguments -/
def typedCall {β : Type} (e : Engine) (args : List Layout) (r : β) : Except Err β :=
  match e with
  | .interp => .ok r
  | .jit => if args.all (fun l => l == Layout.c) then .ok r else .error .typeErr

/-- the geometric kernels: parameters of the model -/
structure Kernels (α : Type) where
  /-- `support_function_capsule(d, pose, radius, height)` -/
  supCapsule : V3 α → M4 α → α → α → V3 α
  /-- `support_function_cylinder(d, pose, radius, length)` -/
  supCylinder : V3 α → M4 α → α → α → V3 α
  /-- `support_function_cone(d, pose, radius, height)` -/
  supCone : V3 α → M4 α → α → α → V3 α
  /-- `support_function_ellipsoid(d, pose, radii)` -/
  supEllipsoid : V3 α → M4 α → V3 α → V3 α
  /-- `support_function_sphere(d, center, radius)` -/
  supSphere : V3 α → V3 α → α → V3 α
  /-- `support_function_disk(d, center, radius, normal)` -/
  supDisk : V3 α → V3 α → α → V3 α → V3 α
  /-- `support_function_ellipse(d, center, axes, radii)` -/
  supEllipse : V3 α → V3 α → V3 α × V3 α → α × α → V3 α
  /-- `vertices[np.argmax(vertices.dot(d))]` (ConvexHullVertices / Box) -/
  supHull : List (V3 α) → V3 α → V3 α
  /-- `plane_basis_from_normal(normal)` -/
  planeBasis : V3 α → V3 α × V3 α
  /-- `axis_aligned_bounding_box(points)` -/
  aabbPoints : List (V3 α) → AabbV α
  aabbSphere : V3 α → α → AabbV α
  aabbCapsule : M4 α → α → α → AabbV α
  aabbCylinder : M4 α → α → α → AabbV α
  aabbCone : M4 α → α → α → AabbV α
  aabbEllipsoid : M4 α → V3 α → AabbV α
  aabbDisk : V3 α → α → V3 α → AabbV α
  aabbEllipse : V3 α → V3 α × V3 α → α × α → AabbV α
  /-- `hill_climb_mesh_extreme(dir, start_idx, vertices, connections, shortcuts)`;
  `none` = `KeyError` of `connections[best_idx]` -/
  hillClimb : V3 α → Nat → Array (V3 α) → List (Nat × List Nat) → List Nat → Option Nat
  /-- `np.mean(vertices, axis=0)` -/
  meanVerts : Array (V3 α) → V3 α
  /-- the `connections` dictionary built in `MeshHillClimbingSupportFunction.__init__` -/
  connections : List (Nat × Nat × Nat) → List (Nat × List Nat)
  /-- `shortcut_connections` (arg-extremes of the local vertices) -/
  shortcuts : Array (V3 α) → List Nat

/-! ### the per-class records: parameters + cached fields -/

structure BoxC (α : Type) where
  box2origin : Arr (M4 α)
  size : Arr (V3 α)
  /-- world-frame corner cache; consumed by plain numpy only, its layout is immaterial -/
  vertices : List (V3 α)
  deriving Repr, DecidableEq

structure SphereC (α : Type) where
  c : Arr (V3 α)
  radius : α
  deriving Repr, DecidableEq

structure CapsuleC (α : Type) where
  capsule2origin : Arr (M4 α)
  radius : α
  height : α
  deriving Repr, DecidableEq

structure EllipsoidC (α : Type) where
  ellipsoid2origin : Arr (M4 α)
  radii : Arr (V3 α)
  deriving Repr, DecidableEq

structure CylinderC (α : Type) where
  cylinder2origin : Arr (M4 α)
  radius : α
  length : α
  deriving Repr, DecidableEq

structure DiskC (α : Type) where
  c : Arr (V3 α)
  radius : α
  normal : Arr (V3 α)
  deriving Repr, DecidableEq

structure EllipseC (α : Type) where
  c : Arr (V3 α)
  axes : Arr (V3 α × V3 α)
  radii : Arr (α × α)
  deriving Repr, DecidableEq

structure ConeC (α : Type) where
  cone2origin : Arr (M4 α)
  radius : α
  height : α
  deriving Repr, DecidableEq

/-- `MeshHillClimbingSupportFunction` -/
structure MeshSF (α : Type) where
  mesh2origin : Arr (M4 α)
  vertices : Array (V3 α)
  /-- vertex caching: start of the next hill climb = result of the previous one -/
  firstIdx : Nat
  connections : List (Nat × List Nat)
  shortcuts : List Nat
  deriving Repr, DecidableEq

structure MeshC (α : Type) where
  mesh2origin : Arr (M4 α)
  vertices : Array (V3 α)
  triangles : List (Nat × Nat × Nat)
  sf : MeshSF α
  deriving Repr, DecidableEq

/-- an object of one of the classes that implement `update_pose` -/
inductive Collider (α : Type) where
  | box (s : BoxC α)
  | sphere (s : SphereC α)
  | capsule (s : CapsuleC α)
  | ellipsoid (s : EllipsoidC α)
  | cylinder (s : CylinderC α)
  | disk (s : DiskC α)
  | ellipse (s : EllipseC α)
  | cone (s : ConeC α)
  | mesh (s : MeshC α)
  | margin (inner : Collider α) (m : α)
  deriving Repr

/-- the constructor arguments other than the pose -/
inductive Shape (α : Type) where
  | box (size : Arr (V3 α))
  | sphere (radius : α)
  | capsule (radius height : α)
  | ellipsoid (radii : Arr (V3 α))
  | cylinder (radius length : α)
  | disk (radius : α)
  | ellipse (radii : Arr (α × α))
  | cone (radius height : α)
  | mesh (vertices : Array (V3 α)) (triangles : List (Nat × Nat × Nat))
  | margin (inner : Shape α) (m : α)
  deriving Repr

/-- `support_function(d)`, `aabb()`, `center()`, `first_vertex()`, `collider2origin()` -/
inductive Query (α : Type) where
  | support (d : Arr (V3 α))
  | aabb
  | center
  | firstVertex
  | collider2origin
  deriving Repr

inductive Op (α : Type) where
  | updatePose (p : Arr (M4 α))
  | query (q : Query α)
  deriving Repr

/-- what a call returns.  Only the *entries* of a returned array are an observation; its
layout is not (after `update_pose`, `Sphere.center()` returns the strided view `pose[:3, 3]`
where a sphere built from a fresh centre array returns a contiguous one). -/
inductive Obs (α : Type) where
  | none
  | vec (v : V3 α)
  | aabb (b : AabbV α)
  | mat (m : M4 α)
  deriving Repr, DecidableEq

abbrev Out (α : Type) := Except Err (Obs α)

/-- the start vertex of the next hill climb (0 for colliders without a mesh) -/
def Collider.firstIdx {α : Type} : Collider α → Nat
  | .mesh s => s.sf.firstIdx
  | .margin c _ => c.firstIdx
  | _ => 0

def Collider.setFirstIdx {α : Type} (i : Nat) : Collider α → Collider α
  | .mesh s => .mesh { s with sf := { s.sf with firstIdx := i } }
  | .margin c m => .margin (c.setFirstIdx i) m
  | c => c

def Shape.hasMesh {α : Type} : Shape α → Bool
  | .mesh _ _ => true
  | .margin s _ => s.hasMesh
  | _ => false

/-- all array-valued shape parameters that reach a typed kernel are C-contiguous -/
def Shape.contigParams {α : Type} : Shape α → Bool
  | .box size => size.layout == .c
  | .ellipsoid radii => radii.layout == .c
  | .ellipse radii => radii.layout == .c
  | .margin s _ => s.contigParams
  | _ => true

/-- `np.min(triangles)`; `ValueError` on an empty array -/
def minTriangleIdx : List (Nat × Nat × Nat) → Except Err Nat
  | [] => .error .badInput
  | (i, j, k) :: ts => .ok (ts.foldl (fun m (t : Nat × Nat × Nat) => min (min (min m t.1) t.2.1) t.2.2)
      (min (min i j) k))

/-- `itertools.product([-0.5, 0.5], repeat=3)` as sign triples (`true` = `+0.5`) -/
def boxSigns : List (Bool × Bool × Bool) :=
  [(false, false, false), (false, false, true), (false, true, false), (false, true, true),
   (true, false, false), (true, false, true), (true, true, false), (true, true, true)]

scalar_variables

/-- entry of `BOX_COORDS` -/
def half (s : Bool) : α := if s then 0.5 else -0.5

/-- `convert_box_to_vertices(box2origin, size)` :
`box2origin[:3, 3] + (BOX_COORDS * size).dot(box2origin[:3, :3].T)` -/
def convertBox (P : Pose α) (size : V3 α) : List (V3 α) :=
  boxSigns.map fun s => P.t + P.R.mulVec ⟨half s.1 * size.x, half s.2.1 * size.y, half s.2.2 * size.z⟩

/-- `np.eye(4)` -/
def M4.eye : M4 α := ⟨Pose.id, V3.zero, 1⟩

/-- `norm_vector(v)` -/
def normVector (v : V3 α) : V3 α :=
  let n := V3.norm v
  if n = 0 then v else v.sdiv n

/-- `mesh2origin[:3, 3] + np.dot(mesh2origin[:3, :3], v)` -/
def meshPoint (m : M4 α) (v : V3 α) : V3 α := m.P.t + m.P.R.mulVec v

/-! ### construction at a pose -/

/-- The constructor call that places a new collider of the given shape at pose `p`:
`Box(p, size)`, `Capsule(p, r, h)`, …, `MeshGraph(p, vertices, triangles)`,
`Sphere(center=p[:3, 3], radius)` (as `broad_phase.py` does), `Disk(c, r, n)` /
`Ellipse(c, axes, radii)` with contiguous copies of the respective pose slices (anything else
is rejected by the compiled kernels), `Margin(<inner at p>, m)`. -/
def atPose (e : Engine) (K : Kernels α) : Shape α → Arr (M4 α) → Except Err (Collider α)
  | .box size, p => do
    -- `convert_box_to_vertices` is typed `(float64[:, ::1], float64[::1])`
    let v ← typedCall e [p.layout, size.layout] (convertBox p.val.P size.val)
    pure (.box ⟨p, size, v⟩)
  | .sphere r, p => pure (.sphere ⟨sliceT p, r⟩)
  | .capsule r h, p => pure (.capsule ⟨p, r, h⟩)
  | .ellipsoid radii, p => pure (.ellipsoid ⟨p, radii⟩)
  | .cylinder r l, p => pure (.cylinder ⟨p, r, l⟩)
  | .disk r, p => pure (.disk ⟨(sliceT p).ascontiguous, r, (sliceCol2 p).ascontiguous⟩)
  | .ellipse radii, p => pure (.ellipse ⟨(sliceT p).ascontiguous, (sliceAxes p).ascontiguous, radii⟩)
  | .cone r h, p => pure (.cone ⟨p, r, h⟩)
  | .mesh verts tris, p => do
    let first ← minTriangleIdx tris
    -- `np.argmax` over an empty vertex array: ValueError
    if verts.isEmpty then throw .badInput
    pure (.mesh ⟨p, verts, tris, ⟨p, verts, first, K.connections tris, K.shortcuts verts⟩⟩)
  | .margin s m, p => do
    let c ← atPose e K s p
    pure (.margin c m)

/-! ### `update_pose` -/

/-- `Disk.update_pose` (as it is now: contiguous copies) -/
def DiskC.updatePose (s : DiskC α) (p : Arr (M4 α)) : DiskC α :=
  { s with c := (sliceT p).ascontiguous, normal := (sliceCol2 p).ascontiguous }

/-- `Disk.update_pose` before the repair: `self.c = pose[:3, 3]; self.normal = pose[:3, 2]` -/
def DiskC.updatePose_asIs_before_fix (s : DiskC α) (p : Arr (M4 α)) : DiskC α :=
  { s with c := sliceT p, normal := sliceCol2 p }

/-- `Ellipse.update_pose` (as it is now) -/
def EllipseC.updatePose (s : EllipseC α) (p : Arr (M4 α)) : EllipseC α :=
  { s with c := (sliceT p).ascontiguous, axes := (sliceAxes p).ascontiguous }

/-- `Ellipse.update_pose` before the repair: `self.c = pose[:3, 3]; self.axes = pose[:3, :2].T` -/
def EllipseC.updatePose_asIs_before_fix (s : EllipseC α) (p : Arr (M4 α)) : EllipseC α :=
  { s with c := sliceT p, axes := sliceAxes p }

/-- `Box.update_pose`: the pose is stored first, then the corner cache is recomputed by a
typed kernel; if that raises, the object stays half-updated -/
def BoxC.updatePose (e : Engine) (s : BoxC α) (p : Arr (M4 α)) : BoxC α × Option Err :=
  let s1 := { s with box2origin := p }
  match typedCall e [p.layout, s.size.layout] (convertBox p.val.P s.size.val) with
  | .ok v => ({ s1 with vertices := v }, none)
  | .error err => (s1, some err)

/-- `MeshGraph.update_pose`: both pose references are replaced, `first_idx` is kept -/
def MeshC.updatePose (s : MeshC α) (p : Arr (M4 α)) : MeshC α :=
  { s with mesh2origin := p, sf := { s.sf with mesh2origin := p } }

/-- `update_pose(pose)`: new state and the exception raised, if any.
`fixed = false` selects the `Disk`/`Ellipse` code before the repair. -/
def Collider.updatePoseV (fixed : Bool) (e : Engine) : Collider α → Arr (M4 α) → Collider α × Option Err
  | .box s, p => let r := s.updatePose e p; (.box r.1, r.2)
  | .sphere s, p => (.sphere { s with c := sliceT p }, none)
  | .capsule s, p => (.capsule { s with capsule2origin := p }, none)
  | .ellipsoid s, p => (.ellipsoid { s with ellipsoid2origin := p }, none)
  | .cylinder s, p => (.cylinder { s with cylinder2origin := p }, none)
  | .disk s, p => (.disk (if fixed then s.updatePose p else s.updatePose_asIs_before_fix p), none)
  | .ellipse s, p => (.ellipse (if fixed then s.updatePose p else s.updatePose_asIs_before_fix p), none)
  | .cone s, p => (.cone { s with cone2origin := p }, none)
  | .mesh s, p => (.mesh (s.updatePose p), none)
  | .margin c m, p => let r := c.updatePoseV fixed e p; (.margin r.1 m, r.2)

/-- the code as it is now -/
def Collider.updatePose (e : Engine) (c : Collider α) (p : Arr (M4 α)) : Collider α × Option Err :=
  c.updatePoseV true e p

/-- the code before commit "fix: Disk/Ellipse.update_pose stored strided views…" -/
def Collider.updatePose_asIs_before_fix (e : Engine) (c : Collider α) (p : Arr (M4 α)) :
    Collider α × Option Err :=
  c.updatePoseV false e p

/-! ### queries -/

def okVec (v : V3 α) : Out α := .ok (.vec v)

/-- `MeshGraph.support_function`: hill climbing from the cached vertex in the functor's own
pose; the result is cached *before* the vertex is read -/
def MeshC.support (K : Kernels α) (s : MeshC α) (d : V3 α) : MeshC α × Out α :=
  let sf := s.sf
  let dirMesh := sf.mesh2origin.val.P.R.tmulVec d
  match K.hillClimb dirMesh sf.firstIdx sf.vertices sf.connections sf.shortcuts with
  | none => (s, .error .keyError)
  | some idx =>
    let s' := { s with sf := { sf with firstIdx := idx } }
    match sf.vertices[idx]? with
    | none => (s', .error .indexOOB)
    | some v => (s', okVec (meshPoint sf.mesh2origin.val v))

/-- `Disk.collider2origin` / `Ellipse.collider2origin`: `np.eye(4)` with columns and translation set -/
def fromColumns (x y z t : V3 α) : M4 α :=
  ⟨⟨⟨⟨x.x, y.x, z.x⟩, ⟨x.y, y.y, z.y⟩, ⟨x.z, y.z, z.z⟩⟩, t⟩, V3.zero, 1⟩

/-- one query on one collider: new state (only `MeshGraph.support_function` changes it) and result -/
def Collider.query (e : Engine) (K : Kernels α) : Collider α → Query α → Collider α × Out α
  -- Box (inherits first_vertex / support_function from ConvexHullVertices)
  | .box s, .support d => (.box s, okVec (K.supHull s.vertices d.val))
  | .box s, .aabb =>
    (.box s, (typedCall e [s.box2origin.layout, s.size.layout]
      (K.aabbPoints (convertBox s.box2origin.val.P s.size.val))).map Obs.aabb)
  | .box s, .center => (.box s, okVec s.box2origin.val.P.t)
  | .box s, .firstVertex =>
    (.box s, match s.vertices with | v :: _ => okVec v | [] => .error .indexOOB)
  | .box s, .collider2origin => (.box s, .ok (.mat s.box2origin.val))
  -- Sphere
  | .sphere s, .support d =>
    (.sphere s, (typedCall e [d.layout, s.c.ascontiguous.layout] (K.supSphere d.val s.c.val s.radius)).map Obs.vec)
  | .sphere s, .aabb => (.sphere s, .ok (.aabb (K.aabbSphere s.c.val s.radius)))
  | .sphere s, .center => (.sphere s, okVec s.c.val)
  | .sphere s, .firstVertex => (.sphere s, okVec (s.c.val + ⟨0, 0, s.radius⟩))
  | .sphere s, .collider2origin => (.sphere s, .ok (.mat { (M4.eye : M4 α) with P := ⟨M3.one, s.c.val⟩ }))
  -- Capsule
  | .capsule s, .support d =>
    (.capsule s, (typedCall e [d.layout, s.capsule2origin.layout]
      (K.supCapsule d.val s.capsule2origin.val s.radius s.height)).map Obs.vec)
  | .capsule s, .aabb => (.capsule s, .ok (.aabb (K.aabbCapsule s.capsule2origin.val s.radius s.height)))
  | .capsule s, .center => (.capsule s, okVec s.capsule2origin.val.P.t)
  | .capsule s, .firstVertex =>
    (.capsule s, okVec (s.capsule2origin.val.P.t - (s.radius + 0.5 * s.height) * s.capsule2origin.val.P.R.col2))
  | .capsule s, .collider2origin => (.capsule s, .ok (.mat s.capsule2origin.val))
  -- Ellipsoid
  | .ellipsoid s, .support d =>
    (.ellipsoid s, (typedCall e [d.layout, s.ellipsoid2origin.layout, s.radii.layout]
      (K.supEllipsoid d.val s.ellipsoid2origin.val s.radii.val)).map Obs.vec)
  | .ellipsoid s, .aabb => (.ellipsoid s, .ok (.aabb (K.aabbEllipsoid s.ellipsoid2origin.val s.radii.val)))
  | .ellipsoid s, .center => (.ellipsoid s, okVec s.ellipsoid2origin.val.P.t)
  | .ellipsoid s, .firstVertex =>
    (.ellipsoid s, okVec (s.ellipsoid2origin.val.P.t + s.radii.val.z * s.ellipsoid2origin.val.P.R.col2))
  | .ellipsoid s, .collider2origin => (.ellipsoid s, .ok (.mat s.ellipsoid2origin.val))
  -- Cylinder
  | .cylinder s, .support d =>
    (.cylinder s, (typedCall e [d.layout, s.cylinder2origin.layout]
      (K.supCylinder d.val s.cylinder2origin.val s.radius s.length)).map Obs.vec)
  | .cylinder s, .aabb => (.cylinder s, .ok (.aabb (K.aabbCylinder s.cylinder2origin.val s.radius s.length)))
  | .cylinder s, .center => (.cylinder s, okVec s.cylinder2origin.val.P.t)
  | .cylinder s, .firstVertex =>
    (.cylinder s, okVec (s.cylinder2origin.val.P.t + (0.5 * s.length) * s.cylinder2origin.val.P.R.col2))
  | .cylinder s, .collider2origin => (.cylinder s, .ok (.mat s.cylinder2origin.val))
  -- Disk
  | .disk s, .support d =>
    (.disk s, (typedCall e [d.layout, s.c.layout, s.normal.layout]
      (K.supDisk d.val s.c.val s.radius s.normal.val)).map Obs.vec)
  | .disk s, .aabb => (.disk s, .ok (.aabb (K.aabbDisk s.c.val s.radius s.normal.val)))
  | .disk s, .center => (.disk s, okVec s.c.val)
  | .disk s, .firstVertex =>
    (.disk s, (typedCall e [s.normal.layout] (K.planeBasis s.normal.val)).map
      fun xy => Obs.vec (s.c.val + s.radius * xy.1))
  | .disk s, .collider2origin =>
    (.disk s, (typedCall e [s.normal.layout] (K.planeBasis s.normal.val)).map
      fun xy => Obs.mat (fromColumns xy.1 xy.2 s.normal.val s.c.val))
  -- Ellipse
  | .ellipse s, .support d =>
    (.ellipse s, (typedCall e [d.layout, s.c.layout, s.axes.layout, s.radii.layout]
      (K.supEllipse d.val s.c.val s.axes.val s.radii.val)).map Obs.vec)
  | .ellipse s, .aabb => (.ellipse s, .ok (.aabb (K.aabbEllipse s.c.val s.axes.val s.radii.val)))
  | .ellipse s, .center => (.ellipse s, okVec s.c.val)
  | .ellipse s, .firstVertex => (.ellipse s, okVec (s.c.val + V3.smul s.radii.val.1 s.axes.val.1))
  | .ellipse s, .collider2origin =>
    (.ellipse s, .ok (.mat (fromColumns s.axes.val.1 s.axes.val.2 (V3.cross s.axes.val.1 s.axes.val.2) s.c.val)))
  -- Cone
  | .cone s, .support d =>
    (.cone s, (typedCall e [d.layout, s.cone2origin.layout]
      (K.supCone d.val s.cone2origin.val s.radius s.height)).map Obs.vec)
  | .cone s, .aabb => (.cone s, .ok (.aabb (K.aabbCone s.cone2origin.val s.radius s.height)))
  | .cone s, .center =>
    (.cone s, okVec (s.cone2origin.val.P.t + (0.5 * s.height) * s.cone2origin.val.P.R.col2))
  | .cone s, .firstVertex => (.cone s, okVec (s.cone2origin.val.P.t + s.height * s.cone2origin.val.P.R.col2))
  | .cone s, .collider2origin => (.cone s, .ok (.mat s.cone2origin.val))
  -- MeshGraph
  | .mesh s, .support d => let r := s.support K d.val; (.mesh r.1, r.2)
  | .mesh s, .aabb =>
    (.mesh s, .ok (.aabb (K.aabbPoints (s.vertices.toList.map (meshPoint s.mesh2origin.val)))))
  | .mesh s, .center => (.mesh s, okVec (meshPoint s.mesh2origin.val (K.meanVerts s.vertices)))
  | .mesh s, .firstVertex =>
    (.mesh s, match s.vertices[0]? with
      | some v => okVec (meshPoint s.mesh2origin.val v)
      | none => .error .indexOOB)
  | .mesh s, .collider2origin => (.mesh s, .ok (.mat s.mesh2origin.val))
  -- Margin: everything delegates; support adds `margin * norm_vector(d)` (typed `float64[::1]`),
  -- aabb widens by the margin
  | .margin c m, .support d =>
    let r := c.query e K (.support d)
    (.margin r.1 m,
      match r.2 with
      | .error err => .error err
      | .ok o =>
        match typedCall e [d.layout] (normVector d.val) with
        | .error err => .error err
        | .ok n =>
          match o with
          | .vec v => .ok (.vec (v + m * n))
          | _ => .error .attrErr)
  | .margin c m, .aabb =>
    let r := c.query e K .aabb
    (.margin r.1 m,
      match r.2 with
      | .error err => .error err
      | .ok (.aabb b) => .ok (.aabb ⟨b.mins - ⟨m, m, m⟩, b.maxs + ⟨m, m, m⟩⟩)
      | .ok _ => .error .attrErr)
  | .margin c m, .center => let r := c.query e K .center; (.margin r.1 m, r.2)
  | .margin c m, .firstVertex => let r := c.query e K .firstVertex; (.margin r.1 m, r.2)
  | .margin c m, .collider2origin => let r := c.query e K .collider2origin; (.margin r.1 m, r.2)

/-! ### histories -/

def updOut (r : Option Err) : Out α :=
  match r with
  | none => .ok .none
  | some err => .error err

/-- one operation: new state and what the caller sees -/
def stepV (fixed : Bool) (e : Engine) (K : Kernels α) (c : Collider α) : Op α → Collider α × Out α
  | .updatePose p => let r := c.updatePoseV fixed e p; (r.1, updOut r.2)
  | .query q => c.query e K q

def step (e : Engine) (K : Kernels α) (c : Collider α) (op : Op α) : Collider α × Out α :=
  stepV true e K c op

/-- everything the caller sees during a history -/
def runV (fixed : Bool) (e : Engine) (K : Kernels α) : Collider α → List (Op α) → List (Out α)
  | _, [] => []
  | c, op :: ops => let r := stepV fixed e K c op; r.2 :: runV fixed e K r.1 ops

def run (e : Engine) (K : Kernels α) (c : Collider α) (ops : List (Op α)) : List (Out α) :=
  runV true e K c ops

/-- state after a history -/
def finalState (e : Engine) (K : Kernels α) : Collider α → List (Op α) → Collider α
  | c, [] => c
  | c, op :: ops => finalState e K (step e K c op).1 ops

/-- the history as seen on **freshly constructed** colliders: every `update_pose p` is replaced by
building a new collider of the same shape at `p` (the old one is thrown away) and every query is
asked of the collider built at the last pose.  The only thing carried over is the mesh start
index `idx` (history-dependent state of `MeshHillClimbingSupportFunction`; irrelevant for every
shape without a mesh). -/
def runFresh (e : Engine) (K : Kernels α) (shape : Shape α) :
    Arr (M4 α) → Nat → List (Op α) → List (Out α)
  | _, _, [] => []
  | _, idx, .updatePose p :: ops =>
    (match atPose e K shape p with
      | .ok _ => .ok .none
      | .error err => .error err) :: runFresh e K shape p idx ops
  | last, idx, .query q :: ops =>
    match atPose e K shape last with
    | .error err => .error err :: runFresh e K shape last idx ops
    | .ok f =>
      let r := (f.setFirstIdx idx).query e K q
      r.2 :: runFresh e K shape last r.1.firstIdx ops

/-- the same without any carried state: each query is asked of `atPose shape last` as built -/
def runFreshPlain (e : Engine) (K : Kernels α) (shape : Shape α) :
    Arr (M4 α) → List (Op α) → List (Out α)
  | _, [] => []
  | _, .updatePose p :: ops =>
    (match atPose e K shape p with
      | .ok _ => .ok .none
      | .error err => .error err) :: runFreshPlain e K shape p ops
  | last, .query q :: ops =>
    (match atPose e K shape last with
      | .error err => .error err
      | .ok f => (f.query e K q).2) :: runFreshPlain e K shape last ops

/-- the poses a history hands to `update_pose` -/
def posesOf : List (Op α) → List (Arr (M4 α))
  | [] => []
  | .updatePose p :: ops => p :: posesOf ops
  | .query _ :: ops => posesOf ops

/-- the search directions of a history -/
def dirsOf : List (Op α) → List (Arr (V3 α))
  | [] => []
  | .query (.support d) :: ops => d :: dirsOf ops
  | _ :: ops => dirsOf ops

/-! ### ConvexHullVertices: no `update_pose` -/

inductive PyExc where
  | err (e : Err)
  | notImplemented
  deriving Repr, DecidableEq

structure HullC (α : Type) where
  vertices : List (V3 α)
  deriving Repr, DecidableEq

/-- `ConvexHullVertices.update_pose`: `raise NotImplementedError` -/
def HullC.updatePose (_s : HullC α) (_p : Arr (M4 α)) : Except PyExc (HullC α) :=
  .error .notImplemented

end CS
end D3
