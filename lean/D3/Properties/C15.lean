/-
C15 — hydroelastic contact polygons lie on the contact plane inside both tetrahedra.

Property theorems only (helper lemmas live in D3/Proofs/Hydro*.lean).  All statements are about
the executable model `D3.Hydro` (D3/Model/Hydro.lean) at `α := ℝ`; `atan2` is an arbitrary
function (`[HasAtan2 ℝ]` is a variable: nothing proved here depends on what it computes), and
`np.linalg.pinv` / `np.linalg.solve` enter only through their contracts (`IsBaryTransform`,
`SolveNonneg`).

Proved for all inputs:
  `vertex_in_all_halfplanes`, `halfplane_is_trace`, `vertex_on_plane`,
  `vertex_inside_both_tetrahedra`, `pair_polygon_spec`, `barycentric_lower_bound`,
  `force_along_normal`, `pressure_lower_bound`, `area_nonneg`, `no_valid_point_no_polygon`,
  `reported_pairs_branches`, `swap_contact_plane`.
  `halfplane_buffer_never_overflows` (unconditional: no `indexOOB`, no `assertFail` in
  `intersect_halfplanes`, for every list of half-planes), `halfplane_points_general_position`.
Repaired defects, as before_fix / fixed pairs on the faithful models:
  `halfplane_buffer_overflow_before_fix` / `halfplane_buffer_overflow_fixed`,
  `halfplane_buffer_assert_before_fix` / `halfplane_buffer_assert_fixed`,
  `halfplane_buffer_overflow_general_before_fix`, `halfplane_buffer_before_fix_sufficient_partial`,
  `halfplane_buffer_before_fix_sufficient_small`, `makeHalfplanes_asIs_before_fix_gap`.
Defect theorem on the faithful model (code as it is): `same_branch_asIs_counterexample`.
Not proved (named in the harness module's `PARTIAL`): convexity of the angular order (atan2
monotonicity), independence of the tetrahedron order beyond `swap_contact_plane`.
-/
import D3.Proofs.HydroDefects
import D3.Proofs.HydroSkipped

namespace D3
namespace C15
open Hydro

/-! ## 2-D kernel -/

/-- **C15, half-plane intersection.**  Every point returned by `intersect_halfplanes` satisfies
every half-plane inequality up to the `EPSILON` slack of `point_outside_of_halfplane`, and lies
exactly on two of the boundary lines, which were not flagged parallel. -/
theorem vertex_in_all_halfplanes (hps : List (HP ℝ)) (res : List (V2 ℝ))
    (h : intersectHalfplanes hps = .ok res) (p : V2 ℝ) (hp : p ∈ res) :
    (∀ (k : Nat) (hk : HP ℝ), hps[k]? = some hk → -(eps : ℝ) ≤ hpSide hk p) ∧
    (∃ (i j : Nat) (hi hj : HP ℝ), i < j ∧ hps[i]? = some hi ∧ hps[j]? = some hj ∧
      hpSide hi p = 0 ∧ hpSide hj p = 0 ∧ (eps : ℝ) ≤ |cross2d hi.d hj.d|) := by
  obtain ⟨hfrom, _⟩ := intersectHalfplanes_spec hps res h
  obtain ⟨i, j, hi, hj, hij, hgi, hgj, h2, hvalid⟩ := hfrom p hp
  obtain ⟨hc, hsi, hsj⟩ := intersectTwo_some h2
  refine ⟨?_, i, j, hi, hj, hij, hgi, hgj, hsi, hsj, hc⟩
  intro k hk hget
  by_cases hki : k = i
  · subst hki; rw [hgi] at hget; cases hget; rw [hsi]; linarith [eps_pos]
  · by_cases hkj : k = j
    · subst hkj; rw [hgj] at hget; cases hget; rw [hsj]; linarith [eps_pos]
    · exact (validPoint_iff hps i j p).mp hvalid k hk hget hki hkj

/-- non-vacuity: three half-planes `x ≥ 0`, `y ≥ 0`, `x + y ≤ 1` (evaluated exactly) -/
def exTriangle : List (HP Rat) := [⟨⟨0, 0⟩, ⟨0, -1⟩⟩, ⟨⟨0, 0⟩, ⟨1, 0⟩⟩, ⟨⟨1, 0⟩, ⟨-1, 1⟩⟩]
example : intersectHalfplanes exTriangle = .ok [⟨0, 0⟩, ⟨0, 1⟩, ⟨1, 0⟩] := by decide +kernel

/-- **C15, half-planes are the traces of the face half-spaces.**  For a row `[n, c]` of the
barycentric transforms that `make_halfplanes` keeps, the quantity that
`point_outside_of_halfplane` compares with `-EPSILON` at a 2-D point `q` *is* the barycentric
coordinate `⟨n, x⟩ + c` of the lifted point `x = plane_point + q₀·cx + q₁·cy` — for every
`cart2plane = (cx, cy)`, orthonormal or not.  Hence `q` is accepted by that half-plane iff the
lifted point satisfies the face inequality up to `EPSILON`. -/
theorem halfplane_is_trace (pp cx cy : V) (r : Row4 ℝ) (h : HP ℝ)
    (hh : makeHalfplaneRow pp cx cy r = some h) (q : V2 ℝ) :
    hpSide h q = rowVal r (lift pp cx cy q) ∧
    (pointOutsideOfHalfplane h q = false ↔ -(eps : ℝ) ≤ rowVal r (lift pp cx cy q)) := by
  have e : hpSide h q = rowVal r (lift pp cx cy q) := by
    rw [(makeHalfplaneRow_some hh).2.2 q, halfplane_trace]
  refine ⟨e, ?_⟩
  rw [← e, Bool.eq_false_iff, Ne, pointOutside_iff, not_lt]

/-- non-vacuity: the six kept rows of two stacked unit tetrahedra (contact plane `z = 1/4`) -/
example : (makeHalfplaneRow stackPP stackCx stackCy unitX.r0).isSome = true :=
  stack_rows_kept_skipped.1 _ (by simp)

/-! ## 3-D polygon -/

section
variable [HasAtan2 ℝ]

/-- **C15, vertices on the contact plane.**  Every vertex returned by `compute_contact_polygon`
for a unit normal `n` satisfies `⟨n, P⟩ = d` (the basis of `plane_basis_from_normal` is orthogonal
to `n`; no further assumption). -/
theorem vertex_on_plane (X1 X2 : X4 ℝ) (n : V) (d : ℝ) (hn : V3.dot n n = 1) (b : Nat)
    (poly : List V) (h : computeContactPolygon X1 X2 n d = .ok (b, poly)) (P : V) (hP : P ∈ poly) :
    V3.dot n P = d :=
  (vertexOrigin_spec hn ((computeContactPolygon_stages h).2.2 P hP)).1

/-- **C15, vertices inside both tetrahedra.**  For every vertex `P` of the polygon and every one
of the eight rows `[n_k, c_k]` of `X1`, `X2`: if `make_halfplanes` keeps the row, the barycentric
coordinate `⟨n_k, P⟩ + c_k` is at least `-EPSILON`; if it skips the row (face parallel to the
contact plane up to `EPSILON`), the coordinate differs from its value at `plane_point` by at most
`EPSILON · (|q₀| + |q₁|)`, `q` the plane coordinates of `P`. -/
theorem vertex_inside_both_tetrahedra (X1 X2 : X4 ℝ) (n : V) (d : ℝ) (hn : V3.dot n n = 1)
    (b : Nat) (poly : List V) (h : computeContactPolygon X1 X2 n d = .ok (b, poly)) (P : V)
    (hP : P ∈ poly) :
    ∃ (cx cy : V) (q : V2 ℝ), P = lift (planePointOf n d) cx cy q ∧
      ∀ r ∈ X1.rows ++ X2.rows,
        ((makeHalfplaneRow (planePointOf n d) cx cy r).isSome → -(eps : ℝ) ≤ rowVal r P) ∧
        (makeHalfplaneRow (planePointOf n d) cx cy r = none →
          |rowVal r P - rowVal r (planePointOf n d)| ≤ (eps : ℝ) * (|q.x| + |q.y|)) :=
  (vertexOrigin_spec hn ((computeContactPolygon_stages h).2.2 P hP)).2

/-- **C15, the reported pair.**  When `intersect_tetrahedron_pair` leaves through its regular
exit (branch 0: not "same", both tetrahedra straddle the plane, at least three vertices) it
reports `intersection = True`, a plane with unit normal, a polygon of at least three vertices,
each on the reported plane and with all eight barycentric coordinates bounded below as in
`vertex_inside_both_tetrahedra`. -/
theorem pair_polygon_spec (t1 t2 : Tet ℝ) (e1 e2 : Q4 ℝ) (X1 X2 : X4 ℝ) (E1 E2 : ℝ)
    (r : PairResult ℝ) (h : intersectTetrahedronPair t1 e1 X1 t2 e2 X2 E1 E2 = .ok r)
    (hb : r.branch = 0) :
    r.intersecting = true ∧ V3.dot r.plane.n r.plane.n = 1 ∧
    ∃ poly, r.polygon = some poly ∧ 3 ≤ poly.length ∧ ∀ P ∈ poly,
      V3.dot r.plane.n P = r.plane.c ∧
      ∃ (cx cy : V) (q : V2 ℝ), P = lift (planePointOf r.plane.n r.plane.c) cx cy q ∧
        ∀ row ∈ X1.rows ++ X2.rows,
          ((makeHalfplaneRow (planePointOf r.plane.n r.plane.c) cx cy row).isSome →
            -(eps : ℝ) ≤ rowVal row P) ∧
          (makeHalfplaneRow (planePointOf r.plane.n r.plane.c) cx cy row = none →
            |rowVal row P - rowVal row (planePointOf r.plane.n r.plane.c)| ≤
              (eps : ℝ) * (|q.x| + |q.y|)) := by
  obtain ⟨hi, hn, _, poly, hp, hl, hall⟩ := pair_branch0 h hb
  exact ⟨hi, hn, poly, hp, hl, fun P hP => vertexOrigin_spec hn (hall P hP)⟩

/-- **C15, which exits report an intersection.**  `intersection = True` is reported only through
the regular exit (branch 0, covered by `pair_polygon_spec`) or through the "same tetrahedron"
exit (branch 1, see `same_branch_asIs_counterexample`). -/
theorem reported_pairs_branches (t1 t2 : Tet ℝ) (e1 e2 : Q4 ℝ) (X1 X2 : X4 ℝ) (E1 E2 : ℝ)
    (r : PairResult ℝ) (h : intersectTetrahedronPair t1 e1 X1 t2 e2 X2 E1 E2 = .ok r)
    (hi : r.intersecting = true) : r.branch = 0 ∨ r.branch = 1 :=
  pair_intersecting_branch h hi

omit [HasAtan2 ℝ] in
/-- **C15, faces parallel to the contact plane (the skipped rows).**  Let `X1`, `X2` satisfy the
contract of `barycentric_transforms` for `t1`, `t2`, let `check_tetrahedra_intersect_contact_plane`
accept (each tetrahedron has a vertex below `-tol` and one above `tol`, `tol ≥ 0`) for the unit
normal `n`, and let the face of one of the eight rows be parallel to the contact plane
(`FaceParallel`: its gradient is a multiple of `n`).  Then `make_halfplanes` skips that row for
every basis returned by `plane_basis_from_normal`, the row is constant on the contact plane, and
its value there, in particular at `plane_point`, is strictly between 0 and 1.  This is the step
that `vertex_inside_both_tetrahedra` leaves open for skipped rows, for exactly parallel faces. -/
theorem skipped_row_coordinate_pos (t1 t2 : Tet ℝ) (X1 X2 : X4 ℝ) (hX1 : IsBaryTransform X1 t1)
    (hX2 : IsBaryTransform X2 t2) (n : V) (d tol : ℝ) (hn : V3.dot n n = 1) (htol : 0 ≤ tol)
    (hchk : checkTetrahedraIntersectContactPlane t1 t2 n d tol = true)
    (row : Row4 ℝ) (hrow : row ∈ X1.rows ++ X2.rows) (hpar : FaceParallel row n) :
    (∀ b cx cy, planeBasisFromNormal n = .ok (b, cx, cy) →
      makeHalfplaneRow (planePointOf n d) cx cy row = none) ∧
    (0 < rowVal row (planePointOf n d) ∧ rowVal row (planePointOf n d) < 1) ∧
    (∀ P, V3.dot n P = d → rowVal row P = rowVal row (planePointOf n d)) := by
  have hpp : V3.dot n (planePointOf n d) = d := by
    simp only [V3.dot_def, planePointOf] at hn ⊢
    linear_combination d * hn
  refine ⟨fun b cx cy hbas => faceParallel_row_skipped _ hbas hpar,
    parallel_row_check hX1 hX2 htol hchk hrow hpar hpp, ?_⟩
  intro P hP
  obtain ⟨μ, hx, hy, hz⟩ := hpar
  rw [faceParallel_const hx hy hz d P, faceParallel_const hx hy hz d (planePointOf n d),
    V3.dot_comm P, V3.dot_comm (planePointOf n d), hP, hpp]

/-- non-vacuity: the unit tetrahedron and its copy shifted by `(0,0,-1/2)`, contact plane
`z = 1/4`; row 3 of the upper one (face `z = 0`) is parallel to the plane -/
def stackT1 : Tet ℝ := ⟨⟨0, 0, 0⟩, ⟨1, 0, 0⟩, ⟨0, 1, 0⟩, ⟨0, 0, 1⟩⟩
def stackT2 : Tet ℝ := ⟨⟨0, 0, -0.5⟩, ⟨1, 0, -0.5⟩, ⟨0, 1, -0.5⟩, ⟨0, 0, 0.5⟩⟩
example : IsBaryTransform unitX stackT1 ∧ IsBaryTransform unitXdown stackT2 ∧
    V3.dot (⟨0, 0, 1⟩ : V) ⟨0, 0, 1⟩ = 1 ∧
    checkTetrahedraIntersectContactPlane stackT1 stackT2 ⟨0, 0, 1⟩ 0.25 1e-6 = true ∧
    unitX.r3 ∈ unitX.rows ++ unitXdown.rows ∧ FaceParallel unitX.r3 ⟨0, 0, 1⟩ := by
  refine ⟨?_, ?_, ?_, ?_, ?_, ?_⟩
  · constructor <;> norm_num [rowVal, V3.dot_def, unitX, stackT1]
  · constructor <;> norm_num [rowVal, V3.dot_def, unitXdown, stackT2]
  · norm_num [V3.dot_def]
  · unfold checkTetrahedraIntersectContactPlane
    simp only [Bool.and_eq_true, decide_eq_true_eq, Q4.min, Q4.max, planeDistances, min_lt_iff,
      lt_max_iff, V3.dot_def, stackT1, stackT2]
    norm_num
  · simp [X4.rows]
  · exact ⟨1, by norm_num [unitX], by norm_num [unitX], by norm_num [unitX]⟩

omit [HasAtan2 ℝ] in
/-- **C15, skipped rows that are not exactly parallel (limit of `skipped_row_coordinate_pos`).**
For a row skipped with a 2-D normal of norm in `(0, EPSILON]` the value at `plane_point` need not
be positive: a tetrahedron at `x ≈ 10¹⁶` with face 0 tilted by `10⁻¹⁶` against the plane `z = 0`
satisfies the `barycentric_transforms` contract, has vertices on both sides of the plane beyond
`1e-6`, its row 0 is skipped for the basis of `plane_basis_from_normal((0,0,1))`, and the row has
the value `-1/2` at `plane_point = (0,0,0)`.  (The bound of `vertex_inside_both_tetrahedra`,
`EPSILON · (|q₀| + |q₁|)`, is of order 1 only at such distances from `plane_point`.) -/
theorem skipped_row_value_at_plane_point_counterexample :
    ∃ (X : X4 ℝ) (t : Tet ℝ) (n cx cy : V) (d : ℝ) (b : Nat), IsBaryTransform X t ∧
      V3.dot n n = 1 ∧ planeBasisFromNormal n = .ok (b, cx, cy) ∧
      (planeDistances t n d).min < -(1e-6 : ℝ) ∧ (1e-6 : ℝ) < (planeDistances t n d).max ∧
      makeHalfplaneRow (planePointOf n d) cx cy X.r0 = none ∧ ¬ FaceParallel X.r0 n ∧
      rowVal X.r0 (planePointOf n d) < 0 := by
  obtain ⟨h1, h2, h3, h4, h5⟩ := tilt_skipped_row_negative
  refine ⟨tiltX, tiltT, ⟨0, 0, 1⟩, ⟨-1, 0, 0⟩, ⟨0, -1, 0⟩, 0, 0, tiltX_contract, ?_, planeBasis_z,
    h1, h2, h3, h4, ?_⟩
  · norm_num [V3.dot_def]
  · rw [h5]; norm_num

/-- **C15, the reported pair: parallel faces.**  On the regular exit of
`intersect_tetrahedron_pair` (branch 0), under the `barycentric_transforms` contract for both
tetrahedra, every polygon vertex has a barycentric coordinate strictly between 0 and 1 for every
row whose face is parallel to the reported contact plane (these are rows that `make_halfplanes`
skipped).  With `vertex_inside_both_tetrahedra` for the kept rows: all eight coordinates of every
vertex are `≥ -EPSILON`, except for rows skipped with a 2-D normal of norm in `(0, EPSILON]`. -/
theorem pair_parallel_face_coordinate_pos (t1 t2 : Tet ℝ) (e1 e2 : Q4 ℝ) (X1 X2 : X4 ℝ) (E1 E2 : ℝ)
    (hX1 : IsBaryTransform X1 t1) (hX2 : IsBaryTransform X2 t2)
    (r : PairResult ℝ) (h : intersectTetrahedronPair t1 e1 X1 t2 e2 X2 E1 E2 = .ok r)
    (hb : r.branch = 0) :
    ∃ poly, r.polygon = some poly ∧ ∀ P ∈ poly, ∀ row ∈ X1.rows ++ X2.rows,
      FaceParallel row r.plane.n → 0 < rowVal row P ∧ rowVal row P < 1 := by
  obtain ⟨_, hn, hchk, poly, hp, _, hall⟩ := pair_branch0 h hb
  refine ⟨poly, hp, ?_⟩
  intro P hP row hrow hpar
  exact parallel_row_check hX1 hX2 (by norm_num) hchk hrow hpar (vertexOrigin_spec hn (hall P hP)).1

end

/-- **C15, order of the tetrahedra (partial).**  Swapping the two tetrahedra flips the orientation
of the contact plane and nothing else: same exit of `contact_plane`, opposite normal, opposite
offset — the same set of points `⟨n, x⟩ = d`, hence the same `plane_point = n·d`.  (That the two
orders also produce the same vertex *set* is not proved; `vertex_on_plane` and
`vertex_inside_both_tetrahedra` hold for either order.) -/
theorem swap_contact_plane (X1 X2 : X4 ℝ) (e1 e2 : Q4 ℝ) (E1 E2 : ℝ) :
    (contactPlane X2 X1 e2 e1 E2 E1).1.n = -(contactPlane X1 X2 e1 e2 E1 E2).1.n ∧
    (contactPlane X2 X1 e2 e1 E2 E1).1.c = -(contactPlane X1 X2 e1 e2 E1 E2).1.c ∧
    (contactPlane X2 X1 e2 e1 E2 E1).2 = (contactPlane X1 X2 e1 e2 E1 E2).2 :=
  contactPlane_swap X1 X2 e1 e2 E1 E2

/-- non-vacuity of the polygon theorems: two 3-4-5 tetrahedra stacked along `z` (one face of each
parallel to the contact plane `z = 1/4`), evaluated exactly; `atan2` is replaced by a constant,
which the theorems allow. -/
def exX1 : X4 Rat := ⟨⟨⟨-3, -4, -1⟩, 1⟩, ⟨⟨3, 0, 0⟩, 0⟩, ⟨⟨0, 4, 0⟩, 0⟩, ⟨⟨0, 0, 1⟩, 0⟩⟩
def exX2 : X4 Rat := ⟨⟨⟨-3, -4, -1⟩, 0.5⟩, ⟨⟨3, 0, 0⟩, 0⟩, ⟨⟨0, 4, 0⟩, 0⟩, ⟨⟨0, 0, 1⟩, 0.5⟩⟩
def exT1 : Tet Rat := ⟨⟨0, 0, 0⟩, ⟨1/3, 0, 0⟩, ⟨0, 1/4, 0⟩, ⟨0, 0, 1⟩⟩
def exT2 : Tet Rat := ⟨⟨0, 0, -1/2⟩, ⟨1/3, 0, -1/2⟩, ⟨0, 1/4, -1/2⟩, ⟨0, 0, 1/2⟩⟩
def exE1 : Q4 Rat := ⟨0, 0, 0, 1⟩
def exE2 : Q4 Rat := ⟨1, 1, 1, 0⟩
section
/-- any function may stand in for `atan2` -/
local instance atan2Const : HasAtan2 Rat := ⟨fun _ _ => 0⟩

example : ((intersectTetrahedronPair exT1 exE1 exX1 exT2 exE2 exX2 1 1).map
    fun r => (r.branch, r.intersecting, r.plane, r.polygon.map List.length)) =
    .ok (0, true, ⟨⟨0, 0, 1⟩, 1/4⟩, some 8) := by decide +kernel

example : (computeContactPolygon exX1 exX2 ⟨0, 0, 1⟩ (1/4)).map (fun bp => (bp.1, bp.2.length)) =
    .ok (0, 8) := by decide +kernel

/-- non-vacuity of `pair_parallel_face_coordinate_pos`: in the pair above (branch 0, reported
normal `(0,0,1)`) row 3 of each transform has a face parallel to the reported plane -/
example : exX1.r3.n = ⟨0, 0, 1⟩ ∧ exX2.r3.n = ⟨0, 0, 1⟩ := by decide +kernel
end

/-- **C15, barycentric coordinates.**  If `X` satisfies the contract of
`barycentric_transforms` for the tetrahedron `t` (row `k` is `δ_kj` at vertex `j`), then a lower
bound on the four row values at `P` is a lower bound on the barycentric coordinates of `P`:
whenever `P = Σ b_j v_j`, `Σ b_j = 1`, the coordinates are `b_k = ⟨n_k, P⟩ + c_k`. -/
theorem barycentric_lower_bound (X : X4 ℝ) (t : Tet ℝ) (hX : IsBaryTransform X t) (b : Q4 ℝ)
    (P : V) (hb : IsBary t b P) (lo : ℝ) (hlo : ∀ r ∈ X.rows, lo ≤ rowVal r P) :
    lo ≤ b.a ∧ lo ≤ b.b ∧ lo ≤ b.c ∧ lo ≤ b.d := by
  obtain ⟨h0, h1, h2, h3⟩ := bary_of_contract hX hb
  rw [← h0, ← h1, ← h2, ← h3]
  exact ⟨hlo _ (by simp [X4.rows]), hlo _ (by simp [X4.rows]), hlo _ (by simp [X4.rows]),
    hlo _ (by simp [X4.rows])⟩

/-- non-vacuity: the contract holds for the exact inverse of a concrete tetrahedron -/
example : IsBaryTransform farXA farA := farXA_contract

/-! ## force -/

/-- **C15, force along the normal, non-negative pressure.**  `compute_contact_force` returns
`force = total_force · n` with `n` the reported plane normal; if the solver returns non-negative
barycentric coordinates at the centroids of the fan triangles (centroid inside tetrahedron 1) and
the potentials and Young's modulus are non-negative, then `total_force ≥ 0`. -/
theorem force_along_normal (solve : V → Q4 ℝ) (e : Q4 ℝ) (plane : Row4 ℝ) (poly : List V) (E : ℝ)
    (r : ForceResult ℝ) (h : computeContactForce solve e plane poly E = .ok r) :
    r.force = V3.smul r.totalForce plane.n ∧
    (SolveNonneg solve poly → e.Nonneg → 0 ≤ E → 0 ≤ r.totalForce) :=
  ⟨(computeContactForce_spec h).1, (computeContactForce_spec h).2.2⟩

/-- **C15, pressure bounded below.**  With the `barycentric_transforms` contract for tetrahedron 1
and the `np.linalg.solve` contract for the solver, a lower bound `lo` on the four barycentric
coordinates of every polygon vertex (`lo = -EPSILON` from `vertex_inside_both_tetrahedra`, `lo = 0`
for vertices exactly inside) bounds the integrated pressure: `total_force ≥ lo · (Σ e_k · E) · area`
for non-negative potentials and Young's modulus; in particular `total_force ≥ 0` when `lo = 0`. -/
theorem pressure_lower_bound (X : X4 ℝ) (t : Tet ℝ) (hX : IsBaryTransform X t) (solve : V → Q4 ℝ)
    (hs : SolveContract solve t) (e : Q4 ℝ) (he : e.Nonneg) (E : ℝ) (hE : 0 ≤ E) (plane : Row4 ℝ)
    (poly : List V) (lo : ℝ) (hlo : ∀ P ∈ poly, ∀ row ∈ X.rows, lo ≤ rowVal row P)
    (r : ForceResult ℝ) (h : computeContactForce solve e plane poly E = .ok r) :
    lo * ((e.a + e.b + e.c + e.d) * E) * r.area ≤ r.totalForce :=
  computeContactForce_lower X t hX solve hs e he E hE plane poly lo hlo r h

/-- non-vacuity: both contracts hold for a concrete tetrahedron with its exact inverse -/
example : IsBaryTransform farXA farA ∧ SolveContract farSolve farA :=
  ⟨farXA_contract, farSolve_contract⟩

/-- **C15, non-negative area.** -/
theorem area_nonneg (solve : V → Q4 ℝ) (e : Q4 ℝ) (plane : Row4 ℝ) (poly : List V) (E : ℝ)
    (r : ForceResult ℝ) (h : computeContactForce solve e plane poly E = .ok r) : 0 ≤ r.area :=
  (computeContactForce_spec h).2.1

/-- non-vacuity: a triangle in the plane `z = 1/4` inside the unit tetrahedron, exact solver -/
def exSolve (b : V3 Rat) : Q4 Rat := ⟨1 - b.x - b.y - b.z, b.x, b.y, b.z⟩
example : (computeContactForce exSolve (⟨1, 0, 0, 0⟩ : Q4 Rat) ⟨⟨0, 0, 1⟩, 1/4⟩
    [⟨0, 0, 1/4⟩, ⟨3/4, 0, 1/4⟩, ⟨0, 3/4, 1/4⟩] 1).map (fun r => (r.area, r.totalForce, r.force, r.nTriangles)) =
    .ok (9/32, 9/128, ⟨0, 0, 9/128⟩, 1) := by
  decide +kernel

/-! ## no polygon -/

/-- **C15, no valid point, no polygon.**  If no pair of boundary lines has an intersection that
passes the validity loop, `intersect_halfplanes` returns no point at all (so
`compute_contact_polygon` returns the empty polygon and the pair is reported as not
intersecting). -/
theorem no_valid_point_no_polygon (hps : List (HP ℝ)) (hno : ∀ p, ¬ FromPair hps p)
    (res : List (V2 ℝ)) (h : intersectHalfplanes hps = .ok res) : res = [] := by
  obtain ⟨hfrom, _⟩ := intersectHalfplanes_spec hps res h
  cases res with
  | nil => rfl
  | cons p ps => exact absurd (hfrom p List.mem_cons_self) (hno p)

/-- non-vacuity: two opposite half-planes `y ≥ 1`, `y ≤ 0` and `x ≥ 0` have no common point -/
example : intersectHalfplanes ([⟨⟨0, 1⟩, ⟨1, 0⟩⟩, ⟨⟨0, 0⟩, ⟨-1, 0⟩⟩, ⟨⟨0, 0⟩, ⟨0, -1⟩⟩] : List (HP Rat))
    = .ok [] := by decide +kernel

/-! ## the half-plane buffer -/

/-- **C15, the half-plane buffer never overflows.**  `intersect_halfplanes` reserves
`n (n-1) // 2 + 1` rows, one per pair `i < j` plus one.  For **every** list of half-planes — any
`n`, the empty list included, any number of concurrent or coincident boundary lines — the store
`points[n_intersections] = p` is in range (no `indexOOB`: no IndexError interpreted, no
out-of-bounds store under numba) and the assertion `n_intersections < len(points)` holds (no
`assertFail`); the function returns normally with at most one point per pair. -/
theorem halfplane_buffer_never_overflows (hps : List (HP ℝ)) :
    ∃ res, intersectHalfplanes hps = .ok res ∧ res.length ≤ hps.length * (hps.length - 1) / 2 :=
  intersectHalfplanes_total hps

/-- non-vacuity is immediate (no hypothesis); the extreme cases evaluated exactly: -/
example : intersectHalfplanes ([] : List (HP Rat)) = .ok [] := by decide +kernel

/-- **C15, number of points in general position.**  If no intersection point of a boundary line
`i` with a later line lies within the `EPSILON` band of a third later line (in the un-normalised
measure the code itself uses), every first index `i` has at most two partners `j > i` with a
valid intersection: at most `2 n` points are returned. -/
theorem halfplane_points_general_position (hps : List (HP ℝ)) (gp : GeneralPosition hps) :
    ∃ res, intersectHalfplanes hps = .ok res ∧ res.length ≤ 2 * hps.length :=
  intersectHalfplanes_general_position_count hps gp

/-- non-vacuity: the triangle `x ≥ 0`, `y ≥ 0`, `x + y ≤ 1` is in general position -/
example : GeneralPosition triR ∧ 1 ≤ triR.length := ⟨triR_gp, by simp [triR]⟩

/-! ### the repaired buffer defect (F-C15-halfplane-buffer): before_fix / fixed pairs -/

/-- **before the repair** (`3 n` rows): eight half-planes whose boundary lines pass through one
point with pairwise different directions have `C(8,2) = 28` valid intersections; the 25th write
was out of range of the 24-row buffer: `indexOOB` (IndexError interpreted, an out-of-bounds store
under numba — the Python `assert` comes after the loop). -/
theorem halfplane_buffer_overflow_before_fix :
    intersectHalfplanes_asIs_before_fix hps8 = .error .indexOOB := hps8_overflow_before_fix

/-- **after the repair** the same input returns the 28 pairwise intersections (28 copies of the
common point; `order_points` / `filter_unique_points` reduce them afterwards) -/
theorem halfplane_buffer_overflow_fixed :
    intersectHalfplanes hps8 = .ok (List.replicate 28 ⟨0, 0⟩) := hps8_fixed

/-- **before the repair**: seven such half-planes wrote exactly `21 = 3·7` rows and failed the
strict assertion; the empty list failed it too (`0 < 0`) -/
theorem halfplane_buffer_assert_before_fix :
    intersectHalfplanes_asIs_before_fix hps7 = .error .assertFail ∧
    intersectHalfplanes_asIs_before_fix ([] : List (HP ℝ)) = .error .assertFail :=
  ⟨hps7_assert_before_fix, empty_assert_before_fix⟩

/-- **after the repair**: both return normally -/
theorem halfplane_buffer_assert_fixed :
    intersectHalfplanes hps7 = .ok (List.replicate 21 ⟨0, 0⟩) ∧
    intersectHalfplanes ([] : List (HP ℝ)) = .ok [] :=
  ⟨hps7_fixed, empty_fixed⟩

/-- before the repair, general form: any number of half-planes through one point, pairwise not
flagged parallel, with more than `3 n` pairs -/
theorem halfplane_buffer_overflow_general_before_fix (hps : List (HP ℝ)) (ho : ThroughOrigin hps)
    (hc : PairwiseCrossing hps) (hbig : 3 * hps.length < (pairIdx hps.length).length) :
    intersectHalfplanes_asIs_before_fix hps = .error .indexOOB :=
  concurrent_overflow_before_fix hps ho hc hbig

/-- non-vacuity of the general form: the eight half-planes above -/
example : ThroughOrigin hps8 ∧ PairwiseCrossing hps8 ∧ 3 * hps8.length < (pairIdx hps8.length).length :=
  ⟨throughOrigin_int dirs8, pairwiseCrossing_int dirs8 (by decide), by simp only [hps8, List.length_map]; decide⟩

/-- before the repair the `3 n` row buffer did suffice in general position (`n ≥ 1`) … -/
theorem halfplane_buffer_before_fix_sufficient_partial (hps : List (HP ℝ)) (h1 : 1 ≤ hps.length)
    (gp : GeneralPosition hps) :
    ∃ res, intersectHalfplanes_asIs_before_fix hps = .ok res ∧ res.length ≤ 2 * hps.length :=
  intersectHalfplanes_before_fix_ok_general_position hps h1 gp

/-- … and for at most six half-planes (`n (n - 1) / 2 < 3 n`) -/
theorem halfplane_buffer_before_fix_sufficient_small (hps : List (HP ℝ)) (h1 : 1 ≤ hps.length)
    (h6 : hps.length ≤ 6) : ∃ res, intersectHalfplanes_asIs_before_fix hps = .ok res :=
  intersectHalfplanes_before_fix_ok_of_le_six hps h1 h6

example : (1 : Nat) ≤ exTriangle.length ∧ exTriangle.length ≤ 6 := by decide

/-! ## recorded defects on the faithful model -/

/-- **The repaired `make_halfplanes` defect.**  Two unit tetrahedra stacked along `z`, contact
plane `z = 1/4` (rows 3 and 7 are faces parallel to the plane and are skipped).  The code as it
is now returns the six written rows.  The indexing before the repair commit
(`halfplanes[i] = …; return halfplanes[:hp_idx]`) returned the uninitialised row 3 (`g`, the
content of `np.empty`) in their middle and dropped the written row 6. -/
theorem makeHalfplanes_asIs_before_fix_gap :
    ∃ h0 h1 h2 h4 h5 h6 : HP ℝ,
      makeHalfplaneRow stackPP stackCx stackCy unitXdown.r2 = some h6 ∧
      makeHalfplanes stackRows stackPP stackCx stackCy = [h0, h1, h2, h4, h5, h6] ∧
      ∀ g : HP ℝ, makeHalfplanes_asIs_before_fix g stackRows stackPP stackCx stackCy =
        [h0, h1, h2, g, h4, h5] :=
  stack_before_fix_gap

/-- **The "same tetrahedron" exit, as is.**  Two tetrahedra eight units apart (`x ≤ -4` and
`x ≥ 4`), exact barycentric transforms, potential 1 at the facing vertices: the equal-pressure
plane is `x = 0`, its offset `0` is below `10·EPSILON`, `contact_plane` answers "same", and
`intersect_tetrahedron_pair` reports an intersection with the plane `x = 4` and the polygon
`(4,0,0) ×3` — a point whose first barycentric coordinate in tetrahedron 1 is `-8`. -/
theorem same_branch_asIs_counterexample [HasAtan2 ℝ] :
    IsBaryTransform farXA farA ∧ IsBaryTransform farXB farB ∧
    (∀ v ∈ [farA.v0, farA.v1, farA.v2, farA.v3], v.x ≤ -4) ∧
    (∀ v ∈ [farB.v0, farB.v1, farB.v2, farB.v3], 4 ≤ v.x) ∧
    ∃ r, intersectTetrahedronPair farA farE farXA farB farE farXB 1 1 = .ok r ∧
      r.intersecting = true ∧ r.polygon = some [⟨4, 0, 0⟩, ⟨4, 0, 0⟩, ⟨4, 0, 0⟩] ∧
      rowVal farXA.r0 ⟨4, 0, 0⟩ = -8 := by
  refine ⟨farXA_contract, farXB_contract, ?_, ?_, ?_⟩
  · intro v hv
    simp only [List.mem_cons, List.not_mem_nil, or_false] at hv
    rcases hv with rfl | rfl | rfl | rfl <;> norm_num [farA]
  · intro v hv
    simp only [List.mem_cons, List.not_mem_nil, or_false] at hv
    rcases hv with rfl | rfl | rfl | rfl <;> norm_num [farB]
  · obtain ⟨r, h, hi, hp, _⟩ := far_pair
    refine ⟨r, h, hi, hp, ?_⟩
    norm_num [rowVal, V3.dot_def, farXA]

end C15
end D3
