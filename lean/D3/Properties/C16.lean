/-
C16 — hydroelastic contact forces: action–reaction, frame invariance, reproducibility under
re-expression histories, equality of the two broad phases.

Property theorems only (helper lemmas live in D3/Proofs/HydroForce*.lean).  Model:
`D3/Model/HydroForce.lean` (faithful to `_interface.py`, `_forces.py`, `_rigid_body.py`,
`utils.py` as they are NOW; the pre-repair `_transform_wrenches` and `use_aabb_trees` call site are
kept as `…_asIs_before_fix`).  The per-pair narrow phase (C15) is an abstract parameter
`pairFn : PairFn ℝ` — any function of the two tetrahedra (coordinates in the frame of body 2) and
their potentials; every theorem below holds for every such function unless a contract is stated.

What is NOT a theorem: the "within 5 % of the force magnitude" clauses of the property.  In the
exact-real model repeated calls and common rigid motions reproduce the result *exactly*
(`history_reproduces`, `repeat_reproduces`, `common_motion_equivariant`); the 5 % allowance is for
what the narrow phase does in floating point (tolerance decisions of the polygon routine, C15) and
is checked only by the search oracle on the real code.  The swap statement is exact only under a
contract on the narrow phase that belongs to C15 (`swap_exact_of_contract`: forces and flag; the
contract itself and the torque part are not proved).
-/
import D3.Proofs.HydroForceSwap
import D3.Properties.C05
import Mathlib.Tactic.NormNum

set_option linter.unusedSimpArgs false

namespace D3
namespace C16
open Aabb HydroForce

/-! ## 1. Action–reaction and the wrench transform -/

/-- **C16, action–reaction (after the repair).** For every contact list, every pose of body 2
(any matrix, any translation) and any two centres of mass, the world-frame force of body 1 on
body 2 is exactly the negative of the force of body 2 on body 1. -/
theorem action_reaction (P : Pose ℝ) (cs : List (Contact ℝ)) (com1 com2 : V) :
    (accumulateWrenchesAt P cs com1 com2).1.f = -(accumulateWrenchesAt P cs com1 com2).2.f :=
  transformWrenches_action_reaction _ _ _ _

/-- **C16, action–reaction of `contact_forces`.** Whatever the narrow phase, the bodies and the
state of their caches: if the call returns, `f12 = −f21`. -/
theorem contact_forces_action_reaction (pairFn : PairFn ℝ) (b1 b2 b1' b2' : Body ℝ)
    (r : ForceResult ℝ) (h : contactForces pairFn b1 b2 = .ok (r, b1', b2')) :
    r.wrench12.f = -r.wrench21.f := by
  unfold contactForces at h
  cases hf : findContactSurface pairFn b1 b2 with
  | error e => simp [hf, bind, Except.bind] at h
  | ok x =>
    obtain ⟨surf, c1, c2⟩ := x
    simp only [hf, bind, Except.bind] at h
    unfold accumulateWrenches at h
    cases hc1 : c1.com with
    | error e => simp [hc1, bind, Except.bind] at h
    | ok y =>
      obtain ⟨com1, d1⟩ := y
      cases hc2 : c2.com with
      | error e => simp [hc1, hc2, bind, Except.bind] at h
      | ok z =>
        obtain ⟨com2, d2⟩ := z
        simp only [hc1, hc2, bind, Except.bind, pure, Except.pure, Except.ok.injEq, Prod.mk.injEq] at h
        obtain ⟨rfl, _, _⟩ := h
        exact action_reaction _ _ _ _

/-- **C16, what the world-frame wrench is.** `force_world = R · Σ forces`,
`torque_world = R · (torque about the centre of mass, in the frame of body 2)`. -/
theorem world_force_is_rotated (P : Pose ℝ) (cs : List (Contact ℝ)) (com1 com2 : V) :
    accumulateWrenchesAt P cs com1 com2 =
      (⟨P.R.mulVec (-(totalForce21 cs)), P.R.mulVec (totalTorque12 cs com2)⟩,
       ⟨P.R.mulVec (totalForce21 cs), P.R.mulVec (totalTorque21 cs com1)⟩) := rfl

/-- **C16, the rotated torque is the world-frame torque.** For a proper rotation (orthonormal,
determinant 1) the returned torque equals the torque of the world-frame forces `R f_k` applied at
the world-frame contact points `P c_k` about the world-frame centre of mass `P com1`; so rotating
by `R` alone (no translation term) is the physically correct frame change. -/
theorem world_torque_about_world_com (P : Pose ℝ) (hR : Orthonormal P.R) (hd : det3 P.R = 1)
    (cs : List (Contact ℝ)) (com1 com2 : V) :
    (accumulateWrenchesAt P cs com1 com2).2.t =
      sumV (cs.map fun c => V3.cross (P.apply c.com - P.apply com1) (P.R.mulVec c.force)) := by
  show P.R.mulVec (totalTorque21 cs com1) = _
  unfold totalTorque21
  rw [← sumV_map_mulVec, List.map_map]
  congr 1
  apply List.map_congr_left
  intro c _
  simp only [Function.comp]
  rw [apply_sub_apply, cross_mulVec hR hd]

/-- body 2 rotated by the 3-4-5 rotation about z and translated by (1,2,3) -/
noncomputable def cexPose : Pose ℝ := ⟨⟨⟨0.6, -0.8, 0⟩, ⟨0.8, 0.6, 0⟩, ⟨0, 0, 1⟩⟩, ⟨1, 2, 3⟩⟩
/-- one contact at the origin of frame 2 pushing along z -/
noncomputable def cexContact : Contact ℝ := ⟨0, 0, ⟨0, 0, 0⟩, ⟨0, 0, 1⟩⟩
noncomputable def cexCom1 : V := ⟨1, 0, 0⟩
noncomputable def cexCom2 : V := ⟨-1, 0, 0⟩

theorem cexPose_orthonormal : Orthonormal cexPose.R := by
  constructor <;> norm_num [cexPose, V3.dot_def, M3.col0, M3.col1, M3.col2]

theorem cexPose_det : det3 cexPose.R = 1 := by
  norm_num [cexPose, det3, V3.dot_def, V3.cross]

/-- **C16, defect before the repair (F6).** With the transposed twist adjoint
`force_world = Rᵀ f − Rᵀ (p × τ)`: in general `f12 + f21 = −Rᵀ (p × (τ12 + τ21))`. -/
theorem wrench_asIs_before_fix_sum (P : Pose ℝ) (cs : List (Contact ℝ)) (com1 com2 : V) :
    (accumulateWrenchesAt_asIs_before_fix P cs com1 com2).1.f +
      (accumulateWrenchesAt_asIs_before_fix P cs com1 com2).2.f =
      -(P.R.tmulVec (V3.cross P.t (totalTorque12 cs com2 + totalTorque21 cs com1))) :=
  transformWrenches_asIs_before_fix_sum _ _ _ _

/-- **C16, counterexample before the repair.** Proper rotation (3-4-5 about z), translation
(1,2,3), one contact with non-zero torque sum: the old formula gives `f12 ≠ −f21`
(`f12 + f21 = (3.6, −4.8, −2)`), the repaired one gives `f12 = −f21`. -/
theorem wrench_asIs_before_fix_counterexample :
    (accumulateWrenchesAt_asIs_before_fix cexPose [cexContact] cexCom1 cexCom2).1.f ≠
      -(accumulateWrenchesAt_asIs_before_fix cexPose [cexContact] cexCom1 cexCom2).2.f ∧
    (accumulateWrenchesAt cexPose [cexContact] cexCom1 cexCom2).1.f =
      -(accumulateWrenchesAt cexPose [cexContact] cexCom1 cexCom2).2.f := by
  refine ⟨?_, action_reaction _ _ _ _⟩
  intro h
  have hs := wrench_asIs_before_fix_sum cexPose [cexContact] cexCom1 cexCom2
  rw [h] at hs
  have hz := congrArg V3.z hs
  simp only [V3.add_z, V3.neg_z] at hz
  norm_num [cexPose, cexContact, cexCom1, cexCom2, totalTorque12, totalTorque21, sumV, M3.tmulVec,
    M3.col0, M3.col1, M3.col2, V3.dot_def, V3.cross, V3.zero] at hz

/-- before the repair the force was also rotated by `Rᵀ` instead of `R` -/
theorem wrench_asIs_before_fix_rotated_by_transpose (P : Pose ℝ) (f t12 t21 : V) :
    (transformWrenches_asIs_before_fix P f t12 t21).2 =
      ⟨P.R.tmulVec f + -(P.R.tmulVec (V3.cross P.t t21)), P.R.tmulVec t21⟩ :=
  transformWrenches_asIs_before_fix_snd P f t12 t21

/-- for the identity pose of body 2 (all upstream fixtures) old and new formula agree, which is
why the suite could not see the defect -/
theorem wrench_asIs_before_fix_identity_pose (f t12 t21 : V) :
    transformWrenches_asIs_before_fix (Pose.id : Pose ℝ) f t12 t21 =
      transformWrenches (Pose.id : Pose ℝ) f t12 t21 :=
  transformWrenches_asIs_before_fix_identity f t12 t21

/-- **C16, defect before the repair (F7).** `use_aabb_trees=True` raised `AttributeError` on
every input. -/
theorem use_aabb_trees_asIs_before_fix_attrErr (pairFn : PairFn ℝ) (b1 b2 : Body ℝ) :
    findContactSurface_asIs_before_fix pairFn b1 b2 true = .error .attrErr := rfl

/-! ## 2. `express_in` -/

/-- **C16, `express_in`.** The new vertices are `new⁻¹ (pose v)` (any matrices), all four
caches are reset, pose := new pose, tetrahedra and potentials untouched. -/
theorem express_in_spec (b : Body ℝ) (N : Pose ℝ) :
    (b.expressIn N).verts = b.verts.map (fun v => N.applyInv (b.pose.apply v)) ∧
    (b.expressIn N).pose = N ∧ (b.expressIn N).tets = b.tets ∧ (b.expressIn N).pots = b.pots ∧
    (b.expressIn N).cTetPts = none ∧ (b.expressIn N).cCom = none ∧
    (b.expressIn N).cAabbs = none ∧ (b.expressIn N).cTree = none :=
  ⟨expressIn_verts b N, rfl, rfl, rfl, rfl, rfl, rfl, rfl⟩

/-- **C16, world-frame vertices are invariant under `express_in`** (orthonormal new frame):
`body2origin · vertices` is the same before and after. -/
theorem express_in_world_invariant (b : Body ℝ) (N : Pose ℝ) (hN : Orthonormal N.R) :
    (b.expressIn N).verts.map (b.expressIn N).pose.apply = b.verts.map b.pose.apply :=
  expressIn_worldVerts b N hN

/-- **C16, re-expressing twice = re-expressing once in the last frame** (orthonormal
intermediate frame): the bodies are equal field by field, caches included. -/
theorem express_in_composes (b : Body ℝ) (A B : Pose ℝ) (hA : Orthonormal A.R) :
    (b.expressIn A).expressIn B = b.expressIn B := by
  apply Body.ext' <;> try rfl
  rw [expressIn_verts, expressIn_verts, expressIn_verts, List.map_map]
  apply List.map_congr_left
  intro v _
  exact reexpress_reexpress b.pose A B hA v

/-- **C16, round trip.** Re-expressing in the frame the body is already in changes nothing
but the caches (orthonormal frame); in particular the second `express_in` of a repeated
`contact_forces` call is the identity on the vertices. -/
theorem express_in_roundtrip (b : Body ℝ) (N : Pose ℝ) (hN : Orthonormal N.R) :
    ((b.expressIn N).expressIn N).verts = (b.expressIn N).verts ∧
    (b.expressIn N).expressIn N = b.expressIn N :=
  ⟨by rw [express_in_composes b N N hN], express_in_composes b N N hN⟩

/-- **C16, `express_in` leaves a coherent body** whatever the caches held before. -/
theorem express_in_resets_caches (b : Body ℝ) (N : Pose ℝ) : (b.expressIn N).CacheOk :=
  expressIn_cacheOk b N

/-! ## 3. State threading = cache-free computation -/

/-- **C16, caches are transparent.** For a coherent body 2 (fresh, or left by earlier calls),
`contact_forces` with all its cache reads returns exactly the cache-free value (same error on
failure), and leaves two coherent bodies: body 1 with the data of `b1.expressIn b2.pose`, body 2
with unchanged data. -/
theorem contact_forces_caches_transparent (pairFn : PairFn ℝ) (b1 b2 : Body ℝ) (h2 : b2.CacheOk) :
    (∀ e, contactForcesPure pairFn b1 b2 = .error e → contactForces pairFn b1 b2 = .error e) ∧
    (∀ r, contactForcesPure pairFn b1 b2 = .ok r → ∃ b1' b2',
      contactForces pairFn b1 b2 = .ok (r, b1', b2') ∧ b1'.SameData (b1.expressIn b2.pose) ∧
      b2'.SameData b2 ∧ b1'.CacheOk ∧ b2'.CacheOk) := by
  have h := contactForces_spec pairFn b1 b2 h2
  constructor
  · intro e he
    rw [he] at h
    exact h
  · intro r hr
    exact h.exists_of_ok hr

/-! ## 4. Histories: repeated and interleaved calls -/

/-- **C16, any history of re-expressions is invisible.** If body 1 has been re-expressed in
any sequence of orthonormal frames (earlier `contact_forces` calls against any bodies), the next
`contact_forces(b1, b2)` gives exactly the result it would have given on the original body 1. -/
theorem history_reproduces (pairFn : PairFn ℝ) (b1 b2 : Body ℝ) (Ns : List (Pose ℝ))
    (hNs : ∀ N ∈ Ns, Orthonormal N.R) :
    contactForcesPure pairFn (Ns.foldl Body.expressIn b1) b2 = contactForcesPure pairFn b1 b2 := by
  obtain ⟨h1, h2, h3⟩ := history_worldVerts Ns b1 hNs
  exact contactForcesPure_congr_world pairFn _ _ b2 h1 h2 h3

/-- **C16, repeating the call on the same (mutated) body objects reproduces the result
exactly** (exact arithmetic; orthonormal pose of body 2, coherent body 2). -/
theorem repeat_reproduces (pairFn : PairFn ℝ) (b1 b2 b1' b2' : Body ℝ) (r : ForceResult ℝ)
    (h2 : b2.CacheOk) (hP : Orthonormal b2.pose.R)
    (h : contactForces pairFn b1 b2 = .ok (r, b1', b2')) :
    ∃ b1'' b2'', contactForces pairFn b1' b2' = .ok (r, b1'', b2'') := by
  obtain ⟨hp, sd1, sd2, _, ok2⟩ := (contactForces_spec pairFn b1 b2 h2).ok_of_ok h
  have hs := contactForces_spec pairFn b1' b2' ok2
  have e : contactForcesPure pairFn b1' b2' = .ok r := by
    rw [contactForcesPure_congr_right pairFn b1' b2 b2' sd2, ← hp]
    have hw : b1'.worldVerts = b1.worldVerts := by
      have : b1'.worldVerts = (b1.expressIn b2.pose).worldVerts := by
        unfold Body.worldVerts; rw [sd1.verts, sd1.pose]
      rw [this, expressIn_worldVerts b1 b2.pose hP]
    exact contactForcesPure_congr_world pairFn b1' b1 b2 hw sd1.tets sd1.pots
  obtain ⟨x, y, hm, _⟩ := hs.exists_of_ok e
  exact ⟨x, y, hm⟩

/-! ## 5. Common rigid motion -/

/-- **C16, frame-2 coordinates are invariant under a common rigid motion.** Moving both
bodies by the same orthonormal `g` leaves the vertices of body 1 in the frame of body 2 unchanged,
hence — the narrow phase being a function of these coordinates only — the whole contact list in
the frame of body 2 (contact points, force vectors, index pairs), for both broad phases. -/
theorem common_motion_same_contacts (pairFn : PairFn ℝ) (b1 b2 : Body ℝ) (g : Pose ℝ)
    (hg : Orthonormal g.R) (useAabbTrees : Bool) :
    ((b1.moved g).expressIn (b2.moved g).pose).verts = (b1.expressIn b2.pose).verts ∧
    contactsPure pairFn (b1.moved g) (b2.moved g) useAabbTrees = contactsPure pairFn b1 b2 useAabbTrees := by
  have hv : ((b1.moved g).expressIn (matMul4 g b2.pose)).verts = (b1.expressIn b2.pose).verts :=
    expressIn_moved_verts g hg b1 b2
  refine ⟨hv, ?_⟩
  unfold contactsPure
  simp only [moved_pose, hv, expressIn_tets, expressIn_pots, moved_verts, moved_tets, moved_pots]

/-- **C16, common rigid motion.** Moving both bodies by one rigid motion `g` rotates both
world-frame wrenches (forces and torques) by `g`'s rotation and leaves the intersection flag
unchanged — exactly, in the model; failures are the same failures. -/
theorem common_motion_equivariant (pairFn : PairFn ℝ) (b1 b2 : Body ℝ) (g : Pose ℝ)
    (hg : Orthonormal g.R) :
    contactForcesPure pairFn (b1.moved g) (b2.moved g) =
      (contactForcesPure pairFn b1 b2).map (ForceResult.rotate g.R) := by
  have hv : ((b1.moved g).expressIn (matMul4 g b2.pose)).verts = (b1.expressIn b2.pose).verts :=
    expressIn_moved_verts g hg b1 b2
  unfold contactForcesPure forcesCore
  simp only [moved_pose, hv, expressIn_tets, expressIn_pots, moved_verts, moved_tets, moved_pots, moved_pose]
  generalize (b1.expressIn b2.pose).verts = v1
  cases contactsCore pairFn v1 b1.tets b1.pots b2.verts b2.tets b2.pots false with
  | error e => rfl
  | ok cs =>
    cases comOf v1 b1.tets with
    | error e => rfl
    | ok com1 =>
      cases comOf b2.verts b2.tets with
      | error e => rfl
      | ok com2 =>
        simp only [bind, Except.bind, pure, Except.pure, Except.map, accumulateWrenchesAt_moved,
          ForceResult.rotate]

/-- the same on the real call with its caches: if `contact_forces(b1, b2)` returns `r` then
`contact_forces(g·b1, g·b2)` returns `r` rotated by `g` -/
theorem common_motion_equivariant_stateful (pairFn : PairFn ℝ) (b1 b2 b1' b2' : Body ℝ)
    (g : Pose ℝ) (hg : Orthonormal g.R) (h2 : b2.CacheOk) (r : ForceResult ℝ)
    (h : contactForces pairFn b1 b2 = .ok (r, b1', b2')) :
    ∃ c1 c2, contactForces pairFn (b1.moved g) (b2.moved g) = .ok (r.rotate g.R, c1, c2) := by
  obtain ⟨hp, _⟩ := (contactForces_spec pairFn b1 b2 h2).ok_of_ok h
  have hs := contactForces_spec pairFn (b1.moved g) (b2.moved g) (moved_cacheOk h2 g)
  have e : contactForcesPure pairFn (b1.moved g) (b2.moved g) = .ok (r.rotate g.R) := by
    rw [common_motion_equivariant pairFn b1 b2 g hg, hp]; rfl
  obtain ⟨x, y, hm, _⟩ := hs.exists_of_ok e
  exact ⟨x, y, hm⟩

/-! ## 5b. Swapping the bodies -/

/-- **C16, swap — exact under a contract on the narrow phase.** `contact_forces(b2, b1)` works
in the frame of body 1 with a differently enumerated broad phase and with the roles of the two
pressure fields exchanged, so nothing is exact for an arbitrary narrow phase. IF the narrow phase
satisfies `PairContract` (rigid-motion equivariance; exchanging the two tetrahedra keeps the
contact point and negates the force; tetrahedra with disjoint boxes are never reported) THEN, for
orthonormal poses, the world-frame forces are exactly swapped and the intersection flag is
unchanged. The contract is a statement about C15 and is NOT proved for the real narrow phase
(in floating point it fails at tolerance decisions — that is the 5 % of the property); the torque
part additionally needs the rigid-motion equivariance of the centre of mass and is not proved. -/
theorem swap_exact_of_contract (pairFn : PairFn ℝ) (hc : PairContract pairFn) (b1 b2 : Body ℝ)
    (h1 : Orthonormal b1.pose.R) (h2 : Orthonormal b2.pose.R) (rA rB : ForceResult ℝ)
    (hA : contactForcesPure pairFn b1 b2 = .ok rA) (hB : contactForcesPure pairFn b2 b1 = .ok rB) :
    rB.wrench21.f = rA.wrench12.f ∧ rB.wrench12.f = rA.wrench21.f ∧ rB.intersection = rA.intersection := by
  unfold contactForcesPure at hA hB
  obtain ⟨csA, cA, fA21, fA12, iA⟩ := forcesCore_ok hA
  obtain ⟨csB, cB, fB21, fB12, iB⟩ := forcesCore_ok hB
  have hs := swap_total_force hc b1 b2 h1 h2 csA csB cA cB
  have hf := swap_flag hc b1 b2 h1 h2 csA csB cA cB
  refine ⟨?_, ?_, ?_⟩
  · rw [fB21, fA12, hs, V3.neg_neg']
  · rw [fB12, fA21, hs]
  · rw [iA, iB]
    cases csA <;> cases csB <;> simp_all

/-! ## 6. Broad phase -/

/-- **C16, brute force enumerates exactly the overlapping index pairs, each once.** -/
theorem brute_force_exact (a1 a2 : List (Box ℝ)) :
    (broadBrute a1 a2).Nodup ∧ ∀ i j, (i, j) ∈ broadBrute a1 a2 ↔
      ∃ b1 b2, a1[i]? = some b1 ∧ a2[j]? = some b2 ∧ overlap b1 b2 = true :=
  ⟨allPairs_nodup a1 a2, mem_allPairs a1 a2⟩

/-- **C16, tree broad phase = brute-force broad phase as sets.** For two trees accepted by the
C05 well-formedness check whose leaf `k` carries `aabbs[k]` (the check `leavesMatch` the harness
runs, in Lean, on the arrays dumped from the implementation), `overlaps_aabb_tree` cannot raise and
returns a permutation of the brute-force pair list: the same set of tetrahedron pairs, each once. -/
theorem broad_phase_same_pairs (a1 a2 : List (Box ℝ)) (c1 c2 : Core ℝ) (t1 t2 : T ℝ)
    (h1 : wfCheck c1 = some (some t1)) (h2 : wfCheck c2 = some (some t2))
    (l1 : leavesMatch t1 a1 = true) (l2 : leavesMatch t2 a2 = true) :
    ∃ ps, broadTree c1 c2 = .ok ps ∧ ps.Nodup ∧ ps.Perm (broadBrute a1 a2) ∧
      ∀ i j, (i, j) ∈ ps ↔ (i, j) ∈ broadBrute a1 a2 := by
  obtain ⟨res, hq, hnd, hmem⟩ := C05.query_tree_exact c1 c2 t1 t2 h1 h2
  have L1 := leavesMatch_sound t1 a1 l1
  have L2 := leavesMatch_sound t2 a2 l2
  have hnn : ∀ p ∈ res, 0 ≤ p.1 ∧ 0 ≤ p.2 := by
    rintro ⟨i, j⟩ hp
    obtain ⟨bi, bj, hi, hj, _⟩ := (hmem i j).mp hp
    obtain ⟨k, rfl, _⟩ := (L1 i bi).mp hi
    obtain ⟨k', rfl, _⟩ := (L2 j bj).mp hj
    exact ⟨Int.natCast_nonneg k, Int.natCast_nonneg k'⟩
  have hps : broadTree c1 c2 = .ok (res.map fun p => (p.1.toNat, p.2.toNat)) := by
    simp only [broadTree, hq, bind, Except.bind]
    exact pairsToNat_ok res hnn
  have hmem' : ∀ i j : Nat, (i, j) ∈ (res.map fun p : Int × Int => (p.1.toNat, p.2.toNat)) ↔
      (i, j) ∈ broadBrute a1 a2 := by
    intro i j
    rw [broadBrute, mem_allPairs]
    constructor
    · intro hm
      obtain ⟨⟨i', j'⟩, hp, he⟩ := List.mem_map.mp hm
      obtain ⟨bi, bj, hi, hj, ho⟩ := (hmem i' j').mp hp
      obtain ⟨k, rfl, hk⟩ := (L1 i' bi).mp hi
      obtain ⟨k', rfl, hk'⟩ := (L2 j' bj).mp hj
      simp only [Int.toNat_natCast, Prod.mk.injEq] at he
      obtain ⟨rfl, rfl⟩ := he
      exact ⟨bi, bj, hk, hk', ho⟩
    · rintro ⟨b1, b2, hb1, hb2, ho⟩
      have hi := (L1 (i : Int) b1).mpr ⟨i, rfl, hb1⟩
      have hj := (L2 (j : Int) b2).mpr ⟨j, rfl, hb2⟩
      have := (hmem (i : Int) (j : Int)).mpr ⟨b1, b2, hi, hj, ho⟩
      exact List.mem_map.mpr ⟨((i : Int), (j : Int)), this, by simp⟩
  have hnd' : (res.map fun p : Int × Int => (p.1.toNat, p.2.toNat)).Nodup := by
    apply List.Nodup.map_on _ hnd
    rintro ⟨i, j⟩ hp ⟨i', j'⟩ hp' he
    obtain ⟨h0, h0'⟩ := hnn _ hp
    obtain ⟨h1', h1''⟩ := hnn _ hp'
    simp only [Prod.mk.injEq] at he ⊢
    constructor
    · have := he.1; simp only at h0 h1'; omega
    · have := he.2; simp only at h0' h1''; omega
  refine ⟨_, hps, hnd', ?_, hmem'⟩
  have hb : (broadBrute a1 a2).Nodup := allPairs_nodup a1 a2
  rw [List.perm_ext_iff_of_nodup hnd' hb]
  rintro ⟨i, j⟩
  exact hmem' i j

/-- **C16, defect of the tree broad phase before the repair.** With `use_aabb_trees=True` the
broad phase never returned the empty pair list: when no two boxes overlap it raised (`np.unique`
of an empty float array used as an index) although the brute-force branch returns the empty list;
so "same set of pairs" failed exactly for non-overlapping bodies. Repaired in /repo
("overlaps_aabb_tree returned float index arrays when nothing overlaps"). -/
theorem tree_broad_phase_asIs_before_fix_empty_raises (v1 v2 : List V)
    (t1 t2 : List (Nat × Nat × Nat × Nat)) :
    broadCore_asIs_before_fix v1 t1 v2 t2 true ≠ .ok [] ∧
    (∀ c1 c2, treeOf v1 t1 = .ok c1 → treeOf v2 t2 = .ok c2 → broadTree c1 c2 = .ok [] →
      broadCore_asIs_before_fix v1 t1 v2 t2 true = .error .indexOOB ∧
      broadCore v1 t1 v2 t2 true = .ok []) := by
  constructor
  · simp only [broadCore_asIs_before_fix, if_true]
    cases treeOf v1 t1 with
    | error e => simp [bind, Except.bind]
    | ok c1 =>
      cases treeOf v2 t2 with
      | error e => simp [bind, Except.bind]
      | ok c2 =>
        cases hb : broadTree c1 c2 with
        | error e => simp [bind, Except.bind, hb]
        | ok ps =>
          cases ps with
          | nil => simp [bind, Except.bind, hb]
          | cons p ps => simp [bind, Except.bind, pure, Except.pure, hb]
  · intro c1 c2 h1 h2 h3
    constructor
    · simp [broadCore_asIs_before_fix, h1, h2, h3, bind, Except.bind]
    · simp [broadCore, h1, h2, h3, bind, Except.bind]

/-- **C16, same pair set ⇒ same contacts and same wrenches.** If the broad-phase pair lists
are permutations of each other (previous theorem) and all pairs index existing tetrahedra, the
narrow-phase results are permutations of each other, the intersection flags agree and the
accumulated wrenches are equal. -/
theorem broad_phase_same_wrenches (pairFn : PairFn ℝ) (tp1 : List (Tet ℝ)) (ep1 : List (Eps ℝ))
    (tp2 : List (Tet ℝ)) (ep2 : List (Eps ℝ)) (ps ps' : List (Nat × Nat)) (hperm : ps.Perm ps')
    (hv : ∀ p ∈ ps', p.1 < tp1.length ∧ p.1 < ep1.length ∧ p.2 < tp2.length ∧ p.2 < ep2.length)
    (P : Pose ℝ) (com1 com2 : V) :
    ∃ cs cs', narrowPhase pairFn tp1 ep1 tp2 ep2 ps = .ok cs ∧
      narrowPhase pairFn tp1 ep1 tp2 ep2 ps' = .ok cs' ∧ cs.Perm cs' ∧
      cs.isEmpty = cs'.isEmpty ∧
      accumulateWrenchesAt P cs com1 com2 = accumulateWrenchesAt P cs' com1 com2 := by
  have hv' : ∀ p ∈ ps, p.1 < tp1.length ∧ p.1 < ep1.length ∧ p.2 < tp2.length ∧ p.2 < ep2.length :=
    fun p hp => hv p (hperm.mem_iff.mp hp)
  have hp := hperm.filterMap (lookPair pairFn tp1 ep1 tp2 ep2)
  refine ⟨_, _, narrowPhase_ok pairFn tp1 ep1 tp2 ep2 ps hv', narrowPhase_ok pairFn tp1 ep1 tp2 ep2 ps' hv,
    hp, ?_, accumulateWrenchesAt_perm P hp com1 com2⟩
  have := hp.length_eq
  cases h1 : List.filterMap (lookPair pairFn tp1 ep1 tp2 ep2) ps <;>
    cases h2 : List.filterMap (lookPair pairFn tp1 ep1 tp2 ep2) ps' <;> simp_all

/-! ## 7. Non-vacuity: the hypotheses are satisfiable and the model runs on concrete input -/

/-- an orthonormal, proper, non-trivial rigid motion exists (3-4-5 rotation, translation (1,2,3)) -/
example : Orthonormal cexPose.R ∧ det3 cexPose.R = 1 := ⟨cexPose_orthonormal, cexPose_det⟩

/-- a fresh body is coherent, so `CacheOk b2` is satisfiable for every mesh -/
example (pose : Pose ℝ) (verts : List V) (tets : List (Nat × Nat × Nat × Nat)) (pots : List ℝ) :
    (Body.mk' pose verts tets pots).CacheOk := mk'_cacheOk pose verts tets pots

/-- a non-trivial narrow phase satisfying the contract: tetrahedra sharing their first vertex
touch there and push along the difference of their second vertices -/
noncomputable def exContractPair : PairFn ℝ := fun t1 _ t2 _ =>
  open Classical in if t1.p0 = t2.p0 then some (t1.p0, t2.p1 - t1.p1) else none

theorem min4_le_first (a b c d : ℝ) : min4 a b c d ≤ a := by
  unfold min4; exact le_trans (min_le_left _ _) (le_trans (min_le_left _ _) (min_le_left _ _))
theorem first_le_max4 (a b c d : ℝ) : a ≤ max4 a b c d := by
  unfold max4; exact le_trans (le_max_left _ _) (le_trans (le_max_left _ _) (le_max_left _ _))

example : PairContract exContractPair := by
  refine ⟨?_, ?_, ?_⟩
  · intro h hh t1 e1 t2 e2
    have hinj : ∀ a b : V, h.apply a = h.apply b ↔ a = b := by
      intro a b
      constructor
      · intro hab
        have := congrArg h.applyInv hab
        rwa [Pose.applyInv_apply hh, Pose.applyInv_apply hh] at this
      · intro hab; rw [hab]
    simp only [exContractPair, Tet.map, hinj]
    by_cases hp : t1.p0 = t2.p0
    · simp only [hp, if_true, Option.map_some]
      congr 2
      rw [apply_sub_apply]
    · simp [hp]
  · intro t1 e1 t2 e2
    simp only [exContractPair]
    by_cases hp : t1.p0 = t2.p0
    · have hp' : t2.p0 = t1.p0 := hp.symm
      rw [if_pos hp, if_pos hp']
      simp only [Option.map_some]
      congr 2
      apply V3.ext' <;> simp
    · have hp' : ¬ t2.p0 = t1.p0 := fun h => hp h.symm
      simp [hp, hp']
  · intro t1 e1 t2 e2 ho
    simp only [exContractPair]
    by_cases hp : t1.p0 = t2.p0
    · exfalso
      have : overlap (tetAabb t1) (tetAabb t2) = true := by
        rw [overlap_iff]
        simp only [tetAabb]
        have hx : t1.p0.x = t2.p0.x := by rw [hp]
        have hy : t1.p0.y = t2.p0.y := by rw [hp]
        have hz : t1.p0.z = t2.p0.z := by rw [hp]
        refine ⟨?_, ?_, ?_, ?_, ?_, ?_⟩
        · exact le_trans (min4_le_first _ _ _ _) (hx ▸ first_le_max4 _ _ _ _)
        · exact le_trans (min4_le_first _ _ _ _) (hx ▸ first_le_max4 _ _ _ _)
        · exact le_trans (min4_le_first _ _ _ _) (hy ▸ first_le_max4 _ _ _ _)
        · exact le_trans (min4_le_first _ _ _ _) (hy ▸ first_le_max4 _ _ _ _)
        · exact le_trans (min4_le_first _ _ _ _) (hz ▸ first_le_max4 _ _ _ _)
        · exact le_trans (min4_le_first _ _ _ _) (hz ▸ first_le_max4 _ _ _ _)
      rw [this] at ho; cases ho
    · simp [hp]

/-- a toy narrow phase (a function of the coordinates only) for the executable examples -/
def exPair : PairFn Rat := fun t1 e1 t2 _ =>
  if overlap (tetAabb t1) (tetAabb t2) then some (t1.p0, V3.smul e1.e3 (t2.p3 - t1.p0)) else none

/-- two tetrahedra sharing a face, posed by a quarter turn about z and a translation -/
def exB1 : Body Rat :=
  Body.mk' ⟨⟨⟨0, -1, 0⟩, ⟨1, 0, 0⟩, ⟨0, 0, 1⟩⟩, ⟨1, 0, 0⟩⟩
    [⟨0, 0, 0⟩, ⟨1, 0, 0⟩, ⟨0, 1, 0⟩, ⟨0, 0, 1⟩, ⟨1, 1, 1⟩] [(0, 1, 2, 3), (1, 2, 3, 4)] [0, 0, 0, 1, 2]

/-- one tetrahedron, posed by a half turn about x -/
def exB2 : Body Rat :=
  Body.mk' ⟨⟨⟨1, 0, 0⟩, ⟨0, -1, 0⟩, ⟨0, 0, -1⟩⟩, ⟨1, 1, 0⟩⟩
    [⟨0, 0, 0⟩, ⟨2, 0, 0⟩, ⟨0, 2, 0⟩, ⟨0, 0, -2⟩] [(0, 1, 2, 3)] [0, 0, 0, 1]

/-- `contact_forces` runs on the concrete pair, reports an intersection and `f12 = −f21` -/
example : (match contactForces exPair exB1 exB2 with
    | .ok (r, _, _) => r.intersection && decide (r.wrench12.f = -r.wrench21.f)
    | .error _ => false) = true := by decide +kernel

/-- both broad phases run and give the same contact pairs (as sets) on the concrete pair -/
example : (match findContactSurface exPair exB1 exB2 true, findContactSurface exPair exB1 exB2 false with
    | .ok (s1, _, _), .ok (s2, _, _) =>
      s1.contacts.all (fun c => s2.contacts.contains c) && s2.contacts.all (fun c => s1.contacts.contains c)
        && !s2.contacts.isEmpty
    | _, _ => false) = true := by decide +kernel

/-- the trees of the concrete bodies pass the C05 well-formedness check and the leaf check, so
the hypotheses of `broad_phase_same_pairs` are satisfiable -/
example : (match (exB1.expressIn exB2.pose).treePure, (exB1.expressIn exB2.pose).aabbsPure with
    | .ok c, .ok a => (match wfCheck c with | some (some t) => leavesMatch t a | _ => false)
    | _, _ => false) = true := by decide +kernel

/-- the same tetrahedron two units away: no boxes overlap -/
def exFar : Body Rat :=
  Body.mk' ⟨⟨⟨1, 0, 0⟩, ⟨0, 1, 0⟩, ⟨0, 0, 1⟩⟩, ⟨9, 9, 9⟩⟩
    [⟨0, 0, 0⟩, ⟨2, 0, 0⟩, ⟨0, 2, 0⟩, ⟨0, 0, -2⟩] [(0, 1, 2, 3)] [0, 0, 0, 1]

/-- separated bodies (regression input of the repaired tree broad phase): both broad phases
report "no intersection" with an empty contact list -/
example : (match findContactSurface exPair exB1 exFar false, findContactSurface exPair exB1 exFar true with
    | .ok (s, _, _), .ok (s', _, _) =>
      !s.intersection && s.contacts.isEmpty && !s'.intersection && s'.contacts.isEmpty
    | _, _ => false) = true := by decide +kernel

/-- why `express_in` must reset `_aabbs`: without the reset the cached boxes are those of the old
frame (a variant of `express_in` that forgets the reset is NOT the code; it only shows necessity) -/
example : (match exB2.aabbs with
    | .ok (_, b) =>
      (match (b.expressIn_noReset exB1.pose).aabbs, (b.expressIn exB1.pose).aabbs with
       | .ok (stale, _), .ok (fresh, _) => decide (stale ≠ fresh)
       | _, _ => false)
    | _ => false) = true := by decide +kernel

/-- the pre-repair formula on a concrete rational input -/
def exOld : Wrench Rat × Wrench Rat :=
  accumulateWrenchesAt_asIs_before_fix
    (⟨⟨⟨3/5, -4/5, 0⟩, ⟨4/5, 3/5, 0⟩, ⟨0, 0, 1⟩⟩, ⟨1, 2, 3⟩⟩ : Pose Rat)
    [⟨0, 0, ⟨0, 0, 0⟩, ⟨0, 0, 1⟩⟩] ⟨1, 0, 0⟩ ⟨-1, 0, 0⟩

example : exOld.1.f ≠ -exOld.2.f := by decide +kernel

end C16
end D3
