/-
C09 — alternative distance algorithms (original GJK, Nesterov-accelerated GJK and its primitives
variant) agree with the true distance.

Property theorems only (helper lemmas: `D3/Proofs/Nesterov*.lean`).  All statements are about
the executable models `D3.Model.Nesterov` (one model for both Nesterov modules: their loops and
projection routines are textually the same) and `D3.Model.GjkOrig` at `α := ℝ`, strength S2: the
support mappings are parameters constrained only by their contract, the sets are arbitrary.

Vocabulary (`D3/Proofs/NesterovBasic.lean`): `mdiff A B = A ⊖ B`; `LowerBound M c`: every point of
`M` has norm ≥ `c`; `IsDist M δ`: `δ = inf {|x| : x ∈ M}` — the true distance of the colliders when
`M = A ⊖ B`; `inflate K r = K ⊕ ball r` (sphere = inflated centre, capsule = inflated segment).

What is proved
* Nesterov: `omega_lower_bound` (weak duality for every search direction, also the momentum
  directions), `alpha_update_valid`, `cv_exit_accuracy` (the duality-gap test as written),
  `inflation_correct` (set-level identity), `inflated_exit_accuracy` (both together: the
  returned `max(ray_len − inflation, 0)` is within `tolerance·ray_len` of the true distance
  **when the core supports were used**), `inflation_only_with_core_supports` (since the repair of
  commit 78b7577 the inflation is non-zero only then, so the former applies to every pair),
  `inflation_double_counted_before_fix_counterexample` (the old code subtracted it for sphere/capsule ×
  generic pairs too: former finding F-nesterov-inflation-generic) and
  `inflation_fixed_on_former_counterexample`, loop level: `cv_exit_accuracy_loop` (partial: soundness of the
  simplex projections is a hypothesis; proved for the 2-point routine in
  `projectLineOrigin_sound`, refuted outside the un-accelerated precondition in
  `projectLineOrigin_extrapolates_counterexample`, and for the 4-point routine even inside the
  un-accelerated iteration in `projectTetraToOrigin_asIs_counterexample`),
  `cv_exit_only_unaccelerated` (fall-back),
  `cap_exit_returns_zero`, `fuel_sufficient`.
* original GJK: `orig_feasible`, `orig_no_improvement_optimal`.
-/
import D3.Proofs.NesterovCex
import D3.Proofs.NesterovOrig

namespace D3
namespace C09
open Nesterov

/-! ## Nesterov-accelerated GJK -/

/-- **C09, weak duality.** For the pair returned by `support_function(-ray_dir, …)` — `s0` a
support point of `A` along `-d`, `s1` a support point of `B` along `d`, for *any* direction `d`
(the ray or the momentum direction) — the quantity `omega = ⟨d, s0 − s1⟩ / |d|` the code computes
is a lower bound of the distance of the two sets. (`omegaOf` fails exactly when `|d| = 0`.) -/
theorem omega_lower_bound {A B : V → Prop} {d s0 s1 : V} {ω : ℝ}
    (h0 : IsSupport A (-d) s0) (h1 : IsSupport B d s1) (hω : omegaOf d (s0 - s1) = .ok ω) :
    LowerBound (mdiff A B) ω :=
  omega_lower_bound_core (support_pair_minimises h0 h1).2 hω

example : IsSupport (fun p : V => p = ⟨3, 0, 0⟩) (-(⟨1, 0, 0⟩ : V)) ⟨3, 0, 0⟩ ∧
    IsSupport (fun p : V => p = ⟨0, 0, 0⟩) (⟨1, 0, 0⟩ : V) ⟨0, 0, 0⟩ ∧
    omegaOf (⟨1, 0, 0⟩ : V) ((⟨3, 0, 0⟩ : V) - ⟨0, 0, 0⟩) = .ok 3 := by
  refine ⟨⟨rfl, fun x hx => by rw [hx]⟩, ⟨rfl, fun x hx => by rw [hx]⟩, ?_⟩
  norm_num [omegaOf, cdiv, normx, V3.dot_def]

/-- **C09, `alpha = max(alpha, omega)`** keeps a valid lower bound (and the initial `alpha = 0` is one). -/
theorem alpha_update_valid {M : V → Prop} {α ω : ℝ} (hα : LowerBound M α) (hω : LowerBound M ω) :
    LowerBound M (max α ω) ∧ LowerBound M 0 :=
  ⟨hα.max hω, lowerBound_zero M⟩

example : LowerBound (fun p : V => p = ⟨3, 0, 0⟩) 2 ∧ LowerBound (fun p : V => p = ⟨3, 0, 0⟩) 3 := by
  constructor <;> (intro x hx; rw [hx, normx]; norm_num)

/-- **C09, convergence test.** If `ray` is a point of `M = A ⊖ B`, `alpha` a lower bound and the
test `(ray_len − alpha) − tolerance·ray_len ≤ 0` passes, then the true distance `δ` lies in
`[alpha, ray_len]` and `|ray_len − δ| ≤ tolerance·ray_len`. -/
theorem cv_exit_accuracy {M : V → Prop} {v : V} {tol alpha δ : ℝ}
    (hv : M v) (hα : LowerBound M alpha) (hδ : IsDist M δ)
    (hcv : cvCheckPassed tol (V3.norm v) alpha = true) :
    alpha ≤ δ ∧ δ ≤ V3.norm v ∧ |V3.norm v - δ| ≤ tol * V3.norm v :=
  cv_exit_core hv hα hδ hcv

example : (fun p : V => p = ⟨3, 0, 0⟩) ⟨3, 0, 0⟩ ∧ LowerBound (fun p : V => p = ⟨3, 0, 0⟩) 3 ∧
    IsDist (fun p : V => p = ⟨3, 0, 0⟩) 3 ∧ cvCheckPassed (1e-6 : ℝ) (V3.norm (⟨3, 0, 0⟩ : V)) 3 = true := by
  have hl : LowerBound (fun p : V => p = ⟨3, 0, 0⟩) 3 := by intro x hx; rw [hx, normx]; norm_num
  refine ⟨rfl, hl, ⟨hl, fun ε hε => ⟨⟨3, 0, 0⟩, rfl, by rw [normx]; norm_num; linarith⟩⟩, ?_⟩
  rw [cvCheckPassed_iff, normx]; norm_num

/-- **C09, inflation (set level).** For balls / capsules represented by a core (centre point,
axis segment) and a radius: `dist(A ⊕ ball rA, B ⊕ ball rB) = max(0, dist(A, B) − rA − rB)`. -/
theorem inflation_correct {A B : V → Prop} {δ rA rB : ℝ} (hA : 0 ≤ rA) (hB : 0 ≤ rB)
    (hδ : IsDist (mdiff A B) δ) :
    IsDist (mdiff (inflate A rA) (inflate B rB)) (max 0 (δ - rA - rB)) :=
  ⟨inflate_lower hδ.1, inflate_attain hA hB hδ⟩

example : IsDist (mdiff (fun p : V => p = ⟨3, 0, 0⟩) (fun p : V => p = ⟨0, 0, 0⟩)) 3 := by
  have e : ∀ z, mdiff (fun p : V => p = ⟨3, 0, 0⟩) (fun p : V => p = ⟨0, 0, 0⟩) z → z = ⟨3, 0, 0⟩ := by
    rintro z ⟨x, y, rfl, rfl, rfl⟩; apply V3.ext' <;> simp
  refine ⟨fun z hz => by rw [e z hz, normx]; norm_num, fun ε hε => ⟨⟨3, 0, 0⟩, ⟨_, _, rfl, rfl, ?_⟩, ?_⟩⟩
  · apply V3.ext' <;> simp
  · rw [normx]; norm_num; linarith

theorem isDist_unique {M : V → Prop} {δ δ' : ℝ} (h : IsDist M δ) (h' : IsDist M δ') : δ = δ' :=
  le_antisymm (h.1.le_dist h') (h'.1.le_dist h)

/-- **C09, inflated exit.** When the supports are the *core* supports (`M = core A ⊖ core B`) and
the loop leaves through the convergence test at `ray ∈ M`, the returned
`max(ray_len − (rA + rB), 0)` is within `tolerance·ray_len` of the true distance `Δ` of the
inflated shapes. -/
theorem inflated_exit_accuracy {A B : V → Prop} {v : V} {tol alpha δ rA rB Δ : ℝ}
    (hA : 0 ≤ rA) (hB : 0 ≤ rB) (hv : mdiff A B v) (hα : LowerBound (mdiff A B) alpha)
    (hδ : IsDist (mdiff A B) δ) (hΔ : IsDist (mdiff (inflate A rA) (inflate B rB)) Δ)
    (hcv : cvCheckPassed tol (V3.norm v) alpha = true) (r : Res ℝ)
    (hr : r.distance = V3.norm v - (rA + rB)) :
    |distanceOf r - Δ| ≤ tol * V3.norm v := by
  obtain ⟨_, h2, h3⟩ := cv_exit_core hv hα hδ hcv
  rw [isDist_unique hΔ (inflation_correct hA hB hδ)]
  rw [abs_of_nonneg (by linarith)] at h3
  unfold distanceOf
  rw [hr]
  split
  · rename_i hneg
    rw [max_eq_left (by linarith)]; simp
    have := V3.norm_nonneg v
    nlinarith [abs_nonneg (V3.norm v - δ)]
  · rename_i hnn
    rw [not_lt] at hnn
    rcases le_total 0 (δ - rA - rB) with hc | hc
    · rw [max_eq_right hc, abs_of_nonneg (by linarith)]; linarith
    · rw [max_eq_left hc, sub_zero, abs_of_nonneg hnn]; linarith

example : cvCheckPassed (1e-6 : ℝ) (V3.norm (⟨3, 0, 0⟩ : V)) 3 = true ∧ (0 : ℝ) ≤ 1 := by
  rw [cvCheckPassed_iff, normx]; norm_num

/-- **C09, loop level (partial).** For every run of the modelled loop whose support pair meets
the support contract for `M` (`SuppOK`) and whose simplex projections return points of `M`
(`ProjOK`, the hypothesis that is *not* discharged in general — see the two theorems below): if
the run leaves through the convergence test, `ray_len = distance + inflation` is within
`tolerance·ray_len` of the true distance `δ` of `M`, for all shapes, tolerances and iteration
caps, with or without acceleration. -/
theorem cv_exit_accuracy_loop {σ : Type} {M : V → Prop} {δ : ℝ}
    (maxIter : Nat) (upperBound tol inflation : ℝ) (normalize accel : Bool)
    (supp : σ → V → Except Err ((V × V) × σ)) (o o' : σ) (r : Res ℝ)
    (hs : SuppOK M supp) (hproj : ProjOK M) (hδ : IsDist M δ)
    (h : gjk maxIter upperBound tol inflation normalize accel supp o = .ok (r, o')) (h3 : r.exit = 3) :
    δ ≤ r.distance + inflation ∧ |r.distance + inflation - δ| ≤ tol * (r.distance + inflation) :=
  loop_exit3_accuracy hs hproj hδ _ _ _ _ _ (inv_init M accel) h h3

/-- **C09, the 2-point projection is sound in the un-accelerated iteration** (`⟨a, b⟩ ≤ ⟨b, b⟩`
holds when the newest point `a` is a support point along `-b`): result in `M`, rows in `M`,
min-norm point of the segment. -/
theorem projectLineOrigin_sound {M : V → Prop} (hM : ConvexSet M) (s : Simplex ℝ) (p : Proj ℝ)
    (ha : M s.p1) (hb : M s.p0) (hpre : V3.dot s.p1 s.p0 ≤ V3.dot s.p0 s.p0)
    (h : projectLineOrigin s = .ok p) :
    M p.ray ∧ rowsIn M p.simplex p.len ∧
      ∀ t : ℝ, 0 ≤ t → t ≤ 1 → V3.norm p.ray ≤ V3.norm (s.p1 + t * (s.p0 - s.p1)) :=
  Nesterov.projectLineOrigin_sound hM s p ha hb hpre h

example : V3.dot (⟨1, 2, 0⟩ : V) ⟨3, 0, 0⟩ ≤ V3.dot (⟨3, 0, 0⟩ : V) ⟨3, 0, 0⟩ := by
  norm_num [V3.dot_def]

/-- **C09, as-is counterexample (acceleration).** Outside that precondition — which the momentum
direction does not guarantee — `project_line_origin` returns a point of the *line*, not of the
segment: for B = (1,0,0), A = (3,0,0) it returns the origin with `inside = False`, i.e. the main
loop reports an intersection (`ray_len == 0`) for a segment at distance 1
(finding F-nesterov-accel-projection). -/
theorem projectLineOrigin_extrapolates_counterexample :
    (projectLineOrigin (⟨⟨1, 0, 0⟩, ⟨3, 0, 0⟩, z3, z3⟩ : Simplex ℝ)).map (fun p => (p.ray, p.len, p.inside)) =
      .ok (⟨0, 0, 0⟩, 2, false) ∧
    ∀ t : ℝ, 0 ≤ t → t ≤ 1 → 1 ≤ V3.norm ((⟨3, 0, 0⟩ : V) + t * ((⟨1, 0, 0⟩ : V) - ⟨3, 0, 0⟩)) := by
  refine ⟨projectLineOrigin_extrapolates, fun t h0 h1 => ?_⟩
  have : (⟨3, 0, 0⟩ : V) + t * ((⟨1, 0, 0⟩ : V) - ⟨3, 0, 0⟩) = ⟨3 - 2 * t, 0, 0⟩ := by
    apply V3.ext' <;> simp
    ring
  rw [this, normx, abs_of_nonneg (by linarith)]; linarith

/-- **C09, as-is counterexample (un-accelerated, default mode).** `project_tetra_to_origin` on a state
the un-accelerated loop can be in — the previous ray `v = (4,0,0)` is the foot of the origin strictly
inside the triangle D, C, B; the rows have the orientation `origin_to_triangle` leaves; the newest
point A is beyond the supporting plane of `v` — selects the edge region A–D although the origin
projects outside that edge, and returns `(0,0,1)` (norm 1, `inside = False`), while every point of the
tetrahedron has squared norm ≥ 125/21: the returned ray is not a point of `A ⊖ B` and `ray_len`
underestimates the distance (finding F-nesterov-tetra-region). -/
theorem projectTetraToOrigin_asIs_counterexample :
    ((⟨4, 0, 0⟩ : V) = (3 / 8 : ℝ) * tetD + ((3 / 8 : ℝ) * tetC + (1 / 4 : ℝ) * tetB) ∧
      V3.dot (⟨4, 0, 0⟩ : V) tetD = 16 ∧ V3.dot (⟨4, 0, 0⟩ : V) tetC = 16 ∧ V3.dot (⟨4, 0, 0⟩ : V) tetB = 16 ∧
      V3.dot (⟨4, 0, 0⟩ : V) tetA = 8 ∧ 0 < V3.dot (V3.cross (tetC - tetB) (tetD - tetB)) (-tetB)) ∧
    (projectTetraToOrigin tetS).map (fun p => (p.ray, p.len, p.inside)) = .ok (⟨0, 0, 1⟩, 2, false) ∧
    V3.normSq (⟨0, 0, 1⟩ : V) = 1 ∧
    ∀ w0 w1 w2 w3 : ℝ, 0 ≤ w0 → 0 ≤ w1 → 0 ≤ w2 → 0 ≤ w3 → w0 + w1 + w2 + w3 = 1 →
      (125 / 21 : ℝ) ≤ V3.normSq (w0 * tetD + (w1 * tetC + (w2 * tetB + w3 * tetA))) :=
  ⟨tet_precondition, projectTetra_run, by norm_num [V3.normSq_def], tetra_hull_far⟩

/-- **C09, fall-back of the acceleration.** The convergence exit is only taken with
`use_nesterov_acceleration` switched off and the search direction equal to the ray: a pass that
would leave while the acceleration is on switches it off and repeats (without `i += 1`). The
other exits (`ray_len < tolerance`, origin inside the simplex, iteration cap) can be taken with
the acceleration on. -/
theorem cv_exit_only_unaccelerated {σ : Type} {cfg : Cfg ℝ} {supp : σ → V → Except Err ((V × V) × σ)}
    {st : St ℝ} {o o'' : σ} {r : Res ℝ} (h : pass cfg supp st o = .ok (.done r o'')) (h3 : r.exit = 3) :
    st.accel = false ∧ nextRayDir cfg st = st.ray :=
  Nesterov.cv_exit_only_unaccelerated h h3

example : pass cexCfg cexSupp cexSt2 () = .ok (.done cexRes ()) ∧ cexRes.exit = 3 := ⟨pass2, rfl⟩

/-- **C09, iteration cap.** Falling out of `while i < max_interations` returns the initial
`distance = 0.0` with `inside = False`, whatever the shapes are (finding F-nesterov-cap-zero when
the shapes are separated). -/
theorem cap_exit_returns_zero {σ : Type} (cfg : Cfg ℝ) (supp : σ → V → Except Err ((V × V) × σ))
    (fuel : Nat) (st : St ℝ) (o : σ) (h : ¬ st.i < cfg.maxIter) :
    loop cfg supp (fuel + 1) st o = .ok (⟨false, 0, st.simplex, st.len, st.i, 5⟩, o) :=
  loop_cap_exit cfg supp fuel st o h

example : ¬ ({ (initSt false : St ℝ) with i := 128 }).i < (cexCfg).maxIter := by simp [cexCfg]

/-- **C09, the modelled loop needs no more fuel than `max_interations + 2`** (at most one pass
does not advance `i`): beyond the measure, more fuel never changes the result. -/
theorem fuel_sufficient {σ : Type} (cfg : Cfg ℝ) (supp : σ → V → Except Err ((V × V) × σ)) (accel : Bool)
    (o : σ) (extra : Nat) :
    loop cfg supp (cfg.maxIter + 2 + extra) (initSt accel) o = loop cfg supp (cfg.maxIter + 2) (initSt accel) o := by
  induction extra with
  | zero => rfl
  | succ n ih =>
    rw [← ih, show cfg.maxIter + 2 + (n + 1) = (cfg.maxIter + 2 + n) + 1 from rfl]
    exact loop_fuel_stable cfg supp _ _ _ (by
      have := gjk_fuel_sufficient cfg.maxIter accel cfg rfl; omega)

example : Nesterov.measure cexCfg (initSt true) < 128 + 2 := by simp [Nesterov.measure, initSt, cexCfg]

/-- **C09, counterexample for the code before the repair (commit 78b7577, inflation double-counted).**
`Sphere((0,0,0), 1)` against `ConvexHullVertices([(5,0,0),(5,1,0),(5,0,1),(6,0,0)])`: `select_support`
finds no specialised support for the hull, so `support_function` falls back to the world-frame supports
of **both** colliders (the sphere's includes its radius), yet the old code subtracted `inflation = 1`:
the faithful model of the old `gjk_nesterov_accelerated` (default arguments from `Gen.Constants`)
returns distance 3 through the convergence exit, while the true distance of the two sets is 4. -/
theorem inflation_double_counted_before_fix_counterexample :
    dispatchBranch cexC0 cexC1 = 1 ∧ inflationOf_asIs_before_fix cexC0 cexC1 = 1 ∧
    gjkColliders_asIs_before_fix cexC0 cexC1 M3.one ⟨5, 0, 0⟩ cexGen0 cexGen1 false false = .ok cexRes ∧
    cexRes.exit = 3 ∧ distanceOf cexRes = 3 ∧ IsDist (mdiff cexBall cexHull) 4 := by
  refine ⟨cex_dispatch_generic, cex_inflation_before_fix, ?_, rfl, ?_, cex_true_distance⟩
  · unfold gjkColliders_asIs_before_fix
    rw [cex_inflation_before_fix]
    have := cex_run
    unfold cexSupp at this
    simp only [D3.Gen.gjk__gjk_nesterov_accelerated__gjk_nesterov_accelerated__max_interations,
      D3.Gen.gjk__gjk_nesterov_accelerated__gjk_nesterov_accelerated__upper_bound,
      D3.Gen.gjk__gjk_nesterov_accelerated__gjk_nesterov_accelerated__tolerance]
    rw [this]; rfl
  · norm_num [distanceOf, cexRes]

/-- **C09, the repaired dispatch on the same scene.** The model of the code as it is now gives the
pair no inflation and returns the true distance 4. -/
theorem inflation_fixed_on_former_counterexample :
    inflationOf cexC0 cexC1 = 0 ∧
    gjkColliders cexC0 cexC1 M3.one ⟨5, 0, 0⟩ cexGen0 cexGen1 false false = .ok cexRes0 ∧
    cexRes0.exit = 3 ∧ distanceOf cexRes0 = 4 ∧ IsDist (mdiff cexBall cexHull) 4 := by
  refine ⟨cex_inflation, ?_, rfl, ?_, cex_true_distance⟩
  · unfold gjkColliders
    rw [cex_inflation]
    have := cex_run_fixed
    unfold cexSupp at this
    simp only [D3.Gen.gjk__gjk_nesterov_accelerated__gjk_nesterov_accelerated__max_interations,
      D3.Gen.gjk__gjk_nesterov_accelerated__gjk_nesterov_accelerated__upper_bound,
      D3.Gen.gjk__gjk_nesterov_accelerated__gjk_nesterov_accelerated__tolerance]
    rw [this]; rfl
  · norm_num [distanceOf, cexRes0]

/-- **C09, inflation only with core supports (dispatch after the repair).** For every pair of
colliders: a non-zero `inflation` implies that `support_function` takes branch 0 (both supports are
the specialised core supports in the frame of collider 0), where it equals the sum of the radii of
the sphere / capsule colliders; in the generic fall-back the inflation is 0. Hence the hypothesis of
`inflated_exit_accuracy` ("the supports are the core supports of the sets that are inflated") is met
by every pair `gjk_nesterov_accelerated` accepts — with `rA = rB = 0`, `inflate K 0 = K` in the
generic case. For two specialised colliders (all the primitives variant accepts) the value is the
one of the unguarded formula. -/
theorem inflation_only_with_core_supports (c0 c1 : Coll ℝ) :
    (inflationOf c0 c1 ≠ 0 → dispatchBranch c0 c1 = 0) ∧
    (dispatchBranch c0 c1 = 1 → inflationOf c0 c1 = 0) ∧
    (dispatchBranch c0 c1 = 0 → inflationOf c0 c1 =
      (if c0.kind.inflated then c0.radius else 0) + (if c1.kind.inflated then c1.radius else 0) ∧
      inflationOf c0 c1 = inflationOf_asIs_before_fix c0 c1) := by
  refine ⟨fun hne => ?_, inflationOf_generic c0 c1, fun h => ⟨inflationOf_core c0 c1 h,
    inflationOf_eq_before_fix_of_found c0 c1 h⟩⟩
  by_contra hb
  have h1 : dispatchBranch c0 c1 = 1 := by
    unfold dispatchBranch at hb ⊢
    split
    · rename_i hf; rw [if_pos hf] at hb; exact absurd rfl hb
    · rfl
  exact hne (inflationOf_generic c0 c1 h1)

example : inflationOf (⟨.sphere, ⟨0, 0, 0⟩, 1⟩ : Coll ℝ) ⟨.box, ⟨1, 1, 1⟩, 0⟩ = 1 ∧
    dispatchBranch (⟨.sphere, ⟨0, 0, 0⟩, 1⟩ : Coll ℝ) ⟨.box, ⟨1, 1, 1⟩, 0⟩ = 0 := by
  simp [inflationOf, inflationOf_asIs_before_fix, dispatchBranch, Kind.found, Kind.inflated]

/-! ## original GJK -/

open GjkOrig in
/-- **C09, feasibility of `gjk_distance_original`.** If every cached vertex of collider 1 lies in
the convex set `A`, every cached vertex of collider 2 in the convex set `B`, every simplex point
is the difference of its two cached vertices (`Consistent`), and the solution carries
non-negative weights of sum 1 with `v = Σ wᵢ·yᵢ`, `distance_squared = |v|²` (the contract of the
sub-algorithm, C18), then the returned points satisfy `a ∈ A`, `b ∈ B`, `a − b = v`, `d = |a − b|`;
for a 4-point simplex the returned common point is within `|v|/2` of a point of `A` and of a point
of `B` and `d = 0`. -/
theorem orig_feasible {A B : V → Prop} (hA : ConvexSet A) (hB : ConvexSet B) {c1 c2 : Array V}
    {sol : Sol ℝ} {simplex : List (Entry ℝ)} {it : Nat}
    (hc : Consistent A B c1 c2 simplex)
    (hwl : (sol.w.take simplex.length).length = simplex.length)
    (hw : ∀ x ∈ sol.w.take simplex.length, 0 ≤ x) (hs : wsum (sol.w.take simplex.length) = 1)
    (hdir : sol.dir = lincomb (sol.w.take simplex.length) (simplex.map (·.pt)))
    (hdsq : sol.dsq = V3.normSq sol.dir) :
    ∃ out a b, finish c1 c2 sol simplex it = .ok out ∧ A a ∧ B b ∧ a - b = sol.dir ∧
      (simplex.length ≠ 4 → out.a = a ∧ out.b = b ∧ out.distance = V3.norm (a - b)) ∧
      (simplex.length = 4 → out.distance = 0 ∧ out.a = out.b ∧
        V3.norm (out.a - a) = V3.norm sol.dir / 2 ∧ V3.norm (out.b - b) = V3.norm sol.dir / 2) :=
  finish_feasible hA hB hc hwl hw hs hdir hdsq

open GjkOrig in
example : Consistent (fun p : V => p = ⟨3, 0, 0⟩) (fun p : V => p = ⟨0, 0, 0⟩) #[⟨3, 0, 0⟩] #[⟨0, 0, 0⟩]
    [⟨0, 0, ⟨3, 0, 0⟩⟩] ∧ wsum ([1] : List ℝ) = 1 := by
  refine ⟨fun e he => ?_, by simp [wsum]⟩
  simp at he; subst he
  exact ⟨⟨3, 0, 0⟩, ⟨0, 0, 0⟩, rfl, rfl, rfl, rfl, by apply V3.ext' <;> simp⟩

/-- **C09, exit accuracy of `gjk_distance_original` (weak duality).** `v` the current solution,
`w` the new support point of `M = A ⊖ B` along `−v`, `v'` the solution of the sub-algorithm on the
simplex extended by `w` (at least as close to the origin as every point of `[v, w]`). If
`no_improvement` holds (`|v'|² ≥ |v|²`) then `|v|` is the true distance: no point of `M` is closer. -/
theorem orig_no_improvement_optimal {M : V → Prop} {v w v' : V}
    (hw : ∀ y, M y → V3.dot v w ≤ V3.dot v y)
    (hv' : ∀ t : ℝ, 0 ≤ t → t ≤ 1 → V3.normSq v' ≤ V3.normSq (v + t * (w - v)))
    (hno : V3.normSq v ≤ V3.normSq v') :
    ∀ y, M y → V3.norm v ≤ V3.norm y :=
  GjkOrig.no_improvement_optimal hw hv' hno

example : ∀ t : ℝ, 0 ≤ t → t ≤ 1 →
    V3.normSq (⟨3, 0, 0⟩ : V) ≤ V3.normSq ((⟨3, 0, 0⟩ : V) + t * ((⟨3, 1, 0⟩ : V) - ⟨3, 0, 0⟩)) := by
  intro t _ _
  simp only [V3.normSq_def, V3.add_x, V3.add_y, V3.add_z, V3.smul_x, V3.smul_y, V3.smul_z, V3.sub_x,
    V3.sub_y, V3.sub_z]
  nlinarith [mul_self_nonneg t]

end C09
end D3
