/-
C13 — the point containment predicates of `containment_test.py` return `True` exactly for
the points of the closed shape.

Property theorems only (helper lemmas: `D3/Proofs/ContainTest*.lean`).  All statements are
about the executable model `D3.Model.ContainTest` at `α := ℝ`, for **every** orthonormal
pose and the sizes the property grants.  The sets on the right-hand sides
(`ballSet`, `capsuleSet`, `ellipsoidSet`, `coneSet`, `cylinderSet`, `boxSet`, `diskSet`,
`diskSlabSet`, `hullSet`, `facesSet`) are defined in `D3/Proofs/ContainTestSets.lean`
independently of the code, as `poseImage A <closed local set>`.

Every comparison in the code is non-strict (`<=`) or a negated strict one
(`contained[x > bound] = False`), so the boundary belongs to every predicate: the sets are the
*closed* shapes and the statements are plain `↔`, which is stronger than the property's
"true 1e-9·L inside, false 1e-9·L outside".

Not proved here (harness only, see `PARTIAL` in `harness/props/c13.py`): agreement with the
library's `point_to_box/disk/cylinder/ellipsoid` (those functions belong to C10/C11's model).
-/
import D3.Proofs.ContainTestExact
import D3.Proofs.ContainMeshConverse

namespace D3
namespace C13
open ContainTest

/-! ## the six solid primitives: `pointInX p = true ↔ p ∈ XSet` -/

/-- **C13, sphere.** `points_in_sphere` is exact for the closed ball of radius `r` about the
centre (`A.t`; the ball is the image of `{|q| ≤ r}` under any orthonormal frame at the centre). -/
theorem sphere_exact {A : Pose ℝ} (hA : Orthonormal A.R) {r : ℝ} (hr : 0 < r) (p : V) :
    pointInSphere p A.t r = true ↔ ballSet A r p :=
  pointInSphere_iff hA (le_of_lt hr) p

/-- **C13, capsule.** `points_in_capsule` evaluates (no 0/0) and is exact for
`{p | dist(p, axis segment of length h) ≤ r}`. -/
theorem capsule_exact {A : Pose ℝ} (hA : Orthonormal A.R) {r h : ℝ} (hr : 0 < r) (hh : 0 < h)
    (p : V) : ∃ b, pointInCapsule p A r h = .ok b ∧ (b = true ↔ capsuleSet A r h p) :=
  pointInCapsule_iff hA (le_of_lt hr) hh p

/-- **C13, ellipsoid.** `points_in_ellipsoid` evaluates and is exact for
`Σ (qᵢ/rᵢ)² ≤ 1` in the shape frame. -/
theorem ellipsoid_exact {A : Pose ℝ} (hA : Orthonormal A.R) {radii : V}
    (hx : 0 < radii.x) (hy : 0 < radii.y) (hz : 0 < radii.z) (p : V) :
    ∃ b, pointInEllipsoid p A radii = .ok b ∧ (b = true ↔ ellipsoidSet A radii p) :=
  pointInEllipsoid_iff hA (ne_of_gt hx) (ne_of_gt hy) (ne_of_gt hz) p

/-- **C13, cone.** `points_in_cone` evaluates and is exact for the closed cone with base disk of
radius `r` at the pose origin (plane `z = 0`) and apex at `z = h` on the local z axis — the
placement the `Cone` collider uses. -/
theorem cone_exact {A : Pose ℝ} (hA : Orthonormal A.R) {r h : ℝ} (hr : 0 < r) (hh : 0 < h)
    (p : V) : ∃ b, pointInCone p A r h = .ok b ∧ (b = true ↔ coneSet A r h p) :=
  pointInCone_iff hA (le_of_lt hr) hh p

/-- **C13, cylinder.** `points_in_cylinder` is exact for `|q_z| ≤ len/2 ∧ radial q ≤ r`. -/
theorem cylinder_exact {A : Pose ℝ} (hA : Orthonormal A.R) {r len : ℝ} (hr : 0 < r) (_hl : 0 < len)
    (p : V) : pointInCylinder p A r len = true ↔ cylinderSet A r len p :=
  pointInCylinder_iff hA (le_of_lt hr) len p

/-- **C13, box.** `points_in_box` is exact for `|qᵢ| ≤ sizeᵢ/2`. -/
theorem box_exact {A : Pose ℝ} (hA : Orthonormal A.R) (size : V) (p : V) :
    pointInBox p A size = true ↔ boxSet A size p :=
  pointInBox_iff hA size p

/-! ## disk: exact for the `10·EPSILON` slab, sandwiched between the flat disk and its slab -/

/-- **C13, disk (pose form).** With centre `A.t` and normal `A.R.col2`, `points_in_disk` is exact
for `|q_z| ≤ 10·EPSILON ∧ radial q ≤ r` (`diskSlab = 10.0 * D3.Gen.utils__EPSILON`, regenerated
from the source). -/
theorem disk_exact {A : Pose ℝ} (hA : Orthonormal A.R) {r : ℝ} (hr : 0 < r) (p : V) :
    pointInDisk p A.t r A.R.col2 = true ↔ diskSlabSet A r diskSlab p :=
  pointInDisk_iff hA (le_of_lt hr) p

/-- **C13, disk (centre/normal form, as the function is called).** For every unit normal:
`↔ |⟨p−c,n⟩| ≤ 10ε ∧ |p−c|² − ⟨p−c,n⟩² ≤ r²`. -/
theorem disk_exact_unit (p c n : V) (r : ℝ) (hn : V3.dot n n = 1) :
    pointInDisk p c r n = true ↔
      |V3.dot (p - c) n| ≤ diskSlab ∧
      V3.normSq (p - c) - V3.dot (p - c) n * V3.dot (p - c) n ≤ r * r :=
  pointInDisk_iff_unit p c n r hn

/-- **C13, disk, lower half of the sandwich.** Every point of the flat closed disk is accepted. -/
theorem disk_subset {A : Pose ℝ} (hA : Orthonormal A.R) {r : ℝ} (hr : 0 < r) (p : V)
    (hp : diskSet A r p) : pointInDisk p A.t r A.R.col2 = true := by
  rw [disk_exact hA hr]
  obtain ⟨q, ⟨hz, hrad⟩, rfl⟩ := hp
  refine ⟨q, ⟨?_, hrad⟩, rfl⟩
  rw [hz, abs_zero]; exact diskSlab_nonneg

/-- **C13, disk, upper half of the sandwich.** Every accepted point is a point of the flat disk
moved by at most `10·EPSILON` along the normal. -/
theorem disk_superset {A : Pose ℝ} (hA : Orthonormal A.R) {r : ℝ} (hr : 0 < r) (p : V)
    (hp : pointInDisk p A.t r A.R.col2 = true) : slab (diskSet A r) A.R.col2 diskSlab p := by
  rw [disk_exact hA hr] at hp
  obtain ⟨q, ⟨hz, hrad⟩, rfl⟩ := hp
  refine ⟨A.apply ⟨q.x, q.y, 0⟩, q.z, ⟨⟨q.x, q.y, 0⟩, ⟨rfl, ?_⟩, rfl⟩, hz, apply_split A q⟩
  exact hrad

/-- the slab half-width is the source's `10.0 * EPSILON` and it is tiny (below `1e-14`), far
inside the property's `1e-9·L` band -/
theorem diskSlab_small : (0 : ℝ) ≤ diskSlab ∧ (diskSlab : ℝ) < 1e-14 := by
  refine ⟨diskSlab_nonneg, ?_⟩
  unfold diskSlab D3.Gen.utils__EPSILON; norm_num

/-! ## convex mesh -/

/-- **C13, mesh, half-space form.** Once the gather `vertices[triangles]` succeeded,
`points_in_convex_mesh` returns, for every point of the batch, `True` exactly when the point
(pulled back to the mesh frame) satisfies `⟨n_f, q − centroid_f⟩ ≤ 0` for every face, with
`n_f = (v₁−v₀)×(v₂−v₀)` and `centroid_f = (v₀+v₁+v₂)/3` as the code computes them. -/
theorem mesh_exact {A : Pose ℝ} (hA : Orthonormal A.R) (vs : Array V) (tris : List (Int × Int × Int))
    (fs : List (Face ℝ)) (hfs : meshFaces vs tris = .ok fs) (ps : List V) :
    ∃ bs, pointsInConvexMesh ps A vs tris = .ok bs ∧
      List.Forall₂ (fun p b => b = true ↔ facesSet A fs p) ps bs := by
  refine ⟨ps.map fun p => pointInFaces fs A p, ?_, ?_⟩
  · simp [pointsInConvexMesh, hfs, bind, Except.bind, pure, Except.pure]
  · exact map_exact _ _ (fun p => pointInFaces_iff hA fs p) ps

/-- **C13, mesh, the gather cannot fail on well-formed triangles**: indices `0 ≤ i < n_vertices`. -/
theorem mesh_gather_ok (vs : Array V) (tris : List (Int × Int × Int))
    (h : ∀ t ∈ tris, (0 ≤ t.1 ∧ t.1.toNat < vs.size) ∧ (0 ≤ t.2.1 ∧ t.2.1.toNat < vs.size) ∧
      (0 ≤ t.2.2 ∧ t.2.2.toNat < vs.size)) :
    ∃ fs, meshFaces vs tris = .ok fs ∧ fs.length = tris.length := by
  obtain ⟨fs, hfs, hall⟩ := mapM_ok (getFace vs) tris (by
    intro t ht
    obtain ⟨⟨a0, a1⟩, ⟨b0, b1⟩, ⟨c0, c1⟩⟩ := h t ht
    have ea := getVertex_ok vs t.1.toNat a1
    have eb := getVertex_ok vs t.2.1.toNat b1
    have ec := getVertex_ok vs t.2.2.toNat c1
    rw [Int.toNat_of_nonneg a0] at ea
    rw [Int.toNat_of_nonneg b0] at eb
    rw [Int.toNat_of_nonneg c0] at ec
    exact ⟨⟨vs[t.1.toNat], vs[t.2.1.toNat], vs[t.2.2.toNat]⟩,
      by simp [getFace, ea, eb, ec, bind, Except.bind, pure, Except.pure]⟩)
  exact ⟨fs, hfs, hall.length_eq.symm⟩

/-- **C13, mesh, hull ⊆ predicate.** Under the checkable precondition that every vertex satisfies
every face inequality (outward normals of a convex mesh), every point of the posed convex hull
of the vertices is accepted. -/
theorem mesh_hull_subset {A : Pose ℝ} (hA : Orthonormal A.R) (vs : List V) (fs : List (Face ℝ))
    (hv : ∀ v ∈ vs, ∀ f ∈ fs, V3.dot (faceNormal f) (v - faceCenter f) ≤ 0) (p : V)
    (hp : hullSet A vs p) : pointInFaces fs A p = true := by
  rw [pointInFaces_iff hA]
  obtain ⟨q, hq, rfl⟩ := hp
  exact ⟨q, hull_subset_faces fs vs hv q hq, rfl⟩

/-! ## batches: every `points_in_*` is the element-wise map of its kernel -/

/-- **C13, batches (total kernels).** -/
theorem batch_exact {A : Pose ℝ} (hA : Orthonormal A.R) {r len : ℝ} (hr : 0 < r) (hl : 0 < len)
    (size : V) (ps : List V) :
    List.Forall₂ (fun p b => b = true ↔ ballSet A r p) ps (pointsInSphere ps A.t r) ∧
    List.Forall₂ (fun p b => b = true ↔ cylinderSet A r len p) ps (pointsInCylinder ps A r len) ∧
    List.Forall₂ (fun p b => b = true ↔ boxSet A size p) ps (pointsInBox ps A size) ∧
    List.Forall₂ (fun p b => b = true ↔ diskSlabSet A r diskSlab p) ps
      (pointsInDisk ps A.t r A.R.col2) :=
  ⟨map_exact _ _ (fun p => sphere_exact hA hr p) ps,
   map_exact _ _ (fun p => cylinder_exact hA hr hl p) ps,
   map_exact _ _ (fun p => box_exact hA size p) ps,
   map_exact _ _ (fun p => disk_exact hA hr p) ps⟩

/-- **C13, batches (kernels that divide).** For positive sizes the batch evaluates and is
element-wise exact. -/
theorem batch_exact_div {A : Pose ℝ} (hA : Orthonormal A.R) {r h : ℝ} (hr : 0 < r) (hh : 0 < h)
    {radii : V} (hx : 0 < radii.x) (hy : 0 < radii.y) (hz : 0 < radii.z) (ps : List V) :
    (∃ bs, pointsInCapsule ps A r h = .ok bs ∧
      List.Forall₂ (fun p b => b = true ↔ capsuleSet A r h p) ps bs) ∧
    (∃ bs, pointsInCone ps A r h = .ok bs ∧
      List.Forall₂ (fun p b => b = true ↔ coneSet A r h p) ps bs) ∧
    (∃ bs, pointsInEllipsoid ps A radii = .ok bs ∧
      List.Forall₂ (fun p b => b = true ↔ ellipsoidSet A radii p) ps bs) :=
  ⟨mapM_exact _ _ (fun p => capsule_exact hA hr hh p) ps,
   mapM_exact _ _ (fun p => cone_exact hA hr hh p) ps,
   mapM_exact _ _ (fun p => ellipsoid_exact hA hx hy hz p) ps⟩

/-! ## link to the support mapping (C03) -/

/-- **C13 ↔ C03.** Whatever point `s` is a support point of the shape's set in direction `d`
(`IsSupport`, the notion C03 proves for the colliders' support functions), no accepted point
projects beyond it.  Stated once for any predicate that is exact for a set `K`. -/
theorem contained_le_support (K : V → Prop) (f : V → Bool) (hf : ∀ p, f p = true ↔ K p)
    (d s p : V) (hs : IsSupport K d s) (hp : f p = true) : V3.dot d p ≤ V3.dot d s :=
  hs.2 p ((hf p).mp hp)

/-! ## malformed sizes: which inputs reach the NaN branches -/

/-- a capsule of height 0 divides 0/0 for every point (NumPy: NaN, result `False`) -/
theorem capsule_zero_height (A : Pose ℝ) (r : ℝ) (p : V) :
    pointInCapsule p A r 0 = .error .divZero := by
  have : V3.dot (capsuleDir A 0) (capsuleDir A 0) = 0 := by
    rw [capsuleDir_eq]; simp [V3.dot_def]
  simp [pointInCapsule, this, isZero_iff]

/-- an ellipsoid with a zero radius divides by zero for every point -/
theorem ellipsoid_zero_radius (A : Pose ℝ) (radii : V)
    (h0 : radii.x = 0 ∨ radii.y = 0 ∨ radii.z = 0) (p : V) :
    pointInEllipsoid p A radii = .error .divZero := by
  have : (isZero radii.x || isZero radii.y || isZero radii.z) = true := by
    rcases h0 with h | h | h <;> simp [(isZero_iff _).mpr h]
  simp [pointInEllipsoid, this]

/-- a cone of height 0 divides 0/0 exactly for the points of its base plane (NumPy: NaN radius,
`sqr > NaN` is false, so such points are reported as contained at any radial distance) and
rejects all others -/
theorem cone_zero_height {A : Pose ℝ} (hA : Orthonormal A.R) (r : ℝ) (p : V) :
    ((A.applyInv p).z = 0 → pointInCone p A r 0 = .error .divZero) ∧
    ((A.applyInv p).z ≠ 0 → pointInCone p A r 0 = .ok false) := by
  have hd := coneDist_eq hA 0 p
  constructor
  · intro hz
    simp [pointInCone, hd, hz, absS_real, half_eq, isZero_iff]
  · intro hz
    have : 0 < |(A.applyInv p).z| := abs_pos.mpr hz
    simp [pointInCone, hd, absS_real, half_eq, this]

/-! ## non-vacuity: the hypotheses hold on concrete non-degenerate inputs -/

/-- 3-4-5 rotation about the x axis (tilts the shape's z axis), translated -/
noncomputable def exPose : Pose ℝ := ⟨⟨⟨1, 0, 0⟩, ⟨0, 3 / 5, -4 / 5⟩, ⟨0, 4 / 5, 3 / 5⟩⟩, ⟨1, 2, 3⟩⟩

theorem exPose_orth : Orthonormal exPose.R := by
  constructor <;> norm_num [exPose, V3.dot_def, M3.col0, M3.col1, M3.col2]

/-- the image of the local point `(1/2, 0, 1/2)` -/
noncomputable def exPoint : V := exPose.apply ⟨1 / 2, 0, 1 / 2⟩

theorem exPoint_local : exPose.applyInv exPoint = ⟨1 / 2, 0, 1 / 2⟩ :=
  Pose.applyInv_apply exPose_orth _

-- sphere / cylinder / box / disk: hypotheses satisfiable, and both truth values occur
example : pointInSphere exPoint exPose.t 1 = true := by
  rw [sphere_exact exPose_orth one_pos, ballSet, poseImage_iff exPose_orth, exPoint_local,
    ballLocal, norm_le_iff zero_le_one]
  norm_num [V3.normSq_def]
example : pointInSphere exPoint exPose.t (1 / 2) = false := by
  rw [Bool.eq_false_iff, Ne, sphere_exact exPose_orth (by norm_num), ballSet,
    poseImage_iff exPose_orth, exPoint_local, ballLocal, norm_le_iff (by norm_num)]
  norm_num [V3.normSq_def]
example : pointInCylinder exPoint exPose 1 1 = true := by
  rw [cylinder_exact exPose_orth one_pos one_pos, cylinderSet, poseImage_iff exPose_orth,
    exPoint_local, cylinderLocal, radial_le_iff zero_le_one]
  norm_num [abs_le]
example : pointInBox exPoint exPose ⟨1, 1, 1⟩ = true := by
  rw [box_exact exPose_orth, boxSet, poseImage_iff exPose_orth, exPoint_local, boxLocal]
  norm_num [abs_le]
example : pointInDisk exPoint exPose.t 1 exPose.R.col2 = false := by
  rw [Bool.eq_false_iff, Ne, disk_exact exPose_orth one_pos, diskSlabSet, poseImage_iff exPose_orth,
    exPoint_local, diskSlabLocal]
  have := diskSlab_small.2
  rintro ⟨h, _⟩
  rw [abs_le] at h
  norm_num at h this
  linarith [h.2]
-- capsule / cone / ellipsoid: the point (1/2, 0, 1/2) lies on the cone's lateral surface
example : ∃ b, pointInCone exPoint exPose 1 1 = .ok b ∧ b = true := by
  obtain ⟨b, hb, hiff⟩ := cone_exact exPose_orth one_pos one_pos exPoint
  refine ⟨b, hb, hiff.mpr ?_⟩
  rw [coneSet, poseImage_iff exPose_orth, exPoint_local, coneLocal,
    radial_le_iff (by norm_num)]
  norm_num
example : ∃ b, pointInCapsule exPoint exPose (1 / 2) 1 = .ok b ∧ b = true := by
  obtain ⟨b, hb, hiff⟩ := capsule_exact exPose_orth (by norm_num : (0 : ℝ) < 1 / 2) one_pos exPoint
  refine ⟨b, hb, hiff.mpr ?_⟩
  rw [capsuleSet, poseImage_iff exPose_orth, exPoint_local]
  refine ⟨1 / 2, by norm_num [abs_le], ?_⟩
  rw [norm_le_iff (by norm_num)]
  norm_num [V3.normSq_def]
example : ∃ b, pointInEllipsoid exPoint exPose ⟨1, 2, 1 / 2⟩ = .ok b ∧ b = false := by
  obtain ⟨b, hb, hiff⟩ := ellipsoid_exact exPose_orth (radii := ⟨1, 2, 1 / 2⟩) one_pos two_pos
    (by norm_num) exPoint
  refine ⟨b, hb, ?_⟩
  rw [Bool.eq_false_iff, Ne, hiff, ellipsoidSet, poseImage_iff exPose_orth, exPoint_local,
    ellipsoidLocal]
  norm_num

/-- unit tetrahedron with outward-oriented triangles -/
def exVerts : Array V := #[⟨0, 0, 0⟩, ⟨1, 0, 0⟩, ⟨0, 1, 0⟩, ⟨0, 0, 1⟩]
def exTris : List (Int × Int × Int) := [(0, 2, 1), (0, 1, 3), (0, 3, 2), (1, 2, 3)]
def exFaces : List (Face ℝ) :=
  [⟨⟨0, 0, 0⟩, ⟨0, 1, 0⟩, ⟨1, 0, 0⟩⟩, ⟨⟨0, 0, 0⟩, ⟨1, 0, 0⟩, ⟨0, 0, 1⟩⟩,
   ⟨⟨0, 0, 0⟩, ⟨0, 0, 1⟩, ⟨0, 1, 0⟩⟩, ⟨⟨1, 0, 0⟩, ⟨0, 1, 0⟩, ⟨0, 0, 1⟩⟩]

example : meshFaces exVerts exTris = .ok exFaces := by
  simp [meshFaces, getFace, getVertex, exVerts, exTris, exFaces, bind, Except.bind, pure,
    Except.pure]

/-- the precondition of `mesh_hull_subset` holds for the tetrahedron -/
example : ∀ v ∈ exVerts.toList, ∀ f ∈ exFaces,
    V3.dot (faceNormal f) (v - faceCenter f) ≤ 0 := by
  intro v hv f hf
  simp only [exVerts, exFaces, List.mem_cons, List.not_mem_nil, or_false] at hv hf
  rcases hv with rfl | rfl | rfl | rfl <;> rcases hf with rfl | rfl | rfl | rfl <;>
    norm_num [faceNormal, faceCenter, three, V3.cross, V3.sdiv, V3.dot_def]

/-! ## convex mesh, converse direction: the accepted set is a convex half-space intersection;
for a tetrahedron it is exactly the hull of the vertices -/

/-- the example tetrahedron is `tetFaces` of its four vertices and is positively oriented -/
theorem exFaces_eq : exFaces = tetFaces ⟨0, 0, 0⟩ ⟨1, 0, 0⟩ ⟨0, 1, 0⟩ ⟨0, 0, 1⟩ := rfl
theorem exTet_pos : 0 < tetDet (⟨0, 0, 0⟩ : V) ⟨1, 0, 0⟩ ⟨0, 1, 0⟩ ⟨0, 0, 1⟩ := by
  norm_num [tetDet, V3.cross, V3.dot_def]

/-- **C13, mesh, exact characterisation of the accepted set.** For every pose (orthonormal or
not) and every face list, the loop body of `points_in_convex_mesh` accepts `p` iff the pulled-back
point `Rᵀ(p − t)` lies in every face half-space `⟨n_f, x − centroid_f⟩ ≤ 0` (tolerance of the
code: none, the comparison is `> 0` negated). -/
theorem mesh_predicate_is_halfspace_intersection (A : Pose ℝ) (fs : List (Face ℝ)) (p : V) :
    pointInFaces fs A p = true ↔
      ∀ f ∈ fs, V3.dot (faceNormal f) (A.applyInv p - faceCenter f) ≤ 0 :=
  pointInFaces_iff_local fs A p

example : pointInFaces exFaces exPose (exPose.apply ⟨1 / 4, 1 / 4, 1 / 4⟩) = true := by
  rw [mesh_predicate_is_halfspace_intersection, Pose.applyInv_apply exPose_orth]
  intro f hf
  simp only [exFaces, List.mem_cons, List.not_mem_nil, or_false] at hf
  rcases hf with rfl | rfl | rfl | rfl <;>
    norm_num [faceNormal, faceCenter, three, V3.cross, V3.sdiv, V3.dot_def]

/-- **C13, mesh, the same in the world frame** (orthonormal pose): the accepted set is the
intersection of the half-spaces with normal `R n_f` through the posed centroid. -/
theorem mesh_predicate_is_halfspace_intersection_world {A : Pose ℝ} (hA : Orthonormal A.R)
    (fs : List (Face ℝ)) (p : V) :
    pointInFaces fs A p = true ↔
      ∀ f ∈ fs, V3.dot (A.R.mulVec (faceNormal f)) (p - A.apply (faceCenter f)) ≤ 0 := by
  rw [mesh_predicate_is_halfspace_intersection]
  have key : ∀ f : Face ℝ, V3.dot (A.R.mulVec (faceNormal f)) (p - A.apply (faceCenter f)) =
      V3.dot (faceNormal f) (A.applyInv p - faceCenter f) := by
    intro f
    have e : p - A.apply (faceCenter f) = A.R.mulVec (A.applyInv p - faceCenter f) := by
      conv_lhs => rw [← Pose.apply_applyInv hA p]
      unfold Pose.apply
      apply V3.ext' <;>
        simp only [M3.mulVec, V3.dot_def, V3.add_x, V3.add_y, V3.add_z, V3.sub_x, V3.sub_y,
          V3.sub_z] <;> ring
    rw [e, hA.dot_mulVec]
  simp only [key]

example : Orthonormal exPose.R := exPose_orth

/-- **C13, mesh, the accepted set is convex**: if `p` and `q` are accepted, so is every point of
the segment between them (any pose, any face list). -/
theorem mesh_predicate_convex (A : Pose ℝ) (fs : List (Face ℝ)) (p q : V)
    (hp : pointInFaces fs A p = true) (hq : pointInFaces fs A q = true) (s : ℝ) (h0 : 0 ≤ s)
    (h1 : s ≤ 1) : pointInFaces fs A ((1 - s) * p + s * q) = true := by
  rw [pointInFaces_iff_local] at hp hq ⊢
  rw [applyInv_lerp]
  exact facesLocal_lerp fs _ _ hp hq s h0 h1

/-- two accepted points of the example tetrahedron (a vertex and an interior point) -/
theorem exAccepted (q : V) (hq : q = ⟨0, 0, 1⟩ ∨ q = ⟨1 / 4, 1 / 4, 1 / 4⟩) :
    pointInFaces exFaces exPose (exPose.apply q) = true := by
  rw [mesh_predicate_is_halfspace_intersection, Pose.applyInv_apply exPose_orth]
  intro f hf
  simp only [exFaces, List.mem_cons, List.not_mem_nil, or_false] at hf
  rcases hq with rfl | rfl <;> rcases hf with rfl | rfl | rfl | rfl <;>
    norm_num [faceNormal, faceCenter, three, V3.cross, V3.sdiv, V3.dot_def]

example : pointInFaces exFaces exPose ((1 - 1 / 3 : ℝ) * exPose.apply ⟨0, 0, 1⟩ +
    (1 / 3 : ℝ) * exPose.apply ⟨1 / 4, 1 / 4, 1 / 4⟩) = true :=
  mesh_predicate_convex exPose exFaces _ _ (exAccepted _ (Or.inl rfl)) (exAccepted _ (Or.inr rfl))
    (1 / 3) (by norm_num) (by norm_num)

/-- **C13, mesh, predicate ⊆ hull for a tetrahedron.** Let `a b c d` span a non-degenerate
tetrahedron labelled so that `⟨(b−a)×(c−a), d−a⟩ > 0` (always possible by swapping two labels),
and let the face list contain its four outward-wound triangles `(a,c,b) (a,b,d) (a,d,c) (b,c,d)`.
Then every accepted point is a convex combination of the four (posed) vertices: the barycentric
coordinate of a vertex is `−faceProj(opposite face)/det ≥ 0`. -/
theorem mesh_tetra_predicate_subset_hull {A : Pose ℝ} (hA : Orthonormal A.R) (a b c d : V)
    (hD : 0 < tetDet a b c d) (fs : List (Face ℝ)) (hsub : ∀ f ∈ tetFaces a b c d, f ∈ fs) (p : V)
    (hp : pointInFaces fs A p = true) : hullSet A [a, b, c, d] p := by
  rw [pointInFaces_iff hA] at hp
  obtain ⟨q, hq, rfl⟩ := hp
  exact ⟨q, tet_faces_subset_hull a b c d hD q (fun f hf => hq f (hsub f hf)), rfl⟩

example : hullSet exPose [⟨0, 0, 0⟩, ⟨1, 0, 0⟩, ⟨0, 1, 0⟩, ⟨0, 0, 1⟩]
    (exPose.apply ⟨1 / 4, 1 / 4, 1 / 4⟩) := by
  refine mesh_tetra_predicate_subset_hull exPose_orth _ _ _ _ exTet_pos exFaces
    (by rw [exFaces_eq]; exact fun f hf => hf) _ ?_
  rw [mesh_predicate_is_halfspace_intersection, Pose.applyInv_apply exPose_orth]
  intro f hf
  simp only [exFaces, List.mem_cons, List.not_mem_nil, or_false] at hf
  rcases hf with rfl | rfl | rfl | rfl <;>
    norm_num [faceNormal, faceCenter, three, V3.cross, V3.sdiv, V3.dot_def]

/-- **C13, mesh, the tetrahedron predicate is exact for the hull.** For the outward-wound
non-degenerate tetrahedron the model predicate is `true` exactly on the posed convex hull of the
four vertices (both inclusions, no further precondition). -/
theorem mesh_tetra_exact {A : Pose ℝ} (hA : Orthonormal A.R) (a b c d : V)
    (hD : 0 < tetDet a b c d) (p : V) :
    pointInFaces (tetFaces a b c d) A p = true ↔ hullSet A [a, b, c, d] p :=
  ⟨mesh_tetra_predicate_subset_hull hA a b c d hD _ (fun _ hf => hf) p,
   mesh_hull_subset hA [a, b, c, d] (tetFaces a b c d)
     (tet_vertices_in_faces a b c d (le_of_lt hD)) p⟩

example (p : V) : pointInFaces exFaces exPose p = true ↔
    hullSet exPose [⟨0, 0, 0⟩, ⟨1, 0, 0⟩, ⟨0, 1, 0⟩, ⟨0, 0, 1⟩] p :=
  mesh_tetra_exact exPose_orth _ _ _ _ exTet_pos p

/-- **C13, mesh, tetrahedron of the other orientation.** If `⟨(b−a)×(c−a), d−a⟩ < 0`, the
outward-wound faces are those of the relabelled tetrahedron `a c b d`, and the predicate on them
is again exact for the hull; together with `mesh_tetra_exact` this covers every non-degenerate
tetrahedron (`tetDet ≠ 0`). -/
theorem mesh_tetra_exact_neg {A : Pose ℝ} (hA : Orthonormal A.R) (a b c d : V)
    (hD : tetDet a b c d < 0) (p : V) :
    pointInFaces (tetFaces a c b d) A p = true ↔ hullSet A [a, c, b, d] p :=
  mesh_tetra_exact hA a c b d (by rw [tetDet_swap]; linarith) p

example : tetDet (⟨0, 0, 0⟩ : V) ⟨0, 2, 0⟩ ⟨1, 0, 0⟩ ⟨0, 0, 3⟩ < 0 := by
  norm_num [tetDet, V3.cross, V3.dot_def]

/-- **C13, mesh, rejection soundness.** Under the vertex/face precondition of
`mesh_hull_subset`, a rejected point is not in the posed hull of the vertices. -/
theorem mesh_reject_not_in_hull {A : Pose ℝ} (hA : Orthonormal A.R) (vs : List V)
    (fs : List (Face ℝ))
    (hv : ∀ v ∈ vs, ∀ f ∈ fs, V3.dot (faceNormal f) (v - faceCenter f) ≤ 0) (p : V)
    (hp : pointInFaces fs A p = false) : ¬ hullSet A vs p := by
  intro hh
  rw [mesh_hull_subset hA vs fs hv p hh] at hp
  exact Bool.noConfusion hp

example : ¬ hullSet exPose [⟨0, 0, 0⟩, ⟨1, 0, 0⟩, ⟨0, 1, 0⟩, ⟨0, 0, 1⟩]
    (exPose.apply ⟨1 / 3, 1 / 3, 2 / 5⟩) := by
  refine mesh_reject_not_in_hull exPose_orth _ exFaces
    (by rw [exFaces_eq]; exact tet_vertices_in_faces _ _ _ _ (le_of_lt exTet_pos)) _ ?_
  rw [Bool.eq_false_iff, Ne, mesh_predicate_is_halfspace_intersection,
    Pose.applyInv_apply exPose_orth]
  intro h
  have := h ⟨⟨1, 0, 0⟩, ⟨0, 1, 0⟩, ⟨0, 0, 1⟩⟩ (by simp [exFaces])
  norm_num [faceNormal, faceCenter, three, V3.cross, V3.sdiv, V3.dot_def] at this

/-! ## the same model terms, executed at `Rat` on the 3-4-5 pose (kernel evaluation, no axioms):
boundary points are accepted, points just outside are rejected -/

def exPoseQ : Pose Rat := ⟨⟨⟨1, 0, 0⟩, ⟨0, 3 / 5, -4 / 5⟩, ⟨0, 4 / 5, 3 / 5⟩⟩, ⟨1, 2, 3⟩⟩

/-- `.ok b ↦ b`, NaN ↦ `none` -/
def val (r : Except Err Bool) : Option Bool := match r with | .ok b => some b | .error _ => none

example : pointInCylinder (exPoseQ.apply ⟨3 / 5, 4 / 5, 1 / 2⟩) exPoseQ 1 1 = true := by decide +kernel
example : pointInCylinder (exPoseQ.apply ⟨3 / 5, 4 / 5, 501 / 1000⟩) exPoseQ 1 1 = false := by decide +kernel
example : pointInBox (exPoseQ.apply ⟨1 / 2, -1, 1 / 4⟩) exPoseQ ⟨1, 2, 1 / 2⟩ = true := by decide +kernel
example : pointInBox (exPoseQ.apply ⟨1 / 2, -1, 251 / 1000⟩) exPoseQ ⟨1, 2, 1 / 2⟩ = false := by decide +kernel
example : pointInSphere (exPoseQ.apply ⟨3 / 5, 0, 4 / 5⟩) exPoseQ.t 1 = true := by decide +kernel
example : val (pointInCone (exPoseQ.apply ⟨1 / 2, 0, 1 / 2⟩) exPoseQ 1 1) = some true := by decide +kernel
example : val (pointInCone (exPoseQ.apply ⟨1 / 2, 1 / 1000, 1 / 2⟩) exPoseQ 1 1) = some false := by
  decide +kernel
example : val (pointInCone (exPoseQ.apply ⟨0, 0, 1⟩) exPoseQ 1 1) = some true := by decide +kernel
example : val (pointInCapsule (exPoseQ.apply ⟨0, 0, 1⟩) exPoseQ (1 / 2) 1) = some true := by decide +kernel
example : val (pointInCapsule (exPoseQ.apply ⟨0, 0, 1001 / 1000⟩) exPoseQ (1 / 2) 1) = some false := by
  decide +kernel
example : val (pointInEllipsoid (exPoseQ.apply ⟨3 / 5, 8 / 5, 0⟩) exPoseQ ⟨1, 2, 1 / 2⟩) = some true := by
  decide +kernel
example : val (pointInCapsule (exPoseQ.apply ⟨0, 0, 1⟩) exPoseQ (1 / 2) 0) = none := by decide +kernel
example : pointInDisk (exPoseQ.apply ⟨3 / 5, 4 / 5, 0⟩) exPoseQ.t 1 exPoseQ.R.col2 = true := by decide +kernel
example : pointInDisk (exPoseQ.apply ⟨3 / 5, 4 / 5, 1 / 1000000000⟩) exPoseQ.t 1 exPoseQ.R.col2 = false := by
  decide +kernel
example : (pointsInConvexMesh [exPoseQ.apply ⟨1 / 3, 1 / 3, 1 / 3⟩, exPoseQ.apply ⟨1 / 3, 1 / 3, 2 / 5⟩] exPoseQ
    #[⟨0, 0, 0⟩, ⟨1, 0, 0⟩, ⟨0, 1, 0⟩, ⟨0, 0, 1⟩] exTris).toOption = some [true, false] := by decide +kernel

end C13
end D3
