/-
C07 — EPA returns the minimum translation vector whenever it reports success.

Property theorems only (helper lemmas live in D3/Proofs/Epa*.lean).  `M` is the Minkowski
difference `A ⊖ B` as an arbitrary set of points; the two colliders enter only through the
support point `w` they return for the direction `n` (C03 contract: `IsSupport M n w`).
Sign convention (checked against `epa.epa` on the real code, see harness/props/c07.py): the
returned vector is to be **added to collider 2**; `A ⊖ (B + t) = M − t =: shifted M t`.

Strength S2 (exit-branch theorems, every polytope state, every convex set):
* `success_separates`, `epa_success_separates` — success ⇒ a separating plane, no residual overlap;
* `length_ge_depth` — the returned length is an extent of `M`, hence ≥ the penetration depth;
* `minimal_under_inv_partial`, `gap_under_inv` — under the polytope invariant `EpaInv` the
  length is < depth + epsilon and the translated pair is within epsilon of contact.
  **Partial**: preservation of `EpaInv` by the expansion step is *not* proved (and is false for
  inward-wound simplices, after a `norm < 0.5` skip or a loose-edge overflow);
* `inv_initial` — `EpaInv` holds at the start for an outward-wound tetrahedron (origin inside);
  `inward_winding_all_normals_inward`, `wrong_winding_counterexample` — for the other 12 row
  orders every initial normal points inward (the code never re-orients them);
* `fixCcw_asIs_counterexample` — the winding repair, as executed, loses a vertex;
* `degenerate_simplex_asIs_counterexample` — a simplex with two valid rows (what gjk hands over
  for two unit cubes offset by 1/2) makes the model return `mtv = 0` with `success = true`.
Strength S3: `facesCertificate_sound_partial` — soundness of the checker run on returned faces.
-/
import D3.Proofs.EpaLoop
import D3.Proofs.EpaCert
import D3.Proofs.EpaDegenerate
import Mathlib.Tactic.NormNum

namespace D3
namespace C07
open Epa

/-- **C07, success exit separates.** If `w` is a support point of `M = A ⊖ B` in the unit
direction `n` (the normal of the closest face), then every point of `M` satisfies
`⟨x,n⟩ ≤ ⟨w,n⟩`; after translating collider 2 by the returned `mtv = ⟨w,n⟩ n` the whole
difference lies in the half-space `⟨y,n⟩ ≤ 0`, the origin is not an interior point of it (no
residual overlap), and it still touches the separating plane.  No assumption on the polytope. -/
theorem success_separates (M : V → Prop) (n w : V) (hn : IsUnitVec n) (hw : IsSupport M n w) :
    (∀ x, M x → V3.dot x n ≤ V3.dot w n) ∧
    (∀ y, shifted M (mtvOf n w) y → V3.dot y n ≤ 0) ∧
    (∀ r : ℝ, 0 < r → ∃ y : V, V3.normSq y < r * r ∧ ¬ shifted M (mtvOf n w) y) ∧
    (shifted M (mtvOf n w) (w - mtvOf n w) ∧ V3.dot (w - mtvOf n w) n = 0) :=
  ⟨support_plane hw, shifted_below hn hw, origin_not_interior hn hw, shifted_touches hn hw⟩

/-- the cube `[-1,1]³` -/
def cube : V → Prop := fun p => -1 ≤ p.x ∧ p.x ≤ 1 ∧ -1 ≤ p.y ∧ p.y ≤ 1 ∧ -1 ≤ p.z ∧ p.z ≤ 1

/-- non-vacuity: the cube, direction `e_x`, support point `(1, 1/2, 0)` -/
example : IsUnitVec (⟨1, 0, 0⟩ : V) ∧ IsSupport cube ⟨1, 0, 0⟩ ⟨1, 1 / 2, 0⟩ := by
  refine ⟨by norm_num [IsUnitVec, V3.dot_def], ?_, ?_⟩
  · norm_num [cube]
  · intro x hx; obtain ⟨_, h, _⟩ := hx; simp only [V3.dot_def]; linarith

/-- **C07, success exit of the executable model.** For every parameter set, every support
oracle satisfying the contract, every non-degenerate simplex **of either winding** and every
number of iterations: if the model of `epa` returns `success = true`, the returned vector is
`⟨w,n⟩ n` for a unit vector `n` and a support point `w` of `M` in direction `n`, so the
conclusions of `success_separates` hold for it. -/
theorem epa_success_separates (M : V → Prop) (p : Params ℝ) (supp : Nat → V → V)
    (hsupp : ∀ it d, IsSupport M d (supp it d)) (s0 s1 s2 s3 : V)
    (hnd : orient s0 s1 s2 s3 ≠ 0) (r : Result ℝ)
    (h : epa p (fixCcwAsIs p.bias) supp s0 s1 s2 s3 = .ok r) (hs : r.success = true) :
    ∃ n w, IsUnitVec n ∧ IsSupport M n w ∧ r.mtv = some (mtvOf n w) ∧
      (∀ x, M x → V3.dot x n ≤ V3.dot w n) ∧
      (∀ y, shifted M (mtvOf n w) y → V3.dot y n ≤ 0) := by
  unfold epa at h
  obtain ⟨i, f, j, hc, _, hm⟩ := loop_success _ _ _ _ r h hs
  have hu : IsUnitVec f.n :=
    loop_pred normalPred_isUnit (fixOk_asIs p.bias) _ _ _ _ r h (initFaces_unit hnd) f
      (closest_spec hc).2.1
  exact ⟨f.n, supp j f.n, hu, hsupp j f.n, hm, support_plane (hsupp j f.n),
    shifted_below hu (hsupp j f.n)⟩

/-- **C07, returned length ≥ penetration depth.** `|mtv| = ⟨w,n⟩` is the extent of `M` along
`n`; any number `D` that is a lower bound of the extents `h_M(m)` over all unit directions `m`
(in particular the penetration depth, their infimum) is ≤ the returned length. -/
theorem length_ge_depth (M : V → Prop) (n w : V) (hn : IsUnitVec n) (hw : IsSupport M n w)
    (h0 : M ⟨0, 0, 0⟩) (D : ℝ)
    (hD : ∀ m p, IsUnitVec m → IsSupport M m p → D ≤ V3.dot p m) :
    V3.norm (mtvOf n w) = V3.dot w n ∧ D ≤ V3.norm (mtvOf n w) := by
  have hnn : 0 ≤ V3.dot w n := by
    have := support_plane hw _ h0
    simpa [V3.dot_def] using this
  have e : V3.norm (mtvOf n w) = V3.dot w n := by rw [norm_mtvOf hn, abs_of_nonneg hnn]
  exact ⟨e, by rw [e]; exact hD n w hn hw⟩

example : cube ⟨0, 0, 0⟩ := by norm_num [cube]

/-- **C07, minimality under the polytope invariant (partial).** If the faces satisfy `EpaInv`
(unit normals, origin on the inner side of every face, region bounded by the faces inside `M`),
`f` is the closest face and the convergence test `⟨w,n⟩ − d_f < ε` passed, then the returned
length is below `h_M(m) + ε` for **every** unit direction `m` — i.e. below depth + ε.
Preservation of `EpaInv` by the expansion step is not proved. -/
theorem minimal_under_inv_partial (M : V → Prop) (faces : List (Face ℝ)) (inv : EpaInv M faces)
    (i : Nat) (d : ℝ) (f : Face ℝ) (hc : closest faces = .ok (i, d, f)) (w : V) (eps : ℝ)
    (hconv : V3.dot w f.n - d < eps) :
    ∀ m p, IsUnitVec m → IsSupport M m p → V3.dot w f.n < V3.dot p m + eps := by
  intro m p hm hp
  obtain ⟨_, hf, hd, hmin⟩ := closest_spec hc
  have hd0 : 0 ≤ d := by rw [hd]; exact inv.nonneg f hf
  have hin : M (d * m) := inv.inside _ (scaled_unit_in_poly inv.unit hd0 hmin hm)
  have h1 := hp.2 _ hin
  have e : V3.dot m (d * m) = d := by
    unfold IsUnitVec at hm
    simp only [V3.dot_def, V3.smul_x, V3.smul_y, V3.smul_z] at *
    linear_combination d * hm
  rw [e, V3.dot_comm m p] at h1
  linarith

/-- **C07, touching contact under the polytope invariant.** Under the same hypotheses the
returned vector is within `ε` of a point of `M`: after translating collider 2 by `mtv` the
difference contains a point at distance `< ε` from the origin, i.e. the remaining gap is `< ε`
(and by `success_separates` there is no residual overlap). -/
theorem gap_under_inv (M : V → Prop) (faces : List (Face ℝ)) (inv : EpaInv M faces)
    (i : Nat) (d : ℝ) (f : Face ℝ) (hc : closest faces = .ok (i, d, f)) (w : V) (eps : ℝ)
    (hw : IsSupport M f.n w) (hconv : V3.dot w f.n - d < eps) :
    ∃ y, shifted M (mtvOf f.n w) y ∧ V3.normSq y < eps * eps := by
  obtain ⟨_, hf, hd, hmin⟩ := closest_spec hc
  have hd0 : 0 ≤ d := by rw [hd]; exact inv.nonneg f hf
  have hu := inv.unit f hf
  have hin : M (d * f.n) := inv.inside _ (scaled_unit_in_poly inv.unit hd0 hmin hu)
  have h1 := hw.2 _ hin
  have e : V3.dot f.n (d * f.n) = d := by
    unfold IsUnitVec at hu
    simp only [V3.dot_def, V3.smul_x, V3.smul_y, V3.smul_z] at *
    linear_combination d * hu
  rw [e, V3.dot_comm f.n w] at h1
  refine ⟨d * f.n - mtvOf f.n w, ⟨_, hin, rfl⟩, ?_⟩
  have e2 : V3.normSq (d * f.n - mtvOf f.n w) = (V3.dot w f.n - d) * (V3.dot w f.n - d) := by
    unfold IsUnitVec at hu
    simp only [mtvOf, V3.smul, V3.normSq_def, V3.dot_def, V3.sub_x, V3.sub_y, V3.sub_z,
      V3.smul_x, V3.smul_y, V3.smul_z] at *
    linear_combination ((w.x * f.n.x + w.y * f.n.y + w.z * f.n.z - d) *
      (w.x * f.n.x + w.y * f.n.y + w.z * f.n.z - d)) * hu
  rw [e2]
  nlinarith [h1, hconv]

/-- **C07, the invariant at the start.** For a non-degenerate tetrahedron of points of a convex
set `M` that contains the origin (barycentric weights `la … ld ≥ 0`), **wound outward**
(`⟨(B−A)×(C−A), D−A⟩ < 0`), the four faces the code builds satisfy `EpaInv`. -/
theorem inv_initial (M : V → Prop) (hM : ConvexSet M) (A B C D : V)
    (hA : M A) (hB : M B) (hC : M C) (hD : M D) (ho : orient A B C D < 0)
    (la lb lc ld : ℝ) (h0 : OriginInside A B C D la lb lc ld)
    (hla : 0 ≤ la) (hlb : 0 ≤ lb) (hlc : 0 ≤ lc) (hld : 0 ≤ ld) :
    EpaInv M (initFaces A B C D) := by
  have hne : orient A B C D ≠ 0 := ne_of_lt ho
  obtain ⟨p1, p2, p3, p4⟩ := raw_normals_pos hne
  refine ⟨initFaces_unit hne, ?_, ?_⟩
  · intro g hg
    simp only [initFaces, List.mem_cons, List.not_mem_nil, or_false] at hg
    rcases hg with rfl | rfl | rfl | rfl
    · rw [faceDist_mkFace p1, raw_dist_ABC h0]
      exact div_nonneg (by nlinarith) (V3.norm_nonneg _)
    · rw [faceDist_mkFace p2, raw_dist_ACD h0]
      exact div_nonneg (by nlinarith) (V3.norm_nonneg _)
    · rw [faceDist_mkFace p3, raw_dist_ADB h0]
      exact div_nonneg (by nlinarith) (V3.norm_nonneg _)
    · rw [faceDist_mkFace p4, raw_dist_BDC h0]
      exact div_nonneg (by nlinarith) (V3.norm_nonneg _)
  · intro x hx
    have i1 := (inner_mkFace_iff p1 x).mp (hx _ (by simp [initFaces]))
    have i2 := (inner_mkFace_iff p2 x).mp (hx _ (by simp [initFaces]))
    have i3 := (inner_mkFace_iff p3 x).mp (hx _ (by simp [initFaces]))
    have i4 := (inner_mkFace_iff p4 x).mp (hx _ (by simp [initFaces]))
    obtain ⟨bx, by', bz, bs⟩ := barycentric A B C D x
    generalize orient A B C D = Δ at *
    generalize V3.dot (nABC A B C) (x - A) = hd at *
    generalize V3.dot (nABC A C D) (x - A) = hb at *
    generalize V3.dot (nABC A D B) (x - A) = hc at *
    generalize V3.dot (nABC B D C) (x - B) = ha at *
    have key := hM.convex4 A B C D hA hB hC hD (ha / Δ) (hb / Δ) (hc / Δ) (hd / Δ)
      (div_nonneg_of_nonpos i4 ho.le) (div_nonneg_of_nonpos i2 ho.le)
      (div_nonneg_of_nonpos i3 ho.le) (div_nonneg_of_nonpos i1 ho.le)
      (by field_simp; linarith)
    have e : ha / Δ * A + hb / Δ * B + hc / Δ * C + hd / Δ * D = x := by
      apply V3.ext' <;> simp only [V3.add_x, V3.add_y, V3.add_z, V3.smul_x, V3.smul_y, V3.smul_z]
        <;> field_simp <;> linarith
    rw [e] at key; exact key

/-- the ball-free convex set used in the examples: the cube scaled by 2 -/
def cube2 : V → Prop := fun p => -2 ≤ p.x ∧ p.x ≤ 2 ∧ -2 ≤ p.y ∧ p.y ≤ 2 ∧ -2 ≤ p.z ∧ p.z ≤ 2

theorem cube2_convex : ConvexSet cube2 := by
  intro x y hx hy t h0 h1
  obtain ⟨a1, a2, a3, a4, a5, a6⟩ := hx
  obtain ⟨b1, b2, b3, b4, b5, b6⟩ := hy
  simp only [cube2, V3.add_x, V3.add_y, V3.add_z, V3.smul_x, V3.smul_y, V3.smul_z]
  refine ⟨?_, ?_, ?_, ?_, ?_, ?_⟩ <;> nlinarith

/-- non-vacuity of `inv_initial` (hence of `minimal_under_inv_partial` / `gap_under_inv`): the
tetrahedron `(1,0,0), (0,1,0), (0,0,1), (−1,−1,−1)` inside the cube `[-2,2]³`, weights 1/4 -/
example : EpaInv cube2 (initFaces ⟨1, 0, 0⟩ ⟨0, 1, 0⟩ ⟨0, 0, 1⟩ ⟨-1, -1, -1⟩) :=
  inv_initial cube2 cube2_convex _ _ _ _ (by norm_num [cube2]) (by norm_num [cube2])
    (by norm_num [cube2]) (by norm_num [cube2])
    (by norm_num [orient, V3.cross, V3.dot_def]) (1 / 4) (1 / 4) (1 / 4) (1 / 4)
    ⟨by norm_num, by norm_num, by norm_num, by norm_num⟩
    (by norm_num) (by norm_num) (by norm_num) (by norm_num)

/-- **C07, the other twelve row orders.** For a tetrahedron with the origin strictly inside
whose rows are wound the other way (`⟨(B−A)×(C−A), D−A⟩ > 0`) every one of the four initial
faces has a negative distance `⟨v0, n⟩`: all as-is normals point **towards** the origin. The code
never re-orients them (`orient_swap01`: exchanging two rows flips the sign, so exactly half of
the row orders of any tetrahedron are of this kind). -/
theorem inward_winding_all_normals_inward (A B C D : V) (ho : 0 < orient A B C D)
    (la lb lc ld : ℝ) (h0 : OriginInside A B C D la lb lc ld)
    (hla : 0 < la) (hlb : 0 < lb) (hlc : 0 < lc) (hld : 0 < ld) :
    ∀ f ∈ initFaces A B C D, faceDist f < 0 := by
  have hne : orient A B C D ≠ 0 := ne_of_gt ho
  obtain ⟨p1, p2, p3, p4⟩ := raw_normals_pos hne
  intro g hg
  simp only [initFaces, List.mem_cons, List.not_mem_nil, or_false] at hg
  rcases hg with rfl | rfl | rfl | rfl
  · rw [faceDist_mkFace p1, raw_dist_ABC h0]
    exact div_neg_of_neg_of_pos (by nlinarith) (norm_pos_of_normSq_pos p1)
  · rw [faceDist_mkFace p2, raw_dist_ACD h0]
    exact div_neg_of_neg_of_pos (by nlinarith) (norm_pos_of_normSq_pos p2)
  · rw [faceDist_mkFace p3, raw_dist_ADB h0]
    exact div_neg_of_neg_of_pos (by nlinarith) (norm_pos_of_normSq_pos p3)
  · rw [faceDist_mkFace p4, raw_dist_BDC h0]
    exact div_neg_of_neg_of_pos (by nlinarith) (norm_pos_of_normSq_pos p4)

/-- **C07, as-is counterexample to the outward-normal invariant.** The rational tetrahedron
`(0,1,0), (1,0,0), (0,0,1), (−1,−1,−1)` (the one of the example above with rows 0 and 1
exchanged) has the origin strictly inside, yet all four initial normals point inward, so
`EpaInv` fails at the start for any `M`. -/
theorem wrong_winding_counterexample :
    ∃ A B C D : V, (∃ la lb lc ld : ℝ, OriginInside A B C D la lb lc ld ∧ 0 < la ∧ 0 < lb ∧
        0 < lc ∧ 0 < ld) ∧
      (∀ f ∈ initFaces A B C D, faceDist f < 0) ∧
      ∀ M : V → Prop, ¬ EpaInv M (initFaces A B C D) := by
  refine ⟨⟨0, 1, 0⟩, ⟨1, 0, 0⟩, ⟨0, 0, 1⟩, ⟨-1, -1, -1⟩, ?_, ?_, ?_⟩
  · exact ⟨1 / 4, 1 / 4, 1 / 4, 1 / 4, ⟨by norm_num, by norm_num, by norm_num, by norm_num⟩,
      by norm_num, by norm_num, by norm_num, by norm_num⟩
  · exact inward_winding_all_normals_inward _ _ _ _ (by norm_num [orient, V3.cross, V3.dot_def])
      (1 / 4) (1 / 4) (1 / 4) (1 / 4) ⟨by norm_num, by norm_num, by norm_num, by norm_num⟩
      (by norm_num) (by norm_num) (by norm_num) (by norm_num)
  · intro M inv
    have h := inward_winding_all_normals_inward (⟨0, 1, 0⟩ : V) ⟨1, 0, 0⟩ ⟨0, 0, 1⟩ ⟨-1, -1, -1⟩
      (by norm_num [orient, V3.cross, V3.dot_def])
      (1 / 4) (1 / 4) (1 / 4) (1 / 4) ⟨by norm_num, by norm_num, by norm_num, by norm_num⟩
      (by norm_num) (by norm_num) (by norm_num) (by norm_num)
    have f0 : mkFace (⟨0, 1, 0⟩ : V) ⟨1, 0, 0⟩ ⟨0, 0, 1⟩ ∈
        initFaces (⟨0, 1, 0⟩ : V) ⟨1, 0, 0⟩ ⟨0, 0, 1⟩ ⟨-1, -1, -1⟩ := by simp [initFaces]
    have := inv.nonneg _ f0
    have := h _ f0
    linarith

/-- **C07, as-is counterexample for the winding repair.** With the library's bias, on the face
`(1,0,0), (0,1,0), (0,0,1)` with stored normal `(−1,0,0)` the flip condition holds; the code as
executed (swap through numpy views) returns a face without the vertex `(1,0,0)`, whereas the
documented behaviour keeps all three vertices. -/
theorem fixCcw_asIs_counterexample :
    ∃ f : Face ℝ,
      f.a ∉ faceVerts (fixCcwAsIs Gen.epa__fix_ccw_normal_direction__bias f) ∧
      f.a ∈ faceVerts (fixCcwFixed Gen.epa__fix_ccw_normal_direction__bias f) := by
  refine ⟨⟨⟨1, 0, 0⟩, ⟨0, 1, 0⟩, ⟨0, 0, 1⟩, ⟨-1, 0, 0⟩⟩, ?_, ?_⟩
  · rw [fixCcwAsIs_flip (by norm_num [V3.dot_def, Gen.epa__fix_ccw_normal_direction__bias])]
    simp [faceVerts]
  · rw [fixCcwFixed_flip (by norm_num [V3.dot_def, Gen.epa__fix_ccw_normal_direction__bias])]
    simp [faceVerts]

/-- **C07, as-is counterexample for a degenerate simplex.** For two unit cubes offset by 1/2
along x, gjk reports an overlap but ends with two valid simplex rows `(1/2,0,0)`, `(−3/2,0,0)`;
with the remaining rows zero, the model of `epa` (default parameters, any colliders) returns
`mtv = 0` with `success = true` in its first iteration — although the penetration depth of the
cubes is 1/2 (`length_ge_depth` would demand `|mtv| ≥ 1/2`; its hypothesis that the closest
face's normal is a unit vector fails: the stored "normal" is the zero vector). -/
theorem degenerate_simplex_asIs_counterexample (supp : Nat → V → V) :
    ∃ r : Result ℝ,
      epa defaultParams (fixCcwAsIs Gen.epa__fix_ccw_normal_direction__bias) supp
        ⟨1 / 2, 0, 0⟩ ⟨-3 / 2, 0, 0⟩ ⟨0, 0, 0⟩ ⟨0, 0, 0⟩ = .ok r ∧
      r.success = true ∧ r.mtv = some ⟨0, 0, 0⟩ := by
  have he : (0 : ℝ) < (defaultParams : Params ℝ).eps := by
    norm_num [defaultParams, Gen.epa__epa__epsilon]
  have hk : (defaultParams : Params ℝ).maxIter = 63 + 1 := rfl
  unfold epa
  rw [hk]
  unfold loop
  rw [closest_degenerate]
  dsimp only
  rw [stepWith_zero_normal _ rfl he]
  exact ⟨_, rfl, rfl, rfl⟩

/-- **C07, S3: soundness of the faces certificate (partial).** A face list accepted by
`facesCertificate slack` is a closed consistently oriented surface without degenerate faces,
stored normals point outward, the origin is on the inner side of every face plane, and every
face plane has the convex hull of all face vertices on its inner side up to `slack`.
Not proved: that the half-space intersection is contained in that hull (needed for `EpaInv`). -/
theorem facesCertificate_sound_partial (slack : ℝ) (faces : List (Face ℝ))
    (h : facesCertificate slack faces = true) : Certified slack faces :=
  facesCertificate_sound h

/-- a concrete outward-wound tetrahedron over `Rat` passes the checker (the driver runs the
same term on the implementation's returned faces) -/
def exFaces : List (Face Rat) :=
  let A : V3 Rat := ⟨1, 0, 0⟩; let B : V3 Rat := ⟨0, 1, 0⟩
  let C : V3 Rat := ⟨0, 0, 1⟩; let D : V3 Rat := ⟨-1, -1, -1⟩
  [⟨A, B, C, ⟨1, 1, 1⟩⟩, ⟨A, C, D, ⟨1, -3, 1⟩⟩, ⟨A, D, B, ⟨1, 1, -3⟩⟩, ⟨B, D, C, ⟨-3, 1, 1⟩⟩]

example : facesCertificate 0 exFaces = true := by decide +kernel

end C07
end D3
