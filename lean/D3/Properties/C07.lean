/-
C07 — EPA returns the minimum translation vector whenever it reports success.

Property theorems only (helper lemmas live in D3/Proofs/Epa*.lean).  `M` is the Minkowski
difference `A ⊖ B` as an arbitrary set of points; the two colliders enter only through the
support point `w` they return for the direction `n` (C03 contract: `IsSupport M n w`).
Sign convention (checked against `epa.epa` on the real code, see harness/props/c07.py): the
returned vector is to be **added to collider 2**; `A ⊖ (B + t) = M − t =: shifted M t`.

Strength S2 (exit-branch theorems, every polytope state, every convex set):
* `success_separates`, `epa_success_separates` — success ⇒ a separating plane, no residual overlap;
* `length_ge_depth` — the returned length is an extent of `M`, hence ≥ the penetration depth;
* `minimal_under_inv_partial`, `gap_under_inv` — under the polytope invariant `EpaInv` the
  length is < depth + epsilon and the translated pair is within epsilon of contact.
  **Partial**: preservation of `EpaInv` by the expansion step is *not* proved (and is false
  after a `norm < 0.5` skip or a loose-edge overflow);
* `inv_initial` — `EpaInv` holds at the start for **every** complete simplex of non-zero volume
  with the origin inside, whatever its row order (the code orients the rows first);
  `initial_normals_outward` — all four initial normals then point away from the origin.
  Before the upstream repair (`…_before_fix`, kept as regression statements about the old code):
  `inv_initial_before_fix` needed the outward winding, `inward_winding_all_normals_inward_before_fix`
  / `wrong_winding_counterexample_before_fix` — for the other 12 row orders every initial
  normal pointed inward; `wrong_winding_fixed` — the same tetrahedron now satisfies `EpaInv`;
* `fixCcw_keeps_vertices` — the winding repair permutes the three vertices;
  `fixCcw_counterexample_before_fix` — before the repair it lost a vertex (numpy view);
* `degenerate_simplex_asIs_counterexample` — a simplex with two valid rows (what gjk hands over
  for two unit cubes offset by 1/2; zero volume, so the orientation step does nothing) makes the
  model return `mtv = 0` with `success = true`: the residue the repair does not cover.
Strength S3: `facesCertificate_sound_partial` — soundness of the checker run on returned faces.
-/
import D3.Proofs.EpaInv
import D3.Proofs.EpaCert
import D3.Proofs.EpaDegenerate
import Mathlib.Tactic.NormNum

namespace D3
namespace C07
open Epa

/-- **C07, success exit separates.** If `w` is a support point of `M = A ⊖ B` in the unit
direction `n` (the normal of the closest face), then every point of `M` satisfies
`⟨x,n⟩ ≤ ⟨w,n⟩`; after translating collider 2 by the returned `mtv = ⟨w,n⟩ n` the whole
difference lies in the half-space `⟨y,n⟩ ≤ 0`, the origin is not an interior point of it (no
residual overlap), and it still touches the separating plane.  No assumption on the polytope. -/
theorem success_separates (M : V → Prop) (n w : V) (hn : IsUnitVec n) (hw : IsSupport M n w) :
    (∀ x, M x → V3.dot x n ≤ V3.dot w n) ∧
    (∀ y, shifted M (mtvOf n w) y → V3.dot y n ≤ 0) ∧
    (∀ r : ℝ, 0 < r → ∃ y : V, V3.normSq y < r * r ∧ ¬ shifted M (mtvOf n w) y) ∧
    (shifted M (mtvOf n w) (w - mtvOf n w) ∧ V3.dot (w - mtvOf n w) n = 0) :=
  ⟨support_plane hw, shifted_below hn hw, origin_not_interior hn hw, shifted_touches hn hw⟩

/-- the cube `[-1,1]³` -/
def cube : V → Prop := fun p => -1 ≤ p.x ∧ p.x ≤ 1 ∧ -1 ≤ p.y ∧ p.y ≤ 1 ∧ -1 ≤ p.z ∧ p.z ≤ 1

/-- non-vacuity: the cube, direction `e_x`, support point `(1, 1/2, 0)` -/
example : IsUnitVec (⟨1, 0, 0⟩ : V) ∧ IsSupport cube ⟨1, 0, 0⟩ ⟨1, 1 / 2, 0⟩ := by
  refine ⟨by norm_num [IsUnitVec, V3.dot_def], ?_, ?_⟩
  · norm_num [cube]
  · intro x hx; obtain ⟨_, h, _⟩ := hx; simp only [V3.dot_def]; linarith

/-- **C07, success exit of the executable model.** For every parameter set, every support
oracle satisfying the contract, every simplex of non-zero volume (any row order) and every
number of iterations: if the model of `epa` returns `success = true`, the returned vector is
`⟨w,n⟩ n` for a unit vector `n` and a support point `w` of `M` in direction `n`, so the
conclusions of `success_separates` hold for it. -/
theorem epa_success_separates (M : V → Prop) (p : Params ℝ) (supp : Nat → V → V)
    (hsupp : ∀ it d, IsSupport M d (supp it d)) (s0 s1 s2 s3 : V)
    (hnd : orient s0 s1 s2 s3 ≠ 0) (r : Result ℝ)
    (h : epa p supp s0 s1 s2 s3 = .ok r) (hs : r.success = true) :
    ∃ n w, IsUnitVec n ∧ IsSupport M n w ∧ r.mtv = some (mtvOf n w) ∧
      (∀ x, M x → V3.dot x n ≤ V3.dot w n) ∧
      (∀ y, shifted M (mtvOf n w) y → V3.dot y n ≤ 0) :=
  epaWith_success_separates M p (fixOk_cur p.bias) initFaces supp hsupp s0 s1 s2 s3
    (initFaces_unit hnd) r h hs

/-- the same statement held for the code before the upstream repair (separation never depended
on the winding; only minimality did) -/
theorem epa_success_separates_before_fix (M : V → Prop) (p : Params ℝ) (supp : Nat → V → V)
    (hsupp : ∀ it d, IsSupport M d (supp it d)) (s0 s1 s2 s3 : V)
    (hnd : orient s0 s1 s2 s3 ≠ 0) (r : Result ℝ)
    (h : epa_asIs_before_fix p supp s0 s1 s2 s3 = .ok r) (hs : r.success = true) :
    ∃ n w, IsUnitVec n ∧ IsSupport M n w ∧ r.mtv = some (mtvOf n w) ∧
      (∀ x, M x → V3.dot x n ≤ V3.dot w n) ∧
      (∀ y, shifted M (mtvOf n w) y → V3.dot y n ≤ 0) :=
  epaWith_success_separates M p (fixOk_before_fix p.bias) initFaces_asIs_before_fix supp hsupp
    s0 s1 s2 s3 (buildFaces_unit hnd) r h hs

/-- **C07, returned length ≥ penetration depth.** `|mtv| = ⟨w,n⟩` is the extent of `M` along
`n`; any number `D` that is a lower bound of the extents `h_M(m)` over all unit directions `m`
(in particular the penetration depth, their infimum) is ≤ the returned length. -/
theorem length_ge_depth (M : V → Prop) (n w : V) (hn : IsUnitVec n) (hw : IsSupport M n w)
    (h0 : M ⟨0, 0, 0⟩) (D : ℝ)
    (hD : ∀ m p, IsUnitVec m → IsSupport M m p → D ≤ V3.dot p m) :
    V3.norm (mtvOf n w) = V3.dot w n ∧ D ≤ V3.norm (mtvOf n w) := by
  have hnn : 0 ≤ V3.dot w n := by
    have := support_plane hw _ h0
    simpa [V3.dot_def] using this
  have e : V3.norm (mtvOf n w) = V3.dot w n := by rw [norm_mtvOf hn, abs_of_nonneg hnn]
  exact ⟨e, by rw [e]; exact hD n w hn hw⟩

example : cube ⟨0, 0, 0⟩ := by norm_num [cube]

/-- **C07, minimality under the polytope invariant (partial).** If the faces satisfy `EpaInv`
(unit normals, origin on the inner side of every face, region bounded by the faces inside `M`),
`f` is the closest face and the convergence test `⟨w,n⟩ − d_f < ε` passed, then the returned
length is below `h_M(m) + ε` for **every** unit direction `m` — i.e. below depth + ε.
Preservation of `EpaInv` by the expansion step is not proved. -/
theorem minimal_under_inv_partial (M : V → Prop) (faces : List (Face ℝ)) (inv : EpaInv M faces)
    (i : Nat) (d : ℝ) (f : Face ℝ) (hc : closest faces = .ok (i, d, f)) (w : V) (eps : ℝ)
    (hconv : V3.dot w f.n - d < eps) :
    ∀ m p, IsUnitVec m → IsSupport M m p → V3.dot w f.n < V3.dot p m + eps := by
  intro m p hm hp
  obtain ⟨_, hf, hd, hmin⟩ := closest_spec hc
  have hd0 : 0 ≤ d := by rw [hd]; exact inv.nonneg f hf
  have hin : M (d * m) := inv.inside _ (scaled_unit_in_poly inv.unit hd0 hmin hm)
  have h1 := hp.2 _ hin
  have e : V3.dot m (d * m) = d := by
    unfold IsUnitVec at hm
    simp only [V3.dot_def, V3.smul_x, V3.smul_y, V3.smul_z] at *
    linear_combination d * hm
  rw [e, V3.dot_comm m p] at h1
  linarith

/-- **C07, touching contact under the polytope invariant.** Under the same hypotheses the
returned vector is within `ε` of a point of `M`: after translating collider 2 by `mtv` the
difference contains a point at distance `< ε` from the origin, i.e. the remaining gap is `< ε`
(and by `success_separates` there is no residual overlap). -/
theorem gap_under_inv (M : V → Prop) (faces : List (Face ℝ)) (inv : EpaInv M faces)
    (i : Nat) (d : ℝ) (f : Face ℝ) (hc : closest faces = .ok (i, d, f)) (w : V) (eps : ℝ)
    (hw : IsSupport M f.n w) (hconv : V3.dot w f.n - d < eps) :
    ∃ y, shifted M (mtvOf f.n w) y ∧ V3.normSq y < eps * eps := by
  obtain ⟨_, hf, hd, hmin⟩ := closest_spec hc
  have hd0 : 0 ≤ d := by rw [hd]; exact inv.nonneg f hf
  have hu := inv.unit f hf
  have hin : M (d * f.n) := inv.inside _ (scaled_unit_in_poly inv.unit hd0 hmin hu)
  have h1 := hw.2 _ hin
  have e : V3.dot f.n (d * f.n) = d := by
    unfold IsUnitVec at hu
    simp only [V3.dot_def, V3.smul_x, V3.smul_y, V3.smul_z] at *
    linear_combination d * hu
  rw [e, V3.dot_comm f.n w] at h1
  refine ⟨d * f.n - mtvOf f.n w, ⟨_, hin, rfl⟩, ?_⟩
  have e2 : V3.normSq (d * f.n - mtvOf f.n w) = (V3.dot w f.n - d) * (V3.dot w f.n - d) := by
    unfold IsUnitVec at hu
    simp only [mtvOf, V3.smul, V3.normSq_def, V3.dot_def, V3.sub_x, V3.sub_y, V3.sub_z,
      V3.smul_x, V3.smul_y, V3.smul_z] at *
    linear_combination ((w.x * f.n.x + w.y * f.n.y + w.z * f.n.z - d) *
      (w.x * f.n.x + w.y * f.n.y + w.z * f.n.z - d)) * hu
  rw [e2]
  nlinarith [h1, hconv]

/-- **C07, the invariant at the start.** For every tetrahedron of non-zero volume (any row
order: no winding hypothesis) of points of a convex set `M`, with the origin inside (barycentric
weights `la … ld ≥ 0`), the four faces the code builds satisfy `EpaInv`. -/
theorem inv_initial (M : V → Prop) (hM : ConvexSet M) (A B C D : V)
    (hA : M A) (hB : M B) (hC : M C) (hD : M D) (ho : orient A B C D ≠ 0)
    (la lb lc ld : ℝ) (h0 : OriginInside A B C D la lb lc ld)
    (hla : 0 ≤ la) (hlb : 0 ≤ lb) (hlc : 0 ≤ lc) (hld : 0 ≤ ld) :
    EpaInv M (initFaces A B C D) := by
  rcases initFaces_oriented A B C D with ⟨e, hle⟩ | ⟨e, hlt⟩ <;> rw [e]
  · exact buildFaces_inv_of_outward M hM A B C D hA hB hC hD (lt_of_le_of_ne hle ho)
      la lb lc ld h0 hla hlb hlc hld
  · exact buildFaces_inv_of_outward M hM A C B D hA hC hB hD hlt
      la lc lb ld h0.swap12 hla hlc hlb hld

/-- **C07, the invariant at the start, before the upstream repair.** The old construction (rows
as they come) satisfied `EpaInv` only under the additional hypothesis that the rows are wound
outward (`⟨(B−A)×(C−A), D−A⟩ < 0`); see `wrong_winding_counterexample_before_fix`. -/
theorem inv_initial_before_fix (M : V → Prop) (hM : ConvexSet M) (A B C D : V)
    (hA : M A) (hB : M B) (hC : M C) (hD : M D) (ho : orient A B C D < 0)
    (la lb lc ld : ℝ) (h0 : OriginInside A B C D la lb lc ld)
    (hla : 0 ≤ la) (hlb : 0 ≤ lb) (hlc : 0 ≤ lc) (hld : 0 ≤ ld) :
    EpaInv M (initFaces_asIs_before_fix A B C D) :=
  buildFaces_inv_of_outward M hM A B C D hA hB hC hD ho la lb lc ld h0 hla hlb hlc hld

/-- the ball-free convex set used in the examples: the cube scaled by 2 -/
def cube2 : V → Prop := fun p => -2 ≤ p.x ∧ p.x ≤ 2 ∧ -2 ≤ p.y ∧ p.y ≤ 2 ∧ -2 ≤ p.z ∧ p.z ≤ 2

theorem cube2_convex : ConvexSet cube2 := by
  intro x y hx hy t h0 h1
  obtain ⟨a1, a2, a3, a4, a5, a6⟩ := hx
  obtain ⟨b1, b2, b3, b4, b5, b6⟩ := hy
  simp only [cube2, V3.add_x, V3.add_y, V3.add_z, V3.smul_x, V3.smul_y, V3.smul_z]
  refine ⟨?_, ?_, ?_, ?_, ?_, ?_⟩ <;> nlinarith

/-- non-vacuity of `inv_initial` (hence of `minimal_under_inv_partial` / `gap_under_inv`): the
tetrahedron `(1,0,0), (0,1,0), (0,0,1), (−1,−1,−1)` inside the cube `[-2,2]³`, weights 1/4 -/
example : EpaInv cube2 (initFaces ⟨1, 0, 0⟩ ⟨0, 1, 0⟩ ⟨0, 0, 1⟩ ⟨-1, -1, -1⟩) :=
  inv_initial cube2 cube2_convex _ _ _ _ (by norm_num [cube2]) (by norm_num [cube2])
    (by norm_num [cube2]) (by norm_num [cube2])
    (by norm_num [orient, V3.cross, V3.dot_def]) (1 / 4) (1 / 4) (1 / 4) (1 / 4)
    ⟨by norm_num, by norm_num, by norm_num, by norm_num⟩
    (by norm_num) (by norm_num) (by norm_num) (by norm_num)

/-- **C07, initial normals point outward for every row order.** For a tetrahedron of non-zero
volume with the origin strictly inside, every one of the four initial faces has a positive
distance `⟨v0, n⟩`, whichever of the 24 row orders is handed over. -/
theorem initial_normals_outward (A B C D : V) (ho : orient A B C D ≠ 0)
    (la lb lc ld : ℝ) (h0 : OriginInside A B C D la lb lc ld)
    (hla : 0 < la) (hlb : 0 < lb) (hlc : 0 < lc) (hld : 0 < ld) :
    ∀ f ∈ initFaces A B C D, 0 < faceDist f := by
  rcases initFaces_oriented A B C D with ⟨e, hle⟩ | ⟨e, hlt⟩ <;> rw [e]
  · exact buildFaces_dist_pos_of_outward A B C D (lt_of_le_of_ne hle ho) la lb lc ld h0
      hla hlb hlc hld
  · exact buildFaces_dist_pos_of_outward A C B D hlt la lc lb ld h0.swap12 hla hlc hlb hld

/-- **C07, the other twelve row orders before the upstream repair.** For a tetrahedron with the
origin strictly inside whose rows are wound the other way (`⟨(B−A)×(C−A), D−A⟩ > 0`) every one
of the four faces the old code built had a negative distance `⟨v0, n⟩`: all normals pointed
**towards** the origin and were never re-oriented (`orient_swap01`: exchanging two rows flips
the sign, so exactly half of the row orders of any tetrahedron were of this kind). -/
theorem inward_winding_all_normals_inward_before_fix (A B C D : V) (ho : 0 < orient A B C D)
    (la lb lc ld : ℝ) (h0 : OriginInside A B C D la lb lc ld)
    (hla : 0 < la) (hlb : 0 < lb) (hlc : 0 < lc) (hld : 0 < ld) :
    ∀ f ∈ initFaces_asIs_before_fix A B C D, faceDist f < 0 :=
  buildFaces_dist_neg_of_inward A B C D ho la lb lc ld h0 hla hlb hlc hld

/-- **C07, counterexample to the outward-normal invariant before the upstream repair.** The
rational tetrahedron `(0,1,0), (1,0,0), (0,0,1), (−1,−1,−1)` has the origin strictly inside, yet
all four normals of the old construction pointed inward, so `EpaInv` failed at the start for
any `M`. -/
theorem wrong_winding_counterexample_before_fix :
    ∃ A B C D : V, (∃ la lb lc ld : ℝ, OriginInside A B C D la lb lc ld ∧ 0 < la ∧ 0 < lb ∧
        0 < lc ∧ 0 < ld) ∧
      (∀ f ∈ initFaces_asIs_before_fix A B C D, faceDist f < 0) ∧
      ∀ M : V → Prop, ¬ EpaInv M (initFaces_asIs_before_fix A B C D) := by
  have h := inward_winding_all_normals_inward_before_fix (⟨0, 1, 0⟩ : V) ⟨1, 0, 0⟩ ⟨0, 0, 1⟩
    ⟨-1, -1, -1⟩ (by norm_num [orient, V3.cross, V3.dot_def])
    (1 / 4) (1 / 4) (1 / 4) (1 / 4) ⟨by norm_num, by norm_num, by norm_num, by norm_num⟩
    (by norm_num) (by norm_num) (by norm_num) (by norm_num)
  refine ⟨⟨0, 1, 0⟩, ⟨1, 0, 0⟩, ⟨0, 0, 1⟩, ⟨-1, -1, -1⟩, ?_, h, ?_⟩
  · exact ⟨1 / 4, 1 / 4, 1 / 4, 1 / 4, ⟨by norm_num, by norm_num, by norm_num, by norm_num⟩,
      by norm_num, by norm_num, by norm_num, by norm_num⟩
  · intro M inv
    have f0 : mkFace (⟨0, 1, 0⟩ : V) ⟨1, 0, 0⟩ ⟨0, 0, 1⟩ ∈
        initFaces_asIs_before_fix (⟨0, 1, 0⟩ : V) ⟨1, 0, 0⟩ ⟨0, 0, 1⟩ ⟨-1, -1, -1⟩ := by
      simp [initFaces_asIs_before_fix, buildFaces]
    have := inv.nonneg _ f0
    have := h _ f0
    linarith

/-- **C07, the same tetrahedron after the repair.** For the row order of
`wrong_winding_counterexample_before_fix` the current construction satisfies `EpaInv` (here for
the cube `[-2,2]³`) and all four normals point outward. -/
theorem wrong_winding_fixed :
    EpaInv cube2 (initFaces ⟨0, 1, 0⟩ ⟨1, 0, 0⟩ ⟨0, 0, 1⟩ ⟨-1, -1, -1⟩) ∧
    ∀ f ∈ initFaces (⟨0, 1, 0⟩ : V) ⟨1, 0, 0⟩ ⟨0, 0, 1⟩ ⟨-1, -1, -1⟩, 0 < faceDist f :=
  ⟨inv_initial cube2 cube2_convex _ _ _ _ (by norm_num [cube2]) (by norm_num [cube2])
      (by norm_num [cube2]) (by norm_num [cube2])
      (by norm_num [orient, V3.cross, V3.dot_def]) (1 / 4) (1 / 4) (1 / 4) (1 / 4)
      ⟨by norm_num, by norm_num, by norm_num, by norm_num⟩
      (by norm_num) (by norm_num) (by norm_num) (by norm_num),
    initial_normals_outward _ _ _ _ (by norm_num [orient, V3.cross, V3.dot_def])
      (1 / 4) (1 / 4) (1 / 4) (1 / 4) ⟨by norm_num, by norm_num, by norm_num, by norm_num⟩
      (by norm_num) (by norm_num) (by norm_num) (by norm_num)⟩

/-- **C07, the winding repair keeps the face.** `fix_ccw_normal_direction` returns a face with
the same three vertices (0 and 1 exchanged when the flip condition holds). -/
theorem fixCcw_keeps_vertices (bias : ℝ) (f : Face ℝ) :
    (faceVerts (fixCcw bias f)).Perm (faceVerts f) :=
  fixCcw_verts_perm bias f

/-- **C07, counterexample for the winding repair before the upstream repair.** With the
library's bias, on the face `(1,0,0), (0,1,0), (0,0,1)` with stored normal `(−1,0,0)` the flip
condition holds; the old code (swap through numpy views) returned a face without the vertex
`(1,0,0)`, whereas the current code keeps all three vertices. -/
theorem fixCcw_counterexample_before_fix :
    ∃ f : Face ℝ,
      f.a ∉ faceVerts (fixCcw_asIs_before_fix Gen.epa__fix_ccw_normal_direction__bias f) ∧
      f.a ∈ faceVerts (fixCcw Gen.epa__fix_ccw_normal_direction__bias f) := by
  refine ⟨⟨⟨1, 0, 0⟩, ⟨0, 1, 0⟩, ⟨0, 0, 1⟩, ⟨-1, 0, 0⟩⟩, ?_, ?_⟩
  · rw [fixCcw_asIs_before_fix_flip
      (by norm_num [V3.dot_def, Gen.epa__fix_ccw_normal_direction__bias])]
    simp [faceVerts]
  · rw [fixCcw_flip (by norm_num [V3.dot_def, Gen.epa__fix_ccw_normal_direction__bias])]
    simp [faceVerts]

/-- **C07, as-is counterexample for a degenerate simplex.** For two unit cubes offset by 1/2
along x, gjk reports an overlap but ends with two valid simplex rows `(1/2,0,0)`, `(−3/2,0,0)`;
with the remaining rows zero, the model of `epa` (default parameters, any colliders) returns
`mtv = 0` with `success = true` in its first iteration — although the penetration depth of the
cubes is 1/2. The simplex has zero volume, so the orientation step of the upstream repair does
not apply (`length_ge_depth` would demand `|mtv| ≥ 1/2`; its hypothesis that the closest
face's normal is a unit vector fails: the stored "normal" is the zero vector). -/
theorem degenerate_simplex_asIs_counterexample (supp : Nat → V → V) :
    ∃ r : Result ℝ,
      epa defaultParams supp ⟨1 / 2, 0, 0⟩ ⟨-3 / 2, 0, 0⟩ ⟨0, 0, 0⟩ ⟨0, 0, 0⟩ = .ok r ∧
      r.success = true ∧ r.mtv = some ⟨0, 0, 0⟩ := by
  have he : (0 : ℝ) < (defaultParams : Params ℝ).eps := by
    norm_num [defaultParams, Gen.epa__epa__epsilon]
  have hk : (defaultParams : Params ℝ).maxIter = 63 + 1 := rfl
  unfold epa epaWith
  rw [hk]
  unfold loop
  rw [closest_degenerate]
  dsimp only
  rw [stepWith_zero_normal _ rfl he]
  exact ⟨_, rfl, rfl, rfl⟩

/-- **C07, S3: soundness of the faces certificate (partial).** A face list accepted by
`facesCertificate slack` is a closed consistently oriented surface without degenerate faces,
stored normals point outward, the origin is on the inner side of every face plane, and every
face plane has the convex hull of all face vertices on its inner side up to `slack`.
Not proved: that the half-space intersection is contained in that hull (needed for `EpaInv`). -/
theorem facesCertificate_sound_partial (slack : ℝ) (faces : List (Face ℝ))
    (h : facesCertificate slack faces = true) : Certified slack faces :=
  facesCertificate_sound h

/-- a concrete outward-wound tetrahedron over `Rat` passes the checker (the driver runs the
same term on the implementation's returned faces) -/
def exFaces : List (Face Rat) :=
  let A : V3 Rat := ⟨1, 0, 0⟩; let B : V3 Rat := ⟨0, 1, 0⟩
  let C : V3 Rat := ⟨0, 0, 1⟩; let D : V3 Rat := ⟨-1, -1, -1⟩
  [⟨A, B, C, ⟨1, 1, 1⟩⟩, ⟨A, C, D, ⟨1, -3, 1⟩⟩, ⟨A, D, B, ⟨1, 1, -3⟩⟩, ⟨B, D, C, ⟨-3, 1, 1⟩⟩]

example : facesCertificate 0 exFaces = true := by decide +kernel

end C07
end D3
