/-
C04 ↔ C03 — cross-property LINK theorems (completing the triangle C13 = C03 = C04, see
`D3/Properties/C13Link.lean` for C13 = C03).

`D3/Properties/C04.lean` proves that the AABB functions of `containment.py` / the `aabb()` methods
enclose, and are tight on, the point sets of `D3/Proofs/ContainmentBasic.lean`
(`Containment.Collider.pts`); `D3/Properties/C03.lean` proves that the support mappings return
support points of the point sets of `D3/Proofs/SupportSets.lean` (`Support.Collider.pointSet`).
The two families of sets were written independently.  This file proves

1. `X_sets_iff` : per shape the two definitions describe the **same set**, with the parameters
   as the collider classes pass them (box: full edge lengths on both sides; capsule / cylinder:
   full height / length; cone: base disk at the pose origin, apex at `+h` on the local z axis;
   margin: points within `m` of `K` = Minkowski sum of `K` with the closed `m`-ball).
   Identical definitions (`Iff.rfl`): sphere, capsule, cylinder, disk.  Hypotheses are needed
   only where one side divides: ellipsoid and ellipse (non-zero radii), cone (`0 < h`).
2. `X_aabb_encloses` : the **modelled AABB function** encloses and is tight on **C03's set**;
   `X_aabb_extents` : each of its six bounds **equals** the corresponding coordinate of the
   point the **modelled support function** returns for `±x, ±y, ±z` (`ExtentsEq` for total
   support functions, `ExtentsMatch` for those that return `Except`).
3. `collider_*` : the same at the level of the collider sum types, through the forgetful map
   `ContainmentLink.ofSupport : Support.Collider ℝ → Containment.Collider ℝ`.

The ellipsoid is linked for the repaired `ellipsoidAabb_fixed` (the function as coded does not
enclose for rotated poses: known finding, `C04.ellipsoidAabb_asIs_not_enclosing`).  For
`MeshGraph` only enclosure/tightness is linked: C03 proves global optimality of the hill-climbing
support function only under `Unimodal`, so no unconditional extent equality exists.
-/
import D3.Proofs.ContainmentLink
import D3.Properties.C04
import D3.Properties.C03

namespace D3
namespace C04Link
open Aabb (Box)
open Containment ContainmentLink

/-- the pose used by the examples: 3-4-5 rotation about z, translated -/
noncomputable def exPose : Pose ℝ := ⟨rot345, ⟨1, 2, 3⟩⟩

theorem exPose_orth : Orthonormal exPose.R := rot345_orthonormal

/-! ## 1. the sets of C04 and of C03 are the same sets -/

/-- **Sphere.** Identical definitions `|p − c|² ≤ r²`. -/
theorem sphere_sets_iff (c : V) (r : ℝ) (p : V) : ballSet c r p ↔ Support.ballSet c r p := Iff.rfl

example : ballSet ⟨1, -2, 3⟩ 2 ⟨3, -2, 3⟩ ↔ Support.ballSet ⟨1, -2, 3⟩ 2 ⟨3, -2, 3⟩ :=
  sphere_sets_iff _ _ _

/-- **Vertex hull.** The two inductive hulls (smallest set containing the vertices and closed
under segments) coincide. -/
theorem hull_sets_iff (vs : List V) (p : V) : hullSet vs p ↔ Support.hullSet vs p :=
  hullSet_iff vs p

example : hullSet [⟨0, 0, 0⟩, ⟨1, 0, 2⟩] ⟨1, 0, 2⟩ ↔ Support.hullSet [⟨0, 0, 0⟩, ⟨1, 0, 2⟩] ⟨1, 0, 2⟩ :=
  hull_sets_iff _ _

/-- **Box.** Full edge lengths on both sides (`Support.boxSizeSet size` is the box with half
lengths `size/2`), every pose. -/
theorem box_sets_iff (A : Pose ℝ) (size p : V) :
    poseImage A (boxLocal size) p ↔ poseImage A (Support.boxSizeSet size) p :=
  poseImage_congr (boxLocal_iff size) p

example : poseImage exPose (boxLocal ⟨1, 2, 3⟩) ⟨1, 2, 3⟩ ↔
    poseImage exPose (Support.boxSizeSet ⟨1, 2, 3⟩) ⟨1, 2, 3⟩ := box_sets_iff _ _ _

/-- **Mesh.** C04's posed hull of the vertex list is C03's `meshSet` of the mesh data. -/
theorem mesh_sets_iff (A : Pose ℝ) (m : Support.MeshData ℝ) (p : V) :
    poseImage A (hullSet m.verts.toList) p ↔ Support.meshSet A m p :=
  poseImage_congr (hullSet_iff m.verts.toList) p

example : poseImage exPose (hullSet C03.tetra.verts.toList) ⟨1, 2, 3⟩ ↔
    Support.meshSet exPose C03.tetra ⟨1, 2, 3⟩ := mesh_sets_iff _ _ _

/-- **Capsule.** Identical definitions (full height `h`, segment `|s| ≤ h/2` on the local z axis). -/
theorem capsule_sets_iff (A : Pose ℝ) (r h : ℝ) (p : V) :
    poseImage A (capsuleLocal r h) p ↔ poseImage A (Support.capsuleLocalSet r h) p := Iff.rfl

example : poseImage exPose (capsuleLocal (1 / 2) 2) ⟨1, 2, 3⟩ ↔
    poseImage exPose (Support.capsuleLocalSet (1 / 2) 2) ⟨1, 2, 3⟩ := capsule_sets_iff _ _ _ _

/-- **Ellipsoid.** C04: image of the unit ball under `diag(radii)`; C03: `Σ (qᵢ/rᵢ)² ≤ 1`. Equal for
non-zero radii. -/
theorem ellipsoid_sets_iff (A : Pose ℝ) {radii : V} (hx : radii.x ≠ 0) (hy : radii.y ≠ 0)
    (hz : radii.z ≠ 0) (p : V) :
    poseImage A (ellipsoidLocal radii) p ↔ poseImage A (Support.ellipsoidLocalSet radii) p :=
  poseImage_congr (ellipsoidLocal_iff hx hy hz) p

example : poseImage exPose (ellipsoidLocal ⟨2, 1, 1⟩) ⟨1, 2, 3⟩ ↔
    poseImage exPose (Support.ellipsoidLocalSet ⟨2, 1, 1⟩) ⟨1, 2, 3⟩ :=
  ellipsoid_sets_iff _ (radii := ⟨2, 1, 1⟩) two_ne_zero one_ne_zero one_ne_zero _

/-- **Cylinder.** Identical definitions (full length `l`). -/
theorem cylinder_sets_iff (A : Pose ℝ) (r l : ℝ) (p : V) :
    poseImage A (cylinderLocal r l) p ↔ poseImage A (Support.cylinderLocalSet r l) p := Iff.rfl

example : poseImage exPose (cylinderLocal (1 / 2) 2) ⟨1, 2, 3⟩ ↔
    poseImage exPose (Support.cylinderLocalSet (1 / 2) 2) ⟨1, 2, 3⟩ := cylinder_sets_iff _ _ _ _

/-- **Disk.** Identical definitions (centre, normal). -/
theorem disk_sets_iff (c : V) (r : ℝ) (n p : V) : diskSet c r n p ↔ Support.diskSet c r n p := Iff.rfl

example : diskSet ⟨1, 2, 3⟩ 2 ⟨3 / 5, 4 / 5, 0⟩ ⟨1, 2, 3⟩ ↔
    Support.diskSet ⟨1, 2, 3⟩ 2 ⟨3 / 5, 4 / 5, 0⟩ ⟨1, 2, 3⟩ := disk_sets_iff _ _ _ _

/-- **Ellipse.** C04: `c + (u r0) a0 + (v r1) a1`, `u² + v² ≤ 1`; C03: `c + a a0 + b a1`,
`(a/r0)² + (b/r1)² ≤ 1`. Equal for non-zero radii, any axes. -/
theorem ellipse_sets_iff (c a0 a1 : V) {r0 r1 : ℝ} (h0 : r0 ≠ 0) (h1 : r1 ≠ 0) (p : V) :
    ellipseSet c a0 a1 r0 r1 p ↔ Support.ellipseSet c a0 a1 r0 r1 p :=
  ellipseSet_iff c a0 a1 h0 h1 p

example : ellipseSet ⟨1, 2, 3⟩ ⟨3 / 5, 4 / 5, 0⟩ ⟨-(4 / 5), 3 / 5, 0⟩ 2 1 ⟨1, 2, 3⟩ ↔
    Support.ellipseSet ⟨1, 2, 3⟩ ⟨3 / 5, 4 / 5, 0⟩ ⟨-(4 / 5), 3 / 5, 0⟩ 2 1 ⟨1, 2, 3⟩ :=
  ellipse_sets_iff _ _ _ two_ne_zero one_ne_zero _

/-- **Cone.** C04: `(1−s)·(base point) + s·apex`; C03: the cross-section inequality. Both place the
base disk at the pose origin and the apex at `+h` on the local z axis. Equal for `0 < h`, any `r`. -/
theorem cone_sets_iff (A : Pose ℝ) (r : ℝ) {h : ℝ} (hh : 0 < h) (p : V) :
    poseImage A (coneLocal r h) p ↔ poseImage A (Support.coneLocalSet r h) p :=
  poseImage_congr (coneLocal_iff r hh) p

example : poseImage exPose (coneLocal (1 / 2) 2) ⟨1, 2, 3⟩ ↔
    poseImage exPose (Support.coneLocalSet (1 / 2) 2) ⟨1, 2, 3⟩ := cone_sets_iff _ _ two_pos _

/-- **Margin.** "All points within `m` of `K`" (C04) is the Minkowski sum of `K` with the closed
`m`-ball (C03), for equal inner sets and every `m`. -/
theorem margin_sets_iff {K K' : V → Prop} (hK : ∀ q, K q ↔ K' q) (m : ℝ) (p : V) :
    marginSet K m p ↔ Support.marginSet K' m p :=
  marginSet_iff hK m p

example : marginSet (ballSet ⟨1, -2, 3⟩ 2) (1 / 2) ⟨3, -2, 3⟩ ↔
    Support.marginSet (Support.ballSet ⟨1, -2, 3⟩ 2) (1 / 2) ⟨3, -2, 3⟩ :=
  margin_sets_iff (sphere_sets_iff _ _) _ _

/-! ## 2. the modelled AABB encloses C03's set; its bounds are the modelled support extents -/

/-- **Sphere.** `sphere_aabb` encloses and is tight on C03's ball. -/
theorem sphere_aabb_encloses (c : V) {r : ℝ} (hr : 0 ≤ r) :
    Encloses (sphereAabb c r) (Support.ballSet c r) ∧ TightOn (sphereAabb c r) (Support.ballSet c r) :=
  ⟨C04.sphere_aabb_encloses c r hr, C04.sphere_aabb_tight c r hr⟩

/-- **Sphere.** The bounds of `sphere_aabb` are the coordinates of `support_function_sphere(±eᵢ)`. -/
theorem sphere_aabb_extents (c : V) {r : ℝ} (hr : 0 ≤ r) :
    ExtentsEq (sphereAabb c r) (fun d => (Support.supportSphere d c r).2) :=
  extentsEq_of_support (sphere_aabb_encloses c hr).1 (sphere_aabb_encloses c hr).2 _
    (fun d => C03.sphere_support d c r hr)

example := sphere_aabb_encloses ⟨1, -2, 3⟩ (by norm_num : (0 : ℝ) ≤ 2)
/-- concrete reading: the support point of the ball (1,−2,3), r = 2 along +x has x = 3 -/
example : (Support.supportSphere (⟨1, 0, 0⟩ : V) ⟨1, -2, 3⟩ 2).2.x = 3 := by
  have h := (sphere_aabb_extents ⟨1, -2, 3⟩ (by norm_num : (0 : ℝ) ≤ 2)).1
  simp only [sphereAabb, mkBox_hi0, addS] at h
  rw [← h]; norm_num

/-- **Box.** `box_aabb` succeeds, encloses and is tight on C03's `Box(size)` set. -/
theorem box_aabb_encloses (A : Pose ℝ) {size : V} (hx : 0 ≤ size.x) (hy : 0 ≤ size.y)
    (hz : 0 ≤ size.z) :
    ∃ b, boxAabb A size = .ok b ∧ Encloses b (poseImage A (Support.boxSizeSet size)) ∧
      TightOn b (poseImage A (Support.boxSizeSet size)) := by
  obtain ⟨b, hb, he, ht⟩ := boxAabb_spec A size hx hy hz
  exact ⟨b, hb, encloses_congr (box_sets_iff A size) he, tightOn_congr (box_sets_iff A size) ht⟩

/-- **Box.** The bounds of `box_aabb` are the coordinates of `support_function_box(±eᵢ)` (closed
form, half lengths `size/2`) and of `Box.support_function(±eᵢ)` (arg-max over the corners). -/
theorem box_aabb_extents (A : Pose ℝ) {size : V} (hx : 0 ≤ size.x) (hy : 0 ≤ size.y)
    (hz : 0 ≤ size.z) :
    ∃ b, boxAabb A size = .ok b ∧
      ExtentsEq b (fun d => (Support.supportBoxFn d A ⟨size.x / 2, size.y / 2, size.z / 2⟩).2) ∧
      ExtentsMatch b (fun d s => ∃ i, Support.supportHull d (Support.boxVertices A size) = .ok (i, s)) := by
  obtain ⟨b, hb, he, ht⟩ := box_aabb_encloses A hx hy hz
  refine ⟨b, hb, extentsEq_of_support he ht _ (fun d => ?_), extentsMatch_of_support he ht _ (fun d => ?_)⟩
  · exact C03.boxfn_support d A ⟨size.x / 2, size.y / 2, size.z / 2⟩ (div_nonneg hx zero_le_two)
      (div_nonneg hy zero_le_two) (div_nonneg hz zero_le_two)
  · obtain ⟨i, s, h1, _, h3⟩ := C03.box_support d A size hx hy hz
    exact ⟨s, ⟨i, h1⟩, h3⟩

example := box_aabb_encloses exPose (size := ⟨1, 2, 3⟩) zero_le_one zero_le_two (by norm_num)
example := box_aabb_extents exPose (size := ⟨1, 2, 3⟩) zero_le_one zero_le_two (by norm_num)

/-- **Vertex hull.** `axis_aligned_bounding_box` of a non-empty vertex list encloses and is tight on
C03's hull. -/
theorem hull_aabb_encloses (vs : List V) (hne : vs ≠ []) :
    ∃ b, aabbOfPoints vs = .ok b ∧ Encloses b (Support.hullSet vs) ∧ TightOn b (Support.hullSet vs) := by
  obtain ⟨b, hb, he, ht⟩ := hullAabb_spec vs hne
  exact ⟨b, hb, encloses_congr (hull_sets_iff vs) he, tightOn_congr (hull_sets_iff vs) ht⟩

/-- **Vertex hull.** Its bounds are the coordinates of the vertices `ConvexHullVertices.
support_function(±eᵢ)` returns. -/
theorem hull_aabb_extents (vs : List V) (hne : vs ≠ []) :
    ∃ b, aabbOfPoints vs = .ok b ∧
      ExtentsMatch b (fun d s => ∃ i, Support.supportHull d vs = .ok (i, s)) := by
  obtain ⟨b, hb, he, ht⟩ := hull_aabb_encloses vs hne
  refine ⟨b, hb, extentsMatch_of_support he ht _ (fun d => ?_)⟩
  obtain ⟨i, s, h1, _, h3⟩ := C03.hull_support d vs hne
  exact ⟨s, ⟨i, h1⟩, h3⟩

example := hull_aabb_encloses [(⟨0, 0, 0⟩ : V), ⟨1, 0, 2⟩, ⟨0, 3, -1⟩, ⟨1, 1, 1⟩] (by simp)
example := hull_aabb_extents [(⟨0, 0, 0⟩ : V), ⟨1, 0, 2⟩, ⟨0, 3, -1⟩, ⟨1, 1, 1⟩] (by simp)

/-- **Mesh.** `MeshGraph.aabb()` over the mesh's vertex list encloses and is tight on C03's
`meshSet` (no extent statement: the hill-climbing support is only optimal under `Unimodal`). -/
theorem mesh_aabb_encloses (A : Pose ℝ) (m : Support.MeshData ℝ) (hne : m.verts.toList ≠ []) :
    ∃ b, meshAabb A m.verts.toList = .ok b ∧ Encloses b (Support.meshSet A m) ∧
      TightOn b (Support.meshSet A m) := by
  obtain ⟨b, hb, he, ht⟩ := meshAabb_spec A m.verts.toList hne
  exact ⟨b, hb, encloses_congr (mesh_sets_iff A m) he, tightOn_congr (mesh_sets_iff A m) ht⟩

example := mesh_aabb_encloses exPose C03.tetra (by simp [C03.tetra])

/-- **Capsule.** `capsule_aabb` encloses and is tight on C03's capsule. -/
theorem capsule_aabb_encloses (A : Pose ℝ) (hR : Orthonormal A.R) {r h : ℝ} (hr : 0 ≤ r)
    (hh : 0 ≤ h) :
    Encloses (capsuleAabb A r h) (poseImage A (Support.capsuleLocalSet r h)) ∧
      TightOn (capsuleAabb A r h) (poseImage A (Support.capsuleLocalSet r h)) :=
  ⟨C04.capsule_aabb_encloses A hR hr hh, C04.capsule_aabb_tight A hR hr hh⟩

/-- **Capsule.** Its bounds are the coordinates of `support_function_capsule(±eᵢ)`. -/
theorem capsule_aabb_extents (A : Pose ℝ) (hR : Orthonormal A.R) {r h : ℝ} (hr : 0 ≤ r)
    (hh : 0 ≤ h) :
    ExtentsEq (capsuleAabb A r h) (fun d => (Support.supportCapsule d A r h).2) :=
  extentsEq_of_support (capsule_aabb_encloses A hR hr hh).1 (capsule_aabb_encloses A hR hr hh).2 _
    (fun d => C03.capsule_support d A r h hr hh)

example := capsule_aabb_encloses exPose exPose_orth (by norm_num : (0 : ℝ) ≤ 1 / 2) zero_le_two
example := capsule_aabb_extents exPose exPose_orth (by norm_num : (0 : ℝ) ≤ 1 / 2) zero_le_two

/-- **Cylinder.** `cylinder_aabb` succeeds, encloses and is tight on C03's cylinder. -/
theorem cylinder_aabb_encloses (A : Pose ℝ) (hR : Orthonormal A.R) {r l : ℝ} (hr : 0 ≤ r)
    (hl : 0 ≤ l) :
    ∃ b, cylinderAabb A r l = .ok b ∧ Encloses b (poseImage A (Support.cylinderLocalSet r l)) ∧
      TightOn b (poseImage A (Support.cylinderLocalSet r l)) :=
  let ⟨b, hb, he, ht⟩ := cylinderAabb_spec A hR hr hl; ⟨b, hb, he, ht⟩

/-- **Cylinder.** Its bounds are the coordinates of `support_function_cylinder(±eᵢ)`. -/
theorem cylinder_aabb_extents (A : Pose ℝ) (hR : Orthonormal A.R) {r l : ℝ} (hr : 0 ≤ r)
    (hl : 0 ≤ l) :
    ∃ b, cylinderAabb A r l = .ok b ∧
      ExtentsEq b (fun d => (Support.supportCylinder d A r l).2) := by
  obtain ⟨b, hb, he, ht⟩ := cylinder_aabb_encloses A hR hr hl
  exact ⟨b, hb, extentsEq_of_support he ht _ (fun d => C03.cylinder_support d A r l hr hl)⟩

example := cylinder_aabb_encloses exPose exPose_orth (by norm_num : (0 : ℝ) ≤ 1 / 2) zero_le_two
example := cylinder_aabb_extents exPose exPose_orth (by norm_num : (0 : ℝ) ≤ 1 / 2) zero_le_two

/-- **Cone.** `cone_aabb` encloses and is tight on C03's cone. -/
theorem cone_aabb_encloses (A : Pose ℝ) (hR : Orthonormal A.R) {r h : ℝ} (hr : 0 ≤ r) (hh : 0 < h) :
    Encloses (coneAabb A r h) (poseImage A (Support.coneLocalSet r h)) ∧
      TightOn (coneAabb A r h) (poseImage A (Support.coneLocalSet r h)) :=
  ⟨encloses_congr (cone_sets_iff A r hh) (C04.cone_aabb_encloses A hR hr h),
   tightOn_congr (cone_sets_iff A r hh) (C04.cone_aabb_tight A hR hr h)⟩

/-- **Cone.** Its bounds are the coordinates of `support_function_cone(±eᵢ)` (rim point or apex). -/
theorem cone_aabb_extents (A : Pose ℝ) (hR : Orthonormal A.R) {r h : ℝ} (hr : 0 ≤ r) (hh : 0 < h) :
    ExtentsEq (coneAabb A r h) (fun d => (Support.supportCone d A r h).2) :=
  extentsEq_of_support (cone_aabb_encloses A hR hr hh).1 (cone_aabb_encloses A hR hr hh).2 _
    (fun d => C03.cone_support d A r h hr hh)

example := cone_aabb_encloses exPose exPose_orth (by norm_num : (0 : ℝ) ≤ 1 / 2) two_pos
example := cone_aabb_extents exPose exPose_orth (by norm_num : (0 : ℝ) ≤ 1 / 2) two_pos

/-- **Ellipsoid (repaired `ellipsoid_aabb`).** Succeeds, encloses and is tight on C03's ellipsoid —
every pose matrix, positive radii. -/
theorem ellipsoid_aabb_encloses (A : Pose ℝ) {radii : V} (hx : 0 < radii.x) (hy : 0 < radii.y)
    (hz : 0 < radii.z) :
    ∃ b, ellipsoidAabb_fixed A radii = .ok b ∧
      Encloses b (poseImage A (Support.ellipsoidLocalSet radii)) ∧
      TightOn b (poseImage A (Support.ellipsoidLocalSet radii)) := by
  obtain ⟨b, hb, he, ht⟩ := ellipsoidAabb_fixed_spec A radii
  have hi := ellipsoid_sets_iff A (ne_of_gt hx) (ne_of_gt hy) (ne_of_gt hz)
  exact ⟨b, hb, encloses_congr hi he, tightOn_congr hi ht⟩

/-- **Ellipsoid (repaired).** Its bounds are the coordinates of `support_function_ellipsoid(±eᵢ)`. -/
theorem ellipsoid_aabb_extents (A : Pose ℝ) {radii : V} (hx : 0 < radii.x) (hy : 0 < radii.y)
    (hz : 0 < radii.z) :
    ∃ b, ellipsoidAabb_fixed A radii = .ok b ∧
      ExtentsEq b (fun d => (Support.supportEllipsoid d A radii).2) := by
  obtain ⟨b, hb, he, ht⟩ := ellipsoid_aabb_encloses A hx hy hz
  exact ⟨b, hb, extentsEq_of_support he ht _ (fun d => C03.ellipsoid_support d A radii hx hy hz)⟩

example := ellipsoid_aabb_encloses exPose (radii := ⟨2, 1, 1⟩) two_pos one_pos one_pos
example := ellipsoid_aabb_extents exPose (radii := ⟨2, 1, 1⟩) two_pos one_pos one_pos

/-- **Disk.** `disk_aabb` succeeds, encloses and is tight on C03's disk (unit normal). -/
theorem disk_aabb_encloses (c : V) {r : ℝ} (hr : 0 ≤ r) (n : V) (hn : V3.dot n n = 1) :
    ∃ b, diskAabb c r n = .ok b ∧ Encloses b (Support.diskSet c r n) ∧
      TightOn b (Support.diskSet c r n) :=
  let ⟨b, hb, he, ht⟩ := diskAabb_spec c hr n hn; ⟨b, hb, he, ht⟩

/-- **Disk.** `support_function_disk(±eᵢ)` succeeds and the bounds of `disk_aabb` are the
coordinates of its results. -/
theorem disk_aabb_extents (c : V) {r : ℝ} (hr : 0 ≤ r) (n : V) (hn : V3.dot n n = 1) :
    ∃ b, diskAabb c r n = .ok b ∧
      ExtentsMatch b (fun d s => ∃ br, Support.supportDisk d c r n = .ok (br, s)) := by
  obtain ⟨b, hb, he, ht⟩ := disk_aabb_encloses c hr n hn
  refine ⟨b, hb, extentsMatch_of_support he ht _ (fun d => ?_)⟩
  obtain ⟨br, s, h1, h2⟩ := C03.disk_support d c r hr n hn
  exact ⟨s, ⟨br, h1⟩, h2⟩

example := disk_aabb_encloses ⟨1, 2, 3⟩ zero_le_two ⟨3 / 5, 4 / 5, 0⟩ (by norm_num [V3.dot_def])
example := disk_aabb_extents ⟨1, 2, 3⟩ zero_le_two ⟨3 / 5, 4 / 5, 0⟩ (by norm_num [V3.dot_def])

/-- **Ellipse.** `ellipse_aabb` succeeds, encloses and is tight on C03's ellipse (any axes). -/
theorem ellipse_aabb_encloses (c a0 a1 : V) {r0 r1 : ℝ} (h0 : 0 < r0) (h1 : 0 < r1) :
    ∃ b, ellipseAabb c a0 a1 r0 r1 = .ok b ∧ Encloses b (Support.ellipseSet c a0 a1 r0 r1) ∧
      TightOn b (Support.ellipseSet c a0 a1 r0 r1) := by
  obtain ⟨b, hb, he, ht⟩ := ellipseAabb_spec c a0 a1 r0 r1
  have hi := ellipse_sets_iff c a0 a1 (ne_of_gt h0) (ne_of_gt h1)
  exact ⟨b, hb, encloses_congr hi he, tightOn_congr hi ht⟩

/-- **Ellipse.** Its bounds are the coordinates of `support_function_ellipse(±eᵢ)`. -/
theorem ellipse_aabb_extents (c a0 a1 : V) {r0 r1 : ℝ} (h0 : 0 < r0) (h1 : 0 < r1) :
    ∃ b, ellipseAabb c a0 a1 r0 r1 = .ok b ∧
      ExtentsEq b (fun d => (Support.supportEllipse d c a0 a1 r0 r1).2) := by
  obtain ⟨b, hb, he, ht⟩ := ellipse_aabb_encloses c a0 a1 h0 h1
  exact ⟨b, hb, extentsEq_of_support he ht _ (fun d => C03.ellipse_support d c a0 a1 r0 r1 h0 h1)⟩

example := ellipse_aabb_encloses ⟨1, 2, 3⟩ ⟨3 / 5, 4 / 5, 0⟩ ⟨-(4 / 5), 3 / 5, 0⟩ two_pos one_pos
example := ellipse_aabb_extents ⟨1, 2, 3⟩ ⟨3 / 5, 4 / 5, 0⟩ ⟨-(4 / 5), 3 / 5, 0⟩ two_pos one_pos

/-- **Margin.** If `b` encloses and is tight on (C03's) `K`, `Margin.aabb` (`b` inflated by `m ≥ 0`)
encloses and is tight on C03's Minkowski sum of `K` with the `m`-ball. -/
theorem margin_aabb_encloses {b : Box ℝ} {K : V → Prop} {m : ℝ} (hm : 0 ≤ m) (he : Encloses b K)
    (ht : TightOn b K) :
    Encloses (inflate b m) (Support.marginSet K m) ∧ TightOn (inflate b m) (Support.marginSet K m) :=
  ⟨encloses_congr (margin_sets_iff (fun _ => Iff.rfl) m) (C04.margin_aabb_encloses hm he ht),
   tightOn_congr (margin_sets_iff (fun _ => Iff.rfl) m) (C04.margin_aabb_tight hm he ht)⟩

/-- **Margin.** If moreover `sup d` is a support point of `K` for every `d`, the bounds of the
inflated box are the coordinates of `Margin.support_function(±eᵢ) = sup(±eᵢ) + m·norm_vector(±eᵢ)`. -/
theorem margin_aabb_extents {b : Box ℝ} {K : V → Prop} {m : ℝ} (hm : 0 ≤ m) (he : Encloses b K)
    (ht : TightOn b K) (sup : V → V) (hs : ∀ d, IsSupport K d (sup d)) :
    ExtentsEq (inflate b m) (fun d => sup d + m * Support.normVector d) :=
  extentsEq_of_support (margin_aabb_encloses hm he ht).1 (margin_aabb_encloses hm he ht).2 _
    (fun d => C03.margin_support K m hm d (sup d) (hs d))

example := margin_aabb_encloses (by norm_num : (0 : ℝ) ≤ 1 / 2)
  (sphere_aabb_encloses ⟨1, -2, 3⟩ zero_le_two).1 (sphere_aabb_encloses ⟨1, -2, 3⟩ zero_le_two).2
example := margin_aabb_extents (by norm_num : (0 : ℝ) ≤ 1 / 2)
  (sphere_aabb_encloses ⟨1, -2, 3⟩ zero_le_two).1 (sphere_aabb_encloses ⟨1, -2, 3⟩ zero_le_two).2
  (fun d => (Support.supportSphere d ⟨1, -2, 3⟩ 2).2) (fun d => C03.sphere_support d _ _ zero_le_two)

/-! ## 3. the collider sum types -/

/-- **Every collider: same point set.** For a collider value `c` of C03's model, C04's point set
of the same collider (`ofSupport c`: same constructor arguments, a mesh keeps pose and vertex
list) is C03's point set — under C04's well-formedness. -/
theorem collider_sets_iff (c : Support.Collider ℝ) (h : (ofSupport c).WF) (p : V) :
    (ofSupport c).pts p ↔ c.pointSet p :=
  pts_iff c h p

/-- **Every collider: `aabb()` encloses and is tight on C03's point set** (repaired ellipsoid
function; meshes and nested margins included). -/
theorem collider_aabb_encloses (c : Support.Collider ℝ) (h : (ofSupport c).WF) :
    ∃ b, (ofSupport c).aabb ellipsoidAabb_fixed = .ok b ∧ Encloses b c.pointSet ∧
      TightOn b c.pointSet := by
  obtain ⟨b, hb, he, ht⟩ := C04.collider_aabb_spec (ofSupport c) h
  exact ⟨b, hb, encloses_congr (pts_iff c h) he, tightOn_congr (pts_iff c h) ht⟩

/-- **Every stateless collider: the bounds of `aabb()` are the support extents.** For a collider
without a `MeshGraph` inside, `support_function(±eᵢ)` succeeds, leaves the object unchanged, and the
six bounds of `aabb()` are the corresponding coordinates of its results. -/
theorem collider_aabb_extents (c : Support.Collider ℝ) (h : (ofSupport c).WF) (hf : c.meshFree) :
    ∃ b, (ofSupport c).aabb ellipsoidAabb_fixed = .ok b ∧
      ExtentsMatch b (fun d s => ∃ br, c.support d = .ok (br, s, c)) := by
  obtain ⟨b, hb, he, ht⟩ := collider_aabb_encloses c h
  refine ⟨b, hb, extentsMatch_of_support he ht _ (fun d => ?_)⟩
  obtain ⟨br, s, h1, h2⟩ := C03.collider_support c (wf_of_wf c h hf) hf d
  exact ⟨s, ⟨br, h1⟩, h2⟩

/-- a nested example: margin around a tilted cone -/
noncomputable def exCollider : Support.Collider ℝ := .margin (.cone exPose (1 / 2) 2) (1 / 4)

theorem exCollider_wf : (ofSupport exCollider).WF := by
  refine ⟨⟨exPose_orth, ?_, ?_⟩, ?_⟩ <;> norm_num

example := collider_sets_iff exCollider exCollider_wf ⟨1, 2, 3⟩
example := collider_aabb_encloses exCollider exCollider_wf
example := collider_aabb_extents exCollider exCollider_wf (by simp [exCollider, Support.Collider.meshFree])

end C04Link
end D3
