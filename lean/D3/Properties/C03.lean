/-
C03 — support mappings return a point of the shape that is extreme along the query direction.

Property theorems only (helper lemmas: D3/Proofs/Support{Sets,Closed,Hull,Mesh,MeshBuild,Collider}.lean).
All statements are about the executable model `D3.Support.*` of D3/Model/Support.lean at `α := ℝ`
— the same polymorphic terms the driver runs at `Float`/`Rat` against the implementation.

Vocabulary (D3/Spec/Vec.lean, D3/Proofs/SupportSets.lean):
  `IsSupport K d p`   : `p ∈ K` and `d·x ≤ d·p` for every `x ∈ K`
  `poseImage A K`     : `{R q + t | q ∈ K}` — the theorems hold for EVERY matrix `R`
  point sets          : `ballSet`, `capsuleLocalSet`, `cylinderLocalSet`, `coneLocalSet`,
                        `ellipsoidLocalSet`, `boxLocalSet`/`boxSizeSet`, `diskSet`, `ellipseSet`,
                        `hullSet` (convex hull), `marginSet` (Minkowski sum with a ball), `meshSet`
Hypotheses are only what the property grants (positive sizes, unit disk normal, non-empty vertex
list, mesh data accepted by the decidable `MeshData.wfCheck`); none of the closed forms needs
`d ≠ 0` (for `d = 0` every point of the set is a support point, and the code's `norm == 0`
branches return a point of the set) nor an orthonormal pose.

Mesh hill climbing is the code AFTER repair e900ae9 (finding F-mesh-hill-climb-cycle): one computed
projection per vertex, acceptance `projection - best_projection > PROJECTION_LENGTH_EPSILON`.
Its termination is proved for EVERY scalar type and arithmetic (`hillClimb_terminates_anyArith`,
`_strictOrder`, `_floatLike`) — this covers floating point, which the exact-real statements do
not; the climb before the repair is kept as `…_asIs_before_fix` with a before/after pair
(`hillClimb_asIs_before_fix_counterexample` / `hillClimb_fixed`).

Nothing in this file is partial. What the theorems do not cover is listed in
harness/props/c03.py (`PARTIAL`): `Unimodal` is an explicit hypothesis of the global statement
for meshes (not derived from convexity of the mesh; its decidable form `unimodalCheck` is
evaluated by the driver on the harness's meshes), and rounding of the returned values is not
modelled (termination no longer depends on that).
-/
import D3.Proofs.SupportCollider
import D3.Proofs.SupportMeshCycle
import D3.Proofs.SupportMeshFloatLike

namespace D3
namespace C03
open Support

/-! ## closed forms (geometry.py) -/

/-- **Sphere.** `support_function_sphere` returns a point of the ball that maximises `d·x`,
for every centre, radius ≥ 0 and direction (the `s_norm == 0` branch included). -/
theorem sphere_support (d c : V) (r : ℝ) (hr : 0 ≤ r) :
    IsSupport (ballSet c r) d (supportSphere d c r).2 :=
  supportSphere_isSupport d c r hr

example : IsSupport (ballSet ⟨1, 2, 3⟩ 2) ⟨3, 4, 0⟩ (supportSphere (⟨3, 4, 0⟩ : V) ⟨1, 2, 3⟩ 2).2 :=
  sphere_support _ _ _ (by norm_num)

/-- **Box (geometry.support_function_box).** `sign(local_dir) * half_lengths`, posed: a support
point of the posed solid box — including `np.sign(0) = 0` components (then the returned point is
the midpoint of an edge/face/the centre, which is still a maximiser). -/
theorem boxfn_support (d : V) (A : Pose ℝ) (half : V) (hx : 0 ≤ half.x) (hy : 0 ≤ half.y)
    (hz : 0 ≤ half.z) : IsSupport (poseImage A (boxLocalSet half)) d (supportBoxFn d A half).2 :=
  supportBoxFn_isSupport d A half hx hy hz

example : IsSupport (poseImage Pose.id (boxLocalSet ⟨1, 2, 3⟩)) ⟨1, 0, -1⟩
    (supportBoxFn (⟨1, 0, -1⟩ : V) Pose.id ⟨1, 2, 3⟩).2 :=
  boxfn_support _ _ _ (by norm_num) (by norm_num) (by norm_num)

/-- **Box collider.** `Box.support_function` = first `np.argmax` over the eight posed corners
(`convert_box_to_vertices`): succeeds, returns the vertex at the returned index, and that vertex
is a support point of the posed solid box. -/
theorem box_support (d : V) (A : Pose ℝ) (size : V) (hx : 0 ≤ size.x) (hy : 0 ≤ size.y)
    (hz : 0 ≤ size.z) :
    ∃ i p, supportHull d (boxVertices A size) = .ok (i, p) ∧ (boxVertices A size)[i]? = some p ∧
      IsSupport (poseImage A (boxSizeSet size)) d p :=
  supportBox_isSupport d A size hx hy hz

example : ∃ i p, supportHull (⟨0, 1, 0⟩ : V) (boxVertices Pose.id ⟨2, 2, 2⟩) = .ok (i, p) ∧
    (boxVertices Pose.id (⟨2, 2, 2⟩ : V))[i]? = some p ∧
    IsSupport (poseImage Pose.id (boxSizeSet ⟨2, 2, 2⟩)) ⟨0, 1, 0⟩ p :=
  box_support _ _ _ (by norm_num) (by norm_num) (by norm_num)

/-- **Capsule.** Both sign branches of `local_dir[2]` (`> 0` / `≤ 0`, the tie `= 0` goes to
the lower cap and is still optimal) and the `s == 0` branch. -/
theorem capsule_support (d : V) (A : Pose ℝ) (r h : ℝ) (hr : 0 ≤ r) (hh : 0 ≤ h) :
    IsSupport (poseImage A (capsuleLocalSet r h)) d (supportCapsule d A r h).2 :=
  supportCapsule_isSupport d A r h hr hh

example : IsSupport (poseImage ⟨M3.one, ⟨1, 1, 1⟩⟩ (capsuleLocalSet 0.5 2)) ⟨1, 0, 0⟩
    (supportCapsule (⟨1, 0, 0⟩ : V) ⟨M3.one, ⟨1, 1, 1⟩⟩ 0.5 2).2 :=
  capsule_support _ _ _ _ (by norm_num) (by norm_num)

/-- **Cylinder.** Sign branch of `local_dir[2]` and the `s == 0` branch (direction parallel to
the axis: the point `(radius, 0, ±l/2)` of the rim is returned). -/
theorem cylinder_support (d : V) (A : Pose ℝ) (r l : ℝ) (hr : 0 ≤ r) (hl : 0 ≤ l) :
    IsSupport (poseImage A (cylinderLocalSet r l)) d (supportCylinder d A r l).2 :=
  supportCylinder_isSupport d A r l hr hl

example : IsSupport (poseImage Pose.id (cylinderLocalSet 1 2)) ⟨0, 0, 1⟩
    (supportCylinder (⟨0, 0, 1⟩ : V) Pose.id 1 2).2 :=
  cylinder_support _ _ _ _ (by norm_num) (by norm_num)

/-- **`plane_basis_from_normal`.** For a unit normal the `length == 0` division is unreachable
and `(x, y, n)` is an orthonormal frame (rows and columns). -/
theorem planeBasis_orthonormal (n : V) (hn : V3.normSq n = 1) :
    ∃ b x y, planeBasisFromNormal n = .ok (b, x, y) ∧ Orthonormal (columnStack x y n) :=
  Support.planeBasis_orthonormal n hn

example : ∃ b x y, planeBasisFromNormal (⟨0.6, 0, 0.8⟩ : V) = .ok (b, x, y) ∧
    Orthonormal (columnStack x y ⟨0.6, 0, 0.8⟩) :=
  planeBasis_orthonormal _ (by rw [V3.normSq_def]; norm_num)

/-- **Disk.** For a unit normal `support_function_disk` succeeds and returns a support point of
the flat disk; the zero in-plane component branch (`norm == 0`, `d ∥ n`) returns the centre. -/
theorem disk_support (d c : V) (r : ℝ) (hr : 0 ≤ r) (n : V) (hn : V3.normSq n = 1) :
    ∃ b p, supportDisk d c r n = .ok (b, p) ∧ IsSupport (diskSet c r n) d p :=
  supportDisk_isSupport d c r hr n hn

example : ∃ b p, supportDisk (⟨1, 1, 0⟩ : V) ⟨0, 0, 1⟩ 2 ⟨0, 0, 1⟩ = .ok (b, p) ∧
    IsSupport (diskSet ⟨0, 0, 1⟩ 2 ⟨0, 0, 1⟩) ⟨1, 1, 0⟩ p :=
  disk_support _ _ _ (by norm_num) _ (by rw [V3.normSq_def]; norm_num)

/-- **Ellipse.** Holds for arbitrary axis vectors (the set is the image of the unit disk under
`(a, b) ↦ c + a·r0·axes[0] + b·r1·axes[1]`); `norm == 0` branch included. -/
theorem ellipse_support (d c a0 a1 : V) (r0 r1 : ℝ) (h0 : 0 < r0) (h1 : 0 < r1) :
    IsSupport (ellipseSet c a0 a1 r0 r1) d (supportEllipse d c a0 a1 r0 r1).2 :=
  supportEllipse_isSupport d c a0 a1 r0 r1 h0 h1

example : IsSupport (ellipseSet ⟨0, 0, 0⟩ ⟨1, 0, 0⟩ ⟨0, 1, 0⟩ 2 1) ⟨1, 1, 1⟩
    (supportEllipse (⟨1, 1, 1⟩ : V) ⟨0, 0, 0⟩ ⟨1, 0, 0⟩ ⟨0, 1, 0⟩ 2 1).2 :=
  ellipse_support _ _ _ _ _ _ (by norm_num) (by norm_num)

/-- **Ellipsoid.** `norm_vector(local_dir * radii) * radii`, posed. -/
theorem ellipsoid_support (d : V) (A : Pose ℝ) (radii : V) (ha : 0 < radii.x) (hb : 0 < radii.y)
    (hc : 0 < radii.z) :
    IsSupport (poseImage A (ellipsoidLocalSet radii)) d (supportEllipsoid d A radii).2 :=
  supportEllipsoid_isSupport d A radii ha hb hc

example : IsSupport (poseImage Pose.id (ellipsoidLocalSet ⟨1, 2, 3⟩)) ⟨1, 1, 0⟩
    (supportEllipsoid (⟨1, 1, 0⟩ : V) Pose.id ⟨1, 2, 3⟩).2 :=
  ellipsoid_support _ _ _ (by norm_num) (by norm_num) (by norm_num)

/-- **Cone.** Rim point vs apex, the tie `r·|d_xy| = d_z·h` (rim is returned; both are
maximisers), and the `norm == 0` branch (base centre vs apex). -/
theorem cone_support (d : V) (A : Pose ℝ) (r h : ℝ) (hr : 0 ≤ r) (hh : 0 < h) :
    IsSupport (poseImage A (coneLocalSet r h)) d (supportCone d A r h).2 :=
  supportCone_isSupport d A r h hr hh

example : IsSupport (poseImage Pose.id (coneLocalSet 1 1)) ⟨1, 0, 1⟩
    (supportCone (⟨1, 0, 1⟩ : V) Pose.id 1 1).2 :=
  cone_support _ _ _ _ (by norm_num) (by norm_num)

/-! ## vertex hulls, Margin -/

/-- **ConvexHullVertices.** The first `np.argmax` of `vertices.dot(d)` of a non-empty vertex
list: succeeds, the returned point is the vertex at the returned index, and it is a support
point of the convex hull of the vertices. -/
theorem hull_support (d : V) (vs : List V) (hne : vs ≠ []) :
    ∃ i p, supportHull d vs = .ok (i, p) ∧ vs[i]? = some p ∧ IsSupport (hullSet vs) d p :=
  supportHull_isSupport d vs hne

example : ∃ i p, supportHull (⟨1, 1, 0⟩ : V) [⟨0, 0, 0⟩, ⟨1, 0, 0⟩, ⟨0, 1, 0⟩, ⟨0, 0, 1⟩] = .ok (i, p) ∧
    ([⟨0, 0, 0⟩, ⟨1, 0, 0⟩, ⟨0, 1, 0⟩, ⟨0, 0, 1⟩] : List V)[i]? = some p ∧
    IsSupport (hullSet [⟨0, 0, 0⟩, ⟨1, 0, 0⟩, ⟨0, 1, 0⟩, ⟨0, 0, 1⟩]) ⟨1, 1, 0⟩ p :=
  hull_support _ _ (by simp)

/-- **First maximal index.** Like `np.argmax`, the model returns the first index attaining the
maximum: every vertex at an earlier index projects strictly lower. -/
theorem hull_support_first (d : V) (vs : List V) (i : Nat) (p : V)
    (h : supportHull d vs = .ok (i, p)) :
    ∀ j, j < i → ∀ w, vs[j]? = some w → V3.dot w d < V3.dot p d :=
  supportHull_first d vs i p h

example : ∀ j, j < 1 → ∀ w, ([⟨0, 0, 0⟩, ⟨1, 0, 0⟩, ⟨1, 1, 0⟩] : List V)[j]? = some w →
    V3.dot w ⟨1, 0, 0⟩ < V3.dot (⟨1, 0, 0⟩ : V) ⟨1, 0, 0⟩ :=
  hull_support_first ⟨1, 0, 0⟩ [⟨0, 0, 0⟩, ⟨1, 0, 0⟩, ⟨1, 1, 0⟩] 1 ⟨1, 0, 0⟩
    (by simp [supportHull, argmaxFrom, V3.dot_def])

/-- `hullSet` is the convex hull: convex, and contained in every convex set that contains the
vertices. -/
theorem hullSet_is_convex_hull (vs : List V) :
    ConvexSet (hullSet vs) ∧ (∀ v ∈ vs, hullSet vs v) ∧
      ∀ K : V → Prop, ConvexSet K → (∀ v ∈ vs, K v) → ∀ x, hullSet vs x → K x :=
  ⟨hull_convex vs, fun _ hv => hullSet.vertex hv, fun _ hK h => hull_minimal hK h⟩

/-- **Margin.** If `p` is a support point of `K` then `p + margin * norm_vector(d)` is a support
point of the Minkowski sum of `K` with the ball of radius `margin` (for `d = 0` too). -/
theorem margin_support (K : V → Prop) (m : ℝ) (hm : 0 ≤ m) (d p : V) (h : IsSupport K d p) :
    IsSupport (marginSet K m) d (p + m * normVector d) :=
  Support.margin_support K m hm d p h

example : IsSupport (marginSet (ballSet ⟨0, 0, 0⟩ 1) 0.5) ⟨0, 3, 4⟩
    ((supportSphere (⟨0, 3, 4⟩ : V) ⟨0, 0, 0⟩ 1).2 + (0.5 : ℝ) * normVector (⟨0, 3, 4⟩ : V)) :=
  margin_support _ _ (by norm_num) _ _ (sphere_support _ _ _ (by norm_num))

/-! ## all stateless collider classes at once -/

/-- **Every stateless collider** (`Sphere, Capsule, Ellipsoid, Cylinder, Disk, Ellipse, Cone,
Box, ConvexHullVertices` and `Margin` around any of them, nested arbitrarily):
`support_function(d)` succeeds, leaves the object unchanged and returns a support point of the
collider's point set. -/
theorem collider_support (c : Collider ℝ) (hw : c.WF) (hf : c.meshFree) (d : V) :
    ∃ br p, c.support d = .ok (br, p, c) ∧ IsSupport c.pointSet d p :=
  Support.collider_support c hw hf d

example : ∃ br p, (Collider.margin (.cone Pose.id (1 : ℝ) 2) 0.25).support ⟨1, 0, 1⟩
      = .ok (br, p, .margin (.cone Pose.id 1 2) 0.25) ∧
    IsSupport (Collider.margin (.cone Pose.id (1 : ℝ) 2) 0.25).pointSet ⟨1, 0, 1⟩ p :=
  collider_support _ (by simp only [Collider.WF]; norm_num) (by simp [Collider.meshFree]) _

/-- **first_vertex()** of every well-formed collider (meshes and margins included) succeeds and
is a point of the collider's point set. -/
theorem firstVertex_mem (c : Collider ℝ) (hw : c.WF) : ∃ p, c.firstVertex = .ok p ∧ c.pointSet p :=
  collider_firstVertex_mem c hw

example : ∃ p, (Collider.capsule Pose.id (1 : ℝ) 2).firstVertex = .ok p ∧
    (Collider.capsule Pose.id (1 : ℝ) 2).pointSet p :=
  firstVertex_mem _ (by simp only [Collider.WF]; norm_num)

/-- **center()** of every well-formed collider is a point of the collider's point set (for
vertex hulls and meshes: the mean of the vertices lies in their convex hull). -/
theorem center_mem (c : Collider ℝ) (hw : c.WF) : c.pointSet c.center :=
  collider_center_mem c hw

example : (Collider.hull [(⟨0, 0, 0⟩ : V), ⟨1, 0, 0⟩, ⟨0, 1, 0⟩]).pointSet
    (Collider.hull [(⟨0, 0, 0⟩ : V), ⟨1, 0, 0⟩, ⟨0, 1, 0⟩]).center :=
  center_mem _ (by simp [Collider.WF])

/-! ## mesh hill climbing -/

/-- a concrete well-formed mesh (tetrahedron) used by the examples below -/
noncomputable def tetra : MeshData ℝ :=
  { verts := #[⟨0, 0, 0⟩, ⟨1, 0, 0⟩, ⟨0, 1, 0⟩, ⟨0, 0, 1⟩],
    conn := [(0, [1, 2, 3]), (1, [0, 2, 3]), (2, [0, 1, 3]), (3, [0, 1, 2])],
    shortcuts := [1, 2, 3, 0, 0, 0] }

theorem tetra_wf : MeshWF tetra := wfCheck_sound tetra (by decide)
theorem tetra_valid0 : Valid tetra 0 := ⟨by decide, [1, 2, 3], rfl⟩

/-- **Soundness of the run-time check.** Mesh data accepted by the decidable `wfCheck` (which
the driver evaluates on every mesh of the harness) satisfies the precondition `MeshWF`: every
shortcut vertex and every listed neighbour is a vertex index that occurs in a triangle. -/
theorem meshWF_of_check (m : MeshData ℝ) (h : m.wfCheck = true) : MeshWF m := wfCheck_sound m h

/-- **Construction.** `MeshHillClimbingSupportFunction.__init__` (model `MeshData.build`: the
`connections` dict, the six arg-max/arg-min shortcuts, `first_idx = np.min(triangles)`) yields
well-formed data and a valid start index whenever the triangle indices are vertex indices and
every shortcut vertex occurs in some triangle (true when every vertex is used; this is the
KeyError precondition, see `hillClimb_keyError`). -/
theorem mesh_build_wf (verts : Array V) (tris : List (Nat × Nat × Nat)) (m : MeshData ℝ) (fi : Nat)
    (h : MeshData.build verts tris = .ok (m, fi))
    (hidx : ∀ t ∈ tris, ∀ i, TriVert t i → i < verts.size)
    (hsc : ∀ s ∈ m.shortcuts, ∃ t ∈ tris, TriVert t s) :
    MeshWF m ∧ Valid m fi ∧ m.verts = verts :=
  build_wf verts tris m fi h hidx hsc

example : ∃ m fi, MeshData.build (#[⟨0, 0, 0⟩, ⟨1, 0, 0⟩, ⟨0, 1, 0⟩] : Array V) [(0, 1, 2)] = .ok (m, fi) ∧
    MeshWF m ∧ Valid m fi := by
  have hb : MeshData.build (#[⟨0, 0, 0⟩, ⟨1, 0, 0⟩, ⟨0, 1, 0⟩] : Array V) [(0, 1, 2)]
      = .ok (⟨#[⟨0, 0, 0⟩, ⟨1, 0, 0⟩, ⟨0, 1, 0⟩], [(0, [1, 2]), (1, [0, 2]), (2, [0, 1])],
        [1, 2, 0, 0, 0, 0]⟩, 0) := by
    simp [MeshData.build, argBest0, argBest, connAddTriangle, connEnsure, connUpdate, setUpdate,
      List.lookup]
  refine ⟨_, _, hb, ?_⟩
  have := mesh_build_wf _ _ _ _ hb (by simp [TriVert]) (by simp [TriVert])
  exact ⟨this.1, this.2.1⟩

/-- **Termination and local optimality, for every start index.** On well-formed mesh data and
from any start vertex that occurs in a triangle, `hill_climb_mesh_extreme` (model fuel = number
of vertices) never runs out of fuel, raises neither KeyError nor IndexError, and returns a vertex
none of whose neighbours is better by more than the threshold; it never returns a vertex worse
than the start. Proved for every threshold `τ ≥ 0`; `mesh_call` instantiates
`PROJECTION_LENGTH_EPSILON` regenerated from the source. -/
theorem hillClimb_terminates_local (τ : ℝ) (hτ : 0 ≤ τ) (d : V) (m : MeshData ℝ) (hwf : MeshWF m)
    (start : Nat) (hs : Valid m start) :
    ∃ r br, hillClimbT τ d start m = .ok (r, br) ∧ Valid m r ∧ LocalOpt τ d m r ∧
      proj d m.verts start ≤ proj d m.verts r :=
  hillClimbT_spec τ hτ d m hwf start hs

example : ∃ r br, hillClimbT (1e-15 : ℝ) ⟨1, 2, 3⟩ 0 tetra = .ok (r, br) ∧ Valid tetra r ∧
    LocalOpt 1e-15 ⟨1, 2, 3⟩ tetra r ∧ proj ⟨1, 2, 3⟩ tetra.verts 0 ≤ proj ⟨1, 2, 3⟩ tetra.verts r :=
  hillClimb_terminates_local _ (by norm_num) _ _ tetra_wf 0 tetra_valid0

/-- **Global optimality under `Unimodal`.** If every vertex more than `τ'` below the best has a
neighbour better by more than `τ`, a locally optimal vertex is within `τ'` of the maximum over
all vertices. -/
theorem hillClimb_global {τ τ' : ℝ} {d : V} {m : MeshData ℝ} (hu : Unimodal τ τ' d m) {r : Nat}
    (hv : Valid m r) (ho : LocalOpt τ d m r) :
    ∀ i, i < m.verts.size → proj d m.verts i ≤ proj d m.verts r + τ' :=
  localOpt_global hu hv ho

/-- **Soundness of the run-time `Unimodal` check.** The decidable `unimodalCheck` (evaluated by the
driver, exactly at `Rat`, for the lattice meshes and directions of the harness) implies the
hypothesis `Unimodal` of the global statements. -/
theorem unimodal_of_check (τ τ' : ℝ) (d : V) (m : MeshData ℝ) (h : unimodalCheck τ τ' d m = true) :
    Unimodal τ τ' d m :=
  unimodalCheck_sound τ τ' d m h

/-- the tetrahedron is unimodal for the direction (1,2,3) with thresholds 1e-15 / 0 -/
example : Unimodal (1e-15 : ℝ) 0 ⟨1, 2, 3⟩ tetra := by
  apply unimodal_of_check
  simp [unimodalCheck, tetra, projAt, V3.dot_def, List.range, List.range.loop, List.lookup]
  norm_num

/-- **MeshGraph.support_function, one call from any cached index.** Succeeds, returns a posed
vertex of the mesh (a point of the collider), caches a valid index, and — when the mesh is
`Unimodal` for this direction — no point of the posed hull projects more than `τ'` beyond it. -/
theorem mesh_call (A : Pose ℝ) (m : MeshData ℝ) (hwf : MeshWF m) (fi : Nat) (hv : Valid m fi) (d : V) :
    ∃ idx p br, meshCall A m fi d = .ok (idx, p, br) ∧ Valid m idx ∧ meshSet A m p ∧
      LocalOpt (Gen.mesh__PROJECTION_LENGTH_EPSILON : ℝ) (A.R.tmulVec d) m idx ∧
      ∀ τ', Unimodal (Gen.mesh__PROJECTION_LENGTH_EPSILON : ℝ) τ' (A.R.tmulVec d) m →
        ∀ x, meshSet A m x → V3.dot d x ≤ V3.dot d p + τ' :=
  meshCall_spec A m hwf fi hv d

example : ∃ idx p br, meshCall Pose.id tetra 0 (⟨1, 2, 3⟩ : V) = .ok (idx, p, br) ∧ Valid tetra idx ∧
    meshSet Pose.id tetra p :=
  let ⟨idx, p, br, h1, h2, h3, _⟩ := mesh_call Pose.id tetra tetra_wf 0 tetra_valid0 ⟨1, 2, 3⟩
  ⟨idx, p, br, h1, h2, h3⟩

/-- **Every history of queries.** On a well-formed `MeshGraph` every query of every sequence of
queries succeeds and returns a point of the collider, and each answer is within `τ'` of the
true maximum over the collider whenever the mesh is `Unimodal` for that query's direction —
regardless of what was asked before (the cached `first_idx` is always a valid start). -/
theorem mesh_history (A : Pose ℝ) (m : MeshData ℝ) (hwf : MeshWF m) (τ' : ℝ) (ds : List V) (fi : Nat)
    (hv : Valid m fi) :
    List.Forall₂ (fun d r => ∃ br p, r = Except.ok (br, p) ∧ meshSet A m p ∧
      (Unimodal (Gen.mesh__PROJECTION_LENGTH_EPSILON : ℝ) τ' (A.R.tmulVec d) m →
        ∀ x, meshSet A m x → V3.dot d x ≤ V3.dot d p + τ'))
      ds (Collider.history (.mesh A m fi) ds) :=
  Support.mesh_history A m hwf τ' ds fi hv

example := mesh_history Pose.id tetra tetra_wf 1e-9 [(⟨1, 0, 0⟩ : V), ⟨0, -1, 0⟩, ⟨1, 0, 0⟩] 0 tetra_valid0

/-- **History independence.** The same direction asked after two different histories (from two
different valid cached indices) yields support values that differ by at most `τ'`. -/
theorem mesh_history_independent (A : Pose ℝ) (m : MeshData ℝ) (hwf : MeshWF m) (fi fi' : Nat)
    (hv : Valid m fi) (hv' : Valid m fi') (d : V) (τ' : ℝ)
    (hu : Unimodal (Gen.mesh__PROJECTION_LENGTH_EPSILON : ℝ) τ' (A.R.tmulVec d) m) :
    ∃ idx p br idx' p' br', meshCall A m fi d = .ok (idx, p, br) ∧
      meshCall A m fi' d = .ok (idx', p', br') ∧
      V3.dot d p ≤ V3.dot d p' + τ' ∧ V3.dot d p' ≤ V3.dot d p + τ' :=
  Support.mesh_history_independent A m hwf fi fi' hv hv' d τ' hu

/-- **Margin around a mesh** keeps the slack of the mesh answer. -/
theorem margin_support_within (K : V → Prop) (m : ℝ) (hm : 0 ≤ m) (d p : V) (ε : ℝ)
    (h : IsSupportWithin K d p ε) : IsSupportWithin (marginSet K m) d (p + m * normVector d) ε :=
  Support.margin_support_within K m hm d p ε h

/-- **KeyError, exactly.** If the vertex selected by the shortcut loop has no entry in
`connections` (it occurs in no triangle) the call fails with `KeyError` — as the implementation
does. `MeshWF` (shortcut vertices occur in triangles) is therefore the precise precondition of
the four theorems above. -/
theorem hillClimb_keyError (τ : ℝ) (d : V) (m : MeshData ℝ) (start : Nat) (bp0 : ℝ)
    (st0 : ClimbSt ℝ) (hp : vertexProj d m.verts start = .ok bp0)
    (hsc : climbFold τ d m.verts m.shortcuts ⟨start, bp0, false, 0⟩ = .ok st0)
    (hkey : m.conn.lookup st0.best = none) (hn : 0 < m.verts.size) :
    hillClimbT τ d start m = .error .keyError :=
  Support.hillClimb_keyError τ d m start bp0 st0 hp hsc hkey hn

/-- the tetrahedron plus a fifth vertex `(5,5,5)` referenced by no triangle: that vertex is the
arg-max of every coordinate, i.e. three of the six shortcuts -/
noncomputable def tetraPlus : MeshData ℝ :=
  { verts := #[⟨0, 0, 0⟩, ⟨1, 0, 0⟩, ⟨0, 1, 0⟩, ⟨0, 0, 1⟩, ⟨5, 5, 5⟩],
    conn := [(0, [1, 2, 3]), (1, [0, 2, 3]), (2, [0, 1, 3]), (3, [0, 1, 2])],
    shortcuts := [4, 4, 4, 0, 0, 0] }

/-- **Edge case of the as-is code (outside the declared domain: unused vertex).** A mesh with a
vertex that occurs in no triangle and is extreme along a coordinate axis makes
`support_function((1,0,0))` raise `KeyError`. -/
theorem hillClimb_unusedVertex_asIs_counterexample :
    hillClimb (⟨1, 0, 0⟩ : V) 0 tetraPlus = .error .keyError := by
  have hτ : (Gen.mesh__PROJECTION_LENGTH_EPSILON : ℝ) < 5 := by
    unfold Gen.mesh__PROJECTION_LENGTH_EPSILON; norm_num
  have hτ0 : ¬ ((Gen.mesh__PROJECTION_LENGTH_EPSILON : ℝ) < 0) := not_lt.mpr eps_nonneg
  have hτ5 : ¬ ((Gen.mesh__PROJECTION_LENGTH_EPSILON : ℝ) < -5) := by
    have := eps_nonneg; intro h; linarith
  apply hillClimb_keyError _ _ _ 0 0 ⟨4, 5, true, 1⟩ _ _ rfl (by decide)
  · simp [tetraPlus, vertexProj, V3.dot_def]
  · simp only [tetraPlus, climbFold, vertexProj, V3.dot_def]
    norm_num [hτ, hτ0, hτ5]

/-! ## termination in every arithmetic (repair e900ae9) and the defect it repaired -/

/-- **Termination of the repaired climb in ANY arithmetic.** For every scalar type `α` and every
instance of `+ - * / <` on it — no algebraic or order law assumed — every threshold, direction,
well-formed mesh data and valid start: if the acceptance test `τ < proj c - proj b` on the ONE
computed projection per vertex is contained in some strict order `R` on vertex indices, then for
every fuel ≥ #vertices the model of `hill_climb_mesh_extreme` returns (no `fuel`, `KeyError`,
`IndexError`) after at most #vertices − 1 accepted moves (shortcut pass included) and at most
#vertices passes of the `while` loop (branch = 2·passes + shortcut flag), at a valid vertex none
of whose neighbours passes the acceptance test, which is the start or above it in `R`. -/
theorem hillClimb_terminates_anyArith {α : Type} [Add α] [Sub α] [Mul α] [Div α] [Neg α] [LT α]
    [LE α] [DecidableLT α] [DecidableLE α] [DecidableEq α] [OfNat α 0] [OfNat α 1] [OfNat α 2]
    [OfScientific α] [Min α] [Max α] [HasSqrt α]
    (τ : α) (d : V3 α) (m : MeshData α) (hwf : MeshWF m) (R : Nat → Nat → Prop)
    (hR : AcceptOrder τ d m.verts R) (start : Nat) (hs : Valid m start) (fuel : Nat)
    (hfuel : m.verts.size ≤ fuel) :
    ∃ r br moves, hillClimbF τ d start m fuel = .ok (r, br, moves) ∧ Valid m r ∧
      moves + 1 ≤ m.verts.size ∧ br ≤ 2 * m.verts.size + 1 ∧ (r = start ∨ R start r) ∧
      (∀ l, connLookup m.conn r = .ok l →
        ∀ c ∈ l, ¬ (τ < projAt d m.verts c - projAt d m.verts r)) :=
  hillClimbF_terminates_anyArith τ d m hwf R hR start hs fuel hfuel

/-- **… in particular whenever `<` is a strict order and `τ < a - b → b < a`** — the contract of
IEEE-754 comparison and subtraction (for `τ ≥ 0` or `τ` NaN; with a NaN operand every comparison
is false and no move is accepted). Nothing is assumed about `+` and `*`, i.e. about how `dot`
rounds or in which order it sums. This covers the floating-point run, which the exact-real
theorem `hillClimb_terminates_local` does not. -/
theorem hillClimb_terminates_strictOrder {α : Type} [Add α] [Sub α] [Mul α] [Div α] [Neg α] [LT α]
    [LE α] [DecidableLT α] [DecidableLE α] [DecidableEq α] [OfNat α 0] [OfNat α 1] [OfNat α 2]
    [OfScientific α] [Min α] [Max α] [HasSqrt α]
    (τ : α) (d : V3 α) (m : MeshData α) (hwf : MeshWF m)
    (lt_irrefl : ∀ a : α, ¬ a < a) (lt_trans : ∀ a b c : α, a < b → b < c → a < c)
    (sub_pos : ∀ a b : α, τ < a - b → b < a)
    (start : Nat) (hs : Valid m start) (fuel : Nat) (hfuel : m.verts.size ≤ fuel) :
    ∃ r br moves, hillClimbF τ d start m fuel = .ok (r, br, moves) ∧ Valid m r ∧
      moves + 1 ≤ m.verts.size ∧ br ≤ 2 * m.verts.size + 1 ∧
      (r = start ∨ projAt d m.verts start < projAt d m.verts r) ∧
      (∀ l, connLookup m.conn r = .ok l →
        ∀ c ∈ l, ¬ (τ < projAt d m.verts c - projAt d m.verts r)) :=
  hillClimbF_terminates_strictOrder τ d m hwf lt_irrefl lt_trans sub_pos start hs fuel hfuel

/-- non-vacuity at ℝ (threshold 1e-15, the tetrahedron, fuel 4): at most 3 moves -/
example : ∃ r br moves, hillClimbF (1e-15 : ℝ) ⟨1, 2, 3⟩ 0 tetra 4 = .ok (r, br, moves) ∧
    Valid tetra r ∧ moves + 1 ≤ tetra.verts.size :=
  let ⟨r, br, mv, h, hv, hm, _⟩ := hillClimb_terminates_strictOrder (1e-15 : ℝ) ⟨1, 2, 3⟩ tetra
    tetra_wf (fun a => lt_irrefl a) (fun _ _ _ h1 h2 => lt_trans h1 h2)
    (fun a b h => by norm_num at h; linarith) 0 tetra_valid0 4 (by decide)
  ⟨r, br, mv, h, hv, hm⟩

/-- **Float-like arithmetics, NaN included.** Values are reals or NaN, comparisons with NaN are
false, `a - b` is any rounding of the exact difference that does not make a non-positive
difference positive (NaN if an operand is NaN), `+ * / sqrt` are arbitrary functions: the
repaired climb terminates within its fuel for every threshold that is NaN or ≥ 0. -/
theorem hillClimb_terminates_floatLike (S : FLSpec) (τ : FL S) (hτ : ∀ t, τ = some t → 0 ≤ t)
    (d : V3 (FL S)) (m : MeshData (FL S)) (hwf : MeshWF m) (start : Nat) (hs : Valid m start)
    (fuel : Nat) (hfuel : m.verts.size ≤ fuel) :
    ∃ r br moves, hillClimbF τ d start m fuel = .ok (r, br, moves) ∧ Valid m r ∧
      moves + 1 ≤ m.verts.size :=
  hillClimbF_terminates_floatLike S τ hτ d m hwf start hs fuel hfuel

/-- **The defect (code before e900ae9), part 1.** In the arithmetic `Noisy` (exact `- * <`,
a cancelling sum comes out as the noise 2) on the single triangle `cycMesh` with
`d = (1,1,0)`, `τ = 1`, the pre-repair acceptance test `τ < d · (v_c − v_b)` holds for
0 → 1, 1 → 2 and 2 → 0: it is contained in no strict order on the vertices. -/
theorem hillClimb_asIs_before_fix_acceptance_not_an_order (R : Nat → Nat → Prop)
    (hirr : ∀ i, ¬ R i i) (htr : ∀ i j k, R i j → R j k → R i k)
    (hacc : ∀ b c pl, projLen cycDir cycMesh.verts c b = .ok pl → cycTau < pl → R b c) : False :=
  asIs_acceptance_in_no_strict_order R hirr htr hacc

/-- **The defect, part 2: non-termination.** On that well-formed mesh (exactly what the model
of `__init__` builds from one triangle: `cycMesh_is_built`) the pre-repair climb exhausts EVERY
fuel. -/
theorem hillClimb_asIs_before_fix_counterexample (fuel : Nat) :
    hillClimbF_asIs_before_fix cycTau cycDir 0 cycMesh fuel = .error .fuel :=
  hillClimb_asIs_before_fix_cycles fuel

/-- **The repair on the same data and the same arithmetic**: `Noisy` meets the contract of
`hillClimb_terminates_strictOrder`, so the repaired climb returns for every start and every
fuel ≥ 3 after at most 2 moves; from vertex 0 it is one move, two passes, result vertex 2. -/
theorem hillClimb_fixed (start : Nat) (hs : start < 3) (fuel : Nat) (hfuel : 3 ≤ fuel) :
    (∃ r br moves, hillClimbF cycTau cycDir start cycMesh fuel = .ok (r, br, moves) ∧ moves ≤ 2) ∧
    hillClimbF cycTau cycDir 0 cycMesh 3 = .ok (2, 3, 1) :=
  ⟨hillClimb_fixed_terminates_on_cycle start hs fuel hfuel, hillClimb_fixed_on_cycle_value⟩

end C03
end D3
