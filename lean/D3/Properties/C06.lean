/-
C06 — BVH broad phase plus narrow phase finds exactly the brute-force collisions.

Property theorems only (helper lemmas live in D3/Proofs/Bvh*.lean).  The model
(`D3.Model.Bvh`) is the state machine of `BoundingVolumeHierarchy` over frames with C05's
array-level AABB tree inside, plus `self_collision.detect/detect_any` over an abstract
narrow phase `hit` and `urdf_utils.self_collision_whitelists` over an abstract `UrdfInfo`.

* `poses_current`            — any history ending in `update_collider_poses`: every collider
                               carries the transform manager's current transform, the dict
                               keys are the added frames, payload and tree are rebuilt from
                               exactly the refreshed colliders;
  `fill_tree_poses_current`  — the same for `fill_tree_with_colliders`;
  `poses_current_tree`       — tree layer (C05 `T.insert`): that rebuild yields a tight tree
                               whose leaves are exactly the current AABBs;
* `overlapping_colliders_exact`, `other_bvh_exact`, `self_exact`
                             — for **every** state accepted by the decidable `linkCheck`
                               (C05 `wfCheck` + leaf↔collider link; the harness runs it in Lean
                               on the implementation's dumped state after every operation);
* `detect_complete`, `detect_sound`, `detect_any_iff`, `detect_any_iff_detect`
                             — by induction over the dict iteration order, for arbitrary (also
                               asymmetric) whitelists;
* `empty_bvh`                — the empty BVH answers every query with the empty result;
* `generated_whitelist_value`, `generated_whitelist_self`,
  `generated_whitelists_asymmetric`
                             — what `self_collision_whitelists` produces, and that branching
                               makes it asymmetric (dict last-write-wins in `LinkInfo`);
* `detect_asymmetric_marks`  — with asymmetric whitelists a frame is marked although all its
                               colliding partners are on its own whitelist (this is why the
                               soundness statement has two disjuncts; not a violation).

That the *array-level* `insert_aabb` (C05's `insertLeaf`) implements the tree-layer insertion,
so that `linkCheck` holds by proof after `update_collider_poses` (and the theorems below hold
without it as a hypothesis), is `D3.Properties.C06Link` (from `D3.Properties.C05Insert`); the
harness still runs `linkCheck` on the implementation's dumped arrays as the model ↔ code tie.
-/
import D3.Proofs.BvhQuery
import D3.Proofs.BvhUpdate

namespace D3
namespace C06
open Aabb Bvh

/-- **C06, poses.**  After any sequence of `add_collider` / `update_collider_poses` calls that
ends in `update_collider_poses` (transform manager answering `getT`) and did not raise:
the keys of `colliders_` are distinct and are exactly the added frames; every collider's pose
is `getT frame` (its shape function is that of the collider stored before the update);
`external_data_list`'s payloads are exactly the `(frame, collider)` items of `colliders_` in
dict order; and the tree is the one obtained from the empty tree by `insert_aabb` of the
colliders' *current* AABBs in dict order. -/
theorem poses_current (ops : List (Op ℝ)) (getT : Frame → Pose ℝ) (s' : State ℝ)
    (h : run State.empty (ops ++ [Op.update getT]) = .ok s') :
    ∃ s1, run State.empty ops = .ok s1 ∧
      s'.colliders = refreshed getT s1.colliders ∧
      (dKeys s'.colliders).Nodup ∧
      (∀ f, f ∈ dKeys s'.colliders ↔ f ∈ addedFrames ops) ∧
      (∀ f c, (f, c) ∈ s'.colliders → c.pose = getT f ∧ ∃ c0, (f, c0) ∈ s1.colliders ∧ c.aabb = c0.aabb) ∧
      s'.payload = s'.colliders.toArray ∧
      rebuild Aabb.Tree.empty #[] s'.colliders = .ok (s'.tree, s'.payload) := by
  rw [run_append] at h
  cases h1 : run State.empty ops with
  | error e => simp [h1] at h
  | ok s1 =>
    simp only [h1, run, step] at h
    cases hu : updateColliderPoses getT s1 with
    | error e => simp [hu] at h
    | ok s2 =>
      simp only [hu, Except.ok.injEq] at h
      subst h
      obtain ⟨hc, hr, hp⟩ := update_spec getT s1 s2 hu
      obtain ⟨hn, hk⟩ := run_keys ops State.empty s1 h1 (by simp [State.empty, dKeys])
      refine ⟨s1, rfl, hc, ?_, ?_, ?_, hp, hr⟩
      · rw [hc, dKeys_refreshed]; exact hn
      · intro f
        rw [hc, dKeys_refreshed, hk f]
        simp [State.empty, dKeys]
      · intro f c hfc
        rw [hc] at hfc
        exact pose_refreshed getT s1.colliders f c hfc

theorem addedFrames_adds (objs : List (Frame × Collider ℝ)) :
    addedFrames (objs.map fun p => Op.add p.1 p.2) = objs.map (·.1) := by
  induction objs with
  | nil => rfl
  | cons p r ih => simp [addedFrames, ih]

/-- **C06, poses, `fill_tree_with_colliders`.**  Filling an empty BVH from URDF collision
objects (whatever colliders `_make_collider` built, at whatever pose) leaves every collider
at the transform manager's current transform, with exactly the objects' frames as keys. -/
theorem fill_tree_poses_current (objs : List (Frame × Collider ℝ)) (getT : Frame → Pose ℝ)
    (s' : State ℝ) (h : fillTreeWithColliders State.empty objs getT = .ok s') :
    (dKeys s'.colliders).Nodup ∧ (∀ f, f ∈ dKeys s'.colliders ↔ f ∈ objs.map (·.1)) ∧
      (∀ f c, (f, c) ∈ s'.colliders → c.pose = getT f) ∧
      rebuild Aabb.Tree.empty #[] s'.colliders = .ok (s'.tree, s'.payload) := by
  obtain ⟨s1, _, _, hn, hk, hp, _, hr⟩ := poses_current _ getT s' h
  refine ⟨hn, ?_, fun f c hfc => (hp f c hfc).1, hr⟩
  intro f
  rw [hk f, addedFrames_adds]

/-- **C06, poses, tree layer.**  Rebuilding the tree from the current AABBs `b₀, b₁, …` of the
colliders (each with `lo ≤ hi`) by repeated `insert_aabb` — on the tree layer, C05's
`T.insert` — never trips the cost assertion and produces a tight tree with `2n-1` nodes whose
leaves are exactly these AABBs, the `k`-th in row `slotLeaf k` (the row whose
`external_data_list` entry `insert_aabb` fills with `(frame_k, collider_k)`). -/
theorem poses_current_tree (s : State ℝ) (b : Box ℝ) (bs : List (Box ℝ))
    (hcur : s.current.map (·.2) = b :: bs) (hv : ∀ x ∈ s.current, x.2.Valid) :
    ∃ t, buildT (s.current.map (·.2)) = some t ∧ t.Tight ∧
      t.leaves.Perm (tagFrom 0 (s.current.map (·.2))) ∧ t.size = 2 * s.colliders.length - 1 := by
  rw [hcur]
  have hv' : ∀ x ∈ b :: bs, x.Valid := by
    intro x hx
    rw [← hcur, List.mem_map] at hx
    obtain ⟨p, hp, rfl⟩ := hx
    exact hv p hp
  obtain ⟨t, h1, h2, h3, h4⟩ := buildT_leaves b bs hv'
  refine ⟨t, h1, h2, h3, ?_⟩
  have hl : s.colliders.length = bs.length + 1 := by
    have := congrArg List.length hcur
    simpa [State.current] using this
  rw [h4, hl]; omega

/-- **C06, `aabb_overlapping_colliders`.**  On every state accepted by `linkCheck` the call
does not raise and returns a dict (distinct keys) whose key set is exactly the frames whose
*current* AABB passes the closed-interval overlap test against the query collider's AABB,
minus the whitelist; the collider returned for a frame has that frame's current AABB. -/
theorem overlapping_colliders_exact (s : State ℝ) (t : T ℝ) (h : linkCheck s = some (some t))
    (qc : Collider ℝ) (whitelist : List Frame) :
    ∃ res, aabbOverlappingColliders s qc whitelist = .ok res ∧ (dKeys res).Nodup ∧
      (∀ f, f ∈ dKeys res ↔
        (∃ c, (f, c) ∈ s.colliders ∧ overlap c.box qc.box = true) ∧ f ∉ whitelist) ∧
      (∀ f c, (f, c) ∈ res → ∃ c', (f, c') ∈ s.colliders ∧ c'.box = c.box) := by
  obtain ⟨hwf, hl⟩ := linkCheck_sound s t h
  exact overlapping_colliders_linked s t hwf hl qc whitelist

/-- **C06, `aabb_overlapping_with_other_bvh`.**  For two states accepted by `linkCheck` the
result is a list of `(data, data)` pairs without `None`, whose frame pairs are distinct and
are exactly `{(f, g) | current AABB of f in this BVH overlaps current AABB of g in the other}`;
each payload collider has the current AABB of its frame. -/
theorem other_bvh_exact (s o : State ℝ) (t1 t2 : T ℝ) (h1 : linkCheck s = some (some t1))
    (h2 : linkCheck o = some (some t2)) :
    ∃ res : List ((Frame × Collider ℝ) × (Frame × Collider ℝ)),
      aabbOverlappingWithOtherBvh s o = .ok (res.map fun p => (some p.1, some p.2)) ∧
      (res.map fun p => (p.1.1, p.2.1)).Nodup ∧
      (∀ f g, (f, g) ∈ (res.map fun p => (p.1.1, p.2.1)) ↔
        ∃ c d, (f, c) ∈ s.colliders ∧ (g, d) ∈ o.colliders ∧ overlap c.box d.box = true) ∧
      (∀ p ∈ res, ∃ c d, (p.1.1, c) ∈ s.colliders ∧ (p.2.1, d) ∈ o.colliders ∧
        c.box = p.1.2.box ∧ d.box = p.2.2.box) := by
  obtain ⟨hwf1, hl1⟩ := linkCheck_sound s t1 h1
  obtain ⟨hwf2, hl2⟩ := linkCheck_sound o t2 h2
  exact other_bvh_linked s o t1 t2 hwf1 hl1 hwf2 hl2

/-- **C06, `aabb_overlapping_with_self`.**  What the code returns: every *ordered* pair
`(f, g)` of two different frames whose current AABBs overlap — so both `(f, g)` and `(g, f)`
— each exactly once, and nothing else (the `pair[0] == pair[1]` filter removes precisely the
pairs of a frame with itself). -/
theorem self_exact (s : State ℝ) (t : T ℝ) (h : linkCheck s = some (some t)) :
    ∃ res : List ((Frame × Collider ℝ) × (Frame × Collider ℝ)),
      aabbOverlappingWithSelf s = .ok (res.map fun p => (some p.1, some p.2)) ∧
      (res.map fun p => (p.1.1, p.2.1)).Nodup ∧
      (∀ f g, (f, g) ∈ (res.map fun p => (p.1.1, p.2.1)) ↔
        f ≠ g ∧ ∃ c d, (f, c) ∈ s.colliders ∧ (g, d) ∈ s.colliders ∧ overlap c.box d.box = true) ∧
      (∀ p ∈ res, ∃ c d, (p.1.1, c) ∈ s.colliders ∧ (p.2.1, d) ∈ s.colliders ∧
        c.box = p.1.2.box ∧ d.box = p.2.2.box) := by
  obtain ⟨hwf, hl⟩ := linkCheck_sound s t h
  exact self_linked s t hwf hl

/-- **C06, `detect` is complete.**  For every iteration order of `colliders_` (any linked
state), any narrow phase `hit` and any whitelists that have an entry for every collider
frame: `detect` does not raise, its result has an entry for exactly the collider frames, and
a frame `f` is marked `True` whenever `hit f g` for some collider frame `g` outside `f`'s own
whitelist whose current AABB overlaps `f`'s (which every `g` with `hit f g` does when the
AABBs enclose the shapes).  `g = f` is allowed: a frame that is not on its own whitelist and
"collides with itself" is marked, as the docstring warns.  The early `continue` is harmless:
a frame is skipped only if an earlier partner already marked it. -/
theorem detect_complete (s : State ℝ) (t : T ℝ) (h : linkCheck s = some (some t))
    (hit : Frame → Frame → Bool) (wl : Whitelists)
    (hwl : ∀ f ∈ dKeys s.colliders, ∃ w, wl f = some w) :
    ∃ contacts, detect s hit wl = .ok contacts ∧
      (∀ f, f ∈ dKeys s.colliders → (dGet contacts f).isSome = true) ∧
      (∀ f g cf cg w, (f, cf) ∈ s.colliders → (g, cg) ∈ s.colliders → wl f = some w → g ∉ w →
        hit f g = true → overlap cg.box cf.box = true → dGet contacts f = some true) := by
  obtain ⟨hwf, hl⟩ := linkCheck_sound s t h
  have hs := candSpec s t hwf hl wl hwl
  obtain ⟨c', hc', _, _, hkeys, hmark⟩ :=
    detectLoop_complete (candidates s wl) hit (Cand s wl) s.colliders [] hs hl.keysNodup
      (by intro x hx; simp [dGet] at hx)
  refine ⟨c', hc', ?_, ?_⟩
  · intro f hf
    simp only [dKeys, List.mem_map] at hf
    obtain ⟨p, hp, rfl⟩ := hf
    exact hkeys p hp
  · intro f g cf cg w hf hg hw hgw hh ho
    exact hmark (f, cf) hf ⟨g, ⟨w, cf, cg, hw, hf, hg, ho, hgw⟩, hh⟩

/-- **C06, `detect` is sound.**  A frame `f` is marked `True` only if there is a collider
frame `g` with overlapping current AABBs such that `hit f g` with `g` outside `f`'s whitelist
(found in `f`'s own iteration) or `hit g f` with `f` outside `g`'s whitelist (`f` was marked
as the partner `frame2` of `g`).  In particular a frame that collides only with frames on its
whitelist, and is on the whitelist of every frame that collides with it, stays `False`; for
symmetric whitelists and symmetric `hit` both disjuncts describe the same set. -/
theorem detect_sound (s : State ℝ) (t : T ℝ) (h : linkCheck s = some (some t))
    (hit : Frame → Frame → Bool) (wl : Whitelists)
    (hwl : ∀ f ∈ dKeys s.colliders, ∃ w, wl f = some w)
    (contacts : List (Frame × Bool)) (hd : detect s hit wl = .ok contacts) (f : Frame)
    (hf : dGet contacts f = some true) :
    ∃ g cf cg, (f, cf) ∈ s.colliders ∧ (g, cg) ∈ s.colliders ∧
      ((hit f g = true ∧ overlap cg.box cf.box = true ∧ ∃ w, wl f = some w ∧ g ∉ w) ∨
       (hit g f = true ∧ overlap cf.box cg.box = true ∧ ∃ w, wl g = some w ∧ f ∉ w)) := by
  obtain ⟨hwf, hl⟩ := linkCheck_sound s t h
  have hs := candSpec s t hwf hl wl hwl
  rcases detectLoop_sound (candidates s wl) hit (Cand s wl) s.colliders [] hs contacts hd f hf
    with h0 | ⟨p, hp, h1 | h1⟩
  · simp [dGet] at h0
  · obtain ⟨_, g, ⟨w, cf, cg, hw, hcf, hcg, ho, hgw⟩, hh⟩ := h1
    exact ⟨g, cf, cg, hcf, hcg, Or.inl ⟨hh, ho, w, hw, hgw⟩⟩
  · obtain ⟨⟨w, cg, cf, hw, hcg, hcf, ho, hfw⟩, hh⟩ := h1
    exact ⟨p.1, cf, cg, hcf, hcg, Or.inr ⟨hh, ho, w, hw, hfw⟩⟩

/-- **C06, `detect_any`.**  Under the same hypotheses `detect_any` does not raise and returns
`True` exactly when some collider frame `f` has a collider frame `g` outside `f`'s whitelist,
with overlapping current AABBs, such that `hit f g`. -/
theorem detect_any_iff (s : State ℝ) (t : T ℝ) (h : linkCheck s = some (some t))
    (hit : Frame → Frame → Bool) (wl : Whitelists)
    (hwl : ∀ f ∈ dKeys s.colliders, ∃ w, wl f = some w) :
    ∃ b, detectAny s hit wl = .ok b ∧
      (b = true ↔ ∃ f g cf cg w, (f, cf) ∈ s.colliders ∧ (g, cg) ∈ s.colliders ∧
        wl f = some w ∧ g ∉ w ∧ overlap cg.box cf.box = true ∧ hit f g = true) := by
  obtain ⟨hwf, hl⟩ := linkCheck_sound s t h
  have hs := candSpec s t hwf hl wl hwl
  obtain ⟨b, hb, hiff⟩ := detectAnyLoop_iff (candidates s wl) hit (Cand s wl) s.colliders hs
  refine ⟨b, hb, ?_⟩
  rw [hiff]
  constructor
  · rintro ⟨p, hp, g, ⟨w, cf, cg, hw, hcf, hcg, ho, hgw⟩, hh⟩
    exact ⟨p.1, g, cf, cg, w, hcf, hcg, hw, hgw, ho, hh⟩
  · rintro ⟨f, g, cf, cg, w, hcf, hcg, hw, hgw, ho, hh⟩
    exact ⟨(f, cf), hcf, g, ⟨w, cf, cg, hw, hcf, hcg, ho, hgw⟩, hh⟩

/-- **C06, `detect_any` agrees with `detect`**: it is `True` exactly when `detect` marks some
frame. -/
theorem detect_any_iff_detect (s : State ℝ) (t : T ℝ) (h : linkCheck s = some (some t))
    (hit : Frame → Frame → Bool) (wl : Whitelists)
    (hwl : ∀ f ∈ dKeys s.colliders, ∃ w, wl f = some w) :
    ∃ b contacts, detectAny s hit wl = .ok b ∧ detect s hit wl = .ok contacts ∧
      (b = true ↔ ∃ f, dGet contacts f = some true) := by
  obtain ⟨b, hb, hiff⟩ := detect_any_iff s t h hit wl hwl
  obtain ⟨contacts, hc, _, hmark⟩ := detect_complete s t h hit wl hwl
  refine ⟨b, contacts, hb, hc, ?_⟩
  rw [hiff]
  constructor
  · rintro ⟨f, g, cf, cg, w, hcf, hcg, hw, hgw, ho, hh⟩
    exact ⟨f, hmark f g cf cg w hcf hcg hw hgw hh ho⟩
  · rintro ⟨f, hf⟩
    obtain ⟨g, cf, cg, hcf, hcg, h1 | h1⟩ := detect_sound s t h hit wl hwl contacts hc f hf
    · obtain ⟨hh, ho, w, hw, hgw⟩ := h1
      exact ⟨f, g, cf, cg, w, hcf, hcg, hw, hgw, ho, hh⟩
    · obtain ⟨hh, ho, w, hw, hfw⟩ := h1
      exact ⟨g, f, cg, cf, w, hcg, hcf, hw, hfw, ho, hh⟩

/-- **C06, empty BVH.**  A BVH without colliders (`linkCheck = some none`) answers every query
with the empty result and does not raise (no out-of-range read on the empty tree). -/
theorem empty_bvh (s : State ℝ) (h : linkCheck s = some none) (qc : Collider ℝ)
    (whitelist : List Frame) (hit : Frame → Frame → Bool) (wl : Whitelists) :
    aabbOverlappingColliders s qc whitelist = .ok [] ∧ aabbOverlappingWithSelf s = .ok [] ∧
      detect s hit wl = .ok [] ∧ detectAny s hit wl = .ok false := by
  have hroot : s.tree.core.root = INDEX_NONE ∧ s.colliders = [] := by
    unfold linkCheck at h
    split at h
    · cases h
    · rename_i hwf
      split at h
      · rename_i hemp
        refine ⟨?_, by simpa using hemp⟩
        unfold wfCheck at hwf
        split at hwf
        · assumption
        · split at hwf
          · cases hwf
          · split at hwf <;> cases hwf
      · cases h
    · split at h
      · cases h
      · split at h <;> cases h
  obtain ⟨hr, hc⟩ := hroot
  have hq : ∀ q : Box ℝ, queryOverlap q s.tree.core.root s.tree.core.nodes s.tree.core.aabbs = .ok [] := by
    intro q
    rw [hr]
    have : 2 * s.tree.core.nodes.size + 2 = (2 * s.tree.core.nodes.size + 1) + 1 := rfl
    simp only [queryOverlap, this, queryLoop, if_true]
    cases (2 * s.tree.core.nodes.size + 1) <;> simp [queryLoop]
  have hqt : queryTree s.tree.core s.tree.core = .ok [] := by
    have : 2 * s.tree.core.nodes.size + 2 = (2 * s.tree.core.nodes.size + 1) + 1 := rfl
    simp only [queryTree, hr, this, queryTreeLoop, if_true]
    cases (2 * s.tree.core.nodes.size + 1) <;> simp [queryTreeLoop]
  refine ⟨?_, ?_, ?_, ?_⟩
  · simp only [aabbOverlappingColliders, hq, mapE, dOfList, List.foldl_nil]
    induction whitelist with
    | nil => rfl
    | cons w r ih => simpa [dPop] using ih
  · simp [aabbOverlappingWithSelf, hqt, mapE]
  · simp [detect, hc, detectLoop]
  · simp [detectAny, hc, detectAnyLoop]

/-! ### generated whitelists (`urdf_utils.self_collision_whitelists`) -/

/-- the whitelist `self_collision_whitelists` computes for one collision frame -/
def whitelistOf (u : UrdfInfo) (f : Frame) : List Frame :=
  attached u (u.linkOf f) ++ attached u (connectedLink (parentLinks u) (u.linkOf f)) ++
    attached u (connectedLink (childLinks u) (u.linkOf f))

theorem fold_whitelist (u : UrdfInfo) (l : List Frame) (acc : List (Frame × List Frame)) (f : Frame)
    (h : f ∈ l ∨ dGet acc f = some (whitelistOf u f)) :
    dGet (l.foldl (fun wl f => dSet wl f (whitelistOf u f)) acc) f = some (whitelistOf u f) := by
  induction l generalizing acc with
  | nil =>
    rcases h with h | h
    · cases h
    · exact h
  | cons x r ih =>
    simp only [List.foldl_cons]
    apply ih
    by_cases hx : f = x
    · subst hx
      exact Or.inr (dGet_dSet_eq _ _ _)
    · rcases h with h | h
      · rcases List.mem_cons.mp h with h | h
        · exact absurd h hx
        · exact Or.inl h
      · exact Or.inr (by rw [dGet_dSet_ne _ _ _ _ hx]; exact h)

/-- **generated whitelists, value.**  For every collision object the generated whitelist is:
collision frames of its own link, then of its parent link, then of the *one* child link that
`LinkInfo.child_links` retains (the child of the last transform whose parent is this link). -/
theorem generated_whitelist_value (u : UrdfInfo) (f : Frame) (hf : f ∈ u.collisionFrames) :
    dGet (selfCollisionWhitelists u) f = some (whitelistOf u f) :=
  fold_whitelist u u.collisionFrames [] f (Or.inl hf)

/-- **generated whitelists contain the frame itself** (so a collider is never tested
against itself by `detect`), provided the frame follows the naming convention and is a node. -/
theorem generated_whitelist_self (u : UrdfInfo) (f l : Frame) (hf : f ∈ u.collisionFrames)
    (hn : f ∈ u.nodes) (hl : u.linkOf f = some l) :
    ∃ w, dGet (selfCollisionWhitelists u) f = some w ∧ f ∈ w := by
  refine ⟨_, generated_whitelist_value u f hf, ?_⟩
  unfold whitelistOf
  rw [hl]
  simp only [attached, List.mem_append, List.mem_filter]
  exact Or.inl (Or.inl ⟨hn, by simp [hl]⟩)

/-- a robot whose base link `0` has two children `1` and `2`; collision frames `10, 11, 12`
on links `0, 1, 2`; `tm.transforms` in the order pytransform3d's URDF loader creates them -/
def exUrdf : UrdfInfo :=
  { transforms := [(0, 100), (10, 0), (11, 1), (12, 2), (1, 0), (2, 0)],
    nodes := [0, 100, 10, 11, 1, 12, 2],
    collisionFrames := [10, 11, 12],
    linkOf := fun f => if f = 10 then some 0 else if f = 11 then some 1 else if f = 12 then some 2 else none }

/-- **generated whitelists are asymmetric at a branching**: link 0 has children 1 and 2, but
`child_links[0]` keeps only 2 — frame 10 (link 0) is on frame 11's whitelist, frame 11
(link 1) is *not* on frame 10's. -/
theorem generated_whitelists_asymmetric :
    selfCollisionWhitelists exUrdf = [(10, [10, 12]), (11, [11, 10]), (12, [12, 10])] := by
  decide +kernel

/-! ### concrete non-degenerate instances (non-vacuity of the hypotheses) -/

/-- AABB function of a cube of edge 1 (centre = pose translation) -/
def cubeAabb (p : Pose Rat) : Box Rat :=
  ⟨p.t.x - 1/2, p.t.x + 1/2, p.t.y - 1/2, p.t.y + 1/2, p.t.z - 1/2, p.t.z + 1/2⟩

def poseAt (x : Rat) : Pose Rat := ⟨⟨⟨1, 0, 0⟩, ⟨0, 1, 0⟩, ⟨0, 0, 1⟩⟩, ⟨x, 0, 0⟩⟩

/-- three unit cubes added at stale poses, then refreshed to x = 0, 3/4, 3/2:
0|1 and 1|2 overlap, 0|2 do not -/
def exOps : List (Op Rat) :=
  [.add 0 ⟨poseAt 5, cubeAabb⟩, .add 1 ⟨poseAt 7, cubeAabb⟩, .add 2 ⟨poseAt 9, cubeAabb⟩,
   .update fun f => if f = 0 then poseAt 0 else if f = 1 then poseAt (3/4) else poseAt (3/2)]

def exState : State Rat :=
  match run State.empty exOps with
  | .ok s => s
  | .error _ => State.empty

/-- narrow phase of the example: exactly the AABB-overlapping pairs hit -/
def exHit (f g : Frame) : Bool := [(0, 0), (1, 1), (2, 2), (0, 1), (1, 0), (1, 2), (2, 1)].contains (f, g)

/-- asymmetric whitelists: 0 ignores 1, but 1 does not ignore 0; 1 and 2 ignore each other -/
def exWl : Whitelists := fun f =>
  if f = 0 then some [0, 1] else if f = 1 then some [1, 2] else if f = 2 then some [2, 1] else none

-- the history runs without error and the resulting state passes `linkCheck` (hypothesis of
-- the broad-phase and detect theorems) with three leaves
example : (match linkCheck exState with | some (some t) => t.leaves.length | _ => 0) = 3 := by
  decide +kernel
-- poses are current
example : exState.colliders.map (fun p => (p.1, p.2.pose.t.x)) = [(0, 0), (1, 3/4), (2, 3/2)] := by
  decide +kernel
-- broad phase: query box around x = 0 overlaps frames 0 and 1; whitelist removes 1
example : (aabbOverlappingColliders exState ⟨poseAt 0, cubeAabb⟩ []).toOption.map (fun r => r.map (·.1))
    = some [1, 0] := by decide +kernel
example : (aabbOverlappingColliders exState ⟨poseAt 0, cubeAabb⟩ [1, 7]).toOption.map (fun r => r.map (·.1))
    = some [0] := by decide +kernel
-- self query: both orientations of the two overlapping pairs, no (f, f)
example : (aabbOverlappingWithSelf exState).toOption.map
    (fun r => r.map fun p => (p.1.map (·.1), p.2.map (·.1)))
    = some [(some 1, some 2), (some 2, some 1), (some 0, some 1), (some 1, some 0)] := by
  decide +kernel
-- other BVH = the same state: all overlapping ordered pairs incl. (f, f)
example : ((aabbOverlappingWithOtherBvh exState exState).toOption.map List.length) = some 7 := by
  decide +kernel

/-- **asymmetric whitelists, as-is behaviour.**  In the example every frame that hits frame 0
is on 0's whitelist (`exHit 0 g → g ∈ [0, 1]`), yet `detect` marks frame 0: frame 1 does not
whitelist frame 0, finds it as a candidate and marks both.  Frame 2 collides only with
frame 1, they whitelist each other: it stays `False`.  `detect_any` is `True`. -/
theorem detect_asymmetric_marks :
    detect exState exHit exWl = .ok [(0, true), (1, true), (2, false)] ∧
    detectAny exState exHit exWl = .ok true ∧
    (∀ g, g < 3 → exHit 0 g = true → g ∈ [0, 1]) := by
  refine ⟨by decide +kernel, by decide +kernel, by decide⟩

/-- without a whitelist entry for some collider frame `detect` raises `KeyError`
(the documented precondition "whitelists have to be filled") -/
example : detect exState exHit (fun f => if f = 0 then some [] else none) = .error .keyError := by
  decide +kernel

/-- a frame that is not on its own whitelist "collides with itself" and is marked -/
example : detect exState (fun f g => f == g) (fun _ => some []) = .ok [(0, true), (1, true), (2, true)] := by
  decide +kernel

end C06
end D3
