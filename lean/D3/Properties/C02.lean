/-
C02 — Boolean collision tests never miss a clear overlap nor report a clear gap.

Property theorems only (helper lemmas live in D3/Proofs/Intersect*.lean).  Strength S2: universal
exit-branch statements about the executable model of `gjk_intersection_jolt`, `mpr_intersection`,
`gjk_intersection_libccd` (D3/Model/Intersect*.lean) at `α := ℝ`, with ABSTRACT support mappings assumed only to
satisfy `IsSupport`, for all convex sets, all loop states, all iterations.

  (0)  `deep_support_margin`, `gap_support`            geometry both ground-truth classes rest on
  (1)  Jolt : `jolt_false_sep_axis`, `jolt_true_sound`, `jolt_false_stall_not_deep`
  (2)  MPR  : `mpr_outside_portal_sound`, `mpr_refine_false_sound`, `mpr_refine_false_tolerance_sound`,
              `mpr_refine_true_sound_under_portal_invariant`, `mpr_refine_true_flat_portal_asIs_counterexample`
  (3)  libccd: `libccd_false_before_origin`, `libccd_contact_origin_in_tetra_nondegenerate`

Named partial exits (see PARTIAL in harness/props/c02.py): Jolt's solver-dependent exits use the C18 solver
specification as a hypothesis; MPR's True exit needs the portal invariant (not preserved by the code: view swap,
`< EPSILON` ties — counterexample proved); MPR's zero-direction outside exit, both iteration caps, libccd's
`degenerated_*`, `touching_contact`, `|dir|² < ε` exits and the Nesterov loops have no theorem.
-/
import D3.Proofs.IntersectJolt
import D3.Proofs.IntersectMpr
import D3.Proofs.IntersectLibccd

namespace D3
namespace C02
open Isect

/-! ## (0) geometry -/

/-- **C02 (0a).** If a point `z` lies `δ`-inside both `A` and `B` (the ball of radius `δ` about `z` is contained
in each), then for every direction `d` every support point `w` of `A ⊖ B` along `d` has
`⟨d, w⟩ ≥ 2 δ |d|`.  Hence an exit that observes a support value `< 2δ` along a unit direction proves that
the pair is not `δ`-deep. -/
theorem deep_support_margin {A B : V → Prop} {z d w : V} {δ : ℝ} (hδ : 0 ≤ δ)
    (hA : DeepIn A z δ) (hB : DeepIn B z δ) (hw : IsSupport (mdiff A B) d w) :
    2 * δ * V3.norm d ≤ V3.dot d w :=
  Isect.deep_support_margin hδ hA hB hw

/-- unit ball (used by the non-vacuity examples) -/
def ball (c : V) (r : ℝ) : V → Prop := fun p => V3.normSq (p - c) ≤ r * r

theorem ball_support_x (c : V) (r : ℝ) (hr : 0 ≤ r) :
    IsSupport (ball c r) ⟨1, 0, 0⟩ ⟨c.x + r, c.y, c.z⟩ ∧ IsSupport (ball c r) (-⟨1, 0, 0⟩) ⟨c.x - r, c.y, c.z⟩ := by
  refine ⟨⟨by simp [ball, V3.normSq_def], fun x hx => ?_⟩, ⟨by simp [ball, V3.normSq_def], fun x hx => ?_⟩⟩
  · simp only [ball, V3.normSq_def, V3.sub_x, V3.sub_y, V3.sub_z] at hx
    simp only [V3.dot_def]
    nlinarith [mul_self_nonneg (x.y - c.y), mul_self_nonneg (x.z - c.z), mul_self_nonneg (x.x - c.x - r),
      mul_self_nonneg (x.x - c.x + r)]
  · simp only [ball, V3.normSq_def, V3.sub_x, V3.sub_y, V3.sub_z] at hx
    simp only [V3.dot_def, V3.neg_x, V3.neg_y, V3.neg_z]
    nlinarith [mul_self_nonneg (x.y - c.y), mul_self_nonneg (x.z - c.z), mul_self_nonneg (x.x - c.x - r),
      mul_self_nonneg (x.x - c.x + r)]

/-- non-vacuity: two unit balls about the origin share the origin `1`-deep; along `d = e_x` the support
point `(2,0,0)` of the difference attains the bound `2·1·1` -/
example : DeepIn (ball ⟨0, 0, 0⟩ 1) ⟨0, 0, 0⟩ 1 ∧
    IsSupport (mdiff (ball ⟨0, 0, 0⟩ 1) (ball ⟨0, 0, 0⟩ 1)) ⟨1, 0, 0⟩ (⟨0 + 1, 0, 0⟩ - ⟨0 - 1, 0, 0⟩) :=
  ⟨fun x hx => hx, isSupport_mdiff (ball_support_x _ 1 (by norm_num)).1 (ball_support_x _ 1 (by norm_num)).2⟩

/-- **C02 (0b).** If `A ⊖ B` is convex and its minimum-norm point `v` (the closest pair; it exists for
compact colliders) has `|v| ≥ δ > 0`, there is a unit vector `n` with `⟨n, a - b⟩ ≤ -δ` for all `a ∈ A`,
`b ∈ B`: the support value of `A ⊖ B` along `n` is `≤ -δ` (a separating slab of width `δ`). -/
theorem gap_support {A B : V → Prop} (hK : ConvexSet (mdiff A B)) {v : V} (hv : IsMinNorm (mdiff A B) v)
    {δ : ℝ} (hδ : 0 < δ) (hgap : δ ≤ V3.norm v) :
    ∃ n, V3.normSq n = 1 ∧ ∀ a b, A a → B b → V3.dot n (a - b) ≤ -δ := by
  obtain ⟨n, hn, hall⟩ := Isect.gap_support hK hv hδ hgap
  exact ⟨n, hn, fun a b ha hb => hall _ ⟨a, b, ha, hb, rfl⟩⟩

/-- the converse direction used by the harness oracle: a slab certificate implies distance `≥ δ`, and it
excludes any shared deep point -/
theorem slab_certificate_sound {A B : V → Prop} {n : V} {δ : ℝ} (hδ : 0 < δ) (h : Slab A B n δ) :
    GapAtLeast A B δ ∧ Disjoint' A B ∧ ∀ δ' : ℝ, 0 ≤ δ' → ¬ SharedDeep A B δ' :=
  ⟨slab_gap (le_of_lt hδ) h, slab_disjoint hδ h, fun _ h' hd => deep_not_slab h' hδ hd h⟩

/-- non-vacuity of `gap_support`/`slab_certificate_sound`: the one-point sets `{(0,0,0)}` and `{(2,0,0)}` -/
example : Slab (fun p : V => p = ⟨0, 0, 0⟩) (fun p : V => p = ⟨2, 0, 0⟩) ⟨1, 0, 0⟩ 2 := by
  refine ⟨by simp [V3.normSq_def], ?_⟩
  rintro y ⟨a, b, rfl, rfl, rfl⟩
  simp [V3.dot_def]

/-! ## (1) Jolt -/

/-- **C02 (1a) `false_sep_axis`.** Whenever `gjk_intersection_jolt` (model, any fuel, any tolerance) answers
False through the early separating-axis test (exit branch 0: `⟨search_direction, w⟩ < -EPSILON` for the support
point `w` of `A ⊖ B`), the colliders are disjoint — for all sets `A`, `B` and all support mappings. -/
theorem jolt_false_sep_axis {A B : V → Prop} {sA sB : V → V}
    (hA : ∀ d, IsSupport A d (sA d)) (hB : ∀ d, IsSupport B d (sB d)) {tol : ℝ} {fuel its : Nat} {b : Bool}
    (h : IsectJolt.gjkIntersectionJolt sA sB tol fuel = .ok (b, its, 0)) :
    b = false ∧ Disjoint' A B := by
  unfold IsectJolt.gjkIntersectionJolt at h
  obtain ⟨Y', n', prev', dir', s, hs, hbr, hbt, _⟩ := IsectJolt.gjkLoop_last_step sA sB _ _ _ _ _ _ _ _ _ _ h
  have hstep := IsectJolt.false_sep_axis_step (hA dir') (hB (-dir')) hs hbr
  refine ⟨?_, hstep.2.2⟩
  cases b
  · rfl
  · have := hbt rfl; rw [hstep.1] at this; cases this

/-- non-vacuity of `jolt_false_sep_axis`: unit balls about `(0,0,0)` and `(5,0,0)`; the very first call of
`_intersection_loop` (direction `e_x`, empty simplex) leaves through the separating-axis test -/
example : ∃ s, IsectJolt.intersectionLoop (⟨1, 0, 0⟩ : V) ⟨4, 0, 0⟩ #[⟨0, 0, 0⟩, ⟨0, 0, 0⟩, ⟨0, 0, 0⟩, ⟨0, 0, 0⟩]
    0 (1e-20 : ℝ) IsectJolt.MAXF ⟨1, 0, 0⟩ = .ok s ∧ s.br = 0 := by
  refine ⟨⟨.noIntersection, 0, IsectJolt.MAXF, #[⟨0, 0, 0⟩, ⟨0, 0, 0⟩, ⟨0, 0, 0⟩, ⟨0, 0, 0⟩], ⟨1, 0, 0⟩, 0⟩, ?_, ?_⟩
  · unfold IsectJolt.intersectionLoop
    have : V3.dot (⟨1, 0, 0⟩ : V) ((⟨1, 0, 0⟩ : V) - ⟨4, 0, 0⟩) < -IsectJolt.EPS := by
      unfold IsectJolt.EPS D3.Gen.utils__EPSILON
      simp [V3.dot_def]; norm_num
    simp only
    rw [if_pos this]
  · rfl

/-- **C02 (1b) `true_sound`.** Every `Intersection` answer of `_intersection_loop` (all three tests:
`simplex == 0xf`, `|v|² ≤ tolerance²`, `|v|² ≤ EPSILON·max|Y|²`), for a solver result that obeys the C18
specification (`SolverInHull`: the point lies in `A ⊖ B`, its reported squared norm is exact, `0xf` is only
reported for the origin), exhibits `a ∈ A`, `b ∈ B` with `|a - b|² ≤ max(tolerance², EPSILON·max|Y|²)` — a
common point in the `0xf` case.  So True is never answered when the colliders are farther apart than
`max(tolerance, √EPSILON·max|Y|)`. -/
theorem jolt_true_sound {A B : V → Prop} {p q : V} {Y : Array V} {n : Nat} {tolSq prev : ℝ} {dir : V}
    {s : IsectJolt.Step ℝ} (h : IsectJolt.intersectionLoop p q Y n tolSq prev dir = .ok s)
    (hs : s.state = .intersection)
    (hsolver : ∀ r, Simplex.getClosestPointToOrigin (Y.set! n (p - q)) (n + 1) prev = .ok r →
      IsectJolt.SolverInHull (mdiff A B) r) :
    ∃ a b, A a ∧ B b ∧
      ((s.br = 2 ∧ a = b) ∨ (s.br = 3 ∧ V3.normSq (a - b) ≤ tolSq) ∨
       (s.br = 4 ∧ ∃ m, IsectJolt.maxYLengthSquared (Y.set! n (p - q)) (n + 1) = .ok m ∧
          V3.normSq (a - b) ≤ IsectJolt.EPS * m)) :=
  IsectJolt.true_sound_step h hs hsolver

/-- corollary in the vocabulary of the harness oracle: no True answer on a pair separated by a slab wider than
`max(tolerance, √(EPSILON·max|Y|²))` -/
theorem jolt_true_not_on_gap {A B : V → Prop} {p q : V} {Y : Array V} {n : Nat} {tolSq prev : ℝ} {dir : V}
    {s : IsectJolt.Step ℝ} (h : IsectJolt.intersectionLoop p q Y n tolSq prev dir = .ok s)
    (hs : s.state = .intersection)
    (hsolver : ∀ r, Simplex.getClosestPointToOrigin (Y.set! n (p - q)) (n + 1) prev = .ok r →
      IsectJolt.SolverInHull (mdiff A B) r)
    {nrm : V} {δ : ℝ} (hδ : 0 < δ) (hslab : Slab A B nrm δ) (htol : tolSq < δ * δ)
    (hrel : ∀ m, IsectJolt.maxYLengthSquared (Y.set! n (p - q)) (n + 1) = .ok m →
      IsectJolt.EPS * m < δ * δ) : False :=
  IsectJolt.true_not_slab h hs hsolver hδ hslab htol hrel

/-- non-vacuity of the solver hypothesis: the record "origin, squared norm 0, set 0xf" satisfies
`SolverInHull` for two overlapping balls -/
example : IsectJolt.SolverInHull (mdiff (ball ⟨0, 0, 0⟩ 1) (ball ⟨1, 0, 0⟩ 1))
    ⟨true, ⟨0, 0, 0⟩, 0, 0xf, 0⟩ :=
  ⟨mdiff_zero_iff.mpr ⟨⟨1 / 2, 0, 0⟩, by simp [ball, V3.normSq_def]; norm_num,
      by simp [ball, V3.normSq_def]; norm_num⟩,
    by simp [V3.normSq_def], fun _ => rfl⟩

/-- **C02 (1c) `false_stall_not_deep`.** From the second iteration on (`search_direction = -v_prev`,
`prev_v_len_sq = |v_prev|² > 0`), for a pair sharing a point `δ`-inside both, with a solver whose result is at
least as close to the origin as every point of the segment `[v_prev, w]` (C18 optimality, `SolverBeatsSegment`)
and `EPSILON·|v_prev - w|² < 4δ²` (i.e. `|v_prev - w| < 2δ/√EPSILON ≈ 1.3e8·δ`; in the domain
`|v_prev - w| ≤ diam(A ⊖ B)` is a few `L` while `δ = 1e-3·L`), `_intersection_loop` can leave neither through
the stall test (branch 5) nor through the solver's "no improvement" answer (branch 1). -/
theorem jolt_false_stall_not_deep {A B : V → Prop} {p q vprev : V} {Y : Array V} {n : Nat} {tolSq : ℝ}
    {s : IsectJolt.Step ℝ} {δ : ℝ} (hδ : 0 < δ)
    (hA : IsSupport A (-vprev) p) (hB : IsSupport B (-(-vprev)) q)
    (h : IsectJolt.intersectionLoop p q Y n tolSq (V3.normSq vprev) (-vprev) = .ok s)
    (hbr : s.br = 1 ∨ s.br = 5) (hv : 0 < V3.normSq vprev)
    (hsolver : ∀ r, Simplex.getClosestPointToOrigin (Y.set! n (p - q)) (n + 1) (V3.normSq vprev) = .ok r →
      IsectJolt.SolverBeatsSegment vprev (p - q) r)
    (hdeep : SharedDeep A B δ)
    (hdiam : IsectJolt.EPS * V3.normSq (vprev - (p - q)) < 4 * δ * δ) : False :=
  IsectJolt.false_stall_not_deep_step hδ hA hB h hbr hv hsolver hdeep hdiam

/-- non-vacuity of the numeric side condition for the domain of the property: `δ = 1e-3`, `|v_prev - w| = 10` -/
example : IsectJolt.EPS * (10 * 10 : ℝ) < 4 * 1e-3 * 1e-3 := by
  unfold IsectJolt.EPS D3.Gen.utils__EPSILON; norm_num

/-! ## (2) MPR -/

/-- **C02 (2a) `outside_portal_sound`.** Every `ORIGIN_OUTSIDE_PORTAL` result of `_discover_portal` (the three
`v·d < EPSILON` tests: on `v1`, on `v2`, on `v3` in the loop) exhibits a `norm_vector` direction — unit, or zero
in the degenerate collinear case — along which the support value of `A ⊖ B` is `< EPSILON`; for a **unit**
direction that excludes a shared point `δ`-inside both for every `δ ≥ EPSILON/2`.  Consequently, on a
`δ`-deep pair the answer False of `mpr_intersection` through these exits can only come from the zero search
direction (that degenerate case is *not* excluded: partial). -/
theorem mpr_outside_portal_sound {A B : V → Prop} {sA sB : V → V}
    (hA : ∀ d, IsSupport A d (sA d)) (hB : ∀ d, IsSupport B d (sB d)) (c1 c2 : V) (maxIt : Nat)
    {δ : ℝ} (hδ : IsectMpr.EPS ≤ 2 * δ) (hdeep : SharedDeep A B δ)
    (h : (IsectMpr.discoverPortal c1 c2 (IsectMpr.supMD sA sB) maxIt).state = .originOutsidePortal) :
    ∃ dir : V, dir = ⟨0, 0, 0⟩ ∧ V3.dot (IsectMpr.supMD sA sB dir) dir < IsectMpr.EPS :=
  IsectMpr.outside_portal_sound_nonzero_dir c1 c2 maxIt (IsectMpr.supMD_isSupport hA hB) hδ hdeep h

/-- the unit-direction core of (2a), usable on its own -/
theorem mpr_outside_unit_dir_not_deep {A B : V → Prop} {sup : V → V}
    (hsup : ∀ d, IsSupport (mdiff A B) d (sup d)) {dir : V} (hd : V3.normSq dir = 1)
    (hlt : V3.dot (sup dir) dir < IsectMpr.EPS) {δ : ℝ} (hδ : IsectMpr.EPS ≤ 2 * δ) : ¬ SharedDeep A B δ :=
  IsectMpr.outside_portal_sound hsup hd hlt hδ

/-- non-vacuity: `δ = 1e-3` satisfies the side condition -/
example : (IsectMpr.EPS : ℝ) ≤ 2 * 1e-3 := by
  unfold IsectMpr.EPS D3.Gen.utils__EPSILON; norm_num

/-- **C02 (2b) `refine_false_sound`.** If `mpr_intersection` (model, any fuel/tolerance/iteration cap) answers
False from `_refine_portal` because the new support point does not pass the origin along the portal normal
(refine branch 1), the colliders are disjoint. -/
theorem mpr_refine_false_sound {A B : V → Prop} {sA sB : V → V}
    (hA : ∀ d, IsSupport A d (sA d)) (hB : ∀ d, IsSupport B d (sB d)) {c1 c2 : V} {tol : ℝ}
    {maxIt fuel dbr : Nat} {b : Bool}
    (h : IsectMpr.mprIntersection c1 c2 sA sB tol maxIt fuel = .ok (b, dbr, 1)) :
    b = false ∧ Disjoint' A B := by
  rcases IsectMpr.mprIntersection_cases h with ⟨h99, _⟩ | ⟨its, hr⟩ | ⟨h99, _⟩
  · omega
  · obtain ⟨P0, P', hstep⟩ := IsectMpr.refinePortal_last_step _ _ _ _ _ _ _ _ hr
    cases b
    · exact ⟨rfl, (IsectMpr.refine_false_sound (IsectMpr.supMD_isSupport hA hB) hstep).2⟩
    · exfalso
      unfold IsectMpr.refineStep at hstep
      simp only at hstep
      split at hstep
      · simp at hstep
      · split at hstep
        · simp at hstep
        · split at hstep <;> simp at hstep
  · omega

/-- **C02 (2b') `refine_false_tolerance_sound`.** If `_refine_portal` answers False through
`_portal_reach_tolerance` (refine branch 2), the support value of `A ⊖ B` along the unit portal normal is
`< mpr_tolerance - 9·EPSILON`, so the colliders share no point `δ`-inside both for any `δ ≥ mpr_tolerance/2`:
the overlap, if any, is not deeper than `mpr_tolerance`. -/
theorem mpr_refine_false_tolerance_sound {A B : V → Prop} {sup : V → V}
    (hsup : ∀ d, IsSupport (mdiff A B) d (sup d)) {tol : ℝ} {P P' : IsectMpr.Portal ℝ}
    (h : IsectMpr.refineStep sup tol P = (some (false, 2), P')) {δ : ℝ} (hδ : tol ≤ 2 * δ) :
    ¬ SharedDeep A B δ :=
  (IsectMpr.refine_false_tolerance_sound hsup h).2 δ hδ

/-- non-vacuity: with the default `mpr_tolerance = 1e-4`, `δ = 1e-3` (the floor of the property's band) is
covered -/
example : (IsectMpr.MPR_TOL : ℝ) ≤ 2 * 1e-3 := by
  rw [IsectMpr.MPR_TOL_val]; norm_num

/-- **C02 (2c) `refine_true_sound` under the portal invariant.** If the portal satisfies `PortalInv` (origin ray
through the portal triangle, portal facing away from `v0` — *non-degenerate*) then the True exit of
`_refine_portal` (`⟨v1, dir⟩ > -10·EPSILON`) yields a point `κ·v0`, `κ ≥ 0`, of the tetrahedron `hull{v0..v3}`
with `κ·⟨dir, -v0⟩ < 10·EPSILON`; and if `⟨dir, v1⟩ ≥ 0` the origin itself lies in the tetrahedron. -/
theorem mpr_refine_true_sound_under_portal_invariant {P : IsectMpr.Portal ℝ}
    (hinv : IsectMpr.PortalInv P (IsectMpr.portalDirection P))
    (h : IsectMpr.encapsulatesOrigin P.v1 (IsectMpr.portalDirection P) = true) :
    (∃ κ : ℝ, 0 ≤ κ ∧ κ * V3.dot (IsectMpr.portalDirection P) (⟨0, 0, 0⟩ - P.v0) < 10.0 * IsectMpr.EPS ∧
      Hull4 P.v0 P.v1 P.v2 P.v3 (κ * P.v0)) ∧
    (0 ≤ V3.dot (IsectMpr.portalDirection P) P.v1 → Hull4 P.v0 P.v1 P.v2 P.v3 ⟨0, 0, 0⟩) :=
  ⟨IsectMpr.refine_true_sound_tol hinv h, fun h0 => IsectMpr.refine_true_sound hinv h0⟩

/-- non-vacuity of `PortalInv`: `v0 = (0,0,-1)`, portal triangle in the plane `z = 1` around the z-axis,
normal `e_z` -/
example : IsectMpr.PortalInv ⟨⟨0, 0, -1⟩, ⟨1, 0, 1⟩, ⟨-1, 1, 1⟩, ⟨-1, -1, 1⟩⟩ (⟨0, 0, 1⟩ : V) := by
  refine ⟨⟨1 / 4, 1 / 8, 1 / 8, by norm_num, by norm_num, by norm_num, ?_⟩, ?_, ?_, ?_⟩
  · apply V3.ext' <;> simp <;> norm_num
  · simp [V3.dot_def]
  · simp [V3.dot_def]
  · simp [V3.dot_def]

/-- **C02 (2d) counterexample on the faithful model.** Without the non-degeneracy part of the portal invariant
the True exit is unsound: from the flat portal `v0=(0,0,-4), v1=(1,0,-1), v2=(-1,0,-1), v3=(0,0,-2)`
`_refine_portal` answers True for every support mapping and tolerance, although `hull{v0..v3}` stays at
distance `≥ 1` from the origin.  (Finding F-mpr-origin-on-portal-side-plane: `mpr_intersection` answers True on
concrete separated collider pairs, see known_findings.d/C02.json.) -/
theorem mpr_refine_true_flat_portal_asIs_counterexample (sup : V → V) (tol : ℝ) :
    IsectMpr.refineStep sup tol IsectMpr.flatPortal = (some (true, 0), IsectMpr.flatPortal) ∧
    ∀ x, Hull4 IsectMpr.flatPortal.v0 IsectMpr.flatPortal.v1 IsectMpr.flatPortal.v2 IsectMpr.flatPortal.v3 x →
      x.z ≤ -1 :=
  IsectMpr.refine_true_flat_portal_asIs_counterexample sup tol

/-! ## (3) libccd -/

/-- **C02 (3a) `false_before_origin`.** Whenever `gjk_intersection_libccd` (model, any iteration cap) answers
False because the new support point does not pass the origin (`⟨w, dir⟩ < -√EPSILON`, exit branch 1), the
colliders are disjoint. -/
theorem libccd_false_before_origin {A B : V → Prop} {sA sB : V → V}
    (hA : ∀ d, IsSupport A d (sA d)) (hB : ∀ d, IsSupport B d (sB d)) {f1 f2 : V} {maxIt its : Nat} {b : Bool}
    (h : IsectLibccd.gjkIntersectionLibccd f1 f2 sA sB maxIt = .ok (b, its, 1)) :
    b = false ∧ Disjoint' A B := by
  unfold IsectLibccd.gjkIntersectionLibccd at h
  obtain ⟨S0, n0, dir0, S', n', dir', rb, hstep⟩ :=
    IsectLibccd.gjkLoop_last_step _ _ _ _ _ _ _ _ _ h (by norm_num)
  have := IsectLibccd.false_before_origin (A := A) (B := B)
    (fun d => isSupport_mdiff (hA d) (hB (-d))) hstep
  exact ⟨this.1, this.2.2⟩

/-- non-vacuity of `libccd_false_before_origin`'s exit: unit balls about `(0,0,0)` and `(5,0,0)`, first
vertices `(0,0,1)` and `(5,0,1)`: the first pass of the loop (`dir = (5,0,0)`, support point `(-3,0,0)`) leaves
through the "before origin" test -/
example : ∃ r, IsectLibccd.gjkStep (fun _ => (⟨-3, 0, 0⟩ : V)) ⟨⟨-5, 0, 0⟩, ⟨0, 0, 0⟩, ⟨0, 0, 0⟩, ⟨0, 0, 0⟩⟩ 1
    ⟨5, 0, 0⟩ = .ok r ∧ r.1 = some (false, 1) := by
  refine ⟨(some (false, 1), ⟨⟨-5, 0, 0⟩, ⟨0, 0, 0⟩, ⟨0, 0, 0⟩, ⟨0, 0, 0⟩⟩, 1, ⟨5, 0, 0⟩, 0), ?_, ?_⟩
  · unfold IsectLibccd.gjkStep
    simp only
    have h1 : ¬ V3.dot (⟨-3, 0, 0⟩ : V) ⟨-3, 0, 0⟩ < IsectLibccd.EPS := by
      unfold IsectLibccd.EPS D3.Gen.utils__EPSILON; simp [V3.dot_def]; norm_num
    have h2 : V3.dot (⟨-3, 0, 0⟩ : V) ⟨5, 0, 0⟩ < -IsectLibccd.EPS_SQRT := by
      unfold IsectLibccd.EPS_SQRT D3.Gen.gjk__gjk_libccd__EPSILON_SQRT; simp [V3.dot_def]; norm_num
    rw [if_neg h1, if_pos h2]
  · rfl

/-- **C02 (3b) `contact_origin_in_tetra` (non-degenerate case).** The CONTACT answer "origin inside the
tetrahedron" of `_tetrahedron` (branch 2), for a simplex with non-zero volume whose oldest face has the
origin on the side of the newest point (GJK's invariant, not tested by the code), implies that the origin is
a convex combination of the four simplex points.  The degenerate (zero-volume) case is *partial*: the three
sign tests then compare `0 == 0`. -/
theorem libccd_contact_origin_in_tetra_nondegenerate {S : IsectLibccd.Sx ℝ} {r : IsectLibccd.Refine ℝ}
    (h : IsectLibccd.tetrahedron S = .ok r) (hbr : r.br = 2)
    (hdet : V3.dot (V3.cross (S.v1 - S.v3) (S.v0 - S.v3)) (S.v2 - S.v3) ≠ 0)
    (hopp : 0 ≤ V3.dot (V3.cross (S.v1 - S.v2) (S.v0 - S.v2)) (S.v3 - S.v2) *
        V3.dot (V3.cross (S.v1 - S.v2) (S.v0 - S.v2)) (-S.v2)) :
    r.state = .contact ∧ Hull4 S.v3 S.v2 S.v1 S.v0 ⟨0, 0, 0⟩ :=
  IsectLibccd.contact_origin_in_tetra h hbr hdet hopp

/-- non-vacuity of the geometric hypotheses: the tetrahedron `A=(0,0,1), B=(1,0,-1), C=(-1,1,-1), D=(-1,-1,-1)`
around the origin -/
example : Hull4 (⟨0, 0, 1⟩ : V) ⟨1, 0, -1⟩ ⟨-1, 1, -1⟩ ⟨-1, -1, -1⟩ ⟨0, 0, 0⟩ := by
  apply IsectLibccd.origin_in_tetra_of_signs
  · simp [V3.dot_def, V3.cross]; norm_num
  · simp [V3.dot_def, V3.cross, IsectLibccd.signI]; norm_num
  · simp [V3.dot_def, V3.cross, IsectLibccd.signI]; norm_num
  · simp [V3.dot_def, V3.cross, IsectLibccd.signI]; norm_num
  · simp [V3.dot_def, V3.cross]; norm_num

end C02
end D3
